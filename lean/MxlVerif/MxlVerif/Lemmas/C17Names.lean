/- the identifier mapping (pysbml's name_to_py = `Mxl.C08.nameToPy`): agreement with the tables extracted from the
   source, behaviour on legal SBML identifiers, renaming lemma for MathML -/
import MxlVerif.Lemmas.C17
import MxlVerif.Generated.C17Names
namespace Mxl.C17
open Mxl.C08

/-! ### the `.replace` chain, read from the source, applied to one character -/

/-- one `.replace(a, b)` with a one-character pattern, on a list of characters -/
def replaceStep (cs : List Char) (ab : String × String) : List Char :=
  match ab.1.toList with
  | [p] => cs.flatMap fun x => if x == p then ab.2.toList else [x]
  | _ => cs

def chainOnChar (chain : List (String × String)) (c : Char) : List Char := chain.foldl replaceStep [c]

/-- the one-character patterns of a chain -/
def chainPats (chain : List (String × String)) : List Char :=
  chain.filterMap fun ab => match ab.1.toList with | [p] => some p | _ => none

theorem replaceStep_id (c : Char) (ab : String × String) (h : c ∉ chainPats [ab]) : replaceStep [c] ab = [c] := by
  unfold replaceStep
  split
  · rename_i p hp
    have : c ≠ p := by
      intro e; subst e
      apply h
      simp [chainPats, hp]
    simp
    intro e; exact absurd e this
  · rfl

theorem chainOnChar_id (chain : List (String × String)) (c : Char) (h : c ∉ chainPats chain) :
    chainOnChar chain c = [c] := by
  induction chain with
  | nil => rfl
  | cons ab rest ih =>
    have h1 : c ∉ chainPats [ab] := by
      intro hm; apply h
      simp only [chainPats, List.filterMap_cons] at hm ⊢
      split at hm <;> simp_all
    have h2 : c ∉ chainPats rest := by
      intro hm; apply h
      simp only [chainPats, List.filterMap_cons]
      split <;> simp_all [chainPats]
    simp only [chainOnChar, List.foldl_cons, replaceStep_id c ab h1]
    exact ih h2

/-- the chain after its first entry (SBML_DOT ↦ ".") is `replaceChar`, for every character -/
theorem chain_agrees (c : Char) : chainOnChar Gen.replaceChain.tail c = replaceChar c := by
  by_cases h : c ∈ chainPats Gen.replaceChain.tail
  · have all : ∀ x ∈ chainPats Gen.replaceChain.tail, chainOnChar Gen.replaceChain.tail x = replaceChar x := by
      decide +kernel
    exact all c h
  · rw [chainOnChar_id _ _ h]
    have hp : chainPats Gen.replaceChain.tail =
        [' ', '-', '(', ')', '[', ']', '.', ',', ':', ';', '"', '\'', '^', '|', '=', '>', '<', '+', '-', '*', '/'] := by
      decide +kernel
    rw [hp] at h
    simp only [List.mem_cons, not_or, List.not_mem_nil] at h
    obtain ⟨h1, h2, h3, h4, h5, h6, h7, h8, h9, h10, h11, h12, h13, h14, h15, h16, h17, h18, _, h20, h21, _⟩ := h
    simp [replaceChar, *]

/-! ### the mapping on legal SBML identifiers (SId = `[A-Za-z_][A-Za-z0-9_]*`) -/

def isSId (s : String) : Bool :=
  match s.toList with
  | [] => false
  | c :: cs => (isAsciiAlpha c || c == '_') && cs.all isWordChar

/-- `<keyword>_` -/
def isKeywordUnderscore (s : String) : Bool := pyKeywords.any fun k => s == k ++ "_"

/-- the domain on which the mapping is injective: SIds without `__` that are not a keyword plus underscore -/
def inNameDomain (s : String) : Bool := isSId s && noDU s.toList && !isKeywordUnderscore s

theorem nameToPy_keyword : ∀ k ∈ pyKeywords, nameToPy k = k ++ "_" := by decide +kernel

theorem keyword_head_bool : ∀ k ∈ pyKeywords,
    (match k.toList with | c :: _ => isAsciiAlpha c | [] => false) = true := by decide +kernel

theorem keyword_head (k : String) (hk : k ∈ pyKeywords) : ∃ c cs, k.toList = c :: cs ∧ isAsciiAlpha c = true := by
  have h := keyword_head_bool k hk
  cases hl : k.toList with
  | nil => simp [hl] at h
  | cons c cs => simp only [hl] at h; exact ⟨c, cs, rfl, h⟩

theorem nameToPy_sid_underscore (s : String) (cs : List Char) (hs : s.toList = '_' :: cs)
    (hw : cs.all isWordChar = true) (hd : noDU s.toList = true) (hk : pyKeywords.contains s = false) :
    nameToPy s = "_" ++ s := by
  have hw' : ('_' :: cs).all isWordChar = true := by
    simp only [List.all_cons, Bool.and_eq_true]; exact ⟨by decide, hw⟩
  rw [hs] at hd
  have hof : String.ofList ('_' :: cs) = s := by rw [← hs, String.ofList_toList]
  unfold nameToPy
  simp only [hs]
  rw [unescape_noDU ('_' :: cs) hd]
  simp only [hof, hk, Bool.false_eq_true, if_false]
  rw [dropSubstr_noDU ('_' :: cs) hd, flatMap_word ('_' :: cs) hw']
  have : ('_' : Char).isAlpha = false := by decide
  simp [this, hof]

/-- the three shapes of an identifier of the domain and of its image -/
theorem nameToPy_shape (s : String) (h : inNameDomain s = true) :
    (s ∈ pyKeywords ∧ (nameToPy s).toList = s.toList ++ ['_'] ∧ ∃ c cs, s.toList = c :: cs ∧ isAsciiAlpha c = true) ∨
    (s ∉ pyKeywords ∧ nameToPy s = s ∧ ∃ c cs, s.toList = c :: cs ∧ isAsciiAlpha c = true) ∨
    (s ∉ pyKeywords ∧ (nameToPy s).toList = '_' :: s.toList ∧ ∃ cs, s.toList = '_' :: cs) := by
  simp only [inNameDomain, Bool.and_eq_true, Bool.not_eq_true'] at h
  obtain ⟨⟨hs, hd⟩, _⟩ := h
  by_cases hk : s ∈ pyKeywords
  · left
    refine ⟨hk, ?_, keyword_head s hk⟩
    rw [nameToPy_keyword s hk, String.toList_append]; rfl
  · right
    have hk' : pyKeywords.contains s = false := by simpa using hk
    unfold isSId at hs
    cases hl : s.toList with
    | nil => simp [hl] at hs
    | cons c cs =>
      simp only [hl, Bool.and_eq_true, Bool.or_eq_true] at hs
      rcases hs.1 with ha | hu
      · left
        refine ⟨hk, ?_, c, cs, rfl, ha⟩
        apply nameToPy_plain
        rw [hl] at hd
        simp only [isRoundTripName, isPlainName, hl, ha, hs.2, hd, hk', Bool.and_self, Bool.not_false]
      · right
        have hc : c = '_' := by simpa using hu
        subst hc
        refine ⟨hk, ?_, cs, rfl⟩
        rw [nameToPy_sid_underscore s cs hl hs.2 hd hk', String.toList_append, hl]; rfl

theorem nameToPy_injective (s t : String) (hs : inNameDomain s = true) (ht : inNameDomain t = true)
    (h : nameToPy s = nameToPy t) : s = t := by
  have hl : (nameToPy s).toList = (nameToPy t).toList := by rw [h]
  have notAlpha : isAsciiAlpha '_' = false := by decide
  have kwus : ∀ a b : String, a ∈ pyKeywords → b.toList = a.toList ++ ['_'] → inNameDomain b = true → False := by
    intro a b ha hb hdom
    simp only [inNameDomain, Bool.and_eq_true, Bool.not_eq_true'] at hdom
    have : isKeywordUnderscore b = true := by
      simp only [isKeywordUnderscore, List.any_eq_true]
      refine ⟨a, ha, ?_⟩
      have : b = a ++ "_" := by
        apply String.ext; rw [hb, String.toList_append]; rfl
      simp [this]
    rw [this] at hdom; cases hdom.2
  rcases nameToPy_shape s hs with ⟨ks, is, cs, css, hcs, has⟩ | ⟨ks, is, cs, css, hcs, has⟩ | ⟨ks, is, css, hcs⟩ <;>
  rcases nameToPy_shape t ht with ⟨kt, it, ct, cts, hct, hat⟩ | ⟨kt, it, ct, cts, hct, hat⟩ | ⟨kt, it, cts, hct⟩
  · rw [is, it] at hl
    exact String.ext (List.append_cancel_right hl)
  · rw [is, it] at hl
    exact (kwus s t ks hl.symm ht).elim
  · rw [is, it, hcs, hct] at hl
    simp only [List.cons_append, List.cons.injEq] at hl
    rw [hl.1] at has; rw [has] at notAlpha; cases notAlpha
  · rw [is, it] at hl
    exact (kwus t s kt hl hs).elim
  · rw [is, it] at h; exact h
  · rw [is] at hl; rw [it, hcs] at hl
    simp only [List.cons.injEq] at hl
    rw [hl.1] at has; rw [has] at notAlpha; cases notAlpha
  · rw [is, it, hct] at hl
    simp only [List.cons_append, List.cons.injEq] at hl
    rw [← hl.1] at hat; rw [hat] at notAlpha; cases notAlpha
  · rw [it] at hl; rw [is, hct] at hl
    simp only [List.cons.injEq] at hl
    rw [← hl.1] at hat; rw [hat] at notAlpha; cases notAlpha
  · rw [is, it] at hl
    simp only [List.cons.injEq, true_and] at hl
    exact String.ext hl

/-! ### renaming identifiers in MathML -/

theorem evalMathList_rename (I : Interp) (f : String → String) (e1 e2 : VEnv) :
    ∀ cs, (∀ m ∈ cs, evalMath I e2 (mapMath f m) = evalMath I e1 m) →
      evalMathList I e2 (mapMathList f cs) = evalMathList I e1 cs
  | [], _ => rfl
  | m :: ms, h => by
    simp only [mapMathList, evalMathList, h m List.mem_cons_self,
      evalMathList_rename I f e1 e2 ms (fun x hx => h x (List.mem_cons_of_mem _ hx))]

theorem evalPieces_rename (I : Interp) (f : String → String) (e1 e2 : VEnv) :
    ∀ cs, (∀ m ∈ cs, evalMath I e2 (mapMath f m) = evalMath I e1 m) →
      evalPieces I e2 (mapMathList f cs) = evalPieces I e1 cs
  | [], _ => rfl
  | [o], h => by simp [mapMathList, evalPieces, h o List.mem_cons_self]
  | v :: c :: rest, h => by
    have hv := h v List.mem_cons_self
    have hc := h c (List.mem_cons_of_mem _ List.mem_cons_self)
    have hr := evalPieces_rename I f e1 e2 rest
      (fun x hx => h x (List.mem_cons_of_mem _ (List.mem_cons_of_mem _ hx)))
    simp only [mapMathList, evalPieces, hv, hc, hr]

theorem evalAnd_rename (I : Interp) (f : String → String) (e1 e2 : VEnv) :
    ∀ cs, (∀ m ∈ cs, evalMath I e2 (mapMath f m) = evalMath I e1 m) →
      evalAnd I e2 (mapMathList f cs) = evalAnd I e1 cs
  | [], _ => rfl
  | c :: rest, h => by
    simp only [mapMathList, evalAnd, h c List.mem_cons_self,
      evalAnd_rename I f e1 e2 rest (fun x hx => h x (List.mem_cons_of_mem _ hx))]

theorem evalOr_rename (I : Interp) (f : String → String) (e1 e2 : VEnv) :
    ∀ cs, (∀ m ∈ cs, evalMath I e2 (mapMath f m) = evalMath I e1 m) →
      evalOr I e2 (mapMathList f cs) = evalOr I e1 cs
  | [], _ => rfl
  | c :: rest, h => by
    simp only [mapMathList, evalOr, h c List.mem_cons_self,
      evalOr_rename I f e1 e2 rest (fun x hx => h x (List.mem_cons_of_mem _ hx))]

/-- renaming every identifier of a tree with `f` and reading it in an environment that gives `f n` the value `n`
    had gives the same value — no injectivity needed at this level, only consistency of the environment -/
theorem evalMath_rename (I : Interp) (f : String → String) (e1 e2 : VEnv) :
    ∀ m, (∀ n ∈ mathNames m, e2 (f n) = e1 n) → evalMath I e2 (mapMath f m) = evalMath I e1 m := by
  refine (mapMath.mutual_induct
    (motive_1 := fun m => (∀ n ∈ mathNames m, e2 (f n) = e1 n) → evalMath I e2 (mapMath f m) = evalMath I e1 m)
    (motive_2 := fun cs => (∀ n ∈ mathNamesList cs, e2 (f n) = e1 n) →
      ∀ m ∈ cs, evalMath I e2 (mapMath f m) = evalMath I e1 m)
    ?ci ?app ?other ?nil ?cons).1
  case ci => intro n h; simpa [evalMath, mapMath] using h n (by simp [mathNames])
  case app =>
    intro t cs ih h
    have hel := ih (by simpa [mathNames] using h)
    by_cases hl : isLazy t = true
    · cases t <;> simp [isLazy] at hl
      · simpa [evalMath, mapMath] using evalPieces_rename I f e1 e2 cs hel
      · simpa [evalMath, mapMath] using evalAnd_rename I f e1 e2 cs hel
      · simpa [evalMath, mapMath] using evalOr_rename I f e1 e2 cs hel
    · have hl' : isLazy t = false := by simpa using hl
      simp only [mapMath]
      rw [evalMath_strict I e2 t _ hl', evalMath_strict I e1 t cs hl', evalMathList_rename I f e1 e2 cs hel]
  case other =>
    intro m h1 h2 _
    cases m with
    | ci n => exact absurd rfl (h1 n)
    | apply t cs => exact absurd rfl (h2 t cs)
    | cn q => simp [evalMath, mapMath]
    | cnInf => simp [evalMath, mapMath]
    | cnNan => simp [evalMath, mapMath]
    | csym s => cases s <;> simp [evalMath, mapMath]
  case nil => intro _ m hm; cases hm
  case cons =>
    intro m ms ihm ihms h x hx
    have h1 : ∀ n ∈ mathNames m, e2 (f n) = e1 n := fun n hn => h n (by simp [mathNamesList, hn])
    have h2 : ∀ n ∈ mathNamesList ms, e2 (f n) = e1 n := fun n hn => h n (by simp [mathNamesList, hn])
    rcases List.mem_cons.mp hx with rfl | hx'
    · exact ihm h1
    · exact ihms h2 x hx'

end Mxl.C17
