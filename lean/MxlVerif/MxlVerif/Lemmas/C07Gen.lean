/-
C07: the generated straight-line program against the model's own right-hand side.
Hypotheses, naming facts, the order list as a list of function definitions.  Core Lean only.
-/
import MxlVerif.Model.C07
import MxlVerif.Lemmas.C07Core
namespace Mxl.C07
open Mxl

theorem nodupB_iff : ∀ (l : List Name), nodupB l = true ↔ l.Nodup := by
  intro l; induction l with
  | nil => simp [nodupB]
  | cons a as ih => simp [nodupB, ih]

/-- the hypotheses of the equivalence (variables and parameters may be defined by initial assignments) -/
structure OkV (c : Content) : Prop where
  surs : c.surs = []
  data : c.data = []
  num : numCoefs c = true
  nd : ("time" :: (omKeys c.vars ++ omKeys c.pars ++ omKeys c.derived ++ omKeys c.rxns
          ++ (omKeys c.vars).map dName)).Nodup
  stNd : ∀ kv ∈ c.rxns, (omKeys kv.2.stoich).Nodup
  hasEq : (diffEqs c.rxns).isEmpty = false
  onVars : stoichOnVars c = true
  nonempty : c.vars ≠ []

theorem OkV.of_okC {c : Content} (h : okC c = true) : OkV c := by
  simp only [okC, Bool.and_eq_true, wellNamed] at h
  obtain ⟨⟨⟨⟨⟨⟨h1, h2⟩, h5⟩, h6, h7⟩, h8⟩, h9⟩, h10⟩ := h
  refine ⟨by simpa using h1, by simpa using h2, h5, (nodupB_iff _).mp h6, ?_, (by simp only [C07.hasEq] at h8; simpa using h8), h9, ?_⟩
  · intro kv hkv
    exact (nodupB_iff _).mp (List.all_eq_true.mp h7 kv hkv)
  · intro hv; simp [hv] at h10

/-! ### naming facts -/

structure Names (c : Content) : Prop where
  vNd : (omKeys c.vars).Nodup
  pNd : (omKeys c.pars).Nodup
  dNd : (omKeys c.derived).Nodup
  rNd : (omKeys c.rxns).Nodup
  dnNd : ((omKeys c.vars).map dName).Nodup
  time_v : "time" ∉ omKeys c.vars
  time_p : "time" ∉ omKeys c.pars
  time_d : "time" ∉ omKeys c.derived
  time_r : "time" ∉ omKeys c.rxns
  time_dn : "time" ∉ (omKeys c.vars).map dName
  vp : ∀ a ∈ omKeys c.vars, a ∉ omKeys c.pars
  vd : ∀ a ∈ omKeys c.vars, a ∉ omKeys c.derived
  vr : ∀ a ∈ omKeys c.vars, a ∉ omKeys c.rxns
  pd : ∀ a ∈ omKeys c.pars, a ∉ omKeys c.derived
  pr : ∀ a ∈ omKeys c.pars, a ∉ omKeys c.rxns
  dr : ∀ a ∈ omKeys c.derived, a ∉ omKeys c.rxns
  dn_v : ∀ a ∈ (omKeys c.vars).map dName, a ∉ omKeys c.vars
  dn_p : ∀ a ∈ (omKeys c.vars).map dName, a ∉ omKeys c.pars
  dn_d : ∀ a ∈ (omKeys c.vars).map dName, a ∉ omKeys c.derived
  dn_r : ∀ a ∈ (omKeys c.vars).map dName, a ∉ omKeys c.rxns

theorem OkV.names {c : Content} (h : OkV c) : Names c := by
  have hnd := h.nd
  simp only [List.nodup_cons, List.nodup_append, List.mem_append, not_or] at hnd
  obtain ⟨⟨⟨⟨⟨t1, t2⟩, t3⟩, t4⟩, t5⟩, ⟨⟨⟨v, p, vp⟩, d, vpd⟩, r, vpdr⟩, dn, rest⟩ := hnd
  exact { vNd := v, pNd := p, dNd := d, rNd := r, dnNd := dn, time_v := t1, time_p := t2, time_d := t3,
          time_r := t4, time_dn := t5,
          vp := fun a ha hb => vp a ha a hb rfl
          vd := fun a ha hb => vpd a (Or.inl ha) a hb rfl
          vr := fun a ha hb => vpdr a (Or.inl (Or.inl ha)) a hb rfl
          pd := fun a ha hb => vpd a (Or.inr ha) a hb rfl
          pr := fun a ha hb => vpdr a (Or.inl (Or.inr ha)) a hb rfl
          dr := fun a ha hb => vpdr a (Or.inr ha) a hb rfl
          dn_v := fun a ha hb => rest a (Or.inl (Or.inl (Or.inl hb))) a ha rfl
          dn_p := fun a ha hb => rest a (Or.inl (Or.inl (Or.inr hb))) a ha rfl
          dn_d := fun a ha hb => rest a (Or.inl (Or.inr hb)) a ha rfl
          dn_r := fun a ha hb => rest a (Or.inr hb) a ha rfl }

/-! ### the sort elements are the derived quantities and the reactions -/

theorem omUnion_nil_right {β} (a : List (Name × β)) : omUnion a [] = a := rfl

theorem containers_eq {c : Content} (h : OkV c) :
    c.containers = omUnion (omUnion [] (c.derived.map fun kv => (kv.1, Comp.fn kv.2)))
      (c.rxns.map fun kv => (kv.1, Comp.fn kv.2.rate)) := by
  have e : (c.derived.map fun kv => (kv.1, Comp.fn kv.2))
      = omUnion [] (c.derived.map fun kv => (kv.1, Comp.fn kv.2)) → True := fun _ => trivial
  simp only [Content.containers, h.surs, List.map_nil, omUnion_nil_right]
  -- omUnion D R  vs  omUnion (omUnion [] D) R : D has distinct keys, so omUnion [] D = D
  have hD : ∀ (l : List (Name × Comp)) (acc : List (Name × Comp)),
      (l.map (·.1)).Nodup → (∀ a ∈ l.map (·.1), a ∉ acc.map (·.1)) → omUnion acc l = acc ++ l := by
    intro l; induction l with
    | nil => intro acc _ _; simp [omUnion]
    | cons kv rest ih =>
      intro acc hnd hdis
      obtain ⟨k, v⟩ := kv
      simp only [List.map_cons, List.nodup_cons] at hnd
      have hk : k ∉ acc.map (·.1) := hdis k (by simp)
      have hins : omInsert acc k v = acc ++ [(k, v)] := by
        clear ih hdis hnd
        induction acc with
        | nil => rfl
        | cons kv' acc' iha =>
          obtain ⟨k', v'⟩ := kv'
          simp only [List.map_cons, List.mem_cons, not_or] at hk
          have : (k' == k) = false := by simpa using fun h => hk.1 h.symm
          simp [omInsert, this, iha hk.2]
      have : omUnion acc ((k, v) :: rest) = omUnion (omInsert acc k v) rest := by simp [omUnion]
      rw [this, hins, ih (acc ++ [(k, v)]) hnd.2 (by
        intro a ha
        simp only [List.map_append, List.map_cons, List.map_nil, List.mem_append, List.mem_singleton, not_or]
        exact ⟨hdis a (by simp [ha]), fun hak => hnd.1 (hak ▸ ha)⟩)]
      simp
  rw [hD _ [] (by rw [keys_map_snd Comp.fn]; exact h.names.dNd) (by intro a _; simp)]
  simp

theorem containers_lookup {c : Content} (h : OkV c) (k : Name) :
    c.containers.lookup k = (defOf c k).map Comp.fn := by
  have hn := h.names
  rw [containers_eq h, lookup_omUnion _ _ _ (by rw [keys_map_snd (fun r : Rxn => Comp.fn r.rate)]; exact hn.rNd),
    lookup_omUnion _ _ _ (by rw [keys_map_snd Comp.fn]; exact hn.dNd)]
  rw [lookup_map_snd (fun r : Rxn => Comp.fn r.rate), lookup_map_snd Comp.fn]
  unfold defOf
  cases c.rxns.lookup k <;> cases c.derived.lookup k <;> simp

theorem defOf_some_of_mem {c : Content} (h : OkV c) {k : Name}
    (hk : k ∈ omKeys c.derived ∨ k ∈ omKeys c.rxns) : ∃ f, defOf c k = some f := by
  unfold defOf
  rcases hk with hk | hk
  · have : c.rxns.lookup k = none := lookup_none_of_not_mem (h.names.dr k hk)
    rw [this]
    exact lookup_some_of_mem_keys hk
  · obtain ⟨r, hr⟩ := lookup_some_of_mem_keys (m := c.rxns) hk
    exact ⟨r.rate, by rw [hr]⟩

/-! ### the order as a list of function definitions -/

def defsOf (c : Content) (o : List Name) : List (Name × Fn) :=
  o.filterMap fun k => (defOf c k).map fun f => (k, f)

theorem mapM_defOf {c : Content} (h : OkV c) : ∀ {o : List Name},
    (∀ k ∈ o, k ∈ omKeys c.derived ∨ k ∈ omKeys c.rxns) →
    o.mapM (fun k => (defOf c k).map fun f => (k, f)) = some (defsOf c o) ∧ (defsOf c o).map (·.1) = o := by
  intro o; induction o with
  | nil => intro _; exact ⟨rfl, rfl⟩
  | cons k ks ih =>
    intro ho
    obtain ⟨f, hf⟩ := defOf_some_of_mem h (ho k List.mem_cons_self)
    obtain ⟨h1, h2⟩ := ih (fun k' hk' => ho k' (List.mem_cons_of_mem _ hk'))
    constructor
    · simp [List.mapM_cons, hf, h1, defsOf]
    · simp only [defsOf, List.filterMap_cons, hf, Option.map_some, List.map_cons] at h2 ⊢
      rw [h2]

theorem evalInOrder_defs {c : Content} (h : OkV c) (ts : List (Name × Comp))
    (hts : ∀ k, ts.lookup k = (defOf c k).map Comp.fn) {o : List Name}
    (ho : ∀ k ∈ o, k ∈ omKeys c.derived ∨ k ∈ omKeys c.rxns) (env : Env) :
    evalInOrder ts o env = evalSeq (defsOf c o) env := by
  have := evalInOrder_eq_evalSeq ts (defOf c) hts o env
  rw [(mapM_defOf h ho).1] at this
  exact this

theorem defsOf_filter (c : Content) (p : Name → Bool) : ∀ (o : List Name),
    defsOf c (o.filter p) = (defsOf c o).filter fun kf => p kf.1 := by
  intro o; induction o with
  | nil => rfl
  | cons k ks ih =>
    simp only [List.filter_cons]
    cases hp : p k with
    | true =>
      simp only [defsOf, if_true, List.filterMap_cons] at ih ⊢
      cases hd : defOf c k with
      | none => simpa [hd] using ih
      | some f => simp [hd, List.filter_cons, hp]; exact ih
    | false =>
      simp only [defsOf, Bool.false_eq_true, if_false, List.filterMap_cons] at ih ⊢
      cases hd : defOf c k with
      | none => simpa [hd] using ih
      | some f => simp [hd, List.filter_cons, hp]; exact ih

theorem defsOf_mem {c : Content} {o : List Name} {kf : Name × Fn} (h : kf ∈ defsOf c o) :
    kf.1 ∈ o ∧ defOf c kf.1 = some kf.2 := by
  simp only [defsOf, List.mem_filterMap] at h
  obtain ⟨k, hk, hm⟩ := h
  cases hd : defOf c k with
  | none => simp [hd] at hm
  | some f => simp [hd] at hm; subst hm; exact ⟨hk, hd⟩

/-! ### what the generator emits -/

theorem target_id {L : Lang} (hL : L ≠ .jl) (k : Name) : (templateOf L).target k = k := by
  have : (templateOf L).assignsKey = true := by
    cases L <;> first | (exact absurd rfl hL) | decide
  simp [Template.target, this]

theorem emitBody_nil {c : Content} (h : OkV c) : ∀ (o : List Name),
    emitBody [] c o = .ok ((defsOf c o).map fun kf => (kf.1, Rhs.app kf.2)) := by
  intro o; induction o with
  | nil => rfl
  | cons n ns ih =>
    simp only [emitBody, List.contains_nil, Bool.false_eq_true, if_false]
    cases hd : c.derived.lookup n with
    | some f =>
      have hr : c.rxns.lookup n = none :=
        lookup_none_of_not_mem (h.names.dr n (lookup_some_mem_keys hd))
      have hdef : defOf c n = some f := by simp [defOf, hr, hd]
      simp [ih, defsOf, hdef, bind, Except.bind, pure, Except.pure]
    | none =>
      cases hr : c.rxns.lookup n with
      | some r =>
        have hdef : defOf c n = some r.rate := by simp [defOf, hr]
        simp [ih, defsOf, hdef, bind, Except.bind, pure, Except.pure]
      | none =>
        have hdef : defOf c n = none := by simp [defOf, hr, hd]
        simp [ih, defsOf, hdef]

theorem runAssigns_append : ∀ (a b : List (Name × Rhs)) (env : Env),
    runAssigns (a ++ b) env = (runAssigns a env).bind (runAssigns b) := by
  intro a; induction a with
  | nil => intro b env; simp [runAssigns, Except.bind, pure, Except.pure]
  | cons kr rest ih =>
    intro b env
    obtain ⟨k, r⟩ := kr
    simp only [List.cons_append, runAssigns, bind, Except.bind]
    cases evalRhs env r with
    | error e => rfl
    | ok v => simp [ih, Except.bind]

theorem runAssigns_consts : ∀ (P : List (Name × Rat)) (env : Env),
    runAssigns (P.map fun kv => (kv.1, Rhs.const kv.2)) env = .ok (P.reverse ++ env) := by
  intro P; induction P with
  | nil => intro env; rfl
  | cons kv rest ih =>
    intro env; obtain ⟨k, v⟩ := kv
    simp [runAssigns, evalRhs, ih, Env.set, bind, Except.bind, pure, Except.pure]

theorem runAssigns_apps : ∀ (defs : List (Name × Fn)) (env : Env),
    runAssigns (defs.map fun kf => (kf.1, Rhs.app kf.2)) env = evalSeq defs env := by
  intro defs; induction defs with
  | nil => intro env; rfl
  | cons kf rest ih =>
    intro env; obtain ⟨k, f⟩ := kf
    simp only [List.map_cons, runAssigns, evalRhs, evalSeq, bind, Except.bind]
    cases f.calc env with
    | error e => rfl
    | ok v => exact ih _

end Mxl.C07
