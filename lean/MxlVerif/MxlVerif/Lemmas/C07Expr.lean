/-
C07Expr: reading the printed tokens of an expression gives the expression's value.  Core Lean only.
Structure: `Ev m ts res` = "the reader in mode `m` returns `res` on `ts` for every budget ≥ 3·|ts| + rank m";
one rule per production; then by induction on the expression three statements (signed atom / product / sum level).
-/
import MxlVerif.Model.C07Expr
namespace Mxl.C07Expr

def rank : Mode → Nat
  | .unary => 0 | .term => 1 | .expr => 2 | .loop2 _ => 3 | .loop1 _ => 4

def Ev (env : Env) (m : Mode) (ts : List Tok) (res : Rat × List Tok) : Prop :=
  ∀ n, 3 * ts.length + rank m ≤ n → rd env n m ts = some res

def stop2 : List Tok → Bool
  | .star :: _ | .slash :: _ | .pct :: _ => false
  | _ => true

def stop1 : List Tok → Bool
  | .plus :: _ | .minus :: _ => false
  | _ => true

variable {env : Env}

theorem Ev.num (q : Rat) (s : String) (r : List Tok) : Ev env .unary (.num q s :: r) (q, r) := by
  intro n hn
  cases n with
  | zero => simp [rank] at hn
  | succ k => simp [rd]

theorem Ev.id {x : String} {v : Rat} (h : env x = some v) (r : List Tok) : Ev env .unary (.id x :: r) (v, r) := by
  intro n hn
  cases n with
  | zero => simp [rank] at hn
  | succ k => simp [rd, h]

theorem Ev.neg {r r' : List Tok} {v : Rat} (h : Ev env .unary r (v, r')) : Ev env .unary (.minus :: r) (-v, r') := by
  intro n hn
  cases n with
  | zero => simp [rank] at hn
  | succ k =>
    have := h k (by simp [rank, List.length_cons] at hn ⊢; omega)
    simp [rd, this]

theorem Ev.paren {r r' : List Tok} {v : Rat} (h : Ev env .expr r (v, .rp :: r')) : Ev env .unary (.lp :: r) (v, r') := by
  intro n hn
  cases n with
  | zero => simp [rank] at hn
  | succ k =>
    have := h k (by simp [rank, List.length_cons] at hn ⊢; omega)
    simp [rd, this]

theorem Ev.term {ts r : List Tok} {v : Rat} {res : Rat × List Tok} (h1 : Ev env .unary ts (v, r))
    (h2 : Ev env (.loop2 v) r res) (hl : r.length < ts.length) : Ev env .term ts res := by
  intro n hn
  cases n with
  | zero => simp [rank] at hn
  | succ k =>
    have a := h1 k (by simp [rank] at hn ⊢; omega)
    have b := h2 k (by simp [rank] at hn ⊢; omega)
    simp [rd, a, b]

theorem Ev.expr {ts r : List Tok} {v : Rat} {res : Rat × List Tok} (h1 : Ev env .term ts (v, r))
    (h2 : Ev env (.loop1 v) r res) (hl : r.length < ts.length) : Ev env .expr ts res := by
  intro n hn
  cases n with
  | zero => simp [rank] at hn
  | succ k =>
    have a := h1 k (by simp [rank] at hn ⊢; omega)
    have b := h2 k (by simp [rank] at hn ⊢; omega)
    simp [rd, a, b]

theorem Ev.loop2_star {acc w : Rat} {r r' : List Tok} {res : Rat × List Tok} (h1 : Ev env .unary r (w, r'))
    (h2 : Ev env (.loop2 (acc * w)) r' res) (hl : r'.length < r.length) : Ev env (.loop2 acc) (.star :: r) res := by
  intro n hn
  cases n with
  | zero => simp [rank] at hn
  | succ k =>
    have a := h1 k (by simp [rank, List.length_cons] at hn ⊢; omega)
    have b := h2 k (by simp [rank, List.length_cons] at hn ⊢; omega)
    simp [rd, a, b]

theorem Ev.loop2_slash {acc w : Rat} {r r' : List Tok} {res : Rat × List Tok} (hw : w ≠ 0)
    (h1 : Ev env .unary r (w, r')) (h2 : Ev env (.loop2 (acc / w)) r' res) (hl : r'.length < r.length) :
    Ev env (.loop2 acc) (.slash :: r) res := by
  intro n hn
  cases n with
  | zero => simp [rank] at hn
  | succ k =>
    have a := h1 k (by simp [rank, List.length_cons] at hn ⊢; omega)
    have b := h2 k (by simp [rank, List.length_cons] at hn ⊢; omega)
    simp [rd, a, b, hw]

theorem Ev.loop2_pct {acc w : Rat} {r r' : List Tok} {res : Rat × List Tok} (hw : w ≠ 0)
    (h1 : Ev env .unary r (w, r')) (h2 : Ev env (.loop2 (pyMod acc w)) r' res) (hl : r'.length < r.length) :
    Ev env (.loop2 acc) (.pct :: r) res := by
  intro n hn
  cases n with
  | zero => simp [rank] at hn
  | succ k =>
    have a := h1 k (by simp [rank, List.length_cons] at hn ⊢; omega)
    have b := h2 k (by simp [rank, List.length_cons] at hn ⊢; omega)
    simp [rd, a, b, hw]

theorem Ev.loop2_stop {acc : Rat} {ts : List Tok} (h : stop2 ts = true) : Ev env (.loop2 acc) ts (acc, ts) := by
  intro n hn
  cases n with
  | zero => simp [rank] at hn
  | succ k =>
    cases ts with
    | nil => simp [rd]
    | cons t r => cases t <;> simp_all [rd, stop2]

theorem Ev.loop1_plus {acc w : Rat} {r r' : List Tok} {res : Rat × List Tok} (h1 : Ev env .term r (w, r'))
    (h2 : Ev env (.loop1 (acc + w)) r' res) (hl : r'.length < r.length) : Ev env (.loop1 acc) (.plus :: r) res := by
  intro n hn
  cases n with
  | zero => simp [rank] at hn
  | succ k =>
    have a := h1 k (by simp [rank, List.length_cons] at hn ⊢; omega)
    have b := h2 k (by simp [rank, List.length_cons] at hn ⊢; omega)
    simp [rd, a, b]

theorem Ev.loop1_minus {acc w : Rat} {r r' : List Tok} {res : Rat × List Tok} (h1 : Ev env .term r (w, r'))
    (h2 : Ev env (.loop1 (acc - w)) r' res) (hl : r'.length < r.length) : Ev env (.loop1 acc) (.minus :: r) res := by
  intro n hn
  cases n with
  | zero => simp [rank] at hn
  | succ k =>
    have a := h1 k (by simp [rank, List.length_cons] at hn ⊢; omega)
    have b := h2 k (by simp [rank, List.length_cons] at hn ⊢; omega)
    simp [rd, a, b]

theorem Ev.loop1_stop {acc : Rat} {ts : List Tok} (h : stop1 ts = true) : Ev env (.loop1 acc) ts (acc, ts) := by
  intro n hn
  cases n with
  | zero => simp [rank] at hn
  | succ k =>
    cases ts with
    | nil => simp [rd]
    | cons t r => cases t <;> simp_all [rd, stop1]

/-! ### the printer -/

theorem prec_pos (e : E) : 1 ≤ e.prec := by cases e <;> simp [E.prec]

theorem print_pos (e : E) : 0 < e.print.length := by
  cases e <;> simp [E.print] <;> omega

theorem pp_def (lvl : Nat) (e : E) :
    e.pp lvl = if e.prec < lvl then .lp :: e.print ++ [.rp] else e.print := by
  cases e <;> rw [E.pp]

theorem pp_plain {lvl : Nat} {e : E} (h : lvl ≤ e.prec) : e.pp lvl = e.print := by
  rw [pp_def, if_neg (by omega)]

theorem pp_paren {lvl : Nat} {e : E} (h : e.prec < lvl) : e.pp lvl = .lp :: e.print ++ [.rp] := by
  rw [pp_def, if_pos h]

theorem pp_pos (lvl : Nat) (e : E) : 0 < (e.pp lvl).length := by
  have := print_pos e
  rw [pp_def]
  split <;> simp <;> omega

theorem pp_one (e : E) : e.pp 1 = e.print := pp_plain (prec_pos e)

theorem lt_append (a rest : List Tok) (h : 0 < a.length) : rest.length < (a ++ rest).length := by
  simp; omega

/-- what reading the printed expression does at the levels of the grammar -/
structure Reads (env : Env) (e : E) (v : Rat) : Prop where
  atom : ∀ rest, Ev env .unary (e.pp 4 ++ rest) (v, rest)
  bare : ∀ rest, Ev env .unary (e.pp 5 ++ rest) (v, rest)     -- operand of `%`
  prod : ∀ rest res, Ev env (.loop2 v) rest res → Ev env .term (e.pp 3 ++ rest) res
  prod2 : ∀ rest res, Ev env (.loop2 v) rest res → Ev env .term (e.pp 2 ++ rest) res     -- right operand of `+`
  sum : ∀ rest res, stop2 rest = true → Ev env (.loop1 v) rest res → Ev env .expr (e.print ++ rest) res

theorem atom_of_sum {e : E} {v : Rat} {lvl : Nat} (hp : e.prec < lvl)
    (hX : ∀ rest res, stop2 rest = true → Ev env (.loop1 v) rest res → Ev env .expr (e.print ++ rest) res) :
    ∀ rest, Ev env .unary (e.pp lvl ++ rest) (v, rest) := by
  intro rest
  rw [pp_paren hp]
  simp only [List.cons_append, List.append_assoc]
  exact Ev.paren (hX (.rp :: rest) (v, .rp :: rest) rfl (Ev.loop1_stop rfl))

theorem prod_of_atom {e : E} {v : Rat} {l1 l2 : Nat} (hp : e.pp l1 = e.pp l2)
    (hU : ∀ rest, Ev env .unary (e.pp l2 ++ rest) (v, rest)) :
    ∀ rest res, Ev env (.loop2 v) rest res → Ev env .term (e.pp l1 ++ rest) res := by
  intro rest res h
  rw [hp]
  exact Ev.term (hU rest) h (lt_append _ _ (pp_pos l2 e))

theorem sum_of_prod {e : E} {v : Rat} (hp : 3 ≤ e.prec)
    (hT : ∀ rest res, Ev env (.loop2 v) rest res → Ev env .term (e.pp 3 ++ rest) res) :
    ∀ rest res, stop2 rest = true → Ev env (.loop1 v) rest res → Ev env .expr (e.print ++ rest) res := by
  intro rest res hs h
  have h2 : e.pp 3 = e.print := pp_plain hp
  have := hT rest (v, rest) (Ev.loop2_stop hs)
  rw [h2] at this
  exact Ev.expr this h (lt_append _ _ (print_pos e))

/-- everything from the atom level, for an expression that is printed without parentheses at every level up to 4 -/
theorem of_atom {e : E} {v : Rat} (hp : 4 ≤ e.prec) (hU : ∀ rest, Ev env .unary (e.pp 4 ++ rest) (v, rest))
    (hB : ∀ rest, Ev env .unary (e.pp 5 ++ rest) (v, rest)) : Reads env e v := by
  have e3 : e.pp 3 = e.pp 4 := by rw [pp_plain (lvl := 3) (by omega), pp_plain (lvl := 4) hp]
  have e2 : e.pp 2 = e.pp 4 := by rw [pp_plain (lvl := 2) (by omega), pp_plain (lvl := 4) hp]
  have hT := prod_of_atom e3 hU
  exact ⟨hU, hB, hT, prod_of_atom e2 hU, sum_of_prod (by omega) hT⟩

/-- everything from the sum level, for a sum or difference (in parentheses at every level from 2) -/
theorem of_sum {e : E} {v : Rat} (hp : e.prec = 1)
    (hX : ∀ rest res, stop2 rest = true → Ev env (.loop1 v) rest res → Ev env .expr (e.print ++ rest) res) :
    Reads env e v := by
  have hU := atom_of_sum (lvl := 4) (by omega) hX
  have e3 : e.pp 3 = e.pp 4 := by rw [pp_paren (lvl := 3) (by omega), pp_paren (lvl := 4) (by omega)]
  have e2 : e.pp 2 = e.pp 4 := by rw [pp_paren (lvl := 2) (by omega), pp_paren (lvl := 4) (by omega)]
  exact ⟨hU, atom_of_sum (by omega) hX, prod_of_atom e3 hU, prod_of_atom e2 hU, hX⟩

/-- everything from the product level, for a product or quotient -/
theorem of_prod {e : E} {v : Rat} (hp : e.prec = 3)
    (hT : ∀ rest res, Ev env (.loop2 v) rest res → Ev env .term (e.pp 3 ++ rest) res) : Reads env e v := by
  have hX := sum_of_prod (by omega) hT
  have e2 : e.pp 2 = e.pp 3 := by rw [pp_plain (lvl := 2) (by omega), pp_plain (lvl := 3) (by omega)]
  exact ⟨atom_of_sum (by omega) hX, atom_of_sum (by omega) hX, hT, by rw [e2]; exact hT, hX⟩

theorem reads (env : Env) : ∀ (e : E) (v : Rat), e.eval env = some v → Reads env e v := by
  intro e
  induction e with
  | num q s =>
    intro v h
    simp only [E.eval, Option.some.injEq] at h
    subst h
    have hp : ∀ lvl, lvl ≤ 5 → (E.num q s).pp lvl = [.num q s] := by
      intro lvl hl; rw [pp_plain (by simp [E.prec]; omega)]; simp only [E.print]
    exact of_atom (by simp [E.prec]) (by intro rest; rw [hp 4 (by omega)]; exact Ev.num q s rest)
      (by intro rest; rw [hp 5 (by omega)]; exact Ev.num q s rest)
  | var x =>
    intro v h
    simp only [E.eval] at h
    have hp : ∀ lvl, lvl ≤ 5 → (E.var x).pp lvl = [.id x] := by
      intro lvl hl; rw [pp_plain (by simp [E.prec]; omega)]; simp only [E.print]
    exact of_atom (by simp [E.prec]) (by intro rest; rw [hp 4 (by omega)]; exact Ev.id h rest)
      (by intro rest; rw [hp 5 (by omega)]; exact Ev.id h rest)
  | neg a iha =>
    intro v h
    simp only [E.eval, Option.map_eq_some_iff] at h
    obtain ⟨va, ha, rfl⟩ := h
    have hU : ∀ rest, Ev env .unary ((E.neg a).pp 4 ++ rest) (-va, rest) := by
      intro rest
      have : (E.neg a).pp 4 = .minus :: a.pp 4 := by rw [pp_plain (by simp [E.prec])]; simp only [E.print]
      rw [this]; exact Ev.neg ((iha va ha).atom rest)
    have e3 : (E.neg a).pp 3 = (E.neg a).pp 4 := by
      rw [pp_plain (lvl := 3) (by simp [E.prec]), pp_plain (lvl := 4) (by simp [E.prec])]
    have hX := sum_of_prod (e := .neg a) (by simp [E.prec]) (prod_of_atom e3 hU)
    exact of_atom (by simp [E.prec]) hU (atom_of_sum (by simp [E.prec]) hX)
  | add a b iha ihb =>
    intro v h
    simp only [E.eval, bind, Option.bind] at h
    cases ha : a.eval env with
    | none => simp [ha] at h
    | some va =>
      cases hb : b.eval env with
      | none => simp [ha, hb] at h
      | some vb =>
        simp only [ha, hb, pure, Option.some.injEq] at h
        subst h
        refine of_sum (by simp [E.prec]) ?_
        intro rest res hs hc
        simp only [E.print, pp_one, List.append_assoc, List.cons_append]
        exact (iha va ha).sum _ res rfl
          (Ev.loop1_plus ((ihb vb hb).prod2 rest (vb, rest) (Ev.loop2_stop hs)) hc (lt_append _ _ (pp_pos 2 b)))
  | sub a b iha ihb =>
    intro v h
    simp only [E.eval, bind, Option.bind] at h
    cases ha : a.eval env with
    | none => simp [ha] at h
    | some va =>
      cases hb : b.eval env with
      | none => simp [ha, hb] at h
      | some vb =>
        simp only [ha, hb, pure, Option.some.injEq] at h
        subst h
        refine of_sum (by simp [E.prec]) ?_
        intro rest res hs hc
        simp only [E.print, pp_one, List.append_assoc, List.cons_append]
        exact (iha va ha).sum _ res rfl
          (Ev.loop1_minus ((ihb vb hb).prod rest (vb, rest) (Ev.loop2_stop hs)) hc (lt_append _ _ (pp_pos 3 b)))
  | mul a b iha ihb =>
    intro v h
    simp only [E.eval, bind, Option.bind] at h
    cases ha : a.eval env with
    | none => simp [ha] at h
    | some va =>
      cases hb : b.eval env with
      | none => simp [ha, hb] at h
      | some vb =>
        simp only [ha, hb, pure, Option.some.injEq] at h
        subst h
        refine of_prod (by simp [E.prec]) ?_
        intro rest res hc
        have : (E.mul a b).pp 3 = a.pp 3 ++ .star :: b.pp 4 := by rw [pp_plain (by simp [E.prec])]; simp only [E.print]
        rw [this]
        simp only [List.append_assoc, List.cons_append]
        exact (iha va ha).prod _ res (Ev.loop2_star ((ihb vb hb).atom rest) hc (lt_append _ _ (pp_pos 4 b)))
  | div a b iha ihb =>
    intro v h
    simp only [E.eval, bind, Option.bind] at h
    cases ha : a.eval env with
    | none => simp [ha] at h
    | some va =>
      cases hb : b.eval env with
      | none => simp [ha, hb] at h
      | some vb =>
        simp only [ha, hb] at h
        by_cases hz : vb = 0
        · simp [hz] at h
        · simp only [hz, if_false, pure, Option.some.injEq] at h
          subst h
          refine of_prod (by simp [E.prec]) ?_
          intro rest res hc
          have : (E.div a b).pp 3 = a.pp 3 ++ .slash :: b.pp 4 := by rw [pp_plain (by simp [E.prec])]; simp only [E.print]
          rw [this]
          simp only [List.append_assoc, List.cons_append]
          exact (iha va ha).prod _ res (Ev.loop2_slash hz ((ihb vb hb).atom rest) hc (lt_append _ _ (pp_pos 4 b)))
  | mod a b iha ihb =>
    intro v h
    simp only [E.eval, bind, Option.bind] at h
    cases ha : a.eval env with
    | none => simp [ha] at h
    | some va =>
      cases hb : b.eval env with
      | none => simp [ha, hb] at h
      | some vb =>
        simp only [ha, hb] at h
        by_cases hz : vb = 0
        · simp [hz] at h
        · simp only [hz, if_false, pure, Option.some.injEq] at h
          subst h
          -- the text `(<a> % <b>)` is read as one signed atom
          have hraw : ∀ rest, Ev env .unary ((E.mod a b).print ++ rest) (pyMod va vb, rest) := by
            intro rest
            simp only [E.print, List.cons_append, List.append_assoc]
            refine Ev.paren (Ev.expr (v := pyMod va vb) (r := .rp :: rest) ?_ (Ev.loop1_stop rfl) ?_)
            · exact Ev.term ((iha va ha).bare _)
                (Ev.loop2_pct hz ((ihb vb hb).bare _) (Ev.loop2_stop rfl) (lt_append _ _ (pp_pos 5 b)))
                (lt_append _ _ (pp_pos 5 a))
            · have := pp_pos 5 a
              simp; omega
          have p2 : (E.mod a b).pp 2 = (E.mod a b).print := pp_plain (by simp [E.prec])
          have hT2 : ∀ rest res, Ev env (.loop2 (pyMod va vb)) rest res → Ev env .term ((E.mod a b).pp 2 ++ rest) res := by
            intro rest res hc
            rw [p2]
            exact Ev.term (hraw rest) hc (lt_append _ _ (print_pos _))
          have hX : ∀ rest res, stop2 rest = true → Ev env (.loop1 (pyMod va vb)) rest res →
              Ev env .expr ((E.mod a b).print ++ rest) res := by
            intro rest res hs hc
            exact Ev.expr (Ev.term (hraw rest) (Ev.loop2_stop hs) (lt_append _ _ (print_pos _))) hc
              (lt_append _ _ (print_pos _))
          have hU := atom_of_sum (e := .mod a b) (lvl := 4) (by simp [E.prec]) hX
          have e3 : (E.mod a b).pp 3 = (E.mod a b).pp 4 := by
            rw [pp_paren (lvl := 3) (by simp [E.prec]), pp_paren (lvl := 4) (by simp [E.prec])]
          exact ⟨hU, atom_of_sum (by simp [E.prec]) hX, prod_of_atom e3 hU, hT2, hX⟩

/-- reading the printed tokens of an expression gives its value -/
theorem evalToks_print (env : Env) (e : E) (v : Rat) (h : e.eval env = some v) : evalToks env e.print = some v := by
  have := (reads env e v h).sum [] (v, []) rfl (Ev.loop1_stop rfl)
  simp only [List.append_nil] at this
  unfold evalToks
  rw [this _ (by simp [rank])]

/-! ### the same for the tree-building reader: the printed tokens denote exactly the expression -/

def prank : PMode → Nat
  | .unary => 0 | .term => 1 | .expr => 2 | .loop2 _ => 3 | .loop1 _ => 4

def PEv (m : PMode) (ts : List Tok) (res : E × List Tok) : Prop :=
  ∀ n, 3 * ts.length + prank m ≤ n → parse n m ts = some res

theorem PEv.num (q : Rat) (s : String) (r : List Tok) : PEv .unary (.num q s :: r) (.num q s, r) := by
  intro n hn
  cases n with
  | zero => simp [prank] at hn
  | succ k => simp [parse]

theorem PEv.id (x : String) (r : List Tok) : PEv .unary (.id x :: r) (.var x, r) := by
  intro n hn
  cases n with
  | zero => simp [prank] at hn
  | succ k => simp [parse]

theorem PEv.neg {r r' : List Tok} {v : E} (h : PEv .unary r (v, r')) : PEv .unary (.minus :: r) (.neg v, r') := by
  intro n hn
  cases n with
  | zero => simp [prank] at hn
  | succ k =>
    have := h k (by simp [prank, List.length_cons] at hn ⊢; omega)
    simp [parse, this]

theorem PEv.paren {r r' : List Tok} {v : E} (h : PEv .expr r (v, .rp :: r')) : PEv .unary (.lp :: r) (v, r') := by
  intro n hn
  cases n with
  | zero => simp [prank] at hn
  | succ k =>
    have := h k (by simp [prank, List.length_cons] at hn ⊢; omega)
    simp [parse, this]

theorem PEv.term {ts r : List Tok} {v : E} {res : E × List Tok} (h1 : PEv .unary ts (v, r))
    (h2 : PEv (.loop2 v) r res) (hl : r.length < ts.length) : PEv .term ts res := by
  intro n hn
  cases n with
  | zero => simp [prank] at hn
  | succ k =>
    have a := h1 k (by simp [prank] at hn ⊢; omega)
    have b := h2 k (by simp [prank] at hn ⊢; omega)
    simp [parse, a, b]

theorem PEv.expr {ts r : List Tok} {v : E} {res : E × List Tok} (h1 : PEv .term ts (v, r))
    (h2 : PEv (.loop1 v) r res) (hl : r.length < ts.length) : PEv .expr ts res := by
  intro n hn
  cases n with
  | zero => simp [prank] at hn
  | succ k =>
    have a := h1 k (by simp [prank] at hn ⊢; omega)
    have b := h2 k (by simp [prank] at hn ⊢; omega)
    simp [parse, a, b]

theorem PEv.loop2_star {acc w : E} {r r' : List Tok} {res : E × List Tok} (h1 : PEv .unary r (w, r'))
    (h2 : PEv (.loop2 (.mul acc w)) r' res) (hl : r'.length < r.length) : PEv (.loop2 acc) (.star :: r) res := by
  intro n hn
  cases n with
  | zero => simp [prank] at hn
  | succ k =>
    have a := h1 k (by simp [prank, List.length_cons] at hn ⊢; omega)
    have b := h2 k (by simp [prank, List.length_cons] at hn ⊢; omega)
    simp [parse, a, b]

theorem PEv.loop2_slash {acc w : E} {r r' : List Tok} {res : E × List Tok} (h1 : PEv .unary r (w, r'))
    (h2 : PEv (.loop2 (.div acc w)) r' res) (hl : r'.length < r.length) : PEv (.loop2 acc) (.slash :: r) res := by
  intro n hn
  cases n with
  | zero => simp [prank] at hn
  | succ k =>
    have a := h1 k (by simp [prank, List.length_cons] at hn ⊢; omega)
    have b := h2 k (by simp [prank, List.length_cons] at hn ⊢; omega)
    simp [parse, a, b]

theorem PEv.loop2_pct {acc w : E} {r r' : List Tok} {res : E × List Tok} (h1 : PEv .unary r (w, r'))
    (h2 : PEv (.loop2 (.mod acc w)) r' res) (hl : r'.length < r.length) : PEv (.loop2 acc) (.pct :: r) res := by
  intro n hn
  cases n with
  | zero => simp [prank] at hn
  | succ k =>
    have a := h1 k (by simp [prank, List.length_cons] at hn ⊢; omega)
    have b := h2 k (by simp [prank, List.length_cons] at hn ⊢; omega)
    simp [parse, a, b]

theorem PEv.loop2_stop {acc : E} {ts : List Tok} (h : stop2 ts = true) : PEv (.loop2 acc) ts (acc, ts) := by
  intro n hn
  cases n with
  | zero => simp [prank] at hn
  | succ k =>
    cases ts with
    | nil => simp [parse]
    | cons t r => cases t <;> simp_all [parse, stop2]

theorem PEv.loop1_plus {acc w : E} {r r' : List Tok} {res : E × List Tok} (h1 : PEv .term r (w, r'))
    (h2 : PEv (.loop1 (.add acc w)) r' res) (hl : r'.length < r.length) : PEv (.loop1 acc) (.plus :: r) res := by
  intro n hn
  cases n with
  | zero => simp [prank] at hn
  | succ k =>
    have a := h1 k (by simp [prank, List.length_cons] at hn ⊢; omega)
    have b := h2 k (by simp [prank, List.length_cons] at hn ⊢; omega)
    simp [parse, a, b]

theorem PEv.loop1_minus {acc w : E} {r r' : List Tok} {res : E × List Tok} (h1 : PEv .term r (w, r'))
    (h2 : PEv (.loop1 (.sub acc w)) r' res) (hl : r'.length < r.length) : PEv (.loop1 acc) (.minus :: r) res := by
  intro n hn
  cases n with
  | zero => simp [prank] at hn
  | succ k =>
    have a := h1 k (by simp [prank, List.length_cons] at hn ⊢; omega)
    have b := h2 k (by simp [prank, List.length_cons] at hn ⊢; omega)
    simp [parse, a, b]

theorem PEv.loop1_stop {acc : E} {ts : List Tok} (h : stop1 ts = true) : PEv (.loop1 acc) ts (acc, ts) := by
  intro n hn
  cases n with
  | zero => simp [prank] at hn
  | succ k =>
    cases ts with
    | nil => simp [parse]
    | cons t r => cases t <;> simp_all [parse, stop1]

structure Parses (e : E) : Prop where
  atom : ∀ rest, PEv .unary (e.pp 4 ++ rest) (e, rest)
  bare : ∀ rest, PEv .unary (e.pp 5 ++ rest) (e, rest)     -- operand of `%`
  prod : ∀ rest res, PEv (.loop2 e) rest res → PEv .term (e.pp 3 ++ rest) res
  prod2 : ∀ rest res, PEv (.loop2 e) rest res → PEv .term (e.pp 2 ++ rest) res     -- right operand of `+`
  sum : ∀ rest res, stop2 rest = true → PEv (.loop1 e) rest res → PEv .expr (e.print ++ rest) res

theorem patom_of_sum {e : E} {lvl : Nat} (hp : e.prec < lvl)
    (hX : ∀ rest res, stop2 rest = true → PEv (.loop1 e) rest res → PEv .expr (e.print ++ rest) res) :
    ∀ rest, PEv .unary (e.pp lvl ++ rest) (e, rest) := by
  intro rest
  rw [pp_paren hp]
  simp only [List.cons_append, List.append_assoc]
  exact PEv.paren (hX (.rp :: rest) (e, .rp :: rest) rfl (PEv.loop1_stop rfl))

theorem pprod_of_atom {e : E} {l1 l2 : Nat} (hp : e.pp l1 = e.pp l2)
    (hU : ∀ rest, PEv .unary (e.pp l2 ++ rest) (e, rest)) :
    ∀ rest res, PEv (.loop2 e) rest res → PEv .term (e.pp l1 ++ rest) res := by
  intro rest res h
  rw [hp]
  exact PEv.term (hU rest) h (lt_append _ _ (pp_pos l2 e))

theorem psum_of_prod {e : E} (hp : 3 ≤ e.prec)
    (hT : ∀ rest res, PEv (.loop2 e) rest res → PEv .term (e.pp 3 ++ rest) res) :
    ∀ rest res, stop2 rest = true → PEv (.loop1 e) rest res → PEv .expr (e.print ++ rest) res := by
  intro rest res hs h
  have h2 : e.pp 3 = e.print := pp_plain hp
  have := hT rest (e, rest) (PEv.loop2_stop hs)
  rw [h2] at this
  exact PEv.expr this h (lt_append _ _ (print_pos e))

/-- everything from the atom level, for an expression that is printed without parentheses at every level up to 4 -/
theorem pof_atom {e : E} (hp : 4 ≤ e.prec) (hU : ∀ rest, PEv .unary (e.pp 4 ++ rest) (e, rest))
    (hB : ∀ rest, PEv .unary (e.pp 5 ++ rest) (e, rest)) : Parses e := by
  have e3 : e.pp 3 = e.pp 4 := by rw [pp_plain (lvl := 3) (by omega), pp_plain (lvl := 4) hp]
  have e2 : e.pp 2 = e.pp 4 := by rw [pp_plain (lvl := 2) (by omega), pp_plain (lvl := 4) hp]
  have hT := pprod_of_atom e3 hU
  exact ⟨hU, hB, hT, pprod_of_atom e2 hU, psum_of_prod (by omega) hT⟩

/-- everything from the sum level, for a sum or difference (in parentheses at every level from 2) -/
theorem pof_sum {e : E} (hp : e.prec = 1)
    (hX : ∀ rest res, stop2 rest = true → PEv (.loop1 e) rest res → PEv .expr (e.print ++ rest) res) :
    Parses e := by
  have hU := patom_of_sum (lvl := 4) (by omega) hX
  have e3 : e.pp 3 = e.pp 4 := by rw [pp_paren (lvl := 3) (by omega), pp_paren (lvl := 4) (by omega)]
  have e2 : e.pp 2 = e.pp 4 := by rw [pp_paren (lvl := 2) (by omega), pp_paren (lvl := 4) (by omega)]
  exact ⟨hU, patom_of_sum (by omega) hX, pprod_of_atom e3 hU, pprod_of_atom e2 hU, hX⟩

/-- everything from the product level, for a product or quotient -/
theorem pof_prod {e : E} (hp : e.prec = 3)
    (hT : ∀ rest res, PEv (.loop2 e) rest res → PEv .term (e.pp 3 ++ rest) res) : Parses e := by
  have hX := psum_of_prod (by omega) hT
  have e2 : e.pp 2 = e.pp 3 := by rw [pp_plain (lvl := 2) (by omega), pp_plain (lvl := 3) (by omega)]
  exact ⟨patom_of_sum (by omega) hX, patom_of_sum (by omega) hX, hT, by rw [e2]; exact hT, hX⟩

theorem parses : ∀ (e : E), Parses e := by
  intro e
  induction e with
  | num q s =>
    have hp : ∀ lvl, lvl ≤ 5 → (E.num q s).pp lvl = [.num q s] := by
      intro lvl hl; rw [pp_plain (by simp [E.prec]; omega)]; simp only [E.print]
    exact pof_atom (by simp [E.prec]) (by intro rest; rw [hp 4 (by omega)]; exact PEv.num q s rest)
      (by intro rest; rw [hp 5 (by omega)]; exact PEv.num q s rest)
  | var x =>
    have hp : ∀ lvl, lvl ≤ 5 → (E.var x).pp lvl = [.id x] := by
      intro lvl hl; rw [pp_plain (by simp [E.prec]; omega)]; simp only [E.print]
    exact pof_atom (by simp [E.prec]) (by intro rest; rw [hp 4 (by omega)]; exact PEv.id x rest)
      (by intro rest; rw [hp 5 (by omega)]; exact PEv.id x rest)
  | neg a iha =>
    have hU : ∀ rest, PEv .unary ((E.neg a).pp 4 ++ rest) (.neg a, rest) := by
      intro rest
      have : (E.neg a).pp 4 = .minus :: a.pp 4 := by rw [pp_plain (by simp [E.prec])]; simp only [E.print]
      rw [this]; exact PEv.neg (iha.atom rest)
    have e3 : (E.neg a).pp 3 = (E.neg a).pp 4 := by
      rw [pp_plain (lvl := 3) (by simp [E.prec]), pp_plain (lvl := 4) (by simp [E.prec])]
    have hX := psum_of_prod (e := .neg a) (by simp [E.prec]) (pprod_of_atom e3 hU)
    exact pof_atom (by simp [E.prec]) hU (patom_of_sum (by simp [E.prec]) hX)
  | add a b iha ihb =>
    refine pof_sum (by simp [E.prec]) ?_
    intro rest res hs hc
    simp only [E.print, pp_one, List.append_assoc, List.cons_append]
    exact iha.sum _ res rfl
      (PEv.loop1_plus (ihb.prod2 rest (b, rest) (PEv.loop2_stop hs)) hc (lt_append _ _ (pp_pos 2 b)))
  | sub a b iha ihb =>
    refine pof_sum (by simp [E.prec]) ?_
    intro rest res hs hc
    simp only [E.print, pp_one, List.append_assoc, List.cons_append]
    exact iha.sum _ res rfl
      (PEv.loop1_minus (ihb.prod rest (b, rest) (PEv.loop2_stop hs)) hc (lt_append _ _ (pp_pos 3 b)))
  | mul a b iha ihb =>
    refine pof_prod (by simp [E.prec]) ?_
    intro rest res hc
    have : (E.mul a b).pp 3 = a.pp 3 ++ .star :: b.pp 4 := by rw [pp_plain (by simp [E.prec])]; simp only [E.print]
    rw [this]
    simp only [List.append_assoc, List.cons_append]
    exact iha.prod _ res (PEv.loop2_star (ihb.atom rest) hc (lt_append _ _ (pp_pos 4 b)))
  | div a b iha ihb =>
    refine pof_prod (by simp [E.prec]) ?_
    intro rest res hc
    have : (E.div a b).pp 3 = a.pp 3 ++ .slash :: b.pp 4 := by rw [pp_plain (by simp [E.prec])]; simp only [E.print]
    rw [this]
    simp only [List.append_assoc, List.cons_append]
    exact iha.prod _ res (PEv.loop2_slash (ihb.atom rest) hc (lt_append _ _ (pp_pos 4 b)))
  | mod a b iha ihb =>
    have hraw : ∀ rest, PEv .unary ((E.mod a b).print ++ rest) (.mod a b, rest) := by
      intro rest
      simp only [E.print, List.cons_append, List.append_assoc]
      refine PEv.paren (PEv.expr (v := .mod a b) (r := .rp :: rest) ?_ (PEv.loop1_stop rfl) ?_)
      · exact PEv.term (iha.bare _)
          (PEv.loop2_pct (ihb.bare _) (PEv.loop2_stop rfl) (lt_append _ _ (pp_pos 5 b)))
          (lt_append _ _ (pp_pos 5 a))
      · have := pp_pos 5 a
        simp; omega
    have p2 : (E.mod a b).pp 2 = (E.mod a b).print := pp_plain (by simp [E.prec])
    have hT2 : ∀ rest res, PEv (.loop2 (.mod a b)) rest res → PEv .term ((E.mod a b).pp 2 ++ rest) res := by
      intro rest res hc
      rw [p2]
      exact PEv.term (hraw rest) hc (lt_append _ _ (print_pos _))
    have hX : ∀ rest res, stop2 rest = true → PEv (.loop1 (.mod a b)) rest res →
        PEv .expr ((E.mod a b).print ++ rest) res := by
      intro rest res hs hc
      exact PEv.expr (PEv.term (hraw rest) (PEv.loop2_stop hs) (lt_append _ _ (print_pos _))) hc
        (lt_append _ _ (print_pos _))
    have hU := patom_of_sum (e := .mod a b) (lvl := 4) (by simp [E.prec]) hX
    have e3 : (E.mod a b).pp 3 = (E.mod a b).pp 4 := by
      rw [pp_paren (lvl := 3) (by simp [E.prec]), pp_paren (lvl := 4) (by simp [E.prec])]
    exact ⟨hU, patom_of_sum (by simp [E.prec]) hX, pprod_of_atom e3 hU, hT2, hX⟩

/-- the printed tokens of an expression are read back as exactly that expression -/
theorem parseToks_print (e : E) : parseToks e.print = some e := by
  have := (parses e).sum [] (e, []) rfl (PEv.loop1_stop rfl)
  simp only [List.append_nil] at this
  unfold parseToks
  rw [this _ (by simp [prank])]


/-! ### the value reader and the tree reader agree on every token stream -/

/-- value of a parse result -/
def valOf (env : Env) (r : Option (E × List Tok)) : Option (Rat × List Tok) :=
  r.bind fun er => (er.1.eval env).map fun v => (v, er.2)

structure Agree (env : Env) (n : Nat) : Prop where
  unary : ∀ ts, rd env n .unary ts = valOf env (parse n .unary ts)
  term : ∀ ts, rd env n .term ts = valOf env (parse n .term ts)
  expr : ∀ ts, rd env n .expr ts = valOf env (parse n .expr ts)
  loop2 : ∀ ts accE acc, accE.eval env = some acc → rd env n (.loop2 acc) ts = valOf env (parse n (.loop2 accE) ts)
  loop1 : ∀ ts accE acc, accE.eval env = some acc → rd env n (.loop1 acc) ts = valOf env (parse n (.loop1 accE) ts)
  none2 : ∀ ts accE, accE.eval env = none → valOf env (parse n (.loop2 accE) ts) = none
  none1 : ∀ ts accE, accE.eval env = none → valOf env (parse n (.loop1 accE) ts) = none

theorem agree (env : Env) : ∀ n, Agree env n := by
  intro n
  induction n with
  | zero => exact ⟨fun _ => rfl, fun _ => rfl, fun _ => rfl, fun _ _ _ _ => rfl, fun _ _ _ _ => rfl,
      fun _ _ _ => rfl, fun _ _ _ => rfl⟩
  | succ n ih =>
    -- a product / sum step on the two sides
    have step2 : ∀ (r : List Tok) (accE : E) (acc : Rat) (mk : E → E → E) (op : Rat → Rat → Option Rat),
        accE.eval env = some acc →
        (∀ w wv, w.eval env = some wv → (mk accE w).eval env = op acc wv) →
        (∀ w, w.eval env = none → (mk accE w).eval env = none) →
        ((rd env n .unary r).bind fun wr => (op acc wr.1).bind fun a => rd env n (.loop2 a) wr.2)
          = valOf env ((parse n .unary r).bind fun wr => parse n (.loop2 (mk accE wr.1)) wr.2) := by
      intro r accE acc mk op hacc hmk hmkn
      rw [ih.unary r]
      cases hp : parse n .unary r with
      | none => simp [valOf]
      | some wr =>
        obtain ⟨w, r'⟩ := wr
        cases hw : w.eval env with
        | none => simp [valOf, hw, ih.none2 r' _ (hmkn w hw)] ; exact (ih.none2 r' _ (hmkn w hw)).symm ▸ rfl
        | some wv =>
          simp only [valOf, Option.bind_some, hw, Option.map_some]
          cases ho : op acc wv with
          | none =>
            have := ih.none2 r' (mk accE w) (by rw [hmk w wv hw, ho])
            simp only [Option.bind_none]
            exact this.symm
          | some a =>
            simp only [Option.bind_some]
            exact ih.loop2 r' (mk accE w) a (by rw [hmk w wv hw, ho])
    have step1 : ∀ (r : List Tok) (accE : E) (acc : Rat) (mk : E → E → E) (op : Rat → Rat → Option Rat),
        accE.eval env = some acc →
        (∀ w wv, w.eval env = some wv → (mk accE w).eval env = op acc wv) →
        (∀ w, w.eval env = none → (mk accE w).eval env = none) →
        ((rd env n .term r).bind fun wr => (op acc wr.1).bind fun a => rd env n (.loop1 a) wr.2)
          = valOf env ((parse n .term r).bind fun wr => parse n (.loop1 (mk accE wr.1)) wr.2) := by
      intro r accE acc mk op hacc hmk hmkn
      rw [ih.term r]
      cases hp : parse n .term r with
      | none => simp [valOf]
      | some wr =>
        obtain ⟨w, r'⟩ := wr
        cases hw : w.eval env with
        | none =>
          simp only [valOf, Option.bind_some, hw, Option.map_none, Option.bind_none]
          exact (ih.none1 r' _ (hmkn w hw)).symm
        | some wv =>
          simp only [valOf, Option.bind_some, hw, Option.map_some]
          cases ho : op acc wv with
          | none =>
            have := ih.none1 r' (mk accE w) (by rw [hmk w wv hw, ho])
            simp only [Option.bind_none]
            exact this.symm
          | some a =>
            simp only [Option.bind_some]
            exact ih.loop1 r' (mk accE w) a (by rw [hmk w wv hw, ho])
    have nstep2 : ∀ (r : List Tok) (accE : E) (mk : E → E → E), (∀ w, (mk accE w).eval env = none) →
        valOf env ((parse n .unary r).bind fun wr => parse n (.loop2 (mk accE wr.1)) wr.2) = none := by
      intro r accE mk hmk
      cases hp : parse n .unary r with
      | none => simp [valOf]
      | some wr => simp only [Option.bind_some]; exact ih.none2 _ _ (hmk wr.1)
    have nstep1 : ∀ (r : List Tok) (accE : E) (mk : E → E → E), (∀ w, (mk accE w).eval env = none) →
        valOf env ((parse n .term r).bind fun wr => parse n (.loop1 (mk accE wr.1)) wr.2) = none := by
      intro r accE mk hmk
      cases hp : parse n .term r with
      | none => simp [valOf]
      | some wr => simp only [Option.bind_some]; exact ih.none1 _ _ (hmk wr.1)
    refine ⟨?_, ?_, ?_, ?_, ?_, ?_, ?_⟩
    · -- signed atom
      intro ts
      cases ts with
      | nil => simp [rd, parse, valOf]
      | cons t r =>
        cases t with
        | minus =>
          simp only [rd, parse, ih.unary r]
          cases hp : parse n .unary r with
          | none => simp [valOf]
          | some wr => cases hw : wr.1.eval env <;> simp [valOf, E.eval, hw]
        | num q s => simp [rd, parse, valOf, E.eval]
        | id x => cases hx : env x <;> simp [rd, parse, valOf, E.eval, hx]
        | lp =>
          simp only [rd, parse, ih.expr r]
          cases hp : parse n .expr r with
          | none => simp [valOf]
          | some wr =>
            obtain ⟨w, r2⟩ := wr
            cases hw : w.eval env with
            | none =>
              simp only [valOf, Option.bind_some, hw, Option.map_none]
              cases r2 with
              | nil => simp
              | cons t2 r3 => cases t2 <;> simp [hw]
            | some v =>
              simp only [valOf, Option.bind_some, hw, Option.map_some]
              cases r2 with
              | nil => simp
              | cons t2 r3 => cases t2 <;> simp [hw]
        | plus => simp [rd, parse, valOf]
        | pct => simp [rd, parse, valOf]
        | star => simp [rd, parse, valOf]
        | slash => simp [rd, parse, valOf]
        | rp => simp [rd, parse, valOf]
    · -- product
      intro ts
      simp only [rd, parse, ih.unary ts]
      cases hp : parse n .unary ts with
      | none => simp [valOf]
      | some wr =>
        cases hw : wr.1.eval env with
        | none => simp only [valOf, Option.bind_some, hw, Option.map_none, Option.bind_none]; exact (ih.none2 _ _ hw).symm
        | some v => simp only [valOf, Option.bind_some, hw, Option.map_some]; exact ih.loop2 _ _ v hw
    · -- sum
      intro ts
      simp only [rd, parse, ih.term ts]
      cases hp : parse n .term ts with
      | none => simp [valOf]
      | some wr =>
        cases hw : wr.1.eval env with
        | none => simp only [valOf, Option.bind_some, hw, Option.map_none, Option.bind_none]; exact (ih.none1 _ _ hw).symm
        | some v => simp only [valOf, Option.bind_some, hw, Option.map_some]; exact ih.loop1 _ _ v hw
    · -- `* atom` / `/ atom` …
      intro ts accE acc hacc
      cases ts with
      | nil => simp [rd, parse, valOf, hacc]
      | cons t r =>
        cases t with
        | star =>
          have := step2 r accE acc .mul (fun a b => some (a * b)) hacc
            (by intro w wv hw; simp [E.eval, hacc, hw, bind, Option.bind]) (by intro w hw; simp [E.eval, hacc, hw, bind, Option.bind])
          simpa [rd, parse] using this
        | slash =>
          have := step2 r accE acc .div (fun a b => if b = 0 then none else some (a / b)) hacc
            (by intro w wv hw; simp [E.eval, hacc, hw, bind, Option.bind]) (by intro w hw; simp [E.eval, hacc, hw, bind, Option.bind])
          simp only [rd, parse]
          rw [← this]
          congr 1
          funext wr
          split <;> simp_all
        | pct =>
          have := step2 r accE acc .mod (fun a b => if b = 0 then none else some (pyMod a b)) hacc
            (by intro w wv hw; simp [E.eval, hacc, hw, bind, Option.bind]) (by intro w hw; simp [E.eval, hacc, hw, bind, Option.bind])
          simp only [rd, parse]
          rw [← this]
          congr 1
          funext wr
          split <;> simp_all
        | _ => simp [rd, parse, valOf, hacc]
    · -- `+ term` / `- term` …
      intro ts accE acc hacc
      cases ts with
      | nil => simp [rd, parse, valOf, hacc]
      | cons t r =>
        cases t with
        | plus =>
          have := step1 r accE acc .add (fun a b => some (a + b)) hacc
            (by intro w wv hw; simp [E.eval, hacc, hw, bind, Option.bind]) (by intro w hw; simp [E.eval, hacc, hw, bind, Option.bind])
          simpa [rd, parse] using this
        | minus =>
          have := step1 r accE acc .sub (fun a b => some (a - b)) hacc
            (by intro w wv hw; simp [E.eval, hacc, hw, bind, Option.bind]) (by intro w hw; simp [E.eval, hacc, hw, bind, Option.bind])
          simpa [rd, parse] using this
        | _ => simp [rd, parse, valOf, hacc]
    · intro ts accE hacc
      cases ts with
      | nil => simp [parse, valOf, hacc]
      | cons t r =>
        cases t with
        | star => simp only [parse]; exact nstep2 r accE .mul (by intro w; simp [E.eval, hacc, bind, Option.bind])
        | slash => simp only [parse]; exact nstep2 r accE .div (by intro w; simp [E.eval, hacc, bind, Option.bind])
        | pct => simp only [parse]; exact nstep2 r accE .mod (by intro w; simp [E.eval, hacc, bind, Option.bind])
        | _ => simp [parse, valOf, hacc]
    · intro ts accE hacc
      cases ts with
      | nil => simp [parse, valOf, hacc]
      | cons t r =>
        cases t with
        | plus => simp only [parse]; exact nstep1 r accE .add (by intro w; simp [E.eval, hacc, bind, Option.bind])
        | minus => simp only [parse]; exact nstep1 r accE .sub (by intro w; simp [E.eval, hacc, bind, Option.bind])
        | _ => simp [parse, valOf, hacc]

/-- reading a token stream for its value = reading it for its tree and evaluating the tree: every stream -/
theorem evalToks_eq_parse (env : Env) (ts : List Tok) : evalToks env ts = (parseToks ts).bind (E.eval env) := by
  unfold evalToks parseToks
  rw [(agree env _).expr ts]
  cases hp : parse (3 * ts.length + 4) .expr ts with
  | none => simp [valOf]
  | some wr =>
    obtain ⟨e, r⟩ := wr
    cases he : e.eval env with
    | none => cases r <;> simp [valOf, he]
    | some v => cases r <;> simp [valOf, he]

/-- **the value of the printed text is the value of the expression** — every expression, also when it has none -/
theorem evalToks_print_eq (env : Env) (e : E) : evalToks env e.print = e.eval env := by
  rw [evalToks_eq_parse, parseToks_print]; rfl
end Mxl.C07Expr
