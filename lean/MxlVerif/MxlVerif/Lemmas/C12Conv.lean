/- C12 — the conversion succeeds on convertible models, in any declaration order (core Lean only). -/
import MxlVerif.Lemmas.C12Succ2
namespace Mxl.C12
open Mxl

theorem eqStatic_succeeds (rx : Symbols) (cpd : Name) :
    ∀ (st : List (Name × Rat)) (eqs : Symbols), (∀ x ∈ st, x.1 ∈ omKeys rx) →
      ∃ eqs', eqStatic rx cpd st eqs = .ok eqs' ∧ (∀ a ∈ omKeys eqs, a ∈ omKeys eqs') ∧
        (st ≠ [] → cpd ∈ omKeys eqs') := by
  intro st
  induction st with
  | nil => intro eqs _; exact ⟨eqs, rfl, fun _ h => h, fun h => absurd rfl h⟩
  | cons x rest ih =>
    obtain ⟨rxn, n⟩ := x
    intro eqs h
    obtain ⟨r, hr⟩ := lookup_isSome_of_mem_keys rx rxn (h (rxn, n) List.mem_cons_self)
    obtain ⟨eqs', he, hmono, _⟩ := ih (omInsert eqs cpd (.add (eqGet eqs cpd) (.mul (.const n) r)))
      (fun x hx => h x (List.mem_cons_of_mem _ hx))
    refine ⟨eqs', by simp [eqStatic, hr, he], ?_, ?_⟩
    · intro a ha; exact hmono a ((mem_keys_omInsert _ _ _ _).mpr (Or.inr ha))
    · intro _; exact hmono cpd ((mem_keys_omInsert _ _ _ _).mpr (Or.inl rfl))

theorem eqStaticAll_succeeds (rx : Symbols) :
    ∀ (sts : List (Name × List (Name × Rat))) (eqs : Symbols),
      (∀ cs ∈ sts, ∀ x ∈ cs.2, x.1 ∈ omKeys rx) →
      ∃ eqs', eqStaticAll rx sts eqs = .ok eqs' ∧ (∀ a ∈ omKeys eqs, a ∈ omKeys eqs') ∧
        (∀ cs ∈ sts, cs.2 ≠ [] → cs.1 ∈ omKeys eqs') := by
  intro sts
  induction sts with
  | nil => intro eqs _; exact ⟨eqs, rfl, fun _ h => h, by simp⟩
  | cons cs rest ih =>
    obtain ⟨cpd, st⟩ := cs
    intro eqs h
    obtain ⟨e1, h1, m1, n1⟩ := eqStatic_succeeds rx cpd st eqs (h (cpd, st) List.mem_cons_self)
    obtain ⟨e2, h2, m2, n2⟩ := ih e1 (fun cs hcs => h cs (List.mem_cons_of_mem _ hcs))
    refine ⟨e2, by simp [eqStaticAll, h1, h2, bind, Except.bind], fun a ha => m2 a (m1 a ha), ?_⟩
    intro cs hcs hne
    rcases List.mem_cons.mp hcs with h' | h'
    · subst h'; exact m2 _ (n1 hne)
    · exact n2 cs h' hne

theorem collectEqs_succeeds (eqs : Symbols) (vn : List Name) (h : ∀ v ∈ vn, v ∈ omKeys eqs) :
    ∃ es, collectEqs eqs vn = .ok es := by
  induction vn with
  | nil => exact ⟨[], rfl⟩
  | cons v vn ih =>
    obtain ⟨es, hes⟩ := ih (fun v' hv' => h v' (List.mem_cons_of_mem _ hv'))
    obtain ⟨e, he⟩ := lookup_isSome_of_mem_keys eqs v (h v List.mem_cons_self)
    refine ⟨e :: es, ?_⟩
    unfold collectEqs at hes ⊢
    rw [List.mapM_cons]
    simp [he, hes, bind, Except.bind, pure, Except.pure]

theorem keys_symbolsOf (ks : List Name) : omKeys (symbolsOf ks) = ks := by
  simp [omKeys, symbolsOf, List.map_map, Function.comp_def]

/-- **the conversion succeeds** for every well-formed, `convertible` model that the numeric
    code accepts — whatever the declaration order (neither hypothesis mentions one). -/
theorem convert_succeeds (sc : SContent) (hwf : sc.wf = true) (hconv : sc.convertible = true)
    (cache : Cache) (hcache : createCache sc.toContent = .ok cache) :
    ∃ es, toSymbolic sc = .ok es := by
  have w := wf_facts sc hwf
  unfold SContent.convertible at hconv
  simp only [Bool.and_eq_true, List.all_eq_true, List.contains_iff_mem, List.any_eq_true] at hconv
  obtain ⟨⟨⟨hc1, hc2⟩, hc3⟩, hc4⟩ := hconv
  obtain ⟨order, dependent, so, dyo, apnF, st, dst, init, extra, horder, hdep, hcl, hst, hinit, hextra, hc⟩ :=
    createCache_inv _ _ hcache
  have hVar : cache.varNames = omKeys sc.vars := by rw [hc, keys_vars]
  have hInit : omKeys cache.init = omKeys sc.vars := by
    rw [hc]; simp only; rw [(pairs_mapM dependent _ _ hinit).1, keys_vars]
  have hBase : cache.basePars = plainOf sc.toContent.pars := by rw [hc]
  have hOrder : cache.order = order := by rw [hc]
  have hSt : cache.stoich = st := by rw [hc]
  have hDst : cache.dynStoich = dst := by rw [hc]
  obtain ⟨hsorted, hcover⟩ := sortDeps_sorted _ _ _ horder
  -- derived loop
  have hbasekeys : ∀ a ∈ sc.symNames, a ∉ omKeys sc.derived → a ∈ omKeys (baseSymbols sc cache) := by
    intro a ha hnd
    unfold baseSymbols
    rw [mem_keys_omUnion, mem_keys_omUnion, keys_symbolsOf, keys_symbolsOf, keys_symbolsOf, hInit, hBase]
    unfold SContent.symNames at ha
    simp only [List.mem_append] at ha
    rcases ha with ((h1 | h1) | h1) | h1
    · exact Or.inl (Or.inl h1)
    · exact Or.inl (Or.inr h1)
    · exact Or.inr h1
    · exact absurd h1 hnd
  obtain ⟨S, hS, hSmono, hScov⟩ := derivedLoop_succeeds sc w
    (fun k f hf a ha => hc1 (k, f) (lookup_some_mem _ _ _ hf) a ha)
    order sc.toContent.available (baseSymbols sc cache) hsorted
    (by
      intro a ha hd
      exfalso
      unfold Content.available at ha
      simp only [List.mem_append, List.mem_singleton] at ha
      rcases ha with ((h1 | h1) | h1) | h1
      · have := mem_keys_plainOf _ _ h1; rw [keys_pars] at this; exact w.p_d a this hd
      · have := mem_keys_plainOf _ _ h1; rw [keys_vars] at this; exact w.v_d a this hd
      · exact w.data_d a h1 hd
      · subst h1; exact w.time_d hd)
    hbasekeys
  have hSall : ∀ a ∈ sc.symNames, a ∈ omKeys S := by
    intro a ha
    by_cases hd : a ∈ omKeys sc.derived
    · apply hScov a _ hd
      -- every derived quantity is in the order
      have hk : a ∈ omKeys sc.toContent.toSort := by
        unfold Content.toSort
        rw [mem_keys_omUnion, mem_keys_omUnion, mem_keys_omUnion]
        left; left; right
        rw [omKeys_map_val, keys_derived]; exact hd
      obtain ⟨⟨k, comp⟩, hm, hk'⟩ := List.mem_map.mp hk
      simp at hk'; subst hk'
      have := hcover ⟨k, comp.args, comp.provided k⟩ (by
        unfold Content.deps
        exact List.mem_map.mpr ⟨(k, comp), hm, rfl⟩)
      exact this
    · exact hSmono a (hbasekeys a ha hd)
  -- reaction loop
  obtain ⟨rx, hrx, _, hrxcov⟩ := rxnLoop_succeeds S sc.rxns []
    (fun kr hkr a ha => hSall a (hc2 kr hkr a ha))
  -- stoichiometry pass
  have hs : sc.toContent.surs = [] := w.surs
  have hallSt : sc.toContent.allStoich = sc.rxns.map fun kv => (kv.1, kv.2.toRxn.stoich) := by
    unfold Content.allStoich
    rw [hs]
    simp [SContent.toContent, List.map_map, Function.comp_def]
  obtain ⟨hd2, hstinv, hne, _⟩ := addRxns_num (omKeys sc.rxns) apnF dependent sc.toContent.allStoich
    ([], []) (st, dst)
    (by
      intro rs hrs
      rw [hallSt] at hrs
      obtain ⟨⟨k, r⟩, hm, he⟩ := List.mem_map.mp hrs
      subst he
      refine ⟨List.mem_map.mpr ⟨(k, r), hm, rfl⟩, ?_⟩
      intro x hx
      simp only [SRxn.toRxn] at hx
      obtain ⟨⟨cpd, co⟩, hm2, he2⟩ := List.mem_map.mp hx
      subst he2
      have := hc3 (k, r) hm (cpd, co) hm2
      cases co with
      | num c => exact ⟨c, rfl⟩
      | dyn f => simp [SCoef.isNum] at this)
    hst (by intro _ _ _ _ hm; simp at hm)
  simp only at hd2 hstinv hne
  subst hd2
  obtain ⟨eqs1, he1, _, heqcov⟩ := eqStaticAll_succeeds rx st []
    (by
      intro cs hcs x hx
      have := hstinv cs.1 cs.2 x.1 x.2 hcs hx
      obtain ⟨⟨k, r⟩, hm, hk⟩ := List.mem_map.mp this
      simp at hk; rw [← hk]
      exact hrxcov (k, r) hm)
  obtain ⟨es, hes⟩ := collectEqs_succeeds eqs1 cache.varNames
    (by
      intro v hv
      rw [hVar] at hv
      obtain ⟨⟨k, r⟩, hm, hvk⟩ := hc4 v hv
      obtain ⟨⟨cpd, co⟩, hm2, hk2⟩ := List.mem_map.mp hvk
      simp at hk2; subst hk2
      have hin : (k, r.toRxn.stoich) ∈ sc.toContent.allStoich := by
        rw [hallSt]; exact List.mem_map.mpr ⟨(k, r), hm, rfl⟩
      have hx : (cpd, co.toCoef) ∈ r.toRxn.stoich := List.mem_map.mpr ⟨(cpd, co), hm2, rfl⟩
      obtain ⟨m, hml, hmne⟩ := hne _ hin _ hx
      exact heqcov (cpd, m) (lookup_some_mem _ _ _ hml) hmne)
  refine ⟨es, ?_⟩
  unfold toSymbolic toSymbolicWith
  simp [hcache, bind, Except.bind, hOrder, hS, hrx, hSt, he1, hDst, eqDynAll, hes]

end Mxl.C12
