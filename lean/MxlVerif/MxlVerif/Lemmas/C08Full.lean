/- helper lemmas: modifiers, model id (Model/C08Compartment.lean, `writeModelFull`) -/
import MxlVerif.Lemmas.C08RoundtripFrom
namespace Mxl.C08
open Gen

theorem mapE_ok_of_forall {α β} (f : α → Except XErr β) (g : α → β) :
    ∀ (l : List α), (∀ a ∈ l, f a = .ok (g a)) → mapE f l = .ok (l.map g) := by
  intro l
  induction l with
  | nil => intro _; rfl
  | cons a as ih =>
    intro h
    simp [mapE, h a (List.mem_cons_self ..), ih (fun x hx => h x (List.mem_cons_of_mem _ hx)), bind, Except.bind, pure, Except.pure]

theorem modifiersOf_spec (m : PyModel) (rx : PyRxn) :
    ∀ k ∈ modifiersOf m rx, k ∈ rx.fn.args ∧ k ∈ m.vars.map (·.1) ∧ k ∉ rx.stoich.map (·.1) := by
  intro k hk
  simp only [modifiersOf, List.mem_filter, Bool.and_eq_true, Bool.not_eq_true'] at hk
  refine ⟨hk.1, by simpa using hk.2.1, ?_⟩
  intro hmem
  have : (rx.stoich.map (·.1)).contains k = true := by simpa using hmem
  rw [this] at hk
  exact absurd hk.2.2 (by simp)

theorem writeModelFull_parts {m : PyModel} {cs : Option (List (String × Rat))} {o : WriteOpts} {dc : SDocC}
    (h : writeModelFull m cs o = .ok dc) :
    ∃ dc0 mods mid, writeModel m cs = .ok dc0 ∧ exportModifiers m = .ok mods ∧ modelId o = .ok mid ∧
      dc = { dc0 with modifiers := mods, modelId := mid, unitIds := o.unitIds } := by
  unfold writeModelFull at h
  cases h1 : modelId o with
  | error e => simp [h1, bind, Except.bind] at h
  | ok mid =>
    cases h2 : writeModel m cs with
    | error e => simp [h1, h2, bind, Except.bind] at h
    | ok dc0 =>
      cases h3 : exportModifiers m with
      | error e => simp [h1, h2, h3, bind, Except.bind] at h
      | ok mods =>
        simp only [h1, h2, h3, bind, Except.bind, pure, Except.pure, Except.ok.injEq] at h
        exact ⟨dc0, mods, mid, rfl, rfl, rfl, h.symm⟩

theorem escapeChars_ne_nil : ∀ (l : List Char), l ≠ [] → escapeChars l ≠ [] := by
  intro l hl
  cases l with
  | nil => exact absurd rfl hl
  | cons c cs =>
    simp only [escapeChars, escapeChar]
    split <;> simp

theorem modelId_total (o : WriteOpts) : ∃ id, modelId o = .ok id := by
  unfold modelId escapeId
  have hne : (o.modelName ++ "_" ++ o.date).toList ≠ [] := by
    simp [String.toList_append]
  cases hc : escapeChars (o.modelName ++ "_" ++ o.date).toList with
  | nil => exact absurd hc (escapeChars_ne_nil _ hne)
  | cons c cs =>
    simp only []
    split <;> exact ⟨_, rfl⟩
end Mxl.C08
