/-
Lemmas for C11 (core Lean only): positional binding, definition invariants threaded through the
generator, the builder segments.
-/
import MxlVerif.Model.C11
namespace Mxl.C11

/-! ### positional binding of distinct parameter names -/

theorem hasDup_cons {a : Name} {as : List Name} (h : hasDup (a :: as) = false) :
    as.contains a = false ∧ hasDup as = false := by
  simpa [hasDup] using h

theorem bindArg_cons_ne {p a : Name} {v : Rat} {ps : List Name} {vs : List Rat} (h : a ≠ p) :
    bindArg (p :: ps) (v :: vs) a = bindArg ps vs a := by
  have : (a == p) = false := by simpa using h
  simp [bindArg, List.zip_cons_cons, List.lookup_cons, this]

theorem map_bindArg_fit : ∀ (ps : List Name) (vs : List Rat), hasDup ps = false →
    ps.map (bindArg ps vs) = fit ps.length vs := by
  intro ps
  induction ps with
  | nil => intro vs _; simp [fit]
  | cons p ps ih =>
    intro vs h
    obtain ⟨hp, hd⟩ := hasDup_cons h
    cases vs with
    | nil =>
      have h0 : ∀ (qs : List Name), qs.map (bindArg (p :: ps) []) = fit qs.length [] := by
        intro qs; induction qs with
        | nil => simp [fit]
        | cons q qs ihq => simp [fit, bindArg, ihq]
      simpa using h0 (p :: ps)
    | cons v vs =>
      have hmap : ps.map (bindArg (p :: ps) (v :: vs)) = ps.map (bindArg ps vs) := by
        apply List.map_congr_left
        intro a ha
        apply bindArg_cons_ne
        intro hap; subst hap
        have : ps.contains a = true := by simpa using ha
        rw [this] at hp; exact absurd hp (by simp)
      have hhead : bindArg (p :: ps) (v :: vs) p = v := by simp [bindArg, List.lookup_cons]
      simp [fit, hhead, hmap, ih vs hd]

/-! ### definitions that come from uses of the model -/

def SymOk (c : NContent) (f : SymFn) : Prop :=
  f.expr = { args := f.args, fn := (c.pyfn f.src).fn } ∧ (⟨f.src, f.args⟩ : Use) ∈ Use.all c

def DefOk (c : NContent) (d : Def) : Prop :=
  d.body = { args := d.params, fn := (c.pyfn d.src).fn } ∧ (⟨d.src, d.params⟩ : Use) ∈ Use.all c

theorem Def.call_eq {c : NContent} (hc : Canonical c) {d : Def} (hd : DefOk c d)
    (hn : hasDup d.params = false) : d.call = (c.pyfn d.src).fn := by
  funext vs
  simp only [Def.call, hd.1, map_bindArg_fit _ _ hn]
  exact (hc _ hd.2 vs).symm

theorem lookup_some_mem {β} : ∀ (l : List (String × β)) (k : String) (v : β),
    l.lookup k = some v → (k, v) ∈ l := by
  intro l; induction l with
  | nil => intro k v h; simp at h
  | cons kv rest ih =>
    intro k v h
    obtain ⟨k', v'⟩ := kv
    by_cases hk : k = k'
    · subst hk; simp [List.lookup_cons] at h; subst h; simp
    · have : (k == k') = false := by simpa using hk
      simp [List.lookup_cons, this] at h
      exact List.mem_cons_of_mem _ (ih k v h)

theorem resolve_ok {c : NContent} (hc : Canonical c) {defs : Fns}
    (hdefs : ∀ kd ∈ defs, DefOk c kd.2)
    (hnd : (defs.all fun kd => !hasDup kd.2.params) = true)
    {r : Ref} (hr : refOk defs r = true) :
    resolve defs r = .ok { args := r.args, fn := (c.pyfn r.src).fn } := by
  unfold refOk at hr
  unfold resolve
  cases hl : defs.lookup r.key with
  | none => simp [hl] at hr
  | some d =>
    simp [hl] at hr
    have hm := lookup_some_mem _ _ _ hl
    have hdo := hdefs _ hm
    have hno : hasDup d.params = false := by
      have := List.all_eq_true.mp hnd _ hm
      simpa using this
    simp [Def.call_eq hc hdo hno, hr, pure, Except.pure]

/-! ### `_to_symbolic_repr` never fails when every function translates -/

def symFnOf (c : NContent) (u : Use) : SymFn :=
  { fnName := (c.pyfn u.fid).name, expr := { args := u.args, fn := (c.pyfn u.fid).fn }, args := u.args, src := u.fid }

def symValOf (c : NContent) : NVal → SymVal
  | .plain v => .num v
  | .ia u => .fn (symFnOf c u)

def symCoefOf (c : NContent) : NCoef → SymVal
  | .num v => .num v
  | .dyn u => .fn (symFnOf c u)

def symOf (c : NContent) : SymRepr :=
  { variables := c.vars.map fun kv => (kv.1, symValOf c kv.2)
    parameters := c.pars.map fun kv => (kv.1, symValOf c kv.2)
    derived := c.derived.map fun kv => (kv.1, symFnOf c kv.2)
    reactions := c.rxns.map fun kv =>
      (kv.1, { fn := symFnOf c kv.2.rate, stoich := kv.2.stoich.map fun vc => (vc.1, symCoefOf c vc.2) }) }

theorem symFn_nil (c : NContent) (k : Name) (u : Use) : symFn [] c k u = .ok (symFnOf c u) := by
  simp [symFn, symFnOf, pure, Except.pure]

theorem symVal_nil (c : NContent) (k : Name) (v : NVal) : symVal [] c k v = .ok (symValOf c v) := by
  cases v <;> simp [symVal, symValOf, symFn_nil, pure, Except.pure, bind, Except.bind]

theorem symCoef_nil (c : NContent) (k : Name) (v : NCoef) : symCoef [] c k v = .ok (symCoefOf c v) := by
  cases v <;> simp [symCoef, symCoefOf, symFn_nil, pure, Except.pure, bind, Except.bind]

theorem mapM_ok {α β} (f : α → Except Err β) (g : α → β) (h : ∀ a, f a = .ok (g a)) :
    ∀ l : List α, l.mapM f = .ok (l.map g) := by
  intro l; induction l with
  | nil => rfl
  | cons a l ih => simp [List.mapM_cons, h a, ih, pure, Except.pure, bind, Except.bind]

theorem toSymbolicRepr_nil (c : NContent) : toSymbolicRepr [] c = .ok (symOf c) := by
  unfold toSymbolicRepr symOf
  have hv := mapM_ok (fun kv : Name × NVal => (do pure (kv.1, ← symVal [] c kv.1 kv.2) : Except Err _))
    (fun kv : Name × NVal => (kv.1, symValOf c kv.2)) (by intro a; simp [symVal_nil, pure, Except.pure, bind, Except.bind])
  rw [hv c.vars, hv c.pars]
  rw [mapM_ok _ (fun kv : Name × Use => (kv.1, symFnOf c kv.2)) (by intro a; simp [symFn_nil, pure, Except.pure, bind, Except.bind])]
  rw [mapM_ok _ (fun kv : Name × NRxn => (kv.1, ({ fn := symFnOf c kv.2.rate, stoich := kv.2.stoich.map fun vc => (vc.1, symCoefOf c vc.2) } : SymRxn)))
    (by intro a
        simp only [symFn_nil, bind, Except.bind]
        rw [mapM_ok _ (fun vc : Name × NCoef => (vc.1, symCoefOf c vc.2)) (by intro b; simp [symCoef_nil, pure, Except.pure, bind, Except.bind])]
        rfl)]
  rfl

/-! ### the builder calls do not depend on the threaded `functions` dict -/

def initVal (taken : List String) : SymVal → BVal
  | .num v => .num v
  | .fn f => .ref { key := freeName taken ("init_" ++ f.fnName), args := f.args, src := f.src }

def initCalls (taken : List String) (mk : Name → BVal → Call) (l : List (Name × SymVal)) : List Call :=
  l.map fun kv => mk kv.1 (initVal taken kv.2)

def derivedCalls (l : List (Name × SymFn)) : List Call :=
  l.map fun kv => Call.addDerived kv.1 { key := kv.2.fnName, args := kv.2.args, src := kv.2.src }

def stoichVal (taken : List String) (rxn : Name) : SymVal → BVal
  | .num q => .num q
  | .fn f => .ref { key := freeName taken (rxn ++ "_stoich_" ++ f.fnName), args := f.args, src := f.src }

def rxnCalls (taken : List String) (l : List (Name × SymRxn)) : List Call :=
  l.map fun kv => Call.addReaction kv.1 { key := kv.2.fn.fnName, args := kv.2.fn.args, src := kv.2.fn.src }
    (kv.2.stoich.map fun vs => (vs.1, stoichVal taken kv.1 vs.2))

theorem genInits_snd (taken : List String) (mk : Name → BVal → Call) : ∀ (l : List (Name × SymVal)) (fs : Fns),
    (genInits taken mk l fs).2 = initCalls taken mk l := by
  intro l; induction l with
  | nil => intro fs; rfl
  | cons kv rest ih =>
    intro fs
    obtain ⟨k, v⟩ := kv
    cases v with
    | num q => simp [genInits, genInit, initCalls, initVal, ih]
    | fn f => simp [genInits, genInit, initCalls, initVal]; exact ih _

theorem genDerived_snd : ∀ (l : List (Name × SymFn)) (fs : Fns),
    (genDerived l fs).2 = derivedCalls l := by
  intro l; induction l with
  | nil => intro fs; rfl
  | cons kv rest ih =>
    intro fs; obtain ⟨k, f⟩ := kv
    simp [genDerived, derivedCalls]; exact ih _

theorem genStoich_snd (taken : List String) (rxn : Name) : ∀ (l : List (Name × SymVal)) (fs : Fns),
    (genStoich taken rxn l fs).2 = l.map fun vs => (vs.1, stoichVal taken rxn vs.2) := by
  intro l; induction l with
  | nil => intro fs; rfl
  | cons kv rest ih =>
    intro fs; obtain ⟨k, v⟩ := kv
    cases v with
    | num q => simp [genStoich, stoichVal]; exact ih _
    | fn f => simp [genStoich, stoichVal]; exact ih _

theorem genReactions_snd (taken : List String) : ∀ (l : List (Name × SymRxn)) (fs : Fns),
    (genReactions taken l fs).2 = rxnCalls taken l := by
  intro l; induction l with
  | nil => intro fs; rfl
  | cons kv rest ih =>
    intro fs; obtain ⟨k, r⟩ := kv
    simp [genReactions, rxnCalls, genStoich_snd]; exact ih _

theorem genMxlpy_build (s : SymRepr) :
    (genProgram s).build = initCalls (takenOf s) Call.addVariable s.variables
      ++ initCalls (takenOf s) Call.addParameter s.parameters
      ++ derivedCalls s.derived ++ rxnCalls (takenOf s) s.reactions := by
  simp [genProgram, genInits_snd, genDerived_snd, genReactions_snd]

/-! ### every definition in the `functions` dict comes from a use of the model -/

def AllOk (c : NContent) (fs : Fns) : Prop := ∀ kd ∈ fs, DefOk c kd.2

theorem mem_omInsert {β} : ∀ (m : List (Name × β)) (k : Name) (v : β) (x : Name × β),
    x ∈ omInsert m k v → x ∈ m ∨ x = (k, v) := by
  intro m; induction m with
  | nil => intro k v x h; simp [omInsert] at h; exact Or.inr h
  | cons kv rest ih =>
    intro k v x h
    obtain ⟨k', v'⟩ := kv
    simp only [omInsert] at h
    split at h
    · cases List.mem_cons.mp h with
      | inl h1 => exact Or.inr h1
      | inr h1 => exact Or.inl (List.mem_cons_of_mem _ h1)
    · cases List.mem_cons.mp h with
      | inl h1 => exact Or.inl (h1 ▸ List.mem_cons_self)
      | inr h1 =>
        cases ih k v x h1 with
        | inl h2 => exact Or.inl (List.mem_cons_of_mem _ h2)
        | inr h2 => exact Or.inr h2

theorem AllOk.put {c : NContent} {fs : Fns} (h : AllOk c fs) {f : SymFn} (hf : SymOk c f) (key : String) :
    AllOk c (fs.put key f) := by
  intro kd hkd
  cases mem_omInsert _ _ _ _ hkd with
  | inl h1 => exact h _ h1
  | inr h1 => subst h1; exact hf

def SymValOk (c : NContent) : SymVal → Prop
  | .num _ => True
  | .fn f => SymOk c f

theorem genInits_ok {c : NContent} (taken : List String) (mk : Name → BVal → Call) :
    ∀ (l : List (Name × SymVal)) (fs : Fns),
    AllOk c fs → (∀ kv ∈ l, SymValOk c kv.2) → AllOk c (genInits taken mk l fs).1 := by
  intro l; induction l with
  | nil => intro fs h _; exact h
  | cons kv rest ih =>
    intro fs h hl
    obtain ⟨k, v⟩ := kv
    have hrest : ∀ kv ∈ rest, SymValOk c kv.2 := fun kv hkv => hl kv (List.mem_cons_of_mem _ hkv)
    cases v with
    | num q => simpa [genInits, genInit] using ih fs h hrest
    | fn f =>
      have hf : SymOk c f := hl (k, .fn f) List.mem_cons_self
      simpa [genInits, genInit] using ih _ (h.put hf _) hrest

theorem genDerived_ok {c : NContent} : ∀ (l : List (Name × SymFn)) (fs : Fns),
    AllOk c fs → (∀ kv ∈ l, SymOk c kv.2) → AllOk c (genDerived l fs).1 := by
  intro l; induction l with
  | nil => intro fs h _; exact h
  | cons kv rest ih =>
    intro fs h hl
    obtain ⟨k, f⟩ := kv
    have hrest : ∀ kv ∈ rest, SymOk c kv.2 := fun kv hkv => hl kv (List.mem_cons_of_mem _ hkv)
    simpa [genDerived] using ih _ (h.put (hl (k, f) List.mem_cons_self) _) hrest

theorem genStoich_ok {c : NContent} (taken : List String) (rxn : Name) : ∀ (l : List (Name × SymVal)) (fs : Fns),
    AllOk c fs → (∀ kv ∈ l, SymValOk c kv.2) → AllOk c (genStoich taken rxn l fs).1 := by
  intro l; induction l with
  | nil => intro fs h _; exact h
  | cons kv rest ih =>
    intro fs h hl
    obtain ⟨k, v⟩ := kv
    have hrest : ∀ kv ∈ rest, SymValOk c kv.2 := fun kv hkv => hl kv (List.mem_cons_of_mem _ hkv)
    cases v with
    | num q => simpa [genStoich] using ih fs h hrest
    | fn f =>
      have hf : SymOk c f := hl (k, .fn f) List.mem_cons_self
      simpa [genStoich] using ih _ (h.put hf _) hrest

def SymRxnOk (c : NContent) (r : SymRxn) : Prop := SymOk c r.fn ∧ ∀ vs ∈ r.stoich, SymValOk c vs.2

theorem genReactions_ok {c : NContent} (taken : List String) : ∀ (l : List (Name × SymRxn)) (fs : Fns),
    AllOk c fs → (∀ kv ∈ l, SymRxnOk c kv.2) → AllOk c (genReactions taken l fs).1 := by
  intro l; induction l with
  | nil => intro fs h _; exact h
  | cons kv rest ih =>
    intro fs h hl
    obtain ⟨k, r⟩ := kv
    have hrest : ∀ kv ∈ rest, SymRxnOk c kv.2 := fun kv hkv => hl kv (List.mem_cons_of_mem _ hkv)
    have hr := hl (k, r) List.mem_cons_self
    simpa [genReactions] using ih _ (genStoich_ok taken k r.stoich _ (h.put hr.1 _) hr.2) hrest

/-! ### uses of the model -/

theorem symFnOf_ok {c : NContent} {u : Use} (h : u ∈ Use.all c) : SymOk c (symFnOf c u) := by
  exact ⟨rfl, h⟩

theorem use_of_var {c : NContent} {k : Name} {u : Use} (h : (k, NVal.ia u) ∈ c.vars) : u ∈ Use.all c := by
  simp only [Use.all, List.mem_append, List.mem_filterMap]
  exact Or.inl (Or.inl (Or.inl ⟨_, h, rfl⟩))

theorem use_of_par {c : NContent} {k : Name} {u : Use} (h : (k, NVal.ia u) ∈ c.pars) : u ∈ Use.all c := by
  simp only [Use.all, List.mem_append, List.mem_filterMap]
  exact Or.inl (Or.inl (Or.inr ⟨_, h, rfl⟩))

theorem use_of_derived {c : NContent} {k : Name} {u : Use} (h : (k, u) ∈ c.derived) : u ∈ Use.all c := by
  simp only [Use.all, List.mem_append, List.mem_map]
  exact Or.inl (Or.inr ⟨_, h, rfl⟩)

theorem use_of_rate {c : NContent} {k : Name} {r : NRxn} (h : (k, r) ∈ c.rxns) : r.rate ∈ Use.all c := by
  simp only [Use.all, List.mem_append, List.mem_flatMap]
  exact Or.inr ⟨_, h, List.mem_cons_self⟩

theorem use_of_coef {c : NContent} {k v : Name} {r : NRxn} {u : Use} (h : (k, r) ∈ c.rxns)
    (hv : (v, NCoef.dyn u) ∈ r.stoich) : u ∈ Use.all c := by
  simp only [Use.all, List.mem_append, List.mem_flatMap]
  refine Or.inr ⟨_, h, List.mem_cons_of_mem _ ?_⟩
  simp only [List.mem_filterMap]
  exact ⟨_, hv, rfl⟩

theorem symOf_defs_ok (c : NContent) : AllOk c (genProgram (symOf c)).defs := by
  unfold genProgram
  simp only
  have h0 : AllOk c ([] : Fns) := by intro kd h; cases h
  have hv : ∀ kv ∈ (symOf c).variables, SymValOk c kv.2 := by
    intro kv h
    simp only [symOf, List.mem_map] at h
    obtain ⟨⟨k, v⟩, hm, rfl⟩ := h
    cases v with
    | plain q => trivial
    | ia u => exact symFnOf_ok (use_of_var hm)
  have hp : ∀ kv ∈ (symOf c).parameters, SymValOk c kv.2 := by
    intro kv h
    simp only [symOf, List.mem_map] at h
    obtain ⟨⟨k, v⟩, hm, rfl⟩ := h
    cases v with
    | plain q => trivial
    | ia u => exact symFnOf_ok (use_of_par hm)
  have hd : ∀ kv ∈ (symOf c).derived, SymOk c kv.2 := by
    intro kv h
    simp only [symOf, List.mem_map] at h
    obtain ⟨⟨k, u⟩, hm, rfl⟩ := h
    exact symFnOf_ok (use_of_derived hm)
  have hr : ∀ kv ∈ (symOf c).reactions, SymRxnOk c kv.2 := by
    intro kv h
    simp only [symOf, List.mem_map] at h
    obtain ⟨⟨k, r⟩, hm, rfl⟩ := h
    refine ⟨symFnOf_ok (use_of_rate hm), ?_⟩
    intro vs hvs
    simp only [List.mem_map] at hvs
    obtain ⟨⟨v, cf⟩, hm2, rfl⟩ := hvs
    cases cf with
    | num q => trivial
    | dyn u => exact symFnOf_ok (use_of_coef hm hm2)
  exact genReactions_ok _ _ _ (genDerived_ok _ _ (genInits_ok _ _ _ _ (genInits_ok _ _ _ _ h0 hv) hp) hd) hr

/-! ### running the builder chain against the final definitions -/

structure Good (c : NContent) (D : Fns) : Prop where
  canon : Canonical c
  ok : AllOk c D
  nodup : (D.all fun kd => !hasDup kd.2.params) = true

theorem resolve_use {c : NContent} {D : Fns} (g : Good c D) (u : Use) (key : String)
    (hr : refOk D { key, args := u.args, src := u.fid } = true) :
    resolve D { key, args := u.args, src := u.fid } = .ok (c.fnOf u) := by
  simpa [NContent.fnOf] using resolve_ok g.canon g.ok g.nodup hr

theorem checkDefs_ok : ∀ (D : Fns), (D.all fun kd => !hasDup kd.2.params) = true → checkDefs D = .ok () := by
  intro D; induction D with
  | nil => intro _; rfl
  | cons kd rest ih =>
    intro h
    obtain ⟨k, d⟩ := kd
    simp only [List.all_cons, Bool.and_eq_true] at h
    have h1 : hasDup d.params = false := by simpa using h.1
    simp [checkDefs, h1, ih h.2]

theorem resolveVal_init {c : NContent} {D : Fns} (g : Good c D) (taken : List String) (v : NVal)
    (hr : ∀ r ∈ (initVal taken (symValOf c v)).refs, refOk D r = true) :
    resolveVal D (initVal taken (symValOf c v)) = .ok (c.valOf v) := by
  cases v with
  | plain q => simp [symValOf, initVal, resolveVal, NContent.valOf, pure, Except.pure]
  | ia u =>
    have := resolve_use g u (freeName taken ("init_" ++ (c.pyfn u.fid).name)) (hr _ (by simp [symValOf, initVal, BVal.refs, symFnOf]))
    simp [symValOf, initVal, resolveVal, NContent.valOf, symFnOf, this, pure, Except.pure, bind, Except.bind]

theorem resolveCoef_stoich {c : NContent} {D : Fns} (g : Good c D) (taken : List String) (rxn : Name) (v : NCoef)
    (hr : ∀ r ∈ (stoichVal taken rxn (symCoefOf c v)).refs, refOk D r = true) :
    resolveCoef D (stoichVal taken rxn (symCoefOf c v)) = .ok (c.coefOf v) := by
  cases v with
  | num q => simp [symCoefOf, stoichVal, resolveCoef, NContent.coefOf, pure, Except.pure]
  | dyn u =>
    have := resolve_use g u (freeName taken (rxn ++ "_stoich_" ++ (c.pyfn u.fid).name)) (hr _ (by simp [symCoefOf, stoichVal, BVal.refs, symFnOf]))
    simp [symCoefOf, stoichVal, resolveCoef, NContent.coefOf, symFnOf, this, pure, Except.pure, bind, Except.bind]

theorem run_vars {c : NContent} {D : Fns} (g : Good c D) (taken : List String) : ∀ (l : List (Name × NVal)) (c0 : Content),
    (∀ kv ∈ l, ∀ r ∈ (initVal taken (symValOf c kv.2)).refs, refOk D r = true) →
    runCalls D (initCalls taken Call.addVariable (l.map fun kv => (kv.1, symValOf c kv.2))) c0
      = .ok { c0 with vars := c0.vars ++ l.map fun kv => (kv.1, c.valOf kv.2) } := by
  intro l; induction l with
  | nil => intro c0 _; simp [initCalls, runCalls, pure, Except.pure]
  | cons kv rest ih =>
    intro c0 h
    obtain ⟨k, v⟩ := kv
    have h1 := resolveVal_init g taken v (h (k, v) List.mem_cons_self)
    have h2 := ih { c0 with vars := c0.vars ++ [(k, c.valOf v)] }
      (fun kv hkv => h kv (List.mem_cons_of_mem _ hkv))
    simp only [initCalls, List.map_cons, runCalls, h1, bind, Except.bind] at h2 ⊢
    rw [h2]; simp

theorem run_pars {c : NContent} {D : Fns} (g : Good c D) (taken : List String) : ∀ (l : List (Name × NVal)) (c0 : Content),
    (∀ kv ∈ l, ∀ r ∈ (initVal taken (symValOf c kv.2)).refs, refOk D r = true) →
    runCalls D (initCalls taken Call.addParameter (l.map fun kv => (kv.1, symValOf c kv.2))) c0
      = .ok { c0 with pars := c0.pars ++ l.map fun kv => (kv.1, c.valOf kv.2) } := by
  intro l; induction l with
  | nil => intro c0 _; simp [initCalls, runCalls, pure, Except.pure]
  | cons kv rest ih =>
    intro c0 h
    obtain ⟨k, v⟩ := kv
    have h1 := resolveVal_init g taken v (h (k, v) List.mem_cons_self)
    have h2 := ih { c0 with pars := c0.pars ++ [(k, c.valOf v)] }
      (fun kv hkv => h kv (List.mem_cons_of_mem _ hkv))
    simp only [initCalls, List.map_cons, runCalls, h1, bind, Except.bind] at h2 ⊢
    rw [h2]; simp

theorem run_derived {c : NContent} {D : Fns} (g : Good c D) : ∀ (l : List (Name × Use)) (c0 : Content),
    (∀ kv ∈ l, refOk D { key := (c.pyfn kv.2.fid).name, args := kv.2.args, src := kv.2.fid } = true) →
    runCalls D (derivedCalls (l.map fun kv => (kv.1, symFnOf c kv.2))) c0
      = .ok { c0 with derived := c0.derived ++ l.map fun kv => (kv.1, c.fnOf kv.2) } := by
  intro l; induction l with
  | nil => intro c0 _; simp [derivedCalls, runCalls, pure, Except.pure]
  | cons kv rest ih =>
    intro c0 h
    obtain ⟨k, u⟩ := kv
    have h1 := resolve_use g u _ (h (k, u) List.mem_cons_self)
    have h2 := ih { c0 with derived := c0.derived ++ [(k, c.fnOf u)] }
      (fun kv hkv => h kv (List.mem_cons_of_mem _ hkv))
    simp only [derivedCalls, List.map_cons, runCalls, symFnOf, h1, bind, Except.bind] at h2 ⊢
    rw [h2]; simp

theorem mapM_ok_mem {α β} (f : α → Except Err β) (g : α → β) :
    ∀ l : List α, (∀ a ∈ l, f a = .ok (g a)) → l.mapM f = .ok (l.map g) := by
  intro l; induction l with
  | nil => intro _; rfl
  | cons a l ih =>
    intro h
    have h1 := h a List.mem_cons_self
    have h2 := ih (fun b hb => h b (List.mem_cons_of_mem _ hb))
    simp only [List.mapM_cons, h1, h2, bind, Except.bind, pure, Except.pure, List.map_cons]

theorem stoich_mapM {c : NContent} {D : Fns} (g : Good c D) (taken : List String) (rxn : Name) (st : List (Name × NCoef))
    (h : ∀ vc ∈ st, ∀ r ∈ (stoichVal taken rxn (symCoefOf c vc.2)).refs, refOk D r = true) :
    (st.map fun vc => (vc.1, stoichVal taken rxn (symCoefOf c vc.2))).mapM
        (fun vc => (do pure (vc.1, ← resolveCoef D vc.2) : Except Err (Name × Coef)))
      = .ok (st.map fun vc => (vc.1, c.coefOf vc.2)) := by
  have := mapM_ok_mem (fun vc : Name × BVal => (do pure (vc.1, ← resolveCoef D vc.2) : Except Err (Name × Coef)))
    (fun vc : Name × BVal => (vc.1, match resolveCoef D vc.2 with | .ok x => x | .error _ => Coef.num 0))
    (st.map fun vc => (vc.1, stoichVal taken rxn (symCoefOf c vc.2)))
    (by
      intro a ha
      simp only [List.mem_map] at ha
      obtain ⟨⟨v, cf⟩, hm, rfl⟩ := ha
      have h1 := resolveCoef_stoich g taken rxn cf (h (v, cf) hm)
      simp only [h1, bind, Except.bind, pure, Except.pure])
  rw [this, List.map_map]
  congr 1
  apply List.map_congr_left
  intro a ha
  obtain ⟨v, cf⟩ := a
  have h1 := resolveCoef_stoich g taken rxn cf (h (v, cf) ha)
  simp only [Function.comp, h1]

def rxnOf (c : NContent) (r : NRxn) : Rxn :=
  { rate := c.fnOf r.rate, stoich := r.stoich.map fun vc => (vc.1, c.coefOf vc.2) }

def symRxnOf (c : NContent) (r : NRxn) : SymRxn :=
  { fn := symFnOf c r.rate, stoich := r.stoich.map fun vc => (vc.1, symCoefOf c vc.2) }

theorem run_rxns {c : NContent} {D : Fns} (g : Good c D) (taken : List String) : ∀ (l : List (Name × NRxn)) (c0 : Content),
    (∀ kv ∈ l, refOk D { key := (c.pyfn kv.2.rate.fid).name, args := kv.2.rate.args, src := kv.2.rate.fid } = true
       ∧ ∀ vc ∈ kv.2.stoich, ∀ r ∈ (stoichVal taken kv.1 (symCoefOf c vc.2)).refs, refOk D r = true) →
    runCalls D (rxnCalls taken (l.map fun kv => (kv.1, symRxnOf c kv.2))) c0
      = .ok { c0 with rxns := c0.rxns ++ l.map fun kv => (kv.1, rxnOf c kv.2) } := by
  intro l; induction l with
  | nil => intro c0 _; simp [rxnCalls, runCalls, pure, Except.pure]
  | cons kv rest ih =>
    intro c0 h
    obtain ⟨k, r⟩ := kv
    have hk := h (k, r) List.mem_cons_self
    have h1 := resolve_use g r.rate _ hk.1
    have h3 := stoich_mapM g taken k r.stoich hk.2
    have h2 := ih { c0 with rxns := c0.rxns ++ [(k, rxnOf c r)] }
      (fun kv hkv => h kv (List.mem_cons_of_mem _ hkv))
    simp only [rxnCalls, List.map_cons, runCalls, symRxnOf, symFnOf, List.map_map, Function.comp_def, h1, bind, Except.bind] at h2 h3 ⊢
    simp only [h3]
    simp only [rxnOf] at h2
    rw [h2]; simp [rxnOf]

theorem runCalls_append (D : Fns) : ∀ (a b : List Call) (c0 : Content),
    runCalls D (a ++ b) c0 = (runCalls D a c0).bind (runCalls D b) := by
  intro a; induction a with
  | nil => intro b c0; simp [runCalls, Except.bind, pure, Except.pure]
  | cons x rest ih =>
    intro b c0
    cases x with
    | addVariable k v =>
      simp only [List.cons_append, runCalls, bind]
      cases resolveVal D v with
      | error e => rfl
      | ok v' => simp [Except.bind, ih]
    | addParameter k v =>
      simp only [List.cons_append, runCalls, bind]
      cases resolveVal D v with
      | error e => rfl
      | ok v' => simp [Except.bind, ih]
    | addDerived k r =>
      simp only [List.cons_append, runCalls, bind]
      cases resolve D r with
      | error e => rfl
      | ok v' => simp [Except.bind, ih]
    | addReaction k r st =>
      simp only [List.cons_append, runCalls, bind]
      cases resolve D r with
      | error e => rfl
      | ok v' =>
        simp only [Except.bind]
        generalize (List.mapM (m := Except Err) _ st) = m
        cases m with
        | error e => rfl
        | ok st' => simp [ih, Except.bind]

/-! ### an untranslatable function makes `_to_symbolic_repr` raise ValueError -/

theorem mapM_ok_all {α β} (f : α → Except Err β) : ∀ (l : List α) (r : List β),
    l.mapM f = .ok r → ∀ a ∈ l, ∃ b, f a = .ok b := by
  intro l; induction l with
  | nil => intro r _ a ha; cases ha
  | cons x l ih =>
    intro r h a ha
    simp only [List.mapM_cons, bind, Except.bind] at h
    cases hx : f x with
    | error e => simp [hx] at h
    | ok b =>
      simp only [hx] at h
      cases hl : l.mapM f with
      | error e => simp [hl] at h
      | ok r' =>
        cases List.mem_cons.mp ha with
        | inl h1 => exact ⟨b, h1 ▸ hx⟩
        | inr h1 => exact ih r' hl a h1

theorem mapM_error {α β} (f : α → Except Err β) : ∀ (l : List α) (e : Err),
    l.mapM f = .error e → ∃ a ∈ l, f a = .error e := by
  intro l; induction l with
  | nil => intro e h; simp [List.mapM_nil, pure, Except.pure] at h
  | cons x l ih =>
    intro e h
    simp only [List.mapM_cons, bind, Except.bind] at h
    cases hx : f x with
    | error e' => simp [hx] at h; exact ⟨x, List.mem_cons_self, h ▸ hx⟩
    | ok b =>
      simp only [hx] at h
      cases hl : l.mapM f with
      | error e' =>
        simp [hl] at h
        obtain ⟨a, ha, hfa⟩ := ih e' hl
        exact ⟨a, List.mem_cons_of_mem _ ha, h ▸ hfa⟩
      | ok r' => simp [hl, pure, Except.pure] at h

def IsValueError : Err → Prop
  | .valueError _ => True
  | _ => False

theorem symFn_error {bad : List String} {c : NContent} {k : Name} {u : Use} {e : Err}
    (h : symFn bad c k u = .error e) : IsValueError e := by
  simp only [symFn] at h
  split at h
  · cases h; trivial
  · cases h

theorem symFn_ok_not_bad {bad : List String} {c : NContent} {k : Name} {u : Use} {f : SymFn}
    (h : symFn bad c k u = .ok f) : bad.contains (c.pyfn u.fid).name = false := by
  simp only [symFn] at h
  split at h
  · cases h
  · rename_i hb; simpa using hb

theorem symVal_error {bad : List String} {c : NContent} {k : Name} {v : NVal} {e : Err}
    (h : symVal bad c k v = .error e) : IsValueError e := by
  cases v with
  | plain q => cases h
  | ia u =>
    simp only [symVal, bind, Except.bind] at h
    cases hs : symFn bad c k u with
    | error e' => simp [hs] at h; exact h ▸ symFn_error hs
    | ok f => simp [hs, pure, Except.pure] at h

theorem symCoef_error {bad : List String} {c : NContent} {k : Name} {v : NCoef} {e : Err}
    (h : symCoef bad c k v = .error e) : IsValueError e := by
  cases v with
  | num q => cases h
  | dyn u =>
    simp only [symCoef, bind, Except.bind] at h
    cases hs : symFn bad c k u with
    | error e' => simp [hs] at h; exact h ▸ symFn_error hs
    | ok f => simp [hs, pure, Except.pure] at h

theorem symVal_ok_not_bad {bad : List String} {c : NContent} {k : Name} {u : Use} {r : SymVal}
    (h : symVal bad c k (.ia u) = .ok r) : bad.contains (c.pyfn u.fid).name = false := by
  simp only [symVal, bind, Except.bind] at h
  cases hs : symFn bad c k u with
  | error e' => simp [hs] at h
  | ok f => exact symFn_ok_not_bad hs

theorem symCoef_ok_not_bad {bad : List String} {c : NContent} {k : Name} {u : Use} {r : SymVal}
    (h : symCoef bad c k (.dyn u) = .ok r) : bad.contains (c.pyfn u.fid).name = false := by
  simp only [symCoef, bind, Except.bind] at h
  cases hs : symFn bad c k u with
  | error e' => simp [hs] at h
  | ok f => exact symFn_ok_not_bad hs

/-- the per-element functions of `toSymbolicRepr` -/
def trVal (bad : List String) (c : NContent) (kv : Name × NVal) : Except Err (Name × SymVal) := do
  pure (kv.1, ← symVal bad c kv.1 kv.2)
def trFn (bad : List String) (c : NContent) (kv : Name × Use) : Except Err (Name × SymFn) := do
  pure (kv.1, ← symFn bad c kv.1 kv.2)
def trCoef (bad : List String) (c : NContent) (vc : Name × NCoef) : Except Err (Name × SymVal) := do
  pure (vc.1, ← symCoef bad c vc.1 vc.2)
def trRxn (bad : List String) (c : NContent) (kv : Name × NRxn) : Except Err (Name × SymRxn) := do
  let fn ← symFn bad c kv.1 kv.2.rate
  let st ← kv.2.stoich.mapM (trCoef bad c)
  pure (kv.1, ({ fn, stoich := st } : SymRxn))

theorem toSymbolicRepr_eq (bad : List String) (c : NContent) :
    toSymbolicRepr bad c = (do
      let variables ← c.vars.mapM (trVal bad c)
      let parameters ← c.pars.mapM (trVal bad c)
      let derived ← c.derived.mapM (trFn bad c)
      let reactions ← c.rxns.mapM (trRxn bad c)
      pure { variables, parameters, derived, reactions }) := rfl

theorem trVal_error {bad c kv e} (h : trVal bad c kv = .error e) : IsValueError e := by
  simp only [trVal, bind, Except.bind] at h
  cases hs : symVal bad c kv.1 kv.2 with
  | error e' => simp [hs] at h; exact h ▸ symVal_error hs
  | ok f => simp [hs, pure, Except.pure] at h

theorem trFn_error {bad c kv e} (h : trFn bad c kv = .error e) : IsValueError e := by
  simp only [trFn, bind, Except.bind] at h
  cases hs : symFn bad c kv.1 kv.2 with
  | error e' => simp [hs] at h; exact h ▸ symFn_error hs
  | ok f => simp [hs, pure, Except.pure] at h

theorem trCoef_error {bad c kv e} (h : trCoef bad c kv = .error e) : IsValueError e := by
  simp only [trCoef, bind, Except.bind] at h
  cases hs : symCoef bad c kv.1 kv.2 with
  | error e' => simp [hs] at h; exact h ▸ symCoef_error hs
  | ok f => simp [hs, pure, Except.pure] at h

theorem trRxn_error {bad c kv e} (h : trRxn bad c kv = .error e) : IsValueError e := by
  simp only [trRxn, bind, Except.bind] at h
  cases hs : symFn bad c kv.1 kv.2.rate with
  | error e' => simp [hs] at h; exact h ▸ symFn_error hs
  | ok f =>
    simp only [hs] at h
    cases hm : kv.2.stoich.mapM (trCoef bad c) with
    | error e' =>
      simp [hm] at h
      obtain ⟨a, _, ha⟩ := mapM_error _ _ _ hm
      exact h ▸ trCoef_error ha
    | ok st => simp [hm, pure, Except.pure] at h

theorem toSymbolicRepr_error {bad : List String} {c : NContent} {e : Err}
    (h : toSymbolicRepr bad c = .error e) : IsValueError e := by
  rw [toSymbolicRepr_eq] at h
  simp only [bind, Except.bind] at h
  cases h1 : c.vars.mapM (trVal bad c) with
  | error e' => simp [h1] at h; obtain ⟨a, _, ha⟩ := mapM_error _ _ _ h1; exact h ▸ trVal_error ha
  | ok vs =>
    simp only [h1] at h
    cases h2 : c.pars.mapM (trVal bad c) with
    | error e' => simp [h2] at h; obtain ⟨a, _, ha⟩ := mapM_error _ _ _ h2; exact h ▸ trVal_error ha
    | ok ps =>
      simp only [h2] at h
      cases h3 : c.derived.mapM (trFn bad c) with
      | error e' => simp [h3] at h; obtain ⟨a, _, ha⟩ := mapM_error _ _ _ h3; exact h ▸ trFn_error ha
      | ok ds =>
        simp only [h3] at h
        cases h4 : c.rxns.mapM (trRxn bad c) with
        | error e' => simp [h4] at h; obtain ⟨a, _, ha⟩ := mapM_error _ _ _ h4; exact h ▸ trRxn_error ha
        | ok rs => simp [h4, pure, Except.pure] at h

theorem toSymbolicRepr_ok_not_bad {bad : List String} {c : NContent} {s : SymRepr}
    (h : toSymbolicRepr bad c = .ok s) : ∀ u ∈ Use.all c, bad.contains (c.pyfn u.fid).name = false := by
  rw [toSymbolicRepr_eq] at h
  simp only [bind, Except.bind] at h
  cases h1 : c.vars.mapM (trVal bad c) with
  | error e' => simp [h1] at h
  | ok vs =>
    simp only [h1] at h
    cases h2 : c.pars.mapM (trVal bad c) with
    | error e' => simp [h2] at h
    | ok ps =>
      simp only [h2] at h
      cases h3 : c.derived.mapM (trFn bad c) with
      | error e' => simp [h3] at h
      | ok ds =>
        simp only [h3] at h
        cases h4 : c.rxns.mapM (trRxn bad c) with
        | error e' => simp [h4] at h
        | ok rs =>
          intro u hu
          simp only [Use.all, List.mem_append, List.mem_filterMap, List.mem_map, List.mem_flatMap] at hu
          rcases hu with ((⟨kv, hkv, hm⟩ | ⟨kv, hkv, hm⟩) | ⟨kv, hkv, hm⟩) | ⟨kv, hkv, hm⟩
          · obtain ⟨k, v⟩ := kv
            cases v with
            | plain q => simp at hm
            | ia u' =>
              simp at hm; subst hm
              obtain ⟨b, hb⟩ := mapM_ok_all _ _ _ h1 _ hkv
              simp only [trVal, bind, Except.bind] at hb
              cases hs : symVal bad c k (.ia u') with
              | error e' => simp [hs] at hb
              | ok r => exact symVal_ok_not_bad hs
          · obtain ⟨k, v⟩ := kv
            cases v with
            | plain q => simp at hm
            | ia u' =>
              simp at hm; subst hm
              obtain ⟨b, hb⟩ := mapM_ok_all _ _ _ h2 _ hkv
              simp only [trVal, bind, Except.bind] at hb
              cases hs : symVal bad c k (.ia u') with
              | error e' => simp [hs] at hb
              | ok r => exact symVal_ok_not_bad hs
          · obtain ⟨k, u'⟩ := kv
            simp at hm; subst hm
            obtain ⟨b, hb⟩ := mapM_ok_all _ _ _ h3 _ hkv
            simp only [trFn, bind, Except.bind] at hb
            cases hs : symFn bad c k u' with
            | error e' => simp [hs] at hb
            | ok r => exact symFn_ok_not_bad hs
          · obtain ⟨k, r⟩ := kv
            obtain ⟨b, hb⟩ := mapM_ok_all _ _ _ h4 _ hkv
            simp only [trRxn, bind, Except.bind] at hb
            cases hs : symFn bad c k r.rate with
            | error e' => simp [hs] at hb
            | ok f =>
              simp only [hs] at hb
              cases hst : r.stoich.mapM (trCoef bad c) with
              | error e' => simp [hst] at hb
              | ok st =>
                cases List.mem_cons.mp hm with
                | inl h5 => exact h5 ▸ symFn_ok_not_bad hs
                | inr h5 =>
                  simp only [List.mem_filterMap] at h5
                  obtain ⟨vc, hvc, hm2⟩ := h5
                  obtain ⟨v, cf⟩ := vc
                  cases cf with
                  | num q => simp at hm2
                  | dyn u' =>
                    simp at hm2; subst hm2
                    obtain ⟨b2, hb2⟩ := mapM_ok_all _ _ _ hst _ hvc
                    simp only [trCoef, bind, Except.bind] at hb2
                    cases hs2 : symCoef bad c v (.dyn u') with
                    | error e' => simp [hs2] at hb2
                    | ok r2 => exact symCoef_ok_not_bad hs2

theorem roundTrip_raises {bad : List String} {c : NContent}
    (h : ∃ u ∈ Use.all c, bad.contains (c.pyfn u.fid).name = true) :
    ∃ m, roundTrip bad c = .error (.valueError m) := by
  obtain ⟨u, hu, hb⟩ := h
  unfold roundTrip
  cases hs : toSymbolicRepr bad c with
  | ok s =>
    have := toSymbolicRepr_ok_not_bad hs u hu
    rw [this] at hb; cases hb
  | error e =>
    have hv := toSymbolicRepr_error hs
    cases e with
    | valueError m => exact ⟨m, rfl⟩
    | _ => exact absurd hv (by simp [IsValueError])

/-! ### assembling the round trip -/

theorem symOf_rxns (c : NContent) :
    (symOf c).reactions = c.rxns.map fun kv => (kv.1, symRxnOf c kv.2) := rfl

theorem toContent_eq (c : NContent) :
    c.toContent = { vars := c.vars.map fun kv => (kv.1, c.valOf kv.2)
                    pars := c.pars.map fun kv => (kv.1, c.valOf kv.2)
                    derived := c.derived.map fun kv => (kv.1, c.fnOf kv.2)
                    rxns := c.rxns.map fun kv => (kv.1, rxnOf c kv.2) } := rfl

theorem roundTrip_ok (c : NContent) (hc : Canonical c) (h : refsResolve c = true) :
    roundTrip [] c = .ok c.toContent := by
  unfold refsResolve at h
  rw [toSymbolicRepr_nil] at h
  simp only [Program.refsOk, Bool.and_eq_true] at h
  obtain ⟨hnd, hrefs⟩ := h
  have g : Good c (genProgram (symOf c)).defs := ⟨hc, symOf_defs_ok c, hnd⟩
  have hall : ∀ call ∈ (genProgram (symOf c)).build, ∀ r ∈ call.refs, refOk (genProgram (symOf c)).defs r = true := by
    intro call hcall r hr
    exact List.all_eq_true.mp (List.all_eq_true.mp hrefs call hcall) r hr
  rw [genMxlpy_build] at hall
  have hV : ∀ kv ∈ c.vars, ∀ r ∈ (initVal (takenOf (symOf c)) (symValOf c kv.2)).refs, refOk (genProgram (symOf c)).defs r = true := by
    intro kv hkv r hr
    refine hall (Call.addVariable kv.1 (initVal (takenOf (symOf c)) (symValOf c kv.2))) ?_ r (by simpa [Call.refs] using hr)
    simp only [List.mem_append, initCalls, symOf, List.mem_map]
    exact Or.inl (Or.inl (Or.inl ⟨(kv.1, symValOf c kv.2), ⟨kv, hkv, rfl⟩, rfl⟩))
  have hP : ∀ kv ∈ c.pars, ∀ r ∈ (initVal (takenOf (symOf c)) (symValOf c kv.2)).refs, refOk (genProgram (symOf c)).defs r = true := by
    intro kv hkv r hr
    refine hall (Call.addParameter kv.1 (initVal (takenOf (symOf c)) (symValOf c kv.2))) ?_ r (by simpa [Call.refs] using hr)
    simp only [List.mem_append, initCalls, symOf, List.mem_map]
    exact Or.inl (Or.inl (Or.inr ⟨(kv.1, symValOf c kv.2), ⟨kv, hkv, rfl⟩, rfl⟩))
  have hD : ∀ kv ∈ c.derived, refOk (genProgram (symOf c)).defs
      { key := (c.pyfn kv.2.fid).name, args := kv.2.args, src := kv.2.fid } = true := by
    intro kv hkv
    refine hall (Call.addDerived kv.1 { key := (c.pyfn kv.2.fid).name, args := kv.2.args, src := kv.2.fid }) ?_ _
      (by simp [Call.refs])
    simp only [List.mem_append, derivedCalls, symOf, List.mem_map]
    exact Or.inl (Or.inr ⟨(kv.1, symFnOf c kv.2), ⟨kv, hkv, rfl⟩, rfl⟩)
  have hR : ∀ kv ∈ c.rxns, refOk (genProgram (symOf c)).defs
        { key := (c.pyfn kv.2.rate.fid).name, args := kv.2.rate.args, src := kv.2.rate.fid } = true
       ∧ ∀ vc ∈ kv.2.stoich, ∀ r ∈ (stoichVal (takenOf (symOf c)) kv.1 (symCoefOf c vc.2)).refs,
           refOk (genProgram (symOf c)).defs r = true := by
    intro kv hkv
    have hm : Call.addReaction kv.1 { key := (c.pyfn kv.2.rate.fid).name, args := kv.2.rate.args, src := kv.2.rate.fid }
        ((symRxnOf c kv.2).stoich.map fun vs => (vs.1, stoichVal (takenOf (symOf c)) kv.1 vs.2))
        ∈ initCalls (takenOf (symOf c)) Call.addVariable (symOf c).variables
          ++ initCalls (takenOf (symOf c)) Call.addParameter (symOf c).parameters
          ++ derivedCalls (symOf c).derived ++ rxnCalls (takenOf (symOf c)) (symOf c).reactions := by
      simp only [List.mem_append, rxnCalls, symOf_rxns, List.mem_map]
      exact Or.inr ⟨(kv.1, symRxnOf c kv.2), ⟨kv, hkv, rfl⟩, rfl⟩
    refine ⟨hall _ hm _ (by simp [Call.refs]), ?_⟩
    intro vc hvc r hr
    refine hall _ hm r ?_
    simp only [Call.refs, List.mem_cons, List.mem_flatMap, List.mem_map, symRxnOf]
    exact Or.inr ⟨(vc.1, stoichVal (takenOf (symOf c)) kv.1 (symCoefOf c vc.2)), ⟨(vc.1, symCoefOf c vc.2), ⟨vc, hvc, rfl⟩, rfl⟩, hr⟩
  unfold roundTrip
  rw [toSymbolicRepr_nil]
  have hg : genMxlpy (symOf c) = .ok (genProgram (symOf c)) := by
    simp only [genMxlpy, hnd]; rfl
  simp only [bind, Except.bind, hg, runProgram, checkDefs_ok _ hnd, genMxlpy_build]
  generalize (genProgram (symOf c)).defs = D at g hV hP hD hR ⊢
  have e0 : (symOf c).variables = c.vars.map fun kv => (kv.1, symValOf c kv.2) := rfl
  have e0' : (symOf c).parameters = c.pars.map fun kv => (kv.1, symValOf c kv.2) := rfl
  have e0'' : (symOf c).derived = c.derived.map fun kv => (kv.1, symFnOf c kv.2) := rfl
  rw [runCalls_append, runCalls_append, runCalls_append, e0, e0', e0'', symOf_rxns]
  rw [run_vars g _ c.vars {} hV]
  simp only [Except.bind]
  rw [run_pars g _ c.pars _ hP]
  simp only [Except.bind]
  rw [run_derived g c.derived _ hD]
  simp only [Except.bind]
  rw [run_rxns g _ c.rxns _ hR, toContent_eq]
  simp

end Mxl.C11
