/-
Lemmas for C11 (core Lean only): positional binding, definition invariants threaded through the
generator, the builder segments.
-/
import MxlVerif.Model.C11
namespace Mxl.C11

/-! ### positional binding of distinct parameter names -/

theorem hasDup_cons {a : Name} {as : List Name} (h : hasDup (a :: as) = false) :
    as.contains a = false ∧ hasDup as = false := by
  simpa [hasDup] using h

theorem bindArg_cons_ne {p a : Name} {v : Rat} {ps : List Name} {vs : List Rat} (h : a ≠ p) :
    bindArg (p :: ps) (v :: vs) a = bindArg ps vs a := by
  have : (a == p) = false := by simpa using h
  simp [bindArg, List.zip_cons_cons, List.lookup_cons, this]

theorem map_bindArg_fit : ∀ (ps : List Name) (vs : List Rat), hasDup ps = false →
    ps.map (bindArg ps vs) = fit ps.length vs := by
  intro ps
  induction ps with
  | nil => intro vs _; simp [fit]
  | cons p ps ih =>
    intro vs h
    obtain ⟨hp, hd⟩ := hasDup_cons h
    cases vs with
    | nil =>
      have h0 : ∀ (qs : List Name), qs.map (bindArg (p :: ps) []) = fit qs.length [] := by
        intro qs; induction qs with
        | nil => simp [fit]
        | cons q qs ihq => simp [fit, bindArg, ihq]
      simpa using h0 (p :: ps)
    | cons v vs =>
      have hmap : ps.map (bindArg (p :: ps) (v :: vs)) = ps.map (bindArg ps vs) := by
        apply List.map_congr_left
        intro a ha
        apply bindArg_cons_ne
        intro hap; subst hap
        have : ps.contains a = true := by simpa using ha
        rw [this] at hp; exact absurd hp (by simp)
      have hhead : bindArg (p :: ps) (v :: vs) p = v := by simp [bindArg, List.lookup_cons]
      simp [fit, hhead, hmap, ih vs hd]

/-! ### definitions that come from uses of the model -/

def SymOk (c : NContent) (f : SymFn) : Prop :=
  f.expr = { args := f.args, fn := (c.pyfn f.src).fn } ∧ (⟨f.src, f.args⟩ : Use) ∈ Use.all c

def DefOk (c : NContent) (d : Def) : Prop :=
  d.body = { args := d.params, fn := (c.pyfn d.src).fn } ∧ (⟨d.src, d.params⟩ : Use) ∈ Use.all c

theorem Def.call_eq {c : NContent} (hc : Canonical c) {d : Def} (hd : DefOk c d)
    (hn : hasDup d.params = false) : d.call = (c.pyfn d.src).fn := by
  funext vs
  simp only [Def.call, hd.1, map_bindArg_fit _ _ hn]
  exact (hc _ hd.2 vs).symm

theorem lookup_some_mem {β} : ∀ (l : List (String × β)) (k : String) (v : β),
    l.lookup k = some v → (k, v) ∈ l := by
  intro l; induction l with
  | nil => intro k v h; simp at h
  | cons kv rest ih =>
    intro k v h
    obtain ⟨k', v'⟩ := kv
    by_cases hk : k = k'
    · subst hk; simp [List.lookup_cons] at h; subst h; simp
    · have : (k == k') = false := by simpa using hk
      simp [List.lookup_cons, this] at h
      exact List.mem_cons_of_mem _ (ih k v h)

theorem resolve_ok {c : NContent} (hc : Canonical c) {defs : Fns}
    (hdefs : ∀ kd ∈ defs, DefOk c kd.2)
    (hnd : (defs.all fun kd => !hasDup kd.2.params) = true)
    {r : Ref} (hr : refOk defs r = true) :
    resolve defs r = .ok { args := r.args, fn := (c.pyfn r.src).fn } := by
  unfold refOk at hr
  unfold resolve
  cases hl : defs.lookup r.key with
  | none => simp [hl] at hr
  | some d =>
    simp [hl] at hr
    have hm := lookup_some_mem _ _ _ hl
    have hdo := hdefs _ hm
    have hno : hasDup d.params = false := by
      have := List.all_eq_true.mp hnd _ hm
      simpa using this
    simp [Def.call_eq hc hdo hno, hr, pure, Except.pure]

/-! ### `_to_symbolic_repr` never fails when every function translates -/

def symFnOf (c : NContent) (u : Use) : SymFn :=
  { fnName := (c.pyfn u.fid).name, expr := { args := u.args, fn := (c.pyfn u.fid).fn }, args := u.args, src := u.fid }

def symValOf (c : NContent) : NVal → SymVal
  | .plain v => .num v
  | .ia u => .fn (symFnOf c u)

def symCoefOf (c : NContent) : NCoef → SymVal
  | .num v => .num v
  | .dyn u => .fn (symFnOf c u)

def symOf (c : NContent) : SymRepr :=
  { variables := c.vars.map fun kv => (kv.1, symValOf c kv.2)
    parameters := c.pars.map fun kv => (kv.1, symValOf c kv.2)
    derived := c.derived.map fun kv => (kv.1, symFnOf c kv.2)
    reactions := c.rxns.map fun kv =>
      (kv.1, { fn := symFnOf c kv.2.rate, stoich := kv.2.stoich.map fun vc => (vc.1, symCoefOf c vc.2) }) }

theorem symFn_nil (c : NContent) (k : Name) (u : Use) : symFn [] c k u = .ok (symFnOf c u) := by
  simp [symFn, symFnOf, pure, Except.pure]

theorem symVal_nil (c : NContent) (k : Name) (v : NVal) : symVal [] c k v = .ok (symValOf c v) := by
  cases v <;> simp [symVal, symValOf, symFn_nil, pure, Except.pure, bind, Except.bind]

theorem symCoef_nil (c : NContent) (k : Name) (v : NCoef) : symCoef [] c k v = .ok (symCoefOf c v) := by
  cases v <;> simp [symCoef, symCoefOf, symFn_nil, pure, Except.pure, bind, Except.bind]

theorem mapM_ok {α β} (f : α → Except Err β) (g : α → β) (h : ∀ a, f a = .ok (g a)) :
    ∀ l : List α, l.mapM f = .ok (l.map g) := by
  intro l; induction l with
  | nil => rfl
  | cons a l ih => simp [List.mapM_cons, h a, ih, pure, Except.pure, bind, Except.bind]

theorem toSymbolicRepr_nil (c : NContent) : toSymbolicRepr [] c = .ok (symOf c) := by
  unfold toSymbolicRepr symOf
  have hv := mapM_ok (fun kv : Name × NVal => (do pure (kv.1, ← symVal [] c kv.1 kv.2) : Except Err _))
    (fun kv : Name × NVal => (kv.1, symValOf c kv.2)) (by intro a; simp [symVal_nil, pure, Except.pure, bind, Except.bind])
  rw [hv c.vars, hv c.pars]
  rw [mapM_ok _ (fun kv : Name × Use => (kv.1, symFnOf c kv.2)) (by intro a; simp [symFn_nil, pure, Except.pure, bind, Except.bind])]
  rw [mapM_ok _ (fun kv : Name × NRxn => (kv.1, ({ fn := symFnOf c kv.2.rate, stoich := kv.2.stoich.map fun vc => (vc.1, symCoefOf c vc.2) } : SymRxn)))
    (by intro a
        simp only [symFn_nil, bind, Except.bind]
        rw [mapM_ok _ (fun vc : Name × NCoef => (vc.1, symCoefOf c vc.2)) (by intro b; simp [symCoef_nil, pure, Except.pure, bind, Except.bind])]
        rfl)]
  rfl

/-! ### the builder calls and the set `taken` do not depend on the threaded `functions` dict -/

/-- (`taken` afterwards, builder calls) of `_codegen_variable` / `_codegen_parameter` over a section -/
def initCalls (mk : Name → BVal → Call) : List (Name × SymVal) → List String → List String × List Call
  | [], t => (t, [])
  | (k, .num v) :: rest, t => ((initCalls mk rest t).1, mk k (.num v) :: (initCalls mk rest t).2)
  | (k, .fn f) :: rest, t =>
    ((initCalls mk rest (freeName t ("init_" ++ f.fnName) :: t)).1,
     mk k (.ref { key := freeName t ("init_" ++ f.fnName), args := f.args, src := f.src })
       :: (initCalls mk rest (freeName t ("init_" ++ f.fnName) :: t)).2)

def derivedCalls (l : List (Name × SymFn)) : List Call :=
  l.map fun kv => Call.addDerived kv.1 { key := kv.2.fnName, args := kv.2.args, src := kv.2.src }

def stoichVals (rxn : Name) : List (Name × SymVal) → List String → List String × List (Name × BVal)
  | [], t => (t, [])
  | (v, .num q) :: rest, t => ((stoichVals rxn rest t).1, (v, BVal.num q) :: (stoichVals rxn rest t).2)
  | (v, .fn f) :: rest, t =>
    ((stoichVals rxn rest (freeName t (rxn ++ "_stoich_" ++ f.fnName) :: t)).1,
     (v, BVal.ref { key := freeName t (rxn ++ "_stoich_" ++ f.fnName), args := f.args, src := f.src })
       :: (stoichVals rxn rest (freeName t (rxn ++ "_stoich_" ++ f.fnName) :: t)).2)

def rxnCalls : List (Name × SymRxn) → List String → List String × List Call
  | [], t => (t, [])
  | (k, r) :: rest, t =>
    ((rxnCalls rest (stoichVals k r.stoich t).1).1,
     Call.addReaction k { key := r.fn.fnName, args := r.fn.args, src := r.fn.src } (stoichVals k r.stoich t).2
       :: (rxnCalls rest (stoichVals k r.stoich t).1).2)

theorem genInits_calls (mk : Name → BVal → Call) : ∀ (l : List (Name × SymVal)) (st : GenSt),
    (genInits mk l st).1.1 = (initCalls mk l st.1).1 ∧ (genInits mk l st).2 = (initCalls mk l st.1).2 := by
  intro l; induction l with
  | nil => intro st; exact ⟨rfl, rfl⟩
  | cons kv rest ih =>
    intro st
    obtain ⟨k, v⟩ := kv
    cases v with
    | num q =>
      have := ih st
      simp only [genInits, genInit, initCalls]
      exact ⟨this.1, by rw [this.2]⟩
    | fn f =>
      have := ih (freeName st.1 ("init_" ++ f.fnName) :: st.1, st.2.put (freeName st.1 ("init_" ++ f.fnName)) f)
      simp only [genInits, genInit, initCalls]
      exact ⟨this.1, by rw [this.2]⟩

theorem genDerived_calls : ∀ (l : List (Name × SymFn)) (st : GenSt),
    (genDerived l st).1.1 = st.1 ∧ (genDerived l st).2 = derivedCalls l := by
  intro l; induction l with
  | nil => intro st; exact ⟨rfl, rfl⟩
  | cons kv rest ih =>
    intro st; obtain ⟨k, f⟩ := kv
    have := ih (st.1, st.2.put f.fnName f)
    simp only [genDerived, derivedCalls, List.map_cons]
    exact ⟨this.1, by rw [this.2]; rfl⟩

theorem genStoich_calls (rxn : Name) : ∀ (l : List (Name × SymVal)) (st : GenSt),
    (genStoich rxn l st).1.1 = (stoichVals rxn l st.1).1 ∧ (genStoich rxn l st).2 = (stoichVals rxn l st.1).2 := by
  intro l; induction l with
  | nil => intro st; exact ⟨rfl, rfl⟩
  | cons kv rest ih =>
    intro st; obtain ⟨k, v⟩ := kv
    cases v with
    | num q =>
      have := ih st
      simp only [genStoich, stoichVals]
      exact ⟨this.1, by rw [this.2]⟩
    | fn f =>
      have := ih (freeName st.1 (rxn ++ "_stoich_" ++ f.fnName) :: st.1,
        st.2.put (freeName st.1 (rxn ++ "_stoich_" ++ f.fnName)) f)
      simp only [genStoich, stoichVals]
      exact ⟨this.1, by rw [this.2]⟩

theorem genReactions_calls : ∀ (l : List (Name × SymRxn)) (st : GenSt),
    (genReactions l st).1.1 = (rxnCalls l st.1).1 ∧ (genReactions l st).2 = (rxnCalls l st.1).2 := by
  intro l; induction l with
  | nil => intro st; exact ⟨rfl, rfl⟩
  | cons kv rest ih =>
    intro st; obtain ⟨k, r⟩ := kv
    have h1 := genStoich_calls k r.stoich (st.1, st.2.put r.fn.fnName r.fn)
    have h2 := ih (genStoich k r.stoich (st.1, st.2.put r.fn.fnName r.fn)).1
    simp only [genReactions, rxnCalls]
    simp only at h1
    rw [h1.1] at h2
    exact ⟨h2.1, by rw [h2.2, h1.2]⟩

/-- `taken` after the variables, after the parameters -/
def takenV (s : SymRepr) : List String := (initCalls Call.addVariable s.variables (takenOf s)).1
def takenP (s : SymRepr) : List String := (initCalls Call.addParameter s.parameters (takenV s)).1

theorem genMxlpy_build (s : SymRepr) :
    (genProgram s).build = (initCalls Call.addVariable s.variables (takenOf s)).2
      ++ (initCalls Call.addParameter s.parameters (takenV s)).2
      ++ derivedCalls s.derived ++ (rxnCalls s.reactions (takenP s)).2 := by
  have h1 := genInits_calls Call.addVariable s.variables (takenOf s, [])
  have h2 := genInits_calls Call.addParameter s.parameters (genInits Call.addVariable s.variables (takenOf s, [])).1
  have h3 := genDerived_calls s.derived
    (genInits Call.addParameter s.parameters (genInits Call.addVariable s.variables (takenOf s, [])).1).1
  have h4 := genReactions_calls s.reactions (genDerived s.derived
    (genInits Call.addParameter s.parameters (genInits Call.addVariable s.variables (takenOf s, [])).1).1).1
  simp only [genProgram, takenV, takenP]
  simp only at h1
  rw [h1.1] at h2
  rw [h3.1, h2.1] at h4
  rw [h1.2, h2.2, h3.2, h4.2]

/-! ### every definition in the `functions` dict comes from a use of the model -/

def AllOk (c : NContent) (fs : Fns) : Prop := ∀ kd ∈ fs, DefOk c kd.2

theorem mem_omInsert {β} : ∀ (m : List (Name × β)) (k : Name) (v : β) (x : Name × β),
    x ∈ omInsert m k v → x ∈ m ∨ x = (k, v) := by
  intro m; induction m with
  | nil => intro k v x h; simp [omInsert] at h; exact Or.inr h
  | cons kv rest ih =>
    intro k v x h
    obtain ⟨k', v'⟩ := kv
    simp only [omInsert] at h
    split at h
    · cases List.mem_cons.mp h with
      | inl h1 => exact Or.inr h1
      | inr h1 => exact Or.inl (List.mem_cons_of_mem _ h1)
    · cases List.mem_cons.mp h with
      | inl h1 => exact Or.inl (h1 ▸ List.mem_cons_self)
      | inr h1 =>
        cases ih k v x h1 with
        | inl h2 => exact Or.inl (List.mem_cons_of_mem _ h2)
        | inr h2 => exact Or.inr h2

theorem AllOk.put {c : NContent} {fs : Fns} (h : AllOk c fs) {f : SymFn} (hf : SymOk c f) (key : String) :
    AllOk c (fs.put key f) := by
  intro kd hkd
  cases mem_omInsert _ _ _ _ hkd with
  | inl h1 => exact h _ h1
  | inr h1 => subst h1; exact hf

def SymValOk (c : NContent) : SymVal → Prop
  | .num _ => True
  | .fn f => SymOk c f

theorem genInits_ok {c : NContent} (mk : Name → BVal → Call) :
    ∀ (l : List (Name × SymVal)) (st : GenSt),
    AllOk c st.2 → (∀ kv ∈ l, SymValOk c kv.2) → AllOk c (genInits mk l st).1.2 := by
  intro l; induction l with
  | nil => intro st h _; exact h
  | cons kv rest ih =>
    intro st h hl
    obtain ⟨k, v⟩ := kv
    have hrest : ∀ kv ∈ rest, SymValOk c kv.2 := fun kv hkv => hl kv (List.mem_cons_of_mem _ hkv)
    cases v with
    | num q =>
      simp only [genInits, genInit]
      exact ih st h hrest
    | fn f =>
      have hf : SymOk c f := hl (k, .fn f) List.mem_cons_self
      simp only [genInits, genInit]
      exact ih (_, _) (h.put hf _) hrest

theorem genDerived_ok {c : NContent} : ∀ (l : List (Name × SymFn)) (st : GenSt),
    AllOk c st.2 → (∀ kv ∈ l, SymOk c kv.2) → AllOk c (genDerived l st).1.2 := by
  intro l; induction l with
  | nil => intro st h _; exact h
  | cons kv rest ih =>
    intro st h hl
    obtain ⟨k, f⟩ := kv
    have hrest : ∀ kv ∈ rest, SymOk c kv.2 := fun kv hkv => hl kv (List.mem_cons_of_mem _ hkv)
    simp only [genDerived]
    exact ih (_, _) (h.put (hl (k, f) List.mem_cons_self) _) hrest

theorem genStoich_ok {c : NContent} (rxn : Name) : ∀ (l : List (Name × SymVal)) (st : GenSt),
    AllOk c st.2 → (∀ kv ∈ l, SymValOk c kv.2) → AllOk c (genStoich rxn l st).1.2 := by
  intro l; induction l with
  | nil => intro st h _; exact h
  | cons kv rest ih =>
    intro st h hl
    obtain ⟨k, v⟩ := kv
    have hrest : ∀ kv ∈ rest, SymValOk c kv.2 := fun kv hkv => hl kv (List.mem_cons_of_mem _ hkv)
    cases v with
    | num q =>
      simp only [genStoich]
      exact ih st h hrest
    | fn f =>
      have hf : SymOk c f := hl (k, .fn f) List.mem_cons_self
      simp only [genStoich]
      exact ih (_, _) (h.put hf _) hrest

def SymRxnOk (c : NContent) (r : SymRxn) : Prop := SymOk c r.fn ∧ ∀ vs ∈ r.stoich, SymValOk c vs.2

theorem genReactions_ok {c : NContent} : ∀ (l : List (Name × SymRxn)) (st : GenSt),
    AllOk c st.2 → (∀ kv ∈ l, SymRxnOk c kv.2) → AllOk c (genReactions l st).1.2 := by
  intro l; induction l with
  | nil => intro st h _; exact h
  | cons kv rest ih =>
    intro st h hl
    obtain ⟨k, r⟩ := kv
    have hrest : ∀ kv ∈ rest, SymRxnOk c kv.2 := fun kv hkv => hl kv (List.mem_cons_of_mem _ hkv)
    have hr := hl (k, r) List.mem_cons_self
    simp only [genReactions]
    exact ih _ (genStoich_ok k r.stoich (_, _) (h.put hr.1 _) hr.2) hrest

/-! ### uses of the model -/

theorem symFnOf_ok {c : NContent} {u : Use} (h : u ∈ Use.all c) : SymOk c (symFnOf c u) := by
  exact ⟨rfl, h⟩

theorem use_of_var {c : NContent} {k : Name} {u : Use} (h : (k, NVal.ia u) ∈ c.vars) : u ∈ Use.all c := by
  simp only [Use.all, List.mem_append, List.mem_filterMap]
  exact Or.inl (Or.inl (Or.inl ⟨_, h, rfl⟩))

theorem use_of_par {c : NContent} {k : Name} {u : Use} (h : (k, NVal.ia u) ∈ c.pars) : u ∈ Use.all c := by
  simp only [Use.all, List.mem_append, List.mem_filterMap]
  exact Or.inl (Or.inl (Or.inr ⟨_, h, rfl⟩))

theorem use_of_derived {c : NContent} {k : Name} {u : Use} (h : (k, u) ∈ c.derived) : u ∈ Use.all c := by
  simp only [Use.all, List.mem_append, List.mem_map]
  exact Or.inl (Or.inr ⟨_, h, rfl⟩)

theorem use_of_rate {c : NContent} {k : Name} {r : NRxn} (h : (k, r) ∈ c.rxns) : r.rate ∈ Use.all c := by
  simp only [Use.all, List.mem_append, List.mem_flatMap]
  exact Or.inr ⟨_, h, List.mem_cons_self⟩

theorem use_of_coef {c : NContent} {k v : Name} {r : NRxn} {u : Use} (h : (k, r) ∈ c.rxns)
    (hv : (v, NCoef.dyn u) ∈ r.stoich) : u ∈ Use.all c := by
  simp only [Use.all, List.mem_append, List.mem_flatMap]
  refine Or.inr ⟨_, h, List.mem_cons_of_mem _ ?_⟩
  simp only [List.mem_filterMap]
  exact ⟨_, hv, rfl⟩

/-- the symbolic representation of a model consists of uses of the model -/
theorem symOf_ok (c : NContent) :
    (∀ kv ∈ (symOf c).variables, SymValOk c kv.2) ∧ (∀ kv ∈ (symOf c).parameters, SymValOk c kv.2)
    ∧ (∀ kv ∈ (symOf c).derived, SymOk c kv.2) ∧ (∀ kv ∈ (symOf c).reactions, SymRxnOk c kv.2) := by
  refine ⟨?_, ?_, ?_, ?_⟩
  · intro kv h
    simp only [symOf, List.mem_map] at h
    obtain ⟨⟨k, v⟩, hm, rfl⟩ := h
    cases v with
    | plain q => trivial
    | ia u => exact symFnOf_ok (use_of_var hm)
  · intro kv h
    simp only [symOf, List.mem_map] at h
    obtain ⟨⟨k, v⟩, hm, rfl⟩ := h
    cases v with
    | plain q => trivial
    | ia u => exact symFnOf_ok (use_of_par hm)
  · intro kv h
    simp only [symOf, List.mem_map] at h
    obtain ⟨⟨k, u⟩, hm, rfl⟩ := h
    exact symFnOf_ok (use_of_derived hm)
  · intro kv h
    simp only [symOf, List.mem_map] at h
    obtain ⟨⟨k, r⟩, hm, rfl⟩ := h
    refine ⟨symFnOf_ok (use_of_rate hm), ?_⟩
    intro vs hvs
    simp only [List.mem_map] at hvs
    obtain ⟨⟨v, cf⟩, hm2, rfl⟩ := hvs
    cases cf with
    | num q => trivial
    | dyn u => exact symFnOf_ok (use_of_coef hm hm2)

theorem symOf_defs_ok (c : NContent) : AllOk c (genProgram (symOf c)).defs := by
  unfold genProgram
  simp only
  have h0 : AllOk c ([] : Fns) := by intro kd h; cases h
  obtain ⟨hv, hp, hd, hr⟩ := symOf_ok c
  exact genReactions_ok _ _ (genDerived_ok _ _ (genInits_ok _ _ _ (genInits_ok _ _ (_, _) h0 hv) hp) hd) hr

/-! ### running the builder chain against the final definitions -/

structure Good (c : NContent) (D : Fns) : Prop where
  canon : Canonical c
  ok : AllOk c D
  nodup : (D.all fun kd => !hasDup kd.2.params) = true

theorem resolve_use {c : NContent} {D : Fns} (g : Good c D) (u : Use) (key : String)
    (hr : refOk D { key, args := u.args, src := u.fid } = true) :
    resolve D { key, args := u.args, src := u.fid } = .ok (c.fnOf u) := by
  simpa [NContent.fnOf] using resolve_ok g.canon g.ok g.nodup hr

theorem checkDefs_ok : ∀ (D : Fns), (D.all fun kd => !hasDup kd.2.params) = true → checkDefs D = .ok () := by
  intro D; induction D with
  | nil => intro _; rfl
  | cons kd rest ih =>
    intro h
    obtain ⟨k, d⟩ := kd
    simp only [List.all_cons, Bool.and_eq_true] at h
    have h1 : hasDup d.params = false := by simpa using h.1
    simp [checkDefs, h1, ih h.2]

theorem run_inits {c : NContent} {D : Fns} (g : Good c D) (mk : Name → BVal → Call)
    (push : Content → Name × Val → Content)
    (hmk : ∀ k b, (mk k b).refs = b.refs)
    (hrun : ∀ k b rest c0, runCalls D (mk k b :: rest) c0
      = (resolveVal D b).bind fun v' => runCalls D rest (push c0 (k, v'))) :
    ∀ (l : List (Name × NVal)) (t : List String) (c0 : Content),
    (∀ call ∈ (initCalls mk (l.map fun kv => (kv.1, symValOf c kv.2)) t).2, ∀ r ∈ call.refs, refOk D r = true) →
    runCalls D (initCalls mk (l.map fun kv => (kv.1, symValOf c kv.2)) t).2 c0
      = .ok ((l.map fun kv => (kv.1, c.valOf kv.2)).foldl push c0) := by
  intro l; induction l with
  | nil => intro t c0 _; simp [initCalls, runCalls, pure, Except.pure]
  | cons kv rest ih =>
    intro t c0 h
    obtain ⟨k, v⟩ := kv
    cases v with
    | plain q =>
      simp only [List.map_cons, symValOf, initCalls] at h ⊢
      rw [hrun]
      simp only [resolveVal, pure, Except.pure, Except.bind, List.foldl_cons, NContent.valOf]
      exact ih t _ (fun call hc => h call (List.mem_cons_of_mem _ hc))
    | ia u =>
      simp only [List.map_cons, symValOf, initCalls] at h ⊢
      have h1 := resolve_use g u (freeName t ("init_" ++ (symFnOf c u).fnName))
        (h _ List.mem_cons_self _ (by rw [hmk]; simp [BVal.refs, symFnOf]))
      rw [hrun]
      simp only [symFnOf] at h1 ⊢
      simp only [resolveVal, h1, bind, pure, Except.pure, Except.bind, List.foldl_cons, NContent.valOf]
      exact ih _ _ (fun call hc => h call (List.mem_cons_of_mem _ hc))

theorem foldl_push_vars (l : List (Name × Val)) (c0 : Content) :
    l.foldl (fun c kv => { c with vars := c.vars ++ [kv] }) c0 = { c0 with vars := c0.vars ++ l } := by
  induction l generalizing c0 with
  | nil => simp
  | cons x rest ih => simp [ih]

theorem foldl_push_pars (l : List (Name × Val)) (c0 : Content) :
    l.foldl (fun c kv => { c with pars := c.pars ++ [kv] }) c0 = { c0 with pars := c0.pars ++ l } := by
  induction l generalizing c0 with
  | nil => simp
  | cons x rest ih => simp [ih]

theorem run_vars {c : NContent} {D : Fns} (g : Good c D) (l : List (Name × NVal)) (t : List String) (c0 : Content)
    (h : ∀ call ∈ (initCalls Call.addVariable (l.map fun kv => (kv.1, symValOf c kv.2)) t).2,
      ∀ r ∈ call.refs, refOk D r = true) :
    runCalls D (initCalls Call.addVariable (l.map fun kv => (kv.1, symValOf c kv.2)) t).2 c0
      = .ok { c0 with vars := c0.vars ++ l.map fun kv => (kv.1, c.valOf kv.2) } := by
  rw [run_inits g Call.addVariable (fun c kv => { c with vars := c.vars ++ [kv] }) (fun _ _ => rfl)
    (by intro k b rest c0; simp only [runCalls, bind]) l t c0 h, foldl_push_vars]

theorem run_pars {c : NContent} {D : Fns} (g : Good c D) (l : List (Name × NVal)) (t : List String) (c0 : Content)
    (h : ∀ call ∈ (initCalls Call.addParameter (l.map fun kv => (kv.1, symValOf c kv.2)) t).2,
      ∀ r ∈ call.refs, refOk D r = true) :
    runCalls D (initCalls Call.addParameter (l.map fun kv => (kv.1, symValOf c kv.2)) t).2 c0
      = .ok { c0 with pars := c0.pars ++ l.map fun kv => (kv.1, c.valOf kv.2) } := by
  rw [run_inits g Call.addParameter (fun c kv => { c with pars := c.pars ++ [kv] }) (fun _ _ => rfl)
    (by intro k b rest c0; simp only [runCalls, bind]) l t c0 h, foldl_push_pars]

theorem run_derived {c : NContent} {D : Fns} (g : Good c D) : ∀ (l : List (Name × Use)) (c0 : Content),
    (∀ call ∈ derivedCalls (l.map fun kv => (kv.1, symFnOf c kv.2)), ∀ r ∈ call.refs, refOk D r = true) →
    runCalls D (derivedCalls (l.map fun kv => (kv.1, symFnOf c kv.2))) c0
      = .ok { c0 with derived := c0.derived ++ l.map fun kv => (kv.1, c.fnOf kv.2) } := by
  intro l; induction l with
  | nil => intro c0 _; simp [derivedCalls, runCalls, pure, Except.pure]
  | cons kv rest ih =>
    intro c0 h
    obtain ⟨k, u⟩ := kv
    have h1 := resolve_use g u (c.pyfn u.fid).name
      (h (Call.addDerived k { key := (c.pyfn u.fid).name, args := u.args, src := u.fid })
        (by simp [derivedCalls, symFnOf]) _ (by simp [Call.refs]))
    have h2 := ih { c0 with derived := c0.derived ++ [(k, c.fnOf u)] }
      (fun call hc => h call (by simp only [derivedCalls, List.map_cons] at hc ⊢; exact List.mem_cons_of_mem _ hc))
    simp only [derivedCalls, List.map_cons, runCalls, symFnOf, h1, bind, Except.bind] at h2 ⊢
    rw [h2]; simp

theorem mapM_ok_mem {α β} (f : α → Except Err β) (g : α → β) :
    ∀ l : List α, (∀ a ∈ l, f a = .ok (g a)) → l.mapM f = .ok (l.map g) := by
  intro l; induction l with
  | nil => intro _; rfl
  | cons a l ih =>
    intro h
    have h1 := h a List.mem_cons_self
    have h2 := ih (fun b hb => h b (List.mem_cons_of_mem _ hb))
    simp only [List.mapM_cons, h1, h2, bind, Except.bind, pure, Except.pure, List.map_cons]

theorem stoich_mapM {c : NContent} {D : Fns} (g : Good c D) (rxn : Name) :
    ∀ (st : List (Name × NCoef)) (t : List String),
    (∀ vb ∈ (stoichVals rxn (st.map fun vc => (vc.1, symCoefOf c vc.2)) t).2, ∀ r ∈ vb.2.refs, refOk D r = true) →
    (stoichVals rxn (st.map fun vc => (vc.1, symCoefOf c vc.2)) t).2.mapM
        (fun vc => (do pure (vc.1, ← resolveCoef D vc.2) : Except Err (Name × Coef)))
      = .ok (st.map fun vc => (vc.1, c.coefOf vc.2)) := by
  intro st; induction st with
  | nil => intro t _; rfl
  | cons vc rest ih =>
    intro t h
    obtain ⟨v, cf⟩ := vc
    cases cf with
    | num q =>
      have e : stoichVals rxn (((v, NCoef.num q) :: rest).map fun vc => (vc.1, symCoefOf c vc.2)) t
          = ((stoichVals rxn (rest.map fun vc => (vc.1, symCoefOf c vc.2)) t).1,
             (v, BVal.num q) :: (stoichVals rxn (rest.map fun vc => (vc.1, symCoefOf c vc.2)) t).2) := rfl
      rw [e] at h ⊢
      have h2 := ih t (fun vb hvb => h vb (List.mem_cons_of_mem _ hvb))
      simp only [List.mapM_cons, h2]
      simp only [List.map_cons, resolveCoef, bind, Except.bind, pure, Except.pure, NContent.coefOf]
    | dyn u =>
      have e : stoichVals rxn (((v, NCoef.dyn u) :: rest).map fun vc => (vc.1, symCoefOf c vc.2)) t
          = ((stoichVals rxn (rest.map fun vc => (vc.1, symCoefOf c vc.2))
                (freeName t (rxn ++ "_stoich_" ++ (c.pyfn u.fid).name) :: t)).1,
             (v, BVal.ref { key := freeName t (rxn ++ "_stoich_" ++ (c.pyfn u.fid).name), args := u.args, src := u.fid })
              :: (stoichVals rxn (rest.map fun vc => (vc.1, symCoefOf c vc.2))
                (freeName t (rxn ++ "_stoich_" ++ (c.pyfn u.fid).name) :: t)).2) := rfl
      rw [e] at h ⊢
      have h1 := resolve_use g u (freeName t (rxn ++ "_stoich_" ++ (c.pyfn u.fid).name))
        (h _ List.mem_cons_self _ (by simp [BVal.refs]))
      have h2 := ih _ (fun vb hvb => h vb (List.mem_cons_of_mem _ hvb))
      simp only [List.mapM_cons, h2]
      simp only [List.map_cons, resolveCoef, h1, bind, Except.bind, pure, Except.pure, NContent.coefOf]

def rxnOf (c : NContent) (r : NRxn) : Rxn :=
  { rate := c.fnOf r.rate, stoich := r.stoich.map fun vc => (vc.1, c.coefOf vc.2) }

def symRxnOf (c : NContent) (r : NRxn) : SymRxn :=
  { fn := symFnOf c r.rate, stoich := r.stoich.map fun vc => (vc.1, symCoefOf c vc.2) }

theorem run_rxns {c : NContent} {D : Fns} (g : Good c D) : ∀ (l : List (Name × NRxn)) (t : List String) (c0 : Content),
    (∀ call ∈ (rxnCalls (l.map fun kv => (kv.1, symRxnOf c kv.2)) t).2, ∀ r ∈ call.refs, refOk D r = true) →
    runCalls D (rxnCalls (l.map fun kv => (kv.1, symRxnOf c kv.2)) t).2 c0
      = .ok { c0 with rxns := c0.rxns ++ l.map fun kv => (kv.1, rxnOf c kv.2) } := by
  intro l; induction l with
  | nil => intro t c0 _; simp [rxnCalls, runCalls, pure, Except.pure]
  | cons kv rest ih =>
    intro t c0 h
    obtain ⟨k, r⟩ := kv
    simp only [List.map_cons, rxnCalls] at h ⊢
    have hk := h _ List.mem_cons_self
    have h1 := resolve_use g r.rate (c.pyfn r.rate.fid).name (hk _ (by simp [Call.refs, symRxnOf, symFnOf]))
    have h3 := stoich_mapM g k r.stoich t (by
      intro vb hvb x hx
      refine hk x ?_
      simp only [Call.refs, List.mem_cons, List.mem_flatMap]
      exact Or.inr ⟨vb, hvb, hx⟩)
    have h2 := ih (stoichVals k (symRxnOf c r).stoich t).1 { c0 with rxns := c0.rxns ++ [(k, rxnOf c r)] }
      (fun call hc => h call (List.mem_cons_of_mem _ hc))
    simp only [symRxnOf, symFnOf] at h1 h2 h3 ⊢
    simp only [runCalls, h1, h3]
    simp only [bind, Except.bind]
    simp only [rxnOf] at h2 ⊢
    rw [h2]; simp

theorem runCalls_append (D : Fns) : ∀ (a b : List Call) (c0 : Content),
    runCalls D (a ++ b) c0 = (runCalls D a c0).bind (runCalls D b) := by
  intro a; induction a with
  | nil => intro b c0; simp [runCalls, Except.bind, pure, Except.pure]
  | cons x rest ih =>
    intro b c0
    cases x with
    | addVariable k v =>
      simp only [List.cons_append, runCalls, bind]
      cases resolveVal D v with
      | error e => rfl
      | ok v' => simp [Except.bind, ih]
    | addParameter k v =>
      simp only [List.cons_append, runCalls, bind]
      cases resolveVal D v with
      | error e => rfl
      | ok v' => simp [Except.bind, ih]
    | addDerived k r =>
      simp only [List.cons_append, runCalls, bind]
      cases resolve D r with
      | error e => rfl
      | ok v' => simp [Except.bind, ih]
    | addReaction k r st =>
      simp only [List.cons_append, runCalls, bind]
      cases resolve D r with
      | error e => rfl
      | ok v' =>
        simp only [Except.bind]
        generalize (List.mapM (m := Except Err) _ st) = m
        cases m with
        | error e => rfl
        | ok st' => simp [ih, Except.bind]

/-! ### an untranslatable function makes `_to_symbolic_repr` raise ValueError -/

theorem mapM_ok_all {α β} (f : α → Except Err β) : ∀ (l : List α) (r : List β),
    l.mapM f = .ok r → ∀ a ∈ l, ∃ b, f a = .ok b := by
  intro l; induction l with
  | nil => intro r _ a ha; cases ha
  | cons x l ih =>
    intro r h a ha
    simp only [List.mapM_cons, bind, Except.bind] at h
    cases hx : f x with
    | error e => simp [hx] at h
    | ok b =>
      simp only [hx] at h
      cases hl : l.mapM f with
      | error e => simp [hl] at h
      | ok r' =>
        cases List.mem_cons.mp ha with
        | inl h1 => exact ⟨b, h1 ▸ hx⟩
        | inr h1 => exact ih r' hl a h1

theorem mapM_error {α β} (f : α → Except Err β) : ∀ (l : List α) (e : Err),
    l.mapM f = .error e → ∃ a ∈ l, f a = .error e := by
  intro l; induction l with
  | nil => intro e h; simp [List.mapM_nil, pure, Except.pure] at h
  | cons x l ih =>
    intro e h
    simp only [List.mapM_cons, bind, Except.bind] at h
    cases hx : f x with
    | error e' => simp [hx] at h; exact ⟨x, List.mem_cons_self, h ▸ hx⟩
    | ok b =>
      simp only [hx] at h
      cases hl : l.mapM f with
      | error e' =>
        simp [hl] at h
        obtain ⟨a, ha, hfa⟩ := ih e' hl
        exact ⟨a, List.mem_cons_of_mem _ ha, h ▸ hfa⟩
      | ok r' => simp [hl, pure, Except.pure] at h

def IsValueError : Err → Prop
  | .valueError _ => True
  | _ => False

theorem symFn_error {bad : List String} {c : NContent} {k : Name} {u : Use} {e : Err}
    (h : symFn bad c k u = .error e) : IsValueError e := by
  simp only [symFn] at h
  split at h
  · cases h; trivial
  · cases h

theorem symFn_ok_not_bad {bad : List String} {c : NContent} {k : Name} {u : Use} {f : SymFn}
    (h : symFn bad c k u = .ok f) : bad.contains (c.pyfn u.fid).name = false := by
  simp only [symFn] at h
  split at h
  · cases h
  · rename_i hb; simpa using hb

theorem symVal_error {bad : List String} {c : NContent} {k : Name} {v : NVal} {e : Err}
    (h : symVal bad c k v = .error e) : IsValueError e := by
  cases v with
  | plain q => cases h
  | ia u =>
    simp only [symVal, bind, Except.bind] at h
    cases hs : symFn bad c k u with
    | error e' => simp [hs] at h; exact h ▸ symFn_error hs
    | ok f => simp [hs, pure, Except.pure] at h

theorem symCoef_error {bad : List String} {c : NContent} {k : Name} {v : NCoef} {e : Err}
    (h : symCoef bad c k v = .error e) : IsValueError e := by
  cases v with
  | num q => cases h
  | dyn u =>
    simp only [symCoef, bind, Except.bind] at h
    cases hs : symFn bad c k u with
    | error e' => simp [hs] at h; exact h ▸ symFn_error hs
    | ok f => simp [hs, pure, Except.pure] at h

theorem symVal_ok_not_bad {bad : List String} {c : NContent} {k : Name} {u : Use} {r : SymVal}
    (h : symVal bad c k (.ia u) = .ok r) : bad.contains (c.pyfn u.fid).name = false := by
  simp only [symVal, bind, Except.bind] at h
  cases hs : symFn bad c k u with
  | error e' => simp [hs] at h
  | ok f => exact symFn_ok_not_bad hs

theorem symCoef_ok_not_bad {bad : List String} {c : NContent} {k : Name} {u : Use} {r : SymVal}
    (h : symCoef bad c k (.dyn u) = .ok r) : bad.contains (c.pyfn u.fid).name = false := by
  simp only [symCoef, bind, Except.bind] at h
  cases hs : symFn bad c k u with
  | error e' => simp [hs] at h
  | ok f => exact symFn_ok_not_bad hs

/-- the per-element functions of `toSymbolicRepr` -/
def trVal (bad : List String) (c : NContent) (kv : Name × NVal) : Except Err (Name × SymVal) := do
  pure (kv.1, ← symVal bad c kv.1 kv.2)
def trFn (bad : List String) (c : NContent) (kv : Name × Use) : Except Err (Name × SymFn) := do
  pure (kv.1, ← symFn bad c kv.1 kv.2)
def trCoef (bad : List String) (c : NContent) (vc : Name × NCoef) : Except Err (Name × SymVal) := do
  pure (vc.1, ← symCoef bad c vc.1 vc.2)
def trRxn (bad : List String) (c : NContent) (kv : Name × NRxn) : Except Err (Name × SymRxn) := do
  let fn ← symFn bad c kv.1 kv.2.rate
  let st ← kv.2.stoich.mapM (trCoef bad c)
  pure (kv.1, ({ fn, stoich := st } : SymRxn))

theorem toSymbolicRepr_eq (bad : List String) (c : NContent) :
    toSymbolicRepr bad c = (do
      let variables ← c.vars.mapM (trVal bad c)
      let parameters ← c.pars.mapM (trVal bad c)
      let derived ← c.derived.mapM (trFn bad c)
      let reactions ← c.rxns.mapM (trRxn bad c)
      pure { variables, parameters, derived, reactions }) := rfl

theorem trVal_error {bad c kv e} (h : trVal bad c kv = .error e) : IsValueError e := by
  simp only [trVal, bind, Except.bind] at h
  cases hs : symVal bad c kv.1 kv.2 with
  | error e' => simp [hs] at h; exact h ▸ symVal_error hs
  | ok f => simp [hs, pure, Except.pure] at h

theorem trFn_error {bad c kv e} (h : trFn bad c kv = .error e) : IsValueError e := by
  simp only [trFn, bind, Except.bind] at h
  cases hs : symFn bad c kv.1 kv.2 with
  | error e' => simp [hs] at h; exact h ▸ symFn_error hs
  | ok f => simp [hs, pure, Except.pure] at h

theorem trCoef_error {bad c kv e} (h : trCoef bad c kv = .error e) : IsValueError e := by
  simp only [trCoef, bind, Except.bind] at h
  cases hs : symCoef bad c kv.1 kv.2 with
  | error e' => simp [hs] at h; exact h ▸ symCoef_error hs
  | ok f => simp [hs, pure, Except.pure] at h

theorem trRxn_error {bad c kv e} (h : trRxn bad c kv = .error e) : IsValueError e := by
  simp only [trRxn, bind, Except.bind] at h
  cases hs : symFn bad c kv.1 kv.2.rate with
  | error e' => simp [hs] at h; exact h ▸ symFn_error hs
  | ok f =>
    simp only [hs] at h
    cases hm : kv.2.stoich.mapM (trCoef bad c) with
    | error e' =>
      simp [hm] at h
      obtain ⟨a, _, ha⟩ := mapM_error _ _ _ hm
      exact h ▸ trCoef_error ha
    | ok st => simp [hm, pure, Except.pure] at h

theorem toSymbolicRepr_error {bad : List String} {c : NContent} {e : Err}
    (h : toSymbolicRepr bad c = .error e) : IsValueError e := by
  rw [toSymbolicRepr_eq] at h
  simp only [bind, Except.bind] at h
  cases h1 : c.vars.mapM (trVal bad c) with
  | error e' => simp [h1] at h; obtain ⟨a, _, ha⟩ := mapM_error _ _ _ h1; exact h ▸ trVal_error ha
  | ok vs =>
    simp only [h1] at h
    cases h2 : c.pars.mapM (trVal bad c) with
    | error e' => simp [h2] at h; obtain ⟨a, _, ha⟩ := mapM_error _ _ _ h2; exact h ▸ trVal_error ha
    | ok ps =>
      simp only [h2] at h
      cases h3 : c.derived.mapM (trFn bad c) with
      | error e' => simp [h3] at h; obtain ⟨a, _, ha⟩ := mapM_error _ _ _ h3; exact h ▸ trFn_error ha
      | ok ds =>
        simp only [h3] at h
        cases h4 : c.rxns.mapM (trRxn bad c) with
        | error e' => simp [h4] at h; obtain ⟨a, _, ha⟩ := mapM_error _ _ _ h4; exact h ▸ trRxn_error ha
        | ok rs => simp [h4, pure, Except.pure] at h

theorem toSymbolicRepr_ok_not_bad {bad : List String} {c : NContent} {s : SymRepr}
    (h : toSymbolicRepr bad c = .ok s) : ∀ u ∈ Use.all c, bad.contains (c.pyfn u.fid).name = false := by
  rw [toSymbolicRepr_eq] at h
  simp only [bind, Except.bind] at h
  cases h1 : c.vars.mapM (trVal bad c) with
  | error e' => simp [h1] at h
  | ok vs =>
    simp only [h1] at h
    cases h2 : c.pars.mapM (trVal bad c) with
    | error e' => simp [h2] at h
    | ok ps =>
      simp only [h2] at h
      cases h3 : c.derived.mapM (trFn bad c) with
      | error e' => simp [h3] at h
      | ok ds =>
        simp only [h3] at h
        cases h4 : c.rxns.mapM (trRxn bad c) with
        | error e' => simp [h4] at h
        | ok rs =>
          intro u hu
          simp only [Use.all, List.mem_append, List.mem_filterMap, List.mem_map, List.mem_flatMap] at hu
          rcases hu with ((⟨kv, hkv, hm⟩ | ⟨kv, hkv, hm⟩) | ⟨kv, hkv, hm⟩) | ⟨kv, hkv, hm⟩
          · obtain ⟨k, v⟩ := kv
            cases v with
            | plain q => simp at hm
            | ia u' =>
              simp at hm; subst hm
              obtain ⟨b, hb⟩ := mapM_ok_all _ _ _ h1 _ hkv
              simp only [trVal, bind, Except.bind] at hb
              cases hs : symVal bad c k (.ia u') with
              | error e' => simp [hs] at hb
              | ok r => exact symVal_ok_not_bad hs
          · obtain ⟨k, v⟩ := kv
            cases v with
            | plain q => simp at hm
            | ia u' =>
              simp at hm; subst hm
              obtain ⟨b, hb⟩ := mapM_ok_all _ _ _ h2 _ hkv
              simp only [trVal, bind, Except.bind] at hb
              cases hs : symVal bad c k (.ia u') with
              | error e' => simp [hs] at hb
              | ok r => exact symVal_ok_not_bad hs
          · obtain ⟨k, u'⟩ := kv
            simp at hm; subst hm
            obtain ⟨b, hb⟩ := mapM_ok_all _ _ _ h3 _ hkv
            simp only [trFn, bind, Except.bind] at hb
            cases hs : symFn bad c k u' with
            | error e' => simp [hs] at hb
            | ok r => exact symFn_ok_not_bad hs
          · obtain ⟨k, r⟩ := kv
            obtain ⟨b, hb⟩ := mapM_ok_all _ _ _ h4 _ hkv
            simp only [trRxn, bind, Except.bind] at hb
            cases hs : symFn bad c k r.rate with
            | error e' => simp [hs] at hb
            | ok f =>
              simp only [hs] at hb
              cases hst : r.stoich.mapM (trCoef bad c) with
              | error e' => simp [hst] at hb
              | ok st =>
                cases List.mem_cons.mp hm with
                | inl h5 => exact h5 ▸ symFn_ok_not_bad hs
                | inr h5 =>
                  simp only [List.mem_filterMap] at h5
                  obtain ⟨vc, hvc, hm2⟩ := h5
                  obtain ⟨v, cf⟩ := vc
                  cases cf with
                  | num q => simp at hm2
                  | dyn u' =>
                    simp at hm2; subst hm2
                    obtain ⟨b2, hb2⟩ := mapM_ok_all _ _ _ hst _ hvc
                    simp only [trCoef, bind, Except.bind] at hb2
                    cases hs2 : symCoef bad c v (.dyn u') with
                    | error e' => simp [hs2] at hb2
                    | ok r2 => exact symCoef_ok_not_bad hs2

theorem roundTrip_raises {bad : List String} {c : NContent}
    (h : ∃ u ∈ Use.all c, bad.contains (c.pyfn u.fid).name = true) :
    ∃ m, roundTrip bad c = .error (.valueError m) := by
  obtain ⟨u, hu, hb⟩ := h
  unfold roundTrip
  cases hs : toSymbolicRepr bad c with
  | ok s =>
    have := toSymbolicRepr_ok_not_bad hs u hu
    rw [this] at hb; cases hb
  | error e =>
    have hv := toSymbolicRepr_error hs
    cases e with
    | valueError m => exact ⟨m, rfl⟩
    | _ => exact absurd hv (by simp [IsValueError])

/-! ### assembling the round trip -/

theorem symOf_rxns (c : NContent) :
    (symOf c).reactions = c.rxns.map fun kv => (kv.1, symRxnOf c kv.2) := rfl

theorem toContent_eq (c : NContent) :
    c.toContent = { vars := c.vars.map fun kv => (kv.1, c.valOf kv.2)
                    pars := c.pars.map fun kv => (kv.1, c.valOf kv.2)
                    derived := c.derived.map fun kv => (kv.1, c.fnOf kv.2)
                    rxns := c.rxns.map fun kv => (kv.1, rxnOf c kv.2) } := rfl

theorem roundTrip_ok (c : NContent) (hc : Canonical c) (h : refsResolve c = true) :
    roundTrip [] c = .ok c.toContent := by
  unfold refsResolve at h
  rw [toSymbolicRepr_nil] at h
  simp only [Program.refsOk, Bool.and_eq_true] at h
  obtain ⟨hcons, hnd, hrefs⟩ := h
  have g : Good c (genProgram (symOf c)).defs := ⟨hc, symOf_defs_ok c, hnd⟩
  have hall : ∀ call ∈ (genProgram (symOf c)).build, ∀ r ∈ call.refs, refOk (genProgram (symOf c)).defs r = true := by
    intro call hcall r hr
    exact List.all_eq_true.mp (List.all_eq_true.mp hrefs call hcall) r hr
  have e0 : (symOf c).variables = c.vars.map fun kv => (kv.1, symValOf c kv.2) := rfl
  have e0' : (symOf c).parameters = c.pars.map fun kv => (kv.1, symValOf c kv.2) := rfl
  have e0'' : (symOf c).derived = c.derived.map fun kv => (kv.1, symFnOf c kv.2) := rfl
  rw [genMxlpy_build, e0, e0', e0'', symOf_rxns] at hall
  unfold roundTrip
  rw [toSymbolicRepr_nil]
  have hg : genMxlpy (symOf c) = .ok (genProgram (symOf c)) := by
    simp only [genMxlpy, hnd, hcons]; rfl
  simp only [bind, Except.bind, hg, runProgram, checkDefs_ok _ hnd, genMxlpy_build]
  generalize (genProgram (symOf c)).defs = D at g hall ⊢
  rw [runCalls_append, runCalls_append, runCalls_append, e0, e0', e0'', symOf_rxns]
  rw [run_vars g c.vars _ {} (fun call hcall => hall call (by simp [hcall]))]
  simp only [Except.bind]
  rw [run_pars g c.pars _ _ (fun call hcall => hall call (by simp [hcall]))]
  simp only [Except.bind]
  rw [run_derived g c.derived _ (fun call hcall => hall call (by simp [hcall]))]
  simp only [Except.bind]
  rw [run_rxns g c.rxns _ _ (fun call hcall => hall call (by simp [hcall])), toContent_eq]
  simp

end Mxl.C11
