/- C12 — which symbols the equations mention (core Lean only). -/
import MxlVerif.Lemmas.C12JacRhs
namespace Mxl.C12
open Mxl

theorem freeSyms_substArgs (es : List SExpr) (P : Name → Prop)
    (hes : ∀ e ∈ es, ∀ n ∈ freeSyms e, P n) :
    ∀ (b : BExpr), ∀ n ∈ freeSyms (substArgs es b), P n := by
  intro b
  induction b with
  | arg i =>
    intro n hn
    simp only [substArgs, List.getD_eq_getElem?_getD] at hn
    cases hi : es[i]? with
    | none => simp [hi, freeSyms] at hn
    | some e => simp [hi] at hn; exact hes e (List.mem_of_getElem? hi) n hn
  | const q => intro n hn; simp [substArgs, freeSyms] at hn
  | add a b iha ihb | sub a b iha ihb | mul a b iha ihb | div a b iha ihb =>
    intro n hn
    simp only [substArgs, freeSyms, List.mem_append] at hn
    rcases hn with h | h
    · exact iha n h
    · exact ihb n h
  | neg a iha => intro n hn; exact iha n (by simpa [substArgs, freeSyms] using hn)
  | pow a k iha => intro n hn; exact iha n (by simpa [substArgs, freeSyms] using hn)

theorem freeSyms_D (x : Name) : ∀ (e : SExpr), ∀ n ∈ freeSyms (D x e), n ∈ freeSyms e := by
  intro e
  induction e with
  | sym m => intro n hn; simp only [D] at hn; split at hn <;> simp [freeSyms] at hn
  | const q => intro n hn; simp [D, freeSyms] at hn
  | add a b iha ihb | sub a b iha ihb =>
    intro n hn
    simp only [D, freeSyms, List.mem_append] at hn ⊢
    rcases hn with h | h
    · exact Or.inl (iha n h)
    · exact Or.inr (ihb n h)
  | mul a b iha ihb =>
    intro n hn
    simp only [D, freeSyms, List.mem_append] at hn ⊢
    rcases hn with (h | h) | (h | h)
    · exact Or.inl (iha n h)
    · exact Or.inr h
    · exact Or.inl h
    · exact Or.inr (ihb n h)
  | div a b iha ihb =>
    intro n hn
    simp only [D, freeSyms, List.mem_append] at hn ⊢
    rcases hn with ((h | h) | (h | h)) | (h | h)
    · exact Or.inl (iha n h)
    · exact Or.inr h
    · exact Or.inl h
    · exact Or.inr (ihb n h)
    · exact Or.inr h
    · exact Or.inr h
  | neg a iha => intro n hn; exact iha n (by simpa [D, freeSyms] using hn)
  | pow a k iha =>
    intro n hn
    cases k with
    | zero => simp [D, freeSyms] at hn
    | succ k =>
      simp only [D, freeSyms, List.mem_append, List.not_mem_nil, false_or] at hn ⊢
      rcases hn with h | h
      · exact h
      · exact iha n h

/-- every expression stored in the table only mentions names satisfying `P` -/
def TableIn (P : Name → Prop) (T : Symbols) : Prop := ∀ kv ∈ T, ∀ n ∈ freeSyms kv.2, P n

theorem tableIn_insert (P) (T : Symbols) (k : Name) (e : SExpr) (hT : TableIn P T)
    (he : ∀ n ∈ freeSyms e, P n) : TableIn P (omInsert T k e) := by
  intro kv hkv n hn
  obtain ⟨k', e'⟩ := kv
  rcases mem_omInsert _ _ _ _ _ hkv with ⟨_, h2⟩ | h
  · subst h2; exact he n hn
  · exact hT _ h n hn

theorem substFn_in (P) (S : Symbols) (f : SFn) (e : SExpr) (hS : TableIn P S) (h : substFn S f = .ok e) :
    ∀ n ∈ freeSyms e, P n := by
  obtain ⟨es, hes, he⟩ := substFn_inv S f e h
  subst he
  apply freeSyms_substArgs es P
  intro e' he' n hn
  -- every member of es is a lookup result
  have : ∀ {args es}, All2 (fun a e' => S.lookup a = some e') args es → ∀ e' ∈ es, ∃ a, S.lookup a = some e' := by
    intro args es h
    induction h with
    | nil => intro _ h; simp at h
    | cons hab _ ih =>
      intro e' he'
      rcases List.mem_cons.mp he' with h1 | h1
      · exact ⟨_, h1 ▸ hab⟩
      · exact ih e' h1
  obtain ⟨a, ha⟩ := this hes e' he'
  exact hS (a, e') (lookup_some_mem _ _ _ ha) n hn

theorem derivedLoop_in (P) (derived : List (Name × SFn)) :
    ∀ (names : List Name) (S S' : Symbols), derivedLoop derived names S = .ok S' →
      TableIn P S → TableIn P S' := by
  intro names
  induction names with
  | nil => intro S S' h hS; simp [derivedLoop] at h; subst h; exact hS
  | cons k ks ih =>
    intro S S' h hS
    unfold derivedLoop at h
    cases hk : derived.lookup k with
    | none => simp only [hk] at h; exact ih S S' h hS
    | some f =>
      simp only [hk, bind, Except.bind] at h
      cases hs : substFn S f with
      | error err => simp [hs] at h
      | ok e =>
        simp only [hs] at h
        exact ih _ S' h (tableIn_insert P S k e hS (substFn_in P S f e hS hs))

theorem rxnLoop_in (P) (S : Symbols) (hS : TableIn P S) :
    ∀ (l : List (Name × SRxn)) (rx rx' : Symbols), rxnLoop S l rx = .ok rx' →
      TableIn P rx → TableIn P rx' := by
  intro l
  induction l with
  | nil => intro rx rx' h hr; simp [rxnLoop] at h; subst h; exact hr
  | cons kr rest ih =>
    obtain ⟨k, r⟩ := kr
    intro rx rx' h hr
    simp only [rxnLoop, bind, Except.bind] at h
    cases hs : substFn S r.rate with
    | error err => simp [hs] at h
    | ok e =>
      simp only [hs] at h
      exact ih _ rx' h (tableIn_insert P rx k e hr (substFn_in P S r.rate e hS hs))

theorem eqGet_in (P) (eqs : Symbols) (cpd : Name) (h : TableIn P eqs) : ∀ n ∈ freeSyms (eqGet eqs cpd), P n := by
  intro n hn
  unfold eqGet at hn
  cases hl : eqs.lookup cpd with
  | none => simp [hl, freeSyms] at hn
  | some e => simp [hl] at hn; exact h (cpd, e) (lookup_some_mem _ _ _ hl) n hn

theorem eqStatic_in (P) (rx : Symbols) (hr : TableIn P rx) (cpd : Name) :
    ∀ (st : List (Name × Rat)) (eqs eqs' : Symbols), eqStatic rx cpd st eqs = .ok eqs' →
      TableIn P eqs → TableIn P eqs' := by
  intro st
  induction st with
  | nil => intro eqs eqs' h he; simp [eqStatic] at h; subst h; exact he
  | cons x rest ih =>
    obtain ⟨rxn, c⟩ := x
    intro eqs eqs' h he
    simp only [eqStatic] at h
    cases hx : rx.lookup rxn with
    | none => simp [hx] at h
    | some r =>
      simp only [hx] at h
      refine ih _ eqs' h (tableIn_insert P eqs cpd _ he ?_)
      intro n hn
      simp only [freeSyms, List.mem_append, List.not_mem_nil, false_or] at hn
      rcases hn with h1 | h1
      · exact eqGet_in P eqs cpd he n h1
      · exact hr (rxn, r) (lookup_some_mem _ _ _ hx) n h1

theorem eqStaticAll_in (P) (rx : Symbols) (hr : TableIn P rx) :
    ∀ (sts : List (Name × List (Name × Rat))) (eqs eqs' : Symbols), eqStaticAll rx sts eqs = .ok eqs' →
      TableIn P eqs → TableIn P eqs' := by
  intro sts
  induction sts with
  | nil => intro eqs eqs' h he; simp [eqStaticAll] at h; subst h; exact he
  | cons cs rest ih =>
    obtain ⟨cpd, st⟩ := cs
    intro eqs eqs' h he
    simp only [eqStaticAll, bind, Except.bind] at h
    cases h1 : eqStatic rx cpd st eqs with
    | error err => simp [h1] at h
    | ok e1 => simp only [h1] at h; exact ih e1 eqs' h (eqStatic_in P rx hr cpd st eqs e1 h1 he)

theorem eqDyn_in (P) (c : SContent) (S rx : Symbols) (hS : TableIn P S) (hr : TableIn P rx) (cpd : Name) :
    ∀ (st : List (Name × Fn)) (eqs eqs' : Symbols), eqDyn c S rx cpd st eqs = .ok eqs' →
      TableIn P eqs → TableIn P eqs' := by
  intro st
  induction st with
  | nil => intro eqs eqs' h he; simp [eqDyn] at h; subst h; exact he
  | cons x rest ih =>
    obtain ⟨rxn, der⟩ := x
    intro eqs eqs' h he
    simp only [eqDyn, bind, Except.bind] at h
    cases hl : lookupSyms S der.args with
    | error err => simp [hl] at h
    | ok es =>
      simp only [hl] at h
      cases hx : rx.lookup rxn with
      | none => simp [hx] at h
      | some r =>
        simp only [hx] at h
        cases hb : dynBody c rxn cpd with
        | none => simp [hb] at h
        | some f =>
          simp only [hb] at h
          refine ih _ eqs' h (tableIn_insert P eqs cpd _ he ?_)
          intro n hn
          simp only [freeSyms, List.mem_append] at hn
          rcases hn with h1 | h1 | h1
          · exact eqGet_in P eqs cpd he n h1
          · have hsub : substFn S ⟨der.args, f.body⟩ = .ok (substArgs es f.body) := by
              simp [substFn, hl, bind, Except.bind, pure, Except.pure]
            exact substFn_in P S _ _ hS hsub n h1
          · exact hr (rxn, r) (lookup_some_mem _ _ _ hx) n h1

theorem eqDynAll_in (P) (c : SContent) (S rx : Symbols) (hS : TableIn P S) (hr : TableIn P rx) :
    ∀ (sts : List (Name × List (Name × Fn))) (eqs eqs' : Symbols), eqDynAll c S rx sts eqs = .ok eqs' →
      TableIn P eqs → TableIn P eqs' := by
  intro sts
  induction sts with
  | nil => intro eqs eqs' h he; simp [eqDynAll] at h; subst h; exact he
  | cons cs rest ih =>
    obtain ⟨cpd, st⟩ := cs
    intro eqs eqs' h he
    simp only [eqDynAll, bind, Except.bind] at h
    cases h1 : eqDyn c S rx cpd st eqs with
    | error err => simp [h1] at h
    | ok e1 => simp only [h1] at h; exact ih e1 eqs' h (eqDyn_in P c S rx hS hr cpd st eqs e1 h1 he)

/-- the equations mention only variable symbols, plain-parameter symbols and data symbols -/
theorem toSymbolic_syms (sc : SContent) (es : List SExpr) (h : toSymbolic sc = .ok es) :
    ∃ cache, createCache sc.toContent = .ok cache ∧
      ∀ e ∈ es, ∀ n ∈ freeSyms e,
        n ∈ omKeys cache.init ∨ n ∈ omKeys cache.basePars ∨ n ∈ omKeys sc.data := by
  unfold toSymbolic at h
  cases hc : createCache sc.toContent with
  | error err => simp [hc, bind, Except.bind] at h
  | ok cache =>
    refine ⟨cache, rfl, ?_⟩
    simp only [hc, bind, Except.bind, toSymbolicWith] at h
    let P : Name → Prop := fun n => n ∈ omKeys cache.init ∨ n ∈ omKeys cache.basePars ∨ n ∈ omKeys sc.data
    have hbase : TableIn P (baseSymbols sc cache) := by
      intro kv hkv n hn
      obtain ⟨k, e⟩ := kv
      -- each entry is `(k, .sym k)` with `k` one of the base names
      unfold baseSymbols at hkv
      have hsym : ∀ ks (k : Name) (e : SExpr), (k, e) ∈ symbolsOf ks → e = .sym k ∧ k ∈ ks := by
        intro ks k e hm
        obtain ⟨k', hk', he⟩ := List.mem_map.mp hm
        simp at he; exact ⟨by rw [← he.2, he.1], he.1 ▸ hk'⟩
      rcases mem_omUnion _ _ _ _ hkv with h1 | h1
      · rcases mem_omUnion _ _ _ _ h1 with h2 | h2
        · obtain ⟨he, hk⟩ := hsym _ _ _ h2; subst he; simp [freeSyms] at hn; subst hn; exact Or.inl hk
        · obtain ⟨he, hk⟩ := hsym _ _ _ h2; subst he; simp [freeSyms] at hn; subst hn; exact Or.inr (Or.inl hk)
      · obtain ⟨he, hk⟩ := hsym _ _ _ h1; subst he; simp [freeSyms] at hn; subst hn; exact Or.inr (Or.inr hk)
    cases hS : derivedLoop sc.derived cache.order (baseSymbols sc cache) with
    | error err => simp [hS] at h
    | ok S =>
      simp only [hS] at h
      have hSin := derivedLoop_in P sc.derived _ _ S hS hbase
      cases hrx : rxnLoop S sc.rxns [] with
      | error err => simp [hrx] at h
      | ok rx =>
        simp only [hrx] at h
        have hrin := rxnLoop_in P S hSin sc.rxns [] rx hrx (by intro _ hm; simp at hm)
        cases he1 : eqStaticAll rx cache.stoich [] with
        | error err => simp [he1] at h
        | ok eqs1 =>
          simp only [he1] at h
          have h1in := eqStaticAll_in P rx hrin _ _ eqs1 he1 (by intro _ hm; simp at hm)
          cases he2 : eqDynAll sc S rx cache.dynStoich eqs1 with
          | error err => simp [he2] at h
          | ok eqs2 =>
            simp only [he2] at h
            have h2in := eqDynAll_in P sc S rx hSin hrin _ _ eqs2 he2 h1in
            intro e he n hn
            have a := mapM_except_ok _ _ _ h
            -- every collected equation is a lookup result
            have : ∀ {vn es}, All2 (fun k e => (match eqs2.lookup k with
                | some e => Except.ok e | none => Except.error (Err.keyError k)) = Except.ok e) vn es →
                ∀ e ∈ es, ∃ k, eqs2.lookup k = some e := by
              intro vn es hh
              induction hh with
              | nil => intro _ hm; simp at hm
              | @cons k e' _ _ hab _ ih =>
                intro e'' hm
                rcases List.mem_cons.mp hm with h1 | h1
                · cases hl : eqs2.lookup k with
                  | none => simp [hl] at hab
                  | some e3 => simp [hl] at hab; exact ⟨k, by rw [h1, ← hab]; exact hl⟩
                · exact ih e'' h1
            obtain ⟨k, hk⟩ := this a e he
            exact h2in (k, e) (lookup_some_mem _ _ _ hk) n hn

end Mxl.C12
