/-
Helper lemmas for C05 (core Lean only): label patterns, slices, sums over patterns.
-/
import MxlVerif.Model.C05
namespace Mxl.C05

/-! ### patterns -/

theorem nodup_map_inj {α β} {f : α → β} (hf : ∀ a b, f a = f b → a = b) {l : List α}
    (h : l.Nodup) : (l.map f).Nodup :=
  List.Pairwise.map f (fun a b hab e => hab (hf a b e)) h

theorem patterns_length (n : Nat) : (patterns n).length = 2 ^ n := by
  induction n with
  | zero => simp [patterns]
  | succ n ih => simp [patterns, ih, Nat.pow_succ]; omega

theorem mem_patterns {n : Nat} {w : Label} : w ∈ patterns n ↔ w.length = n := by
  induction n generalizing w with
  | zero => simp [patterns]
  | succ n ih =>
    simp only [patterns, List.mem_append, List.mem_map]
    constructor
    · rintro (⟨u, hu, rfl⟩ | ⟨u, hu, rfl⟩) <;> simp [ih.mp hu]
    · intro h
      cases w with
      | nil => simp at h
      | cons b u =>
        have hu : u ∈ patterns n := ih.mpr (by simpa using h)
        cases b
        · exact Or.inl ⟨u, hu, rfl⟩
        · exact Or.inr ⟨u, hu, rfl⟩

theorem patterns_nodup (n : Nat) : (patterns n).Nodup := by
  induction n with
  | zero => simp [patterns]
  | succ n ih =>
    simp only [patterns]
    rw [List.nodup_append]
    refine ⟨?_, ?_, ?_⟩
    · exact nodup_map_inj (by intro a b h; simpa using h) ih
    · exact nodup_map_inj (by intro a b h; simpa using h) ih
    · intro a ha b hb
      simp only [List.mem_map] at ha hb
      obtain ⟨u, _, rfl⟩ := ha
      obtain ⟨v, _, rfl⟩ := hb
      simp

/-! ### sums over patterns -/

theorem sumMap_append (a b : List Label) (f : Label → Rat) :
    sumMap (a ++ b) f = sumMap a f + sumMap b f := by simp [sumMap]

theorem sumMap_map (l : List Label) (h : Label → Label) (f : Label → Rat) :
    sumMap (l.map h) f = sumMap l (f ∘ h) := by simp [sumMap, Function.comp_def]

theorem sumMap_congr {l : List Label} {f g : Label → Rat} (h : ∀ w ∈ l, f w = g w) :
    sumMap l f = sumMap l g := by
  unfold sumMap
  congr 1
  exact List.map_congr_left h

theorem sumMap_add (l : List Label) (f g : Label → Rat) :
    sumMap l (fun w => f w + g w) = sumMap l f + sumMap l g := by
  induction l with
  | nil => simp [sumMap]; grind
  | cons x xs ih => simp only [sumMap, List.map_cons, List.sum_cons] at ih ⊢; rw [ih]; grind

theorem sumMap_mul_left (l : List Label) (c : Rat) (f : Label → Rat) :
    sumMap l (fun w => c * f w) = c * sumMap l f := by
  induction l with
  | nil => simp [sumMap]
  | cons x xs ih => simp only [sumMap, List.map_cons, List.sum_cons] at ih ⊢; rw [ih]; grind

theorem sumMap_mul_right (l : List Label) (c : Rat) (f : Label → Rat) :
    sumMap l (fun w => f w * c) = sumMap l f * c := by
  induction l with
  | nil => simp [sumMap]
  | cons x xs ih => simp only [sumMap, List.map_cons, List.sum_cons] at ih ⊢; rw [ih]; grind

/-- Fubini over the split of a pattern into its first `n1` and remaining `n2` positions -/
theorem sum_take_drop (n1 n2 : Nat) (F : Label → Label → Rat) :
    sumMap (patterns (n1 + n2)) (fun w => F (w.take n1) (w.drop n1))
      = sumMap (patterns n1) (fun u => sumMap (patterns n2) (F u)) := by
  induction n1 generalizing F with
  | zero => simp [patterns, sumMap]; grind
  | succ n ih =>
    have e : n + 1 + n2 = (n + n2) + 1 := by omega
    rw [e]
    simp only [patterns, sumMap_append, sumMap_map, Function.comp_def, List.take_succ_cons,
      List.drop_succ_cons]
    rw [ih (fun u => F (false :: u)), ih (fun u => F (true :: u))]

/-- the product-of-sums collapse for two blocks (DESIGN Appendix A) -/
theorem collapse2 (n1 n2 : Nat) (f g : Label → Rat) :
    sumMap (patterns (n1 + n2)) (fun w => f (w.take n1) * g (w.drop n1))
      = sumMap (patterns n1) f * sumMap (patterns n2) g := by
  rw [sum_take_drop n1 n2 (fun u v => f u * g v)]
  simp only [sumMap_mul_left, sumMap_mul_right]

/-- iterated sum over one pattern per block -/
def sumBlocks : List Nat → (List Label → Rat) → Rat
  | [], G => G []
  | n :: ns, G => sumMap (patterns n) (fun u => sumBlocks ns (fun rest => G (u :: rest)))

theorem sum_split (ns : List Nat) (G : List Label → Rat) :
    sumMap (patterns ns.sum) (fun w => G (splitLabel w ns)) = sumBlocks ns G := by
  induction ns generalizing G with
  | nil => simp [patterns, sumMap, splitLabel, sumBlocks]; grind
  | cons n ns ih =>
    simp only [List.sum_cons, splitLabel, sumBlocks]
    rw [sum_take_drop n ns.sum (fun u v => G (u :: splitLabel v ns))]
    apply sumMap_congr
    intro u _
    exact ih (fun rest => G (u :: rest))

/-! ### the product collapse over substrate blocks -/

/-- the labelled name the rate argument `a` becomes when the substrate occurrences `bs` carry
    the label blocks `blocks` (first occurrence with a non-empty block) -/
def argOf : List Name → List Label → Name → LName
  | s :: ss, b :: bl, a => if s = a ∧ b ≠ [] then ⟨a, some b⟩ else argOf ss bl a
  | _, _, a => plain a

theorem argOf_base (bs : List Name) (bl : List Label) (a : Name) : (argOf bs bl a).base = a := by
  induction bs generalizing bl with
  | nil => simp [argOf, plain]
  | cons s ss ih =>
    cases bl with
    | nil => simp [argOf, plain]
    | cons b bl => simp only [argOf]; split <;> simp [ih]

theorem argOf_not_mem {bs : List Name} {bl : List Label} {a : Name} (h : a ∉ bs) :
    argOf bs bl a = plain a := by
  induction bs generalizing bl with
  | nil => simp [argOf]
  | cons s ss ih =>
    cases bl with
    | nil => simp [argOf]
    | cons b bl =>
      simp only [List.mem_cons, not_or] at h
      simp only [argOf]
      rw [if_neg (by intro hh; exact h.1 hh.1.symm), ih h.2]

theorem listProd_cons (x : Rat) (xs : List Rat) : listProd (x :: xs) = x * listProd xs := rfl

/-- a product in which exactly one factor depends on `u` is linear in that factor -/
theorem prod_linear_once (args : List Name) (s : Name) (hc : args.count s = 1)
    (l : List Label) (x : Label → Rat) (K : Name → Rat) :
    sumMap l (fun u => listProd (args.map fun a => if a = s then x u else K a))
      = listProd (args.map fun a => if a = s then sumMap l x else K a) := by
  induction args with
  | nil => simp at hc
  | cons a as ih =>
    by_cases h : a = s
    · subst h
      have h0 : as.count a = 0 := by simpa using hc
      have hna : ∀ b ∈ as, b ≠ a := by
        intro b hb e; subst e
        exact absurd (List.count_pos_iff.mpr hb) (by omega)
      have e1 : ∀ v : Rat, (as.map fun b => if b = a then v else K b) = as.map K := by
        intro v; apply List.map_congr_left; intro b hb; simp [hna b hb]
      simp only [List.map_cons, listProd_cons, if_true, e1]
      rw [sumMap_mul_right]
    · have hc' : as.count s = 1 := by
        rw [List.count_cons] at hc; simpa [h] using hc
      simp only [List.map_cons, listProd_cons, if_neg h]
      rw [sumMap_mul_left, ih hc']


def upd (σ : LName → Rat) (k : LName) (v : Rat) : LName → Rat := fun n => if n = k then v else σ n

/-- value of base argument `a` at the isotopomer totals: a labelled substrate reads its total,
    anything else its own (unsuffixed) name -/
def baseVal (lv : List (Name × Nat)) (σ : LName → Rat) (bs : List Name) (a : Name) : Rat :=
  if a ∈ bs ∧ labelsOf lv a > 0 then totalOf σ a (labelsOf lv a) else σ (plain a)

theorem totalOf_pos (σ : LName → Rat) (x : Name) {n : Nat} (h : n > 0) :
    totalOf σ x n = sumMap (patterns n) (fun u => σ ⟨x, some u⟩) := by
  simp [totalOf, binaryLabels, h, sumMap, Function.comp_def]

theorem totalOf_upd_plain (σ : LName → Rat) (s x : Name) (v : Rat) {n : Nat} (h : n > 0) :
    totalOf (upd σ (plain s) v) x n = totalOf σ x n := by
  rw [totalOf_pos _ _ h, totalOf_pos _ _ h]
  apply sumMap_congr
  intro u _
  simp [upd, plain]

theorem sumMap_single (f : Label → Rat) : sumMap [[]] f = f [] := by
  simp [sumMap]; grind

theorem collapse_blocks (lv : List (Name × Nat)) (bs args : List Name) (σ : LName → Rat)
    (hnd : ∀ a, labelsOf lv a > 0 → bs.count a ≤ 1)
    (honce : ∀ a ∈ bs, labelsOf lv a > 0 → args.count a = 1) :
    sumBlocks (labelsPer lv bs) (fun blocks => listProd (args.map fun a => σ (argOf bs blocks a)))
      = listProd (args.map (baseVal lv σ bs)) := by
  induction bs generalizing σ with
  | nil =>
    have : baseVal lv σ [] = fun a => σ (plain a) := by funext a; simp [baseVal]
    simp [labelsPer, sumBlocks, argOf, this]
  | cons s ss ih =>
    have hnd' : ∀ a, labelsOf lv a > 0 → ss.count a ≤ 1 := by
      intro a ha; have := hnd a ha; rw [List.count_cons] at this; omega
    have honce' : ∀ a ∈ ss, labelsOf lv a > 0 → args.count a = 1 :=
      fun a ha => honce a (List.mem_cons_of_mem _ ha)
    simp only [labelsPer, List.map_cons, sumBlocks]
    by_cases hn : labelsOf lv s = 0
    · -- unlabelled occurrence: its block is empty and it never renames an argument
      rw [hn]
      simp only [patterns, sumMap_single, argOf, ne_eq, not_true_eq_false, and_false, if_false]
      have := ih σ hnd' honce'
      simp only [labelsPer] at this
      rw [this]
      congr 1
      apply List.map_congr_left
      intro a _
      simp only [baseVal, List.mem_cons]
      by_cases e : a = s
      · subst e; simp [hn]
      · simp [e]
    · have hpos : labelsOf lv s > 0 := Nat.pos_of_ne_zero hn
      have hs : s ∉ ss := by
        intro hmem
        have := hnd s hpos
        rw [List.count_cons_self] at this
        have : ss.count s > 0 := List.count_pos_iff.mpr hmem
        omega
      have step : ∀ u ∈ patterns (labelsOf lv s),
          sumBlocks (List.map (labelsOf lv) ss)
              (fun rest => listProd (args.map fun a => σ (argOf (s :: ss) (u :: rest) a)))
            = listProd (args.map fun a =>
                if a = s then σ ⟨s, some u⟩ else baseVal lv σ (s :: ss) a) := by
        intro u hu
        have hune : u ≠ [] := by
          have := mem_patterns.mp hu
          intro e; subst e; simp at this; omega
        have e1 : (fun rest => listProd (args.map fun a => σ (argOf (s :: ss) (u :: rest) a)))
            = (fun rest => listProd (args.map fun a =>
                (upd σ (plain s) (σ ⟨s, some u⟩)) (argOf ss rest a))) := by
          funext rest
          congr 1
          apply List.map_congr_left
          intro a _
          simp only [argOf]
          by_cases e : s = a
          · subst e
            simp [hune, argOf_not_mem hs, upd]
          · have hb : argOf ss rest a ≠ plain s := by
              intro hh
              have := argOf_base ss rest a
              rw [hh] at this
              exact e (by simpa [plain] using this)
            simp [e, upd, hb]
        rw [e1]
        have := ih (upd σ (plain s) (σ ⟨s, some u⟩)) hnd' honce'
        simp only [labelsPer] at this
        rw [this]
        congr 1
        apply List.map_congr_left
        intro a _
        by_cases e : a = s
        · subst e
          simp [baseVal, hs, upd]
        · have hne : plain a ≠ plain s := by simpa [plain] using e
          rw [if_neg e]
          simp only [baseVal, List.mem_cons, e, false_or]
          by_cases hl : a ∈ ss ∧ labelsOf lv a > 0
          · rw [if_pos hl, if_pos hl, totalOf_upd_plain _ _ _ _ hl.2]
          · rw [if_neg hl, if_neg hl]; simp [upd, hne]
    -- now sum over the head block
      rw [sumMap_congr step]
      rw [prod_linear_once args s (honce s (List.mem_cons_self) hpos)]
      congr 1
      apply List.map_congr_left
      intro a _
      by_cases e : a = s
      · subst e
        simp [baseVal, hpos, totalOf_pos _ _ hpos]
      · simp [e]


/-! ### slices -/

theorem splitLabel_length (l : Label) (ns : List Nat) : (splitLabel l ns).length = ns.length := by
  induction ns generalizing l with
  | nil => simp [splitLabel]
  | cons n ns ih => simp [splitLabel, ih]

theorem splitLabel_append (w ext : Label) (ns : List Nat) (h : ns.sum ≤ w.length) :
    splitLabel (w ++ ext) ns = splitLabel w ns := by
  induction ns generalizing w with
  | nil => simp [splitLabel]
  | cons n ns ih =>
    simp only [List.sum_cons] at h
    simp only [splitLabel]
    rw [List.take_append_of_le_length (by omega), List.drop_append_of_le_length (by omega)]
    rw [ih (w.drop n) (by simp; omega)]

theorem splitLabel_zip_le {α} (f : α → Nat) (cs : List α) (l : Label) :
    ∀ p ∈ cs.zip (splitLabel l (cs.map f)), p.2.length ≤ f p.1 := by
  induction cs generalizing l with
  | nil => simp [splitLabel]
  | cons c cs ih =>
    intro p hp
    simp only [List.map_cons, splitLabel, List.zip_cons_cons, List.mem_cons] at hp
    rcases hp with rfl | hp
    · simp; omega
    · exact ih _ p hp

theorem splitLabel_zip_eq {α} (f : α → Nat) (cs : List α) (l : Label)
    (h : (cs.map f).sum ≤ l.length) :
    ∀ p ∈ cs.zip (splitLabel l (cs.map f)), p.2.length = f p.1 := by
  induction cs generalizing l with
  | nil => simp [splitLabel]
  | cons c cs ih =>
    intro p hp
    simp only [List.map_cons, List.sum_cons] at h
    simp only [List.map_cons, splitLabel, List.zip_cons_cons, List.mem_cons] at hp
    rcases hp with rfl | hp
    · simp; omega
    · exact ih _ (by simp; omega) p hp

/-! ### the `replacements` dict -/

theorem zip_assignLabels (cs : List Name) (bl : List Label) :
    cs.zip (assignLabels cs bl) = (cs.zip bl).map (fun p => (p.1, assignLabel p.1 p.2)) := by
  induction cs generalizing bl with
  | nil => simp [assignLabels]
  | cons c cs ih =>
    cases bl with
    | nil => simp [assignLabels]
    | cons b bl =>
      simp only [assignLabels, List.zipWith_cons_cons, List.zip_cons_cons, List.map_cons] at ih ⊢
      rw [ih]

theorem lookup_none_of_forall {β} (l : List (Name × β)) (a : Name) (h : ∀ p ∈ l, p.1 ≠ a) :
    l.lookup a = none := by
  induction l with
  | nil => rfl
  | cons p t ih =>
    obtain ⟨k, v⟩ := p
    have hk : k ≠ a := h (k, v) (List.mem_cons_self)
    have : (a == k) = false := by simpa using fun e => hk e.symm
    simp only [List.lookup, this]
    exact ih (fun q hq => h q (List.mem_cons_of_mem _ hq))

theorem lookup_const_of_forall {β} (l : List (Name × β)) (a : Name) (v : β)
    (h : ∀ p ∈ l, p.1 = a → p.2 = v) : l.lookup a = some v ∨ l.lookup a = none := by
  induction l with
  | nil => exact Or.inr rfl
  | cons p t ih =>
    obtain ⟨k, x⟩ := p
    by_cases hk : k = a
    · subst hk
      have : x = v := h (k, x) (List.mem_cons_self) rfl
      subst this
      left; simp [List.lookup]
    · have : (a == k) = false := by simpa using fun e => hk e.symm
      simp only [List.lookup, this]
      exact ih (fun q hq => h q (List.mem_cons_of_mem _ hq))

theorem lookup_reverse_of_count_le_one {β} (l : List (Name × β)) (a : Name)
    (h : (l.map (·.1)).count a ≤ 1) : l.reverse.lookup a = l.lookup a := by
  induction l with
  | nil => rfl
  | cons p t ih =>
    obtain ⟨k, x⟩ := p
    simp only [List.reverse_cons, List.lookup_append]
    simp only [List.map_cons, List.count_cons] at h
    by_cases hk : k = a
    · subst hk
      have h0 : (t.map (·.1)).count k = 0 := by simpa using h
      have hnone : t.reverse.lookup k = none := by
        apply lookup_none_of_forall
        intro q hq e
        have : q.1 ∈ t.map (·.1) := List.mem_map.mpr ⟨q, by simpa using hq, rfl⟩
        rw [e] at this
        exact absurd (List.count_pos_iff.mpr this) (by omega)
      simp [hnone, List.lookup]
    · have hb : (a == k) = false := by simpa using fun e => hk e.symm
      have hk' : (k == a) = false := by simpa using hk
      simp only [hk', Bool.false_eq_true, if_false, Nat.add_zero] at h
      rw [ih h]
      simp [List.lookup, hb]

/-- looking `a` up in `dict(zip(cs, new names))` when every block of `a` is non-empty -/
theorem lookup_zip_assign_nonempty (cs : List Name) (bl : List Label) (a : Name)
    (h : ∀ p ∈ cs.zip bl, p.1 = a → p.2 ≠ []) :
    ((cs.zip (assignLabels cs bl)).lookup a).getD (plain a) = argOf cs bl a := by
  induction cs generalizing bl with
  | nil => simp [assignLabels, argOf]
  | cons c cs ih =>
    cases bl with
    | nil => simp [assignLabels, argOf]
    | cons b bl =>
      simp only [assignLabels, List.zipWith_cons_cons, List.zip_cons_cons, argOf]
      by_cases hc : c = a
      · subst hc
        have hb : b ≠ [] := h (c, b) (by simp) rfl
        simp [List.lookup, hb, assignLabel]
      · have hb : (a == c) = false := by simpa using fun e => hc e.symm
        simp only [List.lookup, hb, hc, false_and, if_false]
        exact ih bl (fun p hp => h p (by simp [hp]))

theorem argOf_of_empty (cs : List Name) (bl : List Label) (a : Name)
    (h : ∀ p ∈ cs.zip bl, p.1 = a → p.2 = []) : argOf cs bl a = plain a := by
  induction cs generalizing bl with
  | nil => simp [argOf]
  | cons c cs ih =>
    cases bl with
    | nil => simp [argOf]
    | cons b bl =>
      simp only [argOf]
      have : ¬ (c = a ∧ b ≠ []) := by
        rintro ⟨e, hb⟩
        exact hb (h (c, b) (by simp) e)
      rw [if_neg this]
      exact ih bl (fun p hp => h p (by simp [hp]))

theorem count_fst_zip_le {β} (cs : List Name) (bl : List β) (a : Name) :
    ((cs.zip bl).map (fun p => p.1)).count a ≤ cs.count a := by
  induction cs generalizing bl with
  | nil => simp
  | cons c cs ih =>
    cases bl with
    | nil => simp
    | cons b bl =>
      simp only [List.zip_cons_cons, List.map_cons, List.count_cons]
      have := ih bl
      omega

/-! ### `mapM` in `Except` -/

inductive Fa2 {α β} (R : α → β → Prop) : List α → List β → Prop where
  | nil : Fa2 R [] []
  | cons {x y xs ys} : R x y → Fa2 R xs ys → Fa2 R (x :: xs) (y :: ys)

theorem mapM_ok_forall₂ {α β ε} (f : α → Except ε β) (l : List α) (ys : List β)
    (h : l.mapM f = .ok ys) : Fa2 (fun x y => f x = .ok y) l ys := by
  induction l generalizing ys with
  | nil =>
    simp only [List.mapM_nil, pure, Except.pure, Except.ok.injEq] at h
    subst h; exact .nil
  | cons x xs ih =>
    rw [List.mapM_cons] at h
    cases hx : f x with
    | error e => rw [hx] at h; simp [bind, Except.bind] at h
    | ok y =>
      rw [hx] at h
      cases hxs : xs.mapM f with
      | error e => rw [hxs] at h; simp [bind, Except.bind] at h
      | ok ys' =>
        rw [hxs] at h
        simp only [bind, Except.bind, pure, Except.pure, Except.ok.injEq] at h
        subst h
        exact .cons hx (ih ys' hxs)

theorem mapM_error_exists {α β ε} (f : α → Except ε β) (l : List α) (e : ε)
    (h : l.mapM f = .error e) : ∃ x ∈ l, f x = .error e := by
  induction l with
  | nil => simp [pure, Except.pure] at h
  | cons x xs ih =>
    rw [List.mapM_cons] at h
    cases hx : f x with
    | error e' =>
      rw [hx] at h; simp only [bind, Except.bind, Except.error.injEq] at h
      subst h; exact ⟨x, List.mem_cons_self, hx⟩
    | ok y =>
      rw [hx] at h
      cases hxs : xs.mapM f with
      | error e' =>
        rw [hxs] at h; simp only [bind, Except.bind, Except.error.injEq] at h
        subst h
        obtain ⟨z, hz, hfz⟩ := ih hxs
        exact ⟨z, List.mem_cons_of_mem _ hz, hfz⟩
      | ok ys' => rw [hxs] at h; simp [bind, Except.bind, pure, Except.pure] at h

theorem mapM_ok_of_forall {α β ε} (f : α → Except ε β) (g : α → β) (l : List α)
    (h : ∀ x ∈ l, f x = .ok (g x)) : l.mapM f = .ok (l.map g) := by
  induction l with
  | nil => rfl
  | cons x xs ih =>
    rw [List.mapM_cons, h x List.mem_cons_self, ih (fun z hz => h z (List.mem_cons_of_mem _ hz))]
    rfl

theorem forall₂_length {α β} {R : α → β → Prop} {l : List α} {ys : List β}
    (h : Fa2 R l ys) : ys.length = l.length := by
  induction h with
  | nil => rfl
  | cons _ _ ih => simp [ih]

theorem forall₂_map_sum {α β} {R : α → β → Prop} {l : List α} {ys : List β} (g : β → Rat)
    (k : α → Rat) (h : Fa2 R l ys) (hg : ∀ x y, x ∈ l → R x y → g y = k x) :
    (ys.map g).sum = (l.map k).sum := by
  induction h with
  | nil => rfl
  | cons hxy _ ih =>
    simp only [List.map_cons, List.sum_cons]
    rw [hg _ _ List.mem_cons_self hxy, ih (fun x y hx => hg x y (List.mem_cons_of_mem _ hx))]

theorem forall₂_map_eq {α β γ} {R : α → β → Prop} {l : List α} {ys : List β} (g : β → γ)
    (k : α → γ) (h : Fa2 R l ys) (hg : ∀ x y, x ∈ l → R x y → g y = k x) :
    ys.map g = l.map k := by
  induction h with
  | nil => rfl
  | cons hxy _ ih =>
    simp only [List.map_cons]
    rw [hg _ _ List.mem_cons_self hxy, ih (fun x y hx => hg x y (List.mem_cons_of_mem _ hx))]

theorem forall₂_forall {α β} {R : α → β → Prop} {l : List α} {ys : List β}
    (h : Fa2 R l ys) : ∀ y ∈ ys, ∃ x ∈ l, R x y := by
  induction h with
  | nil => simp
  | cons hxy _ ih =>
    intro y hy
    rcases List.mem_cons.mp hy with rfl | hy
    · exact ⟨_, List.mem_cons_self, hxy⟩
    · obtain ⟨x, hx, hr⟩ := ih y hy
      exact ⟨x, List.mem_cons_of_mem _ hx, hr⟩

/-! ### `_map_substrates_to_products` -/

theorem msp_ok_iff (s : Label) (lm : List Nat) (p : Label) :
    mapSubstratesToProducts s lm = .ok p ↔
      (∀ i ∈ lm, i < s.length) ∧ p = lm.map (fun i => s.getD i false) := by
  unfold mapSubstratesToProducts
  induction lm generalizing p with
  | nil => simp [pure, Except.pure, eq_comm]
  | cons i lm ih =>
    rw [List.mapM_cons]
    by_cases hi : i < s.length
    · have hc : charAt s i = .ok (s.getD i false) := by
        simp [charAt, List.getElem?_eq_getElem hi, List.getD_eq_getElem?_getD]
      rw [hc]
      cases hrest : List.mapM (charAt s) lm with
      | error e =>
        simp only [bind, Except.bind, reduceCtorEq, false_iff, not_and]
        intro hall _
        have := (ih (lm.map fun i => s.getD i false)).mpr
          ⟨fun j hj => hall j (List.mem_cons_of_mem _ hj), rfl⟩
        rw [hrest] at this; cases this
      | ok q =>
        have hq := (ih q).mp hrest
        simp only [bind, Except.bind, pure, Except.pure, Except.ok.injEq, List.mem_cons,
          forall_eq_or_imp, List.map_cons]
        constructor
        · rintro rfl
          exact ⟨⟨hi, hq.1⟩, by rw [hq.2]⟩
        · rintro ⟨_, rfl⟩
          rw [hq.2]
    · have hc : charAt s i = .error .indexError := by
        simp [charAt, List.getElem?_eq_none (Nat.le_of_not_lt hi)]
      rw [hc]
      simp only [bind, Except.bind, reduceCtorEq, List.mem_cons, forall_eq_or_imp, false_iff,
        not_and]
      intro h; exact absurd h.1 hi

theorem msp_error (s : Label) (lm : List Nat) (e : LErr)
    (h : mapSubstratesToProducts s lm = .error e) : e = .indexError := by
  obtain ⟨i, _, hi⟩ := mapM_error_exists _ _ _ h
  unfold charAt at hi
  split at hi <;> simp at hi
  exact hi.symm


/-! ### `_create_isotopomer_reactions` unfolded -/

theorem Fa2.imp {α β} {R S : α → β → Prop} (hRS : ∀ x y, R x y → S x y) {l : List α} {ys : List β}
    (h : Fa2 R l ys) : Fa2 S l ys := by
  induction h with
  | nil => exact .nil
  | cons hxy _ ih => exact .cons (hRS _ _ hxy) ih

/-- the reaction generated for substrate pattern `w` once the product suffix `ps` is known -/
def isoRxnOf (r : BRxn) (bs bp : List Name) (ls lp : List Nat) (ext w ps : Label) : LRxn :=
  { name := ⟨r.name, some (w ++ ext)⟩
    fn := r.fn
    args := replaceArgs bs (assignLabels bs (splitLabel (w ++ ext) ls)) bp
              (assignLabels bp (splitLabel ps lp)) [] r.args
    stoich := repack (assignLabels bs (splitLabel (w ++ ext) ls))
              (assignLabels bp (splitLabel ps lp)) }

theorem isoReaction_ok {r : BRxn} {lm : List Nat} {bs bp : List Name} {ls lp : List Nat}
    {ext w : Label} {rx : LRxn} (h : isoReaction r lm bs bp ls lp ext w = .ok rx) :
    ∃ ps, mapSubstratesToProducts (w ++ ext) lm = .ok ps ∧ rx = isoRxnOf r bs bp ls lp ext w ps := by
  unfold isoReaction at h
  dsimp only at h
  cases hm : mapSubstratesToProducts (w ++ ext) lm with
  | error e => rw [hm] at h; simp [bind, Except.bind] at h
  | ok ps =>
    rw [hm] at h
    simp only [bind, Except.bind, pure, Except.pure, Except.ok.injEq] at h
    exact ⟨ps, rfl, h.symm⟩

theorem isoReaction_error {r : BRxn} {lm : List Nat} {bs bp : List Name} {ls lp : List Nat}
    {ext w : Label} {e : LErr} (h : isoReaction r lm bs bp ls lp ext w = .error e) :
    e = .indexError := by
  unfold isoReaction at h
  dsimp only at h
  cases hm : mapSubstratesToProducts (w ++ ext) lm with
  | error e' =>
    rw [hm] at h; simp only [bind, Except.bind, Except.error.injEq] at h
    subst h; exact msp_error _ _ _ hm
  | ok ps => rw [hm] at h; simp [bind, Except.bind, pure, Except.pure] at h

theorem isotopomerReactions_eq (lv : List (Name × Nat)) (r : BRxn) (lm : List Nat) :
    isotopomerReactions lv r lm =
      if lm.length < nSub lv r then .error .valueError
      else (patterns (nSub lv r)).mapM (isoReaction r lm (subsOf r) (prodsOf r)
        (labelsPer lv (subsOf r)) (labelsPer lv (prodsOf r)) (extOf lv r)) := by
  simp only [isotopomerReactions, subsOf, prodsOf, nSub, nProd, extOf]
  rfl

theorem isotopomerReactions_ok {lv : List (Name × Nat)} {r : BRxn} {lm : List Nat} {rs : List LRxn}
    (h : isotopomerReactions lv r lm = .ok rs) :
    nSub lv r ≤ lm.length ∧
    Fa2 (fun w rx => ∃ ps, mapSubstratesToProducts (w ++ extOf lv r) lm = .ok ps ∧
          rx = isoRxnOf r (subsOf r) (prodsOf r) (labelsPer lv (subsOf r))
                (labelsPer lv (prodsOf r)) (extOf lv r) w ps)
      (patterns (nSub lv r)) rs := by
  rw [isotopomerReactions_eq] at h
  split at h
  · cases h
  · refine ⟨by omega, ?_⟩
    exact Fa2.imp (fun _ _ hxy => isoReaction_ok hxy) (mapM_ok_forall₂ _ _ _ h)

/-! ### the collapse -/

theorem distinct_spec {lv : List (Name × Nat)} {r : BRxn} (hd : DistinctOccurrences lv r)
    {a : Name} (ha : a ∈ r.args) (hl : labelsOf lv a > 0) :
    (subsOf r ++ prodsOf r).count a ≤ 1 := by
  have := List.all_eq_true.mp hd a ha
  simp only [Bool.or_eq_true, beq_iff_eq, decide_eq_true_eq] at this
  rcases this with h | h
  · omega
  · exact h

/-! ### `_repack_stoichiometries` -/

theorem coefOf_bump (m : List (LName × Int)) (k n : LName) (d : Int) :
    coefOf (bump m k d) n = coefOf m n + (if k = n then d else 0) := by
  induction m with
  | nil =>
    by_cases h : k = n
    · subst h; simp [bump, coefOf, List.lookup]
    · have : (n == k) = false := by simpa using fun e => h e.symm
      simp [bump, coefOf, List.lookup, this, h]
  | cons p t ih =>
    obtain ⟨k', v⟩ := p
    simp only [bump]
    by_cases hk : k' = k
    · subst hk
      by_cases h : k' = n
      · subst h; simp [coefOf, List.lookup]
      · have : (n == k') = false := by simpa using fun e => h e.symm
        simp [coefOf, List.lookup, this, h]
    · rw [if_neg hk]
      by_cases h : n = k'
      · subst h
        have : ¬ k = n := fun e => hk e.symm
        simp [coefOf, List.lookup, this]
      · have hb : (n == k') = false := by simpa using h
        simp only [coefOf, List.lookup, hb] at ih ⊢
        exact ih

theorem coefOf_foldl_bump (l : List LName) (m : List (LName × Int)) (n : LName) (d : Int) :
    coefOf (l.foldl (fun m k => bump m k d) m) n = coefOf m n + d * (l.count n : Int) := by
  induction l generalizing m with
  | nil => simp
  | cons k l ih =>
    simp only [List.foldl_cons, ih, coefOf_bump, List.count_cons]
    by_cases h : k = n
    · subst h; simp; grind
    · have : (k == n) = false := by simpa using h
      simp [h, this]

/-- the coefficient of a name = (its occurrences among the new products) − (among the new
    substrates) -/
theorem repack_coef (ns np : List LName) (n : LName) :
    coefOf (repack ns np) n = (np.count n : Int) - (ns.count n : Int) := by
  simp only [repack, coefOf_foldl_bump]
  simp [coefOf]; omega

theorem bump_keys_nodup (m : List (LName × Int)) (k : LName) (d : Int)
    (h : (m.map (·.1)).Nodup) : ((bump m k d).map (·.1)).Nodup ∧
      ∀ x, x ∈ (bump m k d).map (·.1) ↔ x = k ∨ x ∈ m.map (·.1) := by
  induction m with
  | nil => simp [bump]
  | cons p t ih =>
    obtain ⟨k', v⟩ := p
    simp only [List.map_cons, List.nodup_cons] at h
    obtain ⟨ih1, ih2⟩ := ih h.2
    simp only [bump]
    by_cases hk : k' = k
    · subst hk
      simp only [if_true, List.map_cons, List.nodup_cons]
      exact ⟨h, by intro x; simp⟩
    · rw [if_neg hk]
      simp only [List.map_cons, List.nodup_cons, List.mem_cons]
      refine ⟨⟨?_, ih1⟩, ?_⟩
      · rw [ih2]; rintro (e | e)
        · exact hk e
        · exact h.1 e
      · intro x; rw [ih2]
        constructor
        · rintro (e | e | e) <;> simp [e]
        · rintro (e | e | e) <;> simp [e]

theorem foldl_bump_keys_nodup (l : List LName) (m : List (LName × Int)) (d : Int)
    (h : (m.map (·.1)).Nodup) : ((l.foldl (fun m k => bump m k d) m).map (·.1)).Nodup := by
  induction l generalizing m with
  | nil => exact h
  | cons k l ih => exact ih _ (bump_keys_nodup m k d h).1

theorem repack_keys_nodup (ns np : List LName) : ((repack ns np).map (·.1)).Nodup := by
  unfold repack
  apply foldl_bump_keys_nodup
  apply foldl_bump_keys_nodup
  simp

/-! ### counting over a duplicate-free list of names -/

theorem sum_indicator_nodup {α} [DecidableEq α] (L : List α) (hL : L.Nodup) (y : α) :
    (L.map fun n => if y = n then (1 : Int) else 0).sum = if y ∈ L then 1 else 0 := by
  induction L with
  | nil => simp
  | cons a L ih =>
    simp only [List.nodup_cons] at hL
    simp only [List.map_cons, List.sum_cons, ih hL.2, List.mem_cons]
    by_cases h : y = a
    · subst h; simp [hL.1]
    · simp [h]

theorem sum_count_nodup {α} [DecidableEq α] (L : List α) (hL : L.Nodup) (l : List α) :
    (L.map fun n => (l.count n : Int)).sum = ((l.filter fun y => decide (y ∈ L)).length : Int) := by
  induction l with
  | nil => simp; induction L with
    | nil => rfl
    | cons a L ih => simp_all
  | cons y l ih =>
    have e : ∀ n, ((y :: l).count n : Int) = (l.count n : Int) + (if y = n then 1 else 0) := by
      intro n; rw [List.count_cons]; by_cases h : y = n <;> simp [h]
    simp only [e]
    have split : (L.map fun n => (l.count n : Int) + (if y = n then 1 else 0)).sum
        = (L.map fun n => (l.count n : Int)).sum + (L.map fun n => if y = n then (1 : Int) else 0).sum := by
      clear ih hL e
      induction L with
      | nil => simp
      | cons a L ih => simp only [List.map_cons, List.sum_cons, ih]; omega
    rw [split, ih, sum_indicator_nodup L hL y, List.filter_cons]
    by_cases h : y ∈ L <;> simp [h]

/-! ### `_unpack_stoichiometries` -/

theorem unpack_net (st : List (Name × Int)) (x : Name) :
    (((unpackStoich st).2.count x : Int)) - ((unpackStoich st).1.count x : Int) = netStoich st x := by
  induction st with
  | nil => simp [unpackStoich, netStoich]
  | cons kv rest ih =>
    obtain ⟨k, v⟩ := kv
    simp only [unpackStoich, netStoich, List.map_cons, List.sum_cons] at ih ⊢
    by_cases hv : v < 0
    · simp only [hv, if_true, List.count_append, List.count_replicate]
      by_cases hk : k = x
      · subst hk; simp; omega
      · have : (k == x) = false := by simpa using hk
        simp [hk, this]; omega
    · simp only [hv, if_false, List.count_append, List.count_replicate]
      by_cases hk : k = x
      · subst hk; simp; omega
      · have : (k == x) = false := by simpa using hk
        simp [hk, this]; omega


/-! ### generated names are isotopomers of their base compound -/

theorem binaryLabels_nodup (x : Name) (n : Nat) : (binaryLabels x n).Nodup := by
  unfold binaryLabels
  split
  · exact nodup_map_inj (by intro a b h; simpa using h) (patterns_nodup n)
  · simp

theorem mem_binaryLabels_base {x : Name} {n : Nat} {m : LName} (h : m ∈ binaryLabels x n) :
    m.base = x := by
  unfold binaryLabels at h
  split at h
  · obtain ⟨w, _, rfl⟩ := List.mem_map.mp h; rfl
  · simp at h; subst h; rfl

theorem assignLabel_mem (c : Name) (b : Label) : assignLabel c b ∈ binaryLabels c b.length := by
  unfold assignLabel binaryLabels
  by_cases hb : b = []
  · subst hb; simp
  · have : b.length > 0 := List.length_pos_iff.mpr hb
    simp only [ne_eq, hb, not_false_eq_true, if_true, this]
    exact List.mem_map.mpr ⟨b, mem_patterns.mpr rfl, rfl⟩

theorem assignLabel_base (c : Name) (b : Label) : (assignLabel c b).base = c := by
  unfold assignLabel; split <;> rfl

/-- among new names built from full-length blocks, those that are isotopomers of `x` are
    exactly the occurrences of `x` -/
theorem filter_assignLabels_length (lv : List (Name × Nat)) (cs : List Name) (bl : List Label)
    (hlen : bl.length = cs.length)
    (hfull : ∀ p ∈ cs.zip bl, p.2.length = labelsOf lv p.1) (x : Name) :
    ((assignLabels cs bl).filter fun y => decide (y ∈ binaryLabels x (labelsOf lv x))).length
      = cs.count x := by
  induction cs generalizing bl with
  | nil => simp [assignLabels]
  | cons c cs ih =>
    cases bl with
    | nil => simp at hlen
    | cons b bl =>
      simp only [List.length_cons, Nat.add_right_cancel_iff] at hlen
      have hb : b.length = labelsOf lv c := hfull (c, b) (by simp)
      have ih' := ih bl hlen (fun p hp => hfull p (by simp [hp]))
      simp only [assignLabels, List.zipWith_cons_cons] at ih' ⊢
      rw [List.filter_cons, List.count_cons]
      by_cases hc : c = x
      · subst hc
        have : assignLabel c b ∈ binaryLabels c (labelsOf lv c) := hb ▸ assignLabel_mem c b
        simp [this, ih']
      · have : assignLabel c b ∉ binaryLabels x (labelsOf lv x) := by
          intro hm
          have := mem_binaryLabels_base hm
          rw [assignLabel_base] at this
          exact hc this
        have hcx : (c == x) = false := by simpa using hc
        simp [this, ih', hcx]

/-! ### sums over reactions and names -/

theorem sum_map_add {α} (l : List α) (f g : α → Rat) :
    (l.map fun a => f a + g a).sum = (l.map f).sum + (l.map g).sum := by
  induction l with
  | nil => simp; grind
  | cons a l ih => simp only [List.map_cons, List.sum_cons, ih]; grind

theorem sum_map_mul_right {α} (l : List α) (f : α → Rat) (c : Rat) :
    (l.map fun a => f a * c).sum = (l.map f).sum * c := by
  induction l with
  | nil => simp
  | cons a l ih => simp only [List.map_cons, List.sum_cons, ih]; grind

theorem sum_map_mul_left {α} (l : List α) (f : α → Rat) (c : Rat) :
    (l.map fun a => c * f a).sum = c * (l.map f).sum := by
  induction l with
  | nil => simp
  | cons a l ih => simp only [List.map_cons, List.sum_cons, ih]; grind

theorem sum_map_zero {α} (l : List α) : (l.map fun _ => (0 : Rat)).sum = 0 := by
  induction l with
  | nil => rfl
  | cons a l ih => simp only [List.map_cons, List.sum_cons, ih]; grind

theorem sum_swap {α β} (L : List α) (rs : List β) (f : α → β → Rat) :
    (L.map fun n => (rs.map fun rx => f n rx).sum).sum
      = (rs.map fun rx => (L.map fun n => f n rx).sum).sum := by
  induction rs with
  | nil => simp [sum_map_zero]
  | cons rx rs ih =>
    simp only [List.map_cons, List.sum_cons]
    rw [sum_map_add, ih]

theorem intCast_sum (l : List Int) :
    ((l.sum : Int) : Rat) = (l.map fun (i : Int) => (i : Rat)).sum := by
  induction l with
  | nil => simp
  | cons a l ih => simp only [List.sum_cons, List.map_cons, ← ih, Rat.intCast_add]


theorem sum_map_sub_int {α} (l : List α) (f g : α → Int) :
    (l.map fun a => f a - g a).sum = (l.map f).sum - (l.map g).sum := by
  induction l with
  | nil => simp
  | cons a l ih => simp only [List.map_cons, List.sum_cons, ih]; omega

theorem gen_of_mem {lv : List (Name × Nat)} {r : BRxn} {lm : List Nat} {rs : List LRxn}
    (h : isotopomerReactions lv r lm = .ok rs) :
    ∀ rx ∈ rs, ∃ w ∈ patterns (nSub lv r), ∃ ps,
      mapSubstratesToProducts (w ++ extOf lv r) lm = .ok ps ∧
      rx = isoRxnOf r (subsOf r) (prodsOf r) (labelsPer lv (subsOf r))
            (labelsPer lv (prodsOf r)) (extOf lv r) w ps :=
  forall₂_forall (isotopomerReactions_ok h).2

/-- summed over the isotopomers of `x`, a generated reaction has the base coefficient of `x` -/
theorem unit_stoich_isoRxnOf (lv : List (Name × Nat)) (r : BRxn) (lm : List Nat) (w ps : Label)
    (hw : w ∈ patterns (nSub lv r))
    (hps : mapSubstratesToProducts (w ++ extOf lv r) lm = .ok ps)
    (hwf : nProd lv r ≤ lm.length) (x : Name) :
    ((binaryLabels x (labelsOf lv x)).map
        (coefOf (isoRxnOf r (subsOf r) (prodsOf r) (labelsPer lv (subsOf r))
          (labelsPer lv (prodsOf r)) (extOf lv r) w ps).stoich)).sum
      = netStoich r.stoich x := by
  have hlen : w.length = nSub lv r := mem_patterns.mp hw
  have hpslen : ps.length = lm.length := by
    rw [((msp_ok_iff _ _ _).mp hps).2]; simp
  simp only [isoRxnOf]
  have e : (fun n => coefOf (repack
      (assignLabels (subsOf r) (splitLabel (w ++ extOf lv r) (labelsPer lv (subsOf r))))
      (assignLabels (prodsOf r) (splitLabel ps (labelsPer lv (prodsOf r))))) n)
      = fun n => ((assignLabels (prodsOf r) (splitLabel ps (labelsPer lv (prodsOf r)))).count n : Int)
          - ((assignLabels (subsOf r) (splitLabel w (labelsPer lv (subsOf r)))).count n : Int) := by
    funext n
    rw [repack_coef, splitLabel_append w _ _ (by rw [hlen]; exact Nat.le_refl _)]
  rw [show coefOf (repack
      (assignLabels (subsOf r) (splitLabel (w ++ extOf lv r) (labelsPer lv (subsOf r))))
      (assignLabels (prodsOf r) (splitLabel ps (labelsPer lv (prodsOf r))))) = _ from e]
  rw [sum_map_sub_int, sum_count_nodup _ (binaryLabels_nodup _ _),
    sum_count_nodup _ (binaryLabels_nodup _ _)]
  have h1 := filter_assignLabels_length lv (prodsOf r)
    (splitLabel ps (labelsPer lv (prodsOf r))) (by simp [splitLabel_length, labelsPer])
    (splitLabel_zip_eq (labelsOf lv) (prodsOf r) ps (by
      show (labelsPer lv (prodsOf r)).sum ≤ _; rw [hpslen]; exact hwf)) x
  have h2 := filter_assignLabels_length lv (subsOf r)
    (splitLabel w (labelsPer lv (subsOf r))) (by simp [splitLabel_length, labelsPer])
    (splitLabel_zip_eq (labelsOf lv) (subsOf r) w (by
      show (labelsPer lv (subsOf r)).sum ≤ _; rw [hlen]; exact Nat.le_refl _)) x
  rw [h1, h2]
  exact unpack_net r.stoich x

/-! ### initial state -/

theorem setVar_zeros (L : List LName) (hL : L.Nodup) (k : LName) (hk : k ∈ L) (v : Rat) :
    setVar (L.map fun i => (i, (0 : Rat))) k v = L.map fun n => (n, if n = k then v else 0) := by
  induction L with
  | nil => simp at hk
  | cons a L ih =>
    simp only [List.nodup_cons] at hL
    simp only [List.map_cons, setVar]
    by_cases h : a = k
    · subst h
      simp only [if_true, List.cons.injEq, true_and]
      apply List.map_congr_left
      intro n hn
      have : n ≠ a := fun e => hL.1 (e ▸ hn)
      simp [this]
    · have hk' : k ∈ L := by
        rcases List.mem_cons.mp hk with e | e
        · exact absurd e.symm h
        · exact e
      rw [if_neg h, ih hL.2 hk']
      simp [h]

theorem sum_indicator_rat (L : List LName) (hL : L.Nodup) (k : LName) (hk : k ∈ L) (v : Rat) :
    (L.map fun n => if n = k then v else 0).sum = v := by
  induction L with
  | nil => simp at hk
  | cons a L ih =>
    simp only [List.nodup_cons] at hL
    simp only [List.map_cons, List.sum_cons]
    by_cases h : a = k
    · subst h
      have : (L.map fun n => if n = a then v else (0 : Rat)) = L.map fun _ => (0 : Rat) := by
        apply List.map_congr_left
        intro n hn
        have : n ≠ a := fun e => hL.1 (e ▸ hn)
        simp [this]
      rw [this, sum_map_zero]; simp [Rat.add_zero]
    · have hk' : k ∈ L := by
        rcases List.mem_cons.mp hk with e | e
        · exact absurd e.symm h
        · exact e
      rw [if_neg h, ih hL.2 hk', Rat.zero_add]

theorem initSuffix_length (n : Nat) (pos : List Nat) : (initSuffix n pos).length = n := by
  simp [initSuffix]

theorem patterns_head (n : Nat) : (patterns n).head? = some (List.replicate n false) := by
  induction n with
  | zero => rfl
  | succ n ih =>
    simp only [patterns]
    cases hp : patterns n with
    | nil => rw [hp] at ih; simp at ih
    | cons w ws =>
      rw [hp] at ih
      simp only [List.head?_cons, Option.some.injEq] at ih
      simp [ih, List.replicate_succ]

theorem binaryLabels_labelsOf (lv : List (Name × Nat)) (k : Name) (h : lv.lookup k = none) :
    binaryLabels k (labelsOf lv k) = [plain k] := by
  simp [labelsOf, h, binaryLabels, plain]

/-- the variables a base variable contributes: exactly its isotopomers, all zero except the
    target isotopomer, which carries the base amount -/
theorem initBlock_eq (lv : List (Name × Nat)) (initLabels : List (Name × List Nat)) (k : Name)
    (v : Rat) :
    ∃ target ∈ binaryLabels k (labelsOf lv k),
      initBlock lv initLabels k v
        = (binaryLabels k (labelsOf lv k)).map (fun n => (n, if n = target then v else 0)) ∧
      (∀ n pos, lv.lookup k = some n → initLabels.lookup k = some pos →
        target = assignLabel k (initSuffix n pos)) ∧
      (∀ n, lv.lookup k = some n → initLabels.lookup k = none →
        target = assignLabel k (List.replicate n false)) := by
  unfold initBlock
  cases hl : lv.lookup k with
  | none =>
    refine ⟨plain k, by simp [binaryLabels_labelsOf lv k hl], ?_, by simp, by simp⟩
    simp [binaryLabels_labelsOf lv k hl]
  | some n =>
    have hn : labelsOf lv k = n := by simp [labelsOf, hl]
    rw [hn]
    cases hi : initLabels.lookup k with
    | none =>
      have hhead : (binaryLabels k n).headD (plain k) = assignLabel k (List.replicate n false) := by
        unfold binaryLabels assignLabel
        by_cases h0 : n > 0
        · have := patterns_head n
          cases hp : patterns n with
          | nil => rw [hp] at this; simp at this
          | cons w ws =>
            rw [hp] at this
            simp only [List.head?_cons, Option.some.injEq] at this
            have hne : List.replicate n false ≠ [] := by
              intro e; have := congrArg List.length e; simp at this; omega
            simp [h0, this, hne]
        · have : n = 0 := by omega
          subst this; simp [plain]
      have hmem : assignLabel k (List.replicate n false) ∈ binaryLabels k n := by
        have := assignLabel_mem k (List.replicate n false)
        simpa using this
      refine ⟨_, hmem, ?_, by simp, by intro n' h; cases h; simp⟩
      simp only [hhead]
      exact setVar_zeros _ (binaryLabels_nodup k n) _ hmem v
    | some pos =>
      have hmem : assignLabel k (initSuffix n pos) ∈ binaryLabels k n := by
        have := assignLabel_mem k (initSuffix n pos)
        rwa [initSuffix_length] at this
      refine ⟨_, hmem, ?_, by intro n' pos' h h'; cases h; cases h'; rfl, by simp⟩
      exact setVar_zeros _ (binaryLabels_nodup k n) _ hmem v

/-! ### whole model -/

theorem rhsOf_append (a b : List LRxn) (σ : LName → Rat) (n : LName) :
    rhsOf (a ++ b) σ n = rhsOf a σ n + rhsOf b σ n := by
  simp [rhsOf, List.map_append, List.sum_append]

theorem rhsOf_flatten_sum (gs : List (List LRxn)) (σ : LName → Rat) (L : List LName) :
    (L.map (rhsOf gs.flatten σ)).sum = (gs.map fun g => (L.map (rhsOf g σ)).sum).sum := by
  induction gs with
  | nil =>
    have : rhsOf [] σ = fun _ => (0 : Rat) := by funext n; rfl
    simp [this, sum_map_zero]
  | cons g gs ih =>
    simp only [List.flatten_cons, List.map_cons, List.sum_cons, ← ih]
    rw [← sum_map_add]
    apply congrArg
    apply List.map_congr_left
    intro n _
    exact rhsOf_append g gs.flatten σ n

theorem totalsEnv_eq_totalName (lv : List (Name × Nat)) (σ : LName → Rat)
    (hσ : ∀ k n, lv.lookup k = some n → σ (plain (k ++ "__total")) = totalOf σ k n) (a : Name) :
    totalsEnv lv σ a = σ (totalName lv a) := by
  unfold totalsEnv totalName labelsOf
  cases h : lv.lookup a with
  | none => simp
  | some n =>
    simp only [Option.getD_some]
    rw [hσ a n h]
    by_cases hn : n > 0
    · simp [hn]
    · have : n = 0 := by omega
      subst this
      simp [totalOf, binaryLabels, plain, Rat.add_zero]

theorem netStoich_eq_lookup (st : List (Name × Int)) (x : Name) (hnd : (st.map (·.1)).Nodup) :
    netStoich st x = (st.lookup x).getD 0 := by
  induction st with
  | nil => simp [netStoich]
  | cons kv rest ih =>
    obtain ⟨k, v⟩ := kv
    simp only [List.map_cons, List.nodup_cons] at hnd
    simp only [netStoich, List.map_cons, List.sum_cons, List.lookup] at ih ⊢
    by_cases e : k = x
    · subst e
      have : ∀ p ∈ rest, ¬ p.1 = k := by
        intro p hp e; exact hnd.1 (List.mem_map.mpr ⟨p, hp, e⟩)
      have hz : (rest.map fun kv => if kv.1 = k then kv.2 else 0) = rest.map fun _ => (0 : Int) := by
        apply List.map_congr_left; intro p hp; simp [this p hp]
      rw [hz]
      have : (rest.map fun _ => (0 : Int)).sum = 0 := by
        clear ih hz this hnd; induction rest with
        | nil => rfl
        | cons a l ih => simp [ih]
      simp [this]
    · have hb : (x == k) = false := by simpa using fun h => e h.symm
      simp only [e, if_false, hb, Int.zero_add]
      exact ih hnd.2

theorem netStoich_zero_of_not_mem (st : List (Name × Int)) (x : Name) (h : ∀ kv ∈ st, kv.1 ≠ x) :
    netStoich st x = 0 := by
  induction st with
  | nil => rfl
  | cons kv rest ih =>
    simp only [netStoich, List.map_cons, List.sum_cons] at ih ⊢
    rw [ih (fun p hp => h p (List.mem_cons_of_mem _ hp))]
    simp [h kv List.mem_cons_self]

theorem lookup_map_plain (st : List (Name × Int)) (x : Name) :
    (st.map fun kv => (plain kv.1, kv.2)).lookup (plain x) = st.lookup x := by
  induction st with
  | nil => rfl
  | cons kv rest ih =>
    obtain ⟨k, v⟩ := kv
    simp only [List.map_cons, List.lookup]
    by_cases e : x = k
    · subst e; simp
    · have h1 : (x == k) = false := by simpa using e
      have h2 : (plain x == plain k) = false := by simpa [plain] using e
      rw [h1, h2]; exact ih

theorem lookup_map_plain_some (st : List (Name × Int)) (x : Name) (w : Label) :
    (st.map fun kv => (plain kv.1, kv.2)).lookup ⟨x, some w⟩ = none := by
  induction st with
  | nil => rfl
  | cons kv rest ih =>
    have : ((⟨x, some w⟩ : LName) == plain kv.1) = false := by simp [plain]
    simp only [List.map_cons, List.lookup, this]; exact ih

theorem unit_stoich_mem {lv : List (Name × Nat)} {r : BRxn} {lm : List Nat} {rs : List LRxn}
    (h : isotopomerReactions lv r lm = .ok rs) (hwf : nProd lv r ≤ lm.length) :
    ∀ rx ∈ rs, ∀ x : Name,
      ((binaryLabels x (labelsOf lv x)).map (coefOf rx.stoich)).sum = netStoich r.stoich x := by
  intro rx hrx x
  obtain ⟨w, hw, ps, hps, rfl⟩ := gen_of_mem h rx hrx
  exact unit_stoich_isoRxnOf lv r lm w ps hw hps hwf x

theorem buildModel_rxns {b : Base} {lv : List (Name × Nat)} {maps : List (Name × List Nat)}
    {il : List (Name × List Nat)} {m : LModel} (hb : buildModel b lv maps il = .ok m) :
    ∃ groups, b.rxns.mapM (buildRxn lv maps) = .ok groups ∧ m.rxns = groups.flatten ∧
      m.vars = buildVars lv il b.vars ∧ m.pars = b.pars := by
  unfold buildModel at hb
  cases hg : b.rxns.mapM (buildRxn lv maps) with
  | error e => rw [hg] at hb; simp [bind, Except.bind] at hb
  | ok groups =>
    rw [hg] at hb
    simp only [bind, Except.bind, pure, Except.pure, Except.ok.injEq] at hb
    subst hb
    exact ⟨groups, rfl, rfl, rfl, rfl⟩

theorem valF_var (m : LModel) (st : List (LName × Rat)) (f : Nat) (n : LName) (v : Rat)
    (h : st.lookup n = some v) : m.valF st (f + 1) n = v := by
  simp [LModel.valF, h]

/-- the driver's environment reads `X__total` as the sum of the isotopomers of `X` (the
    hypothesis of `C05_model_dynamics_partial`), whenever the isotopomers are state variables and
    the total's name is neither a state variable nor a parameter -/
theorem env_totals (m : LModel) (st : List (LName × Rat)) (k : Name) (n : Nat)
    (hst : ∀ iso ∈ binaryLabels k n, (st.lookup iso).isSome)
    (hnot : st.lookup (plain (k ++ "__total")) = none)
    (hp : m.pars.lookup (k ++ "__total") = none)
    (ht : m.totals.lookup (plain (k ++ "__total")) = some (binaryLabels k n)) :
    m.env st (plain (k ++ "__total")) = totalOf (m.env st) k n := by
  unfold LModel.env totalOf
  rw [show m.derived.length + 3 = (m.derived.length + 2) + 1 from rfl]
  conv => lhs; unfold LModel.valF
  have hnot' : st.lookup ({ base := k ++ "__total", lab := none } : LName) = none := hnot
  have ht' : m.totals.lookup ({ base := k ++ "__total", lab := none } : LName) = some (binaryLabels k n) := ht
  simp only [plain, hp, hnot', ht']
  apply congrArg
  apply List.map_congr_left
  intro iso hiso
  obtain ⟨v, hv⟩ := Option.isSome_iff_exists.mp (hst iso hiso)
  rw [valF_var m st _ iso v hv]
  rw [show m.derived.length + 2 = (m.derived.length + 1) + 1 from rfl, valF_var m st _ iso v hv]

end Mxl.C05
