/-
C07: assembly of the equivalence `genRun [] c L [] t xs [] = callRhs c t xs`.  Core Lean only.
-/
import MxlVerif.Lemmas.C07Stoich
namespace Mxl.C07
open Mxl

/-! ### small list facts -/

theorem inj_of_nodup_map {α β} (f : α → β) : ∀ {l : List α}, (l.map f).Nodup →
    ∀ {a b}, a ∈ l → b ∈ l → f a = f b → a = b := by
  intro l; induction l with
  | nil => intro _ a b ha; cases ha
  | cons x xs ih =>
    intro h a b ha hb hab
    simp only [List.map_cons, List.nodup_cons, List.mem_map, not_exists, not_and] at h
    rcases List.mem_cons.mp ha with rfl | ha' <;> rcases List.mem_cons.mp hb with rfl | hb'
    · rfl
    · exact absurd hab.symm (h.1 b hb')
    · exact absurd hab (h.1 a ha')
    · exact ih h.2 ha' hb' hab

theorem foldl_omInsert_lookup : ∀ (ss z : List (Name × Rat)) (a : Name), (ss.map (·.1)).Nodup →
    (ss.foldl (fun d ks => omInsert d ks.1 ks.2) z).lookup a
      = match ss.lookup a with | some x => some x | none => z.lookup a := by
  intro ss; induction ss with
  | nil => intro z a _; rfl
  | cons kx rest ih =>
    intro z a hnd
    obtain ⟨k, x⟩ := kx
    simp only [List.map_cons, List.nodup_cons] at hnd
    simp only [List.foldl_cons]
    rw [ih _ a hnd.2, lookup_omInsert, lookup_cons_eq]
    by_cases hak : a = k
    · subst hak; simp [lookup_none_of_not_mem hnd.1]
    · simp [hak]

theorem lookup_map_dName {vars : List Name} (hinj : (vars.map dName).Nodup) :
    ∀ (ss : List (Name × Rat)) (v : Name), (∀ a ∈ ss.map (·.1), a ∈ vars) → v ∈ vars →
    (ss.map fun ks => (dName ks.1, ks.2)).lookup (dName v) = ss.lookup v := by
  intro ss; induction ss with
  | nil => intro v _ _; rfl
  | cons kx rest ih =>
    intro v hsub hv
    obtain ⟨k, x⟩ := kx
    simp only [List.map_cons, lookup_cons_eq]
    have hk : k ∈ vars := hsub k (by simp)
    by_cases hvk : v = k
    · subst hvk; simp
    · have : dName v ≠ dName k := fun h => hvk (inj_of_nodup_map dName hinj hv hk h)
      simp [hvk, this]
      exact ih v (fun a ha => hsub a (by simp [ha])) hv

theorem nodup_map_dName {vars : List Name} (hinj : (vars.map dName).Nodup) :
    ∀ (l : List Name), l.Nodup → (∀ a ∈ l, a ∈ vars) → (l.map dName).Nodup := by
  intro l; induction l with
  | nil => intro _ _; simp
  | cons x xs ih =>
    intro hnd hsub
    simp only [List.nodup_cons] at hnd
    simp only [List.map_cons, List.nodup_cons, List.mem_map, not_exists, not_and]
    refine ⟨fun y hy hxy => ?_, ih hnd.2 (fun a ha => hsub a (List.mem_cons_of_mem _ ha))⟩
    have := inj_of_nodup_map dName hinj (hsub y (List.mem_cons_of_mem _ hy)) (hsub x List.mem_cons_self) hxy
    exact hnd.1 (this ▸ hy)

theorem mapM_get_ok {e : Env} (g : Name → Rat) : ∀ (l : List Name),
    (∀ a ∈ l, e.lookup a = some (g a)) → l.mapM e.get = .ok (l.map g) := by
  intro l; induction l with
  | nil => intro _; rfl
  | cons a l ih =>
    intro h
    simp [List.mapM_cons, Env.get_of_lookup (h a List.mem_cons_self),
      ih (fun b hb => h b (List.mem_cons_of_mem _ hb)), bind, Except.bind, pure, Except.pure]

theorem mapM_get_ok_map {e : Env} (f : Name → Name) (g : Name → Rat) : ∀ (l : List Name),
    (∀ a ∈ l, e.lookup (f a) = some (g a)) → (l.map f).mapM e.get = .ok (l.map g) := by
  intro l; induction l with
  | nil => intro _; rfl
  | cons a l ih =>
    intro h
    simp [List.mapM_cons, Env.get_of_lookup (h a List.mem_cons_self),
      ih (fun b hb => h b (List.mem_cons_of_mem _ hb)), bind, Except.bind, pure, Except.pure]

theorem rowSums_keys {dep : Env} : ∀ {tab : List (Name × List (Name × Rat))} {ss : List (Name × Rat)},
    rowSums dep tab = .ok ss → ss.map (·.1) = tab.map (·.1) := by
  intro tab; induction tab with
  | nil => intro ss h; simp [rowSums, List.mapM_nil, pure, Except.pure] at h; subst h; rfl
  | cons cr rest ih =>
    intro ss h
    obtain ⟨k, row⟩ := cr
    rw [rowSums_cons] at h
    cases h1 : evalLin dep (liftRow row) 0 with
    | error e => simp [h1] at h
    | ok s =>
      simp only [h1] at h
      cases h2 : rowSums dep rest with
      | error e => simp [h2] at h
      | ok ss' =>
        simp only [h2, Except.ok.injEq] at h
        subst h
        simp [ih h2]

/-! ### lookups in concatenated environments -/

theorem lookup_append_left {β} {A B : List (Name × β)} {a : Name} (h : a ∈ A.map (·.1)) :
    (A ++ B).lookup a = A.lookup a := by
  obtain ⟨v, hv⟩ := lookup_some_of_mem_keys h
  rw [List.lookup_append, hv]; rfl

theorem lookup_append_right {β} {A B : List (Name × β)} {a : Name} (h : a ∉ A.map (·.1)) :
    (A ++ B).lookup a = B.lookup a := by
  rw [List.lookup_append, lookup_none_of_not_mem h]; rfl

theorem keys_reverse {β} (A : List (Name × β)) (a : Name) :
    a ∈ A.reverse.map (·.1) ↔ a ∈ A.map (·.1) := by
  rw [List.map_reverse, List.mem_reverse]

theorem keys_zip {names : List Name} {xs : List Rat} (h : names.length = xs.length) :
    (names.zip xs).map (·.1) = names :=
  List.map_fst_zip (Nat.le_of_eq h)

theorem keys_plainOf {m : List (Name × Val)} (h : noIAB m = true) : (plainOf m).map (·.1) = omKeys m := by
  rw [(plainOf_noIA h).1]; simp [omKeys, List.map_map, Function.comp_def]

/-- the environment of the generated function after unpacking the state and assigning the parameters -/
def envR (P : List (Name × Rat)) (names : List Name) (xs : List Rat) (t : Rat) : Env :=
  P.reverse ++ ((names.zip xs).reverse ++ [("time", t)])

/-! ### the generated program, explicitly -/

theorem no_derivative_name_taken {c : Content} (hok : OkV c) : derivativeNameTaken c (omKeys c.vars) = false := by
  have hn := hok.names
  simp only [derivativeNameTaken, List.any_eq_false, List.contains_eq_mem, decide_eq_true_eq]
  intro v hv hm
  have hd : dName v ∈ (omKeys c.vars).map dName := List.mem_map_of_mem hv
  simp only [List.mem_cons, List.mem_append] at hm
  rcases hm with h | ((h | h) | h) | h
  · exact hn.time_dn (h ▸ hd)
  · exact hn.dn_v _ hd h
  · exact hn.dn_p _ hd h
  · exact hn.dn_d _ hd h
  · exact hn.dn_r _ hd h

theorem zeroVars_of_ok {c : Content} (hok : OkV c) :
    zeroVars (omKeys c.vars) (diffEqs c.rxns)
      = (omKeys c.vars).filter fun v => !(omKeys (diffEqs c.rxns)).contains v := by
  simp [zeroVars, hok.hasEq]

theorem retNames_of_ok {c : Content} (hok : OkV c) :
    retNames (omKeys c.vars) (diffEqs c.rxns) = (omKeys c.vars).map dName := by
  simp [retNames, hok.hasEq]

/-- the variables no reaction changes, with the value their derivative is assigned -/
def zeroRows (c : Content) : List (Name × Rat) :=
  ((omKeys c.vars).filter fun v => !(omKeys (diffEqs c.rxns)).contains v).map fun v => (v, 0)

theorem genModel_ok {c : Content} (hok : OkV c) {L : Lang} (hL : L ≠ .jl) {cache : Cache}
    (hcc : createCache c = .ok cache) (hinit : omKeys cache.init = omKeys c.vars) :
    genModel [] c L [] = .ok
      { lang := L
        unpack := (templateOf L).unpack L
        inputs := omKeys c.vars
        extra := []
        assigns := ((emittedPars c cache).map fun kv => (kv.1, Rhs.const kv.2))
          ++ ((defsOf c cache.order).map fun kf => (kf.1, Rhs.app kf.2))
          ++ ((diffEqs c.rxns).map fun vs => (dName vs.1, Rhs.lin vs.2))
          ++ ((zeroRows c).map fun kv => (dName kv.1, Rhs.const kv.2))
        ret := (omKeys c.vars).map dName
        retUnit := (diffEqs c.rxns).isEmpty
        retBracket := (templateOf L).retBracket
        retLen := if (templateOf L).sizedRet then some (omKeys c.vars).length else none } := by
  unfold genModel
  simp only [hcc, bind, Except.bind, popAll, emitBody_nil hok, pure, Except.pure, hinit, List.map_map,
    Function.comp_def, target_id hL, List.isEmpty_nil, Bool.not_true, Bool.false_and, Bool.false_eq_true, if_false,
    zeroVars_of_ok hok, retNames_of_ok hok, zeroRows, no_derivative_name_taken hok]

theorem zipBind_ok {names : List Name} {xs : List Rat} (h : names.length = xs.length) (env : Env) :
    zipBind names xs env = .ok ((names.zip xs).reverse ++ env) := by
  simp [zipBind, h, Env.setMany_eq, pure, Except.pure]

theorem tmpl_facts {L : Lang} (hL : L ≠ .jl) :
    (templateOf L).unpack L = .bracket ∧ (templateOf L).retBracket = true := by
  cases L <;> first | (exact absurd rfl hL) | decide

theorem z_lookup : ∀ (names : List Name) (a : Name), a ∈ names →
    (names.map fun k => (k, (0 : Rat))).lookup a = some 0 := by
  intro names; induction names with
  | nil => intro a h; cases h
  | cons k ks ih =>
    intro a h
    simp only [List.map_cons, lookup_cons_eq]
    by_cases hak : a = k
    · simp [hak]
    · simp [hak]; exact ih a ((List.mem_cons.mp h).resolve_left hak)

/-! ### an untranslatable function -/

theorem emitBody_bad (bad : List Name) (c : Content) : ∀ (o : List Name),
    (∃ n ∈ o, bad.contains n = true ∧ ((c.derived.lookup n).isSome = true ∨ (c.rxns.lookup n).isSome = true)) →
    ∃ m, emitBody bad c o = .error (.valueError m) := by
  intro o; induction o with
  | nil => intro ⟨n, hn, _⟩; cases hn
  | cons k ks ih =>
    intro ⟨n, hn, hb, hdef⟩
    have hrest : n ∈ ks → ∃ m, emitBody bad c ks = .error (.valueError m) :=
      fun h => ih ⟨n, h, hb, hdef⟩
    simp only [emitBody]
    cases hd : c.derived.lookup k with
    | some f =>
      cases hbk : bad.contains k with
      | true => exact ⟨k, by simp⟩
      | false =>
        have hnk : n ≠ k := fun h => by rw [h, hbk] at hb; cases hb
        obtain ⟨m, hm⟩ := hrest ((List.mem_cons.mp hn).resolve_left hnk)
        exact ⟨m, by simp [hm, bind, Except.bind]⟩
    | none =>
      cases hr : c.rxns.lookup k with
      | some r =>
        cases hbk : bad.contains k with
        | true => exact ⟨k, by simp⟩
        | false =>
          have hnk : n ≠ k := fun h => by rw [h, hbk] at hb; cases hb
          obtain ⟨m, hm⟩ := hrest ((List.mem_cons.mp hn).resolve_left hnk)
          exact ⟨m, by simp [hm, bind, Except.bind]⟩
      | none =>
        have hnk : n ≠ k := fun h => by
          subst h; rcases hdef with h1 | h1 <;> simp [hd, hr] at h1
        simpa using hrest ((List.mem_cons.mp hn).resolve_left hnk)

theorem genModel_raises (bad : List Name) (c : Content) (L : Lang) {cache : Cache}
    (hcc : createCache c = .ok cache) {n : Name} (hn : n ∈ cache.order) (hb : bad.contains n = true)
    (hdef : (c.derived.lookup n).isSome = true ∨ (c.rxns.lookup n).isSome = true) :
    ∃ m, genModel bad c L [] = .error (.valueError m) := by
  obtain ⟨m, hm⟩ := emitBody_bad bad c cache.order ⟨n, hn, hb, hdef⟩
  exact ⟨m, by simp [genModel, hcc, popAll, hm, bind, Except.bind, pure, Except.pure]⟩

/-! ### main theorem -/

/-- second half of the equivalence: given that the run environment evaluates all emitted definitions
    (`herun`), that `_get_args`' dynamic pass succeeds (`hedyn`) and that the two environments have the same
    lookups (`hfull`), the generated program and `Model.__call__` return the same list -/
theorem equiv_tail (c : Content) (L : Lang) (t : Rat) (xs : List Rat)
    (hL : L ≠ .jl) (hok : OkV c) (hxs : xs.length = c.vars.length)
    {cache : Cache} (hcc : createCache c = .ok cache)
    {order dy apn' : List Name} {dependent : Env} {stoich : List (Name × List (Name × Rat))}
    {dst : List (Name × List (Name × Fn))} {init extra : List (Name × Rat)}
    (hadd : addRxns apn' dependent c.allStoich ([], []) = .ok (stoich, dst))
    (hinitk : init.map (·.1) = omKeys c.vars)
    (hcache : cache = Cache.mk order (omKeys c.vars) dy (plainOf c.pars)
                (omUnion (plainOf c.pars) extra) stoich dst init)
    (hdy_kind : ∀ k ∈ dy, k ∈ omKeys c.derived ∨ k ∈ omKeys c.rxns)
    {P : List (Name × Rat)} (hP : emittedPars c cache = P)
    {erun edyn : Env}
    (herun : evalSeq (defsOf c order) (envR P (omKeys c.vars) xs t) = .ok erun)
    (hedyn : evalSeq (defsOf c dy) (("time", t) :: (([] : Env).reverse ++ ((omKeys c.vars).zip xs).reverse
              ++ (omUnion (plainOf c.pars) extra).reverse)) = .ok edyn)
    (hfull : ∀ a, erun.lookup a = edyn.lookup a) :
    genRun [] c L [] t xs [] = callRhs c t xs := by
    have hn := hok.names
    have hlen : (omKeys c.vars).length = xs.length := by simp [omKeys, hxs]
    -- numeric stoichiometry
    have hall : c.allStoich = c.rxns.map fun kv => (kv.1, kv.2.stoich) := by
      simp [Content.allStoich, hok.surs]
    obtain ⟨tab, htab1, htab2⟩ := addRxns_num apn' dependent (c.rxns.map fun kv => (kv.1, kv.2.stoich)) []
      (by rw [List.all_map]; exact hok.num)
    rw [hall, htab1] at hadd
    simp only [Except.ok.injEq, Prod.mk.injEq] at hadd
    obtain ⟨hstoich, hdst⟩ := hadd
    have hde : diffEqs c.rxns = liftTab tab := by rw [diffEqs_eq, htab2]; rfl
    have hinv := diffEqs_inv c.rxns
    rw [hde] at hinv
    have htabk : (tab.map (·.1)) = omKeys (diffEqs c.rxns) := by
      rw [hde]; simp [liftTab, omKeys, List.map_map, Function.comp_def]
    have htab_nd : (tab.map (·.1)).Nodup := by
      have := hinv.nd; simpa [liftTab, List.map_map, Function.comp_def] using this
    have htab_rows : ∀ cr ∈ tab, ∀ rq ∈ cr.2, rq.1 ∈ omKeys c.rxns := by
      intro cr hcr rq hrq
      exact hinv.rows (cr.1, liftRow cr.2) (List.mem_map_of_mem (f := fun cr => (cr.1, liftRow cr.2)) hcr)
        (rq.1, Coef.num rq.2) (List.mem_map_of_mem (f := fun rq => (rq.1, Coef.num rq.2)) hrq)
    have htab_vars : ∀ a ∈ tab.map (·.1), a ∈ omKeys c.vars := by
      intro a ha
      have := hok.onVars
      simp only [stoichOnVars, List.all_eq_true] at this
      simpa using this a (htabk ▸ ha)
    -- ===== left-hand side
    have hcache_init : omKeys cache.init = omKeys c.vars := by rw [hcache]; exact hinitk
    obtain ⟨hunp, hretb⟩ := tmpl_facts hL
    have hvne : (omKeys c.vars).isEmpty = false := by
      cases hv : c.vars with
      | nil => exact absurd hv hok.nonempty
      | cons a as => simp [omKeys]
    have htab_ne : (diffEqs c.rxns).isEmpty = false := hok.hasEq
    -- the variables no reaction changes
    have hz_vars : ∀ a ∈ (zeroRows c).map (·.1), a ∈ omKeys c.vars := by
      intro a ha
      simp only [zeroRows, List.map_map, Function.comp_def, List.map_id', List.mem_filter] at ha
      exact ha.1
    have hz_nd : ((zeroRows c).map (·.1)).Nodup := by
      simp only [zeroRows, List.map_map, Function.comp_def, List.map_id']
      exact hn.vNd.filter _
    have hz_iff : ∀ v ∈ omKeys c.vars, (v ∈ (zeroRows c).map (·.1) ↔ v ∉ tab.map (·.1)) := by
      intro v hv
      simp only [zeroRows, List.map_map, Function.comp_def, List.map_id', List.mem_filter, htabk]
      simp [hv]
    have hz_val : ∀ v ∈ (zeroRows c).map (·.1), (zeroRows c).lookup v = some 0 := by
      intro v hv
      simp only [zeroRows, List.map_map, Function.comp_def, List.map_id'] at hv
      exact z_lookup _ _ hv
    have hlins : ∀ cr ∈ tab, ∀ rq ∈ cr.2, erun.lookup rq.1 = edyn.lookup rq.1 ∧ ∀ cr' ∈ tab, rq.1 ≠ dName cr'.1 := by
      intro cr hcr rq hrq
      refine ⟨hfull rq.1, fun cr' hcr' heq => ?_⟩
      have h1 : rq.1 ∈ omKeys c.rxns := htab_rows cr hcr rq hrq
      have h2 : dName cr'.1 ∈ (omKeys c.vars).map dName :=
        List.mem_map_of_mem (htab_vars cr'.1 (List.mem_map_of_mem (f := (·.1)) hcr'))
      exact hn.dn_r _ h2 (heq ▸ h1)
    -- both sides in terms of the row sums
    have hLHS : genRun [] c L [] t xs [] = (match rowSums edyn tab with
        | .error e => .error e
        | .ok ss => (((omKeys c.vars).map dName).mapM
            (Env.get (((zeroRows c).map fun ks => (dName ks.1, ks.2)).reverse
              ++ ((ss.map fun ks => (dName ks.1, ks.2)).reverse ++ erun)))).bind fun out =>
              if (templateOf L).sizedRet then
                (if out.length != (omKeys c.vars).length then .error (.other "ReturnTypeMismatch") else .ok out)
              else .ok out) := by
      unfold genRun
      rw [genModel_ok hok hL hcc hcache_init, hP]
      simp only [bind, Except.bind, runSLP, SLP.static, hunp, hretb, hvne, htab_ne, bindInputs,
        zipBind_ok hlen, Env.setMany, List.zip_nil_right, List.length_nil, bne_self_eq_false,
        Bool.false_eq_true, if_false, pure, Except.pure, Bool.not_false, Bool.true_and, Bool.and_false,
        Bool.false_and, Bool.and_true, Bool.not_true]
      have hZ : ((zeroRows c).map fun kv => (dName kv.1, Rhs.const kv.2))
          = ((zeroRows c).map fun ks => (dName ks.1, ks.2)).map fun kv => (kv.1, Rhs.const kv.2) := by
        simp [List.map_map, Function.comp_def]
      rw [runAssigns_append, runAssigns_append, runAssigns_append, hcache, hZ]
      simp only [runAssigns_consts, Except.bind, runAssigns_apps]
      have herun' : evalSeq (defsOf c order) (P.reverse ++ (((omKeys c.vars).zip xs).reverse ++ [("time", t)])) = .ok erun := herun
      rw [herun']
      simp only
      have hC : (diffEqs c.rxns).map (fun vs => (dName vs.1, Rhs.lin vs.2))
          = tab.map fun cr => (dName cr.1, Rhs.lin (liftRow cr.2)) := by
        rw [hde]; simp [liftTab, List.map_map, Function.comp_def]
      rw [hC, runAssigns_lins edyn tab erun hlins]
      cases rowSums edyn tab with
      | error e => rfl
      | ok ss =>
        simp only [mapOk, checkRet, runAssigns_consts, htab_ne, hretb]
        cases (List.mapM (Env.get (((zeroRows c).map fun ks => (dName ks.1, ks.2)).reverse
            ++ ((ss.map fun ks => (dName ks.1, ks.2)).reverse ++ erun))) ((omKeys c.vars).map dName)) with
        | error e => rfl
        | ok out => cases (templateOf L).sizedRet <;> simp [pure, Except.pure]
    have hRHS : callRhs c t xs = (match rowSums edyn tab with
        | .error e => .error e
        | .ok ss => (omKeys c.vars).mapM
            (Env.get (ss.foldl (fun d ks => omInsert d ks.1 ks.2) ((omKeys c.vars).map fun k => (k, (0 : Rat)))))) := by
      unfold callRhs
      simp only [hcc, bind, Except.bind]
      rw [hcache]
      have hl : (xs.length != (omKeys c.vars).length) = false := by simp [hlen]
      simp only [hl, Bool.false_eq_true, if_false, getArgsEnv,
        evalInOrder_defs hok c.containers (containers_lookup hok) hdy_kind, hok.data, hedyn,
        rhsFromArgs, bind, Except.bind, ← hstoich, ← hdst, accDynAll, pure, Except.pure]
      rw [accStaticAll_eq edyn tab _ htab_nd (fun cr hcr =>
        z_lookup _ _ (htab_vars cr.1 (List.mem_map_of_mem (f := (·.1)) hcr)))]
      cases rowSums edyn tab with
      | error e => rfl
      | ok ss => rfl
    rw [hLHS, hRHS]
    cases hrs : rowSums edyn tab with
    | error e => rfl
    | ok ss =>
      simp only
      have hssk : ss.map (·.1) = tab.map (·.1) := rowSums_keys hrs
      have hss_nd : (ss.map (·.1)).Nodup := hssk ▸ htab_nd
      have hss_vars : ∀ a ∈ ss.map (·.1), a ∈ omKeys c.vars := fun a ha => htab_vars a (hssk ▸ ha)
      have hdn : ∀ (m : List (Name × Rat)), (m.map fun ks => (dName ks.1, ks.2)).map (·.1) = (m.map (·.1)).map dName := by
        intro m; simp [List.map_map, Function.comp_def]
      have hL1 : ∀ v ∈ omKeys c.vars,
          (((zeroRows c).map fun ks => (dName ks.1, ks.2)).reverse
            ++ ((ss.map fun ks => (dName ks.1, ks.2)).reverse ++ erun)).lookup (dName v) = some ((ss.lookup v).getD 0) := by
        intro v hv
        by_cases hvt : v ∈ tab.map (·.1)
        · -- a variable with an equation: its row sum
          obtain ⟨s, hs⟩ := lookup_some_of_mem_keys (hssk ▸ hvt)
          have hnz : dName v ∉ ((zeroRows c).map fun ks => (dName ks.1, ks.2)).reverse.map (·.1) := by
            rw [keys_reverse, hdn]
            intro hm
            obtain ⟨w, hw, hwv⟩ := List.mem_map.mp hm
            have hwvars := hz_vars w hw
            have : w = v := by
              by_cases hne : w = v
              · exact hne
              · exfalso
                have hne' : ¬ v = w := fun h => hne h.symm
                have h2 := lookup_map_dName hn.dnNd [(w, (1 : Rat))] v
                  (by intro a ha; simp at ha; subst ha; exact hwvars) hv
                simp only [List.map_cons, List.map_nil, lookup_cons_eq] at h2
                rw [← hwv] at h2
                simp [hne'] at h2
            subst this
            exact ((hz_iff w hv).mp hw) hvt
          have hmem : dName v ∈ (ss.map fun ks => (dName ks.1, ks.2)).reverse.map (·.1) := by
            rw [keys_reverse, hdn]
            exact List.mem_map_of_mem (lookup_some_mem_keys hs)
          rw [lookup_append_right hnz, lookup_append_left hmem,
            lookup_reverse_nodup _ _ (by rw [hdn]; exact nodup_map_dName hn.dnNd _ hss_nd hss_vars),
            lookup_map_dName hn.dnNd ss v hss_vars hv, hs]
          rfl
        · -- a variable that no reaction changes: assigned zero
          have hvz : v ∈ (zeroRows c).map (·.1) := (hz_iff v hv).mpr hvt
          have hmem : dName v ∈ ((zeroRows c).map fun ks => (dName ks.1, ks.2)).reverse.map (·.1) := by
            rw [keys_reverse, hdn]
            exact List.mem_map_of_mem hvz
          have hnone : ss.lookup v = none := lookup_none_of_not_mem (by rw [hssk]; exact hvt)
          rw [lookup_append_left hmem,
            lookup_reverse_nodup _ _ (by rw [hdn]; exact nodup_map_dName hn.dnNd _ hz_nd hz_vars),
            lookup_map_dName hn.dnNd (zeroRows c) v hz_vars hv, hz_val v hvz, hnone]
          rfl
      have hR1 : ∀ v ∈ omKeys c.vars,
          (ss.foldl (fun d ks => omInsert d ks.1 ks.2) ((omKeys c.vars).map fun k => (k, (0 : Rat)))).lookup v
            = some ((ss.lookup v).getD 0) := by
        intro v hv
        rw [foldl_omInsert_lookup _ _ _ hss_nd]
        cases hs : ss.lookup v with
        | some x => rfl
        | none => simp only [z_lookup _ _ hv]; rfl
      rw [mapM_get_ok_map dName (fun v => (ss.lookup v).getD 0) _ hL1,
        mapM_get_ok (fun v => (ss.lookup v).getD 0) _ hR1]
      cases (templateOf L).sizedRet <;> simp [Except.bind]


/-! ### shape of the generated program, every model -/

/-- whatever the model: language, extra inputs, returned names and the `()` flag of the emitted program -/
theorem genModel_shape (bad : List Name) (c : Content) (L : Lang) (free : List Name) (p : SLP)
    (h : genModel bad c L free = .ok p) :
    p.lang = L ∧ p.extra = free ∧ p.ret = retNames p.inputs (diffEqs c.rxns)
      ∧ p.retUnit = (diffEqs c.rxns).isEmpty
      ∧ ∃ cache, createCache c = .ok cache ∧ p.inputs = omKeys cache.init := by
  unfold genModel at h
  simp only [bind, Except.bind] at h
  cases hcc : createCache c with
  | error e => simp [hcc] at h
  | ok cache =>
    simp only [hcc] at h
    split at h
    · simp [throw, throwThe, MonadExceptOf.throw] at h
    · cases hp : popAll (emittedPars c cache) free with
      | error e => simp [hp, pure, Except.pure] at h
      | ok ps =>
        simp only [hp, pure, Except.pure] at h
        cases hb : emitBody bad c cache.order with
        | error e => simp [hb] at h
        | ok body =>
          simp only [hb] at h
          split at h
          · simp [throw, throwThe, MonadExceptOf.throw] at h
          · simp only [Except.ok.injEq] at h
            subst h
            exact ⟨rfl, rfl, rfl, rfl, cache, rfl, rfl⟩

/-- every returned name is the target of an assignment (Python / TypeScript / Rust), whatever the model -/
theorem genModel_ret_assigned (bad : List Name) (c : Content) (L : Lang) (free : List Name) (p : SLP)
    (hL : L ≠ .jl) (h : genModel bad c L free = .ok p) :
    ∀ n ∈ p.ret, n ∈ p.assigns.map (·.1) := by
  unfold genModel at h
  simp only [bind, Except.bind] at h
  cases hcc : createCache c with
  | error e => simp [hcc] at h
  | ok cache =>
    simp only [hcc] at h
    split at h
    · simp [throw, throwThe, MonadExceptOf.throw] at h
    · cases hp : popAll (emittedPars c cache) free with
      | error e => simp [hp] at h
      | ok ps =>
        simp only [hp, pure, Except.pure] at h
        cases hb : emitBody bad c cache.order with
        | error e => simp [hb] at h
        | ok body =>
          simp only [hb] at h
          split at h
          · simp [throw, throwThe, MonadExceptOf.throw] at h
          · simp only [Except.ok.injEq] at h
            subst h
            intro n hn
            simp only [retNames] at hn
            split at hn
            · cases hn
            · rename_i hne
              obtain ⟨v, hv, rfl⟩ := List.mem_map.mp hn
              simp only [List.map_append, List.map_map, Function.comp_def, target_id hL, List.mem_append, List.mem_map]
              by_cases hd : (omKeys (diffEqs c.rxns)).contains v = true
              · have : v ∈ omKeys (diffEqs c.rxns) := by simpa using hd
                obtain ⟨vs, hvs, rfl⟩ := List.mem_map.mp this
                exact Or.inl (Or.inr ⟨vs, hvs, rfl⟩)
              · refine Or.inr ⟨v, ?_, rfl⟩
                have hne' : (diffEqs c.rxns).isEmpty = false := by simpa using hne
                simp only [zeroVars, hne', Bool.false_eq_true, if_false, List.mem_filter]
                exact ⟨hv, by simpa using hd⟩

/-! ### `for key in free_parameters: parameters.pop(key)` -/

theorem popAll_spec : ∀ (free : List Name) (m m' : List (Name × Rat)), popAll m free = .ok m' →
    (∀ k ∈ free, k ∉ omKeys m') ∧ (∀ kv ∈ m', kv ∈ m) ∧ (∀ kv ∈ m, kv.1 ∉ free → kv ∈ m') := by
  intro free; induction free with
  | nil =>
    intro m m' h
    simp only [popAll, pure, Except.pure, Except.ok.injEq] at h
    subst h
    exact ⟨fun k hk => (by cases hk), fun kv h => h, fun kv h _ => h⟩
  | cons k ks ih =>
    intro m m' h
    simp only [popAll] at h
    split at h
    · obtain ⟨h1, h2, h3⟩ := ih _ _ h
      have hsub : ∀ kv ∈ omErase m k, kv ∈ m ∧ kv.1 ≠ k := by
        intro kv hkv
        simp only [omErase, List.mem_filter, bne_iff_ne, ne_eq] at hkv
        exact hkv
      refine ⟨?_, fun kv hkv => (hsub kv (h2 kv hkv)).1, ?_⟩
      · intro a ha
        cases List.mem_cons.mp ha with
        | inl hak =>
          subst hak
          intro hm
          obtain ⟨kv, hkv, hkv1⟩ := List.mem_map.mp hm
          exact (hsub kv (h2 kv hkv)).2 hkv1
        | inr haks => exact h1 a haks
      · intro kv hkv hnot
        apply h3 kv
        · simp only [omErase, List.mem_filter, bne_iff_ne, ne_eq]
          exact ⟨hkv, fun hk => hnot (hk ▸ List.mem_cons_self)⟩
        · exact fun hm => hnot (List.mem_cons_of_mem _ hm)
    · cases h

theorem popAll_missing : ∀ (free : List Name) (m : List (Name × Rat)),
    (∃ k ∈ free, k ∉ omKeys m) → ∃ k, popAll m free = .error (.keyError k) := by
  intro free; induction free with
  | nil => intro m ⟨k, hk, _⟩; cases hk
  | cons a as ih =>
    intro m ⟨k, hk, hkm⟩
    simp only [popAll]
    split
    · rename_i ha
      apply ih
      cases List.mem_cons.mp hk with
      | inl hka => subst hka; exact absurd (by simpa using ha) hkm
      | inr hkas =>
        refine ⟨k, hkas, ?_⟩
        intro hm
        apply hkm
        obtain ⟨kv, hkv, hkv1⟩ := List.mem_map.mp hm
        simp only [omErase, List.mem_filter] at hkv
        exact List.mem_map.mpr ⟨kv, hkv.1, hkv1⟩
    · exact ⟨a, rfl⟩

end Mxl.C07
