/-
C07: assembly of the equivalence `genRun [] c L [] t xs [] = callRhs c t xs`.  Core Lean only.
-/
import MxlVerif.Lemmas.C07Stoich
namespace Mxl.C07
open Mxl

/-! ### small list facts -/

theorem inj_of_nodup_map {α β} (f : α → β) : ∀ {l : List α}, (l.map f).Nodup →
    ∀ {a b}, a ∈ l → b ∈ l → f a = f b → a = b := by
  intro l; induction l with
  | nil => intro _ a b ha; cases ha
  | cons x xs ih =>
    intro h a b ha hb hab
    simp only [List.map_cons, List.nodup_cons, List.mem_map, not_exists, not_and] at h
    rcases List.mem_cons.mp ha with rfl | ha' <;> rcases List.mem_cons.mp hb with rfl | hb'
    · rfl
    · exact absurd hab.symm (h.1 b hb')
    · exact absurd hab (h.1 a ha')
    · exact ih h.2 ha' hb' hab

theorem foldl_omInsert_lookup : ∀ (ss z : List (Name × Rat)) (a : Name), (ss.map (·.1)).Nodup →
    (ss.foldl (fun d ks => omInsert d ks.1 ks.2) z).lookup a
      = match ss.lookup a with | some x => some x | none => z.lookup a := by
  intro ss; induction ss with
  | nil => intro z a _; rfl
  | cons kx rest ih =>
    intro z a hnd
    obtain ⟨k, x⟩ := kx
    simp only [List.map_cons, List.nodup_cons] at hnd
    simp only [List.foldl_cons]
    rw [ih _ a hnd.2, lookup_omInsert, lookup_cons_eq]
    by_cases hak : a = k
    · subst hak; simp [lookup_none_of_not_mem hnd.1]
    · simp [hak]

theorem lookup_map_dName {vars : List Name} (hinj : (vars.map dName).Nodup) :
    ∀ (ss : List (Name × Rat)) (v : Name), (∀ a ∈ ss.map (·.1), a ∈ vars) → v ∈ vars →
    (ss.map fun ks => (dName ks.1, ks.2)).lookup (dName v) = ss.lookup v := by
  intro ss; induction ss with
  | nil => intro v _ _; rfl
  | cons kx rest ih =>
    intro v hsub hv
    obtain ⟨k, x⟩ := kx
    simp only [List.map_cons, lookup_cons_eq]
    have hk : k ∈ vars := hsub k (by simp)
    by_cases hvk : v = k
    · subst hvk; simp
    · have : dName v ≠ dName k := fun h => hvk (inj_of_nodup_map dName hinj hv hk h)
      simp [hvk, this]
      exact ih v (fun a ha => hsub a (by simp [ha])) hv

theorem nodup_map_dName {vars : List Name} (hinj : (vars.map dName).Nodup) :
    ∀ (l : List Name), l.Nodup → (∀ a ∈ l, a ∈ vars) → (l.map dName).Nodup := by
  intro l; induction l with
  | nil => intro _ _; simp
  | cons x xs ih =>
    intro hnd hsub
    simp only [List.nodup_cons] at hnd
    simp only [List.map_cons, List.nodup_cons, List.mem_map, not_exists, not_and]
    refine ⟨fun y hy hxy => ?_, ih hnd.2 (fun a ha => hsub a (List.mem_cons_of_mem _ ha))⟩
    have := inj_of_nodup_map dName hinj (hsub y (List.mem_cons_of_mem _ hy)) (hsub x List.mem_cons_self) hxy
    exact hnd.1 (this ▸ hy)

theorem mapM_get_ok {e : Env} (g : Name → Rat) : ∀ (l : List Name),
    (∀ a ∈ l, e.lookup a = some (g a)) → l.mapM e.get = .ok (l.map g) := by
  intro l; induction l with
  | nil => intro _; rfl
  | cons a l ih =>
    intro h
    simp [List.mapM_cons, Env.get_of_lookup (h a List.mem_cons_self),
      ih (fun b hb => h b (List.mem_cons_of_mem _ hb)), bind, Except.bind, pure, Except.pure]

theorem mapM_get_ok_map {e : Env} (f : Name → Name) (g : Name → Rat) : ∀ (l : List Name),
    (∀ a ∈ l, e.lookup (f a) = some (g a)) → (l.map f).mapM e.get = .ok (l.map g) := by
  intro l; induction l with
  | nil => intro _; rfl
  | cons a l ih =>
    intro h
    simp [List.mapM_cons, Env.get_of_lookup (h a List.mem_cons_self),
      ih (fun b hb => h b (List.mem_cons_of_mem _ hb)), bind, Except.bind, pure, Except.pure]

theorem rowSums_keys {dep : Env} : ∀ {tab : List (Name × List (Name × Rat))} {ss : List (Name × Rat)},
    rowSums dep tab = .ok ss → ss.map (·.1) = tab.map (·.1) := by
  intro tab; induction tab with
  | nil => intro ss h; simp [rowSums, List.mapM_nil, pure, Except.pure] at h; subst h; rfl
  | cons cr rest ih =>
    intro ss h
    obtain ⟨k, row⟩ := cr
    rw [rowSums_cons] at h
    cases h1 : evalLin dep (liftRow row) 0 with
    | error e => simp [h1] at h
    | ok s =>
      simp only [h1] at h
      cases h2 : rowSums dep rest with
      | error e => simp [h2] at h
      | ok ss' =>
        simp only [h2, Except.ok.injEq] at h
        subst h
        simp [ih h2]

/-! ### lookups in concatenated environments -/

theorem lookup_append_left {β} {A B : List (Name × β)} {a : Name} (h : a ∈ A.map (·.1)) :
    (A ++ B).lookup a = A.lookup a := by
  obtain ⟨v, hv⟩ := lookup_some_of_mem_keys h
  rw [List.lookup_append, hv]; rfl

theorem lookup_append_right {β} {A B : List (Name × β)} {a : Name} (h : a ∉ A.map (·.1)) :
    (A ++ B).lookup a = B.lookup a := by
  rw [List.lookup_append, lookup_none_of_not_mem h]; rfl

theorem keys_reverse {β} (A : List (Name × β)) (a : Name) :
    a ∈ A.reverse.map (·.1) ↔ a ∈ A.map (·.1) := by
  rw [List.map_reverse, List.mem_reverse]

theorem keys_zip {names : List Name} {xs : List Rat} (h : names.length = xs.length) :
    (names.zip xs).map (·.1) = names :=
  List.map_fst_zip (Nat.le_of_eq h)

theorem keys_plainOf {m : List (Name × Val)} (h : noIAB m = true) : (plainOf m).map (·.1) = omKeys m := by
  rw [(plainOf_noIA h).1]; simp [omKeys, List.map_map, Function.comp_def]

/-- the environment of the generated function after unpacking the state and assigning the parameters -/
def envR (P : List (Name × Rat)) (names : List Name) (xs : List Rat) (t : Rat) : Env :=
  P.reverse ++ ((names.zip xs).reverse ++ [("time", t)])

/-- facts about names used for all three start environments -/
structure EnvCtx (c : Content) (names : List Name) (xs : List Rat) (P : List (Name × Rat)) : Prop where
  ok : Ok c
  names_eq : names = omKeys c.vars
  len : names.length = xs.length
  pkeys : P.map (·.1) = omKeys c.pars

theorem envR_lookup_par {c names xs P} (h : EnvCtx c names xs P) (t : Rat) {a : Name}
    (ha : a ∈ omKeys c.pars) : (envR P names xs t).lookup a = P.lookup a := by
  have hn := h.ok.names
  unfold envR
  rw [lookup_append_left (by rw [keys_reverse, h.pkeys]; exact ha),
    lookup_reverse_nodup _ _ (by rw [h.pkeys]; exact hn.pNd)]

theorem envR_lookup_notpar {c names xs P} (h : EnvCtx c names xs P) (t : Rat) {a : Name}
    (ha : a ∉ omKeys c.pars) :
    (envR P names xs t).lookup a = ((names.zip xs).reverse ++ [("time", t)]).lookup a := by
  unfold envR
  rw [lookup_append_right (by rw [keys_reverse, h.pkeys]; exact ha)]

theorem envR_lookup_none {c names xs P} (h : EnvCtx c names xs P) (t : Rat) {a : Name}
    (hp : a ∉ omKeys c.pars) (hv : a ∉ omKeys c.vars) (ht : a ≠ "time") :
    (envR P names xs t).lookup a = none := by
  rw [envR_lookup_notpar h t hp,
    lookup_append_right (by rw [keys_reverse, keys_zip h.len, h.names_eq]; exact hv)]
  simp [lookup_cons_eq, ht]

/-! ### the generated program, explicitly -/

theorem genModel_ok {c : Content} (hok : Ok c) {L : Lang} (hL : L ≠ .jl) {cache : Cache}
    (hcc : createCache c = .ok cache) (hinit : omKeys cache.init = omKeys c.vars) :
    genModel [] c L [] = .ok
      { lang := L
        unpack := (templateOf L).unpack L
        inputs := omKeys c.vars
        extra := []
        assigns := (cache.basePars.map fun kv => (kv.1, Rhs.const kv.2))
          ++ ((defsOf c cache.order).map fun kf => (kf.1, Rhs.app kf.2))
          ++ ((diffEqs c.rxns).map fun vs => (dName vs.1, Rhs.lin vs.2))
        ret := ((omKeys c.vars).filter fun v => (omKeys (diffEqs c.rxns)).contains v).map dName
        retUnit := (diffEqs c.rxns).isEmpty
        retBracket := (templateOf L).retBracket
        retLen := if (templateOf L).sizedRet then some (omKeys c.vars).length else none } := by
  unfold genModel
  simp only [hcc, bind, Except.bind, popAll, emitBody_nil hok, pure, Except.pure, hinit, List.map_map,
    Function.comp_def, target_id hL]

theorem zipBind_ok {names : List Name} {xs : List Rat} (h : names.length = xs.length) (env : Env) :
    zipBind names xs env = .ok ((names.zip xs).reverse ++ env) := by
  simp [zipBind, h, Env.setMany_eq, pure, Except.pure]

theorem tmpl_facts {L : Lang} (hL : L ≠ .jl) :
    (templateOf L).unpack L = .bracket ∧ (templateOf L).retBracket = true := by
  cases L <;> first | (exact absurd rfl hL) | decide

theorem z_lookup : ∀ (names : List Name) (a : Name), a ∈ names →
    (names.map fun k => (k, (0 : Rat))).lookup a = some 0 := by
  intro names; induction names with
  | nil => intro a h; cases h
  | cons k ks ih =>
    intro a h
    simp only [List.map_cons, lookup_cons_eq]
    by_cases hak : a = k
    · simp [hak]
    · simp [hak]; exact ih a ((List.mem_cons.mp h).resolve_left hak)

/-! ### an untranslatable function -/

theorem emitBody_bad (bad : List Name) (c : Content) : ∀ (o : List Name),
    (∃ n ∈ o, bad.contains n = true ∧ ((c.derived.lookup n).isSome = true ∨ (c.rxns.lookup n).isSome = true)) →
    ∃ m, emitBody bad c o = .error (.valueError m) := by
  intro o; induction o with
  | nil => intro ⟨n, hn, _⟩; cases hn
  | cons k ks ih =>
    intro ⟨n, hn, hb, hdef⟩
    have hrest : n ∈ ks → ∃ m, emitBody bad c ks = .error (.valueError m) :=
      fun h => ih ⟨n, h, hb, hdef⟩
    simp only [emitBody]
    cases hd : c.derived.lookup k with
    | some f =>
      cases hbk : bad.contains k with
      | true => exact ⟨k, by simp⟩
      | false =>
        have hnk : n ≠ k := fun h => by rw [h, hbk] at hb; cases hb
        obtain ⟨m, hm⟩ := hrest ((List.mem_cons.mp hn).resolve_left hnk)
        exact ⟨m, by simp [hm, bind, Except.bind]⟩
    | none =>
      cases hr : c.rxns.lookup k with
      | some r =>
        cases hbk : bad.contains k with
        | true => exact ⟨k, by simp⟩
        | false =>
          have hnk : n ≠ k := fun h => by rw [h, hbk] at hb; cases hb
          obtain ⟨m, hm⟩ := hrest ((List.mem_cons.mp hn).resolve_left hnk)
          exact ⟨m, by simp [hm, bind, Except.bind]⟩
      | none =>
        have hnk : n ≠ k := fun h => by
          subst h; rcases hdef with h1 | h1 <;> simp [hd, hr] at h1
        simpa using hrest ((List.mem_cons.mp hn).resolve_left hnk)

theorem genModel_raises (bad : List Name) (c : Content) (L : Lang) {cache : Cache}
    (hcc : createCache c = .ok cache) {n : Name} (hn : n ∈ cache.order) (hb : bad.contains n = true)
    (hdef : (c.derived.lookup n).isSome = true ∨ (c.rxns.lookup n).isSome = true) :
    ∃ m, genModel bad c L [] = .error (.valueError m) := by
  obtain ⟨m, hm⟩ := emitBody_bad bad c cache.order ⟨n, hn, hb, hdef⟩
  exact ⟨m, by simp [genModel, hcc, popAll, hm, bind, Except.bind, pure, Except.pure]⟩

/-! ### main theorem -/

theorem equiv_main (c : Content) (L : Lang) (t : Rat) (xs : List Rat)
    (hL : L ≠ .jl) (hok : Ok c) (hxs : xs.length = c.vars.length) :
    genRun [] c L [] t xs [] = callRhs c t xs := by
  cases hcc : createCache c with
  | error e => simp [genRun, genModel, callRhs, hcc, bind, Except.bind]
  | ok cache =>
    obtain ⟨order, dependent, st, dy, apn, stoich, dst, init, extra, hsort, hE0, hcl, hadd, hinit, hextra,
      hcache⟩ := createCache_ok hcc
    have hn := hok.names
    have hPk : (plainOf c.pars).map (·.1) = omKeys c.pars := keys_plainOf hok.iaP
    have hVk : (plainOf c.vars).map (·.1) = omKeys c.vars := keys_plainOf hok.iaV
    have hlen : (omKeys c.vars).length = xs.length := by simp [omKeys, hxs]
    have hctx : EnvCtx c (omKeys c.vars) xs (plainOf c.pars) := ⟨hok, rfl, hlen, hPk⟩
    obtain ⟨hond, homem⟩ := order_facts hok hsort
    have hokind : ∀ k ∈ order, k ∈ omKeys c.derived ∨ k ∈ omKeys c.rxns := fun k hk => (homem k).mp hk
    have hdk : (defsOf c order).map (·.1) = order := (mapM_defOf hok hokind).2
    -- names in the order are neither parameters, variables nor `time`
    have hord_np : ∀ k ∈ order, k ∉ omKeys c.pars := fun k hk hp =>
      (hokind k hk).elim (hn.pd k hp) (hn.pr k hp)
    have hord_nv : ∀ k ∈ order, k ∉ omKeys c.vars := fun k hk hv =>
      (hokind k hk).elim (hn.vd k hv) (hn.vr k hv)
    have hord_nt : ∀ k ∈ order, k ≠ "time" := fun k hk ht =>
      (hokind k hk).elim (fun h => hn.time_d (ht ▸ h)) (fun h => hn.time_r (ht ▸ h))
    -- the time-zero pass as sequential evaluation
    rw [evalInOrder_defs hok c.toSort (toSort_lookup hok) hokind, hok.data] at hE0
    -- classification
    obtain ⟨apn', hcls, hap0, hap1, hap2⟩ := classify_spec c hok.surs order [] [] (omKeys c.pars) hond
      (fun k hk => ⟨hord_np k hk, hord_nv k hk, hord_np k hk⟩)
      (fun k hk => (hokind k hk).elim (fun h => Or.inr (lookup_some_of_mem_keys h)) Or.inl)
    rw [hcls] at hcl
    simp only [List.reverse_nil, List.nil_append, Prod.mk.injEq] at hcl
    obtain ⟨hst, hdy, hapn⟩ := hcl
    subst hapn
    -- numeric stoichiometry
    have hall : c.allStoich = c.rxns.map fun kv => (kv.1, kv.2.stoich) := by
      simp [Content.allStoich, hok.surs]
    obtain ⟨tab, htab1, htab2⟩ := addRxns_num apn' dependent (c.rxns.map fun kv => (kv.1, kv.2.stoich)) []
      (by rw [List.all_map]; exact hok.num)
    rw [hall, htab1] at hadd
    simp only [Except.ok.injEq, Prod.mk.injEq] at hadd
    obtain ⟨hstoich, hdst⟩ := hadd
    have hde : diffEqs c.rxns = liftTab tab := by rw [diffEqs_eq, htab2]; rfl
    have hinv := diffEqs_inv c.rxns
    rw [hde] at hinv
    have htabk : (tab.map (·.1)) = omKeys (diffEqs c.rxns) := by
      rw [hde]; simp [liftTab, omKeys, List.map_map, Function.comp_def]
    have htab_nd : (tab.map (·.1)).Nodup := by
      have := hinv.nd; simpa [liftTab, List.map_map, Function.comp_def] using this
    have htab_rows : ∀ cr ∈ tab, ∀ rq ∈ cr.2, rq.1 ∈ omKeys c.rxns := by
      intro cr hcr rq hrq
      exact hinv.rows (cr.1, liftRow cr.2) (List.mem_map_of_mem (f := fun cr => (cr.1, liftRow cr.2)) hcr)
        (rq.1, Coef.num rq.2) (List.mem_map_of_mem (f := fun rq => (rq.1, Coef.num rq.2)) hrq)
    have htab_vars : ∀ a ∈ tab.map (·.1), a ∈ omKeys c.vars := by
      intro a ha
      have := hok.onVars
      simp only [stoichOnVars, List.all_eq_true] at this
      simpa using this a (htabk ▸ ha)
    have hvars_tab : ∀ v ∈ omKeys c.vars, v ∈ tab.map (·.1) := by
      intro v hv
      have := hok.eqs
      simp only [allVarsHaveEq, List.all_eq_true] at this
      rw [htabk]; simpa using this v hv
    -- static values the cache keeps
    have hstf : (st.filter fun k => !(omKeys c.vars).contains k) = st := by
      apply List.filter_eq_self.mpr
      intro k hk
      have : k ∈ order := by rw [← hst] at hk; exact (List.mem_filter.mp hk).1
      simpa using hord_nv k this
    rw [hstf] at hextra
    obtain ⟨hexk, hexl⟩ := mapM_getPairs hextra
    obtain ⟨hinitk, _⟩ := mapM_getPairs hinit
    -- ===== the run environment succeeds on all definitions
    have hkeysB : ∀ a, (∃ v, (baseEnv (plainOf c.pars) (plainOf c.vars) [] 0).lookup a = some v) →
        ∃ w, (envR (plainOf c.pars) (omKeys c.vars) xs t).lookup a = some w := by
      intro a ⟨v, hv⟩
      rw [lookup_isSome_iff]
      have hm := lookup_some_mem_keys hv
      simp only [baseEnv, List.reverse_nil, List.nil_append, List.map_cons, List.map_append, List.mem_cons,
        List.mem_append, List.map_reverse, List.mem_reverse, hVk, hPk] at hm
      simp only [envR, List.map_append, List.map_reverse, List.mem_append, List.mem_reverse, hPk,
        keys_zip hlen, List.map_cons, List.map_nil, List.mem_singleton]
      rcases hm with h | h | h
      · exact Or.inr (Or.inr h)
      · exact Or.inr (Or.inl h)
      · exact Or.inl h
    obtain ⟨erun, herun⟩ := evalSeq_ok_of_keys hE0 hkeysB
    -- ===== static names agree between the run and the time-zero pass
    have hdefs_static : ∀ kf ∈ defsOf c order, kf.1 ∈ apn' → ∀ a ∈ kf.2.args, a ∈ apn' := by
      intro kf hkf hka a ha
      obtain ⟨hko, hkd⟩ := defsOf_mem hkf
      obtain ⟨hnr, d, hd, hargs⟩ := hap2 kf.1 hko hka
      have : defOf c kf.1 = some d := by
        simp [defOf, lookup_none_of_not_mem hnr, hd]
      rw [this] at hkd
      simp only [Option.some.injEq] at hkd
      exact hargs a (hkd ▸ ha)
    have hagree0 : ∀ a, a ∈ apn' → (envR (plainOf c.pars) (omKeys c.vars) xs t).lookup a
        = (baseEnv (plainOf c.pars) (plainOf c.vars) [] 0).lookup a := by
      intro a ha
      rcases hap1 a ha with hp | ho
      · rw [envR_lookup_par hctx t hp]
        have hat : a ≠ "time" := fun h => hn.time_p (h ▸ hp)
        have hav : a ∉ omKeys c.vars := fun hv => hn.vp a hv hp
        simp only [baseEnv, List.reverse_nil, List.nil_append, lookup_cons_eq, hat, if_false]
        rw [lookup_append_right (by rw [keys_reverse, hVk]; exact hav),
          lookup_reverse_nodup _ _ (by rw [hPk]; exact hn.pNd)]
      · rw [envR_lookup_none hctx t (hord_np a ho) (hord_nv a ho) (hord_nt a ho)]
        simp only [baseEnv, List.reverse_nil, List.nil_append, lookup_cons_eq, hord_nt a ho, if_false]
        rw [lookup_append_right (by rw [keys_reverse, hVk]; exact hord_nv a ho)]
        exact (lookup_none_of_not_mem (by rw [keys_reverse, hPk]; exact hord_np a ho)).symm
    have hstatic : ∀ a, a ∈ apn' → erun.lookup a = dependent.lookup a :=
      evalSeq_agree_closed (fun a => a ∈ apn') herun hE0 hdefs_static hagree0
    -- ===== the dynamic pass of `_get_args`
    have hD0 : ∀ a, (∀ kf ∈ defsOf c order, apn'.contains kf.1 = true → kf.1 ≠ a) →
        (envR (plainOf c.pars) (omKeys c.vars) xs t).lookup a
          = (("time", t) :: (([] : Env).reverse ++ ((omKeys c.vars).zip xs).reverse
              ++ (omUnion (plainOf c.pars) extra).reverse)).lookup a := by
      intro a hnot
      have hex_none : a ∉ omKeys c.pars → extra.lookup a = none := by
        intro _
        apply lookup_none_of_not_mem
        rw [hexk, ← hst]
        intro hm
        obtain ⟨hao, hac⟩ := List.mem_filter.mp hm
        have : a ∈ (defsOf c order).map (·.1) := by rw [hdk]; exact hao
        obtain ⟨kf, hkf, hka⟩ := List.mem_map.mp this
        exact hnot kf hkf (hka ▸ hac) hka
      have hex_nd : ((omUnion (plainOf c.pars) extra).map (·.1)).Nodup :=
        (keys_omUnion_nodup extra (plainOf c.pars) (by rw [hPk]; exact hn.pNd)).1
      simp only [List.reverse_nil, List.nil_append, lookup_cons_eq]
      by_cases hat : a = "time"
      · subst hat
        simp only [if_true]
        rw [envR_lookup_notpar hctx t hn.time_p,
          lookup_append_right (by rw [keys_reverse, keys_zip hlen]; exact hn.time_v)]
        simp [lookup_cons_eq]
      · simp only [hat, if_false]
        by_cases hav : a ∈ omKeys c.vars
        · rw [envR_lookup_notpar hctx t (hn.vp a hav),
            lookup_append_left (by rw [keys_reverse, keys_zip hlen]; exact hav),
            lookup_append_left (by rw [keys_reverse, keys_zip hlen]; exact hav)]
        · rw [lookup_append_right (by rw [keys_reverse, keys_zip hlen]; exact hav),
            lookup_reverse_nodup _ _ hex_nd,
            lookup_omUnion _ _ _ (by rw [hexk, ← hst]; exact hond.sublist List.filter_sublist)]
          by_cases hap : a ∈ omKeys c.pars
          · have hne : extra.lookup a = none := by
              apply lookup_none_of_not_mem
              rw [hexk, ← hst]
              intro hm
              exact hord_np a (List.mem_filter.mp hm).1 hap
            rw [envR_lookup_par hctx t hap, hne]
          · rw [envR_lookup_none hctx t hap hav hat, hex_none hap]
            exact (lookup_none_of_not_mem (by rw [hPk]; exact hap)).symm
    have hD1 : ∀ kf ∈ defsOf c order, apn'.contains kf.1 = true →
        (("time", t) :: (([] : Env).reverse ++ ((omKeys c.vars).zip xs).reverse
              ++ (omUnion (plainOf c.pars) extra).reverse)).lookup kf.1 = erun.lookup kf.1 := by
      intro kf hkf hs
      obtain ⟨hko, _⟩ := defsOf_mem hkf
      have hka : kf.1 ∈ apn' := by simpa using hs
      have hkst : kf.1 ∈ st := by rw [← hst]; exact List.mem_filter.mpr ⟨hko, hs⟩
      have hex_nd : ((omUnion (plainOf c.pars) extra).map (·.1)).Nodup :=
        (keys_omUnion_nodup extra (plainOf c.pars) (by rw [hPk]; exact hn.pNd)).1
      simp only [List.reverse_nil, List.nil_append, lookup_cons_eq, hord_nt _ hko, if_false]
      rw [lookup_append_right (by rw [keys_reverse, keys_zip hlen]; exact hord_nv _ hko),
        lookup_reverse_nodup _ _ hex_nd,
        lookup_omUnion _ _ _ (by rw [hexk, ← hst]; exact hond.sublist List.filter_sublist),
        hexl _ hkst, hstatic _ hka]
      cases dependent.lookup kf.1 with
      | some v => rfl
      | none => exact lookup_none_of_not_mem (by rw [hPk]; exact hord_np _ hko)
    obtain ⟨edyn, hedyn, hfull⟩ := evalSeq_agree_sub (fun k => apn'.contains k) herun (by rw [hdk]; exact hond)
      (fun kf hkf => by
        obtain ⟨hko, _⟩ := defsOf_mem hkf
        exact envR_lookup_none hctx t (hord_np _ hko) (hord_nv _ hko) (hord_nt _ hko))
      hD0 hD1
    have hfil := defsOf_filter c (fun k => !apn'.contains k) order
    rw [← hfil, hdy] at hedyn
    -- ===== left-hand side
    have hcache_init : omKeys cache.init = omKeys c.vars := by rw [hcache]; exact hinitk
    obtain ⟨hunp, hretb⟩ := tmpl_facts hL
    have hvne : (omKeys c.vars).isEmpty = false := by
      cases hv : c.vars with
      | nil => exact absurd hv hok.nonempty
      | cons a as => simp [omKeys]
    have htab_ne : (diffEqs c.rxns).isEmpty = false := by
      cases hv : c.vars with
      | nil => exact absurd hv hok.nonempty
      | cons a as =>
        have hm : a.1 ∈ tab.map (·.1) := hvars_tab a.1 (by simp [omKeys, hv])
        rw [hde]
        cases htb : tab with
        | nil => rw [htb] at hm; cases hm
        | cons x y => simp [liftTab]
    have hfilter : ((omKeys c.vars).filter fun v => (omKeys (diffEqs c.rxns)).contains v) = omKeys c.vars := by
      apply List.filter_eq_self.mpr
      intro v hv
      have := hvars_tab v hv
      rw [htabk] at this
      simpa using this
    have hlins : ∀ cr ∈ tab, ∀ rq ∈ cr.2, erun.lookup rq.1 = edyn.lookup rq.1 ∧ ∀ cr' ∈ tab, rq.1 ≠ dName cr'.1 := by
      intro cr hcr rq hrq
      refine ⟨hfull rq.1, fun cr' hcr' heq => ?_⟩
      have h1 : rq.1 ∈ omKeys c.rxns := htab_rows cr hcr rq hrq
      have h2 : dName cr'.1 ∈ (omKeys c.vars).map dName :=
        List.mem_map_of_mem (htab_vars cr'.1 (List.mem_map_of_mem (f := (·.1)) hcr'))
      exact hn.dn_r _ h2 (heq ▸ h1)
    -- both sides in terms of the row sums
    have hLHS : genRun [] c L [] t xs [] = (match rowSums edyn tab with
        | .error e => .error e
        | .ok ss => (((omKeys c.vars).map dName).mapM
            (Env.get ((ss.map fun ks => (dName ks.1, ks.2)).reverse ++ erun))).bind fun out =>
              if (templateOf L).sizedRet then
                (if out.length != (omKeys c.vars).length then .error (.other "ReturnTypeMismatch") else .ok out)
              else .ok out) := by
      unfold genRun
      rw [genModel_ok hok hL hcc hcache_init]
      simp only [bind, Except.bind, runSLP, SLP.static, hunp, hretb, hvne, htab_ne, hfilter, bindInputs,
        zipBind_ok hlen, Env.setMany, List.zip_nil_right, List.length_nil, bne_self_eq_false,
        Bool.false_eq_true, if_false, pure, Except.pure, Bool.not_false, Bool.true_and, Bool.and_false,
        Bool.false_and, Bool.and_true, Bool.not_true]
      rw [runAssigns_append, runAssigns_append, hcache]
      simp only [runAssigns_consts, Except.bind, runAssigns_apps]
      have herun' : evalSeq (defsOf c order) ((plainOf c.pars).reverse ++ (((omKeys c.vars).zip xs).reverse ++ [("time", t)])) = .ok erun := herun
      rw [herun']
      simp only
      have hC : (diffEqs c.rxns).map (fun vs => (dName vs.1, Rhs.lin vs.2))
          = tab.map fun cr => (dName cr.1, Rhs.lin (liftRow cr.2)) := by
        rw [hde]; simp [liftTab, List.map_map, Function.comp_def]
      rw [hC, runAssigns_lins edyn tab erun hlins]
      cases rowSums edyn tab with
      | error e => rfl
      | ok ss =>
        simp only [mapOk, checkRet]
        cases (List.mapM (Env.get ((ss.map fun ks => (dName ks.1, ks.2)).reverse ++ erun)) ((omKeys c.vars).map dName)) with
        | error e => rfl
        | ok out => cases (templateOf L).sizedRet <;> simp [pure, Except.pure]
    have hdy_kind : ∀ k ∈ dy, k ∈ omKeys c.derived ∨ k ∈ omKeys c.rxns := by
      intro k hk; rw [← hdy] at hk; exact hokind k (List.mem_filter.mp hk).1
    have hRHS : callRhs c t xs = (match rowSums edyn tab with
        | .error e => .error e
        | .ok ss => (omKeys c.vars).mapM
            (Env.get (ss.foldl (fun d ks => omInsert d ks.1 ks.2) ((omKeys c.vars).map fun k => (k, (0 : Rat)))))) := by
      unfold callRhs
      simp only [hcc, bind, Except.bind]
      rw [hcache]
      have hl : (xs.length != (omKeys c.vars).length) = false := by simp [hlen]
      simp only [hl, Bool.false_eq_true, if_false, getArgsEnv,
        evalInOrder_defs hok c.containers (containers_lookup hok) hdy_kind, hok.data, hedyn,
        rhsFromArgs, bind, Except.bind, ← hstoich, ← hdst, accDynAll, pure, Except.pure]
      rw [accStaticAll_eq edyn tab _ htab_nd (fun cr hcr =>
        z_lookup _ _ (htab_vars cr.1 (List.mem_map_of_mem (f := (·.1)) hcr)))]
      cases rowSums edyn tab with
      | error e => rfl
      | ok ss => rfl
    rw [hLHS, hRHS]
    cases hrs : rowSums edyn tab with
    | error e => rfl
    | ok ss =>
      simp only
      have hssk : ss.map (·.1) = tab.map (·.1) := rowSums_keys hrs
      have hss_nd : (ss.map (·.1)).Nodup := hssk ▸ htab_nd
      have hss_vars : ∀ a ∈ ss.map (·.1), a ∈ omKeys c.vars := fun a ha => htab_vars a (hssk ▸ ha)
      have hval : ∀ v ∈ omKeys c.vars, ∃ s, ss.lookup v = some s :=
        fun v hv => lookup_some_of_mem_keys (hssk ▸ hvars_tab v hv)
      have hL1 : ∀ v ∈ omKeys c.vars,
          ((ss.map fun ks => (dName ks.1, ks.2)).reverse ++ erun).lookup (dName v) = some ((ss.lookup v).getD 0) := by
        intro v hv
        obtain ⟨s, hs⟩ := hval v hv
        have hkeys : (ss.map fun ks => (dName ks.1, ks.2)).map (·.1) = (ss.map (·.1)).map dName := by
          simp [List.map_map, Function.comp_def]
        have hmem : dName v ∈ (ss.map fun ks => (dName ks.1, ks.2)).reverse.map (·.1) := by
          rw [keys_reverse, hkeys]
          exact List.mem_map_of_mem (lookup_some_mem_keys hs)
        rw [lookup_append_left hmem,
          lookup_reverse_nodup _ _ (by rw [hkeys]; exact nodup_map_dName hn.dnNd _ hss_nd hss_vars),
          lookup_map_dName hn.dnNd ss v hss_vars hv, hs]
        rfl
      have hR1 : ∀ v ∈ omKeys c.vars,
          (ss.foldl (fun d ks => omInsert d ks.1 ks.2) ((omKeys c.vars).map fun k => (k, (0 : Rat)))).lookup v
            = some ((ss.lookup v).getD 0) := by
        intro v hv
        obtain ⟨s, hs⟩ := hval v hv
        rw [foldl_omInsert_lookup _ _ _ hss_nd, hs]
        rfl
      rw [mapM_get_ok_map dName (fun v => (ss.lookup v).getD 0) _ hL1,
        mapM_get_ok (fun v => (ss.lookup v).getD 0) _ hR1]
      cases (templateOf L).sizedRet <;> simp [Except.bind]

end Mxl.C07
