/- C12 — assembly: the equations collected by `to_symbolic_model` evaluate to what `__call__` accumulates (core Lean only). -/
import MxlVerif.Lemmas.C12Closure
namespace Mxl.C12
open Mxl

/-- the equation collected so far for `k` evaluates to the derivative accumulated so far -/
def EqRel (ρ : Name → Rat) (eqs : Symbols) (dxdt : List (Name × Rat)) : Prop :=
  ∀ k v, dxdt.lookup k = some v → evalS ρ (eqGet eqs k) = v

def Agree (T : Symbols) (ρ : Name → Rat) (E : Env) : Prop := AgreeOn (fun _ => True) T ρ E

theorem accumulate_inv (dxdt dxdt' : List (Name × Rat)) (k : Name) (x : Rat)
    (h : accumulate dxdt k x = .ok dxdt') :
    ∃ old, dxdt.lookup k = some old ∧ dxdt' = omInsert dxdt k (old + x) := by
  unfold accumulate at h
  cases hl : dxdt.lookup k with
  | none => simp [hl] at h
  | some old => simp [hl, pure, Except.pure] at h; exact ⟨old, rfl, h.symm⟩

theorem eqRel_step (ρ : Name → Rat) (eqs : Symbols) (dxdt : List (Name × Rat)) (k : Name)
    (old x : Rat) (term : SExpr) (hold : dxdt.lookup k = some old) (hterm : evalS ρ term = x)
    (hr : EqRel ρ eqs dxdt) :
    EqRel ρ (omInsert eqs k (.add (eqGet eqs k) term)) (omInsert dxdt k (old + x)) := by
  intro k2 v hv
  rw [lookup_omInsert] at hv
  unfold eqGet
  rw [lookup_omInsert]
  by_cases h2 : k2 = k
  · subst h2
    simp at hv
    simp only [if_true, Option.getD_some, evalS]
    have := hr k2 old hold
    unfold eqGet at this
    rw [this, hterm, hv]
  · simp [h2] at hv
    simp only [h2, if_false]
    exact hr k2 v hv

theorem env_get_inv (E : Env) (k : Name) (v : Rat) (h : E.get k = .ok v) : E.lookup k = some v := by
  unfold Env.get at h
  cases hl : E.lookup k with
  | none => simp [hl] at h
  | some w => simp [hl] at h; simp [h]

theorem static_sound (ρ : Name → Rat) (rx : Symbols) (dep : Env) (k : Name)
    (hR : Agree rx ρ dep) :
    ∀ (st : List (Name × Rat)) (dxdt dxdt' : List (Name × Rat)) (eqs eqs' : Symbols),
      accStatic dep k st dxdt = .ok dxdt' → eqStatic rx k st eqs = .ok eqs' →
      EqRel ρ eqs dxdt → EqRel ρ eqs' dxdt' := by
  intro st
  induction st with
  | nil =>
    intro dxdt dxdt' eqs eqs' h1 h2 hr
    simp [accStatic, pure, Except.pure] at h1; simp [eqStatic] at h2
    subst h1 h2; exact hr
  | cons fn rest ih =>
    obtain ⟨flux, n⟩ := fn
    intro dxdt dxdt' eqs eqs' h1 h2 hr
    simp only [accStatic, bind, Except.bind] at h1
    cases hf : dep.get flux with
    | error err => simp [hf] at h1
    | ok fv =>
      simp only [hf] at h1
      cases ha : accumulate dxdt k (n * fv) with
      | error err => simp [ha] at h1
      | ok d1 =>
        simp only [ha] at h1
        simp only [eqStatic] at h2
        cases hx : rx.lookup flux with
        | none => simp [hx] at h2
        | some r =>
          simp only [hx] at h2
          obtain ⟨old, hold, hd1⟩ := accumulate_inv _ _ _ _ ha
          subst hd1
          have hterm : evalS ρ (.mul (.const n) r) = n * fv := by
            simp only [evalS]
            rw [hR flux trivial r fv hx (env_get_inv _ _ _ hf)]
          exact ih _ _ _ _ h1 h2 (eqRel_step ρ eqs dxdt k old _ _ hold hterm hr)

theorem staticAll_sound (ρ : Name → Rat) (rx : Symbols) (dep : Env) (hR : Agree rx ρ dep) :
    ∀ (sts : List (Name × List (Name × Rat))) (dxdt dxdt' : List (Name × Rat)) (eqs eqs' : Symbols),
      accStaticAll dep sts dxdt = .ok dxdt' → eqStaticAll rx sts eqs = .ok eqs' →
      EqRel ρ eqs dxdt → EqRel ρ eqs' dxdt' := by
  intro sts
  induction sts with
  | nil =>
    intro dxdt dxdt' eqs eqs' h1 h2 hr
    simp [accStaticAll, pure, Except.pure] at h1; simp [eqStaticAll] at h2
    subst h1 h2; exact hr
  | cons kst rest ih =>
    obtain ⟨k, st⟩ := kst
    intro dxdt dxdt' eqs eqs' h1 h2 hr
    simp only [accStaticAll, bind, Except.bind] at h1
    simp only [eqStaticAll, bind, Except.bind] at h2
    cases ha : accStatic dep k st dxdt with
    | error err => simp [ha] at h1
    | ok d1 =>
      cases he : eqStatic rx k st eqs with
      | error err => simp [he] at h2
      | ok e1 =>
        simp only [ha] at h1; simp only [he] at h2
        exact ih _ _ _ _ h1 h2 (static_sound ρ rx dep k hR st _ _ _ _ ha he hr)

/-- the state-dependent coefficients the cache holds are the ones whose bodies `dynBody` finds -/
def DynLinked (c : SContent) (k : Name) (st : List (Name × Fn)) : Prop :=
  ∀ flux dv, (flux, dv) ∈ st → ∀ f, dynBody c flux k = some f → dv = f.toFn

theorem dyn_sound (c : SContent) (ρ : Name → Rat) (S rx : Symbols) (dep : Env) (k : Name)
    (hS : Agree S ρ dep) (hR : Agree rx ρ dep) :
    ∀ (st : List (Name × Fn)) (dxdt dxdt' : List (Name × Rat)) (eqs eqs' : Symbols),
      DynLinked c k st →
      accDyn dep k st dxdt = .ok dxdt' → eqDyn c S rx k st eqs = .ok eqs' →
      EqRel ρ eqs dxdt → EqRel ρ eqs' dxdt' := by
  intro st
  induction st with
  | nil =>
    intro dxdt dxdt' eqs eqs' _ h1 h2 hr
    simp [accDyn, pure, Except.pure] at h1; simp [eqDyn] at h2
    subst h1 h2; exact hr
  | cons fd rest ih =>
    obtain ⟨flux, dv⟩ := fd
    intro dxdt dxdt' eqs eqs' hlink h1 h2 hr
    simp only [accDyn, bind, Except.bind] at h1
    cases hn : dv.calc dep with
    | error err => simp [hn] at h1
    | ok n =>
      simp only [hn] at h1
      cases hf : dep.get flux with
      | error err => simp [hf] at h1
      | ok fv =>
        simp only [hf] at h1
        cases ha : accumulate dxdt k (n * fv) with
        | error err => simp [ha] at h1
        | ok d1 =>
          simp only [ha] at h1
          simp only [eqDyn, bind, Except.bind] at h2
          cases hl : lookupSyms S dv.args with
          | error err => simp [hl] at h2
          | ok es =>
            simp only [hl] at h2
            cases hx : rx.lookup flux with
            | none => simp [hx] at h2
            | some r =>
              simp only [hx] at h2
              cases hb : dynBody c flux k with
              | none => simp [hb] at h2
              | some f =>
                simp only [hb] at h2
                obtain ⟨old, hold, hd1⟩ := accumulate_inv _ _ _ _ ha
                subst hd1
                have hdv : dv = f.toFn := hlink flux dv (List.mem_cons_self) f hb
                have hcoef : evalS ρ (substArgs es f.body) = n := by
                  apply step_value (fun _ => True) S ρ dep f _ n hS (fun _ _ => trivial)
                  · unfold substFn
                    have : f.args = dv.args := by rw [hdv]; rfl
                    rw [this, hl]; rfl
                  · rw [← hdv]; exact hn
                have hterm : evalS ρ (.mul (substArgs es f.body) r) = n * fv := by
                  simp only [evalS]
                  rw [hcoef, hR flux trivial r fv hx (env_get_inv _ _ _ hf)]
                exact ih _ _ _ _ (fun fl d hm => hlink fl d (List.mem_cons_of_mem _ hm)) h1 h2
                  (eqRel_step ρ eqs dxdt k old _ _ hold hterm hr)

theorem dynAll_sound (c : SContent) (ρ : Name → Rat) (S rx : Symbols) (dep : Env)
    (hS : Agree S ρ dep) (hR : Agree rx ρ dep) :
    ∀ (sts : List (Name × List (Name × Fn))) (dxdt dxdt' : List (Name × Rat)) (eqs eqs' : Symbols),
      (∀ k st, (k, st) ∈ sts → DynLinked c k st) →
      accDynAll dep sts dxdt = .ok dxdt' → eqDynAll c S rx sts eqs = .ok eqs' →
      EqRel ρ eqs dxdt → EqRel ρ eqs' dxdt' := by
  intro sts
  induction sts with
  | nil =>
    intro dxdt dxdt' eqs eqs' _ h1 h2 hr
    simp [accDynAll, pure, Except.pure] at h1; simp [eqDynAll] at h2
    subst h1 h2; exact hr
  | cons kst rest ih =>
    obtain ⟨k, st⟩ := kst
    intro dxdt dxdt' eqs eqs' hlink h1 h2 hr
    simp only [accDynAll, bind, Except.bind] at h1
    simp only [eqDynAll, bind, Except.bind] at h2
    cases ha : accDyn dep k st dxdt with
    | error err => simp [ha] at h1
    | ok d1 =>
      cases he : eqDyn c S rx k st eqs with
      | error err => simp [he] at h2
      | ok e1 =>
        simp only [ha] at h1; simp only [he] at h2
        exact ih _ _ _ _ (fun k' st' hm => hlink k' st' (List.mem_cons_of_mem _ hm)) h1 h2
          (dyn_sound c ρ S rx dep k hS hR st _ _ _ _ (hlink k st (List.mem_cons_self)) ha he hr)

/-- reading the result off: the collected equations evaluate to the collected derivatives -/
theorem collect_sound (ρ : Name → Rat) (eqs : Symbols) (dxdt : List (Name × Rat))
    (hr : EqRel ρ eqs dxdt) :
    ∀ (vn : List Name) (es : List SExpr) (ds : List Rat),
      collectEqs eqs vn = .ok es → vn.mapM (fun k => Env.get dxdt k) = .ok ds →
      es.map (evalS ρ) = ds := by
  intro vn es ds h1 h2
  have a1 := mapM_except_ok _ _ _ h1
  have a2 := mapM_except_ok _ _ _ h2
  clear h1 h2
  induction a1 generalizing ds with
  | nil => cases a2; rfl
  | @cons k e ks es' hke _ ih =>
    cases a2 with
    | cons hkv a2' =>
      simp only [List.map_cons]
      rw [ih _ a2']
      have hv := env_get_inv _ _ _ hkv
      have := hr _ _ hv
      cases hl : eqs.lookup k with
      | none => simp [hl] at hke
      | some e' =>
        simp [hl] at hke
        unfold eqGet at this
        rw [hl] at this
        simp at this
        rw [← hke, this]

end Mxl.C12
