/-
`_create_cache`: the environment evaluated once at time zero is consistent with every
component (initial assignments, derived, rates, surrogates), whatever the declaration order.
-/
import MxlVerif.Lemmas.Cache
namespace Mxl

theorem lookup_of_mem {β} {l : List (Name × β)} (hnd : (l.map (·.1)).Nodup) {k : Name} {v : β}
    (h : (k, v) ∈ l) : l.lookup k = some v := by
  induction l with
  | nil => cases h
  | cons x xs ih =>
    obtain ⟨k', v'⟩ := x
    simp only [List.map_cons, List.nodup_cons] at hnd
    rw [List.lookup_cons]
    rcases List.mem_cons.mp h with heq | hmem
    · cases heq; simp
    · have hne : k ≠ k' := by
        intro heq; subst heq
        exact hnd.1 (List.mem_map.mpr ⟨(k, v), hmem, rfl⟩)
      have : (k == k') = false := by simpa using hne
      simp only [this]
      exact ih hnd.2 hmem

theorem mem_of_lookup {β} {l : List (Name × β)} {k : Name} {v : β}
    (h : l.lookup k = some v) : (k, v) ∈ l := by
  induction l with
  | nil => cases h
  | cons x xs ih =>
    obtain ⟨k', v'⟩ := x
    rw [List.lookup_cons] at h
    by_cases hk : k = k'
    · subst hk; simp at h; subst h; simp
    · have : (k == k') = false := by simpa using hk
      simp only [this] at h
      exact List.mem_cons_of_mem _ (ih h)

/-- the `Dependency` list built in `_create_cache` -/
def depsOf (ts : List (Name × Comp)) : List Dep :=
  ts.map fun kv => { name := kv.1, required := kv.2.args, provided := kv.2.provided kv.1 }

theorem deps_eq (c : Content) : c.deps = depsOf c.toSort := rfl

theorem depsOf_names (ts : List (Name × Comp)) : (depsOf ts).map (·.name) = omKeys ts := by
  simp [depsOf, omKeys, List.map_map, Function.comp_def]

theorem sched_to_schedT (ts : List (Name × Comp)) (hk : (omKeys ts).Nodup) :
    ∀ (av o : List Name), Sched (depsOf ts) av o → SchedT ts av o := by
  intro av o h
  induction h with
  | nil av => exact SchedT.nil av
  | cons av d rest hd hready _ ih =>
    obtain ⟨⟨k, c⟩, hmem, rfl⟩ := List.mem_map.mp hd
    exact SchedT.cons av k c rest (lookup_of_mem hk hmem) ((ready_iff av _).mp hready) ih

/-- result of `[(k, dependent[k]) for k in keys]` -/
theorem mapM_get_spec (env : Env) :
    ∀ (keys : List Name) (out : List (Name × Rat)),
      keys.mapM (fun k => do pure (k, ← env.get k)) = .ok out →
      out.map (·.1) = keys ∧ ∀ kv ∈ out, env.lookup kv.1 = some kv.2 := by
  intro keys
  induction keys with
  | nil =>
    intro out h
    simp [pure, Except.pure] at h
    subst h; simp
  | cons k ks ih =>
    intro out h
    rw [List.mapM_cons] at h
    obtain ⟨kv, h1, h⟩ := bind_ok h
    obtain ⟨rest, h2, h⟩ := bind_ok h
    obtain ⟨v, hv, h1⟩ := bind_ok h1
    simp only [pure, Except.pure, Except.ok.injEq] at h h1
    subst h h1
    obtain ⟨ihk, ihv⟩ := ih rest h2
    refine ⟨by simp [ihk], ?_⟩
    intro kv hkv
    rcases List.mem_cons.mp hkv with rfl | h
    · exact (get_ok_iff env k v).mp hv
    · exact ihv kv h

/-- lookups in the base dict `pars | vars | data | {"time": t}` -/
theorem baseEnv_lookup_none (pars vars data : List (Name × Rat)) (t : Rat) (r : Name)
    (h : r ∉ omKeys pars ++ omKeys vars ++ omKeys data ++ ["time"]) :
    (baseEnv pars vars data t).lookup r = none := by
  rw [List.lookup_eq_none_iff]
  intro p hp
  simp only [List.mem_append, omKeys, List.mem_map, List.mem_singleton, not_or, not_exists,
    not_and] at h
  simp only [baseEnv, List.mem_cons, List.mem_append, List.mem_reverse] at hp
  simp only [bne_iff_ne, ne_eq]
  rcases hp with rfl | (h1 | h1) | h1
  · exact h.2
  · intro heq; exact h.1.2 p h1 heq.symm
  · intro heq; exact h.1.1.2 p h1 heq.symm
  · intro heq; exact h.1.1.1 p h1 heq.symm

theorem baseEnv_lookup_some (pars vars data : List (Name × Rat)) (t : Rat) (r : Name)
    (h : r ∈ omKeys pars ++ omKeys vars ++ omKeys data ++ ["time"]) :
    ((baseEnv pars vars data t).lookup r).isSome := by
  cases hl : (baseEnv pars vars data t).lookup r with
  | some v => rfl
  | none =>
    exfalso
    rw [List.lookup_eq_none_iff] at hl
    simp only [List.mem_append, omKeys, List.mem_map, List.mem_singleton] at h
    have key : ∀ p ∈ baseEnv pars vars data t, r ≠ p.1 := by
      intro p hp; simpa using hl p hp
    rcases h with ((⟨p, hp, rfl⟩ | ⟨p, hp, rfl⟩) | ⟨p, hp, rfl⟩) | rfl
    · exact key p (by simp [baseEnv, hp]) rfl
    · exact key p (by simp [baseEnv, hp]) rfl
    · exact key p (by simp [baseEnv, hp]) rfl
    · exact key ("time", t) (by simp [baseEnv]) rfl

/-- Well-formedness as the shared name space (`Model._ids`) guarantees it: component names
    are distinct, no two components provide the same name, nothing provided is a plain
    parameter / plain variable / data set / `time`, and surrogates return one value per output. -/
structure WFc (c : Content) : Prop where
  keysNodup : (omKeys c.toSort).Nodup
  provNodup : ((omKeys c.toSort).flatMap (providedOf c.toSort)).Nodup
  provFresh : ∀ p ∈ (omKeys c.toSort).flatMap (providedOf c.toSort), p ∉ c.available
  surOk : SurOk c.toSort

/-- **initial resolution.**  If `_create_cache` returns, the environment it evaluated at time 0
    binds every plain parameter / variable / data value and `time = 0` unchanged, and every
    component of `to_sort` (initial assignments of variables and parameters, derived quantities,
    rates, surrogates) holds in it: its value is its function applied to the values of the names
    it mentions.  `initial_conditions` and the assignment-defined parameter values are read
    from that environment. -/
theorem createCache_consistent {c : Content} (hwf : WFc c) {cache : Cache}
    (h : createCache c = .ok cache) :
    ∃ dep : Env,
      (∀ k comp, c.toSort.lookup k = some comp → comp.Holds k dep) ∧
      (∀ n, n ∉ (omKeys c.toSort).flatMap (providedOf c.toSort) →
        dep.lookup n = (baseEnv (plainOf c.pars) (plainOf c.vars) c.data 0).lookup n) ∧
      cache.init.map (·.1) = omKeys c.vars ∧
      (∀ kv ∈ cache.init, dep.lookup kv.1 = some kv.2) ∧
      evalInOrder c.toSort cache.order
        (baseEnv (plainOf c.pars) (plainOf c.vars) c.data 0) = .ok dep ∧
      cache.order.Perm (omKeys c.toSort) ∧ SchedT c.toSort c.available cache.order := by
  obtain ⟨order, dependent, st, dst, init, extra, h1, h2, _, h4, _, hc⟩ := createCache_ok h
  have hnames : (c.deps.map (·.name)).Nodup := by rw [deps_eq, depsOf_names]; exact hwf.keysNodup
  obtain ⟨hperm, hsched, _⟩ := sortDeps_ok_sched c.available c.deps hnames order h1
  rw [deps_eq, depsOf_names] at hperm
  have hschedT := sched_to_schedT c.toSort hwf.keysNodup _ _ (by rw [← deps_eq]; exact hsched)
  have hpermF := hperm.flatMap_right (providedOf c.toSort)
  obtain ⟨env', he, hframe, hholds, _⟩ := evalInOrder_consistent c.toSort hwf.surOk order
    c.available _ hschedT
    (fun r hr => baseEnv_lookup_some _ _ _ 0 r hr)
    (hpermF.nodup_iff.mpr hwf.provNodup)
    (fun p hp => baseEnv_lookup_none _ _ _ 0 p (hwf.provFresh p (hpermF.mem_iff.mp hp)))
  rw [h2] at he
  cases he
  obtain ⟨hik, hiv⟩ := mapM_get_spec dependent _ _ h4
  subst hc
  refine ⟨dependent, ?_, ?_, hik, hiv, h2, hperm, hschedT⟩
  · intro k comp hk
    have : k ∈ order := hperm.mem_iff.mpr (by
      have := mem_of_lookup hk
      exact List.mem_map.mpr ⟨(k, comp), this, rfl⟩)
    exact hholds k this comp hk
  · intro n hn
    exact hframe n (fun hmem => hn (hpermF.mem_iff.mp hmem))

end Mxl
