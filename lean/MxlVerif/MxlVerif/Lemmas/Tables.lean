/-
The coefficient tables `_create_cache` builds (`stoich_by_cpds` / `dyn_stoich_by_cpds`,
`model.py:528-560`) against the content: summed over both tables, the contribution to a
variable `x` is the sum, over every reaction / surrogate flux and every entry of its
stoichiometry that names `x`, of coefficient × flux.  Static coefficient functions were frozen at
time zero; the statement holds for every environment in which they still evaluate to that value.
-/
import MxlVerif.Lemmas.Rhs
import MxlVerif.Lemmas.Args
namespace Mxl

/-! ### generic rows / tables -/

def rowG {β} (cv : β → Rat) (dep : Env) : List (Name × β) → Rat
  | [] => 0
  | (flux, n) :: r => cv n * valOf dep flux + rowG cv dep r

def contribG {β} (w : List (Name × β) → Rat) (x : Name) :
    List (Name × List (Name × β)) → Rat
  | [] => 0
  | (k, st) :: rest => (if k = x then w st else 0) + contribG w x rest

theorem rowS_eq (dep : Env) : ∀ r, rowS dep r = rowG id dep r := by
  intro r
  induction r with
  | nil => rfl
  | cons e r ih => obtain ⟨f, n⟩ := e; simp only [rowS, rowG, ih, id]

theorem rowD_eq (dep : Env) : ∀ r, rowD dep r = rowG (coefOf dep) dep r := by
  intro r
  induction r with
  | nil => rfl
  | cons e r ih => obtain ⟨f, n⟩ := e; simp only [rowD, rowG, ih]

theorem contribS_eq (dep : Env) (x : Name) : ∀ m, contribS dep x m = contribG (rowG id dep) x m := by
  intro m
  induction m with
  | nil => rfl
  | cons e r ih => obtain ⟨k, st⟩ := e; simp only [contribS, contribG, ih, rowS_eq]

theorem contribD_eq (dep : Env) (x : Name) :
    ∀ m, contribD dep x m = contribG (rowG (coefOf dep) dep) x m := by
  intro m
  induction m with
  | nil => rfl
  | cons e r ih => obtain ⟨k, st⟩ := e; simp only [contribD, contribG, ih, rowD_eq]

theorem rowG_omInsert {β} (cv : β → Rat) (dep : Env) (rxn : Name) (v : β) :
    ∀ row : List (Name × β), rxn ∉ omKeys row →
      rowG cv dep (omInsert row rxn v) = rowG cv dep row + cv v * valOf dep rxn := by
  intro row
  induction row with
  | nil => intro _; simp only [omInsert, rowG]; grind
  | cons e r ih =>
    intro h
    obtain ⟨k, n⟩ := e
    simp only [omKeys, List.map_cons, List.mem_cons, not_or] at h
    have hk : (k == rxn) = false := by
      have : k ≠ rxn := fun heq => h.1 heq.symm
      simpa using this
    simp only [omInsert, hk, Bool.false_eq_true, if_false, rowG]
    rw [ih h.2]
    grind

theorem contribG_omInsert {β} (w : List (Name × β) → Rat) (hw : w [] = 0) (x cpd : Name)
    (newrow : List (Name × β)) (δ : Rat) :
    ∀ m : List (Name × List (Name × β)),
      w newrow = w ((m.lookup cpd).getD []) + δ →
      contribG w x (omInsert m cpd newrow) = contribG w x m + (if cpd = x then δ else 0) := by
  intro m
  induction m with
  | nil =>
    intro h
    simp only [List.lookup_nil, Option.getD_none, hw] at h
    simp only [omInsert, contribG, h]
    split <;> grind
  | cons e r ih =>
    intro h
    obtain ⟨k, row⟩ := e
    by_cases hk : k = cpd
    · subst hk
      simp only [List.lookup_cons, beq_self_eq_true, Option.getD_some] at h
      simp only [omInsert, beq_self_eq_true, if_true, contribG, h]
      split <;> grind
    · have hk1 : (k == cpd) = false := by simpa using hk
      have hk2 : (cpd == k) = false := by
        have : cpd ≠ k := fun heq => hk heq.symm
        simpa using this
      simp only [List.lookup_cons, hk2] at h
      simp only [omInsert, hk1, Bool.false_eq_true, if_false, contribG]
      rw [ih h]
      grind

theorem contribG_append {β} (w : List (Name × β) → Rat) (x : Name) :
    ∀ (m m' : List (Name × List (Name × β))),
      contribG w x (m ++ m') = contribG w x m + contribG w x m' := by
  intro m m'
  induction m with
  | nil => simp only [List.nil_append, contribG]; grind
  | cons e r ih =>
    obtain ⟨k, row⟩ := e
    simp only [List.cons_append, contribG, ih]
    grind

theorem contribG_touch {β} (w : List (Name × β) → Rat) (hw : w [] = 0) (x cpd : Name)
    (m : List (Name × List (Name × β))) :
    contribG w x (touchNested m cpd) = contribG w x m := by
  unfold touchNested
  cases m.lookup cpd with
  | some _ => rfl
  | none =>
    simp only [contribG_append, contribG, hw]
    split <;> grind

/-- the row of compound `cpd` mentions flux `rxn` -/
def inRow {β} (m : List (Name × List (Name × β))) (cpd rxn : Name) : Prop :=
  rxn ∈ omKeys ((m.lookup cpd).getD [])

theorem lookup_append_single {β} (m : List (Name × β)) (k x : Name) (v : β)
    (h : m.lookup k = none) :
    (m ++ [(k, v)]).lookup x = if x = k then some v else m.lookup x := by
  induction m with
  | nil =>
    simp only [List.nil_append, List.lookup_cons, List.lookup_nil]
    by_cases hx : x = k
    · subst hx; simp
    · have : (x == k) = false := by simpa using hx
      simp [this, hx]
  | cons e r ih =>
    obtain ⟨k', v'⟩ := e
    simp only [List.lookup_cons] at h
    by_cases hk : k = k'
    · subst hk; simp at h
    · have hk1 : (k == k') = false := by simpa using hk
      simp only [hk1] at h
      simp only [List.cons_append, List.lookup_cons]
      by_cases hx : x = k'
      · subst hx
        have : ¬ x = k := fun heq => hk heq.symm
        simp [this]
      · have hx1 : (x == k') = false := by simpa using hx
        simp only [hx1]
        exact ih h

theorem getD_lookup_touch {β} (m : List (Name × List (Name × β))) (cpd c' : Name) :
    ((touchNested m cpd).lookup c').getD [] = (m.lookup c').getD [] := by
  unfold touchNested
  cases h : m.lookup cpd with
  | some _ => rfl
  | none =>
    simp only
    rw [lookup_append_single m cpd c' [] h]
    by_cases hc : c' = cpd
    · subst hc; simp [h]
    · simp [hc]

theorem inRow_touch {β} (m : List (Name × List (Name × β))) (cpd c' r' : Name) :
    inRow (touchNested m cpd) c' r' ↔ inRow m c' r' := by
  unfold inRow; rw [getD_lookup_touch]

theorem inRow_setNested {β} (m : List (Name × List (Name × β))) (cpd rxn : Name) (v : β)
    (c' r' : Name) (h : inRow (setNested m cpd rxn v) c' r') :
    inRow m c' r' ∨ (c' = cpd ∧ r' = rxn) := by
  unfold inRow setNested at h
  rw [lookup_omInsert] at h
  by_cases hc : c' = cpd
  · subst hc
    simp only [if_true, Option.getD_some, mem_keys_omInsert] at h
    rcases h with h | h
    · exact Or.inr ⟨rfl, h⟩
    · exact Or.inl h
  · simp only [hc, if_false] at h
    exact Or.inl h

theorem contribG_setNested {β} (cv : β → Rat) (dep : Env) (x cpd rxn : Name) (v : β)
    (m : List (Name × List (Name × β))) (h : ¬ inRow m cpd rxn) :
    contribG (rowG cv dep) x (setNested m cpd rxn v) =
      contribG (rowG cv dep) x m + (if cpd = x then cv v * valOf dep rxn else 0) := by
  unfold setNested
  exact contribG_omInsert (rowG cv dep) rfl x cpd _ _ m (rowG_omInsert cv dep rxn v _ h)

/-! ### the content-side sum -/

def coefVal (dep : Env) : Coef → Rat
  | .num q => q
  | .dyn f => coefOf dep f

/-- contribution of one flux's stoichiometry to variable `x` -/
def stoichSum (dep : Env) (x flux : Name) : List (Name × Coef) → Rat
  | [] => 0
  | (cpd, coef) :: r =>
    (if cpd = x then coefVal dep coef * valOf dep flux else 0) + stoichSum dep x flux r

/-- Σ over (flux, stoich) of Σ over (cpd, coef) ∈ stoich with cpd = x of coef × flux -/
def totalOf (dep : Env) (x : Name) : List (Name × List (Name × Coef)) → Rat
  | [] => 0
  | (flux, st) :: r => stoichSum dep x flux st + totalOf dep x r

def accTotal (dep : Env) (x : Name) (acc : StoichAcc) : Rat :=
  contribS dep x acc.1 + contribD dep x acc.2

theorem calc_coefOf {f : Fn} {env : Env} {v : Rat} (h : f.calc env = .ok v) :
    v = coefOf env f := by
  unfold Fn.calc at h
  obtain ⟨vs, hvs, h0⟩ := bind_ok h
  simp only [pure, Except.pure, Except.ok.injEq] at h0
  rw [← h0, lookupArgs_valOf hvs]; rfl

/-- inserting one frozen coefficient into the static table -/
theorem static_insert (dep : Env) (x cpd rxn : Name) (q : Rat)
    (S : List (Name × List (Name × Rat))) (h : ¬ inRow S cpd rxn) :
    contribS dep x (setNested (touchNested S cpd) cpd rxn q) =
      contribS dep x S + (if cpd = x then q * valOf dep rxn else 0) := by
  rw [contribS_eq, contribS_eq,
    contribG_setNested id dep x cpd rxn q _ (fun hh => h ((inRow_touch S cpd cpd rxn).mp hh)),
    contribG_touch _ rfl]
  rfl

theorem inRow_static_insert (cpd rxn : Name) (q : Rat) (S : List (Name × List (Name × Rat)))
    (c' r' : Name) (h : inRow (setNested (touchNested S cpd) cpd rxn q) c' r') :
    inRow S c' r' ∨ (c' = cpd ∧ r' = rxn) := by
  rcases inRow_setNested _ cpd rxn q c' r' h with h1 | h1
  · exact Or.inl ((inRow_touch S cpd c' r').mp h1)
  · exact Or.inr h1

theorem addCoef_spec (apn : List Name) (dependent dep : Env) (x : Name) (acc acc' : StoichAcc)
    (rxn cpd : Name) (factor : Coef)
    (hcoef : ∀ f, factor = .dyn f → (∀ a ∈ f.args, a ∈ apn) → coefOf dep f = coefOf dependent f)
    (h : addCoef apn dependent acc rxn cpd factor = .ok acc')
    (h1 : ¬ inRow acc.1 cpd rxn) (h2 : ¬ inRow acc.2 cpd rxn) :
    accTotal dep x acc' =
      accTotal dep x acc + (if cpd = x then coefVal dep factor * valOf dep rxn else 0) ∧
    (∀ c' r', inRow acc'.1 c' r' → inRow acc.1 c' r' ∨ (c' = cpd ∧ r' = rxn)) ∧
    (∀ c' r', inRow acc'.2 c' r' → inRow acc.2 c' r' ∨ (c' = cpd ∧ r' = rxn)) := by
  unfold addCoef at h
  cases factor with
  | num q =>
    simp only [pure, Except.pure, Except.ok.injEq] at h
    subst h
    refine ⟨?_, inRow_static_insert cpd rxn q acc.1, fun c' r' hh => Or.inl hh⟩
    simp only [accTotal, static_insert dep x cpd rxn q acc.1 h1, coefVal]
    grind
  | dyn f =>
    simp only at h
    by_cases hall : (f.args.all fun a => apn.contains a) = true
    · simp only [hall, if_true] at h
      obtain ⟨v, hv, h⟩ := bind_ok h
      simp only [pure, Except.pure, Except.ok.injEq] at h
      subst h
      have hargs : ∀ a ∈ f.args, a ∈ apn := by
        intro a ha
        have := List.all_eq_true.mp hall a ha
        simpa using this
      have hval : v = coefOf dep f := by
        rw [calc_coefOf hv, hcoef f rfl hargs]
      subst hval
      refine ⟨?_, inRow_static_insert cpd rxn _ acc.1, fun c' r' hh => Or.inl hh⟩
      simp only [accTotal, static_insert dep x cpd rxn _ acc.1 h1, coefVal]
      grind
    · have hall0 : (f.args.all fun a => apn.contains a) = false := by simpa using hall
      simp only [hall0, Bool.false_eq_true, if_false, pure, Except.pure, Except.ok.injEq] at h
      subst h
      refine ⟨?_, fun c' r' hh => Or.inl ((inRow_touch acc.1 cpd c' r').mp hh),
        inRow_setNested acc.2 cpd rxn f⟩
      simp only [accTotal, coefVal]
      rw [contribS_eq, contribG_touch _ rfl, ← contribS_eq, contribD_eq,
        contribG_setNested (coefOf dep) dep x cpd rxn f acc.2 h2, ← contribD_eq]
      grind

theorem addCoefs_spec (apn : List Name) (dependent dep : Env) (x rxn : Name) :
    ∀ (st : List (Name × Coef)) (acc acc' : StoichAcc),
      (∀ cpd f, (cpd, Coef.dyn f) ∈ st → (∀ a ∈ f.args, a ∈ apn) →
        coefOf dep f = coefOf dependent f) →
      addCoefs apn dependent rxn st acc = .ok acc' →
      (omKeys st).Nodup →
      (∀ cpd ∈ omKeys st, ¬ inRow acc.1 cpd rxn ∧ ¬ inRow acc.2 cpd rxn) →
      accTotal dep x acc' = accTotal dep x acc + stoichSum dep x rxn st ∧
      (∀ c' r', inRow acc'.1 c' r' → inRow acc.1 c' r' ∨ r' = rxn) ∧
      (∀ c' r', inRow acc'.2 c' r' → inRow acc.2 c' r' ∨ r' = rxn) := by
  intro st
  induction st with
  | nil =>
    intro acc acc' _ h _ _
    simp only [addCoefs, pure, Except.pure, Except.ok.injEq] at h
    subst h
    refine ⟨?_, fun _ _ hh => Or.inl hh, fun _ _ hh => Or.inl hh⟩
    simp only [stoichSum]; grind
  | cons e rest ih =>
    intro acc acc' hcoef h hnd hfresh
    obtain ⟨cpd, factor⟩ := e
    simp only [addCoefs] at h
    obtain ⟨acc1, hstep, h⟩ := bind_ok h
    simp only [omKeys, List.map_cons, List.nodup_cons] at hnd
    have hf := hfresh cpd (by simp [omKeys])
    obtain ⟨ht1, hr1, hr2⟩ := addCoef_spec apn dependent dep x acc acc1 rxn cpd factor
      (fun f hf' hargs => hcoef cpd f (by rw [hf']; simp) hargs) hstep hf.1 hf.2
    obtain ⟨ht, hq1, hq2⟩ := ih acc1 acc'
      (fun c' f hm hargs => hcoef c' f (List.mem_cons_of_mem _ hm) hargs) h hnd.2
      (by
        intro c' hc'
        have hne : c' ≠ cpd := fun heq => hnd.1 (heq ▸ hc')
        have hf' := hfresh c' (by
          simp only [omKeys, List.map_cons, List.mem_cons]; exact Or.inr hc')
        constructor
        · intro hh
          rcases hr1 c' rxn hh with h3 | h3
          · exact hf'.1 h3
          · exact hne h3.1
        · intro hh
          rcases hr2 c' rxn hh with h3 | h3
          · exact hf'.2 h3
          · exact hne h3.1)
    refine ⟨?_, ?_, ?_⟩
    · rw [ht, ht1]; simp only [stoichSum]; grind
    · intro c' r' hh
      rcases hq1 c' r' hh with h3 | h3
      · rcases hr1 c' r' h3 with h4 | h4
        · exact Or.inl h4
        · exact Or.inr h4.2
      · exact Or.inr h3
    · intro c' r' hh
      rcases hq2 c' r' hh with h3 | h3
      · rcases hr2 c' r' h3 with h4 | h4
        · exact Or.inl h4
        · exact Or.inr h4.2
      · exact Or.inr h3

theorem addRxns_spec (apn : List Name) (dependent dep : Env) (x : Name) :
    ∀ (tbl : List (Name × List (Name × Coef))) (acc acc' : StoichAcc),
      (∀ flux st cpd f, (flux, st) ∈ tbl → (cpd, Coef.dyn f) ∈ st → (∀ a ∈ f.args, a ∈ apn) →
        coefOf dep f = coefOf dependent f) →
      addRxns apn dependent tbl acc = .ok acc' →
      (omKeys tbl).Nodup →
      (∀ flux st, (flux, st) ∈ tbl → (omKeys st).Nodup) →
      (∀ rxn ∈ omKeys tbl, ∀ cpd, ¬ inRow acc.1 cpd rxn ∧ ¬ inRow acc.2 cpd rxn) →
      accTotal dep x acc' = accTotal dep x acc + totalOf dep x tbl := by
  intro tbl
  induction tbl with
  | nil =>
    intro acc acc' _ h _ _ _
    simp only [addRxns, pure, Except.pure, Except.ok.injEq] at h
    subst h
    simp only [totalOf]; grind
  | cons e rest ih =>
    intro acc acc' hcoef h hnd hstnd hfresh
    obtain ⟨rxn, st⟩ := e
    simp only [addRxns] at h
    obtain ⟨acc1, hstep, h⟩ := bind_ok h
    simp only [omKeys, List.map_cons, List.nodup_cons] at hnd
    obtain ⟨ht1, hr1, hr2⟩ := addCoefs_spec apn dependent dep x rxn st acc acc1
      (fun cpd f hm hargs => hcoef rxn st cpd f (by simp) hm hargs) hstep
      (hstnd rxn st (by simp))
      (fun cpd _ => hfresh rxn (by simp [omKeys]) cpd)
    have ht := ih acc1 acc'
      (fun flux st' cpd f hm hm' hargs => hcoef flux st' cpd f (List.mem_cons_of_mem _ hm) hm' hargs)
      h hnd.2 (fun flux st' hm => hstnd flux st' (List.mem_cons_of_mem _ hm))
      (by
        intro r' hr' cpd
        have hne : r' ≠ rxn := fun heq => hnd.1 (heq ▸ hr')
        have hf' := hfresh r' (by
          simp only [omKeys, List.map_cons, List.mem_cons]; exact Or.inr hr') cpd
        constructor
        · intro hh
          rcases hr1 cpd r' hh with h3 | h3
          · exact hf'.1 h3
          · exact hne h3
        · intro hh
          rcases hr2 cpd r' hh with h3 | h3
          · exact hf'.2 h3
          · exact hne h3)
    rw [ht, ht1]; simp only [totalOf]; grind

/-- **the tables are the content's stoichiometry.**  If `addRxns` (the table-building loop of
    `_create_cache`) succeeds from empty tables on a list of (flux, stoichiometry) with distinct
    flux names and distinct compound keys in each stoichiometry, then in every environment `dep`
    in which the static coefficient functions evaluate as they did at time zero, the static and
    dynamic tables together contribute to `x` exactly Σ coefficient × flux over the entries naming
    `x`. -/
theorem addRxns_tables (apn : List Name) (dependent dep : Env) (x : Name)
    (tbl : List (Name × List (Name × Coef)))
    {st : List (Name × List (Name × Rat))} {dst : List (Name × List (Name × Fn))}
    (h : addRxns apn dependent tbl ([], []) = .ok (st, dst))
    (hflux : (omKeys tbl).Nodup)
    (hcpd : ∀ flux s, (flux, s) ∈ tbl → (omKeys s).Nodup)
    (hcoef : ∀ flux s cpd f, (flux, s) ∈ tbl → (cpd, Coef.dyn f) ∈ s →
      (∀ a ∈ f.args, a ∈ apn) → coefOf dep f = coefOf dependent f) :
    contribS dep x st + contribD dep x dst = totalOf dep x tbl := by
  have := addRxns_spec apn dependent dep x tbl ([], []) (st, dst) hcoef h hflux hcpd
    (by intro rxn _ cpd; simp [inRow, omKeys])
  simp only [accTotal, contribS, contribD] at this
  rw [this]; grind

/-- the same for the cache `_create_cache` returns -/
theorem createCache_tables {c : Content} {cache : Cache} (h : createCache c = .ok cache)
    (hflux : (omKeys c.allStoich).Nodup)
    (hcpd : ∀ flux s, (flux, s) ∈ c.allStoich → (omKeys s).Nodup) :
    ∃ dependent : Env,
      evalInOrder c.toSort cache.order
        (baseEnv (plainOf c.pars) (plainOf c.vars) c.data 0) = .ok dependent ∧
      ∀ (dep : Env) (x : Name),
        (∀ flux s cpd f, (flux, s) ∈ c.allStoich → (cpd, Coef.dyn f) ∈ s →
          (∀ a ∈ f.args, a ∈ (classify c cache.order [] [] (omKeys c.pars)).2.2) →
          coefOf dep f = coefOf dependent f) →
        contribS dep x cache.stoich + contribD dep x cache.dynStoich =
          totalOf dep x c.allStoich := by
  obtain ⟨order, dependent, st, dst, init, extra, _, h2, h3, _, _, hc⟩ := createCache_ok h
  subst hc
  refine ⟨dependent, h2, ?_⟩
  intro dep x hcoef
  exact addRxns_tables _ dependent dep x c.allStoich h3 hflux hcpd hcoef

theorem coefOf_congr {dep dep' : Env} (f : Fn) (h : ∀ a ∈ f.args, dep.lookup a = dep'.lookup a) :
    coefOf dep f = coefOf dep' f := by
  unfold coefOf
  congr 1
  apply List.map_congr_left
  intro a ha
  simp only [valOf, h a ha]

/-- `createCache_tables` with the coefficient hypothesis discharged from agreement of the two
    environments on the parameter-name set -/
theorem createCache_tables_of_agree {c : Content} {cache : Cache} (h : createCache c = .ok cache)
    (hflux : (omKeys c.allStoich).Nodup)
    (hcpd : ∀ flux s, (flux, s) ∈ c.allStoich → (omKeys s).Nodup) :
    ∃ dependent : Env,
      evalInOrder c.toSort cache.order
        (baseEnv (plainOf c.pars) (plainOf c.vars) c.data 0) = .ok dependent ∧
      ∀ (dep : Env) (x : Name),
        (∀ a ∈ (classify c cache.order [] [] (omKeys c.pars)).2.2,
          dep.lookup a = dependent.lookup a) →
        contribS dep x cache.stoich + contribD dep x cache.dynStoich =
          totalOf dep x c.allStoich := by
  obtain ⟨dependent, he, hall⟩ := createCache_tables h hflux hcpd
  refine ⟨dependent, he, ?_⟩
  intro dep x hag
  apply hall dep x
  intro _ _ _ f _ _ hargs
  exact coefOf_congr f (fun a ha => hag a (hargs a ha))

/-- **the right-hand side is Σ coefficient × flux.**  Under the hypotheses of
    `createCache_tables`, the entry `rhsFromArgs` computes for a variable `x` from an argument
    table `dep` is the content-level sum over all stoichiometry entries naming `x`. -/
theorem rhsFromArgs_total {c : Content} {cache : Cache} (h : createCache c = .ok cache)
    (hflux : (omKeys c.allStoich).Nodup)
    (hcpd : ∀ flux s, (flux, s) ∈ c.allStoich → (omKeys s).Nodup) :
    ∃ dependent : Env,
      evalInOrder c.toSort cache.order
        (baseEnv (plainOf c.pars) (plainOf c.vars) c.data 0) = .ok dependent ∧
      ∀ (dep : Env) (vn : List Name) (dxdt : List (Name × Rat)),
        (∀ flux s cpd f, (flux, s) ∈ c.allStoich → (cpd, Coef.dyn f) ∈ s →
          (∀ a ∈ f.args, a ∈ (classify c cache.order [] [] (omKeys c.pars)).2.2) →
          coefOf dep f = coefOf dependent f) →
        rhsFromArgs cache vn dep = .ok dxdt →
        ∀ x ∈ vn, dxdt.lookup x = some (totalOf dep x c.allStoich) := by
  obtain ⟨dependent, he, hall⟩ := createCache_tables h hflux hcpd
  refine ⟨dependent, he, ?_⟩
  intro dep vn dxdt hcoef hr x hx
  rw [rhsFromArgs_lookup hr x, if_pos hx, hall dep x hcoef]

end Mxl
