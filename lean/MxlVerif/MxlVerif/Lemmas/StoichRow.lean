/-
`get_stoichiometries_of_variable` returns the variable's row of `get_stoichiometries`.
-/
import MxlVerif.Lemmas.Final
import MxlVerif.Model.Queries
namespace Mxl

theorem lookup_setNested_self {β} (m : List (Name × List (Name × β))) (cpd rxn : Name) (v : β) :
    (setNested m cpd rxn v).lookup cpd = some (omInsert ((m.lookup cpd).getD []) rxn v) := by
  unfold setNested; rw [lookup_omInsert]; simp

theorem lookup_setNested_other {β} (m : List (Name × List (Name × β))) (cpd rxn x : Name) (v : β)
    (h : x ≠ cpd) : (setNested m cpd rxn v).lookup x = m.lookup x := by
  unfold setNested; rw [lookup_omInsert]; simp [h]

theorem overlayDyn_other (dep : Env) (cpd x : Name) (hx : x ≠ cpd) :
    ∀ (m : List (Name × Fn)) (st st' : List (Name × List (Name × Rat))),
      overlayDyn dep cpd m st = .ok st' → st'.lookup x = st.lookup x := by
  intro m
  induction m with
  | nil => intro st st' h; simp only [overlayDyn, pure, Except.pure, Except.ok.injEq] at h; rw [h]
  | cons e rest ih =>
    obtain ⟨rxn, f⟩ := e
    intro st st' h
    unfold overlayDyn at h
    obtain ⟨v, _, h⟩ := bind_ok h
    rw [ih _ _ h, lookup_setNested_other _ _ _ _ _ hx]

theorem overlayDyn_self (dep : Env) (cpd : Name) :
    ∀ (m : List (Name × Fn)) (st st' : List (Name × List (Name × Rat))) (row : List (Name × Rat)),
      overlayDyn dep cpd m st = .ok st' → st.lookup cpd = some row →
      ∃ row', overlayRow dep m row = .ok row' ∧ st'.lookup cpd = some row' := by
  intro m
  induction m with
  | nil =>
    intro st st' row h hrow
    simp only [overlayDyn, pure, Except.pure, Except.ok.injEq] at h
    exact ⟨row, rfl, by rw [← h]; exact hrow⟩
  | cons e rest ih =>
    obtain ⟨rxn, f⟩ := e
    intro st st' row h hrow
    unfold overlayDyn at h
    obtain ⟨v, hv, h⟩ := bind_ok h
    have hl : (setNested st cpd rxn v).lookup cpd = some (omInsert row rxn v) := by
      rw [lookup_setNested_self, hrow]; rfl
    obtain ⟨row', h1, h2⟩ := ih _ _ _ h hl
    refine ⟨row', ?_, h2⟩
    unfold overlayRow
    simp only [hv, bind, Except.bind]
    exact h1

theorem overlayDynAll_spec (dep : Env) (x : Name) :
    ∀ (D : List (Name × List (Name × Fn))) (st tbl : List (Name × List (Name × Rat))),
      (omKeys D).Nodup → overlayDynAll dep D st = .ok tbl →
      (x ∉ omKeys D → tbl.lookup x = st.lookup x) ∧
      (∀ m row, D.lookup x = some m → st.lookup x = some row →
        ∃ row', overlayRow dep m row = .ok row' ∧ tbl.lookup x = some row') := by
  intro D
  induction D with
  | nil =>
    intro st tbl _ h
    simp only [overlayDynAll, pure, Except.pure, Except.ok.injEq] at h
    subst h
    exact ⟨fun _ => rfl, fun m row hm _ => by cases hm⟩
  | cons e rest ih =>
    obtain ⟨cpd, m0⟩ := e
    intro st tbl hnd h
    simp only [omKeys, List.map_cons, List.nodup_cons] at hnd
    unfold overlayDynAll at h
    obtain ⟨st', h1, h⟩ := bind_ok h
    obtain ⟨ihA, ihB⟩ := ih st' tbl hnd.2 h
    constructor
    · intro hx
      simp only [omKeys, List.map_cons, List.mem_cons, not_or] at hx
      rw [ihA hx.2, overlayDyn_other dep cpd x hx.1 _ _ _ h1]
    · intro m row hm hrow
      by_cases hxc : x = cpd
      · subst hxc
        have hm0 : m = m0 := by
          simp only [List.lookup_cons, beq_self_eq_true] at hm
          exact (Option.some.inj hm).symm
        subst hm0
        obtain ⟨row', h2, h3⟩ := overlayDyn_self dep x _ _ _ _ h1 hrow
        exact ⟨row', h2, by rw [ihA hnd.1]; exact h3⟩
      · have hne : (x == cpd) = false := by simpa using hxc
        simp only [List.lookup_cons, hne] at hm
        exact ihB m row hm (by rw [overlayDyn_other dep cpd x hxc _ _ _ h1]; exact hrow)

/-- the row query is the table query's row, for any cache whose state-dependent table has each
    compound once and only compounds the static table knows (true of every cache `_create_cache`
    builds, `createCache_dyn_keys`) -/
theorem getStoichOfVar_eq_row {c : Content} {cache : Cache} (hc : createCache c = .ok cache)
    (hnd : (omKeys cache.dynStoich).Nodup)
    (hsub : ∀ k ∈ omKeys cache.dynStoich, k ∈ omKeys cache.stoich)
    (vars : Option (List (Name × Rat))) (t : Rat) (x : Name)
    {tbl : List (Name × List (Name × Rat))} (h : getStoich c vars t = .ok tbl) :
    getStoichOfVar c x vars t =
      match tbl.lookup x with
      | some row => .ok row
      | none => .error (.keyError x) := by
  unfold getStoich at h
  simp only [hc, bind, Except.bind] at h
  cases he : getArgsEnv c cache (resolveVars cache vars) t with
  | error e => simp [he] at h
  | ok dep =>
    simp only [he] at h
    obtain ⟨hA, hB⟩ := overlayDynAll_spec dep x _ _ _ hnd h
    unfold getStoichOfVar
    simp only [hc, he, bind, Except.bind]
    cases hs : cache.stoich.lookup x with
    | none =>
      have hx : x ∉ omKeys cache.dynStoich := fun hm => by
        obtain ⟨v, hv⟩ := lookup_isSome_of_mem_keys (hsub x hm)
        rw [hs] at hv; cases hv
      simp only [hA hx, hs]
    | some row =>
      cases hd : cache.dynStoich.lookup x with
      | none =>
        have hx : x ∉ omKeys cache.dynStoich := fun hm => by
          obtain ⟨v, hv⟩ := lookup_isSome_of_mem_keys hm
          rw [hd] at hv; cases hv
        simp only [hA hx, hs, Option.getD, overlayRow, pure, Except.pure]
      | some m =>
        obtain ⟨row', h1, h2⟩ := hB m row hd hs
        simp only [h2, Option.getD, h1]

/-! ### the two coefficient tables `_create_cache` builds: each compound once, and the
state-dependent table only knows compounds of the static one (`setdefault(cpd, {})` comes first) -/

def TablesInv (acc : StoichAcc) : Prop :=
  (omKeys acc.1).Nodup ∧ (omKeys acc.2).Nodup ∧ ∀ k ∈ omKeys acc.2, k ∈ omKeys acc.1

theorem mem_keys_touchNested {β} (m : List (Name × List (Name × β))) (cpd x : Name) :
    x ∈ omKeys (touchNested m cpd) ↔ x = cpd ∨ x ∈ omKeys m := by
  unfold touchNested
  cases h : m.lookup cpd with
  | some v =>
    have : cpd ∈ omKeys m := List.mem_map.mpr ⟨(cpd, v), mem_of_lookup h, rfl⟩
    constructor
    · exact Or.inr
    · rintro (rfl | h') <;> simp_all
  | none =>
    simp only [omKeys, List.map_append, List.map_cons, List.map_nil, List.mem_append,
      List.mem_singleton]
    constructor
    · rintro (h' | h') <;> simp [h']
    · rintro (h' | h') <;> simp [h']

theorem nodup_keys_touchNested {β} (m : List (Name × List (Name × β))) (cpd : Name)
    (h : (omKeys m).Nodup) : (omKeys (touchNested m cpd)).Nodup := by
  unfold touchNested
  cases hl : m.lookup cpd with
  | some v => exact h
  | none =>
    have hn : cpd ∉ omKeys m := fun hm => by
      obtain ⟨v, hv⟩ := lookup_isSome_of_mem_keys hm
      rw [hl] at hv; cases hv
    simp only [omKeys, List.map_append, List.map_cons, List.map_nil]
    exact List.nodup_append.mpr ⟨h, by simp, by
      intro a ha b hb; simp at hb; subst hb; exact fun hab => hn (hab ▸ ha)⟩

theorem addCoef_inv (apn : List Name) (dep : Env) (acc acc' : StoichAcc) (rxn cpd : Name)
    (f : Coef) (hi : TablesInv acc) (h : addCoef apn dep acc rxn cpd f = .ok acc') :
    TablesInv acc' := by
  obtain ⟨h1, h2, h3⟩ := hi
  have hst := nodup_keys_touchNested acc.1 cpd h1
  have hstatic : ∀ v : Rat, TablesInv (setNested (touchNested acc.1 cpd) cpd rxn v, acc.2) := by
    intro v
    refine ⟨nodup_keys_omInsert _ _ _ hst, h2, fun k hk => ?_⟩
    unfold setNested
    rw [mem_keys_omInsert, mem_keys_touchNested]
    exact Or.inr (Or.inr (h3 k hk))
  unfold addCoef at h
  cases f with
  | num c =>
    simp only [pure, Except.pure, Except.ok.injEq] at h
    rw [← h]; exact hstatic c
  | dyn g =>
    simp only at h
    by_cases hall : (g.args.all fun a => apn.contains a) = true
    · rw [if_pos hall] at h
      obtain ⟨v, _, h⟩ := bind_ok h
      simp only [pure, Except.pure, Except.ok.injEq] at h
      rw [← h]; exact hstatic v
    · rw [if_neg hall] at h
      simp only [pure, Except.pure, Except.ok.injEq] at h
      rw [← h]
      refine ⟨hst, nodup_keys_omInsert _ _ _ h2, fun k hk => ?_⟩
      unfold setNested at hk
      rw [mem_keys_omInsert] at hk
      rw [mem_keys_touchNested]
      rcases hk with rfl | hk
      · exact Or.inl rfl
      · exact Or.inr (h3 k hk)

theorem addCoefs_inv (apn : List Name) (dep : Env) (rxn : Name) :
    ∀ (l : List (Name × Coef)) (acc acc' : StoichAcc), TablesInv acc →
      addCoefs apn dep rxn l acc = .ok acc' → TablesInv acc' := by
  intro l
  induction l with
  | nil => intro acc acc' hi h; simp only [addCoefs, pure, Except.pure, Except.ok.injEq] at h; rw [← h]; exact hi
  | cons e rest ih =>
    obtain ⟨cpd, f⟩ := e
    intro acc acc' hi h
    unfold addCoefs at h
    obtain ⟨a1, h1, h⟩ := bind_ok h
    exact ih _ _ (addCoef_inv apn dep acc a1 rxn cpd f hi h1) h

theorem addRxns_inv (apn : List Name) (dep : Env) :
    ∀ (l : List (Name × List (Name × Coef))) (acc acc' : StoichAcc), TablesInv acc →
      addRxns apn dep l acc = .ok acc' → TablesInv acc' := by
  intro l
  induction l with
  | nil => intro acc acc' hi h; simp only [addRxns, pure, Except.pure, Except.ok.injEq] at h; rw [← h]; exact hi
  | cons e rest ih =>
    obtain ⟨rxn, st⟩ := e
    intro acc acc' hi h
    unfold addRxns at h
    obtain ⟨a1, h1, h⟩ := bind_ok h
    exact ih _ _ (addCoefs_inv apn dep rxn st acc a1 hi h1) h

theorem createCache_dyn_keys {c : Content} {cache : Cache} (hc : createCache c = .ok cache) :
    (omKeys cache.dynStoich).Nodup ∧ ∀ k ∈ omKeys cache.dynStoich, k ∈ omKeys cache.stoich := by
  obtain ⟨order, dependent, st, dst, init, extra, _, _, h3, _, _, hcache⟩ := createCache_ok hc
  have := addRxns_inv _ _ _ _ _ ⟨by simp [omKeys], by simp [omKeys], by intro k hk; cases hk⟩ h3
  rw [hcache]
  exact ⟨this.2.1, this.2.2⟩

/-- **`get_stoichiometries_of_variable` is the variable's row of `get_stoichiometries`**: whenever the
    table query answers, the row query answers with that variable's row — or `KeyError` for a variable
    no stoichiometry mentions — for every state and time. -/
theorem getStoichOfVar_is_row {c : Content} (vars : Option (List (Name × Rat))) (t : Rat)
    (x : Name) {tbl : List (Name × List (Name × Rat))} (h : getStoich c vars t = .ok tbl) :
    getStoichOfVar c x vars t =
      match tbl.lookup x with
      | some row => .ok row
      | none => .error (.keyError x) := by
  cases hc : createCache c with
  | error e => unfold getStoich at h; simp [hc, bind, Except.bind] at h
  | ok cache =>
    obtain ⟨hnd, hsub⟩ := createCache_dyn_keys hc
    exact getStoichOfVar_eq_row hc hnd hsub vars t x h

end Mxl
