/-
C10 helper lemmas, part 7: producers / consumers.
-/
import MxlVerif.Lemmas.C10Views2
namespace Mxl.C10

/-! ### segment lengths are preserved by every stage -/

theorem mapE_lengths {α β} {f : List α → Except Err (List β)} {l : List (List α)}
    {out : List (List β)} (hf : ∀ a b, f a = .ok b → b.length = a.length)
    (h : mapE f l = .ok out) : out.map List.length = l.map List.length := by
  have h2 := (mapE_ok_iff _ _ _).1 h
  clear h
  induction h2 with
  | nil => rfl
  | cons hab _ ih => simp [hf _ _ hab, ih]

theorem selectTable_length {names : List Name} {t t' : Table}
    (h : selectTable names t = .ok t') : t'.length = t.length := mapE_length h

theorem normSplit_lengths {tabs out : List Table} {n : Norm} (h : normSplit tabs n = .ok out) :
    out.map List.length = tabs.map List.length := by
  cases n with
  | none => simp [normSplit] at h; subst h; rfl
  | scalar f =>
    simp only [normSplit] at h
    exact mapE_lengths (fun a b hab => by unfold divTable at hab; exact mapE_length hab) h
  | list fs =>
    simp only [normSplit] at h
    split at h
    · rename_i hl
      obtain ⟨rfl, _, _⟩ := perSegment_ok h
      exact perSeg_lengths tabs fs hl
    · exact (perRow_ok h).1

theorem zipWithE_lengths {β} {f : Table → β → Except Err Table} {l : List Table} {m : List β}
    {out : List Table} (hf : ∀ a b c, f a b = .ok c → c.length = a.length)
    (h : zipWithE f l m = .ok out) : out.map List.length = l.map List.length := by
  induction l generalizing m out with
  | nil => cases m <;> simp [zipWithE] at h; subst h; rfl
  | cons a as ih =>
    cases m with
    | nil => simp [zipWithE] at h
    | cons b bs =>
      unfold zipWithE at h
      split at h
      · cases h
      · rename_i c hc
        split at h
        · cases h
        · rename_i cs hcs
          cases h
          simp [hf _ _ _ hc, ih hcs]

theorem specSegArgs_length {m0 : Content} {tbl a : Table} {p : Pars}
    (h : specSegArgs m0 tbl p = .ok a) : a.length = tbl.length := by
  rw [specSegArgs_eq] at h
  split at h
  · cases h
  · exact mapE_length h

/-- the frames a non-concatenated argument view returns have the segments' lengths, and
    the full tables behind them are the specified ones -/
theorem getArgsV_shape {res : Res} {m0 : Content} {st st' : St} {f : Flags} {n : Norm}
    {F : List Table} (wf : WF res m0) (hi : Inv res m0 st)
    (h : getArgsV res f n false st = .ok (.frames F, st')) :
    ∃ T, specAllArgs res m0 = .ok T ∧ F.map List.length = res.rawVars.map List.length := by
  unfold getArgsV at h
  split at h
  · cases h
  · rename_i T st1 hca
    obtain ⟨hs, _, _, _⟩ := computeArgs_spec wf hi hca
    split at h
    · cases h
    · rename_i sel hsel
      split at h
      · cases h
      · rename_i v' hv
        cases h
        refine ⟨T, hs, ?_⟩
        unfold adjust at hv
        split at hv
        · cases hv
        · rename_i tabs' hn
          simp only [Bool.false_eq_true, if_false] at hv
          cases hv
          rw [normSplit_lengths hn]
          unfold selectData at hsel
          split at hsel
          · cases hsel
          · rw [mapE_lengths (fun a b hab => selectTable_length hab) hsel]
            exact zipWithE_lengths (fun a b c hc => specSegArgs_length hc) hs

/-! ### scaling -/

/-- the row transformation `scaleTable` applies -/
def scaleRowBy (coefs : List (Name × Rat)) (r : Rat × Row) : Rat × Row :=
  (r.1, r.2.map fun kv =>
    match coefs.lookup kv.1 with
    | some x => (kv.1, kv.2 * x)
    | none => kv)

def scaleCoefs (stoichs : List (Name × Rat)) (names : List Name) (sgn : Rat) :
    Except Err (List (Name × Rat)) :=
  mapE (fun k => match stoichs.lookup k with
      | none => .error (.keyError k)
      | some x => .ok (k, sgn * x)) names

theorem scaleTable_eq (stoichs : List (Name × Rat)) (names : List Name) (sgn : Rat) (t : Table) :
    scaleTable stoichs names sgn t =
      match scaleCoefs stoichs names sgn with
      | .error e => .error e
      | .ok coefs => .ok (t.map (scaleRowBy coefs)) := rfl

/-- no state- or time-dependent coefficient on variable `v` in any segment's model -/
def NoDynCoef (res : Res) (m0 : Content) (v : Name) : Prop :=
  ∀ p ∈ res.rawPars, ∀ c cache, withPars m0 p = .ok c → createCache c = .ok cache →
    (cache.dynStoich.lookup v).getD [] = []

/-- the same, as a computable check (the hypothesis of the `_partial` theorems) -/
def noDynCoefB (res : Res) (m0 : Content) (v : Name) : Bool :=
  res.rawPars.all fun p =>
    match withPars m0 p with
    | .error _ => true
    | .ok c =>
      match createCache c with
      | .error _ => true
      | .ok cache => ((cache.dynStoich.lookup v).getD []).isEmpty

theorem noDynCoef_of_B {res : Res} {m0 : Content} {v : Name} (h : noDynCoefB res m0 v = true) :
    NoDynCoef res m0 v := by
  intro p hp c cache hw hc
  unfold noDynCoefB at h
  rw [List.all_eq_true] at h
  have := h p hp
  rw [hw] at this
  simp only at this
  rw [hc] at this
  simpa using this

theorem zipE_eq {α β γ} (f : α → β → Except Err γ) :
    ∀ (a : List α) (b : List β), zipE f a b = zipWithE f a b := by
  intro a
  induction a with
  | nil => intro b; cases b <;> rfl
  | cons x xs ih =>
    intro b
    cases b with
    | nil => rfl
    | cons y ys =>
      unfold zipE zipWithE
      rw [ih ys]
      cases f x y with
      | error e => rfl
      | ok c => cases zipWithE f xs ys <;> rfl

/-- coefficients first, then the rows = coefficient and row together, row by row -/
theorem zip_fuse {α β γ δ} (g : β → Except Err γ) (h : α → γ → Except Err δ) :
    ∀ (raw : List β) (fl : List α) (sts : List γ) (out : List δ),
      mapE g raw = .ok sts → zipWithE h fl sts = .ok out →
      zipWithE (bindRow g h) fl raw = .ok out := by
  intro raw
  induction raw with
  | nil =>
    intro fl sts out hm hz
    simp [mapE] at hm; subst hm
    cases fl with
    | nil => simpa [zipWithE] using hz
    | cons _ _ => simp [zipWithE] at hz
  | cons s raw ih =>
    intro fl sts out hm hz
    unfold mapE at hm
    split at hm
    · cases hm
    · rename_i st hst
      split at hm
      · cases hm
      · rename_i sts' hsts
        cases hm
        cases fl with
        | nil => simp [zipWithE] at hz
        | cons r fl =>
          unfold zipWithE at hz ⊢
          simp only [bindRow, hst]
          split at hz
          · cases hz
          · rename_i c hc
            split at hz
            · cases hz
            · rename_i cs hcs
              cases hz
              rw [ih fl sts' cs hsts hcs]

/-- scaling by no name leaves a row as it is -/
theorem scaleRowWith_nil (sgn : Rat) (r : Rat × Row) (st : List (Name × Rat)) :
    scaleRowWith [] sgn r st = .ok r := by
  obtain ⟨t, row⟩ := r
  simp only [scaleRowWith, scaleTable, mapE, List.map_cons, List.map_nil]
  have : (row.map fun kv => match ([] : List (Name × Rat)).lookup kv.1 with
      | some x => (kv.1, kv.2 * x)
      | none => kv) = row := by
    induction row with
    | nil => rfl
    | cons a as ih => simp [List.lookup]
  simp [this]

/-- with no name selected and as many flux rows as raw rows, the row-by-row form returns the rows as they are -/
theorem zip_no_names (g : (Rat × Row) → Except Err (List (Name × Rat))) (sgn : Rat) :
    ∀ (raw fl : Table) (sts : List (List (Name × Rat))), mapE g raw = .ok sts → fl.length = raw.length →
      zipWithE (bindRow g (scaleRowWith [] sgn)) fl raw = .ok fl := by
  intro raw
  induction raw with
  | nil =>
    intro fl sts _ hl
    cases fl with
    | nil => rfl
    | cons _ _ => simp at hl
  | cons s raw ih =>
    intro fl sts hm hl
    unfold mapE at hm
    split at hm
    · cases hm
    · rename_i st hst
      split at hm
      · cases hm
      · rename_i sts' hsts
        cases fl with
        | nil => simp at hl
        | cons r fl =>
          unfold zipWithE
          simp only [bindRow, hst]
          rw [scaleRowWith_nil]
          rw [ih fl sts' hsts (by simpa using hl)]

/-- one segment of the scaled branch is the specified one once the threaded model is the model with the segment's
    snapshot applied (the flux table has the raw table's length) -/
theorem scaleSeg_spec {m0 c1 : Content} {v : Name} {names : List Name}
    {sgn : Rat} {tbl s s' : Table} {p : Pars}
    (hw0 : withPars m0 p = .ok c1) (hlen : s.length = tbl.length)
    (hs : scaleSegRows c1 v names sgn s tbl = .ok s') :
    specScaleSeg m0 v names sgn s (tbl, p) = .ok s' := by
  have hspec : specScaleSeg m0 v names sgn s (tbl, p) =
      zipWithE (bindRow (fun (s : Rat × Row) => stoichOfVarAt c1 v (some s.2) s.1) (scaleRowWith names sgn)) s tbl := by
    unfold specScaleSeg
    simp only
    rw [hw0]
  rw [hspec]
  unfold scaleSegRows at hs
  split at hs
  · cases hs
  · rename_i sts hsts
    by_cases hn : names.isEmpty = true
    · simp only [hn, if_true] at hs
      cases hs
      have : names = [] := by simpa using hn
      subst this
      exact zip_no_names _ sgn tbl s sts hsts hlen
    · simp only [hn, Bool.false_eq_true, if_false] at hs
      rw [zipE_eq] at hs
      exact zip_fuse _ _ tbl s sts s' hsts hs

theorem scaleLoop_spec {m0 : Content} {v : Name} {names : List Name} {sgn : Rat} :
    ∀ (tabs : List Table) (ps : List Pars) (sel : List Table) (c : Content)
      (out : List Table) (c' : Content),
      PlainEq m0 c → (∀ p ∈ ps, Covers m0 p) → (∀ p ∈ ps, PlainOnly m0 p) →
      sel.map List.length = tabs.map List.length →
      scaleLoop v names sgn c sel tabs ps = .ok (out, c') →
      zipWithE (specScaleSeg m0 v names sgn) sel (tabs.zip ps) = .ok out ∧ PlainEq m0 c' := by
  intro tabs
  induction tabs with
  | nil =>
    intro ps sel c out c' hc _ _ _ h
    cases ps with
    | nil =>
      cases sel with
      | nil => simp [scaleLoop] at h; obtain ⟨rfl, rfl⟩ := h; exact ⟨rfl, hc⟩
      | cons _ _ => simp [scaleLoop] at h
    | cons p ps => cases sel <;> simp [scaleLoop] at h
  | cons tbl ts ih =>
    intro ps sel c out c' hc hcov hpo hlen h
    cases ps with
    | nil => cases sel <;> simp [scaleLoop] at h
    | cons p ps =>
      cases sel with
      | nil => simp [scaleLoop] at h
      | cons s ss =>
        simp only [List.map_cons, List.cons.injEq] at hlen
        unfold scaleLoop at h
        split at h
        · cases h
        · rename_i c1 hw
          split at h
          · cases h
          · rename_i s' hs'
            split at h
            · cases h
            · rename_i rest c2 hrest
              cases h
              have hc1 : PlainEq m0 c1 := withPars_plainEq (hpo p (by simp)) hc hw
              have hw0 : withPars m0 p = .ok c1 := by
                rw [← withPars_absorb hc (hcov p (by simp))]; exact hw
              obtain ⟨hz, hc2⟩ := ih ps ss c1 rest c' hc1
                (fun q hq => hcov q (by simp [hq])) (fun q hq => hpo q (by simp [hq])) hlen.2 hrest
              refine ⟨?_, hc2⟩
              simp only [List.zip_cons_cons]
              unfold zipWithE
              rw [scaleSeg_spec hw0 hlen.1 hs']
              simp only
              rw [hz]

/-! ### the sign filter -/

/-- the same key twice in a duplicate-free dict: the same entry -/
theorem nodup_keys_unique {st : List (Name × Rat)} {k : Name} {x1 x2 : Rat}
    (hn : (omKeys st).Nodup) (hm1 : (k, x1) ∈ st) (hm2 : (k, x2) ∈ st) : x1 = x2 := by
  induction st with
  | nil => simp at hm1
  | cons a as ih =>
    simp only [omKeys, List.map_cons, List.nodup_cons] at hn
    simp only [List.mem_cons] at hm1 hm2
    rcases hm1 with h1 | hm1
    · rcases hm2 with h2 | hm2
      · have := h1.trans h2.symm
        exact (Prod.ext_iff.1 this).2
      · subst h1
        exact absurd (List.mem_map.2 ⟨_, hm2, rfl⟩) hn.1
    · rcases hm2 with h2 | hm2
      · subst h2
        exact absurd (List.mem_map.2 ⟨_, hm1, rfl⟩) hn.1
      · exact ih hn.2 hm1 hm2

theorem pickNames_disjoint (st : List (Name × Rat)) (k : Name) :
    ¬ (k ∈ pickNames true st ∧ k ∈ pickNames false st ∧ (omKeys st).Nodup) := by
  intro ⟨h1, h2, hn⟩
  simp only [pickNames, List.mem_map, List.mem_filter, if_true, Bool.false_eq_true,
    if_false, decide_eq_true_eq] at h1 h2
  obtain ⟨⟨k1, x1⟩, ⟨hm1, hp⟩, rfl⟩ := h1
  obtain ⟨⟨k2, x2⟩, ⟨hm2, hq⟩, hk⟩ := h2
  simp only at hk hp hq
  subst hk
  have : x1 = x2 := nodup_keys_unique hn hm1 hm2
  subst this
  grind

theorem pickNames_cover (st : List (Name × Rat)) (k : Name) (x : Rat) (h : (k, x) ∈ st)
    (hx : x ≠ 0) : k ∈ pickNames true st ∨ k ∈ pickNames false st := by
  simp only [pickNames, List.mem_map, List.mem_filter, if_true, Bool.false_eq_true,
    if_false, decide_eq_true_eq]
  by_cases hlt : x < 0
  · exact .inr ⟨(k, x), ⟨h, hlt⟩, rfl⟩
  · by_cases hgt : 0 < x
    · exact .inl ⟨(k, x), ⟨h, hgt⟩, rfl⟩
    · exact absurd (Rat.le_antisymm (Rat.not_lt.1 hgt) (Rat.not_lt.1 hlt)) hx

theorem specAdjust_none (out : List Table) (cc : Bool) :
    specAdjust out .none cc =
      if cc then
        if out.isEmpty then .error (.valueError "No objects to concatenate")
        else .ok (.frame out.flatten)
      else .ok (.frames out) := by
  simp [specAdjust, specNorm, specFactors]

/-- producers / consumers refine the specification — scaled or not, whatever the coefficients depend on -/
theorem getProdConsV_spec {res : Res} {m0 : Content} {k0 : Cache} {st st' : St}
    {prod : Bool} {v : Name} {scaled : Bool} {n : Norm} {cc : Bool} {view : View}
    (wf : WF res m0) (hm0 : createCache m0 = .ok k0) (hi : Inv res m0 st)
    (h : getProdConsV res prod v scaled n cc st = .ok (view, st')) :
    specProdCons res m0 prod v scaled n cc = .ok view ∧ Inv res m0 st' ∧
      st'.model = st.model := by
  unfold getProdConsV at h
  unfold specProdCons
  split at h
  · cases h
  · rename_i p0 rest hps
    have hp0 : p0 ∈ res.rawPars := by rw [hps]; simp
    split at h
    · cases h
    · rename_i c0 hw
      have hw0 : withPars m0 p0 = .ok c0 := by
        rw [← withPars_absorb hi.model (wf.covers p0 hp0)]; exact hw
      have hc0 : PlainEq m0 c0 := withPars_plainEq (wf.plainOnly p0 hp0) hi.model hw
      split at h
      · cases h
      · rename_i s0 hs0
        simp only at h
        have hi0 : Inv res m0 { st with model := c0 } := ⟨hc0, hi.memo⟩
        split at h
        · cases h
        · rename_i tabs st1 hfl
          obtain ⟨hsf, hi1, _⟩ := getFluxesV_spec wf hm0 hi0 hfl
          obtain ⟨T, hT, hlenF⟩ := getArgsV_shape wf hi0 hfl
          have hil : Inv res m0 { st1 with model := st.model } := ⟨hi.model, hi1.memo⟩
          split at h
          · cases h
          · rename_i sel hsel
            have hlenS : sel.map List.length = res.rawVars.map List.length := by
              rw [mapE_lengths (fun a b hab => selectTable_length hab) hsel, hlenF]
            rw [hps]; simp only
            rw [← hps]
            rw [hw0]; simp only
            rw [hs0]; simp only
            rw [hsf]; simp only
            rw [hsel]; simp only
            cases scaled with
            | false =>
              simp only [Bool.false_eq_true, if_false] at h ⊢
              rw [specAdjust_none]
              split at h
              · split at h
                · cases h
                · rename_i hcc hne
                  cases h
                  simp [hcc, hne]
                  exact hil
              · rename_i hcc
                cases h
                simp [hcc]
                exact hil
            | true =>
              simp only [if_true] at h ⊢
              split at h
              · cases h
              · rename_i out c hsc
                obtain ⟨hz, _⟩ := scaleLoop_spec res.rawVars res.rawPars sel st1.model out c
                  hi1.model wf.covers wf.plainOnly hlenS hsc
                rw [hz]; simp only
                rw [specAdjust_none]
                split at h
                · split at h
                  · cases h
                  · rename_i hcc hne
                    cases h
                    simp [hcc, hne]
                    exact hil
                · rename_i hcc
                  cases h
                  simp [hcc]
                  exact hil
        · cases h

end Mxl.C10
