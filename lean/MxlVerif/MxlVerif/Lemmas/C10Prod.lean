/-
C10 helper lemmas, part 7: producers / consumers.
-/
import MxlVerif.Lemmas.C10Views2
namespace Mxl.C10

/-! ### segment lengths are preserved by every stage -/

theorem mapE_lengths {α β} {f : List α → Except Err (List β)} {l : List (List α)}
    {out : List (List β)} (hf : ∀ a b, f a = .ok b → b.length = a.length)
    (h : mapE f l = .ok out) : out.map List.length = l.map List.length := by
  have h2 := (mapE_ok_iff _ _ _).1 h
  clear h
  induction h2 with
  | nil => rfl
  | cons hab _ ih => simp [hf _ _ hab, ih]

theorem selectTable_length {names : List Name} {t t' : Table}
    (h : selectTable names t = .ok t') : t'.length = t.length := mapE_length h

theorem normSplit_lengths {tabs out : List Table} {n : Norm} (h : normSplit tabs n = .ok out) :
    out.map List.length = tabs.map List.length := by
  cases n with
  | none => simp [normSplit] at h; subst h; rfl
  | scalar f =>
    simp only [normSplit] at h
    exact mapE_lengths (fun a b hab => by unfold divTable at hab; exact mapE_length hab) h
  | list fs =>
    simp only [normSplit] at h
    split at h
    · rename_i hl
      obtain ⟨rfl, _, _⟩ := perSegment_ok h
      exact perSeg_lengths tabs fs hl
    · exact (perRow_ok h).1

theorem zipWithE_lengths {β} {f : Table → β → Except Err Table} {l : List Table} {m : List β}
    {out : List Table} (hf : ∀ a b c, f a b = .ok c → c.length = a.length)
    (h : zipWithE f l m = .ok out) : out.map List.length = l.map List.length := by
  induction l generalizing m out with
  | nil => cases m <;> simp [zipWithE] at h; subst h; rfl
  | cons a as ih =>
    cases m with
    | nil => simp [zipWithE] at h
    | cons b bs =>
      unfold zipWithE at h
      split at h
      · cases h
      · rename_i c hc
        split at h
        · cases h
        · rename_i cs hcs
          cases h
          simp [hf _ _ _ hc, ih hcs]

theorem specSegArgs_length {m0 : Content} {tbl a : Table} {p : Pars}
    (h : specSegArgs m0 tbl p = .ok a) : a.length = tbl.length := by
  rw [specSegArgs_eq] at h
  split at h
  · cases h
  · exact mapE_length h

/-- the frames a non-concatenated argument view returns have the segments' lengths, and
    the full tables behind them are the specified ones -/
theorem getArgsV_shape {res : Res} {m0 : Content} {st st' : St} {f : Flags} {n : Norm}
    {F : List Table} (wf : WF res m0) (hi : Inv res m0 st)
    (h : getArgsV res f n false st = .ok (.frames F, st')) :
    ∃ T, specAllArgs res m0 = .ok T ∧ F.map List.length = res.rawVars.map List.length := by
  unfold getArgsV at h
  split at h
  · cases h
  · rename_i T st1 hca
    obtain ⟨hs, _, _, _⟩ := computeArgs_spec wf hi hca
    split at h
    · cases h
    · rename_i sel hsel
      split at h
      · cases h
      · rename_i v' hv
        cases h
        refine ⟨T, hs, ?_⟩
        unfold adjust at hv
        split at hv
        · cases hv
        · rename_i tabs' hn
          simp only [Bool.false_eq_true, if_false] at hv
          cases hv
          rw [normSplit_lengths hn]
          unfold selectData at hsel
          split at hsel
          · cases hsel
          · rw [mapE_lengths (fun a b hab => selectTable_length hab) hsel]
            exact zipWithE_lengths (fun a b c hc => specSegArgs_length hc) hs

/-! ### scaling -/

/-- the row transformation `scaleTable` applies -/
def scaleRowBy (coefs : List (Name × Rat)) (r : Rat × Row) : Rat × Row :=
  (r.1, r.2.map fun kv =>
    match coefs.lookup kv.1 with
    | some x => (kv.1, kv.2 * x)
    | none => kv)

def scaleCoefs (stoichs : List (Name × Rat)) (names : List Name) (sgn : Rat) :
    Except Err (List (Name × Rat)) :=
  mapE (fun k => match stoichs.lookup k with
      | none => .error (.keyError k)
      | some x => .ok (k, sgn * x)) names

theorem scaleTable_eq (stoichs : List (Name × Rat)) (names : List Name) (sgn : Rat) (t : Table) :
    scaleTable stoichs names sgn t =
      match scaleCoefs stoichs names sgn with
      | .error e => .error e
      | .ok coefs => .ok (t.map (scaleRowBy coefs)) := rfl

/-- no state- or time-dependent coefficient on variable `v` in any segment's model -/
def NoDynCoef (res : Res) (m0 : Content) (v : Name) : Prop :=
  ∀ p ∈ res.rawPars, ∀ c cache, withPars m0 p = .ok c → createCache c = .ok cache →
    (cache.dynStoich.lookup v).getD [] = []

/-- the same, as a computable check (the hypothesis of the `_partial` theorems) -/
def noDynCoefB (res : Res) (m0 : Content) (v : Name) : Bool :=
  res.rawPars.all fun p =>
    match withPars m0 p with
    | .error _ => true
    | .ok c =>
      match createCache c with
      | .error _ => true
      | .ok cache => ((cache.dynStoich.lookup v).getD []).isEmpty

theorem noDynCoef_of_B {res : Res} {m0 : Content} {v : Name} (h : noDynCoefB res m0 v = true) :
    NoDynCoef res m0 v := by
  intro p hp c cache hw hc
  unfold noDynCoefB at h
  rw [List.all_eq_true] at h
  have := h p hp
  rw [hw] at this
  simp only at this
  rw [hc] at this
  simpa using this

theorem stoich_nodyn {c : Content} {cache : Cache} {v : Name} {st : List (Name × Rat)}
    {s : Row} {t : Rat} (hc : createCache c = .ok cache)
    (hnd : (cache.dynStoich.lookup v).getD [] = [])
    (h : stoichOfVar c v = .ok st) (hp : ∃ row, pointRow c t s = .ok row) :
    stoichOfVarAt c v (some s) t = .ok st := by
  unfold stoichOfVar stoichOfVarAt at h
  unfold stoichOfVarAt
  rw [hc] at h ⊢
  simp only at h ⊢
  have hdep : ∃ dep, getArgsEnv c cache s t = .ok dep := by
    obtain ⟨row, hrow⟩ := hp
    cases hg : getArgsEnv c cache s t with
    | error e => simp [pointRow, hc, pointEnv, hg] at hrow
    | ok dep => exact ⟨dep, rfl⟩
  obtain ⟨dep, hdep⟩ := hdep
  simp only [resolveVars, Option.getD_some]
  rw [hdep]
  simp only
  split at h
  · cases h
  · split at h
    · cases h
    · rw [hnd] at h ⊢
      simpa [overlayVar] using h

theorem zipWithE_map {α β γ} (f : α → β → Except Err γ) (g : α → γ) (l : List α) (m : List β)
    (hl : l.length = m.length) (hf : ∀ a b, a ∈ l → b ∈ m → f a b = .ok (g a)) :
    zipWithE f l m = .ok (l.map g) := by
  induction l generalizing m with
  | nil => cases m with
    | nil => rfl
    | cons _ _ => simp at hl
  | cons a as ih =>
    cases m with
    | nil => simp at hl
    | cons b bs =>
      unfold zipWithE
      rw [hf a b (by simp) (by simp)]
      simp only
      rw [ih bs (by simpa using hl) (fun x y hx hy => hf x y (by simp [hx]) (by simp [hy]))]
      rfl

theorem scaleSeg_spec {m0 c1 : Content} {cache : Cache} {v : Name} {names : List Name}
    {sgn : Rat} {tbl a s s' : Table} {p : Pars} {st : List (Name × Rat)}
    (hw0 : withPars m0 p = .ok c1) (hc : createCache c1 = .ok cache)
    (hnd : (cache.dynStoich.lookup v).getD [] = [])
    (ha : mapE (specRowFn c1) tbl = .ok a) (hlen : s.length = tbl.length)
    (hst : stoichOfVar c1 v = .ok st) (hs : scaleTable st names sgn s = .ok s') :
    specScaleSeg m0 v names sgn s (tbl, p) = .ok s' := by
  unfold specScaleSeg
  simp only
  rw [hw0]
  simp only
  rw [scaleTable_eq] at hs
  split at hs
  · cases hs
  · rename_i coefs hcoefs
    cases hs
    apply zipWithE_map _ _ _ _ hlen
    intro r row _ hrow
    have hp : ∃ x, pointRow c1 row.1 row.2 = .ok x := by
      have h0 := (mapE_ok_iff _ _ _).1 ha
      clear ha hlen
      induction h0 with
      | nil => simp at hrow
      | cons hab _ ih =>
        simp at hrow
        rcases hrow with rfl | hrow
        · unfold specRowFn at hab
          split at hab
          · cases hab
          · exact ⟨_, by assumption⟩
        · exact ih hrow
    rw [stoich_nodyn hc hnd hst hp]
    simp only
    rw [scaleTable_eq, hcoefs]
    simp

theorem scaleLoop_spec {m0 : Content} {v : Name} {names : List Name} {sgn : Rat} :
    ∀ (tabs : List Table) (ps : List Pars) (T sel : List Table) (c : Content)
      (out : List Table) (c' : Content),
      PlainEq m0 c → (∀ p ∈ ps, Covers m0 p) → (∀ p ∈ ps, PlainOnly m0 p) →
      (∀ p ∈ ps, ∀ c cache, withPars m0 p = .ok c → createCache c = .ok cache →
        (cache.dynStoich.lookup v).getD [] = []) →
      zipWithE (specSegArgs m0) tabs ps = .ok T →
      sel.map List.length = tabs.map List.length →
      scaleLoop v names sgn c sel ps = .ok (out, c') →
      zipWithE (specScaleSeg m0 v names sgn) sel (tabs.zip ps) = .ok out ∧ PlainEq m0 c' := by
  intro tabs
  induction tabs with
  | nil =>
    intro ps T sel c out c' hc _ _ _ hT hlen h
    cases ps with
    | nil =>
      cases sel with
      | nil => simp [scaleLoop] at h; obtain ⟨rfl, rfl⟩ := h; exact ⟨rfl, hc⟩
      | cons _ _ => simp at hlen
    | cons p ps => simp [zipWithE] at hT
  | cons tbl ts ih =>
    intro ps T sel c out c' hc hcov hpo hnd hT hlen h
    cases ps with
    | nil => simp [zipWithE] at hT
    | cons p ps =>
      cases sel with
      | nil => simp at hlen
      | cons s ss =>
        simp only [List.map_cons, List.cons.injEq] at hlen
        unfold zipWithE at hT
        split at hT
        · cases hT
        · rename_i a ha
          split at hT
          · cases hT
          · rename_i as has
            cases hT
            unfold scaleLoop at h
            split at h
            · cases h
            · rename_i c1 hw
              split at h
              · cases h
              · rename_i st hst
                split at h
                · cases h
                · rename_i s' hs'
                  split at h
                  · cases h
                  · rename_i rest c2 hrest
                    cases h
                    have hc1 : PlainEq m0 c1 := withPars_plainEq (hpo p (by simp)) hc hw
                    have hw0 : withPars m0 p = .ok c1 := by
                      rw [← withPars_absorb hc (hcov p (by simp))]; exact hw
                    obtain ⟨hz, hc2⟩ := ih ps as ss c1 rest c' hc1
                      (fun q hq => hcov q (by simp [hq])) (fun q hq => hpo q (by simp [hq]))
                      (fun q hq => hnd q (by simp [hq])) has hlen.2 hrest
                    refine ⟨?_, hc2⟩
                    rw [specSegArgs_eq, hw0] at ha
                    simp only at ha
                    have : ∃ cache, createCache c1 = .ok cache := by
                      unfold stoichOfVar stoichOfVarAt at hst
                      split at hst
                      · cases hst
                      · exact ⟨_, by assumption⟩
                    obtain ⟨cache, hcache⟩ := this
                    simp only [List.zip_cons_cons]
                    unfold zipWithE
                    rw [scaleSeg_spec hw0 hcache (hnd p (by simp) c1 cache hw0 hcache) ha
                      hlen.1 hst hs']
                    simp only
                    rw [hz]

/-! ### the sign filter -/

/-- the same key twice in a duplicate-free dict: the same entry -/
theorem nodup_keys_unique {st : List (Name × Rat)} {k : Name} {x1 x2 : Rat}
    (hn : (omKeys st).Nodup) (hm1 : (k, x1) ∈ st) (hm2 : (k, x2) ∈ st) : x1 = x2 := by
  induction st with
  | nil => simp at hm1
  | cons a as ih =>
    simp only [omKeys, List.map_cons, List.nodup_cons] at hn
    simp only [List.mem_cons] at hm1 hm2
    rcases hm1 with h1 | hm1
    · rcases hm2 with h2 | hm2
      · have := h1.trans h2.symm
        exact (Prod.ext_iff.1 this).2
      · subst h1
        exact absurd (List.mem_map.2 ⟨_, hm2, rfl⟩) hn.1
    · rcases hm2 with h2 | hm2
      · subst h2
        exact absurd (List.mem_map.2 ⟨_, hm1, rfl⟩) hn.1
      · exact ih hn.2 hm1 hm2

theorem pickNames_disjoint (st : List (Name × Rat)) (k : Name) :
    ¬ (k ∈ pickNames true st ∧ k ∈ pickNames false st ∧ (omKeys st).Nodup) := by
  intro ⟨h1, h2, hn⟩
  simp only [pickNames, List.mem_map, List.mem_filter, if_true, Bool.false_eq_true,
    if_false, decide_eq_true_eq] at h1 h2
  obtain ⟨⟨k1, x1⟩, ⟨hm1, hp⟩, rfl⟩ := h1
  obtain ⟨⟨k2, x2⟩, ⟨hm2, hq⟩, hk⟩ := h2
  simp only at hk hp hq
  subst hk
  have : x1 = x2 := nodup_keys_unique hn hm1 hm2
  subst this
  grind

theorem pickNames_cover (st : List (Name × Rat)) (k : Name) (x : Rat) (h : (k, x) ∈ st)
    (hx : x ≠ 0) : k ∈ pickNames true st ∨ k ∈ pickNames false st := by
  simp only [pickNames, List.mem_map, List.mem_filter, if_true, Bool.false_eq_true,
    if_false, decide_eq_true_eq]
  by_cases hlt : x < 0
  · exact .inr ⟨(k, x), ⟨h, hlt⟩, rfl⟩
  · by_cases hgt : 0 < x
    · exact .inl ⟨(k, x), ⟨h, hgt⟩, rfl⟩
    · exact absurd (Rat.le_antisymm (Rat.not_lt.1 hgt) (Rat.not_lt.1 hlt)) hx

theorem specAdjust_none (out : List Table) (cc : Bool) :
    specAdjust out .none cc =
      if cc then
        if out.isEmpty then .error (.valueError "No objects to concatenate")
        else .ok (.frame out.flatten)
      else .ok (.frames out) := by
  simp [specAdjust, specNorm, specFactors]

/-- producers / consumers refine the specification, provided a *scaled* request is not
    made for a variable with a state- or time-dependent coefficient (finding F-C10-2) -/
theorem getProdConsV_spec {res : Res} {m0 : Content} {k0 : Cache} {st st' : St}
    {prod : Bool} {v : Name} {scaled : Bool} {n : Norm} {cc : Bool} {view : View}
    (wf : WF res m0) (hm0 : createCache m0 = .ok k0) (hi : Inv res m0 st)
    (hq : scaled = true → NoDynCoef res m0 v)
    (h : getProdConsV res prod v scaled n cc st = .ok (view, st')) :
    specProdCons res m0 prod v scaled n cc = .ok view ∧ Inv res m0 st' ∧
      st'.model = st.model := by
  unfold getProdConsV at h
  unfold specProdCons
  split at h
  · cases h
  · rename_i p0 rest hps
    have hp0 : p0 ∈ res.rawPars := by rw [hps]; simp
    split at h
    · cases h
    · rename_i c0 hw
      have hw0 : withPars m0 p0 = .ok c0 := by
        rw [← withPars_absorb hi.model (wf.covers p0 hp0)]; exact hw
      have hc0 : PlainEq m0 c0 := withPars_plainEq (wf.plainOnly p0 hp0) hi.model hw
      split at h
      · cases h
      · rename_i s0 hs0
        simp only at h
        have hi0 : Inv res m0 { st with model := c0 } := ⟨hc0, hi.memo⟩
        split at h
        · cases h
        · rename_i tabs st1 hfl
          obtain ⟨hsf, hi1, _⟩ := getFluxesV_spec wf hm0 hi0 hfl
          obtain ⟨T, hT, hlenF⟩ := getArgsV_shape wf hi0 hfl
          have hil : Inv res m0 { st1 with model := st.model } := ⟨hi.model, hi1.memo⟩
          split at h
          · cases h
          · rename_i sel hsel
            have hlenS : sel.map List.length = res.rawVars.map List.length := by
              rw [mapE_lengths (fun a b hab => selectTable_length hab) hsel, hlenF]
            rw [hps]; simp only
            rw [← hps]
            rw [hw0]; simp only
            rw [hs0]; simp only
            rw [hsf]; simp only
            rw [hsel]; simp only
            cases scaled with
            | false =>
              simp only [Bool.false_eq_true, if_false] at h ⊢
              rw [specAdjust_none]
              split at h
              · split at h
                · cases h
                · rename_i hcc hne
                  cases h
                  simp [hcc, hne]
                  exact hil
              · rename_i hcc
                cases h
                simp [hcc]
                exact hil
            | true =>
              simp only [if_true] at h ⊢
              split at h
              · cases h
              · rename_i out c hsc
                obtain ⟨hz, _⟩ := scaleLoop_spec res.rawVars res.rawPars T sel st1.model out c
                  hi1.model wf.covers wf.plainOnly (hq rfl) hT hlenS hsc
                rw [hz]; simp only
                rw [specAdjust_none]
                split at h
                · split at h
                  · cases h
                  · rename_i hcc hne
                    cases h
                    simp [hcc, hne]
                    exact hil
                · rename_i hcc
                  cases h
                  simp [hcc]
                  exact hil
        · cases h

end Mxl.C10
