/- helper lemmas for Model/C08Compartment.lean: `_free_reference` terminates, the compartments option -/
import MxlVerif.Model.C08Compartment
namespace Mxl.C08
open Gen

theorem freshName_not_taken' (t : List String) :
    ∀ (fuel : Nat) (name r : String), freshName t name fuel = some r → t.contains r = false := by
  intro fuel
  induction fuel with
  | zero => intro name r h; simp [freshName] at h
  | succ fuel ih =>
    intro name r h
    simp only [freshName] at h
    by_cases ht : t.contains name = true
    · rw [if_pos ht] at h; exact ih _ _ h
    · rw [if_neg ht] at h
      simp only [Option.some.injEq] at h
      subst h; simpa using ht

theorem freshName_congr (t t' : List String) :
    ∀ (fuel : Nat) (name : String), (∀ x : String, name.length ≤ x.length → t.contains x = t'.contains x) →
      freshName t name fuel = freshName t' name fuel := by
  intro fuel
  induction fuel with
  | zero => intro name _; rfl
  | succ fuel ih =>
    intro name h
    simp only [freshName]
    rw [h name (Nat.le_refl _)]
    rw [ih (name ++ "_") (fun x hx => h x (by
      have h1 : "_".length = 1 := by decide
      have : (name ++ "_").length = name.length + 1 := by rw [String.length_append, h1]
      omega))]

theorem freshName_isSome :
    ∀ (fuel : Nat) (t : List String) (name : String), t.length < fuel → (freshName t name fuel).isSome = true := by
  intro fuel
  induction fuel with
  | zero => intro t name h; omega
  | succ fuel ih =>
    intro t name h
    simp only [freshName]
    by_cases ht : t.contains name = true
    · rw [if_pos ht]
      have hm : name ∈ t := by simpa using ht
      have hlen : (t.erase name).length < fuel := by
        rw [List.length_erase_of_mem hm]
        have : 0 < t.length := List.length_pos_of_mem hm
        omega
      rw [freshName_congr t (t.erase name) fuel (name ++ "_") (fun x hx => by
        have h1 : "_".length = 1 := by decide
        have hl : (name ++ "_").length = name.length + 1 := by rw [String.length_append, h1]
        have hne : x ≠ name := by
          intro e; subst e; omega
        have : x ∈ t.erase name ↔ x ∈ t := List.mem_erase_of_ne hne
        by_cases hx' : x ∈ t
        · simp [hx', this.mpr hx']
        · have h2 : x ∉ t.erase name := fun hh => hx' (this.mp hh)
          simp [hx', h2])]
      exact ih _ _ hlen
    · rw [if_neg ht]; rfl

/-- `_free_reference` needs at most `len(taken) + 1` rounds -/
theorem freshName_total (t : List String) (name : String) :
    ∃ r, freshName t name (t.length + 1) = some r ∧ t.contains r = false := by
  have h := freshName_isSome (t.length + 1) t name (Nat.lt_succ_self _)
  cases hf : freshName t name (t.length + 1) with
  | none => rw [hf] at h; cases h
  | some r => exact ⟨r, rfl, freshName_not_taken' t _ _ _ hf⟩

theorem refName_total (taken : List String) (x : String) :
    ∃ n, refName taken x = .ok (n, n :: taken) ∧ taken.contains n = false := by
  obtain ⟨r, hr, hn⟩ := freshName_total taken (x ++ refSuffix)
  refine ⟨r, ?_, hn⟩
  have hf : refFresh = true := rfl
  simp only [refName, hf, if_true, hr]

theorem exportModelC_doc {m : PyModel} {cs : List (String × Rat)} {dc : SDocC}
    (h : exportModelC m cs = .ok dc) : exportModelFrom (refTaken m cs) m = .ok dc.doc ∧ dc.compartments = cs ∧
      ∃ comp, speciesCompartment cs m.vars = .ok comp ∧ dc.species = speciesAttrs comp dc.doc.species := by
  unfold exportModelC at h
  unfold exportModelFrom
  cases h1 : foldE exportParam SDoc.empty m.params with
  | error e => simp [h1, bind, Except.bind] at h
  | ok d1 =>
    simp only [h1, bind, Except.bind] at h ⊢
    cases h2 : foldE (fun d kv => exportRule d kv.1 kv.2) d1 m.derived with
    | error e => simp [h2] at h
    | ok d2 =>
      simp only [h2] at h ⊢
      cases h3 : speciesCompartment cs m.vars with
      | error e => simp [h3] at h
      | ok comp =>
        simp only [h3] at h
        cases h4 : foldE exportVar d2 m.vars with
        | error e => simp [h4] at h
        | ok d3 =>
          simp only [h4] at h ⊢
          cases h5 : foldE exportReaction (refTaken m cs, d3) m.rxns with
          | error e => simp [h5] at h
          | ok r =>
            obtain ⟨tk, d4⟩ := r
            simp only [h5, pure, Except.pure, Except.ok.injEq] at h ⊢
            subst h
            exact ⟨rfl, rfl, comp, rfl, rfl⟩

theorem speciesCompartment_mem {cs : List (String × Rat)} {vars : List (String × PyInit)} {c : String}
    (h : speciesCompartment cs vars = .ok (some c)) : c ∈ cs.map (·.1) := by
  have hl : speciesCompartmentLit = none := rfl
  simp only [speciesCompartment, hl] at h
  cases vars with
  | nil => simp at h
  | cons v vs =>
    cases cs with
    | nil => simp at h
    | cons c0 rest =>
      simp only [Except.ok.injEq, Option.some.injEq] at h
      subst h; simp

theorem speciesCompartment_some {cs : List (String × Rat)} {v : String × PyInit} {vs : List (String × PyInit)}
    {comp : Option String} (h : speciesCompartment cs (v :: vs) = .ok comp) : ∃ c, comp = some c := by
  have hl : speciesCompartmentLit = none := rfl
  simp only [speciesCompartment, hl] at h
  cases cs with
  | nil => simp at h
  | cons c0 rest =>
    simp only [Except.ok.injEq] at h
    exact ⟨c0.1, h.symm⟩

theorem chooseCompartments_apart {taken : List String} {o : Option (List (String × Rat))} {cs : List (String × Rat)}
    (h : chooseCompartments taken o = .ok cs) : ∀ c ∈ cs, taken.contains c.1 = false := by
  have hf : defaultCompartmentFresh = true := rfl
  have hr : compartmentClashRefused = true := rfl
  cases o with
  | none =>
    simp only [chooseCompartments, hf, if_true] at h
    obtain ⟨r, hr', hn⟩ := freshName_total taken defaultCompartmentId
    simp only [hr', Except.ok.injEq] at h
    subst h
    intro c hc
    simp only [List.mem_singleton] at hc
    subst hc; exact hn
  | some cs0 =>
    simp only [chooseCompartments, hr, Bool.true_and] at h
    by_cases ha : cs0.any (fun c => taken.contains c.1) = true
    · rw [if_pos ha] at h; cases h
    · rw [if_neg ha] at h
      simp only [Except.ok.injEq] at h
      subst h
      intro c hc
      cases hcc : taken.contains c.1 with
      | false => rfl
      | true => exact absurd (List.any_eq_true.mpr ⟨c, hc, hcc⟩) ha

theorem chooseCompartments_default_total (taken : List String) :
    ∃ n, chooseCompartments taken none = .ok [(n, (defaultCompartmentSize : Rat))] := by
  have hf : defaultCompartmentFresh = true := rfl
  obtain ⟨r, hr', _⟩ := freshName_total taken defaultCompartmentId
  exact ⟨r, by simp only [chooseCompartments, hf, if_true, hr']⟩

theorem writeModel_ok {m : PyModel} {o : Option (List (String × Rat))} {dc : SDocC}
    (h : writeModel m o = .ok dc) : ∃ cs, chooseCompartments m.names o = .ok cs ∧ exportModelC m.escArgs cs = .ok dc := by
  unfold writeModel at h
  cases hc : chooseCompartments m.names o with
  | error e => simp [hc, bind, Except.bind] at h
  | ok cs => simp only [hc, bind, Except.bind] at h; exact ⟨cs, rfl, h⟩


theorem exportModel_eq_from (m : PyModel) : exportModel m = exportModelFrom m.names m := rfl

theorem names_sub_refTaken (m : PyModel) (cs : List (String × Rat)) : ∀ n ∈ m.names, n ∈ refTaken m cs := by
  intro n hn
  unfold refTaken
  split
  · exact List.mem_append_left _ hn
  · exact hn


/-! ### `escArgs` changes the arguments of the functions only -/

theorem escArgs_names (m : PyModel) : m.escArgs.names = m.names ∧ m.escArgs.vars.map (·.1) = m.vars.map (·.1) := by
  unfold PyModel.escArgs
  split
  · simp [PyModel.names, Function.comp_def]
  · exact ⟨rfl, rfl⟩

theorem escArgs_vars_nil (m : PyModel) : m.escArgs.vars = [] ↔ m.vars = [] := by
  have h := (escArgs_names m).2
  constructor
  · intro h0; rw [h0] at h; simpa using h.symm
  · intro h0; rw [h0] at h; simpa using h

theorem PyFn.mapArgs_id (f : PyFn) : f.mapArgs (fun n => n) = f := by
  cases f; simp [PyFn.mapArgs]

theorem PyInit.mapArgs_id (i : PyInit) : i.mapArgs (fun n => n) = i := by
  cases i <;> simp [PyInit.mapArgs, PyFn.mapArgs_id]

theorem PyCoef.mapArgs_id (c : PyCoef) : c.mapArgs (fun n => n) = c := by
  cases c <;> simp [PyCoef.mapArgs, PyFn.mapArgs_id]

end Mxl.C08
