/- helper lemmas for Props/C18 (core Lean only; `grind` does the field algebra over `Rat`) -/
import MxlVerif.Model.C18
import MxlVerif.Lemmas.C09
namespace Mxl.C18
open Mxl.C09

/-! ### algebra -/

theorem rat_mul_pow (a b : Rat) (n : Nat) : (a * b) ^ n = a ^ n * b ^ n := by
  induction n with
  | zero => simp
  | succ n ih => rw [Rat.pow_succ, Rat.pow_succ, Rat.pow_succ, ih]; grind

theorem rat_pow_ne_zero (x : Rat) (n : Nat) (hx : x ≠ 0) : x ^ n ≠ 0 := by
  induction n with
  | zero => simp
  | succ n ih => rw [Rat.pow_succ]; grind


/-! ### ordered maps -/

theorem omInsert_omInsert {β} (m : List (Name × β)) (k : Name) (a b : β) :
    omInsert (omInsert m k a) k b = omInsert m k b := by
  induction m with
  | nil => simp [omInsert]
  | cons kv rest ih =>
    obtain ⟨k', v'⟩ := kv
    by_cases h : (k' == k) = true
    · simp [omInsert, h]
    · simp [omInsert, h, ih]

theorem omInsert_keys {β} (m : List (Name × β)) (k : Name) (a : β) (hk : (omKeys m).contains k = true) :
    omKeys (omInsert m k a) = omKeys m := by
  induction m with
  | nil => simp [omKeys] at hk
  | cons kv rest ih =>
    obtain ⟨k', v'⟩ := kv
    by_cases h : (k' == k) = true
    · have : k' = k := by simpa using h
      simp [omInsert, h, omKeys, this]
    · have hk' : (omKeys rest).contains k = true := by
        simp [omKeys] at hk ⊢
        rcases hk with hk | hk
        · exact absurd (by simpa using hk.symm) h
        · exact hk
      simp only [omInsert, h, omKeys, List.map_cons] at ih ⊢
      simp only [Bool.false_eq_true, if_false, List.map_cons]
      rw [ih hk']

theorem omInsert_self {β} (m : List (Name × β)) (k : Name) (v : β) (h : m.lookup k = some v) :
    omInsert m k v = m := by
  induction m with
  | nil => simp at h
  | cons kv rest ih =>
    obtain ⟨k', v'⟩ := kv
    by_cases hk : (k == k') = true
    · have e : k = k' := by simpa using hk
      subst e
      simp [List.lookup] at h
      simp [omInsert, h]
    · have hk2 : (k' == k) = false := by
        have : k ≠ k' := by simpa using hk
        simpa using Ne.symm this
      have hk1 : (k == k') = false := by simpa using hk
      simp only [List.lookup, hk1] at h
      simp [omInsert, hk2, ih h]

theorem plainOf_lookup_mem (m : List (Name × Val)) (k : Name) (v : Rat)
    (h : (plainOf m).lookup k = some v) : k ∈ omKeys m := by
  induction m with
  | nil => simp [plainOf] at h
  | cons kv rest ih =>
    obtain ⟨k', v'⟩ := kv
    cases v' with
    | plain a =>
      by_cases hk : (k == k') = true
      · have e : k = k' := by simpa using hk
        simp [omKeys, e]
      · have hk1 : (k == k') = false := by simpa using hk
        simp only [plainOf, List.filterMap_cons, List.lookup, hk1] at h
        simp only [omKeys, List.map_cons, List.mem_cons]
        exact Or.inr (ih h)
    | ia f =>
      simp only [plainOf, List.filterMap_cons] at h
      simp only [omKeys, List.map_cons, List.mem_cons]
      exact Or.inr (ih h)

/-- with unique names, a parameter's entry in `get_parameter_values()` is its own plain value -/
theorem plainOf_lookup (m : List (Name × Val)) (hnd : (omKeys m).Nodup) (k : Name) (v : Rat)
    (h : (plainOf m).lookup k = some v) : m.lookup k = some (.plain v) := by
  induction m with
  | nil => simp [plainOf] at h
  | cons kv rest ih =>
    obtain ⟨k', v'⟩ := kv
    simp only [omKeys, List.map_cons, List.nodup_cons] at hnd
    by_cases hk : (k == k') = true
    · have e : k = k' := by simpa using hk
      subst e
      cases v' with
      | plain a =>
        simp [plainOf, List.lookup] at h
        simp [List.lookup, h]
      | ia f =>
        simp only [plainOf, List.filterMap_cons] at h
        exact absurd (plainOf_lookup_mem rest k v h) hnd.1
    · have hk1 : (k == k') = false := by simpa using hk
      simp only [List.lookup, hk1]
      apply ih hnd.2
      cases v' with
      | plain a => simpa [plainOf, List.lookup, hk1] using h
      | ia f => simpa [plainOf] using h

/-! ### model state -/

theorem createCache_basePars (c : Content) (cache : Cache) (h : createCache c = .ok cache) :
    cache.basePars = plainOf c.pars := by
  unfold createCache at h
  simp only [bind, Except.bind, pure, Except.pure] at h
  repeat (split at h <;> try cases h)
  rfl

theorem getParameterValues_ok (c : Content) (pv : List (Name × Rat)) (h : getParameterValues c = .ok pv) :
    pv = plainOf c.pars := by
  unfold getParameterValues at h
  simp only [bind, Except.bind, pure, Except.pure] at h
  split at h
  · cases h
  · rename_i cache hc
    cases h
    exact createCache_basePars c cache hc

theorem updatePars_single (c c' : Content) (p : Name) (v : Rat) (h : updatePars c [(p, v)] = .ok c') :
    (omKeys c.pars).contains p = true ∧ c' = { c with pars := omInsert c.pars p (.plain v) } := by
  unfold updatePars at h
  simp only [setVals, setVal] at h
  by_cases hk : p ∈ omKeys c.pars
  · simp only [List.contains_eq_mem, hk, decide_true, if_true] at h
    cases h
    exact ⟨by simpa using hk, rfl⟩
  · simp only [List.contains_eq_mem, hk, decide_false, Bool.false_eq_true, if_false] at h
    cases h


theorem bind_ok {ε α β} {x : Except ε α} {f : α → Except ε β} {b : β} (h : (x >>= f) = .ok b) :
    ∃ a, x = .ok a ∧ f a = .ok b := by
  cases x with
  | error e => cases h
  | ok a => exact ⟨a, rfl, h⟩

theorem getKey_ok {m : List (Name × Rat)} {k : Name} {v : Rat} (h : getKey m k = .ok v) : m.lookup k = some v := by
  unfold getKey at h
  split at h
  · cases h; assumption
  · cases h

/-- perturb up, perturb down, reset: the parameters are what they were -/
theorem perturb_reset (c c1 c2 c3 : Content) (p : Name) (old a b : Rat)
    (hnd : (omKeys c.pars).Nodup) (hold : (plainOf c.pars).lookup p = some old)
    (h1 : updatePars c [(p, a)] = .ok c1) (h2 : updatePars c1 [(p, b)] = .ok c2)
    (h3 : updatePars c2 [(p, old)] = .ok c3) : c3 = c := by
  obtain ⟨_, rfl⟩ := updatePars_single _ _ _ _ h1
  obtain ⟨_, rfl⟩ := updatePars_single _ _ _ _ h2
  obtain ⟨_, rfl⟩ := updatePars_single _ _ _ _ h3
  simp only [omInsert_omInsert]
  rw [omInsert_self c.pars p (.plain old) (plainOf_lookup c.pars hnd p old hold)]

theorem lookup_mem_keys {β} (m : List (Name × β)) (k : Name) (v : β) (h : m.lookup k = some v) :
    (omKeys m).contains k = true := by
  induction m with
  | nil => simp at h
  | cons kv rest ih =>
    obtain ⟨k', v'⟩ := kv
    by_cases hk : (k == k') = true
    · have e : k = k' := by simpa using hk
      simp [omKeys, e]
    · have hk1 : (k == k') = false := by simpa using hk
      simp only [List.lookup, hk1] at h
      have := ih h
      simp [omKeys] at this ⊢
      exact Or.inr this

/-! ### runs on the one model object -/

theorem Run.bind_inv {α β : Type} (P : Content → Prop) (r : Run α) (f : Content → α → Run β)
    (hr : P r.1) (hf : ∀ c a, P c → P (f c a).1) : P (r.bind f).1 := by
  obtain ⟨c, x⟩ := r
  cases x with
  | error e => exact hr
  | ok a => exact hf c a hr

theorem tryFinally_state {α : Type} (body : Run α) (fin : Content → Run Unit) :
    (tryFinally body fin).1 = (fin body.1).1 := by
  unfold tryFinally
  split <;> simp_all

theorem toExcept_ok {α : Type} {r : Run α} {c' : Content} {a : α} (h : r.toExcept = .ok (c', a)) : r.1 = c' := by
  obtain ⟨c, x⟩ := r
  cases x with
  | error e => simp [Run.toExcept] at h
  | ok b => simp [Run.toExcept] at h; exact h.1

theorem oldValue_ok (c : Content) (par : Name) (old : Rat) (hnd : (omKeys c.pars).Nodup)
    (h : oldValue c par = .ok old) : c.pars.lookup par = some (.plain old) := by
  unfold oldValue at h
  obtain ⟨pv, hpv, h⟩ := bind_ok h
  have := getParameterValues_ok c pv hpv
  subst this
  exact plainOf_lookup c.pars hnd par old (getKey_ok h)

/-- the states a routine that perturbs `par` (and, with custom variables, overwrites the initial values) can
    leave the model `c` in -/
def Around (c : Content) (fixVars : Bool) (par : Name) (c' : Content) : Prop :=
  ∃ vs x, (fixVars = true → vs = c.vars) ∧ c' = { c with vars := vs, pars := omInsert c.pars par (.plain x) }

theorem Around_self (c : Content) (fixVars : Bool) (par : Name) (old : Rat)
    (hp : c.pars.lookup par = some (.plain old)) : Around c fixVars par c :=
  ⟨c.vars, old, fun _ => rfl, by rw [omInsert_self c.pars par _ hp]⟩

theorem Around_wrPar (c : Content) (fixVars : Bool) (par : Name) (v : Rat) (c' : Content)
    (h : Around c fixVars par c') : Around c fixVars par (wr c' (updatePars c' [(par, v)])).1 := by
  unfold wr
  cases hu : updatePars c' [(par, v)] with
  | error e => exact h
  | ok c'' =>
    obtain ⟨vs, x, hv, rfl⟩ := h
    obtain ⟨_, rfl⟩ := updatePars_single _ _ _ _ hu
    exact ⟨vs, v, hv, by simp [omInsert_omInsert]⟩

/-- the reset: from every state around `c` the parameter update succeeds and gives `c` back, up to the variables -/
theorem Around_reset (c : Content) (fixVars : Bool) (par : Name) (old : Rat) (c' : Content)
    (hp : c.pars.lookup par = some (.plain old)) (h : Around c fixVars par c') :
    ∃ vs, (fixVars = true → vs = c.vars) ∧ wr c' (updatePars c' [(par, old)]) = ({ c with vars := vs }, .ok ()) := by
  obtain ⟨vs, x, hv, rfl⟩ := h
  refine ⟨vs, hv, ?_⟩
  have hk : (omKeys (omInsert c.pars par (Val.plain x))).contains par = true := by
    rw [omInsert_keys c.pars par _ (lookup_mem_keys _ _ _ hp)]; exact lookup_mem_keys _ _ _ hp
  simp only [wr, updatePars, setVals, setVal, hk, if_true, omInsert_omInsert]
  rw [omInsert_self c.pars par _ hp]

/-- `parameter_elasticities`, one parameter: the model afterwards IS the model before — on every path, raising or not -/
theorem parElasticityOfT_frame (vars : Row) (t : Rat) (normalized : Bool) (d : Rat) (c : Content)
    (par : Name) (hnd : (omKeys c.pars).Nodup) : (parElasticityOfT vars t normalized d c par).1 = c := by
  unfold parElasticityOfT rd
  cases ho : oldValue c par with
  | error e => rfl
  | ok old =>
    have hp := oldValue_ok c par old hnd ho
    simp only [Run.bind, show Generated.C18.parFinallyResets = true from by decide, if_true]
    have hbody : Around c true par (parTry vars t d old c par).1 := by
      unfold parTry
      refine Run.bind_inv _ _ _ (Around_wrPar c true par _ c (Around_self c true par old hp)) ?_
      intro c1 _ h1
      refine Run.bind_inv _ _ _ h1 ?_
      intro c1' _ h1'
      refine Run.bind_inv _ _ _ (Around_wrPar c true par _ c1' h1') ?_
      intro c2 _ h2
      refine Run.bind_inv _ _ _ h2 ?_
      intro c2' _ h2'
      exact h2'
    obtain ⟨vs, hv, hfin⟩ := Around_reset c true par old _ hp hbody
    have hvs := hv rfl
    subst hvs
    have htf : (tryFinally (parTry vars t d old c par) fun c' => wr c' (updatePars c' [(par, old)])).1 = c := by
      rw [tryFinally_state, hfin]
    generalize hT : (tryFinally (parTry vars t d old c par) fun c' => wr c' (updatePars c' [(par, old)])) = T at htf
    obtain ⟨cT, xT⟩ := T
    simp only at htf
    subst htf
    cases xT with
    | error e => rfl
    | ok ul =>
      simp only
      cases baseFlux normalized cT vars t ul.1 <;> rfl

theorem parElasticityOf_restores (vars : Row) (t : Rat) (normalized : Bool) (d : Rat) (c c' : Content)
    (par : Name) (col : Column) (hnd : (omKeys c.pars).Nodup)
    (h : parElasticityOf vars t normalized d c par = .ok (c', col)) : c' = c := by
  unfold parElasticityOf at h
  rw [← toExcept_ok h]
  exact parElasticityOfT_frame vars t normalized d c par hnd

theorem foldColsT_frame (f : Content → Name → Run Column) (P : Content → Prop)
    (hf : ∀ c p, P c → (f c p).1 = c) :
    ∀ (ps : List Name) (c : Content), P c → (foldColsT f c ps).1 = c := by
  intro ps
  induction ps with
  | nil => intro c _; rfl
  | cons p rest ih =>
    intro c hP
    unfold foldColsT
    have h1 := hf c p hP
    generalize f c p = r at h1
    obtain ⟨c1, x⟩ := r
    simp only at h1
    subst h1
    cases x with
    | error e => rfl
    | ok col =>
      simp only
      have h2 := ih c1 hP
      generalize foldColsT f c1 rest = r2 at h2
      obtain ⟨c2, y⟩ := r2
      simp only at h2
      subst h2
      cases y <;> rfl

/-- forgetting the model of raising runs commutes with the loop -/
theorem foldColsT_toExcept (f : Content → Name → Run Column) :
    ∀ (ps : List Name) (c : Content),
      (foldColsT f c ps).toExcept = foldCols (fun c p => (f c p).toExcept) c ps := by
  intro ps
  induction ps with
  | nil => intro c; rfl
  | cons p rest ih =>
    intro c
    unfold foldColsT foldCols
    generalize f c p = r
    obtain ⟨c1, x⟩ := r
    cases x with
    | error e => rfl
    | ok col =>
      have ih' := ih c1
      simp only [Run.toExcept] at ih' ⊢
      rw [← ih']
      generalize foldColsT f c1 rest = r2
      obtain ⟨c2, y⟩ := r2
      cases y <;> rfl

theorem foldCols_restores (f : Content → Name → Except Err (Content × Column)) (P : Content → Prop)
    (hf : ∀ c p c' col, P c → f c p = .ok (c', col) → c' = c) :
    ∀ (ps : List Name) (c c' : Content) (cols : List (Name × Column)), P c →
      foldCols f c ps = .ok (c', cols) → c' = c := by
  intro ps
  induction ps with
  | nil => intro c c' cols _ h; simp [foldCols] at h; exact h.1.symm
  | cons p rest ih =>
    intro c c' cols hP h
    unfold foldCols at h
    cases h1 : f c p with
    | error e => rw [h1] at h; cases h
    | ok r =>
      obtain ⟨c1, col⟩ := r
      rw [h1] at h
      simp only at h
      have e1 := hf c p c1 col hP h1
      subst e1
      cases h2 : foldCols f c1 rest with
      | error e => rw [h2] at h; cases h
      | ok r2 =>
        obtain ⟨c2, cols2⟩ := r2
        rw [h2] at h
        simp only at h
        cases h
        exact ih c1 c' cols2 hP h2


/-! ### parameter snapshots re-applied by the lazy views -/

/-- same names in the same order, same initial assignments; only plain values may differ -/
def PVent (a b : Name × Val) : Prop :=
  a.1 = b.1 ∧ match a.2, b.2 with
    | .plain _, .plain _ => True
    | .ia _, .ia _ => a.2 = b.2
    | _, _ => False

inductive PV : List (Name × Val) → List (Name × Val) → Prop
  | nil : PV [] []
  | cons {a b : Name × Val} {l1 l2 : List (Name × Val)} : PVent a b → PV l1 l2 → PV (a :: l1) (b :: l2)

theorem PVent_refl (a : Name × Val) : PVent a a := by
  obtain ⟨k, v⟩ := a
  cases v <;> simp [PVent]

theorem PV_refl : ∀ m, PV m m := by
  intro m
  induction m with
  | nil => exact PV.nil
  | cons a rest ih => exact PV.cons (PVent_refl a) ih

theorem PV_omInsert (m : List (Name × Val)) (p : Name) (x y v0 : Rat) (h : m.lookup p = some (.plain v0)) :
    PV (omInsert m p (.plain x)) (omInsert m p (.plain y)) := by
  induction m with
  | nil => simp at h
  | cons kv rest ih =>
    obtain ⟨k', v'⟩ := kv
    by_cases hk : (p == k') = true
    · have e : p = k' := by simpa using hk
      subst e
      simp only [omInsert, BEq.rfl, if_true]
      exact PV.cons (by simp [PVent]) (PV_refl rest)
    · have hk1 : (p == k') = false := by simpa using hk
      have hk2 : (k' == p) = false := by
        have : p ≠ k' := by simpa using hk
        simpa using Ne.symm this
      simp only [List.lookup, hk1] at h
      simp only [omInsert, hk2, Bool.false_eq_true, if_false]
      exact PV.cons (PVent_refl _) (ih h)

theorem omInsert_append_notin {β} (pre : List (Name × β)) (k : Name) (v w : β) (s : List (Name × β))
    (hk : k ∉ omKeys pre) : omInsert (pre ++ (k, v) :: s) k w = pre ++ (k, w) :: s := by
  induction pre with
  | nil => simp [omInsert]
  | cons kv rest ih =>
    obtain ⟨k', v'⟩ := kv
    simp only [omKeys, List.map_cons, List.mem_cons, not_or] at hk
    have hk2 : (k' == k) = false := by simpa using Ne.symm hk.1
    simp only [List.cons_append, omInsert, hk2, Bool.false_eq_true, if_false]
    rw [ih hk.2]

theorem setVals_plainOf_gen : ∀ (s1 s2 pre : List (Name × Val)), PV s1 s2 → (omKeys (pre ++ s1)).Nodup →
    setVals (pre ++ s1) (plainOf s2) = .ok (pre ++ s2) := by
  intro s1
  induction s1 with
  | nil =>
    intro s2 pre hpv _
    cases hpv
    simp [plainOf, setVals]
  | cons a rest ih =>
    intro s2 pre hpv hnd
    cases hpv with
    | cons hab hrest =>
      rename_i b rest2
      obtain ⟨k, v1⟩ := a
      obtain ⟨k2, v2⟩ := b
      obtain ⟨hk, hv⟩ := hab
      simp only at hk
      subst hk
      have hnotin : k ∉ omKeys pre := by
        simp only [omKeys, List.map_append, List.map_cons] at hnd
        have := (List.nodup_append.mp hnd).2.2
        intro hm
        exact this k hm k (List.mem_cons_self) rfl
      cases v1 with
      | plain a1 =>
        cases v2 with
        | ia g => simp at hv
        | plain b2 =>
          simp only [plainOf, List.filterMap_cons, setVals, setVal]
          have hin : (omKeys (pre ++ (k, Val.plain a1) :: rest)).contains k = true := by
            simp [omKeys]
          rw [hin]
          simp only [if_true]
          rw [omInsert_append_notin pre k _ _ rest hnotin]
          have := ih rest2 (pre ++ [(k, Val.plain b2)]) hrest (by
            simpa [omKeys, List.append_assoc] using hnd)
          simpa [plainOf, List.append_assoc] using this
      | ia f =>
        cases v2 with
        | plain b2 => simp at hv
        | ia g =>
          simp only at hv
          cases hv
          simp only [plainOf, List.filterMap_cons]
          have := ih rest2 (pre ++ [(k, Val.ia f)]) hrest (by
            simpa [omKeys, List.append_assoc] using hnd)
          simpa [plainOf, List.append_assoc] using this

/-- re-applying the parameter snapshot of a plain-variant of the model turns the model into that variant -/
theorem setVals_plainOf (m1 m2 : List (Name × Val)) (hpv : PV m1 m2) (hnd : (omKeys m1).Nodup) :
    setVals m1 (plainOf m2) = .ok m2 := by
  simpa using setVals_plainOf_gen m1 m2 [] hpv (by simpa using hnd)


/-- the model `c0` with parameter `p` set to `x` -/
def withPar (c0 : Content) (p : Name) (x : Rat) : Content := { c0 with pars := omInsert c0.pars p (.plain x) }

/-- the steady-state worker leaves the model alone and snapshots the model's own parameter values
    (`Simulator` with `y0=None`; true of `ssWorker`, see `ssWorker_ok`) -/
def WorkerOK (w : Worker) : Prop :=
  ∀ c c' r, w.run c = .ok (c', r) →
    c' = c ∧ ∀ segs, r = some segs → ∀ s, s ∈ segs → s.pars = plainOf c.pars

theorem runSS_spec {w : Worker} (hw : WorkerOK w) {c c' : Content} {segs : List Seg} {nan : Bool}
    (h : runSS w c = .ok (c', segs, nan)) : c' = c ∧ ∀ s, s ∈ segs → s.pars = plainOf c.pars := by
  unfold runSS at h
  cases hr : w.run c with
  | error e => rw [hr] at h; cases h
  | ok r =>
    obtain ⟨c2, res⟩ := r
    obtain ⟨hc, hs⟩ := hw c c2 res hr
    rw [hr] at h
    cases res with
    | some sg =>
      simp only [Except.ok.injEq, Prod.mk.injEq] at h
      obtain ⟨h1, h2, _⟩ := h
      subst h1 h2
      exact ⟨hc, hs sg rfl⟩
    | none =>
      simp only at h
      cases hd : mkDefault c2 w.dfltIndex with
      | error e => rw [hd] at h; cases h
      | ok p =>
        rw [hd] at h
        simp only [Except.ok.injEq, Prod.mk.injEq] at h
        obtain ⟨h1, h2, _⟩ := h
        subst h1 h2
        refine ⟨hc, ?_⟩
        unfold mkDefault at hd
        cases hcc : createCache c2 with
        | error e => rw [hcc] at hd; cases hd
        | ok cache =>
          rw [hcc] at hd
          simp only [Except.ok.injEq] at hd
          subst hd
          intro s hs'
          simp at hs'
          subst hs'
          simp only
          rw [createCache_basePars c2 cache hcc, hc]

theorem updatePars_withPar (c0 c' : Content) (p : Name) (x z : Rat)
    (h : updatePars (withPar c0 p x) [(p, z)] = .ok c') : c' = withPar c0 p z := by
  obtain ⟨_, rfl⟩ := updatePars_single _ _ _ _ h
  simp [withPar, omInsert_omInsert]

section
variable (c0 : Content) (p : Name) (v0 : Rat)
variable (hnd : (omKeys c0.pars).Nodup) (hp : c0.pars.lookup p = some (.plain v0))
include hnd hp

theorem viewSeg_withPar (nan : Bool) (x y : Rat) (seg : Seg) (c' : Content) (rows : ArgRows)
    (hs : seg.pars = plainOf (omInsert c0.pars p (.plain y)))
    (h : viewSeg nan (withPar c0 p x) seg = .ok (c', rows)) : c' = withPar c0 p y := by
  unfold viewSeg at h
  have hup : updatePars (withPar c0 p x) seg.pars = .ok (withPar c0 p y) := by
    unfold updatePars
    rw [hs]
    have hkeys : (omKeys (omInsert c0.pars p (Val.plain x))).Nodup := by
      rw [omInsert_keys c0.pars p _ (lookup_mem_keys _ _ _ hp)]; exact hnd
    have := setVals_plainOf _ _ (PV_omInsert c0.pars p x y v0 hp) hkeys
    simp only [withPar, this]
  rw [hup] at h
  simp only at h
  cases nan with
  | true => simp at h; exact h.1.symm
  | false =>
    simp only [Bool.false_eq_true, if_false] at h
    split at h
    · cases h
    · cases h; rfl

theorem viewSegs_withPar (Q : Rat → Prop) (nan : Bool) : ∀ (segs : List Seg) (x : Rat) (c' : Content) (rs : List ArgRows),
    Q x → (∀ s, s ∈ segs → ∃ y, Q y ∧ s.pars = plainOf (omInsert c0.pars p (.plain y))) →
    viewSegs nan (withPar c0 p x) segs = .ok (c', rs) → ∃ x', Q x' ∧ c' = withPar c0 p x' := by
  intro segs
  induction segs with
  | nil => intro x c' rs hq _ h; simp [viewSegs] at h; exact ⟨x, hq, h.1.symm⟩
  | cons s rest ih =>
    intro x c' rs hq hs h
    unfold viewSegs at h
    cases h1 : viewSeg nan (withPar c0 p x) s with
    | error e => rw [h1] at h; cases h
    | ok r =>
      obtain ⟨c1, r1⟩ := r
      rw [h1] at h
      simp only at h
      obtain ⟨y, hqy, hy⟩ := hs s (List.mem_cons_self)
      have e1 := viewSeg_withPar c0 p v0 hnd hp nan x y s c1 r1 hy h1
      subst e1
      cases h2 : viewSegs nan (withPar c0 p y) rest with
      | error e => rw [h2] at h; cases h
      | ok r2 =>
        obtain ⟨c2, rs2⟩ := r2
        rw [h2] at h
        simp only at h
        cases h
        exact ih y c' rs2 hqy (fun s' hs' => hs s' (List.mem_cons_of_mem _ hs')) h2

theorem lastRow_withPar (Q : Rat → Prop) (nan : Bool) (segs : List Seg) (x : Rat) (c' : Content)
    (r : Option (List (Name × Rat))) (hq : Q x)
    (hs : ∀ s, s ∈ segs → ∃ y, Q y ∧ s.pars = plainOf (omInsert c0.pars p (.plain y)))
    (h : lastRow nan (withPar c0 p x) segs = .ok (c', r)) : ∃ x', Q x' ∧ c' = withPar c0 p x' := by
  unfold lastRow viewKeep at h
  cases h1 : viewSegs nan (withPar c0 p x) segs with
  | error e => rw [h1] at h; cases h
  | ok rr =>
    obtain ⟨c1, rs⟩ := rr
    rw [h1] at h
    simp only at h
    obtain ⟨x', _, hx'⟩ := viewSegs_withPar c0 p v0 hnd hp Q nan segs x c1 rs hq hs h1
    -- the view hands the model its previous parameters back: `p` is `x` again
    have hback : ({ c1 with pars := (withPar c0 p x).pars } : Content) = withPar c0 p x := by
      rw [hx']; rfl
    cases nan with
    | true => simp at h; exact ⟨x, hq, by rw [← h.1, hback]⟩
    | false => simp at h; exact ⟨x, hq, by rw [← h.1, hback]⟩

end

theorem withPar_self (c0 : Content) (p : Name) (v0 : Rat) (hp : c0.pars.lookup p = some (.plain v0)) :
    withPar c0 p v0 = c0 := by
  simp [withPar, omInsert_self c0.pars p _ hp]


/-! ### the response worker leaves the model as it found it -/

theorem updateVars_pars (c c' : Content) (kv : Row) (h : updateVars c kv = .ok c') :
    ∃ vs, c' = { c with vars := vs } := by
  unfold updateVars at h
  split at h
  · cases h; exact ⟨_, rfl⟩
  · cases h

theorem viewSegs_pars (nan : Bool) : ∀ (segs : List Seg) (c c' : Content) (rs : List ArgRows),
    viewSegs nan c segs = .ok (c', rs) → ∃ ps, c' = { c with pars := ps } := by
  intro segs
  induction segs with
  | nil => intro c c' rs h; simp [viewSegs] at h; exact ⟨c.pars, h.1.symm⟩
  | cons s rest ih =>
    intro c c' rs h
    unfold viewSegs at h
    cases h1 : viewSeg nan c s with
    | error e => rw [h1] at h; cases h
    | ok r =>
      obtain ⟨c1, r1⟩ := r
      rw [h1] at h
      simp only at h
      have e1 : ∃ ps, c1 = { c with pars := ps } := by
        unfold viewSeg at h1
        cases hu : updatePars c s.pars with
        | error e => rw [hu] at h1; cases h1
        | ok cu =>
          rw [hu] at h1
          simp only at h1
          have hcu : ∃ ps, cu = { c with pars := ps } := by
            unfold updatePars at hu
            split at hu
            · cases hu; exact ⟨_, rfl⟩
            · cases hu
          obtain ⟨ps, rfl⟩ := hcu
          refine ⟨ps, ?_⟩
          split at h1
          · cases h1; rfl
          · split at h1
            · cases h1
            · cases h1; rfl
      obtain ⟨ps1, rfl⟩ := e1
      cases h2 : viewSegs nan { c with pars := ps1 } rest with
      | error e => rw [h2] at h; cases h
      | ok r2 =>
        obtain ⟨c2, rs2⟩ := r2
        rw [h2] at h
        simp only at h
        cases h
        obtain ⟨ps2, hps2⟩ := ih _ c' rs2 h2
        exact ⟨ps2, hps2⟩

/-- reading a lazy view leaves the model as it was (`_keep_model_parameters`) — whatever the snapshots are -/
theorem lastRow_state (nan : Bool) (c c' : Content) (segs : List Seg) (r : Option (List (Name × Rat)))
    (h : lastRow nan c segs = .ok (c', r)) : c' = c := by
  unfold lastRow viewKeep at h
  cases h1 : viewSegs nan c segs with
  | error e => rw [h1] at h; cases h
  | ok rr =>
    obtain ⟨c1, rs⟩ := rr
    rw [h1] at h
    simp only at h
    obtain ⟨ps, rfl⟩ := viewSegs_pars nan segs c c1 rs h1
    cases nan with
    | true => simp at h; exact h.1.symm
    | false => simp at h; exact h.1.symm

theorem lastRowT_state (nan : Bool) (c : Content) (segs : List Seg) : (lastRowT nan c segs).1 = c := by
  unfold lastRowT
  cases h : lastRow nan c segs with
  | error e => rfl
  | ok r => obtain ⟨c', x⟩ := r; exact lastRow_state nan c c' segs x h

theorem runSST_state (w : Worker) (hw : WorkerOK w) (c : Content) : (runSST w c).1 = c := by
  unfold runSST
  cases h : runSS w c with
  | error e => rfl
  | ok r => obtain ⟨c', segs, nan⟩ := r; exact (runSS_spec hw h).1

theorem Around_applyY0 (c : Content) (y0 : Option Row) (par : Name) (c' : Content)
    (h : Around c y0.isNone par c') : Around c y0.isNone par (wr c' (applyY0 c' y0)).1 := by
  cases y0 with
  | none => exact h
  | some kv =>
    simp only [applyY0, wr]
    cases hu : updateVars c' kv with
    | error e => exact h
    | ok c'' =>
      obtain ⟨vs, x, _, rfl⟩ := h
      obtain ⟨vs', rfl⟩ := updateVars_pars _ _ kv hu
      exact ⟨vs', x, by simp, rfl⟩

theorem normStepT_state (w : Worker) (hw : WorkerOK w) (normalized : Bool) (old : Rat) (col : Column) (c : Content) :
    (normStepT w normalized old col c).1 = c := by
  unfold normStepT
  cases normalized with
  | false => rfl
  | true =>
    simp only [if_true]
    refine Run.bind_inv (fun c' => c' = c) _ _ (runSST_state w hw c) ?_
    intro c8 r h8
    subst h8
    refine Run.bind_inv (fun c' => c' = c8) _ _ (lastRowT_state _ c8 _) ?_
    intro c9 _ h9
    exact h9

/-- `_response_coefficient_worker`: the model afterwards IS the model before — parameters and initial values, on
    every path: success, NaN placeholders, an exception escaping a steady-state run, a view or an update -/
theorem responseWorkerT_frame (w : Worker) (hw : WorkerOK w) (y0 : Option Row) (normalized : Bool) (d : Rat)
    (c : Content) (par : Name) (hnd : (omKeys c.pars).Nodup) :
    (responseWorkerT w y0 normalized d c par).1 = c := by
  unfold responseWorkerT rd
  cases ho : oldValue c par with
  | error e => rfl
  | ok old =>
    have hp := oldValue_ok c par old hnd ho
    simp only [Run.bind, show Generated.C18.respFinallyRestores = true from by decide, if_true]
    rw [tryFinally_state]
    have hbody : Around c y0.isNone par (respTry w y0 normalized d old c par).1 := by
      unfold respTry
      refine Run.bind_inv _ _ _ (Around_applyY0 c y0 par c (Around_self c _ par old hp)) ?_
      intro c0 _ h0
      refine Run.bind_inv _ _ _ (Around_wrPar c _ par _ c0 h0) ?_
      intro c1 _ h1
      refine Run.bind_inv _ _ _ (by rw [runSST_state w hw c1]; exact h1) ?_
      intro c2 up h2
      refine Run.bind_inv _ _ _ (Around_wrPar c _ par _ c2 h2) ?_
      intro c3 _ h3
      refine Run.bind_inv _ _ _ (by rw [runSST_state w hw c3]; exact h3) ?_
      intro c4 lo h4
      refine Run.bind_inv _ _ _ (by rw [lastRowT_state]; exact h4) ?_
      intro c5 uv h5
      refine Run.bind_inv _ _ _ (by rw [lastRowT_state]; exact h5) ?_
      intro c6 lv h6
      refine Run.bind_inv _ _ _ (Around_wrPar c _ par _ c6 h6) ?_
      intro c7 _ h7
      rw [normStepT_state w hw]
      exact h7
    obtain ⟨vs, hv, hfin⟩ := Around_reset c _ par old _ hp hbody
    unfold respFinally
    rw [hfin]
    simp only [Run.bind]
    cases y0 with
    | none => simp only [restoreVars]; rw [hv rfl]
    | some kv => simp only [restoreVars]

theorem responseWorker_restores (w : Worker) (hw : WorkerOK w) (y0 : Option Row) (normalized : Bool) (d : Rat)
    (c c' : Content) (par : Name) (col : Column) (hnd : (omKeys c.pars).Nodup)
    (h : responseWorker w y0 normalized d c par = .ok (c', col)) : c' = c := by
  unfold responseWorker at h
  rw [← toExcept_ok h]
  exact responseWorkerT_frame w hw y0 normalized d c par hnd


theorem snapshot_ok (c : Content) (p : List (Name × Rat)) (h : snapshot c = .ok p) : p = plainOf c.pars := by
  unfold snapshot at h
  obtain ⟨cache, hc, h⟩ := bind_ok h
  simp only [pure, Except.pure] at h
  cases h
  exact createCache_basePars c cache hc

/-- the executed steady-state worker satisfies the contract -/
theorem ssWorker_ok (cfg : EulerCfg) : WorkerOK (ssWorker cfg) := by
  intro c c' r h
  simp only [ssWorker] at h
  rcases guardZeroDiv_ok h with ⟨g1, g2, _⟩ | h
  · exact ⟨g1, fun segs hs => by rw [g2] at hs; cases hs⟩
  obtain ⟨h1, h2⟩ := ssRun_spec cfg c c' r h
  refine ⟨h1, ?_⟩
  intro segs hs s hm
  obtain ⟨p, last, hp, hseg⟩ := h2 segs hs
  subst hseg
  simp at hm
  subst hm
  exact snapshot_ok c p hp

theorem foldCols_eq_mapM (f : Content → Name → Except Err (Content × Column)) (c : Content)
    (hf : ∀ p c' col, f c p = .ok (c', col) → c' = c) :
    ∀ (ps : List Name), foldCols f c ps = withModel c (ps.mapM fun p => colOf p (f c p)) := by
  intro ps
  induction ps with
  | nil => simp [foldCols, withModel, pure, Except.pure]
  | cons p rest ih =>
    unfold foldCols
    simp only [List.mapM_cons, bind, Except.bind]
    cases h1 : f c p with
    | error e => rfl
    | ok r =>
      obtain ⟨c1, col⟩ := r
      have := hf p c1 col h1
      subst this
      simp only
      rw [ih]
      generalize (rest.mapM fun p => colOf p (f c1 p)) = m
      cases m <;> rfl

/-! ### bias of the central difference for a general order -/

theorem rat_sq_nonneg (d : Rat) : 0 ≤ d * d := by
  rcases (Rat.le_total : 0 ≤ d ∨ d ≤ 0) with h | h
  · exact Rat.mul_nonneg h h
  · have h' : 0 ≤ -d := by grind
    have := Rat.mul_nonneg h' h'
    grind

def evenCD (d : Rat) (n : Nat) : Rat := ((1 + d) ^ n + (1 - d) ^ n) / 2

theorem cd_rec (d : Rat) (hd : d ≠ 0) (n : Nat) :
    scaledCD d (n + 1) = scaledCD d n + evenCD d n ∧ evenCD d (n + 1) = evenCD d n + d ^ 2 * scaledCD d n := by
  simp only [scaledCD, evenCD, Rat.pow_succ]
  generalize (1 + d) ^ n = P
  generalize (1 - d) ^ n = Q
  constructor <;> grind

theorem cd_lower (d : Rat) (hd : d ≠ 0) : ∀ n : Nat, (n : Rat) ≤ scaledCD d n ∧ 1 ≤ evenCD d n := by
  intro n
  induction n with
  | zero => simp only [scaledCD, evenCD]; constructor <;> grind
  | succ n ih =>
    obtain ⟨h1, h2⟩ := cd_rec d hd n
    obtain ⟨i1, i2⟩ := ih
    have hs : 0 ≤ scaledCD d n := by
      have : (0 : Rat) ≤ (n : Rat) := by exact_mod_cast Nat.zero_le n
      grind
    have hd2 : 0 ≤ d ^ 2 * scaledCD d n := by
      apply Rat.mul_nonneg
      · have : d ^ 2 = d * d := by grind
        rw [this]; exact rat_sq_nonneg d
      · exact hs
    constructor
    · rw [h1]; push_cast; grind
    · rw [h2]; grind



theorem cd_upper (d : Rat) (hd : d ≠ 0) : ∀ n : Nat,
    scaledCD d n ≤ (n : Rat) * evenCD d n ∧ evenCD d n ≤ prodUp d n := by
  intro n
  induction n with
  | zero => simp only [scaledCD, evenCD, prodUp]; constructor <;> grind
  | succ n ih =>
    obtain ⟨h1, h2⟩ := cd_rec d hd n
    obtain ⟨i1, i2⟩ := ih
    obtain ⟨l1, l2⟩ := cd_lower d hd n
    have hn : (0 : Rat) ≤ (n : Rat) := by exact_mod_cast Nat.zero_le n
    have hd2 : 0 ≤ d ^ 2 := by
      have : d ^ 2 = d * d := by grind
      rw [this]; exact rat_sq_nonneg d
    have hs : 0 ≤ scaledCD d n := by grind
    have hmono : evenCD d n ≤ evenCD d (n + 1) := by
      rw [h2]
      have := Rat.mul_nonneg hd2 hs
      grind
    have hA : d ^ 2 * scaledCD d n ≤ d ^ 2 * ((n : Rat) * evenCD d n) :=
      Rat.mul_le_mul_of_nonneg_left i1 hd2
    have hB : evenCD d n * (1 + (n : Rat) * d ^ 2) ≤ prodUp d n * (1 + (n : Rat) * d ^ 2) := by
      apply Rat.mul_le_mul_of_nonneg_right i2
      have := Rat.mul_nonneg hn hd2
      grind
    constructor
    · rw [h1]
      have hC : ((n : Rat) + 1) * evenCD d n ≤ ((n : Rat) + 1) * evenCD d (n + 1) :=
        Rat.mul_le_mul_of_nonneg_left hmono (by grind)
      push_cast
      grind
    · rw [h2]
      simp only [prodUp]
      grind

theorem coef_false_eq (d old a b base : Rat) : coef false d old a b base = quot (a - b) (2 * d * old) := by
  unfold coef
  cases quot (a - b) (2 * d * old) <;> simp

end Mxl.C18
