import Mathlib.Topology.MetricSpace.Pseudo.Defs
import Mathlib.Tactic.Linarith
import MxlVerif.Lemmas.C15
/-! the analytic heart of C15: small step + contraction ⇒ close to the fixed point (any pseudo-metric space) -/
namespace Mxl.C15

theorem close_of_small_step {E : Type} [PseudoMetricSpace E] (f : E → E) (xs y : E) (c tol : ℝ)
    (hc0 : 0 ≤ c) (hc1 : c < 1) (hcontr : ∀ z, dist (f z) xs ≤ c * dist z xs)
    (hstep : dist (f y) y < tol) :
    dist (f y) xs ≤ c / (1 - c) * tol := by
  have h1 : 0 < 1 - c := by linarith
  have htri : dist y xs ≤ dist y (f y) + dist (f y) xs := dist_triangle y (f y) xs
  have hsymm : dist y (f y) = dist (f y) y := dist_comm y (f y)
  have hcy := hcontr y
  rw [div_mul_eq_mul_div, le_div_iff₀ h1]
  have : c * dist y xs ≤ c * (dist (f y) y + dist (f y) xs) :=
    mul_le_mul_of_nonneg_left (by linarith) hc0
  have : c * dist (f y) y ≤ c * tol := mul_le_mul_of_nonneg_left (le_of_lt hstep) hc0
  nlinarith

end Mxl.C15
