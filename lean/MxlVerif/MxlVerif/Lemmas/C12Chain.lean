/- C12 — the environments of `_create_cache` / `_get_args` agree with the symbol tables (core Lean only). -/
import MxlVerif.Lemmas.C12Numeric
namespace Mxl.C12
open Mxl

theorem lookup_reverse_none {β} (l : List (Name × β)) (k : Name) (h : k ∉ omKeys l) :
    l.reverse.lookup k = none := by
  rw [lookup_none_iff]; simpa [omKeys] using h

theorem pairs_mapM (E : Env) :
    ∀ (l : List Name) (r : List (Name × Rat)),
      l.mapM (fun k => do pure (k, ← E.get k)) = .ok r →
      omKeys r = l ∧ ∀ k v, (k, v) ∈ r → E.lookup k = some v := by
  intro l r h
  have a := mapM_except_ok _ _ _ h
  clear h
  induction a with
  | nil => simp [omKeys]
  | @cons k kv ks r' hk _ ih =>
    simp only [bind, Except.bind] at hk
    cases hg : E.get k with
    | error err => simp [hg] at hk
    | ok v =>
      simp [hg, pure, Except.pure] at hk
      subst hk
      refine ⟨by simp [omKeys] at ih ⊢; exact ih.1, ?_⟩
      intro k' v' hm
      rcases List.mem_cons.mp hm with h1 | h1
      · simp at h1; rw [h1.1, h1.2]; exact env_get_inv _ _ _ hg
      · exact ih.2 k' v' h1

theorem keys_omInsert_cons {β} (m : List (Name × β)) (k k' : Name) (v v' : β) :
    omKeys (omInsert ((k', v') :: m) k v) =
      if k' = k then k :: omKeys m else k' :: omKeys (omInsert m k v) := by
  by_cases hk : k' = k
  · subst hk; simp [omInsert, omKeys]
  · have hb : (k' == k) = false := by simpa using hk
    simp [omInsert, hb, omKeys, hk]

theorem nodup_keys_omInsert {β} (m : List (Name × β)) (k : Name) (v : β) (h : (omKeys m).Nodup) :
    (omKeys (omInsert m k v)).Nodup := by
  induction m with
  | nil => simp [omInsert, omKeys]
  | cons kv m ih =>
    obtain ⟨k', v'⟩ := kv
    have h' : k' ∉ omKeys m ∧ (omKeys m).Nodup := by
      simpa [omKeys, List.nodup_cons] using h
    rw [keys_omInsert_cons]
    by_cases hk : k' = k
    · subst hk; simp only [if_true]; exact List.nodup_cons.mpr h'
    · simp only [hk, if_false]
      refine List.nodup_cons.mpr ⟨?_, ih h'.2⟩
      intro hm
      rcases (mem_keys_omInsert m k k' v).mp hm with h1 | h1
      · exact hk h1
      · exact h'.1 h1

theorem nodup_keys_omUnion {β} (a b : List (Name × β)) (h : (omKeys a).Nodup) :
    (omKeys (omUnion a b)).Nodup := by
  unfold omUnion
  induction b generalizing a with
  | nil => exact h
  | cons kv b ih => exact ih _ (nodup_keys_omInsert a kv.1 kv.2 h)

theorem mem_keys_zip {β} (l : List Name) (xs : List β) (k : Name) (h : k ∈ omKeys (l.zip xs)) : k ∈ l := by
  unfold omKeys at h
  obtain ⟨⟨k', x⟩, hm, hk⟩ := List.mem_map.mp h
  simp at hk; subst hk
  exact (List.of_mem_zip hm).1

theorem lookup_symbolsOf (ks : List Name) (k : Name) (e : SExpr) (h : (symbolsOf ks).lookup k = some e) :
    e = .sym k ∧ k ∈ ks := by
  have := lookup_some_mem _ _ _ h
  unfold symbolsOf at this
  obtain ⟨k', hk', he⟩ := List.mem_map.mp this
  simp at he
  exact ⟨by rw [← he.2, he.1], he.1 ▸ hk'⟩

theorem lookup_symbolsOf_rev (ks : List Name) (k : Name) (e : SExpr)
    (h : (symbolsOf ks).reverse.lookup k = some e) : e = .sym k ∧ k ∈ ks := by
  have : (symbolsOf ks).reverse = symbolsOf ks.reverse := by simp [symbolsOf, List.map_reverse]
  rw [this] at h
  have := lookup_symbolsOf _ _ _ h
  exact ⟨this.1, by simpa using this.2⟩

/-- every base symbol stands for itself -/
theorem baseSymbols_lookup (sc : SContent) (cache : Cache) (k : Name) (e : SExpr)
    (h : (baseSymbols sc cache).lookup k = some e) :
    e = .sym k ∧ (k ∈ omKeys cache.init ∨ k ∈ omKeys cache.basePars ∨ k ∈ omKeys sc.data) := by
  unfold baseSymbols at h
  rw [lookup_omUnion] at h
  cases h1 : (symbolsOf (omKeys sc.data)).reverse.lookup k with
  | some e1 =>
    simp [h1] at h; subst h
    have := lookup_symbolsOf_rev _ _ _ h1
    exact ⟨this.1, Or.inr (Or.inr this.2)⟩
  | none =>
    simp only [h1, Option.none_or] at h
    rw [lookup_omUnion] at h
    cases h2 : (symbolsOf (omKeys cache.basePars)).reverse.lookup k with
    | some e2 =>
      simp [h2] at h; subst h
      have := lookup_symbolsOf_rev _ _ _ h2
      exact ⟨this.1, Or.inr (Or.inl this.2)⟩
    | none =>
      simp only [h2, Option.none_or] at h
      have := lookup_symbolsOf _ _ _ h
      exact ⟨this.1, Or.inl this.2⟩

end Mxl.C12
namespace Mxl.C12
open Mxl

/-- everything the symbolic side provides, for a fixed cache and state -/
structure SymCtx (sc : SContent) (cache : Cache) (ρ : Name → Rat) (S rx : Symbols) : Prop where
  w : WFacts sc
  closed : SemClosed sc.derived ρ S
  sbase : ∀ a, a ∉ omKeys sc.derived → S.lookup a = (baseSymbols sc cache).lookup a
  skeys : ∀ a, a ∈ omKeys S → a ∈ omKeys (baseSymbols sc cache) ∨ a ∈ omKeys sc.derived
  rxs : ∀ k e, rx.lookup k = some e → ∃ r, sc.rxns.lookup k = some r ∧ substFn S r.rate = .ok e
  cVar : cache.varNames = omKeys sc.vars
  cInit : omKeys cache.init = omKeys sc.vars
  cBase : cache.basePars = plainOf sc.toContent.pars

variable {sc : SContent} {cache : Cache} {ρ : Name → Rat} {S rx : Symbols}

theorem SymCtx.basePars_sub (h : SymCtx sc cache ρ S rx) (k : Name) (hk : k ∈ omKeys cache.basePars) :
    k ∈ omKeys sc.pars := by
  rw [h.cBase] at hk
  have := mem_keys_plainOf _ _ hk
  rwa [keys_pars] at this

/-- a name in the table is a derived quantity, or a base symbol standing for itself -/
theorem SymCtx.lookup_cases (h : SymCtx sc cache ρ S rx) (k : Name) (e : SExpr)
    (hl : S.lookup k = some e) :
    k ∈ omKeys sc.derived ∨
    (k ∉ omKeys sc.derived ∧ e = .sym k ∧
      (k ∈ omKeys sc.vars ∨ k ∈ omKeys cache.basePars ∨ k ∈ omKeys sc.data)) := by
  by_cases hd : k ∈ omKeys sc.derived
  · exact Or.inl hd
  · right
    rw [h.sbase k hd] at hl
    have := baseSymbols_lookup sc cache k e hl
    rw [h.cInit] at this
    exact ⟨hd, this⟩

theorem SymCtx.not_rxn (h : SymCtx sc cache ρ S rx) (k : Name) (e : SExpr)
    (hl : S.lookup k = some e) : k ∉ omKeys sc.rxns := by
  intro hr
  rcases h.lookup_cases k e hl with hd | ⟨_, _, hv | hp | hdata⟩
  · exact h.w.d_r k hd hr
  · exact h.w.v_r k hv hr
  · exact h.w.p_r k (h.basePars_sub k hp) hr
  · exact h.w.data_r k hdata hr

theorem SymCtx.rx_rxn (h : SymCtx sc cache ρ S rx) (k : Name) (e : SExpr)
    (hl : rx.lookup k = some e) : k ∈ omKeys sc.rxns := by
  obtain ⟨r, hr, _⟩ := h.rxs k e hl
  exact mem_keys_of_lookup _ _ _ hr

/-- numeric step for a derived quantity `k = f(args)` against the table -/
theorem SymCtx.derived_value (h : SymCtx sc cache ρ S rx) (A : Name → Prop) (E : Env)
    (k : Name) (f : SFn) (e : SExpr) (v : Rat)
    (hA : AgreeOn A S ρ E) (hargs : ∀ a ∈ f.args, A a)
    (hf : sc.derived.lookup k = some f) (hl : S.lookup k = some e)
    (hv : f.toFn.calc E = .ok v) : evalS ρ e = v := by
  obtain ⟨es, hes, hval⟩ := h.closed k f e hf hl
  unfold Fn.calc at hv
  cases hvs : lookupArgs E f.toFn.args with
  | error err => simp [hvs, bind, Except.bind] at hv
  | ok vs =>
    simp [hvs, bind, Except.bind, pure, Except.pure] at hv
    subst hv
    have := agree_args A S ρ E hA f.args es vs hes (lookupArgs_ok _ _ _ hvs) hargs
    rw [hval, this]; rfl

end Mxl.C12
namespace Mxl.C12
open Mxl

variable {sc : SContent} {cache : Cache} {S rx : Symbols}

/-- a plain parameter's symbol has the parameter's value in `symEnv` -/
theorem symEnv_par (h : SymCtx sc cache (symEnv sc cache xs) S rx) (k : Name) (v : Rat)
    (hk : cache.basePars.reverse.lookup k = some v) : symEnv sc cache xs k = v := by
  have hkp : k ∈ omKeys sc.pars := by
    apply h.basePars_sub
    have := mem_keys_of_lookup _ _ _ hk
    simpa [omKeys] using this
  unfold symEnv symEnvL
  rw [List.lookup_append, List.lookup_append,
    lookup_reverse_none _ _ (fun hd => h.w.p_data k hkp hd),
    lookup_reverse_none _ _ (fun hz => h.w.v_p k (h.cVar ▸ mem_keys_zip _ _ _ hz) hkp)]
  simp [hk]

/-- a name bound in the data / state part of the environment: same value on both sides -/
theorem symEnv_front (k : Name) (v : Rat)
    (hk : (sc.data.reverse ++ (cache.varNames.zip xs).reverse).lookup k = some v) :
    symEnv sc cache xs k = v := by
  unfold symEnv symEnvL
  rw [List.lookup_append, hk]; rfl

/-- the environment `_create_cache` starts from agrees with the table on parameter-like names -/
theorem base_agree (h : SymCtx sc cache (symEnv sc cache xs) S rx) (A : Name → Prop)
    (hA : ∀ k, A k → k ∈ omKeys sc.pars ∨ k ∈ omKeys sc.derived) :
    AgreeOn A S (symEnv sc cache xs)
      (baseEnv (plainOf sc.toContent.pars) (plainOf sc.toContent.vars) sc.toContent.data 0) := by
  intro k hk e v he hv
  have hkk := hA k hk
  have hnt : k ≠ "time" := by
    rintro rfl; rcases hkk with h1 | h1
    · exact h.w.time_p h1
    · exact h.w.time_d h1
  have hnd : k ∉ omKeys sc.data := by
    intro hd; rcases hkk with h1 | h1
    · exact h.w.p_data k h1 hd
    · exact h.w.data_d k hd h1
  have hnv : k ∉ omKeys sc.vars := by
    intro hv'; rcases hkk with h1 | h1
    · exact h.w.v_p k hv' h1
    · exact h.w.v_d k hv' h1
  unfold baseEnv at hv
  rw [lookup_cons_eq] at hv
  simp only [hnt, if_false] at hv
  rw [List.lookup_append, List.lookup_append] at hv
  have hdata : sc.toContent.data = sc.data := rfl
  rw [hdata, lookup_reverse_none _ _ hnd,
    lookup_reverse_none _ _ (fun hz => hnv (by
      have := mem_keys_plainOf _ _ hz; rwa [keys_vars] at this))] at hv
  simp only [Option.none_or] at hv
  rw [← h.cBase] at hv
  have hkb : k ∈ omKeys cache.basePars := by
    have := mem_keys_of_lookup _ _ _ hv; simpa [omKeys] using this
  have hndv : k ∉ omKeys sc.derived := fun hd => h.w.p_d k (h.basePars_sub k hkb) hd
  rcases h.lookup_cases k e he with hd | ⟨_, hes, _⟩
  · exact absurd hd hndv
  · subst hes
    simp only [evalS]
    exact symEnv_par h k v hv

/-- one step of the cache's evaluation keeps the agreement on the static names -/
theorem dep_step (h : SymCtx sc cache (symEnv sc cache xs) S rx) (apnF : List Name)
    (hcl : ∀ k ∈ apnF, k ∈ omKeys sc.pars ∨
      ∃ f, sc.toContent.derived.lookup k = some f ∧ ∀ a ∈ f.args, a ∈ apnF)
    (k : Name) (comp : Comp) (E E' : Env)
    (hl : sc.toContent.toSort.lookup k = some comp)
    (hA : AgreeOn (· ∈ apnF) S (symEnv sc cache xs) E) (hc : comp.calcInpl k E = .ok E') :
    AgreeOn (· ∈ apnF) S (symEnv sc cache xs) E' := by
  rcases toSort_lookup sc h.w k comp hl with ⟨r, hr, hcomp⟩ | ⟨hnr, f, hf, hcomp⟩ | ⟨hnr, hnd, ⟨fn, hcomp⟩, hia⟩
  · subst hcomp
    obtain ⟨v, _, hE⟩ := calcInpl_fn _ _ _ _ hc
    subst hE
    apply agreeOn_set _ _ _ _ _ _ hA
    intro _ e he
    exact absurd (mem_keys_of_lookup _ _ _ hr) (h.not_rxn k e he)
  · subst hcomp
    obtain ⟨v, hv, hE⟩ := calcInpl_fn _ _ _ _ hc
    subst hE
    apply agreeOn_set _ _ _ _ _ _ hA
    intro hk e he
    rcases hcl k hk with hp | ⟨f', hf', hargs⟩
    · exact absurd (mem_keys_of_lookup _ _ _ hf) (h.w.p_d k hp)
    · rw [derived_lookup, hf] at hf'
      simp at hf'
      subst hf'
      exact h.derived_value (· ∈ apnF) E k f e v hA hargs hf he hv
  · subst hcomp
    obtain ⟨v, _, hE⟩ := calcInpl_fn _ _ _ _ hc
    subst hE
    apply agreeOn_set _ _ _ _ _ _ hA
    intro hk e he
    exfalso
    have hp : k ∈ omKeys sc.pars := by
      rcases hcl k hk with hp | ⟨f', hf', _⟩
      · exact hp
      · rw [derived_lookup] at hf'
        cases hd : sc.derived.lookup k with
        | none => simp [hd] at hf'
        | some f => exact absurd (mem_keys_of_lookup _ _ _ hd) hnd
    rcases h.lookup_cases k e he with hd | ⟨_, _, hv | hb | hdata⟩
    · exact hnd hd
    · exact h.w.v_p k hv hp
    · rcases hia with hia | hia
      · have := mem_keys_iaOf _ _ hia; rw [keys_vars] at this; exact h.w.v_p k this hp
      · rw [h.cBase] at hb
        exact plain_not_ia _ (by rw [keys_pars]; exact h.w.pN) k hb hia
    · exact h.w.p_data k hp hdata

end Mxl.C12
namespace Mxl.C12
open Mxl

variable {sc : SContent} {cache : Cache} {S rx : Symbols}

/-- what the cache construction tells about the parameter dict handed to `_get_args` -/
structure ParFacts (sc : SContent) (cache : Cache) (S : Symbols) (ρ : Name → Rat)
    (extra : List (Name × Rat)) (dependent : Env) (apnF : List Name) : Prop where
  hall : cache.allPars = omUnion cache.basePars extra
  hextra : ∀ k v, (k, v) ∈ extra → k ∉ omKeys sc.vars ∧ dependent.lookup k = some v ∧
    k ∉ omKeys sc.rxns ∧ (∃ comp, sc.toContent.toSort.lookup k = some comp) ∧
    (k ∈ omKeys sc.vars ∨ k ∈ omKeys sc.pars ∨ k ∈ apnF)
  hdep : AgreeOn (· ∈ apnF) S ρ dependent

theorem E0_agree_S (h : SymCtx sc cache (symEnv sc cache xs) S rx)
    (pf : ParFacts sc cache S (symEnv sc cache xs) extra dependent apnF) (t : Rat) :
    Agree S (symEnv sc cache xs)
      (("time", t) :: (sc.toContent.data.reverse ++ (cache.varNames.zip xs).reverse ++ cache.allPars.reverse)) := by
  obtain ⟨hall, hextra, hdep⟩ := pf
  intro k _ e v he hv
  have hdata : sc.toContent.data = sc.data := rfl
  rw [hdata, lookup_cons_eq] at hv
  by_cases hkt : k = "time"
  · subst hkt
    exfalso
    rcases h.lookup_cases _ e he with hd | ⟨_, _, hv' | hp | hd'⟩
    · exact h.w.time_d hd
    · exact h.w.time_v hv'
    · exact h.w.time_p (h.basePars_sub _ hp)
    · exact h.w.time_data hd'
  · simp only [hkt, if_false] at hv
    rw [List.lookup_append] at hv
    cases hfront : (sc.data.reverse ++ (cache.varNames.zip xs).reverse).lookup k with
    | some v' =>
      simp [hfront] at hv; subst hv
      have hkey := mem_keys_of_lookup _ _ _ hfront
      have hkk : k ∈ omKeys sc.data ∨ k ∈ omKeys sc.vars := by
        simp only [omKeys, List.map_append, List.map_reverse, List.mem_append, List.mem_reverse] at hkey
        rcases hkey with h1 | h1
        · exact Or.inl h1
        · exact Or.inr (h.cVar ▸ mem_keys_zip _ xs k h1)
      rcases h.lookup_cases k e he with hd | ⟨_, hes, _⟩
      · exfalso; rcases hkk with h1 | h1
        · exact h.w.data_d k h1 hd
        · exact h.w.v_d k h1 hd
      · subst hes; simp only [evalS]; exact symEnv_front k v' hfront
    | none =>
      simp only [hfront, Option.none_or] at hv
      have hnf : k ∉ omKeys sc.data ∧ k ∉ omKeys sc.vars → True := fun _ => trivial
      have hbN : (omKeys cache.basePars).Nodup := by
        rw [h.cBase]; exact nodup_keys_plainOf _ (by rw [keys_pars]; exact h.w.pN)
      rw [lookup_reverse _ _ (by rw [hall]; exact nodup_keys_omUnion _ _ hbN), hall, lookup_omUnion] at hv
      cases hx : extra.reverse.lookup k with
      | some v' =>
        simp [hx] at hv; subst hv
        have hm : (k, v') ∈ extra := by simpa using lookup_some_mem _ _ _ hx
        obtain ⟨hnv, hdl, hnr, ⟨comp, hcomp⟩, hcls⟩ := hextra k v' hm
        rcases toSort_lookup sc h.w k comp hcomp with ⟨r, hr, _⟩ | ⟨_, f, hf, _⟩ | ⟨_, hnd, _, hia⟩
        · exact absurd (mem_keys_of_lookup _ _ _ hr) hnr
        · have hd := mem_keys_of_lookup _ _ _ hf
          have : k ∈ apnF := by
            rcases hcls with h1 | h1 | h1
            · exact absurd h1 hnv
            · exact absurd hd (h.w.p_d k h1)
            · exact h1
          exact hdep k this e v' he hdl
        · exfalso
          rcases h.lookup_cases k e he with hd | ⟨_, _, hv' | hb | hd'⟩
          · exact hnd hd
          · exact hnv hv'
          · rcases hia with hia | hia
            · have := mem_keys_iaOf _ _ hia; rw [keys_vars] at this; exact hnv this
            · rw [h.cBase] at hb
              exact plain_not_ia _ (by rw [keys_pars]; exact h.w.pN) k hb hia
          · rcases hia with hia | hia
            · have := mem_keys_iaOf _ _ hia; rw [keys_vars] at this; exact hnv this
            · have := mem_keys_iaOf _ _ hia; rw [keys_pars] at this; exact h.w.p_data k this hd'
      | none =>
        simp only [hx, Option.none_or] at hv
        have hvr : cache.basePars.reverse.lookup k = some v := by rw [lookup_reverse _ _ hbN]; exact hv
        have hkb : k ∈ omKeys cache.basePars := mem_keys_of_lookup _ _ _ hv
        rcases h.lookup_cases k e he with hd | ⟨_, hes, _⟩
        · exact absurd hd (h.w.p_d k (h.basePars_sub k hkb))
        · subst hes; simp only [evalS]; exact symEnv_par h k v hvr

theorem E0_agree_rx (h : SymCtx sc cache (symEnv sc cache xs) S rx)
    (pf : ParFacts sc cache S (symEnv sc cache xs) extra dependent apnF) (t : Rat) :
    Agree rx (symEnv sc cache xs)
      (("time", t) :: (sc.toContent.data.reverse ++ (cache.varNames.zip xs).reverse ++ cache.allPars.reverse)) := by
  obtain ⟨hall, hextra, hdep⟩ := pf
  intro k _ e v he hv
  exfalso
  have hr := h.rx_rxn k e he
  have hdata : sc.toContent.data = sc.data := rfl
  rw [hdata, lookup_cons_eq] at hv
  by_cases hkt : k = "time"
  · subst hkt; exact h.w.time_r hr
  · simp only [hkt, if_false] at hv
    have hkey := mem_keys_of_lookup _ _ _ hv
    simp only [omKeys, List.map_append, List.map_reverse, List.mem_append, List.mem_reverse] at hkey
    rcases hkey with (h1 | h1) | h1
    · exact h.w.data_r k h1 hr
    · exact h.w.v_r k (h.cVar ▸ mem_keys_zip _ xs k h1) hr
    · have : k ∈ omKeys cache.allPars := h1
      rw [hall, mem_keys_omUnion] at this
      rcases this with h2 | h2
      · exact h.w.p_r k (h.basePars_sub k h2) hr
      · obtain ⟨⟨k', v'⟩, hm, hk'⟩ := List.mem_map.mp h2
        simp at hk'; subst hk'
        exact (hextra k' v' hm).2.2.1 hr

/-- one step of `_get_args` keeps both tables in agreement with the environment -/
theorem args_step (h : SymCtx sc cache (symEnv sc cache xs) S rx)
    (k : Name) (comp : Comp) (E E' : Env)
    (hl : sc.toContent.containers.lookup k = some comp)
    (hP : Agree S (symEnv sc cache xs) E ∧ Agree rx (symEnv sc cache xs) E)
    (hc : comp.calcInpl k E = .ok E') :
    Agree S (symEnv sc cache xs) E' ∧ Agree rx (symEnv sc cache xs) E' := by
  rcases containers_lookup sc h.w k comp hl with ⟨r, hr, hcomp⟩ | ⟨hnr, f, hf, hcomp⟩
  · subst hcomp
    obtain ⟨v, hv, hE⟩ := calcInpl_fn _ _ _ _ hc
    subst hE
    constructor
    · apply agreeOn_set _ _ _ _ _ _ hP.1
      intro _ e he
      exact absurd (mem_keys_of_lookup _ _ _ hr) (h.not_rxn k e he)
    · apply agreeOn_set _ _ _ _ _ _ hP.2
      intro _ e he
      obtain ⟨r', hr', hs⟩ := h.rxs k e he
      rw [hr] at hr'; simp at hr'; subst hr'
      exact step_value (fun _ => True) S _ E r.rate e v hP.1 (fun _ _ => trivial) hs hv
  · subst hcomp
    obtain ⟨v, hv, hE⟩ := calcInpl_fn _ _ _ _ hc
    subst hE
    constructor
    · apply agreeOn_set _ _ _ _ _ _ hP.1
      intro _ e he
      exact h.derived_value (fun _ => True) E k f e v hP.1 (fun _ _ => trivial) hf he hv
    · apply agreeOn_set _ _ _ _ _ _ hP.2
      intro _ e he
      exact absurd (h.rx_rxn k e he) hnr

end Mxl.C12
