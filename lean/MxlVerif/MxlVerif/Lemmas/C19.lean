import MxlVerif.Model.C19
/-! helper lemmas for Props/C19 (core Lean only) -/
set_option linter.unusedSectionVars false
namespace Mxl.C19
variable {κ α β : Type} [DecidableEq κ]

theorem applyOps_nil (fs : FS κ β) : applyOps fs [] = fs := rfl
theorem applyOps_cons (fs : FS κ β) (o : Op κ β) (l : List (Op κ β)) :
    applyOps fs (o :: l) = applyOps (applyOp fs o) l := rfl
theorem applyOps_append (fs : FS κ β) (a b : List (Op κ β)) :
    applyOps fs (a ++ b) = applyOps (applyOps fs a) b := by
  simp [applyOps, List.foldl_append]

/-- an operation changes only the paths it names -/
theorem applyOp_frame (fs : FS κ β) (o : Op κ β) (q : Path κ) (h : q ∉ o.paths) :
    applyOp fs o q = fs q := by
  cases o with
  | openW p w => simp [Op.paths] at h; simp [applyOp, FS.set, h]
  | write1 p =>
    simp [Op.paths] at h
    simp [applyOp, FS.set, h]
  | rename s d => simp [Op.paths] at h; simp [applyOp, FS.set, h]

theorem applyOps_frame (ops : List (Op κ β)) (fs : FS κ β) (q : Path κ)
    (h : ∀ o ∈ ops, q ∉ o.paths) : applyOps fs ops q = fs q := by
  induction ops generalizing fs with
  | nil => rfl
  | cons o l ih =>
    rw [applyOps_cons, ih]
    · exact applyOp_frame fs o q (h o (by simp))
    · intro o' ho'; exact h o' (by simp [ho'])

theorem applyOps_writes (p : Path κ) (w : β) (m : Nat) :
    ∀ (fs : FS κ β) (j : Nat), fs p = .data w j →
      applyOps fs (List.replicate m (.write1 p)) = fs.set p (.data w (j + m)) := by
  induction m with
  | zero =>
    intro fs j h
    apply FS.ext; intro q
    simp [applyOps, FS.set]
    intro hq; rw [hq, h]
  | succ m ih =>
    intro fs j h
    rw [List.replicate_succ, applyOps_cons]
    have h1 : applyOp fs (.write1 p) = fs.set p (.data w (j + 1)) := by simp [applyOp, h, File.bump]
    rw [h1, ih (fs.set p (.data w (j + 1))) (j + 1) (by simp [FS.set])]
    apply FS.ext; intro q
    simp only [FS.set]
    by_cases hq : q = p <;> simp [hq]
    omega

theorem saveOps_paths (mode : SaveMode) (size : β → Nat) (k : κ) (res : β) :
    ∀ o ∈ saveOps mode size k res, ∀ q ∈ o.paths, q = .final k ∨ q = .tmp k := by
  intro o ho q hq
  cases mode <;> simp [saveOps] at ho
  · rcases ho with rfl | ⟨_, rfl⟩ <;> simp [Op.paths] at hq <;> simp [hq]
  · rcases ho with rfl | ⟨_, rfl⟩ | rfl <;> simp [Op.paths] at hq
    · simp [hq]
    · simp [hq]
    · rcases hq with rfl | rfl <;> simp

/-- a complete save (either mode) leaves the complete pickle in the final file -/
theorem save_complete_final (mode : SaveMode) (size : β → Nat) (fs : FS κ β) (k : κ) (res : β) :
    applyOps fs (saveOps mode size k res) (.final k) = .data res (size res) := by
  cases mode
  · simp only [saveOps, applyOps_cons, applyOp]
    rw [applyOps_writes (.final k) res (size res) _ 0 (by simp [FS.set])]
    simp [FS.set]
  · simp only [saveOps, applyOps_cons, applyOp, applyOps_append, applyOps_nil]
    rw [applyOps_writes (.tmp k) res (size res) _ 0 (by simp [FS.set])]
    simp [FS.set]

/-- the three shapes of a prefix of an atomic save -/
theorem take_atomic (size : β → Nat) (k : κ) (res : β) (c : Nat) :
    (saveOps .atomic size k res).take c = [] ∨
    (∃ j, (saveOps .atomic size k res).take c
        = .openW (.tmp k) res :: List.replicate j (.write1 (.tmp k))) ∨
    (saveOps .atomic size k res).take c = saveOps .atomic size k res := by
  cases c with
  | zero => left; rfl
  | succ c =>
    right
    simp only [saveOps, List.take_succ_cons, List.take_append, List.take_replicate, List.length_replicate]
    cases h : c - size res with
    | zero => left; exact ⟨min c (size res), by simp⟩
    | succ m =>
      right
      have : min c (size res) = size res := by omega
      simp [this]

/-- cut anywhere, an atomic save leaves every final file as it was or installs the complete pickle -/
theorem atomic_prefix_final (size : β → Nat) (fs : FS κ β) (k : κ) (res : β) (c : Nat) (k' : κ) :
    applyOps fs ((saveOps .atomic size k res).take c) (.final k') = fs (.final k') ∨
    (k' = k ∧ applyOps fs ((saveOps .atomic size k res).take c) (.final k') = .data res (size res)) := by
  rcases take_atomic size k res c with h | ⟨j, h⟩ | h
  · rw [h]; left; rfl
  · rw [h]; left
    apply applyOps_frame
    intro o ho
    simp at ho
    rcases ho with rfl | ⟨_, rfl⟩ <;> simp [Op.paths]
  · rw [h]
    by_cases hk : k' = k
    · right; subst hk; exact ⟨rfl, save_complete_final .atomic size fs k' res⟩
    · left
      apply applyOps_frame
      intro o ho q
      have := saveOps_paths .atomic size k res o ho (.final k') q
      simp [hk] at this

theorem save_complete_other (mode : SaveMode) (size : β → Nat) (fs : FS κ β) (k k' : κ) (res : β)
    (hk : k' ≠ k) : applyOps fs (saveOps mode size k res) (.final k') = fs (.final k') := by
  apply applyOps_frame
  intro o ho q
  have := saveOps_paths mode size k res o ho (.final k') q
  simp [hk] at this

/-! ### commutation of operations on disjoint paths -/

def Disj (a b : Op κ β) : Prop := ∀ q ∈ a.paths, q ∉ b.paths

theorem applyOp_comm (fs : FS κ β) (a b : Op κ β) (h : Disj a b) :
    applyOp (applyOp fs a) b = applyOp (applyOp fs b) a := by
  apply FS.ext; intro q
  cases a <;> cases b <;> simp [Disj, Op.paths] at h <;> simp only [applyOp, FS.set] <;> grind

theorem applyOps_comm_one (a : Op κ β) (B : List (Op κ β)) :
    ∀ (fs : FS κ β), (∀ b ∈ B, Disj a b) →
      applyOps (applyOp fs a) B = applyOp (applyOps fs B) a := by
  induction B with
  | nil => intro fs _; rfl
  | cons b B ih =>
    intro fs h
    rw [applyOps_cons, applyOps_cons, applyOp_comm fs a b (h b (by simp))]
    exact ih _ (fun b' hb' => h b' (by simp [hb']))

theorem applyOps_comm (A B : List (Op κ β)) :
    ∀ (fs : FS κ β), (∀ a ∈ A, ∀ b ∈ B, Disj a b) →
      applyOps (applyOps fs A) B = applyOps (applyOps fs B) A := by
  induction A with
  | nil => intro fs _; rfl
  | cons a A ih =>
    intro fs h
    rw [applyOps_cons, applyOps_cons, ih _ (fun a' ha' => h a' (by simp [ha'])),
      applyOps_comm_one a B fs (h a (by simp))]

theorem interleave_eq (A B L : List (Op κ β)) (hi : Interleave A B L) :
    ∀ (fs : FS κ β), (∀ a ∈ A, ∀ b ∈ B, Disj a b) →
      applyOps fs L = applyOps (applyOps fs A) B := by
  induction hi with
  | nil => intro fs _; rfl
  | left x _ ih =>
    intro fs h
    rw [applyOps_cons, applyOps_cons]
    exact ih _ (fun a ha => h a (by simp [ha]))
  | @right A B L x _ ih =>
    intro fs h
    rw [applyOps_cons, applyOps_cons, ih _ (fun a ha b hb => h a ha b (by simp [hb]))]
    have := applyOps_comm_one x A fs (fun a ha q hq hqa => h a ha x (by simp) q hqa hq)
    rw [← this]

theorem saveOps_disj (mode mode' : SaveMode) (size : β → Nat) (k k' : κ) (res res' : β) (hk : k ≠ k') :
    ∀ a ∈ saveOps mode size k res, ∀ b ∈ saveOps mode' size k' res', Disj a b := by
  intro a ha b hb q hqa hqb
  have h1 := saveOps_paths mode size k res a ha q hqa
  have h2 := saveOps_paths mode' size k' res' b hb q hqb
  rcases h1 with rfl | rfl <;> rcases h2 with h | h <;> simp at h <;> exact hk h

/-! ### `loadOrRun` as "operations + outcome", both determined by the key's own final file -/

def opsOf (mode : SaveMode) (size : β → Nat) (fn : α → β) (f : File β) (k : κ) (v : α)
    (cut : Option Nat) : List (Op κ β) :=
  match f with
  | .data _ _ => []
  | .absent =>
    match cut with
    | none => saveOps mode size k (fn v)
    | some c => (saveOps mode size k (fn v)).take c

def outOf (size : β → Nat) (fn : α → β) (f : File β) (v : α) (cut : Option Nat) : Outcome β :=
  match f with
  | .data w p => if size w ≤ p then .ret w false else .loadError
  | .absent =>
    match cut with
    | none => .ret (fn v) true
    | some _ => .killed

theorem loadOrRun_eq (mode : SaveMode) (size : β → Nat) (fn : α → β) (fs : FS κ β) (k : κ) (v : α)
    (cut : Option Nat) :
    loadOrRun mode size fn fs k v cut
      = (applyOps fs (opsOf mode size fn (fs (.final k)) k v cut), outOf size fn (fs (.final k)) v cut) := by
  unfold loadOrRun opsOf outOf
  cases fs (.final k) with
  | data w p => simp only []; split <;> rfl
  | absent => cases cut <;> rfl

theorem opsOf_sub (mode : SaveMode) (size : β → Nat) (fn : α → β) (f : File β) (k : κ) (v : α)
    (cut : Option Nat) : ∀ o ∈ opsOf mode size fn f k v cut, o ∈ saveOps mode size k (fn v) := by
  intro o ho
  unfold opsOf at ho
  cases f with
  | data w p => simp at ho
  | absent =>
    cases cut with
    | none => exact ho
    | some c => exact List.mem_of_mem_take ho

theorem opsOf_frame (mode : SaveMode) (size : β → Nat) (fn : α → β) (f : File β) (k k' : κ) (v : α)
    (cut : Option Nat) (fs : FS κ β) (hk : k ≠ k') :
    applyOps fs (opsOf mode size fn f k v cut) (.final k') = fs (.final k') := by
  apply applyOps_frame
  intro o ho q
  have := saveOps_paths mode size k (fn v) o (opsOf_sub mode size fn f k v cut o ho) (.final k') q
  simp [Ne.symm hk] at this

/-- a list that never gives one name two different inputs is the graph of a function on names -/
theorem respects_of_separate {ν : Type} [DecidableEq ν] (l : List (ν × α)) (d : α)
    (h : ∀ a ∈ l, ∀ b ∈ l, a.1 = b.1 → a.2 = b.2) :
    Respects (fun n => match l.find? (fun kv => decide (kv.1 = n)) with | some kv => kv.2 | none => d) l := by
  intro kv hkv
  simp only []
  cases hf : l.find? (fun x => decide (x.1 = kv.1)) with
  | none =>
    have := List.find?_eq_none.mp hf kv hkv
    simp at this
  | some kv' =>
    have h1 := List.find?_some hf
    have h2 := List.mem_of_find?_eq_some hf
    simp only [decide_eq_true_eq] at h1
    exact (h kv' h2 kv hkv h1).symm

/-! ### percent-encoding -/

theorem unhex_hexDigit (n : Nat) (h : n < 16) : unhex (hexDigit n) = n := by
  unfold unhex hexDigit
  split <;> split <;> omega

theorem hexDigit_ne_37 (n : Nat) (h : n < 16) : hexDigit n ≠ 37 := by
  unfold hexDigit; split <;> omega

theorem pctDecode_encode : ∀ (l : List Nat), (∀ b ∈ l, b < 256) → pctDecode (pctEncode l) = l := by
  intro l
  induction l with
  | nil => intro _; rfl
  | cons b rest ih =>
    intro h
    have hb := h b (by simp)
    have hr := ih (fun x hx => h x (by simp [hx]))
    simp only [pctEncode]
    by_cases hs : safeByte b = true
    · simp only [hs, if_true]
      have hne : b ≠ 37 := by
        intro e; subst e; simp [safeByte] at hs
      cases hp : pctEncode rest with
      | nil => rw [hp] at hr; simp [pctDecode, ← hr]
      | cons x xs =>
        rw [hp] at hr
        cases xs with
        | nil => simp [pctDecode, ← hr]
        | cons y ys => unfold pctDecode; split <;> simp_all
    · simp only [hs]
      simp only [Bool.false_eq_true, if_false, pctDecode]
      rw [unhex_hexDigit _ (by omega), unhex_hexDigit _ (by omega), hr]
      congr 1
      omega

theorem pctEncode_injective (a b : List Nat) (ha : ∀ x ∈ a, x < 256) (hb : ∀ x ∈ b, x < 256)
    (h : pctEncode a = pctEncode b) : a = b := by
  rw [← pctDecode_encode a ha, ← pctDecode_encode b hb, h]

/-- every byte of an encoded string is `%`, a hexadecimal digit or a safe byte -/
theorem pctEncode_bytes : ∀ (l : List Nat), (∀ b ∈ l, b < 256) →
    ∀ x ∈ pctEncode l, x = 37 ∨ (48 ≤ x ∧ x ≤ 57) ∨ (65 ≤ x ∧ x ≤ 70) ∨ safeByte x = true := by
  intro l
  induction l with
  | nil => intro _ x hx; simp [pctEncode] at hx
  | cons b rest ih =>
    intro h x hx
    have hb := h b (by simp)
    have hr := ih (fun y hy => h y (by simp [hy]))
    simp only [pctEncode] at hx
    by_cases hs : safeByte b = true
    · simp only [hs, if_true, List.mem_cons] at hx
      rcases hx with rfl | hx
      · exact Or.inr (Or.inr (Or.inr hs))
      · exact hr x hx
    · simp only [hs, Bool.false_eq_true, if_false, List.mem_cons] at hx
      have hd : ∀ n, n < 16 → (48 ≤ hexDigit n ∧ hexDigit n ≤ 57) ∨ (65 ≤ hexDigit n ∧ hexDigit n ≤ 70) := by
        intro n hn; unfold hexDigit; split <;> omega
      rcases hx with rfl | rfl | rfl | hx
      · exact Or.inl rfl
      · rcases hd (b / 16) (by omega) with h1 | h1
        · exact Or.inr (Or.inl h1)
        · exact Or.inr (Or.inr (Or.inl h1))
      · rcases hd (b % 16) (by omega) with h1 | h1
        · exact Or.inr (Or.inl h1)
        · exact Or.inr (Or.inr (Or.inl h1))
      · exact hr x hx

theorem nodup_keys_separate (l : List (κ × α)) (h : (l.map (·.1)).Nodup) :
    ∀ a ∈ l, ∀ b ∈ l, a.1 = b.1 → a.2 = b.2 := by
  induction l with
  | nil => intro a ha; simp at ha
  | cons x xs ih =>
    simp only [List.map_cons, List.nodup_cons, List.mem_map, not_exists, not_and] at h
    intro a ha b hb hab
    rcases List.mem_cons.mp ha with rfl | ha' <;> rcases List.mem_cons.mp hb with rfl | hb'
    · rfl
    · exact absurd hab.symm (h.1 b hb')
    · exact absurd hab (h.1 a ha')
    · exact ih h.2 a ha' b hb' hab

theorem nodup_map_of_injective {γ δ : Type} (f : γ → δ) (hf : Function.Injective f) :
    ∀ (l : List γ), l.Nodup → (l.map f).Nodup := by
  intro l
  induction l with
  | nil => intro _; simp
  | cons x xs ih =>
    intro h
    simp only [List.nodup_cons] at h
    simp only [List.map_cons, List.nodup_cons, List.mem_map, not_exists, not_and]
    exact ⟨fun y hy e => h.1 (hf e ▸ hy), ih h.2⟩

/-- decimal digits are the bytes 48..57: no path separator, no NUL -/
theorem decDigits_safe (n : Nat) : ∀ b ∈ decDigits n, b ≠ 47 ∧ b ≠ 92 ∧ b ≠ 0 := by
  intro b hb
  simp only [decDigits, List.mem_map] at hb
  obtain ⟨c, hc, rfl⟩ := hb
  have := Nat.isDigit_of_mem_toDigits (by decide) (by decide) hc
  simp only [Char.isDigit, Bool.and_eq_true, decide_eq_true_eq] at this
  have h1 : 48 ≤ c.toNat := this.1
  have h2 : c.toNat ≤ 57 := this.2
  omega

theorem map_toNat_injective : ∀ (l1 l2 : List Char), l1.map Char.toNat = l2.map Char.toNat → l1 = l2 := by
  intro l1
  induction l1 with
  | nil => intro l2 h; cases l2 <;> simp_all
  | cons c l1 ih =>
    intro l2 h
    cases l2 with
    | nil => simp at h
    | cons d l2 =>
      simp only [List.map_cons, List.cons.injEq] at h
      have hcd : c = d := by
        have := congrArg Char.ofNat h.1
        simpa [Char.ofNat_toNat] using this
      rw [hcd, ih l2 h.2]

/-- different numbers have different decimal digits (`Nat.ofDigitChars` reads them back) -/
theorem decDigits_injective : Function.Injective decDigits := by
  intro a b h
  have h1 : Nat.toDigits 10 a = Nat.toDigits 10 b := map_toNat_injective _ _ h
  have h2 := congrArg (fun l => Nat.ofDigitChars 10 l 0) h1
  simp only [Nat.ofDigitChars_toDigits (by decide : 1 < 10) (by decide : 10 ≤ 10)] at h2
  exact h2

theorem saveOps_atomic_eq (size : β → Nat) (k : κ) (res : β) :
    saveOps .atomic size k res = saveOpsAt size (.tmp k) (.final k) res := rfl

/-- what is left to do of a (possibly cut) save, together with what its temporary holds -/
inductive Pending (size : β → Nat) (tP fin : Path κ) (r : β) (fs : FS κ β) : List (Op κ β) → Prop where
  | done : Pending size tP fin r fs []
  | fresh (m : Nat) (hm : m ≤ size r) : Pending size tP fin r fs (.openW tP r :: List.replicate m (.write1 tP))
  | freshFull : Pending size tP fin r fs (saveOpsAt size tP fin r)
  | writing (p m : Nat) (hf : fs tP = .data r p) (hm : p + m ≤ size r) :
      Pending size tP fin r fs (List.replicate m (.write1 tP))
  | finishing (p m : Nat) (hf : fs tP = .data r p) (hm : p + m = size r) :
      Pending size tP fin r fs (List.replicate m (.write1 tP) ++ [.rename tP fin])

/-- every prefix of a save is pending from any state -/
theorem pending_take (size : β → Nat) (tP fin : Path κ) (r : β) (fs : FS κ β) (c : Nat) :
    Pending size tP fin r fs ((saveOpsAt size tP fin r).take c) := by
  unfold saveOpsAt
  cases c with
  | zero => exact .done
  | succ c =>
    simp only [List.take_succ_cons]
    by_cases hc : c ≤ size r
    · have : (List.replicate (size r) (Op.write1 tP : Op κ β) ++ [Op.rename tP fin]).take c = List.replicate c (.write1 tP) := by
        rw [List.take_append_of_le_length (by simpa using hc)]
        simp [List.take_replicate, Nat.min_eq_left hc]
      rw [this]
      exact .fresh c hc
    · have : (List.replicate (size r) (Op.write1 tP : Op κ β) ++ [Op.rename tP fin]).take c
          = List.replicate (size r) (Op.write1 tP) ++ [Op.rename tP fin] := by
        apply List.take_of_length_le
        simp; omega
      rw [this]
      exact .freshFull

theorem FS.set_get (fs : FS κ β) (p q : Path κ) (f : File β) :
    (fs.set p f) q = if q = p then f else fs q := rfl

/-- pending work only looks at the writer's own temporary -/
theorem Pending.congr {size : β → Nat} {tP fin : Path κ} {r : β} {fs fs' : FS κ β} {a : List (Op κ β)}
    (h : fs' tP = fs tP) (hp : Pending size tP fin r fs a) : Pending size tP fin r fs' a := by
  cases hp with
  | done => exact .done
  | fresh m hm => exact .fresh m hm
  | freshFull => exact .freshFull
  | writing p m hf hm => exact .writing p m (h.trans hf) hm
  | finishing p m hf hm => exact .finishing p m (h.trans hf) hm

/-- one step of a writer: its remaining work stays pending, the result file is left alone or becomes the writer's
COMPLETE result, and no other path than its temporary and the result file is touched -/
theorem Pending.step {size : β → Nat} {tP fin : Path κ} {r : β} {fs : FS κ β} {o : Op κ β} {rest : List (Op κ β)}
    (hne : tP ≠ fin) (hp : Pending size tP fin r fs (o :: rest)) :
    Pending size tP fin r (applyOp fs o) rest ∧
    ((applyOp fs o) fin = fs fin ∨ (applyOp fs o) fin = .data r (size r)) ∧
    ∀ q, q ≠ tP → q ≠ fin → (applyOp fs o) q = fs q := by
  have hfin : fin ≠ tP := fun e => hne e.symm
  generalize hl : o :: rest = l at hp
  cases hp with
  | done => cases hl
  | fresh m hm =>
    simp only [List.cons.injEq] at hl
    obtain ⟨rfl, rfl⟩ := hl
    refine ⟨.writing 0 m (by simp [applyOp, FS.set_get]) (by omega), .inl (by simp [applyOp, FS.set_get, hfin]), ?_⟩
    intro q h1 _; simp [applyOp, FS.set_get, h1]
  | freshFull =>
    simp only [saveOpsAt, List.cons.injEq] at hl
    obtain ⟨rfl, rfl⟩ := hl
    refine ⟨.finishing 0 (size r) (by simp [applyOp, FS.set_get]) (by omega), .inl (by simp [applyOp, FS.set_get, hfin]), ?_⟩
    intro q h1 _; simp [applyOp, FS.set_get, h1]
  | writing p m hf hm =>
    cases m with
    | zero => simp at hl
    | succ m =>
      simp only [List.replicate_succ, List.cons.injEq] at hl
      obtain ⟨rfl, rfl⟩ := hl
      refine ⟨.writing (p + 1) m (by simp [applyOp, FS.set_get, hf, File.bump]) (by omega),
        .inl (by simp [applyOp, FS.set_get, hfin]), ?_⟩
      intro q h1 _; simp [applyOp, FS.set_get, h1]
  | finishing p m hf hm =>
    cases m with
    | zero =>
      simp only [List.replicate_zero, List.nil_append, List.cons.injEq] at hl
      obtain ⟨rfl, rfl⟩ := hl
      refine ⟨.done, .inr ?_, ?_⟩
      · have : p = size r := by omega
        simp [applyOp, FS.set_get, hfin, hf, this]
      · intro q h1 h2; simp [applyOp, FS.set_get, h1, h2]
    | succ m =>
      simp only [List.replicate_succ, List.cons_append, List.cons.injEq] at hl
      obtain ⟨rfl, rfl⟩ := hl
      refine ⟨.finishing (p + 1) m (by simp [applyOp, FS.set_get, hf, File.bump]) (by omega),
        .inl (by simp [applyOp, FS.set_get, hfin]), ?_⟩
      intro q h1 _; simp [applyOp, FS.set_get, h1]

/-- two writers of ONE result file with different temporaries, every interleaving of their (pending) steps: the result
file ends as it was, or as one writer's complete result, or as the other's -/
theorem two_writers_inv {size : β → Nat} {tA tB fin : Path κ} {rA rB : β} (hAB : tA ≠ tB) (hA : tA ≠ fin)
    (hB : tB ≠ fin) (F0 : File β) :
    ∀ (a b l : List (Op κ β)), Interleave a b l → ∀ (fs : FS κ β),
      Pending size tA fin rA fs a → Pending size tB fin rB fs b →
      (fs fin = F0 ∨ fs fin = .data rA (size rA) ∨ fs fin = .data rB (size rB)) →
      ((applyOps fs l) fin = F0 ∨ (applyOps fs l) fin = .data rA (size rA) ∨
        (applyOps fs l) fin = .data rB (size rB)) := by
  intro a b l h
  induction h with
  | nil => intro fs _ _ hf; simpa [applyOps] using hf
  | left x _ ih =>
    intro fs pa pb hf
    obtain ⟨pa', hfin, hoth⟩ := pa.step hA
    rw [applyOps_cons]
    apply ih _ pa' (pb.congr (hoth tB (fun e => hAB e.symm) hB))
    rcases hfin with e | e
    · rw [e]; exact hf
    · exact .inr (.inl e)
  | right x _ ih =>
    intro fs pa pb hf
    obtain ⟨pb', hfin, hoth⟩ := pb.step hB
    rw [applyOps_cons]
    apply ih _ (pa.congr (hoth tA hAB hA)) pb'
    rcases hfin with e | e
    · rw [e]; exact hf
    · exact .inr (.inr e)

end Mxl.C19
