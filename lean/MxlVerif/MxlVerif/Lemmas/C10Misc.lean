/-
C10 helper lemmas, part 9: index access into `zipWithE` / `mapE` results; `_adjust_data`
with and without concatenation.
-/
import MxlVerif.Lemmas.C10Rhs
namespace Mxl.C10

theorem zipWithE_get {α β γ} {f : α → β → Except Err γ} {l : List α} {m : List β}
    {out : List γ} (h : zipWithE f l m = .ok out) :
    ∀ (i : Nat) (a : α) (b : β), l[i]? = some a → m[i]? = some b →
      ∃ c, out[i]? = some c ∧ f a b = .ok c := by
  induction l generalizing m out with
  | nil => intro i a b ha; simp at ha
  | cons x xs ih =>
    cases m with
    | nil => simp [zipWithE] at h
    | cons y ys =>
      unfold zipWithE at h
      split at h
      · cases h
      · rename_i c hc
        split at h
        · cases h
        · rename_i cs hcs
          cases h
          intro i a b ha hb
          cases i with
          | zero => simp at ha hb; subst ha; subst hb; exact ⟨c, by simp, hc⟩
          | succ i => simp at ha hb; simpa using ih hcs i a b ha hb

theorem mapE_get {α β} {f : α → Except Err β} {l : List α} {out : List β}
    (h : mapE f l = .ok out) (i : Nat) (a : α) (ha : l[i]? = some a) :
    ∃ b, out[i]? = some b ∧ f a = .ok b :=
  ((mapE_ok_iff f l out).1 h).get i a ha

theorem adjust_concat {tabs : List Table} {n : Norm} {v : View} :
    adjust tabs n true = .ok v ↔
      ∃ F, adjust tabs n false = .ok (.frames F) ∧ F ≠ [] ∧ v = .frame F.flatten := by
  unfold adjust
  cases normSplit tabs n with
  | error e => simp
  | ok F =>
    simp only [if_true, Bool.false_eq_true, if_false]
    constructor
    · intro h
      split at h
      · cases h
      · rename_i hne
        cases h
        exact ⟨F, rfl, by simpa using hne, rfl⟩
    · intro ⟨F', hF, hne, hv⟩
      cases hF
      subst hv
      have : F.isEmpty = false := by cases F <;> simp_all
      simp [this]

/-! ### no reader changes the shared model (unconditionally) -/

theorem computeArgs_model {res : Res} {st st1 : St} {T : List Table}
    (h : computeArgs res st = .ok (T, st1)) : st1.model = st.model := by
  unfold computeArgs at h
  split at h
  · cases h; rfl
  · split at h
    · cases h
    · cases h; rfl

theorem getArgsV_model {res : Res} {f : Flags} {n : Norm} {cc : Bool} {st st' : St} {v : View}
    (h : getArgsV res f n cc st = .ok (v, st')) : st'.model = st.model := by
  unfold getArgsV at h
  split at h
  · cases h
  · rename_i T st1 hca
    split at h
    · cases h
    · split at h
      · cases h
      · cases h; exact computeArgs_model hca

theorem getVariablesV_model {res : Res} {dv ro sv : Bool} {n : Norm} {cc : Bool} {st st' : St}
    {v : View} (h : getVariablesV res dv ro sv n cc st = .ok (v, st')) :
    st'.model = st.model := by
  unfold getVariablesV at h
  split at h
  · split at h
    · cases h
    · cases h; rfl
  · exact getArgsV_model h

theorem getRhsV_model {res : Res} {n : Norm} {cc : Bool} {st st' : St} {v : View}
    (h : getRhsV res n cc st = .ok (v, st')) : st'.model = st.model := by
  unfold getRhsV at h
  split at h
  · cases h
  · rename_i T st1 hca
    split at h
    · cases h
    · split at h
      · cases h
      · cases h; exact computeArgs_model hca

theorem getProdConsV_model {res : Res} {prod : Bool} {x : Name} {sc : Bool} {n : Norm}
    {cc : Bool} {st st' : St} {v : View}
    (h : getProdConsV res prod x sc n cc st = .ok (v, st')) : st'.model = st.model := by
  unfold getProdConsV at h
  split at h
  · cases h
  · split at h
    · cases h
    · split at h
      · cases h
      · simp only at h
        split at h
        · cases h
        · split at h
          · cases h
          · split at h
            · cases h
            · split at h
              · split at h
                · cases h
                · cases h; rfl
              · cases h; rfl
        · cases h

theorem read_model {res : Res} {q : Query} {st st' : St} {v : View}
    (h : read res q st = .ok (v, st')) : st'.model = st.model := by
  cases q with
  | args f n cc => exact getArgsV_model h
  | vars dv ro sv n cc => exact getVariablesV_model h
  | fluxes sur n cc => exact getArgsV_model h
  | variablesProp => exact getVariablesV_model h
  | fluxesProp => exact getArgsV_model h
  | combined =>
    simp only [read] at h
    unfold getCombinedV at h
    split at h
    · cases h
    · rename_i a st1 hv
      split at h
      · cases h
      · rename_i b st2 hf
        cases h
        exact (getArgsV_model hf).trans (getVariablesV_model hv)
      · cases h
    · cases h
  | rhs n cc => exact getRhsV_model h
  | prodCons prod x sc n cc => exact getProdConsV_model h
  | newY0 =>
    simp only [read] at h
    unfold getNewY0V at h
    split at h
    · cases h
    · rename_i t st1 hv
      split at h
      · cases h
      · cases h; exact getVariablesV_model hv
    · cases h

end Mxl.C10
