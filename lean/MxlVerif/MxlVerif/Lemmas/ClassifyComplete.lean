/-
Completeness of the one-pass static / dynamic classification (`model.py:512-526`) on a valid
schedule: because a schedule visits every derived quantity after everything it names, a derived
quantity that depends (through any chain) only on parameters is always recognised as a derived
parameter.  Together with soundness (`classify_spec`) the returned parameter-name set is exactly
"parameters + parameter-only derived quantities".
-/
import MxlVerif.Lemmas.Args
namespace Mxl

/-- Names of derived quantities are not names of variables, parameters, reactions or surrogates
    (guaranteed by the shared name space `Model._ids`). -/
def DerivedDistinct (c : Content) : Prop :=
  ∀ k d, c.derived.lookup k = some d → isRS c k = false ∧ isVP c k = false

/-- how one visited name changes `all_parameter_names` -/
def stepApn (c : Content) (k : Name) (apn : List Name) : List Name :=
  if isRS c k || isVP c k then apn
  else match c.derived.lookup k with
    | none => apn
    | some d => if d.args.all (fun a => apn.contains a) then k :: apn else apn

theorem classify_cons (c : Content) (k : Name) (ks st dy apn : List Name) :
    ∃ st' dy', classify c (k :: ks) st dy apn = classify c ks st' dy' (stepApn c k apn) := by
  rw [classify]
  unfold stepApn
  by_cases hrs : isRS c k = true
  · have hrs' : ((omKeys c.rxns).contains k || (omKeys c.surs).contains k) = true := hrs
    simp only [hrs', hrs, if_true, Bool.true_or]
    exact ⟨_, _, rfl⟩
  · have hrs0 : isRS c k = false := by simpa using hrs
    have hrs' : ((omKeys c.rxns).contains k || (omKeys c.surs).contains k) = false := hrs0
    simp only [hrs', hrs0, Bool.false_eq_true, if_false, Bool.false_or]
    by_cases hvp : isVP c k = true
    · have hvp' : ((omKeys c.vars).contains k || (omKeys c.pars).contains k) = true := hvp
      simp only [hvp', hvp, if_true]
      exact ⟨_, _, rfl⟩
    · have hvp0 : isVP c k = false := by simpa using hvp
      have hvp' : ((omKeys c.vars).contains k || (omKeys c.pars).contains k) = false := hvp0
      simp only [hvp', hvp0, Bool.false_eq_true, if_false]
      cases hd : c.derived.lookup k with
      | none => exact ⟨_, _, rfl⟩
      | some d =>
        simp only
        by_cases hall : (d.args.all fun a => apn.contains a) = true
        · simp only [hall, if_true]; exact ⟨_, _, rfl⟩
        · have hall0 : (d.args.all fun a => apn.contains a) = false := by simpa using hall
          simp only [hall0, Bool.false_eq_true, if_false]; exact ⟨_, _, rfl⟩

theorem subset_stepApn (c : Content) (k : Name) (apn : List Name) :
    ∀ a ∈ apn, a ∈ stepApn c k apn := by
  intro a ha
  unfold stepApn
  split
  · exact ha
  · split
    · exact ha
    · split
      · exact List.mem_cons_of_mem _ ha
      · exact ha

/-- a derived quantity is its own (only) provider among the sorted components -/
theorem provider_of_derived {c : Content} (hwf : WFd c) (hdist : DerivedDistinct c)
    {k : Name} {comp : Comp} (hk : c.toSort.lookup k = some comp)
    {a : Name} (ha : a ∈ comp.provided k) {d : Fn} (hd : c.derived.lookup a = some d) :
    k = a := by
  obtain ⟨hrs, hvp⟩ := hdist a d hd
  have hts := hwf.derivedIn a d hd hvp hrs
  have hkK : k ∈ omKeys c.toSort := (List.mem_map.mpr ⟨(k, comp), mem_of_lookup hk, rfl⟩)
  have haK : a ∈ omKeys c.toSort := (List.mem_map.mpr ⟨(a, .fn d), mem_of_lookup hts, rfl⟩)
  exact nodup_flatMap_inj (omKeys c.toSort) hwf.provNodup k hkK a haK a
    (by simp only [providedOf, hk]; exact ha)
    (by simp [providedOf, hts, Comp.provided])

theorem classify_complete_aux {c : Content} (hwf : WFd c) (hdist : DerivedDistinct c) :
    ∀ (av ks : List Name), SchedT c.toSort av ks → ∀ (st dy apn : List Name),
      (∀ a ∈ omKeys c.pars, a ∈ apn) →
      (∀ a ∈ av, OnlyParams c a → a ∈ apn) →
      (∀ a ∈ omKeys c.pars, a ∈ (classify c ks st dy apn).2.2) ∧
      ∀ a, (a ∈ ks.flatMap (providedOf c.toSort) ∨ a ∈ av) → OnlyParams c a →
        a ∈ (classify c ks st dy apn).2.2 := by
  intro av ks hs
  induction hs with
  | nil av =>
    intro st dy apn hpars hinv
    simp only [classify]
    refine ⟨hpars, ?_⟩
    intro a ha hop
    rcases ha with h | h
    · cases h
    · exact hinv a h hop
  | cons av k comp rest hk hargs _ ih =>
    intro st dy apn hpars hinv
    obtain ⟨st', dy', heq⟩ := classify_cons c k rest st dy apn
    rw [heq]
    have hprov : providedOf c.toSort k = comp.provided k := by simp [providedOf, hk]
    have hinv' : ∀ a ∈ comp.provided k ++ av, OnlyParams c a → a ∈ stepApn c k apn := by
      intro a ha hop
      rcases List.mem_append.mp ha with h | h
      · cases hop with
        | mk _ d hd hdargs =>
          have hka : k = a := provider_of_derived hwf hdist hk h hd
          subst hka
          obtain ⟨hrs, hvp⟩ := hdist k d hd
          have hts := hwf.derivedIn k d hd hvp hrs
          rw [hk] at hts
          cases hts
          have hall : (d.args.all fun a => apn.contains a) = true := by
            rw [List.all_eq_true]
            intro x hx
            have : x ∈ apn := by
              by_cases hxp : x ∈ omKeys c.pars
              · exact hpars x hxp
              · exact hinv x (hargs x hx) (hdargs x hx hxp)
            simpa using this
          simp only [stepApn, hrs, hvp, hd, hall, Bool.or_self, Bool.false_eq_true, if_false,
            if_true]
          exact List.mem_cons_self
      · exact subset_stepApn c k apn a (hinv a h hop)
    obtain ⟨h1, h2⟩ := ih st' dy' (stepApn c k apn)
      (fun a ha => subset_stepApn c k apn a (hpars a ha)) hinv'
    refine ⟨h1, ?_⟩
    intro a ha hop
    apply h2 a _ hop
    simp only [List.flatMap_cons, hprov, List.mem_append] at ha
    rcases ha with (h | h) | h
    · exact Or.inr (List.mem_append_left _ h)
    · exact Or.inl h
    · exact Or.inr (List.mem_append_right _ h)

/-- nothing initially available is a derived quantity -/
theorem available_not_derived {c : Content} (hwf : WFd c) (hdist : DerivedDistinct c)
    {a : Name} (ha : a ∈ c.available) : ¬ OnlyParams c a := by
  intro hop
  cases hop with
  | mk _ d hd _ =>
    obtain ⟨hrs, hvp⟩ := hdist a d hd
    have hts := hwf.derivedIn a d hd hvp hrs
    have haK : a ∈ omKeys c.toSort := (List.mem_map.mpr ⟨(a, .fn d), mem_of_lookup hts, rfl⟩)
    exact hwf.provFresh a (List.mem_flatMap.mpr ⟨a, haK, by simp [providedOf, hts, Comp.provided]⟩) ha

/-- **classification is complete on a schedule.**  Every scheduled derived quantity that depends,
    through any chain, only on parameters is in the returned parameter-name set and on the
    static list. -/
theorem classify_complete {c : Content} (hwf : WFd c) (hdist : DerivedDistinct c)
    {order : List Name} (hs : SchedT c.toSort c.available order)
    {k : Name} (hk : k ∈ order) (hop : OnlyParams c k) :
    k ∈ (classify c order [] [] (omKeys c.pars)).2.2 ∧
    k ∈ (classify c order [] [] (omKeys c.pars)).1 := by
  obtain ⟨_, h2⟩ := classify_complete_aux hwf hdist _ _ hs [] [] (omKeys c.pars)
    (fun a ha => ha) (fun a ha hop => absurd hop (available_not_derived hwf hdist ha))
  have hkd : ∃ d, c.derived.lookup k = some d := by
    cases hop with
    | mk _ d hd _ => exact ⟨d, hd⟩
  obtain ⟨d, hd⟩ := hkd
  obtain ⟨hrs, hvp⟩ := hdist k d hd
  have hts := hwf.derivedIn k d hd hvp hrs
  have hmem : k ∈ (classify c order [] [] (omKeys c.pars)).2.2 := by
    apply h2 k _ hop
    exact Or.inl (List.mem_flatMap.mpr ⟨k, hk, by simp [providedOf, hts, Comp.provided]⟩)
  refine ⟨hmem, ?_⟩
  obtain ⟨S, D, A, heq, _, _, _, _, _, hnew, _, _⟩ :=
    classify_spec c order [] [] (omKeys c.pars) (fun a ha => Or.inl ha)
  rw [heq] at hmem ⊢
  simp only [List.reverse_nil, List.nil_append]
  rcases List.mem_append.mp hmem with h | h
  · exact (hnew k h).1
  · exfalso
    have : isVP c k = true := by
      simp only [isVP, Bool.or_eq_true, List.contains_iff_mem]
      exact Or.inr h
    rw [hvp] at this; cases this

/-- **the classification is exact.**  On a schedule, a name is in the returned
    `all_parameter_names` set iff it is a parameter or a scheduled parameter-only derived
    quantity. -/
theorem classify_exact {c : Content} (hwf : WFd c) (hdist : DerivedDistinct c)
    {order : List Name} (hs : SchedT c.toSort c.available order)
    {k : Name} (hk : k ∈ order) :
    k ∈ (classify c order [] [] (omKeys c.pars)).2.2 ↔ k ∈ omKeys c.pars ∨ OnlyParams c k := by
  constructor
  · intro h
    obtain ⟨S, D, A, heq, _, _, _, _, _, _, hg, _⟩ :=
      classify_spec c order [] [] (omKeys c.pars) (fun a ha => Or.inl ha)
    rw [heq] at h
    exact hg k h
  · rintro (h | h)
    · exact (classify_complete_aux hwf hdist _ _ hs [] [] (omKeys c.pars)
        (fun a ha => ha)
        (fun a ha hop => absurd hop (available_not_derived hwf hdist ha))).1 k h
    · exact (classify_complete hwf hdist hs hk h).1

/-- the same for the cache `_create_cache` builds: its classification of `cache.order` is exact -/
theorem createCache_classify_exact {c : Content} (hwf : WFd c) (hdist : DerivedDistinct c)
    {cache : Cache} (h : createCache c = .ok cache) {k : Name} (hk : k ∈ cache.order) :
    k ∈ (classify c cache.order [] [] (omKeys c.pars)).2.2 ↔
      k ∈ omKeys c.pars ∨ OnlyParams c k := by
  obtain ⟨_, _, _, _, _, _, _, hs⟩ := createCache_consistent hwf.toWFc h
  exact classify_exact hwf hdist hs hk

end Mxl
