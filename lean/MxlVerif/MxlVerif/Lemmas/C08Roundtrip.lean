/-
helper lemmas for the model-level round-trip theorem of Props/C08.lean:
  part 0  association lists        part 1  `evalMath` is monotone in the environment
  part 2  `docInit` / `docValue` are monotone in the fuel
  part 3  what `exportModel` writes (fold invariants)      part 4  values and derivatives
-/
import MxlVerif.Lemmas.C08Sound
namespace Mxl.C08
open Gen

/-! ### part 0: association lists -/

theorem lookup_none_of_not_mem {β : Type} {l : List (String × β)} {k : String} (h : k ∉ l.map (·.1)) :
    l.lookup k = none := by
  induction l with
  | nil => rfl
  | cons a l ih =>
    obtain ⟨a1, a2⟩ := a
    simp only [List.map_cons, List.mem_cons, not_or] at h
    have : (k == a1) = false := by simpa using h.1
    simp [List.lookup, this, ih h.2]

theorem lookup_of_mem_nodup {β : Type} {l : List (String × β)} {k : String} {v : β}
    (hm : (k, v) ∈ l) (hn : (l.map (·.1)).Nodup) : l.lookup k = some v := by
  induction l with
  | nil => cases hm
  | cons a l ih =>
    obtain ⟨a1, a2⟩ := a
    simp only [List.map_cons, List.nodup_cons] at hn
    rcases List.mem_cons.mp hm with h | h
    · simp only [Prod.mk.injEq] at h
      obtain ⟨rfl, rfl⟩ := h
      simp [List.lookup]
    · have hk : k ∈ l.map (·.1) := List.mem_map.mpr ⟨(k, v), h, rfl⟩
      have hne : k ≠ a1 := fun e => hn.1 (e ▸ hk)
      have : (k == a1) = false := by simpa using hne
      simp [List.lookup, this, ih h hn.2]

theorem mem_of_lookup_some {β : Type} {l : List (String × β)} {k : String} {v : β} (h : l.lookup k = some v) :
    (k, v) ∈ l := by
  induction l with
  | nil => simp at h
  | cons a l ih =>
    obtain ⟨a1, a2⟩ := a
    simp only [List.lookup] at h
    by_cases hk : (k == a1) = true
    · simp only [hk, Option.some.injEq] at h
      have : k = a1 := by simpa using hk
      subst this; subst h
      exact List.mem_cons_self
    · have hk' : (k == a1) = false := by simpa using hk
      simp only [hk'] at h
      exact List.mem_cons_of_mem _ (ih h)

theorem lookupLast_none_of_not_mem {β : Type} {l : List (String × β)} {k : String} (h : k ∉ l.map (·.1)) :
    lookupLast l k = none := by
  unfold lookupLast
  apply lookup_none_of_not_mem
  simpa [List.map_reverse] using h

theorem lookupLast_of_mem_nodup {β : Type} {l : List (String × β)} {k : String} {v : β}
    (hm : (k, v) ∈ l) (hn : (l.map (·.1)).Nodup) : lookupLast l k = some v := by
  unfold lookupLast
  apply lookup_of_mem_nodup (by simpa using hm)
  rw [List.map_reverse]
  unfold List.Nodup at *
  rw [List.pairwise_reverse]
  exact hn.imp (fun h => h.symm)

theorem mem_keys_of_lookupLast_some {β : Type} {l : List (String × β)} {k : String} {v : β}
    (h : lookupLast l k = some v) : (k, v) ∈ l := by
  unfold lookupLast at h
  simpa using mem_of_lookup_some h

/-! ### part 1: more environment, same value -/

def EnvLe (e1 e2 : VEnv) : Prop := ∀ n v, e1 n = some v → e2 n = some v

theorem EnvLe.refl (e : VEnv) : EnvLe e e := fun _ _ h => h

theorem EnvLe.trans {e1 e2 e3 : VEnv} (h1 : EnvLe e1 e2) (h2 : EnvLe e2 e3) : EnvLe e1 e3 :=
  fun n v h => h2 n v (h1 n v h)

section mono
variable (I : Interp) {e1 e2 : VEnv}

theorem evalMathList_mono :
    ∀ cs, (∀ m ∈ cs, ∀ v, evalMath I e1 m = some v → evalMath I e2 m = some v) →
      ∀ vs, evalMathList I e1 cs = some vs → evalMathList I e2 cs = some vs
  | [], _, vs, h => by simpa [evalMathList] using h
  | m :: ms, hh, vs, h => by
    simp only [evalMathList] at h
    obtain ⟨v, hv, h⟩ := option_bind_some h
    obtain ⟨ws, hws, h⟩ := option_bind_some h
    simp only [evalMathList, hh m List.mem_cons_self v hv,
      evalMathList_mono ms (fun x hx => hh x (List.mem_cons_of_mem _ hx)) ws hws]
    exact h

theorem evalPieces_mono :
    ∀ cs, (∀ m ∈ cs, ∀ v, evalMath I e1 m = some v → evalMath I e2 m = some v) →
      ∀ v, evalPieces I e1 cs = some v → evalPieces I e2 cs = some v
  | [], _, v, h => by simp [evalPieces] at h
  | [o], hh, v, h => by
    simp only [evalPieces] at h ⊢
    exact hh o List.mem_cons_self v h
  | x :: c :: rest, hh, v, h => by
    simp only [evalPieces] at h
    obtain ⟨b, hb, h⟩ := option_bind_some h
    have hc := hh c (List.mem_cons_of_mem _ List.mem_cons_self) b hb
    simp only [evalPieces, hc]
    show (if b.truthy = true then _ else _) = some v
    by_cases ht : b.truthy = true
    · rw [if_pos ht] at h ⊢
      exact hh x List.mem_cons_self v h
    · rw [if_neg ht] at h ⊢
      exact evalPieces_mono rest (fun y hy => hh y (List.mem_cons_of_mem _ (List.mem_cons_of_mem _ hy))) v h

theorem evalAnd_mono :
    ∀ cs, (∀ m ∈ cs, ∀ v, evalMath I e1 m = some v → evalMath I e2 m = some v) →
      ∀ v, evalAnd I e1 cs = some v → evalAnd I e2 cs = some v
  | [], _, v, h => by simpa [evalAnd] using h
  | c :: rest, hh, v, h => by
    simp only [evalAnd] at h
    obtain ⟨b, hb, h⟩ := option_bind_some h
    simp only [evalAnd, hh c List.mem_cons_self b hb]
    show (if b.truthy = true then _ else _) = some v
    by_cases ht : b.truthy = true
    · rw [if_pos ht] at h ⊢
      exact evalAnd_mono rest (fun y hy => hh y (List.mem_cons_of_mem _ hy)) v h
    · rw [if_neg ht] at h ⊢
      exact h

theorem evalOr_mono :
    ∀ cs, (∀ m ∈ cs, ∀ v, evalMath I e1 m = some v → evalMath I e2 m = some v) →
      ∀ v, evalOr I e1 cs = some v → evalOr I e2 cs = some v
  | [], _, v, h => by simpa [evalOr] using h
  | c :: rest, hh, v, h => by
    simp only [evalOr] at h
    obtain ⟨b, hb, h⟩ := option_bind_some h
    simp only [evalOr, hh c List.mem_cons_self b hb]
    show (if b.truthy = true then _ else _) = some v
    by_cases ht : b.truthy = true
    · rw [if_pos ht] at h ⊢
      exact h
    · rw [if_neg ht] at h ⊢
      exact evalOr_mono rest (fun y hy => hh y (List.mem_cons_of_mem _ hy)) v h

/-- a value computed in an environment is computed in every environment that extends it -/
theorem evalMath_mono (h : EnvLe e1 e2) :
    ∀ m v, evalMath I e1 m = some v → evalMath I e2 m = some v := by
  refine (mapMath.mutual_induct
    (motive_1 := fun m => ∀ v, evalMath I e1 m = some v → evalMath I e2 m = some v)
    (motive_2 := fun cs => ∀ m ∈ cs, ∀ v, evalMath I e1 m = some v → evalMath I e2 m = some v)
    ?ci ?app ?other ?nil ?cons).1
  case ci => intro n v hv; simp only [evalMath] at hv ⊢; exact h n v hv
  case app =>
    intro t cs ih v hv
    by_cases hl : isLazy t = true
    · cases t <;> simp [isLazy] at hl
      · simp only [evalMath] at hv ⊢; exact evalPieces_mono I cs ih v hv
      · simp only [evalMath] at hv ⊢; exact evalAnd_mono I cs ih v hv
      · simp only [evalMath] at hv ⊢; exact evalOr_mono I cs ih v hv
    · have hl' : isLazy t = false := by simpa using hl
      rw [evalMath_strict I e1 t cs hl'] at hv
      rw [evalMath_strict I e2 t cs hl']
      obtain ⟨vs, hvs, hv⟩ := option_bind_some hv
      simp only [evalMathList_mono I cs ih vs hvs]
      exact hv
  case other =>
    intro m h1 h2 v hv
    cases m with
    | ci n => exact absurd rfl (h1 n)
    | apply t cs => exact absurd rfl (h2 t cs)
    | cn q => simpa [evalMath] using hv
    | cnInf => simp [evalMath] at hv
    | cnNan => simp [evalMath] at hv
    | csym s => cases s <;> simpa [evalMath] using hv
  case nil => intro m hm; cases hm
  case cons =>
    intro m ms ihm ihms x hx
    rcases List.mem_cons.mp hx with rfl | hx'
    · exact ihm
    · exact ihms x hx'

end mono

/-! ### part 2: more fuel, same value -/

theorem docInit_step (I : Interp) (d : SDoc) :
    ∀ fuel, EnvLe (docInit I d fuel) (docInit I d (fuel + 1)) := by
  intro fuel
  induction fuel with
  | zero => intro n v h; simp [docInit] at h
  | succ fuel ih =>
    intro n v h
    simp only [docInit] at h ⊢
    cases h1 : lookupLast d.inits n with
    | some m => simp only [h1] at h ⊢; exact evalMath_mono I ih m v h
    | none =>
      simp only [h1] at h ⊢
      cases h2 : d.species.lookup n with
      | some w => simpa only [h2] using h
      | none =>
        simp only [h2] at h ⊢
        cases h3 : d.params.lookup n with
        | some w => simpa only [h3] using h
        | none =>
          simp only [h3] at h ⊢
          cases h4 : lookupLast d.rules n with
          | some m => simp only [h4] at h ⊢; exact evalMath_mono I ih m v h
          | none =>
            simp only [h4] at h ⊢
            cases h5 : findSRxn d.rxns n with
            | some r => simp only [h5] at h ⊢; exact evalMath_mono I ih r.law v h
            | none => simp [h5] at h

theorem docInit_mono (I : Interp) (d : SDoc) {f1 f2 : Nat} (h : f1 ≤ f2) :
    EnvLe (docInit I d f1) (docInit I d f2) := by
  induction h with
  | refl => exact EnvLe.refl _
  | step _ ih => exact ih.trans (docInit_step I d _)

theorem docValue_step (I : Interp) (d : SDoc) (st : List (String × Rat)) :
    ∀ fuel, EnvLe (docValue I d st fuel) (docValue I d st (fuel + 1)) := by
  intro fuel
  induction fuel with
  | zero => intro n v h; simp [docValue] at h
  | succ fuel ih =>
    intro n v h
    simp only [docValue] at h ⊢
    cases h1 : st.lookup n with
    | some q => simpa only [h1] using h
    | none =>
      simp only [h1] at h ⊢
      cases h2 : d.params.lookup n with
      | some w => simpa only [h2] using h
      | none =>
        simp only [h2] at h ⊢
        cases h4 : lookupLast d.rules n with
        | some m => simp only [h4] at h ⊢; exact evalMath_mono I ih m v h
        | none =>
          simp only [h4] at h ⊢
          cases h5 : findSRxn d.rxns n with
          | some r => simp only [h5] at h ⊢; exact evalMath_mono I ih r.law v h
          | none => simp [h5] at h

theorem docValue_mono (I : Interp) (d : SDoc) (st : List (String × Rat)) {f1 f2 : Nat} (h : f1 ≤ f2) :
    EnvLe (docValue I d st f1) (docValue I d st f2) := by
  induction h with
  | refl => exact EnvLe.refl _
  | step _ ih => exact ih.trans (docValue_step I d st _)

/-! ### part 3a: vocabulary -/

/-- the exported math of a function (junk value when the exporter refuses it) -/
def mathOf (f : PyFn) : MathML :=
  match sbmlifyFn f with
  | .ok m => m
  | .error _ => .apply .unknown []

theorem mathOf_ok {f : PyFn} {m : MathML} (h : sbmlifyFn f = .ok m) : mathOf f = m := by simp [mathOf, h]

def refsOf (r : SRxn) : List SRef := r.reactants ++ r.products

/-- value of a species reference when every reference id has its rule (what the exporter guarantees):
    no look at the document -/
def refCoefR (env : VEnv) (s : SRef) : Option Rat :=
  match s.id with
  | some i => (env i).map Val.toNum
  | none => s.stoich

def sideSumR (env : VEnv) (x : String) (refs : List SRef) : Option Rat :=
  sumOpt ((refs.filter (·.species == x)).map (refCoefR env))

def netCoefR (env : VEnv) (r : SRxn) (x : String) : Option Rat := do
  let p ← sideSumR env x r.products
  let q ← sideSumR env x r.reactants
  some (p - q)

theorem refCoef_eq_R (env : VEnv) (d : SDoc) (s : SRef)
    (h : ∀ i, s.id = some i → (lookupLast d.rules i).isSome = true) : refCoef env d s = refCoefR env s := by
  unfold refCoef refCoefR
  cases hi : s.id with
  | none => rfl
  | some i =>
    have := h i hi
    cases hl : lookupLast d.rules i with
    | none => simp [hl] at this
    | some m => simp [hl]

theorem netCoef_eq_R (env : VEnv) (d : SDoc) (r : SRxn) (x : String)
    (h : ∀ s ∈ refsOf r, ∀ i, s.id = some i → (lookupLast d.rules i).isSome = true) :
    netCoef env d r x = netCoefR env r x := by
  have side : ∀ l : List SRef, (∀ s ∈ l, s ∈ refsOf r) → sideSum env d x l = sideSumR env x l := by
    intro l hl
    unfold sideSum sideSumR
    congr 1
    apply List.map_congr_left
    intro s hs
    exact refCoef_eq_R env d s (h s (hl s (List.mem_filter.mp hs).1))
  unfold netCoef netCoefR
  rw [side r.products (fun s hs => List.mem_append_right _ hs),
    side r.reactants (fun s hs => List.mem_append_left _ hs)]

/-- element-wise relation of two lists -/
inductive Forall2 {α β : Type} (R : α → β → Prop) : List α → List β → Prop
  | nil : Forall2 R [] []
  | cons {a b l l'} : R a b → Forall2 R l l' → Forall2 R (a :: l) (b :: l')

/-- how a reaction of the model and a reaction of the document correspond -/
structure RxnRel (m : PyModel) (d : SDoc) (rx : PyRxn) (r : SRxn) : Prop where
  id : r.id = rx.name
  law : sbmlifyFn rx.fn = .ok r.law
  ids : ∀ s ∈ refsOf r, ∀ i, s.id = some i → (lookupLast d.rules i).isSome = true
  absent : ∀ env x, rx.stoich.lookup x = none → netCoefR env r x = some 0
  num : ∀ env x q, rx.stoich.lookup x = some (.num q) → netCoefR env r x = some q
  computed : ∀ env x f, rx.stoich.lookup x = some (.computed f) →
    sbmlifyFn f = .ok (mathOf f) ∧ ∃ rid, lookupLast d.rules rid = some (mathOf f) ∧ rid ∉ m.names ∧
      netCoefR env r x = (env rid).map Val.toNum

/-- what the document written for a model looks like, in terms of look-ups -/
structure Exported (m : PyModel) (d : SDoc) : Prop where
  par_val : ∀ n q, m.params.lookup n = some (.val q) →
    d.params.lookup n = some (some q) ∧ lookupLast d.inits n = none
  par_ia : ∀ n f, m.params.lookup n = some (.ia f) →
    d.params.lookup n = some none ∧ lookupLast d.inits n = some (mathOf f) ∧ sbmlifyFn f = .ok (mathOf f)
  par_none : ∀ n, m.params.lookup n = none → d.params.lookup n = none
  var_val : ∀ n q, m.vars.lookup n = some (.val q) →
    d.species.lookup n = some (some q) ∧ lookupLast d.inits n = none
  var_ia : ∀ n f, m.vars.lookup n = some (.ia f) →
    lookupLast d.inits n = some (mathOf f) ∧ sbmlifyFn f = .ok (mathOf f)
  var_none : ∀ n, m.vars.lookup n = none → d.species.lookup n = none
  init_none : ∀ n, m.vars.lookup n = none → m.params.lookup n = none → lookupLast d.inits n = none
  der : ∀ n f, m.derived.lookup n = some f →
    lookupLast d.rules n = some (mathOf f) ∧ sbmlifyFn f = .ok (mathOf f)
  der_none : ∀ n, n ∈ m.names → m.derived.lookup n = none → lookupLast d.rules n = none
  rxns : Forall2 (RxnRel m d) m.rxns d.rxns
  fuel : m.fuel + 1 ≤ d.fuel

/-- no parameter of any function of the model is used as a function or module name in its body -/
structure FnsFree (m : PyModel) : Prop where
  par : ∀ n f, m.params.lookup n = some (.ia f) → calleeFreeBody f.params f.body = true
  var : ∀ n f, m.vars.lookup n = some (.ia f) → calleeFreeBody f.params f.body = true
  der : ∀ n f, m.derived.lookup n = some f → calleeFreeBody f.params f.body = true
  rxn : ∀ r ∈ m.rxns, calleeFreeBody r.fn.params r.fn.body = true ∧
    ∀ x f, r.stoich.lookup x = some (.computed f) → calleeFreeBody f.params f.body = true

/-! ### part 3b: what the exporter writes -/

def initVal : PyInit → Option Rat
  | .val q => some q
  | .ia _ => none

def initEntry (kv : String × PyInit) : String × Option Rat := (kv.1, initVal kv.2)

def iaFns : List (String × PyInit) → List (String × PyFn)
  | [] => []
  | (n, .ia f) :: l => (n, f) :: iaFns l
  | (_, .val _) :: l => iaFns l

def ruleEntry (kv : String × PyFn) : String × MathML := (kv.1, mathOf kv.2)

theorem lookup_initEntry (l : List (String × PyInit)) (n : String) :
    (l.map initEntry).lookup n = (l.lookup n).map initVal := by
  induction l with
  | nil => rfl
  | cons a l ih =>
    obtain ⟨a1, a2⟩ := a
    simp only [List.map_cons, initEntry, List.lookup]
    by_cases hk : (n == a1) = true
    · simp [hk]
    · have hk' : (n == a1) = false := by simpa using hk
      simp only [hk']
      exact ih

theorem mem_iaFns {l : List (String × PyInit)} {n : String} {f : PyFn} :
    (n, f) ∈ iaFns l ↔ (n, PyInit.ia f) ∈ l := by
  induction l with
  | nil => simp [iaFns]
  | cons a l ih =>
    obtain ⟨a1, a2⟩ := a
    cases a2 with
    | val q => simp [iaFns, ih]
    | ia g => simp [iaFns, ih]

theorem iaFns_keys_sublist (l : List (String × PyInit)) : ((iaFns l).map (·.1)).Sublist (l.map (·.1)) := by
  induction l with
  | nil => simp [iaFns]
  | cons a l ih =>
    obtain ⟨a1, a2⟩ := a
    cases a2 with
    | val q => simp only [iaFns, List.map_cons]; exact List.Sublist.cons _ ih
    | ia g => simp only [iaFns, List.map_cons]; exact List.Sublist.cons_cons _ ih

theorem mem_keys_of_lookup_some {β : Type} {l : List (String × β)} {k : String} {v : β} (h : l.lookup k = some v) :
    k ∈ l.map (·.1) := List.mem_map.mpr ⟨(k, v), mem_of_lookup_some h, rfl⟩

theorem not_mem_keys_of_lookup_none {β : Type} {l : List (String × β)} {k : String} (h : l.lookup k = none) :
    k ∉ l.map (·.1) := by
  induction l with
  | nil => simp
  | cons a l ih =>
    obtain ⟨a1, a2⟩ := a
    simp only [List.lookup] at h
    by_cases hk : (k == a1) = true
    · simp [hk] at h
    · have hk' : (k == a1) = false := by simpa using hk
      simp only [hk'] at h
      simp only [List.map_cons, List.mem_cons, not_or]
      exact ⟨by simpa using hk', ih h⟩

theorem iaSetterExists_true : iaSetterExists = true := by decide

theorem exportInit_plain {pre : String} {d d' : SDoc} {name : String} {f : PyFn} (hn : isPlainName name = true)
    (h : exportInit pre d name f = .ok d') :
    sbmlifyFn f = .ok (mathOf f) ∧ d' = { d with inits := d.inits ++ [(name, mathOf f)] } := by
  simp only [exportInit, escapeId_plain _ hn, iaSetterExists_true, bind, Except.bind, pure, Except.pure] at h
  cases hm : sbmlifyFn f with
  | error e => simp [hm] at h
  | ok mth =>
    simp only [hm] at h
    simp at h
    subst h
    exact ⟨by rw [mathOf_ok hm], by rw [mathOf_ok hm]⟩

theorem exportRule_plain {d d' : SDoc} {name : String} {f : PyFn} (hn : isPlainName name = true)
    (h : exportRule d name f = .ok d') :
    sbmlifyFn f = .ok (mathOf f) ∧ d' = { d with rules := d.rules ++ [(name, mathOf f)] } := by
  simp only [exportRule, escapeId_plain _ hn, bind, Except.bind, pure, Except.pure] at h
  cases hm : sbmlifyFn f with
  | error e => simp [hm] at h
  | ok mth =>
    simp only [hm, Except.ok.injEq] at h
    subst h
    exact ⟨by rw [mathOf_ok hm], by rw [mathOf_ok hm]⟩

theorem foldParams : ∀ (l : List (String × PyInit)) (d0 d : SDoc), (∀ kv ∈ l, isPlainName kv.1 = true) →
    foldE exportParam d0 l = .ok d →
    d = { d0 with params := d0.params ++ l.map initEntry, inits := d0.inits ++ (iaFns l).map ruleEntry } ∧
      ∀ kv ∈ iaFns l, sbmlifyFn kv.2 = .ok (mathOf kv.2) := by
  intro l
  induction l with
  | nil =>
    intro d0 d _ h
    simp only [foldE, Except.ok.injEq] at h
    subst h
    exact ⟨by simp [iaFns], by simp [iaFns]⟩
  | cons a l ih =>
    intro d0 d hp h
    obtain ⟨n, i⟩ := a
    simp only [foldE] at h
    obtain ⟨d1, h1, h2⟩ := except_bind_ok h
    have hn : isPlainName n = true := hp (n, i) List.mem_cons_self
    obtain ⟨e2, ok2⟩ := ih d1 d (fun kv hk => hp kv (List.mem_cons_of_mem _ hk)) h2
    cases i with
    | val q =>
      simp only [exportParam, escapeId_plain _ hn, bind, Except.bind, pure, Except.pure, Except.ok.injEq] at h1
      subst h1
      refine ⟨?_, by simpa [iaFns] using ok2⟩
      rw [e2]
      simp [iaFns, initEntry, initVal]
    | ia f =>
      simp only [exportParam, escapeId_plain _ hn, bind, Except.bind] at h1
      obtain ⟨hok, e1⟩ := exportInit_plain hn h1
      subst e1
      refine ⟨?_, ?_⟩
      · rw [e2]
        simp [iaFns, initEntry, initVal, ruleEntry]
      · intro kv hk
        simp only [iaFns, List.mem_cons] at hk
        rcases hk with rfl | hk
        · exact hok
        · exact ok2 kv hk

theorem foldVars : ∀ (l : List (String × PyInit)) (d0 d : SDoc), (∀ kv ∈ l, isPlainName kv.1 = true) →
    foldE exportVar d0 l = .ok d →
    d = { d0 with species := d0.species ++ l.map initEntry, inits := d0.inits ++ (iaFns l).map ruleEntry } ∧
      ∀ kv ∈ iaFns l, sbmlifyFn kv.2 = .ok (mathOf kv.2) := by
  intro l
  induction l with
  | nil =>
    intro d0 d _ h
    simp only [foldE, Except.ok.injEq] at h
    subst h
    exact ⟨by simp [iaFns], by simp [iaFns]⟩
  | cons a l ih =>
    intro d0 d hp h
    obtain ⟨n, i⟩ := a
    simp only [foldE] at h
    obtain ⟨d1, h1, h2⟩ := except_bind_ok h
    have hn : isPlainName n = true := hp (n, i) List.mem_cons_self
    obtain ⟨e2, ok2⟩ := ih d1 d (fun kv hk => hp kv (List.mem_cons_of_mem _ hk)) h2
    cases i with
    | val q =>
      simp only [exportVar, escapeId_plain _ hn, bind, Except.bind, pure, Except.pure, Except.ok.injEq] at h1
      subst h1
      refine ⟨?_, by simpa [iaFns] using ok2⟩
      rw [e2]
      simp [iaFns, initEntry, initVal]
    | ia f =>
      simp only [exportVar, escapeId_plain _ hn, bind, Except.bind] at h1
      obtain ⟨hok, e1⟩ := exportInit_plain hn h1
      subst e1
      refine ⟨?_, ?_⟩
      · rw [e2]
        simp [iaFns, initEntry, initVal, ruleEntry]
      · intro kv hk
        simp only [iaFns, List.mem_cons] at hk
        rcases hk with rfl | hk
        · exact hok
        · exact ok2 kv hk

theorem foldDerived : ∀ (l : List (String × PyFn)) (d0 d : SDoc), (∀ kv ∈ l, isPlainName kv.1 = true) →
    foldE (fun d kv => exportRule d kv.1 kv.2) d0 l = .ok d →
    d = { d0 with rules := d0.rules ++ l.map ruleEntry } ∧ ∀ kv ∈ l, sbmlifyFn kv.2 = .ok (mathOf kv.2) := by
  intro l
  induction l with
  | nil =>
    intro d0 d _ h
    simp only [foldE, Except.ok.injEq] at h
    subst h
    exact ⟨by simp, by simp⟩
  | cons a l ih =>
    intro d0 d hp h
    simp only [foldE] at h
    obtain ⟨d1, h1, h2⟩ := except_bind_ok h
    have hn : isPlainName a.1 = true := hp a List.mem_cons_self
    obtain ⟨e2, ok2⟩ := ih d1 d (fun kv hk => hp kv (List.mem_cons_of_mem _ hk)) h2
    obtain ⟨hok, e1⟩ := exportRule_plain hn h1
    subst e1
    refine ⟨?_, ?_⟩
    · rw [e2]
      simp [ruleEntry]
    · intro kv hk
      rcases List.mem_cons.mp hk with rfl | hk
      · exact hok
      · exact ok2 kv hk

/-! ### part 3c: species references -/

theorem isPlainName_append_us {x : String} (h : isPlainName x = true) : isPlainName (x ++ "_") = true := by
  unfold isPlainName at h ⊢
  rw [String.toList_append]
  cases hs : x.toList with
  | nil => simp [hs] at h
  | cons c cs =>
    simp only [hs, Bool.and_eq_true] at h
    simp only [List.cons_append, Bool.and_eq_true, List.all_append]
    exact ⟨h.1, h.2, by decide⟩

theorem freshName_spec (taken : List String) :
    ∀ (fuel : Nat) (name r : String), isPlainName name = true → freshName taken name fuel = some r →
      taken.contains r = false ∧ isPlainName r = true := by
  intro fuel
  induction fuel with
  | zero => intro name r _ h; simp [freshName] at h
  | succ fuel ih =>
    intro name r hp h
    simp only [freshName] at h
    by_cases ht : taken.contains name = true
    · rw [if_pos ht] at h
      exact ih (name ++ "_") r (isPlainName_append_us hp) h
    · rw [if_neg ht] at h
      simp only [Option.some.injEq] at h
      subst h
      exact ⟨by simpa using ht, hp⟩

theorem refName_spec {taken taken' : List String} {x n : String} (hx : isPlainName x = true)
    (h : refName taken x = .ok (n, taken')) :
    taken.contains n = false ∧ isPlainName n = true ∧ taken' = n :: taken := by
  have hf : refFresh = true := rfl
  have hs : refSuffix = "ref" := rfl
  simp only [refName, hf, if_true, hs] at h
  cases hn : freshName taken (x ++ "ref") (taken.length + 1) with
  | none => simp [hn] at h
  | some r =>
    simp only [hn, Except.ok.injEq, Prod.mk.injEq] at h
    obtain ⟨rfl, rfl⟩ := h
    obtain ⟨h1, h2⟩ := freshName_spec taken _ _ _ (isPlainName_append_ref hx) hn
    exact ⟨h1, h2, rfl⟩

/-- what one entry of a stoichiometry does (plain names: ids are the names) -/
theorem exportCoef_plain {taken taken' : List String} {d d' : SDoc} {r r' : SRxn} {x : String} {c : PyCoef}
    (hx : isPlainName x = true) (h : exportCoef (taken, d, r) (x, c) = .ok (taken', d', r')) :
    (∃ q, c = .num q ∧ taken' = taken ∧ d' = d ∧
        r' = addRef (if q < 0 then negSide else nonnegSide) r ⟨x, some (absRat q), none⟩) ∨
    (∃ f rid, c = .computed f ∧ sbmlifyFn f = .ok (mathOf f) ∧ taken.contains rid = false ∧
        isPlainName rid = true ∧ taken' = rid :: taken ∧
        d' = { d with rules := d.rules ++ [(rid, mathOf f)] } ∧
        r' = addRef computedSide r ⟨x, none, some rid⟩) := by
  cases c with
  | num q =>
    left
    simp only [exportCoef, escapeId_plain _ hx, bind, Except.bind, pure, Except.pure, Except.ok.injEq,
      Prod.mk.injEq] at h
    exact ⟨q, rfl, h.1.symm, h.2.1.symm, h.2.2.symm⟩
  | computed f =>
    right
    simp only [exportCoef, bind, Except.bind] at h
    cases hr : refName taken x with
    | error e => simp [hr] at h
    | ok p =>
      obtain ⟨rid, t1⟩ := p
      obtain ⟨h1, h2, h3⟩ := refName_spec hx hr
      simp only [hr] at h
      cases hd : exportRule d rid f with
      | error e => simp [hd] at h
      | ok d1 =>
        obtain ⟨hok, e1⟩ := exportRule_plain h2 hd
        simp only [hd, escapeId_plain _ h2, escapeId_plain _ hx, pure, Except.pure, Except.ok.injEq,
          Prod.mk.injEq] at h
        exact ⟨f, rid, rfl, hok, h1, h2, by rw [← h.1, h3], by rw [← h.2.1, e1], h.2.2.symm⟩

theorem filter_species_fresh {l : List SRef} {x : String} (h : ∀ s ∈ l, s.species ≠ x) :
    l.filter (·.species == x) = [] := filter_fresh h

theorem sideSumR_fresh (env : VEnv) {l : List SRef} {x : String} (h : ∀ s ∈ l, s.species ≠ x) :
    sideSumR env x l = some 0 := by
  simp [sideSumR, filter_fresh h, sumOpt]

theorem sideSumR_add_same (env : VEnv) {l : List SRef} {x : String} (s : SRef)
    (h : ∀ s ∈ l, s.species ≠ x) (hs : s.species = x) :
    sideSumR env x (l ++ [s]) = (refCoefR env s).map (· + 0) := by
  simp only [sideSumR, List.filter_append, filter_fresh h, List.nil_append]
  simp only [List.filter, hs, beq_self_eq_true, List.map, sumOpt]
  cases refCoefR env s <;> simp

theorem sideSumR_add_other (env : VEnv) (l : List SRef) {z : String} (s : SRef) (hs : s.species ≠ z) :
    sideSumR env z (l ++ [s]) = sideSumR env z l := by
  have : (s.species == z) = false := by simpa using hs
  simp [sideSumR, List.filter_append, List.filter, this]

theorem netCoefR_addRef_other (env : VEnv) (side : Side) (r : SRxn) {z : String} (s : SRef)
    (hs : s.species ≠ z) : netCoefR env (addRef side r s) z = netCoefR env r z := by
  cases side <;> simp [netCoefR, addRef, sideSumR_add_other env _ s hs]

theorem netCoefR_num (env : VEnv) (r : SRxn) (x : String) (q : Rat)
    (hfresh : ∀ t ∈ refsOf r, t.species ≠ x) :
    netCoefR env (addRef (if q < 0 then negSide else nonnegSide) r ⟨x, some (absRat q), none⟩) x = some q := by
  have hr : ∀ s ∈ r.reactants, s.species ≠ x := fun s hs => hfresh s (List.mem_append_left _ hs)
  have hp : ∀ s ∈ r.products, s.species ≠ x := fun s hs => hfresh s (List.mem_append_right _ hs)
  by_cases hq : q < 0
  · rw [if_pos hq, show negSide = Side.reactant from rfl]
    simp only [addRef, netCoefR]
    rw [sideSumR_fresh env hp, sideSumR_add_same env ⟨x, some (absRat q), none⟩ hr rfl]
    simp only [refCoefR, absRat, hq, if_true, bind, Option.bind, Option.map]
    congr 1
    grind
  · rw [if_neg hq, show nonnegSide = Side.product from rfl]
    simp only [addRef, netCoefR]
    rw [sideSumR_fresh env hr, sideSumR_add_same env ⟨x, some (absRat q), none⟩ hp rfl]
    simp only [refCoefR, absRat, hq, if_false, bind, Option.bind, Option.map]
    congr 1
    grind

theorem netCoefR_computed (env : VEnv) (r : SRxn) (x rid : String)
    (hfresh : ∀ t ∈ refsOf r, t.species ≠ x) :
    netCoefR env (addRef computedSide r ⟨x, none, some rid⟩) x = (env rid).map Val.toNum := by
  have hr : ∀ s ∈ r.reactants, s.species ≠ x := fun s hs => hfresh s (List.mem_append_left _ hs)
  have hp : ∀ s ∈ r.products, s.species ≠ x := fun s hs => hfresh s (List.mem_append_right _ hs)
  rw [show computedSide = Side.product from rfl]
  simp only [addRef, netCoefR]
  rw [sideSumR_fresh env hr, sideSumR_add_same env ⟨x, none, some rid⟩ hp rfl]
  simp only [refCoefR]
  cases env rid with
  | none => rfl
  | some w =>
    simp only [bind, Option.bind, Option.map]
    congr 1
    grind

theorem refsOf_addRef (side : Side) (r : SRxn) (s : SRef) :
    ∀ t, t ∈ refsOf (addRef side r s) ↔ t ∈ refsOf r ∨ t = s := by
  intro t
  cases side <;> simp only [refsOf, addRef, List.mem_append, List.mem_singleton] <;> grind

theorem contains_false_iff {l : List String} {k : String} : l.contains k = false ↔ k ∉ l := by
  simp

/-- a whole `rxn.stoichiometry` -/
theorem exportCoefs_spec :
    ∀ (l : List (String × PyCoef)) (taken taken' : List String) (d d' : SDoc) (r r' : SRxn),
      exportCoefs (taken, d, r) l = .ok (taken', d', r') →
      (∀ kv ∈ l, isPlainName kv.1 = true) → (l.map (·.1)).Nodup →
      (∀ s ∈ refsOf r, s.species ∉ l.map (·.1)) →
      ∃ R : List (String × MathML),
        d' = { d with rules := d.rules ++ R } ∧
        (∀ k ∈ R.map (·.1), k ∉ taken ∧ isPlainName k = true) ∧
        (R.map (·.1)).Nodup ∧
        (∀ k, k ∈ taken' ↔ k ∈ R.map (·.1) ∨ k ∈ taken) ∧
        (∀ s ∈ refsOf r', s ∈ refsOf r ∨ (s.species ∈ l.map (·.1) ∧ ∀ i, s.id = some i → i ∈ R.map (·.1))) ∧
        (∀ env x q, (x, PyCoef.num q) ∈ l → netCoefR env r' x = some q) ∧
        (∀ env x f, (x, PyCoef.computed f) ∈ l → sbmlifyFn f = .ok (mathOf f) ∧
          ∃ rid, (rid, mathOf f) ∈ R ∧ netCoefR env r' x = (env rid).map Val.toNum) ∧
        (∀ env z, z ∉ l.map (·.1) → netCoefR env r' z = netCoefR env r z) := by
  intro l
  induction l with
  | nil =>
    intro taken taken' d d' r r' h _ _ _
    simp only [exportCoefs, Except.ok.injEq, Prod.mk.injEq] at h
    obtain ⟨rfl, rfl, rfl⟩ := h
    exact ⟨[], by simp, by simp, by simp, by simp, fun s hs => .inl hs, by simp, by simp, fun _ _ _ => rfl⟩
  | cons kv rest ih =>
    intro taken taken' d d' r r' h hplain hnodup hfresh
    obtain ⟨x, c⟩ := kv
    simp only [exportCoefs] at h
    obtain ⟨⟨taken1, d1, r1⟩, h1, h2⟩ := except_bind_ok h
    have hx : isPlainName x = true := hplain (x, c) List.mem_cons_self
    have hplain' : ∀ kv ∈ rest, isPlainName kv.1 = true := fun kv hk => hplain kv (List.mem_cons_of_mem _ hk)
    simp only [List.map_cons, List.nodup_cons] at hnodup
    obtain ⟨hxnot, hnodup'⟩ := hnodup
    have hfx : ∀ s ∈ refsOf r, s.species ≠ x := fun s hs e => hfresh s hs (by simp [e])
    -- the reference added for x
    have hstep : ∃ s0 side, r1 = addRef side r s0 ∧ s0.species = x := by
      rcases exportCoef_plain hx h1 with ⟨q, _, _, _, hr1⟩ | ⟨f, rid, _, _, _, _, _, _, hr1⟩
      · exact ⟨_, _, hr1, rfl⟩
      · exact ⟨_, _, hr1, rfl⟩
    obtain ⟨s0, side0, hr1, hs0⟩ := hstep
    have hfresh' : ∀ s ∈ refsOf r1, s.species ∉ rest.map (·.1) := by
      intro s hs
      rw [hr1] at hs
      rcases (refsOf_addRef _ _ _ s).mp hs with h | h
      · exact fun e => hfresh s h (by simp [e])
      · rw [h, hs0]; exact hxnot
    obtain ⟨R2, e2, fr2, nd2, tk2, rf2, num2, cmp2, frame2⟩ := ih taken1 taken' d1 d' r1 r' h2 hplain' hnodup' hfresh'
    have hframe_x : ∀ env, netCoefR env r' x = netCoefR env r1 x := fun env => frame2 env x hxnot
    have hframe_z : ∀ env z, z ∉ (x :: rest.map (·.1)) → netCoefR env r' z = netCoefR env r z := by
      intro env z hz
      simp only [List.mem_cons, not_or] at hz
      rw [frame2 env z hz.2, hr1]
      exact netCoefR_addRef_other env _ r s0 (by rw [hs0]; exact fun e => hz.1 e.symm)
    rcases exportCoef_plain hx h1 with ⟨q, hc, ht1, hd1, hr1'⟩ | ⟨f, rid, hc, hok, hnew, hridp, ht1, hd1, hr1'⟩
    · -- a number
      subst hc; subst ht1; subst hd1
      refine ⟨R2, e2, fr2, nd2, tk2, ?_, ?_, ?_, ?_⟩
      · intro s hs
        rcases rf2 s hs with h | ⟨h, hi⟩
        · rw [hr1'] at h
          rcases (refsOf_addRef _ _ _ s).mp h with h | h
          · exact .inl h
          · exact .inr ⟨by simp [h], by intro i hi; rw [h] at hi; cases hi⟩
        · exact .inr ⟨by simp [h], hi⟩
      · intro env y q' hm
        rcases List.mem_cons.mp hm with e | hm'
        · simp only [Prod.mk.injEq, PyCoef.num.injEq] at e
          obtain ⟨rfl, rfl⟩ := e
          rw [hframe_x, hr1']
          exact netCoefR_num env r y q' hfx
        · exact num2 env y q' hm'
      · intro env y f hm
        rcases List.mem_cons.mp hm with e | hm'
        · simp at e
        · exact cmp2 env y f hm'
      · intro env z hz
        exact hframe_z env z (by simpa using hz)
    · -- a computed coefficient
      subst hc; subst ht1; subst hd1
      have hrid2 : rid ∉ R2.map (·.1) := fun hm => (fr2 rid hm).1 List.mem_cons_self
      refine ⟨(rid, mathOf f) :: R2, ?_, ?_, ?_, ?_, ?_, ?_, ?_, ?_⟩
      · rw [e2]; simp
      · intro k hk
        simp only [List.map_cons, List.mem_cons] at hk
        rcases hk with rfl | hk
        · exact ⟨by simpa using hnew, hridp⟩
        · exact ⟨fun hm => (fr2 k hk).1 (List.mem_cons_of_mem _ hm), (fr2 k hk).2⟩
      · simp only [List.map_cons, List.nodup_cons]
        exact ⟨hrid2, nd2⟩
      · intro k
        rw [tk2 k]
        simp only [List.map_cons, List.mem_cons]
        grind
      · intro s hs
        rcases rf2 s hs with h | ⟨h, hi⟩
        · rw [hr1'] at h
          rcases (refsOf_addRef _ _ _ s).mp h with h | h
          · exact .inl h
          · exact .inr ⟨by simp [h], by intro i hi; rw [h] at hi; simp at hi; simp [hi]⟩
        · exact .inr ⟨by simp [h], fun i hi' => by simp [hi i hi']⟩
      · intro env y q' hm
        rcases List.mem_cons.mp hm with e | hm'
        · simp at e
        · exact num2 env y q' hm'
      · intro env y f' hm
        rcases List.mem_cons.mp hm with e | hm'
        · simp only [Prod.mk.injEq, PyCoef.computed.injEq] at e
          obtain ⟨rfl, rfl⟩ := e
          refine ⟨hok, rid, List.mem_cons_self, ?_⟩
          rw [hframe_x, hr1']
          exact netCoefR_computed env r y rid hfx
        · obtain ⟨h1', rid', hm2, hn2⟩ := cmp2 env y f' hm'
          exact ⟨h1', rid', List.mem_cons_of_mem _ hm2, hn2⟩
      · intro env z hz
        exact hframe_z env z (by simpa using hz)

/-! ### part 3d: reactions -/

/-- a reaction of the model and the reaction written for it, relative to the rules `R` written for species
    references -/
structure RxnRelR (R : List (String × MathML)) (rx : PyRxn) (r : SRxn) : Prop where
  id : r.id = rx.name
  law : sbmlifyFn rx.fn = .ok r.law
  ids : ∀ s ∈ refsOf r, ∀ i, s.id = some i → i ∈ R.map (·.1)
  num : ∀ env x q, (x, PyCoef.num q) ∈ rx.stoich → netCoefR env r x = some q
  computed : ∀ env x f, (x, PyCoef.computed f) ∈ rx.stoich → sbmlifyFn f = .ok (mathOf f) ∧
    ∃ rid, (rid, mathOf f) ∈ R ∧ netCoefR env r x = (env rid).map Val.toNum
  absent : ∀ env z, z ∉ rx.stoich.map (·.1) → netCoefR env r z = some 0

theorem RxnRelR.mono {R R' : List (String × MathML)} {rx : PyRxn} {r : SRxn} (h : RxnRelR R rx r)
    (hsub : ∀ e ∈ R, e ∈ R') : RxnRelR R' rx r where
  id := h.id
  law := h.law
  ids := fun s hs i hi => by
    obtain ⟨e, he, hk⟩ := List.mem_map.mp (h.ids s hs i hi)
    exact List.mem_map.mpr ⟨e, hsub e he, hk⟩
  num := h.num
  computed := fun env x f hm => by
    obtain ⟨h1, rid, h2, h3⟩ := h.computed env x f hm
    exact ⟨h1, rid, hsub _ h2, h3⟩
  absent := h.absent

theorem Forall2.imp {α β : Type} {R S : α → β → Prop} (h : ∀ a b, R a b → S a b) :
    ∀ {l : List α} {l' : List β}, Forall2 R l l' → Forall2 S l l'
  | _, _, .nil => .nil
  | _, _, .cons hab ht => .cons (h _ _ hab) (Forall2.imp h ht)

theorem Forall2.imp_mem {α β : Type} {R S : α → β → Prop} :
    ∀ {l : List α} {l' : List β}, Forall2 R l l' → (∀ a ∈ l, ∀ b, R a b → S a b) → Forall2 S l l'
  | _, _, .nil, _ => .nil
  | _, _, .cons hab ht, h =>
    .cons (h _ List.mem_cons_self _ hab) (Forall2.imp_mem ht (fun a ha b => h a (List.mem_cons_of_mem _ ha) b))

theorem Forall2.length_eq {α β : Type} {R : α → β → Prop} :
    ∀ {l : List α} {l' : List β}, Forall2 R l l' → l.length = l'.length
  | _, _, .nil => rfl
  | _, _, .cons _ ht => by simp [Forall2.length_eq ht]

theorem netCoefR_empty (env : VEnv) (id : String) (law : MathML) (z : String) :
    netCoefR env ⟨id, [], [], law⟩ z = some 0 := by
  simp [netCoefR, sideSumR, sumOpt]
  grind

def rxnOk (rx : PyRxn) : Prop :=
  isPlainName rx.name = true ∧ (∀ kv ∈ rx.stoich, isPlainName kv.1 = true) ∧ (rx.stoich.map (·.1)).Nodup

theorem exportReaction_spec {taken taken' : List String} {d d' : SDoc} {rx : PyRxn} (hrx : rxnOk rx)
    (h : exportReaction (taken, d) rx = .ok (taken', d')) :
    ∃ (R : List (String × MathML)) (r : SRxn),
      d' = { d with rules := d.rules ++ R, rxns := d.rxns ++ [r] } ∧
      (∀ k ∈ R.map (·.1), k ∉ taken ∧ isPlainName k = true) ∧ (R.map (·.1)).Nodup ∧
      (∀ k, k ∈ taken' ↔ k ∈ R.map (·.1) ∨ k ∈ taken) ∧ RxnRelR R rx r := by
  obtain ⟨hname, hplain, hnodup⟩ := hrx
  simp only [exportReaction, escapeId_plain _ hname, bind, Except.bind] at h
  cases hc : exportCoefs (taken, d, ⟨rx.name, [], [], .apply .unknown []⟩) rx.stoich with
  | error e => simp [hc] at h
  | ok st =>
    obtain ⟨taken1, d1, r1⟩ := st
    simp only [hc] at h
    cases hl : sbmlifyFn rx.fn with
    | error e => simp [hl] at h
    | ok law =>
      simp only [hl, pure, Except.pure, Except.ok.injEq, Prod.mk.injEq] at h
      obtain ⟨rfl, rfl⟩ := h
      obtain ⟨R, e1, fr, nd, tk, rf, num, cmp, frame⟩ :=
        exportCoefs_spec rx.stoich taken taken1 d d1 _ r1 hc hplain hnodup (by simp [refsOf])
      -- r1 is the reaction without its law; setting the law changes no reference
      have hnet : ∀ env z, netCoefR env { r1 with law := law } z = netCoefR env r1 z := fun _ _ => rfl
      have hrefs : refsOf { r1 with law := law } = refsOf r1 := rfl
      have hid : r1.id = rx.name := by
        -- exportCoefs never touches the id
        have : ∀ (l : List (String × PyCoef)) (t t' : List String) (a a' : SDoc) (b b' : SRxn),
            exportCoefs (t, a, b) l = .ok (t', a', b') → b'.id = b.id := by
          intro l
          induction l with
          | nil =>
            intro t t' a a' b b' hh
            simp only [exportCoefs, Except.ok.injEq, Prod.mk.injEq] at hh
            rw [hh.2.2]
          | cons kv rest ih =>
            intro t t' a a' b b' hh
            simp only [exportCoefs] at hh
            obtain ⟨⟨t1, a1, b1⟩, hh1, hh2⟩ := except_bind_ok hh
            rw [ih t1 t' a1 a' b1 b' hh2]
            obtain ⟨y, c⟩ := kv
            cases c with
            | num q =>
              simp only [exportCoef, bind, Except.bind] at hh1
              cases he : escapeId y prefixRefSpecies with
              | error e => simp [he] at hh1
              | ok sp =>
                simp only [he, pure, Except.pure, Except.ok.injEq, Prod.mk.injEq] at hh1
                rw [← hh1.2.2]
                cases (if q < 0 then negSide else nonnegSide) <;> rfl
            | computed f =>
              simp only [exportCoef, bind, Except.bind] at hh1
              cases hr : refName t y with
              | error e => simp [hr] at hh1
              | ok p =>
                simp only [hr] at hh1
                cases hd : exportRule a p.1 f with
                | error e => simp [hd] at hh1
                | ok a2 =>
                  simp only [hd] at hh1
                  cases he1 : escapeId p.1 prefixRefId with
                  | error e => simp [he1] at hh1
                  | ok rid =>
                    simp only [he1] at hh1
                    cases he2 : escapeId y prefixRefSpecies with
                    | error e => simp [he2] at hh1
                    | ok sp =>
                      simp only [he2, pure, Except.pure, Except.ok.injEq, Prod.mk.injEq] at hh1
                      rw [← hh1.2.2]
                      cases computedSide <;> rfl
        exact this rx.stoich taken taken1 d d1 _ r1 hc
      refine ⟨R, { r1 with law := law }, ?_, fr, nd, tk, ?_⟩
      · rw [e1]
      · refine ⟨hid, hl, ?_, ?_, ?_, ?_⟩
        · intro s hs i hi
          rw [hrefs] at hs
          rcases rf s hs with h | ⟨_, h⟩
          · simp [refsOf] at h
          · exact h i hi
        · intro env x q hm; rw [hnet]; exact num env x q hm
        · intro env x f hm; rw [hnet]; exact cmp env x f hm
        · intro env z hz; rw [hnet, frame env z hz]; exact netCoefR_empty env _ _ z

theorem foldReactions :
    ∀ (l : List PyRxn) (taken taken' : List String) (d0 d : SDoc), (∀ rx ∈ l, rxnOk rx) →
      foldE exportReaction (taken, d0) l = .ok (taken', d) →
      ∃ (R : List (String × MathML)) (rs : List SRxn),
        d = { d0 with rules := d0.rules ++ R, rxns := d0.rxns ++ rs } ∧
        (∀ k ∈ R.map (·.1), k ∉ taken ∧ isPlainName k = true) ∧ (R.map (·.1)).Nodup ∧
        Forall2 (RxnRelR R) l rs := by
  intro l
  induction l with
  | nil =>
    intro taken taken' d0 d _ h
    simp only [foldE, Except.ok.injEq, Prod.mk.injEq] at h
    obtain ⟨_, rfl⟩ := h
    exact ⟨[], [], by simp, by simp, by simp, .nil⟩
  | cons rx l ih =>
    intro taken taken' d0 d hok h
    simp only [foldE] at h
    obtain ⟨⟨taken1, d1⟩, h1, h2⟩ := except_bind_ok h
    obtain ⟨R1, r1, e1, fr1, nd1, tk1, rel1⟩ := exportReaction_spec (hok rx List.mem_cons_self) h1
    obtain ⟨R2, rs2, e2, fr2, nd2, rel2⟩ :=
      ih taken1 taken' d1 d (fun r hr => hok r (List.mem_cons_of_mem _ hr)) h2
    refine ⟨R1 ++ R2, r1 :: rs2, ?_, ?_, ?_, ?_⟩
    · rw [e2, e1]; simp
    · intro k hk
      simp only [List.map_append, List.mem_append] at hk
      rcases hk with hk | hk
      · exact fr1 k hk
      · exact ⟨fun hm => (fr2 k hk).1 ((tk1 k).mpr (.inr hm)), (fr2 k hk).2⟩
    · simp only [List.map_append]
      rw [List.nodup_append]
      refine ⟨nd1, nd2, ?_⟩
      intro a ha b hb e
      subst e
      exact (fr2 a hb).1 ((tk1 a).mpr (.inl ha))
    · exact .cons (rel1.mono (fun e he => List.mem_append_left _ he))
        (Forall2.imp (fun a b hab => hab.mono (fun e he => List.mem_append_right _ he)) rel2)

/-! ### part 5: a well-named model and its document -/

def nodupB : List String → Bool
  | [] => true
  | a :: l => !l.contains a && nodupB l

theorem nodupB_sound : ∀ {l : List String}, nodupB l = true → l.Nodup
  | [], _ => List.nodup_nil
  | a :: l, h => by
    simp only [nodupB, Bool.and_eq_true, Bool.not_eq_true'] at h
    exact List.nodup_cons.mpr ⟨by simpa using h.1, nodupB_sound h.2⟩

def coefFnFree : String × PyCoef → Bool
  | (_, .computed f) => calleeFreeBody f.params f.body
  | _ => true

def initFnFree : String × PyInit → Bool
  | (_, .ia f) => calleeFreeBody f.params f.body
  | _ => true

def rxnOkB (rx : PyRxn) : Bool :=
  isPlainName rx.name && (rx.stoich.map (·.1)).all isPlainName && nodupB (rx.stoich.map (·.1))

/-- the models the round-trip theorem speaks about: every component name is `[A-Za-z][A-Za-z0-9_]*`
    (finding F-C08-5 concerns the others), names are pairwise distinct (as `Model` enforces), the keys of
    each stoichiometry are such names and distinct (dict keys), and no function uses one of its own
    parameters as the name of a called function or module -/
def wellNamed (m : PyModel) : Bool :=
  m.names.all isPlainName && nodupB m.names && m.rxns.all rxnOkB &&
  m.params.all initFnFree && m.vars.all initFnFree &&
  m.derived.all (fun kv => calleeFreeBody kv.2.params kv.2.body) &&
  m.rxns.all (fun r => calleeFreeBody r.fn.params r.fn.body && r.stoich.all coefFnFree)

theorem keys_ruleEntry (l : List (String × PyFn)) : (l.map ruleEntry).map (·.1) = l.map (·.1) := by
  simp [ruleEntry, Function.comp_def]

theorem rxnOk_of_B {rx : PyRxn} (h : rxnOkB rx = true) : rxnOk rx := by
  simp only [rxnOkB, Bool.and_eq_true, List.all_eq_true] at h
  refine ⟨h.1.1, ?_, nodupB_sound h.2⟩
  intro kv hk
  exact h.1.2 kv.1 (List.mem_map.mpr ⟨kv, hk, rfl⟩)

theorem fnsFree_of_wellNamed {m : PyModel} (hw : wellNamed m = true) : FnsFree m := by
  simp only [wellNamed, Bool.and_eq_true, List.all_eq_true] at hw
  obtain ⟨⟨⟨⟨_, hfp⟩, hfv⟩, hfd⟩, hfr⟩ := hw
  refine ⟨?_, ?_, ?_, ?_⟩
  · intro n f hl
    exact hfp (n, .ia f) (mem_of_lookup_some hl)
  · intro n f hl
    exact hfv (n, .ia f) (mem_of_lookup_some hl)
  · intro n f hl
    exact hfd (n, f) (mem_of_lookup_some hl)
  · intro r hr
    refine ⟨(hfr r hr).1, ?_⟩
    intro x f hl
    exact (hfr r hr).2 (x, .computed f) (mem_of_lookup_some hl)

theorem exported_of_export {m : PyModel} {d : SDoc} (hw : wellNamed m = true) (h : exportModel m = .ok d) :
    Exported m d := by
  have hw' := hw
  simp only [wellNamed, Bool.and_eq_true, List.all_eq_true] at hw'
  obtain ⟨⟨⟨⟨⟨⟨hplain, hnd⟩, hrok⟩, _⟩, _⟩, _⟩, _⟩ := hw'
  have hnames := nodupB_sound hnd
  unfold PyModel.names at hnames hplain
  obtain ⟨hPVD, hX, hdX⟩ := List.nodup_append.mp hnames
  obtain ⟨hPV', hD, hdD⟩ := List.nodup_append.mp hPVD
  obtain ⟨hP, hV, hdV⟩ := List.nodup_append.mp hPV'
  have plainP : ∀ kv ∈ m.params, isPlainName kv.1 = true := fun kv hk =>
    hplain kv.1 (by simp only [List.mem_append]; exact .inl (.inl (.inl (List.mem_map.mpr ⟨kv, hk, rfl⟩))))
  have plainV : ∀ kv ∈ m.vars, isPlainName kv.1 = true := fun kv hk =>
    hplain kv.1 (by simp only [List.mem_append]; exact .inl (.inl (.inr (List.mem_map.mpr ⟨kv, hk, rfl⟩))))
  have plainD : ∀ kv ∈ m.derived, isPlainName kv.1 = true := fun kv hk =>
    hplain kv.1 (by simp only [List.mem_append]; exact .inl (.inr (List.mem_map.mpr ⟨kv, hk, rfl⟩)))
  -- the four folds
  unfold exportModel at h
  obtain ⟨d1, h1, h⟩ := except_bind_ok h
  obtain ⟨d2, h2, h⟩ := except_bind_ok h
  obtain ⟨d3, h3, h⟩ := except_bind_ok h
  obtain ⟨⟨t4, d4⟩, h4, h⟩ := except_bind_ok h
  simp only [pure, Except.pure, Except.ok.injEq] at h
  subst h
  obtain ⟨e1, ok1⟩ := foldParams m.params _ d1 plainP h1
  obtain ⟨e2, ok2⟩ := foldDerived m.derived d1 d2 plainD h2
  obtain ⟨e3, ok3⟩ := foldVars m.vars d2 d3 plainV h3
  obtain ⟨R, rs, e4, fr, ndR, rel⟩ := foldReactions m.rxns m.names t4 d3 d4 (fun rx hr => rxnOk_of_B (hrok rx hr)) h4
  have hdp : d4.params = m.params.map initEntry := by rw [e4, e3, e2, e1]; simp [SDoc.empty]
  have hds : d4.species = m.vars.map initEntry := by rw [e4, e3, e2, e1]; simp [SDoc.empty]
  have hdi : d4.inits = (iaFns m.params).map ruleEntry ++ (iaFns m.vars).map ruleEntry := by
    rw [e4, e3, e2, e1]; simp [SDoc.empty]
  have hdr : d4.rules = m.derived.map ruleEntry ++ R := by rw [e4, e3, e2, e1]; simp [SDoc.empty]
  have hdx : d4.rxns = rs := by rw [e4, e3, e2, e1]; simp [SDoc.empty]
  -- names
  have freshR : ∀ k ∈ R.map (·.1), k ∉ m.names := fun k hk => (fr k hk).1
  have memP : ∀ {n v}, m.params.lookup n = some v → n ∈ m.params.map (·.1) := fun h => mem_keys_of_lookup_some h
  have memV : ∀ {n v}, m.vars.lookup n = some v → n ∈ m.vars.map (·.1) := fun h => mem_keys_of_lookup_some h
  have iaKeysP : ∀ n, n ∈ (iaFns m.params).map (·.1) → ∃ f, m.params.lookup n = some (.ia f) := by
    intro n hn
    obtain ⟨⟨n', f⟩, hmem, rfl⟩ := List.mem_map.mp hn
    exact ⟨f, lookup_of_mem_nodup (mem_iaFns.mp hmem) hP⟩
  have iaKeysV : ∀ n, n ∈ (iaFns m.vars).map (·.1) → ∃ f, m.vars.lookup n = some (.ia f) := by
    intro n hn
    obtain ⟨⟨n', f⟩, hmem, rfl⟩ := List.mem_map.mp hn
    exact ⟨f, lookup_of_mem_nodup (mem_iaFns.mp hmem) hV⟩
  have initKeys : d4.inits.map (·.1) = (iaFns m.params).map (·.1) ++ (iaFns m.vars).map (·.1) := by
    rw [hdi, List.map_append, keys_ruleEntry, keys_ruleEntry]
  have initNodup : (d4.inits.map (·.1)).Nodup := by
    rw [initKeys, List.nodup_append]
    refine ⟨List.Pairwise.sublist (iaFns_keys_sublist _) hP, List.Pairwise.sublist (iaFns_keys_sublist _) hV, ?_⟩
    intro a ha b hb
    exact hdV a ((iaFns_keys_sublist _).subset ha) b ((iaFns_keys_sublist _).subset hb)
  have ruleKeys : d4.rules.map (·.1) = m.derived.map (·.1) ++ R.map (·.1) := by
    rw [hdr, List.map_append, keys_ruleEntry]
  have derInNames : ∀ n, n ∈ m.derived.map (·.1) → n ∈ m.names := by
    intro n hn
    unfold PyModel.names
    simp only [List.mem_append]
    exact .inl (.inr hn)
  have ruleNodup : (d4.rules.map (·.1)).Nodup := by
    rw [ruleKeys, List.nodup_append]
    refine ⟨hD, ndR, ?_⟩
    intro a ha b hb e
    subst e
    exact freshR a hb (derInNames a ha)
  have initNone : ∀ n, (∀ f, m.params.lookup n ≠ some (.ia f)) → (∀ f, m.vars.lookup n ≠ some (.ia f)) →
      lookupLast d4.inits n = none := by
    intro n hp hv
    apply lookupLast_none_of_not_mem
    rw [initKeys]
    intro hm
    rcases List.mem_append.mp hm with hm | hm
    · obtain ⟨f, hf⟩ := iaKeysP n hm; exact hp f hf
    · obtain ⟨f, hf⟩ := iaKeysV n hm; exact hv f hf
  have initSome : ∀ n f, (n, f) ∈ iaFns m.params ∨ (n, f) ∈ iaFns m.vars → lookupLast d4.inits n = some (mathOf f) := by
    intro n f hm
    apply lookupLast_of_mem_nodup _ initNodup
    rw [hdi]
    rcases hm with hm | hm
    · exact List.mem_append_left _ (List.mem_map.mpr ⟨(n, f), hm, rfl⟩)
    · exact List.mem_append_right _ (List.mem_map.mpr ⟨(n, f), hm, rfl⟩)
  refine
    { par_val := ?_, par_ia := ?_, par_none := ?_, var_val := ?_, var_ia := ?_, var_none := ?_,
      init_none := ?_, der := ?_, der_none := ?_, rxns := ?_, fuel := ?_ }
  · intro n q hl
    refine ⟨by rw [hdp, lookup_initEntry, hl]; rfl, initNone n (by intro f hf; rw [hl] at hf; cases hf) ?_⟩
    intro f hf
    exact hdV n (memP hl) n (memV hf) rfl
  · intro n f hl
    refine ⟨by rw [hdp, lookup_initEntry, hl]; rfl,
      initSome n f (.inl (mem_iaFns.mpr (mem_of_lookup_some hl))), ?_⟩
    exact ok1 (n, f) (mem_iaFns.mpr (mem_of_lookup_some hl))
  · intro n hl
    rw [hdp, lookup_initEntry, hl]; rfl
  · intro n q hl
    refine ⟨by rw [hds, lookup_initEntry, hl]; rfl, initNone n ?_ (by intro f hf; rw [hl] at hf; cases hf)⟩
    intro f hf
    exact hdV n (memP hf) n (memV hl) rfl
  · intro n f hl
    exact ⟨initSome n f (.inr (mem_iaFns.mpr (mem_of_lookup_some hl))),
      ok3 (n, f) (mem_iaFns.mpr (mem_of_lookup_some hl))⟩
  · intro n hl
    rw [hds, lookup_initEntry, hl]; rfl
  · intro n hv hp
    exact initNone n (by intro f hf; rw [hp] at hf; cases hf) (by intro f hf; rw [hv] at hf; cases hf)
  · intro n f hl
    have hmem := mem_of_lookup_some hl
    refine ⟨?_, ok2 (n, f) hmem⟩
    apply lookupLast_of_mem_nodup _ ruleNodup
    rw [hdr]
    exact List.mem_append_left _ (List.mem_map.mpr ⟨(n, f), hmem, rfl⟩)
  · intro n hn hl
    apply lookupLast_none_of_not_mem
    rw [ruleKeys]
    intro hm
    rcases List.mem_append.mp hm with hm | hm
    · exact not_mem_keys_of_lookup_none hl hm
    · exact freshR n hm hn
  · rw [hdx]
    refine Forall2.imp_mem rel ?_
    intro rx hrx r hrel
    have hk := rxnOk_of_B (hrok rx hrx)
    have ruleOf : ∀ rid mth, (rid, mth) ∈ R → lookupLast d4.rules rid = some mth := by
      intro rid mth hm
      apply lookupLast_of_mem_nodup _ ruleNodup
      rw [hdr]
      exact List.mem_append_right _ hm
    refine ⟨hrel.id, hrel.law, ?_, ?_, ?_, ?_⟩
    · intro s hs i hi
      obtain ⟨⟨i', mth⟩, hm, rfl⟩ := List.mem_map.mp (hrel.ids s hs i hi)
      rw [ruleOf i' mth hm]; rfl
    · intro env x hl
      exact hrel.absent env x (not_mem_keys_of_lookup_none hl)
    · intro env x q hl
      exact hrel.num env x q (mem_of_lookup_some hl)
    · intro env x f hl
      obtain ⟨h1', rid, hm, hn⟩ := hrel.computed env x f (mem_of_lookup_some hl)
      exact ⟨h1', rid, ruleOf rid _ hm, freshR rid (List.mem_map.mpr ⟨_, hm, rfl⟩), hn⟩
  · have hlen := Forall2.length_eq rel
    simp only [PyModel.fuel, SDoc.fuel, hdp, hds, hdr, hdx, List.length_map, List.length_append]
    omega

/-- the species list of the document is the variable list of the model -/
theorem exported_species_key {m : PyModel} {d : SDoc} (hw : wellNamed m = true) (h : exportModel m = .ok d) :
    ∀ n ∈ m.vars.map (·.1), n ∈ d.species.map (·.1) := by
  simp only [wellNamed, Bool.and_eq_true, List.all_eq_true] at hw
  obtain ⟨⟨⟨⟨⟨⟨hplain, _⟩, hrok⟩, _⟩, _⟩, _⟩, _⟩ := hw
  unfold PyModel.names at hplain
  have plainP : ∀ kv ∈ m.params, isPlainName kv.1 = true := fun kv hk =>
    hplain kv.1 (by simp only [List.mem_append]; exact .inl (.inl (.inl (List.mem_map.mpr ⟨kv, hk, rfl⟩))))
  have plainV : ∀ kv ∈ m.vars, isPlainName kv.1 = true := fun kv hk =>
    hplain kv.1 (by simp only [List.mem_append]; exact .inl (.inl (.inr (List.mem_map.mpr ⟨kv, hk, rfl⟩))))
  have plainD : ∀ kv ∈ m.derived, isPlainName kv.1 = true := fun kv hk =>
    hplain kv.1 (by simp only [List.mem_append]; exact .inl (.inr (List.mem_map.mpr ⟨kv, hk, rfl⟩)))
  unfold exportModel at h
  obtain ⟨d1, h1, h⟩ := except_bind_ok h
  obtain ⟨d2, h2, h⟩ := except_bind_ok h
  obtain ⟨d3, h3, h⟩ := except_bind_ok h
  obtain ⟨⟨t4, d4⟩, h4, h⟩ := except_bind_ok h
  simp only [pure, Except.pure, Except.ok.injEq] at h
  subst h
  obtain ⟨e1, _⟩ := foldParams m.params _ d1 plainP h1
  obtain ⟨e2, _⟩ := foldDerived m.derived d1 d2 plainD h2
  obtain ⟨e3, _⟩ := foldVars m.vars d2 d3 plainV h3
  obtain ⟨R, rs, e4, _, _, _⟩ := foldReactions m.rxns m.names t4 d3 d4 (fun rx hr => rxnOk_of_B (hrok rx hr)) h4
  have hds : d4.species = m.vars.map initEntry := by rw [e4, e3, e2, e1]; simp [SDoc.empty]
  intro n hn
  rw [hds]
  simpa [initEntry, Function.comp_def] using hn

theorem rel_ids {m : PyModel} {d : SDoc} :
    ∀ {l : List PyRxn} {l' : List SRxn}, Forall2 (RxnRel m d) l l' → ∀ rx ∈ l, rx.name ∈ l'.map (·.id) := by
  intro l l' h
  induction h with
  | nil => intro rx hr; cases hr
  | @cons a b l l' hab _ ih =>
    intro rx hr
    rcases List.mem_cons.mp hr with rfl | hr
    · simp [hab.id]
    · exact List.mem_cons_of_mem _ (ih rx hr)

/-! ### part 4: values and derivatives -/

theorem find_rel {m : PyModel} {d : SDoc} :
    ∀ {l : List PyRxn} {l' : List SRxn}, Forall2 (RxnRel m d) l l' →
      ∀ n rx, findRxn l n = some rx → rx ∈ l ∧ ∃ r, findSRxn l' n = some r ∧ RxnRel m d rx r := by
  intro l l' h
  induction h with
  | nil => intro n rx hf; simp [findRxn] at hf
  | @cons a b l l' hab _ ih =>
    intro n rx hf
    unfold findRxn at hf
    unfold findSRxn
    simp only [List.find?_cons] at hf ⊢
    by_cases hn : (a.name == n) = true
    · simp only [hn, Option.some.injEq] at hf
      subst hf
      have : (b.id == n) = true := by rw [hab.id]; exact hn
      exact ⟨List.mem_cons_self, b, by simp [this], hab⟩
    · have hn' : (a.name == n) = false := by simpa using hn
      simp only [hn'] at hf
      have : (b.id == n) = false := by rw [hab.id]; exact hn'
      simp only [this]
      obtain ⟨h1, r, h2, h3⟩ := ih n rx hf
      exact ⟨List.mem_cons_of_mem _ h1, r, h2, h3⟩

theorem findRxn_name {l : List PyRxn} {n : String} {rx : PyRxn} (h : findRxn l n = some rx) : rx.name = n := by
  unfold findRxn at h
  have := List.find?_some h
  simpa using this

/-- a function's value in the model's environment is the value of its exported math in any environment
    of the document that extends it -/
theorem fn_transfer (I : Interp) {envP envD : VEnv} (hle : EnvLe envP envD) (f : PyFn) (v : Val)
    (hfree : calleeFreeBody f.params f.body = true) (hok : sbmlifyFn f = .ok (mathOf f))
    (hv : callFn I envP f = some v) : evalMath I envD (mathOf f) = some v :=
  evalMath_mono I hle _ _ (sbmlifyFn_sound I envP f (mathOf f) v hfree hok hv)

theorem rxn_name_mem {m : PyModel} {rx : PyRxn} (h : rx ∈ m.rxns) : rx.name ∈ m.names := by
  unfold PyModel.names
  exact List.mem_append_right _ (List.mem_map.mpr ⟨rx, h, rfl⟩)

section values
variable (I : Interp) {m : PyModel} {d : SDoc} (hE : Exported m d) (hF : FnsFree m)
include hE hF

/-- initial values: what the model computes, the SBML reading of the document computes -/
theorem init_transfer : ∀ fuel n v, pyInit I m fuel n = some v → docInit I d fuel n = some v := by
  intro fuel
  induction fuel with
  | zero => intro n v h; simp [pyInit] at h
  | succ fuel ih =>
    intro n v h
    have hle : EnvLe (pyInit I m fuel) (docInit I d fuel) := ih
    simp only [pyInit] at h
    simp only [docInit]
    cases hv : m.vars.lookup n with
    | some i =>
      simp only [hv] at h
      cases i with
      | val q =>
        obtain ⟨h1, h2⟩ := hE.var_val n q hv
        simpa [h2, h1] using h
      | ia f =>
        obtain ⟨h1, h2⟩ := hE.var_ia n f hv
        simp only [h1]
        exact fn_transfer I hle f v (hF.var n f hv) h2 h
    | none =>
      simp only [hv] at h
      cases hp : m.params.lookup n with
      | some i =>
        simp only [hp] at h
        cases i with
        | val q =>
          obtain ⟨h1, h2⟩ := hE.par_val n q hp
          simpa [h2, hE.var_none n hv, h1] using h
        | ia f =>
          obtain ⟨h1, h2, h3⟩ := hE.par_ia n f hp
          simp only [h2]
          exact fn_transfer I hle f v (hF.par n f hp) h3 h
      | none =>
        simp only [hp] at h
        have hi := hE.init_none n hv hp
        cases hd : m.derived.lookup n with
        | some f =>
          simp only [hd] at h
          obtain ⟨h1, h2⟩ := hE.der n f hd
          simp only [hi, hE.var_none n hv, hE.par_none n hp, h1]
          exact fn_transfer I hle f v (hF.der n f hd) h2 h
        | none =>
          simp only [hd] at h
          cases hr : findRxn m.rxns n with
          | none => simp [hr] at h
          | some rx =>
            simp only [hr] at h
            obtain ⟨hmem, r, hfr, hrel⟩ := find_rel hE.rxns n rx hr
            have hn : n ∈ m.names := findRxn_name hr ▸ rxn_name_mem hmem
            simp only [hi, hE.var_none n hv, hE.par_none n hp, hE.der_none n hn hd, hfr]
            have hok : sbmlifyFn rx.fn = .ok (mathOf rx.fn) := by rw [mathOf_ok hrel.law]; exact hrel.law
            have := fn_transfer I hle rx.fn v (hF.rxn rx hmem).1 hok h
            rwa [mathOf_ok hrel.law] at this

/-- values at a state -/
theorem value_transfer (st : List (String × Rat)) :
    ∀ fuel n v, pyValue I m st fuel n = some v → docValue I d st fuel n = some v := by
  intro fuel
  induction fuel with
  | zero => intro n v h; simp [pyValue] at h
  | succ fuel ih =>
    intro n v h
    have hle : EnvLe (pyValue I m st fuel) (docValue I d st fuel) := ih
    simp only [pyValue] at h
    simp only [docValue]
    cases hs : st.lookup n with
    | some q => simpa [hs] using h
    | none =>
      simp only [hs] at h ⊢
      cases hp : m.params.lookup n with
      | some i =>
        simp only [hp] at h
        cases i with
        | val q =>
          obtain ⟨h1, h2⟩ := hE.par_val n q hp
          simpa [h2, h1] using h
        | ia f =>
          obtain ⟨h1, h2, _⟩ := hE.par_ia n f hp
          simp only [h1, h2]
          have hfu : m.fuel ≤ d.fuel := Nat.le_of_succ_le hE.fuel
          exact docInit_mono I d hfu n v (init_transfer I hE hF m.fuel n v h)
      | none =>
        simp only [hp] at h
        simp only [hE.par_none n hp]
        cases hd : m.derived.lookup n with
        | some f =>
          simp only [hd] at h
          obtain ⟨h1, h2⟩ := hE.der n f hd
          simp only [h1]
          exact fn_transfer I hle f v (hF.der n f hd) h2 h
        | none =>
          simp only [hd] at h
          cases hr : findRxn m.rxns n with
          | none => simp [hr] at h
          | some rx =>
            simp only [hr] at h
            obtain ⟨hmem, r, hfr, hrel⟩ := find_rel hE.rxns n rx hr
            have hn : n ∈ m.names := findRxn_name hr ▸ rxn_name_mem hmem
            simp only [hE.der_none n hn hd, hfr]
            have hok : sbmlifyFn rx.fn = .ok (mathOf rx.fn) := by rw [mathOf_ok hrel.law]; exact hrel.law
            have := fn_transfer I hle rx.fn v (hF.rxn rx hmem).1 hok h
            rwa [mathOf_ok hrel.law] at this

end values

/-! the sums -/

def pyTerm (I : Interp) (env : VEnv) (x : String) (r : PyRxn) : Option (Option Rat) :=
  match r.stoich.lookup x with
  | none => none
  | some c => some (do
      let s ← pyCoef I env c
      let v ← env r.name
      some (s * v.toNum))

def docTerm (env : VEnv) (d : SDoc) (x : String) (r : SRxn) : Option Rat := do
  let s ← netCoef env d r x
  if s = 0 then some 0 else do
    let v ← env r.id
    some (s * v.toNum)

theorem pyRhs_eq (I : Interp) (m : PyModel) (st : List (String × Rat)) (x : String) :
    pyRhs I m st x = sumOpt (m.rxns.filterMap (pyTerm I (pyValue I m st m.fuel) x)) := rfl

theorem docRhs_eq (I : Interp) (d : SDoc) (st : List (String × Rat)) (x : String) :
    docRhs I d st x = sumOpt (d.rxns.map (docTerm (docValue I d st d.fuel) d x)) := rfl

theorem docTerm_some {env : VEnv} {d : SDoc} {x : String} {r : SRxn} {s : Rat} {v : Val}
    (hs : netCoef env d r x = some s) (hv : env r.id = some v) : docTerm env d x r = some (s * v.toNum) := by
  unfold docTerm
  simp only [hs, hv, bind, Option.bind]
  by_cases h0 : s = 0
  · simp [h0, Rat.zero_mul]
  · simp [h0]

theorem lookup_none_of_not_names {m : PyModel} {n : String} (h : n ∉ m.names) :
    m.params.lookup n = none := by
  apply lookup_none_of_not_mem
  intro hm
  apply h
  unfold PyModel.names
  simp only [List.mem_append]
  exact .inl (.inl (.inl hm))

section rhs
variable (I : Interp) {m : PyModel} {d : SDoc} (hE : Exported m d) (hF : FnsFree m)
  (st : List (String × Rat)) (hst : ∀ n q, st.lookup n = some q → n ∈ m.names)
include hE hF hst

theorem rhs_list (x : String) :
    ∀ {l : List PyRxn} {l' : List SRxn}, Forall2 (RxnRel m d) l l' → (∀ rx ∈ l, rx ∈ m.rxns) →
      ∀ total, sumOpt (l.filterMap (pyTerm I (pyValue I m st m.fuel) x)) = some total →
        sumOpt (l'.map (docTerm (docValue I d st d.fuel) d x)) = some total := by
  intro l l' h
  induction h with
  | nil => intro _ total ht; simpa using ht
  | @cons a b l l' hab _ ih =>
    intro hmem total ht
    have hmem' : ∀ rx ∈ l, rx ∈ m.rxns := fun rx hr => hmem rx (List.mem_cons_of_mem _ hr)
    have ha : a ∈ m.rxns := hmem a List.mem_cons_self
    have hfu : m.fuel ≤ d.fuel := Nat.le_of_succ_le hE.fuel
    have hleV : EnvLe (pyValue I m st m.fuel) (docValue I d st d.fuel) :=
      fun n v hv => docValue_mono I d st hfu n v (value_transfer I hE hF st m.fuel n v hv)
    have hnet : ∀ y, netCoef (docValue I d st d.fuel) d b y = netCoefR (docValue I d st d.fuel) b y :=
      fun y => netCoef_eq_R _ d b y hab.ids
    simp only [List.filterMap_cons, List.map_cons] at ht ⊢
    cases hc : a.stoich.lookup x with
    | none =>
      have hpt : pyTerm I (pyValue I m st m.fuel) x a = none := by simp [pyTerm, hc]
      simp only [hpt] at ht
      have hd0 : docTerm (docValue I d st d.fuel) d x b = some 0 := by
        unfold docTerm
        simp [hnet, hab.absent _ x hc]
      simp only [sumOpt, hd0, ih hmem' total ht, bind, Option.bind, Rat.zero_add]
    | some c =>
      -- the Python term
      cases hpt : pyTerm I (pyValue I m st m.fuel) x a with
      | none => simp [pyTerm, hc] at hpt
      | some t =>
        simp only [hpt, sumOpt] at ht
        obtain ⟨tv, htv, ht⟩ := option_bind_some ht
        obtain ⟨tr, htr, ht⟩ := option_bind_some ht
        simp only [Option.some.injEq] at ht
        subst ht
        simp only [pyTerm, hc, Option.some.injEq] at hpt
        subst hpt
        obtain ⟨sv, hsv, htv⟩ := option_bind_some htv
        obtain ⟨v, hv, htv⟩ := option_bind_some htv
        simp only [Option.some.injEq] at htv
        subst htv
        have hvD : docValue I d st d.fuel b.id = some v := by rw [hab.id]; exact hleV _ _ hv
        have hsD : netCoef (docValue I d st d.fuel) d b x = some sv := by
          rw [hnet]
          cases c with
          | num q =>
            simp only [pyCoef, Option.some.injEq] at hsv
            subst hsv
            exact hab.num _ x q hc
          | computed f =>
            simp only [pyCoef, Option.map_eq_some_iff] at hsv
            obtain ⟨w, hw, rfl⟩ := hsv
            obtain ⟨hok, rid, hrule, hfresh, hnc⟩ := hab.computed (docValue I d st d.fuel) x f hc
            rw [hnc]
            -- the rule of the reference, one unit of fuel further down
            obtain ⟨k, hk⟩ : ∃ k, d.fuel = k + 1 := ⟨d.fuel - 1, by have := hE.fuel; omega⟩
            have hmk : m.fuel ≤ k := by have := hE.fuel; omega
            have hleK : EnvLe (pyValue I m st m.fuel) (docValue I d st k) :=
              fun n v hv => docValue_mono I d st hmk n v (value_transfer I hE hF st m.fuel n v hv)
            have hstn : st.lookup rid = none := by
              cases hl : st.lookup rid with
              | none => rfl
              | some q => exact absurd (hst rid q hl) hfresh
            have hpn : d.params.lookup rid = none := hE.par_none rid (lookup_none_of_not_names hfresh)
            have : docValue I d st d.fuel rid = some w := by
              rw [hk]
              simp only [docValue, hstn, hpn, hrule]
              exact fn_transfer I hleK f w ((hF.rxn a ha).2 x f hc) hok hw
            simp [this]
        simp only [sumOpt, docTerm_some hsD hvD, ih hmem' tr htr, bind, Option.bind]

end rhs

end Mxl.C08
