/-
C04: the implementation machine refines the absolute-time specification machine on every
history.  Simulation relation `Rel`, one lemma per op.
-/
import MxlVerif.Lemmas.C04
namespace Mxl.C04

/-- well-formedness of a specification state: the clock is the last recorded time -/
structure Spec.Inv {σ} (a : Spec σ) : Prop where
  none_now : a.segs = none → a.now = 0 ∧ a.cur = a.y0
  some_last : ∀ l, a.segs = some l → ∃ r, lastRow? l = .ok r ∧ r.1 = a.now

/-- simulation relation.  `sim` is the integrator's invariant: its clock is the time reached minus the
    shift, its state the current state. -/
structure Rel {σ} (s : Sim σ) (a : Spec σ) : Prop where
  pars : s.pars = a.pars
  y0 : s.y0 = a.y0
  segs : s.segs = a.segs
  failed : decide (s.errors > 0) = a.failed
  inv : Spec.Inv a
  shift_le : ∀ d, s.shift = some d → d ≤ a.now
  shift_none : a.segs = none → s.shift = none
  shift_eq : s.shift = some a.now → s.y0 = a.cur
  last_state : ∀ l r, a.segs = some l → lastRow? l = .ok r → s.shift ≠ some a.now → r.2 = a.cur
  sim : s.integ.t0 + s.shift.getD 0 = a.now ∧ s.integ.y0 = a.cur

theorem Rel.reached {σ} {s : Sim σ} {a : Spec σ} (r : Rel s a) :
    reached? s.segs = .ok a.now := by
  rw [r.segs]
  cases hs : a.segs with
  | none => simp [reached?, (r.inv.none_now hs).1]
  | some l =>
    obtain ⟨row, h1, h2⟩ := r.inv.some_last l hs
    simp [reached?, h1, h2]

theorem Rel.init {σ} (p : Pars) (y0 : σ) : Rel (Sim.init p y0) (Spec.init p y0) := by
  constructor <;> simp [Sim.init, Spec.init]
  · constructor <;> simp
  · grind

/-! ### bookkeeping of `appendSeg` -/

theorem lastRow?_appendSeg_skip {σ} (segs : Option (List (Seg σ))) (r0 : Rat × σ) (rs : List (Rat × σ))
    (p : Pars) (r : Rat × σ) (h : rs.getLast? = some r) :
    lastRow? (appendSeg segs (r0 :: rs) p true) = .ok r := by
  have hne : rs ≠ [] := by intro e; subst e; simp at h
  cases segs with
  | none =>
    simp only [appendSeg, lastRow?, List.getLast?_singleton]
    rw [List.getLast?_cons]
    simp [h]
  | some l =>
    simp only [appendSeg, lastRow?, if_true, List.tail_cons]
    rw [List.getLast?_append]
    simp [h]

theorem lastRow?_appendSeg_one {σ} (segs : Option (List (Seg σ))) (r : Rat × σ) (p : Pars) :
    lastRow? (appendSeg segs [r] p false) = .ok r := by
  cases segs with
  | none => simp [appendSeg, lastRow?]
  | some l =>
    simp only [appendSeg, lastRow?]
    rw [List.getLast?_append]
    simp

/-! ### an accepted integration on a strictly increasing absolute grid -/

theorem getLast?_mem' {α} {l : List α} {x : α} (h : l.getLast? = some x) : x ∈ l :=
  List.mem_of_getLast? h

theorem Rel.advance {σ} (S : Sys σ) {s : Sim σ} {a : Spec σ} (r : Rel s a)
    (g' pts : List Rat) (tEnd : Rat)
    (hlast : g'.getLast? = some tEnd)
    (hp : (a.now :: g').Pairwise (· < ·))
    (hpts : pts = (a.now :: g').map (unshift s.shift) ∨ pts = g'.map (unshift s.shift)) :
    ∃ ig rows, integrateTimeCourse S s.pars s.integ pts = .ok (ig, rows) ∧
      Rel (handle { s with integ := ig } rows true)
        (Spec.record S a (a.now :: g') tEnd) := by
  obtain ⟨hnow, hy0⟩ := r.sim
  have hne : g' ≠ [] := by intro e; subst e; simp at hlast
  rw [← hnow] at hp hpts
  obtain ⟨ig, rows, last, hcall, hl, hrows, ht0, hy, _⟩ :=
    itc_ok S s.pars s.integ s.shift g' pts hne hp hpts
  rw [hlast] at hl
  cases hl
  have hlt : a.now < tEnd := by
    rw [← hnow]
    exact (List.pairwise_cons.mp hp).1 tEnd (getLast?_mem' hlast)
  have hsample : shiftRows s.shift rows = Spec.sample S a (a.now :: g') := by
    rw [hrows, hnow, hy0, r.pars]; rfl
  have hlastrow : lastRow? (appendSeg a.segs (Spec.sample S a (a.now :: g')) a.pars true)
      = .ok (tEnd, S.flow a.pars (tEnd - a.now) a.cur) := by
    simp only [Spec.sample, List.map_cons]
    apply lastRow?_appendSeg_skip
    rw [List.getLast?_map, hlast]; rfl
  refine ⟨ig, rows, hcall, ?_⟩
  refine
    { pars := r.pars, y0 := r.y0, segs := ?_, failed := r.failed, inv := ⟨?_, ?_⟩, shift_le := ?_,
      shift_none := ?_, shift_eq := ?_, last_state := ?_, sim := ?_ }
  · simp only [handle, Spec.record, hsample, r.segs, r.pars]
  · intro hnone; simp [Spec.record] at hnone
  · intro l hl
    simp only [Spec.record, Option.some.injEq] at hl
    subst hl
    exact ⟨_, hlastrow, rfl⟩
  · intro d hd
    have := r.shift_le d hd
    simp only [Spec.record]
    grind
  · intro hnone; simp [Spec.record] at hnone
  · intro hsh
    simp only [handle, Spec.record] at hsh
    have := r.shift_le _ hsh
    grind
  · intro l row hl hrow _
    simp only [Spec.record, Option.some.injEq] at hl
    subst hl
    rw [hlastrow] at hrow
    cases hrow
    rfl
  · simp only [handle, Spec.record]
    refine ⟨ht0, ?_⟩
    rw [hy, hnow, hy0, r.pars]

/-! ### one lemma per operation -/

theorem Rel.errors_pos {σ} {s : Sim σ} {a : Spec σ} (r : Rel s a) (hf : a.failed = true) :
    s.errors > 0 := by
  have := r.failed; rw [hf] at this; simpa using this

theorem Rel.errors_zero {σ} {s : Sim σ} {a : Spec σ} (r : Rel s a) (hf : ¬ a.failed = true) :
    ¬ s.errors > 0 := by
  have := r.failed
  intro hpos
  rw [decide_eq_true hpos] at this
  exact hf this.symm

theorem step_simulate {σ} (S : Sys σ) {s : Sim σ} {a : Spec σ} (r : Rel s a) (t : Rat) (n : Option Nat) :
    (simulate S s t n).2 = (Spec.simulate S a t n).2 ∧
      Rel (simulate S s t n).1 (Spec.simulate S a t n).1 := by
  unfold simulate Spec.simulate integrate
  by_cases hf : a.failed = true
  · simp [hf, r.errors_pos hf, r]
  · simp only [r.errors_zero hf, hf, if_false, r.reached, Bool.false_eq_true, gen_simulateChecksBeforeShift,
      if_true, gen_simulateRefusal, decide_eq_true_eq, gen_simulateSkipfirst]
    by_cases hle : t ≤ a.now
    · simp [hle, r]
    · simp only [hle, if_false]
      by_cases hN : nPoints n < 2
      · have h1 : nPoints n = 1 := by
          cases n with
          | none => have := nPoints_none_ge; omega
          | some k => rw [nPoints_some] at hN ⊢; omega
        obtain ⟨rest, hr, hlen⟩ := linspace_cons s.integ.t0 (unshift s.shift t) 0
        have : rest = [] := List.eq_nil_of_length_eq_zero hlen
        subst this
        simp only [h1, hr, itc_single]
        exact ⟨rfl, r⟩
      · obtain ⟨m, hm⟩ : ∃ m, nPoints n = m + 2 := ⟨nPoints n - 2, by omega⟩
        obtain ⟨g', hg, hlen⟩ := linspace_cons a.now t (m + 1)
        have hp := linspace_pairwise a.now t (m + 2) (by grind)
        have hlast := linspace_getLast a.now t (m + 2) (by omega)
        rw [hg] at hp hlast
        have hne : g' ≠ [] := by intro e; subst e; simp at hlen
        have hlast' : g'.getLast? = some t := by
          rw [List.getLast?_cons] at hlast
          cases hgl : g'.getLast? with
          | none => exact absurd (List.getLast?_eq_none_iff.mp hgl) hne
          | some v => rw [hgl] at hlast; simpa using hlast
        obtain ⟨hnow, _⟩ := r.sim
        have hpts : linspace s.integ.t0 (unshift s.shift t) (m + 2)
            = (a.now :: g').map (unshift s.shift) := by
          rw [← hg, unshift_fun, linspace_shift_sub]
          show linspace s.integ.t0 (t - s.shift.getD 0) (m + 2) = _
          congr 1
          grind
        obtain ⟨ig, rows, hcall, hrel⟩ := r.advance S g' _ t hlast' hp (Or.inl hpts)
        simp only [hN, if_false, hm, hcall, hg]
        exact ⟨rfl, hrel⟩

theorem filter_getLast? {α} (l : List α) (p : α → Bool) (x : α) (h : l.getLast? = some x)
    (hx : p x = true) : (l.filter p).getLast? = some x := by
  obtain ⟨ys, rfl⟩ := List.getLast?_eq_some_iff.mp h
  rw [List.filter_append]
  simp [hx]

theorem step_timeCourse {σ} (S : Sys σ) {s : Sim σ} {a : Spec σ} (r : Rel s a) (pts : List Rat) :
    (timeCourse S s pts).2 = (Spec.timeCourse S a pts).2 ∧
      Rel (timeCourse S s pts).1 (Spec.timeCourse S a pts).1 := by
  unfold timeCourse Spec.timeCourse
  by_cases hf : a.failed = true
  · simp [hf, r.errors_pos hf, r]
  · simp only [r.errors_zero hf, hf, if_false, r.reached, Bool.false_eq_true, gen_timeCourseChecksBeforeShift,
      if_true, gen_timeCourseRefusal, decide_eq_true_eq, gen_timeCourseSkipfirst, gen_timeCourseKeep]
    cases hl : pts.getLast? with
    | none => exact ⟨rfl, r⟩
    | some last =>
      simp only
      by_cases hle : last ≤ a.now
      · simp [hle, r]
      · simp only [hle, if_false]
        have hlt : a.now < last := by grind
        obtain ⟨hnow, _⟩ := r.sim
        have hkl : (pts.filter (a.now ≤ ·)).getLast? = some last :=
          filter_getLast? pts _ last hl (by simp; grind)
        generalize hk : pts.filter (a.now ≤ ·) = kept at hkl
        cases kept with
        | nil => simp at hkl
        | cons k0 krest =>
          by_cases hk0 : k0 = a.now
          · -- the kept points start at `now`
            subst hk0
            have hne : krest ≠ [] := by
              intro e; subst e; simp at hkl; grind
            have hlast' : krest.getLast? = some last := by
              rw [List.getLast?_cons] at hkl
              cases hgl : krest.getLast? with
              | none => exact absurd (List.getLast?_eq_none_iff.mp hgl) hne
              | some v => rw [hgl] at hkl; simpa using hkl
            simp only [List.head?_cons, beq_self_eq_true, if_true]
            by_cases hp : (a.now :: krest).Pairwise (· < ·)
            · obtain ⟨ig, rows, hcall, hrel⟩ := r.advance S krest _ last hlast' hp (Or.inl rfl)
              simp only [hcall, (strictInc_iff _).mpr hp, Bool.not_true, Bool.false_eq_true, if_false]
              exact ⟨trivial, hrel⟩
            · have hcall := itc_unsorted S s.pars s.integ s.shift krest
                ((a.now :: krest).map (unshift s.shift)) last hlast' (by rw [hnow]; exact hlt)
                (by rw [hnow]; exact hp) (Or.inl (by rw [hnow]))
              simp only [hcall, (strictInc_false_iff _).mpr hp, Bool.not_false, if_true]
              exact ⟨trivial, r⟩
          · have hhead : ((k0 :: krest).head? == some a.now) = false := by
              simp [hk0]
            simp only [hhead, Bool.false_eq_true, if_false]
            by_cases hp : (a.now :: k0 :: krest).Pairwise (· < ·)
            · obtain ⟨ig, rows, hcall, hrel⟩ :=
                r.advance S (k0 :: krest) _ last hkl hp (Or.inr rfl)
              simp only [hcall, (strictInc_iff _).mpr hp, Bool.not_true, Bool.false_eq_true, if_false]
              exact ⟨trivial, hrel⟩
            · have hcall := itc_unsorted S s.pars s.integ s.shift (k0 :: krest)
                ((k0 :: krest).map (unshift s.shift)) last hkl (by rw [hnow]; exact hlt)
                (by rw [hnow]; exact hp) (Or.inr ⟨rfl, by rw [hnow]; simp [hk0]⟩)
              simp only [hcall, (strictInc_false_iff _).mpr hp, Bool.not_false, if_true]
              exact ⟨trivial, r⟩

theorem step_steady {σ} (S : Sys σ) {s : Sim σ} {a : Spec σ} (r : Rel s a) (res : Option Nat) :
    (steady S s res).2 = (Spec.steady S a res).2 ∧
      Rel (steady S s res).1 (Spec.steady S a res).1 := by
  by_cases hf : a.failed = true
  · simp [steady, Spec.steady, hf, r.errors_pos hf, r]
  · obtain ⟨hnow, hy0⟩ := r.sim
    cases hit : steadyIter res with
    | none =>
      simp only [steady, Spec.steady, r.errors_zero hf, hf, if_false, Bool.false_eq_true,
        integrateToSteadyState_eq, gen_steadySkipfirst, hit]
      refine ⟨trivial, ?_⟩
      exact
        { pars := r.pars, y0 := r.y0, segs := r.segs, failed := by simp,
          inv := ⟨r.inv.none_now, r.inv.some_last⟩, shift_le := r.shift_le,
          shift_none := r.shift_none, shift_eq := r.shift_eq, last_state := r.last_state,
          sim := r.sim }
    | some k =>
      simp only [steady, Spec.steady, r.errors_zero hf, hf, if_false, Bool.false_eq_true,
        integrateToSteadyState_eq, gen_steadySkipfirst, hit]
      have hd := steadyDur_pos k
      generalize steadyDur k = d at hd
      have hrow : shiftRows s.shift [(s.integ.t0 + d, S.flow s.pars d s.integ.y0)]
          = [(a.now + d, S.flow a.pars d a.cur)] := by
        rw [shiftRows_eq, hy0, r.pars]
        simp only [List.map_cons, List.map_nil]
        congr 2
        grind
      refine ⟨trivial, ?_⟩
      refine
        { pars := r.pars, y0 := r.y0, segs := ?_,
          failed := (by show decide (s.errors > 0) = false; simpa using r.errors_zero hf),
          inv := ⟨?_, ?_⟩, shift_le := ?_,
          shift_none := ?_, shift_eq := ?_, last_state := ?_, sim := ?_ }
      · show some (appendSeg s.segs (shiftRows s.shift [(s.integ.t0 + d, S.flow s.pars d s.integ.y0)]) s.pars false) = _
        rw [hrow, r.segs, r.pars]
      · intro hnone; simp at hnone
      · intro l hl
        simp only [Option.some.injEq] at hl
        subst hl
        exact ⟨_, lastRow?_appendSeg_one _ _ _, rfl⟩
      · intro d' hd'
        have := r.shift_le d' hd'
        show d' ≤ a.now + d
        grind
      · intro hnone; simp at hnone
      · intro hsh'
        have := r.shift_le _ hsh'
        exfalso
        revert this
        show ¬ (a.now + d ≤ a.now)
        grind
      · intro l row hl hrow' _
        simp only [Option.some.injEq] at hl
        subst hl
        rw [lastRow?_appendSeg_one] at hrow'
        cases hrow'
        rfl
      · show s.integ.t0 + d + s.shift.getD 0 = a.now + d ∧ S.flow s.pars d s.integ.y0 = S.flow a.pars d a.cur
        rw [hy0, r.pars]
        exact ⟨by grind, rfl⟩

theorem step_updPars {σ} {s : Sim σ} {a : Spec σ} (r : Rel s a) (kvs : Upd) :
    (updPars s kvs).2 = (Spec.updPars a kvs).2 ∧ Rel (updPars s kvs).1 (Spec.updPars a kvs).1 := by
  unfold updPars Spec.updPars
  rw [r.pars]
  refine ⟨rfl, ?_⟩
  exact
    { pars := rfl, y0 := r.y0, segs := r.segs, failed := r.failed,
      inv := ⟨r.inv.none_now, r.inv.some_last⟩, shift_le := r.shift_le, shift_none := r.shift_none,
      shift_eq := r.shift_eq, last_state := r.last_state, sim := r.sim }

theorem step_clear {σ} {s : Sim σ} {a : Spec σ} (r : Rel s a) :
    Rel (clear s) (Spec.clear a) := by
  refine
    { pars := r.pars, y0 := r.y0, segs := rfl, failed := by simp [clear, Spec.clear],
      inv := ⟨fun _ => ⟨rfl, rfl⟩, fun l hl => by simp [Spec.clear] at hl⟩,
      shift_le := fun d hd => by simp [clear] at hd, shift_none := fun _ => by simp [clear],
      shift_eq := fun hsh => by simp [clear] at hsh,
      last_state := fun l _ hl => by simp [Spec.clear] at hl, sim := ?_ }
  show (0 : Rat) + (if Gen.clearResetsShift = true then none else s.shift).getD 0 = 0 ∧ s.y0 = a.y0
  simp only [gen_clearResetsShift, if_true, Option.getD_none]
  exact ⟨by grind, r.y0⟩

theorem step_updVars {σ} (S : Sys σ) {s : Sim σ} {a : Spec σ} (r : Rel s a) (ov : Upd) :
    (updVars S s ov).2 = (Spec.updVars S a ov).2 ∧
      Rel (updVars S s ov).1 (Spec.updVars S a ov).1 := by
  cases hsegs : s.segs with
  | none =>
    have hasegs : a.segs = none := by rw [← r.segs, hsegs]
    obtain ⟨hnow, hcur⟩ := r.inv.none_now hasegs
    have hshift := r.shift_none hasegs
    have hy : S.ov ov s.y0 = S.ov ov a.cur := by rw [r.y0, hcur]
    simp only [updVars, Spec.updVars, hsegs]
    refine ⟨trivial, ?_⟩
    refine
      { pars := r.pars, y0 := hy, segs := by simp only [hasegs], failed := r.failed,
        inv := ⟨fun _ => ⟨hnow, rfl⟩, fun l hl => by simp [hasegs] at hl⟩,
        shift_le := fun d hd => by simp [hshift] at hd, shift_none := fun _ => hshift,
        shift_eq := fun hsh => by simp [hshift] at hsh,
        last_state := fun l _ hl => by simp [hasegs] at hl, sim := ?_ }
    show (0 : Rat) + s.shift.getD 0 = a.now ∧ S.ov ov s.y0 = S.ov ov a.cur
    rw [hshift, hnow]
    exact ⟨by simp; grind, hy⟩
  | some l =>
    have hasegs : a.segs = some l := by rw [← r.segs, hsegs]
    obtain ⟨row, hrow, hrt⟩ := r.inv.some_last l hasegs
    have hbase : (if (Gen.updVarsKeepsAtSameTime && s.shift == some row.1) = true then s.y0 else row.2) = a.cur := by
      simp only [gen_updVarsKeepsAtSameTime, Bool.true_and]
      by_cases hsh : s.shift = some a.now
      · simp [hrt, hsh, r.shift_eq hsh]
      · have : (s.shift == some row.1) = false := by rw [hrt]; simpa using hsh
        simp only [this, Bool.false_eq_true, if_false]
        exact r.last_state l row hasegs hrow hsh
    simp only [updVars, Spec.updVars, hsegs, hrow, hbase]
    refine ⟨trivial, ?_⟩
    refine
      { pars := r.pars, y0 := rfl, segs := by simp only [hasegs], failed := r.failed,
        inv := ⟨fun hn => by simp [hasegs] at hn, fun l' hl' => ?_⟩,
        shift_le := fun d hd => ?_, shift_none := fun hn => by simp [hasegs] at hn,
        shift_eq := fun _ => rfl,
        last_state := fun l' row' _ _ hne => ?_, sim := ?_ }
    · simp only [hasegs, Option.some.injEq] at hl'
      subst hl'
      exact ⟨row, hrow, hrt⟩
    · simp only [Option.some.injEq] at hd
      show d ≤ a.now
      rw [← hd, hrt]
      exact Rat.le_refl
    · exfalso; apply hne; show some row.1 = some a.now; rw [hrt]
    · show (0 : Rat) + (some row.1).getD 0 = a.now ∧ S.ov ov a.cur = S.ov ov a.cur
      rw [Option.getD_some, hrt]
      exact ⟨by grind, rfl⟩

/-! ### a failing solver, scaled parameters -/

/-- what a failing solver changes: nothing when the call raises, else the simulator is failed -/
def failInstead {σ} (s : Sim σ) (x : Out (Sim σ)) : Out (Sim σ) :=
  match x.2 with
  | some e => (s, some e)
  | none => if s.errors > 0 then (s, none) else ({ s with errors := s.errors + 1 }, none)

def Spec.failInstead {σ} (a : Spec σ) (x : Out (Spec σ)) : Out (Spec σ) :=
  match x.2 with
  | some e => (a, some e)
  | none => if a.failed then (a, none) else ({ a with failed := true }, none)

theorem simulateF_eq {σ} (S : Sys σ) (s : Sim σ) (t : Rat) (n : Option Nat) :
    simulateF S s t n = failInstead s (simulate S s t n) := by
  unfold simulateF simulate failInstead
  by_cases he : s.errors > 0
  · simp [he]
  · simp only [he, if_false]
    cases reached? s.segs with
    | error e => rfl
    | ok prior =>
      simp only [gen_simulateChecksBeforeShift, if_true]
      by_cases hr : Gen.simulateRefusal.eval t prior = true
      · simp only [hr, if_true]
      · simp only [hr]
        cases integrate S s.pars s.integ (unshift s.shift t) n with
        | error e => rfl
        | ok r => rfl

theorem timeCourseF_eq {σ} (S : Sys σ) (s : Sim σ) (pts : List Rat) :
    timeCourseF S s pts = failInstead s (timeCourse S s pts) := by
  unfold timeCourseF timeCourse failInstead
  by_cases he : s.errors > 0
  · simp [he]
  · simp only [he, if_false]
    cases reached? s.segs with
    | error e => rfl
    | ok prior =>
      simp only
      cases pts.getLast? with
      | none => rfl
      | some last =>
        simp only [gen_timeCourseChecksBeforeShift, if_true]
        by_cases hr : Gen.timeCourseRefusal.eval last prior = true
        · simp only [hr, if_true]
        · simp only [hr]
          cases integrateTimeCourse S s.pars s.integ
              ((pts.filter fun t => Gen.timeCourseKeep.eval t prior).map (unshift s.shift)) with
          | error e => rfl
          | ok r => rfl

theorem Spec.simulateF_eq {σ} (S : Sys σ) (a : Spec σ) (t : Rat) (n : Option Nat) :
    Spec.simulateF S a t n = Spec.failInstead a (Spec.simulate S a t n) := by
  unfold Spec.simulateF Spec.simulate Spec.failInstead
  by_cases hf : a.failed = true
  · simp [hf]
  · simp only [hf, if_false, Bool.false_eq_true]
    split
    · rfl
    · split <;> rfl

theorem Spec.timeCourseF_eq {σ} (S : Sys σ) (a : Spec σ) (pts : List Rat) :
    Spec.timeCourseF S a pts = Spec.failInstead a (Spec.timeCourse S a pts) := by
  unfold Spec.timeCourseF Spec.timeCourse Spec.failInstead
  by_cases hf : a.failed = true
  · simp [hf]
  · simp only [hf, if_false, Bool.false_eq_true]
    cases pts.getLast? with
    | none => rfl
    | some last =>
      simp only
      split
      · rfl
      · split <;> split <;> rfl

theorem failInstead_refines {σ} {s : Sim σ} {a : Spec σ} (r : Rel s a) (x : Out (Sim σ)) (y : Out (Spec σ))
    (h : x.2 = y.2) :
    (failInstead s x).2 = (Spec.failInstead a y).2 ∧ Rel (failInstead s x).1 (Spec.failInstead a y).1 := by
  unfold failInstead Spec.failInstead
  rw [h]
  cases y.2 with
  | some e => exact ⟨rfl, r⟩
  | none =>
    simp only
    by_cases hf : a.failed = true
    · simp [hf, r.errors_pos hf, r]
    · simp only [r.errors_zero hf, hf, if_false, Bool.false_eq_true]
      refine ⟨trivial, ?_⟩
      exact
        { pars := r.pars, y0 := r.y0, segs := r.segs, failed := by simp,
          inv := ⟨r.inv.none_now, r.inv.some_last⟩, shift_le := r.shift_le, shift_none := r.shift_none,
          shift_eq := r.shift_eq, last_state := r.last_state, sim := r.sim }

theorem step_scalePars {σ} {s : Sim σ} {a : Spec σ} (r : Rel s a) (kvs : Upd) :
    (scalePars s kvs).2 = (Spec.scalePars a kvs).2 ∧ Rel (scalePars s kvs).1 (Spec.scalePars a kvs).1 := by
  unfold scalePars Spec.scalePars
  rw [r.pars]
  refine ⟨rfl, ?_⟩
  exact
    { pars := rfl, y0 := r.y0, segs := r.segs, failed := r.failed,
      inv := ⟨r.inv.none_now, r.inv.some_last⟩, shift_le := r.shift_le, shift_none := r.shift_none,
      shift_eq := r.shift_eq, last_state := r.last_state, sim := r.sim }
/-! ### histories -/

theorem step_refines {σ} (S : Sys σ) {s : Sim σ} {a : Spec σ} (r : Rel s a) (op : Op) :
    (step S s op).2 = (Spec.step S a op).2 ∧ Rel (step S s op).1 (Spec.step S a op).1 := by
  cases op with
  | simulate t n => exact step_simulate S r t n
  | timeCourse pts => exact step_timeCourse S r pts
  | steady res => exact step_steady S r res
  | updPars kvs => exact step_updPars r kvs
  | updVars ov => exact step_updVars S r ov
  | clear => exact ⟨rfl, step_clear r⟩
  | simulateF t n =>
    simp only [step, Spec.step, simulateF_eq, Spec.simulateF_eq]
    exact failInstead_refines r _ _ (step_simulate S r t n).1
  | timeCourseF pts =>
    simp only [step, Spec.step, timeCourseF_eq, Spec.timeCourseF_eq]
    exact failInstead_refines r _ _ (step_timeCourse S r pts).1
  | scalePars kvs => exact step_scalePars r kvs

theorem run_refines {σ} (S : Sys σ) : ∀ (ops : List Op) (s : Sim σ) (a : Spec σ),
    Rel s a →
    (run S s ops).2 = (Spec.run S a ops).2 ∧ Rel (run S s ops).1 (Spec.run S a ops).1
  | [], _, _, r => ⟨rfl, r⟩
  | op :: rest, s, a, r => by
    obtain ⟨he, hr⟩ := step_refines S r op
    obtain ⟨hes, hrs⟩ := run_refines S rest _ _ hr
    simp only [run, Spec.run]
    exact ⟨by rw [he, hes], hrs⟩

end Mxl.C04
