/- soundness of the expression compiler and of a whole model function (used by Props/C08.lean and by the
   round-trip lemmas) -/
import MxlVerif.Lemmas.C08
namespace Mxl.C08
open Gen

/-- The expression compiler is sound: whenever the exporter accepts an expression and Python gives it
    a value, the SBML reading of the exported MathML tree has the same value — in every environment
    and for every interpretation of the transcendental functions. -/
theorem convert_sound (I : Interp) (env : VEnv) :
    ∀ e m v, convert e = .ok m → evalPy I env e = some v → evalMath I env m = some v := by
  refine (renameExpr.mutual_induct
    (motive_1 := fun e => ∀ m v, convert e = .ok m → evalPy I env e = some v → evalMath I env m = some v)
    (motive_2 := fun es => ∀ ms vs, convertList es = .ok ms → evalPyList I env es = some vs →
      evalMathList I env ms = some vs)
    (motive_3 := fun rest => ∀ pm pv ms v, evalMath I env pm = some pv → convertLinks pm rest = .ok ms →
      evalPyLinks I env pv rest = some v → evalAnd I env ms = some v)
    ?name ?const ?unary ?binop ?compare ?ifexp ?call ?attr ?attrDeep ?boolop ?callKw ?other
    ?lnil ?lcons ?nil ?cons).1
  case name =>
    intro id m v hc hp
    simp only [convert, Except.ok.injEq] at hc
    subst hc
    simpa [evalPy, evalMath] using hp
  case const =>
    intro c m v hc hp
    cases c with
    | num q => simp [convert, convertConst] at hc; subst hc; simpa [evalPy, evalMath] using hp
    | bool b =>
      cases b <;> simp [convert, convertConst] at hc <;> subst hc <;> simpa [evalPy, evalMath] using hp
    | other => simp [convert, convertConst] at hc
  case unary =>
    intro op e ih m v hc hp
    simp only [convert] at hc
    obtain ⟨m1, h1, hc⟩ := except_bind_ok hc
    obtain ⟨t, ht, hc⟩ := except_bind_ok hc
    simp only [pure, Except.pure, Except.ok.injEq] at hc
    subst hc
    simp only [evalPy] at hp
    obtain ⟨v1, hv1, hp⟩ := option_bind_some hp
    obtain ⟨hl, ha⟩ := unaryOp_sound I ht hp
    rw [evalMath_strict I env t _ hl]
    simp [evalMathList, ih m1 v1 h1 hv1, ha]
  case binop =>
    intro op l r ihl ihr m v hc hp
    simp only [convert] at hc
    obtain ⟨a, ha, hc⟩ := except_bind_ok hc
    obtain ⟨b, hb, hc⟩ := except_bind_ok hc
    obtain ⟨t, ht, hc⟩ := except_bind_ok hc
    simp only [pure, Except.pure, Except.ok.injEq] at hc
    subst hc
    simp only [evalPy] at hp
    obtain ⟨va, hva, hp⟩ := option_bind_some hp
    obtain ⟨vb, hvb, hp⟩ := option_bind_some hp
    simp only [Option.map_eq_some_iff] at hp
    obtain ⟨q, hq, rfl⟩ := hp
    obtain ⟨hl, hs⟩ := binOp_sound I ht hq
    rw [evalMath_strict I env t _ hl]
    simp [evalMathList, ihl a va ha hva, ihr b vb hb hvb, hs]
  case compare =>
    intro l op r rest ihl ihr ihrest m v hc hp
    simp only [convert] at hc
    obtain ⟨t, ht, hc⟩ := except_bind_ok hc
    obtain ⟨a, ha, hc⟩ := except_bind_ok hc
    obtain ⟨b, hb, hc⟩ := except_bind_ok hc
    obtain ⟨tl, htl, hc⟩ := except_bind_ok hc
    simp only [evalPy] at hp
    obtain ⟨va, hva, hp⟩ := option_bind_some hp
    obtain ⟨vb, hvb, hp⟩ := option_bind_some hp
    obtain ⟨ok, hok, hp⟩ := option_bind_some hp
    obtain ⟨hl, hs⟩ := cmpOp_sound I ht hok
    have hfirst : evalMath I env (.apply t [a, b]) = some (.bool ok) := by
      rw [evalMath_strict I env t _ hl]
      simp [evalMathList, ihl a va ha hva, ihr b vb hb hvb, hs]
    cases tl with
    | nil =>
      simp only [pure, Except.pure, Except.ok.injEq] at hc
      subst hc
      cases rest with
      | nil =>
        cases ok <;> simp [evalPyLinks] at hp <;> subst hp <;> exact hfirst
      | cons lk rest' =>
        obtain ⟨op', e'⟩ := lk
        simp only [convertLinks] at htl
        obtain ⟨_, _, htl⟩ := except_bind_ok htl
        obtain ⟨_, _, htl⟩ := except_bind_ok htl
        obtain ⟨_, _, htl⟩ := except_bind_ok htl
        simp [pure, Except.pure] at htl
    | cons x xs =>
      simp only [pure, Except.pure, Except.ok.injEq] at hc
      subst hc
      rw [evalMath_and, evalAnd_cons, hfirst]
      cases ok with
      | false => simp at hp; subst hp; simp [Val.truthy]
      | true =>
        simp only [if_true] at hp
        have := ihrest b vb (x :: xs) v (ihr b vb hb hvb) htl hp
        simpa [Val.truthy] using this
  case ifexp =>
    intro t b o iht ihb iho m v hc hp
    simp only [convert] at hc
    obtain ⟨c, hcc, hc⟩ := except_bind_ok hc
    obtain ⟨x, hx, hc⟩ := except_bind_ok hc
    obtain ⟨y, hy, hc⟩ := except_bind_ok hc
    simp only [pure, Except.pure, Except.ok.injEq] at hc
    subst hc
    simp only [evalPy] at hp
    obtain ⟨vc, hvc, hp⟩ := option_bind_some hp
    have hch : ifexpChildren c x y = [x, c, y] := rfl
    rw [evalMath_piecewise, hch, evalPieces_three, iht c vc hcc hvc]
    show (if vc.truthy = true then evalMath I env x else evalMath I env y) = some v
    by_cases htr : vc.truthy = true
    · rw [if_pos htr] at hp ⊢
      exact ihb x v hx hp
    · rw [if_neg htr] at hp ⊢
      exact iho y v hy hp
  case call =>
    intro f args ih m v hc hp
    simp only [convert] at hc
    obtain ⟨name, hname, hc1⟩ := except_bind_ok hc
    clear hc
    obtain ⟨⟨t, k, u⟩, hk, hc2⟩ := except_bind_ok hc1
    clear hc1
    obtain ⟨rfl, fn, rfl, hcases⟩ := callKind_ok hk
    dsimp only at hc2
    obtain ⟨ms, hms, hc3⟩ := except_bind_ok hc2
    simp only [pure, Except.pure, Except.ok.injEq] at hc3
    subst hc3
    simp only [evalPy] at hp
    obtain ⟨vs, hvs, hp⟩ := option_bind_some hp
    simp only [Option.map_eq_some_iff] at hp
    obtain ⟨q, hq, rfl⟩ := hp
    have hargs := ih ms vs hms hvs
    -- the Python meaning is that of the bare function name
    have hsem : (pySem fn).bind (·.eval I (vs.map Val.toNum)) = some q := by
      cases f with
      | direct f' =>
        simp only [calleeName, Except.ok.injEq, Option.some.injEq] at hname
        subst hname
        simpa [pyCall] using hq
      | lib p a =>
        simp only [calleeName, Except.ok.injEq] at hname
        split at hname
        · rename_i hp'
          simp only [Option.some.injEq] at hname
          subst hname
          -- `math.remainder` is not accepted, every other `module.name` means what the bare name means
          have hnot : ¬ (p = "math" ∧ a = "remainder") := by
            rintro ⟨rfl, rfl⟩
            rcases hcases with ⟨_, _, hm⟩ | ⟨_, _, him, _⟩ | ⟨_, hm⟩
            · exact (remainder_not_unary_nary t).1 hm
            · simp [calleeIsMath] at him
            · exact (remainder_not_unary_nary t).2 hm
          simpa [pyCall, libParents_sub hp', pySemLib_eq hnot] using hq
        · simp at hname
      | libDeep => simp [calleeName] at hname
      | other => simp [calleeName] at hname
    have hlen : ms.length = args.length ∧ vs.length = args.length :=
      ⟨convertList_length hms, evalPyList_length hvs⟩
    rcases hcases with ⟨rfl, hn, hm⟩ | ⟨rfl, hn, _, hm⟩ | ⟨rfl, hm⟩
    · -- unary
      obtain ⟨hms1, hvs1⟩ := hlen
      rw [hn] at hms1 hvs1
      match ms, vs, hms1, hvs1 with
      | [m1], [v1], _, _ =>
        obtain ⟨hl, hs⟩ := unary_entry_sound I hm hsem
        rw [evalMath_strict I env t _ hl]
        simp only [if_true, unaryChildren]
        simp only [evalMathList] at hargs
        obtain ⟨w1, hw1, hargs⟩ := option_bind_some hargs
        simp at hargs
        subst hargs
        by_cases hlog : (logWithBase && t == MType.fnLog) = true
        · simp only [hlog, if_true] at hs ⊢
          simp [evalMathList, evalMath, hw1, hs]
        · simp only [hlog] at hs ⊢
          have hs' : applyStrict I t [w1] = some (.num q) := by simpa using hs
          simp [evalMathList, hw1, hs']
    · -- binary
      obtain ⟨hms1, hvs1⟩ := hlen
      rw [hn] at hms1 hvs1
      match ms, vs, hms1, hvs1 with
      | [m1, m2], [v1, v2], _, _ =>
        obtain ⟨hl, hs⟩ := binary_entry_sound I hm hsem
        rw [evalMath_strict I env t _ hl]
        simp [hargs, hs]
    · -- n-ary
      obtain ⟨hl, hs⟩ := nary_entry_sound I hm hsem
      rw [evalMath_strict I env t _ hl]
      simp [hargs, hs]
  case attr =>
    intro p a m v hc hp
    simp only [convert, convertAttr] at hc
    by_cases hp' : libParents.contains p = true
    · rw [if_pos hp'] at hc
      cases hl : attrConstTable.lookup a with
      | none => simp [hl] at hc
      | some m' =>
        simp only [hl, Except.ok.injEq] at hc
        subst hc
        have hm := mem_of_lookup hl
        simp only [attrConstTable, List.mem_cons, List.mem_nil_iff, Prod.mk.injEq, or_false] at hm
        simp only [evalPy, pyAttr, libParents_sub hp', if_true] at hp
        rcases hm with ⟨rfl, rfl⟩ | ⟨rfl, rfl⟩ | ⟨rfl, rfl⟩ | ⟨rfl, rfl⟩ <;>
          simp +decide at hp <;> simp [evalMath, hp]
    · rw [if_neg hp'] at hc
      simp at hc
  case attrDeep => intro m v hc; simp [convert] at hc
  case boolop => intro a vals _ m v hc; simp [convert] at hc
  case callKw => intro m v hc; simp [convert] at hc
  case other => intro m v hc; simp [convert] at hc
  case lnil =>
    intro pm pv ms v _ hc hp
    simp [convertLinks] at hc
    subst hc
    simpa [evalPyLinks, evalAnd] using hp
  case lcons =>
    intro op e rest ihe ihrest pm pv ms v hpm hc hp
    simp only [convertLinks] at hc
    obtain ⟨t, ht, hc⟩ := except_bind_ok hc
    obtain ⟨b, hb, hc⟩ := except_bind_ok hc
    obtain ⟨tl, htl, hc⟩ := except_bind_ok hc
    simp only [pure, Except.pure, Except.ok.injEq] at hc
    subst hc
    simp only [evalPyLinks] at hp
    obtain ⟨vb, hvb, hp⟩ := option_bind_some hp
    obtain ⟨ok, hok, hp⟩ := option_bind_some hp
    obtain ⟨hl, hs⟩ := cmpOp_sound I ht hok
    have hfirst : evalMath I env (.apply t [pm, b]) = some (.bool ok) := by
      rw [evalMath_strict I env t _ hl]
      simp [evalMathList, hpm, ihe b vb hb hvb, hs]
    rw [evalAnd_cons, hfirst]
    cases ok with
    | false => simp at hp; subst hp; simp [Val.truthy]
    | true =>
      simp only [if_true] at hp
      have := ihrest b vb tl v (ihe b vb hb hvb) htl hp
      simpa [Val.truthy] using this
  case nil =>
    intro ms vs hc hp
    simp [convertList] at hc
    simp [evalPyList] at hp
    subst hc; subst hp
    simp [evalMathList]
  case cons =>
    intro e es ihe ihes ms vs hc hp
    simp only [convertList] at hc
    obtain ⟨m1, hm1, hc⟩ := except_bind_ok hc
    obtain ⟨ms1, hms1, hc⟩ := except_bind_ok hc
    simp only [pure, Except.pure, Except.ok.injEq] at hc
    subst hc
    simp only [evalPyList] at hp
    obtain ⟨v1, hv1, hp⟩ := option_bind_some hp
    obtain ⟨vs1, hvs1, hp⟩ := option_bind_some hp
    simp only [Option.some.injEq] at hp
    subst hp
    simp [evalMathList, ihe m1 v1 hm1 hv1, ihes ms1 vs1 hms1 hvs1]

/-- A model function (called with the model names `f.args`) and its exported math agree: the value Python
    computes from the arguments' values — the value of the first `return` — is the value the SBML reading
    gives the exported tree in the model's own environment.  Any body: statements after the first `return`
    are never reached (finding F-C08-12, repaired: the last statement used to be exported), a body without
    `return` is refused.  Covers `IdentifierReplacer`, `_handle_body`, `_convert_node`. -/
theorem sbmlifyFn_sound (I : Interp) (env : VEnv) (f : PyFn) (m : MathML) (v : Val)
    (hfree : calleeFreeBody f.params f.body = true)
    (hx : sbmlifyFn f = .ok m) (hv : callFn I env f = some v) : evalMath I env m = some v := by
  unfold sbmlifyFn at hx
  obtain ⟨σ, hσ, hx⟩ := except_bind_ok hx
  have hσ' := zipStrict_eq hσ
  subst hσ'
  have hfirst : bodyFirstReturn = true := rfl
  simp only [handleBody, hfirst, if_true] at hx
  unfold callFn at hv
  split at hv
  · cases hb : f.body with
    | nil => simp [hb, handleBodyFirst] at hx
    | cons s ss =>
      rw [hb] at hx hv hfree
      cases s with
      | other => simp [handleBodyFirst, renameStmt, convertStmt, bind, Except.bind] at hx
      | ret oe =>
        cases oe with
        | none => simp [evalPyBody] at hv
        | some e =>
          simp only [List.map, renameStmt, handleBodyFirst, convertStmt] at hx
          obtain ⟨c, hc, hx⟩ := except_bind_ok hx
          simp only [pure, Except.pure, Except.ok.injEq] at hx
          subst hx
          simp only [calleeFreeBody, List.all_cons, Bool.and_eq_true] at hfree
          simp only [evalPyBody] at hv
          exact convert_sound I env _ _ _ hc (rename_sound I env f.params f.args e v hfree.1 hv)
  · simp at hv

end Mxl.C08

namespace Mxl.C08

/-- `IdentifierReplacer` touches identifiers only: when no parameter is used as a function / module name,
    the renamed expression contains an unsupported construct iff the original does -/
theorem hasUnsupported_rename (ps as : List String) :
    ∀ e, calleeFree ps e = true → hasUnsupported (renameExpr (ps.zip as) e) = hasUnsupported e := by
  refine (renameExpr.mutual_induct
    (motive_1 := fun e => calleeFree ps e = true → hasUnsupported (renameExpr (ps.zip as) e) = hasUnsupported e)
    (motive_2 := fun es => calleeFreeList ps es = true →
      hasUnsupportedList (renameList (ps.zip as) es) = hasUnsupportedList es ∧
      (renameList (ps.zip as) es).length = es.length)
    (motive_3 := fun rest => calleeFreeLinks ps rest = true →
      hasUnsupportedLinks (renameLinks (ps.zip as) rest) = hasUnsupportedLinks rest)
    ?name ?const ?unary ?binop ?compare ?ifexp ?call ?attr ?attrDeep ?boolop ?callKw ?other
    ?lnil ?lcons ?nil ?cons).1
  case name => intro id _; simp [renameExpr, hasUnsupported, unsupportedNode]
  case const => intro c _; simp [renameExpr]
  case unary =>
    intro op e ih hf
    simp only [calleeFree] at hf
    cases op <;> simp [renameExpr, hasUnsupported, unsupportedNode, ih hf]
  case binop =>
    intro op l r ihl ihr hf
    simp only [calleeFree, Bool.and_eq_true] at hf
    simp [renameExpr, hasUnsupported, unsupportedNode, ihl hf.1, ihr hf.2]
  case compare =>
    intro l op r rest ihl ihr ihrest hf
    simp only [calleeFree, Bool.and_eq_true] at hf
    simp [renameExpr, hasUnsupported, unsupportedNode, ihl hf.1.1, ihr hf.1.2, ihrest hf.2]
  case ifexp =>
    intro t b o iht ihb iho hf
    simp only [calleeFree, Bool.and_eq_true] at hf
    simp [renameExpr, hasUnsupported, iht hf.1.1, ihb hf.1.2, iho hf.2]
  case call =>
    intro f args ih hf
    simp only [calleeFree, Bool.and_eq_true] at hf
    have hc : renameCallee (ps.zip as) f = f := by
      cases f with
      | direct f' =>
        simp only [calleeOk, Bool.not_eq_true'] at hf
        simp [renameCallee, renameId_free hf.1]
      | lib p a =>
        simp only [calleeOk, Bool.not_eq_true'] at hf
        simp [renameCallee, renameId_free hf.1]
      | libDeep => rfl
      | other => rfl
    obtain ⟨h1, h2⟩ := ih hf.2
    simp only [renameExpr, hasUnsupported, hc, h1]
    cases f <;> simp [unsupportedNode, h2]
  case attr =>
    intro p a hf
    simp only [calleeFree, Bool.not_eq_true'] at hf
    simp [renameExpr, renameId_free hf]
  case attrDeep => intro _; simp [renameExpr]
  case boolop => intro b vals _ _; simp [renameExpr, hasUnsupported, unsupportedNode]
  case callKw => intro _; simp [renameExpr]
  case other => intro _; simp [renameExpr]
  case lnil => intro _; simp [renameLinks]
  case lcons =>
    intro op e rest ihe ihrest hf
    simp only [calleeFreeLinks, Bool.and_eq_true] at hf
    simp [renameLinks, hasUnsupportedLinks, ihe hf.1, ihrest hf.2]
  case nil => intro _; simp [renameList]
  case cons =>
    intro e es ihe ihes hf
    simp only [calleeFreeList, Bool.and_eq_true] at hf
    obtain ⟨h1, h2⟩ := ihes hf.2
    simp [renameList, hasUnsupportedList, ihe hf.1, h1, h2]

end Mxl.C08
