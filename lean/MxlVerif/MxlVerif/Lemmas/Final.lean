/-
End to end: the environment `_get_args` builds for any state and time agrees with the time-zero
environment on every name of the parameter closure (`all_parameter_names`), so the frozen
static coefficients are the values their functions have at that state too, and `Model.__call__`
returns, per variable, Σ over all reaction / surrogate fluxes of coefficient × flux read from
that one environment.
-/
import MxlVerif.Lemmas.Tables
import MxlVerif.Props.C01
namespace Mxl

/-- Parameter names are dict keys (distinct) and are not variable names, data names or `time`
    (guaranteed by the shared name space `Model._ids`). -/
structure ParNamesDistinct (c : Content) : Prop where
  nodup : (omKeys c.pars).Nodup
  notVar : ∀ k ∈ omKeys c.pars, k ∉ omKeys c.vars
  notData : ∀ k ∈ omKeys c.pars, k ∉ omKeys c.data
  notTime : "time" ∉ omKeys c.pars

/-! ### lookup values in `baseEnv` and `omUnion` -/

theorem lookup_none_of_not_mem_keys_F {β} {l : List (Name × β)} {k : Name} (h : k ∉ omKeys l) :
    l.lookup k = none := by
  rw [List.lookup_eq_none_iff]
  intro p hp
  simp only [bne_iff_ne, ne_eq]
  intro heq
  exact h (List.mem_map.mpr ⟨p, hp, heq.symm⟩)

theorem lookup_reverse_nodup {β} (l : List (Name × β)) (hnd : (omKeys l).Nodup) (k : Name) :
    l.reverse.lookup k = l.lookup k := by
  cases h : l.lookup k with
  | none =>
    rw [List.lookup_eq_none_iff] at h ⊢
    intro p hp
    exact h p (List.mem_reverse.mp hp)
  | some v =>
    apply lookup_of_mem
    · rw [List.map_reverse]
      exact (List.reverse_perm _).nodup_iff.mpr hnd
    · exact List.mem_reverse.mpr (mem_of_lookup h)

/-- a name that is not `time`, a data key or a variable key is looked up among the parameters -/
theorem baseEnv_lookup_par (pars vars data : List (Name × Rat)) (t : Rat) (k : Name)
    (hnd : (omKeys pars).Nodup) (h1 : k ≠ "time") (h2 : k ∉ omKeys data) (h3 : k ∉ omKeys vars) :
    (baseEnv pars vars data t).lookup k = pars.lookup k := by
  have hk : (k == "time") = false := by simpa using h1
  have hd : data.reverse.lookup k = none := by
    apply lookup_none_of_not_mem_keys_F
    simpa [omKeys] using h2
  have hvv : vars.reverse.lookup k = none := by
    apply lookup_none_of_not_mem_keys_F
    simpa [omKeys] using h3
  unfold baseEnv
  rw [List.lookup_cons, hk]
  simp only [List.lookup_append, hd, hvv, Option.none_or]
  exact lookup_reverse_nodup pars hnd k

theorem nodup_keys_omInsert {β} (k : Name) (v : β) :
    ∀ m : List (Name × β), (omKeys m).Nodup → (omKeys (omInsert m k v)).Nodup := by
  intro m
  induction m with
  | nil => intro _; simp [omInsert, omKeys]
  | cons y ys ih =>
    intro h
    obtain ⟨k', v'⟩ := y
    unfold omInsert
    by_cases hk : k' = k
    · subst hk; simpa [omKeys] using h
    · have hkk : (k' == k) = false := by simpa using hk
      simp only [hkk, Bool.false_eq_true, if_false]
      have h' : k' ∉ omKeys ys ∧ (omKeys ys).Nodup := by
        simpa [omKeys] using h
      show (k' :: omKeys (omInsert ys k v)).Nodup
      rw [List.nodup_cons]
      refine ⟨?_, ih h'.2⟩
      rw [mem_keys_omInsert]
      rintro (h1 | h1)
      · exact hk h1
      · exact h'.1 h1

theorem nodup_keys_omUnion {β} : ∀ (b a : List (Name × β)), (omKeys a).Nodup →
    (omKeys (omUnion a b)).Nodup := by
  intro b
  induction b with
  | nil => intro a h; exact h
  | cons y ys ih =>
    intro a h
    have : omUnion a (y :: ys) = omUnion (omInsert a y.1 y.2) ys := rfl
    rw [this]
    exact ih _ (nodup_keys_omInsert _ _ a h)

/-- `(a | b)[x]` is `b[x]` when present, else `a[x]` -/
theorem lookup_omUnion {β} : ∀ (b a : List (Name × β)), (omKeys b).Nodup → ∀ x,
    (omUnion a b).lookup x = (b.lookup x).or (a.lookup x) := by
  intro b
  induction b with
  | nil => intro a _ x; rfl
  | cons y ys ih =>
    intro a h x
    obtain ⟨k, v⟩ := y
    have heq : omUnion a ((k, v) :: ys) = omUnion (omInsert a k v) ys := rfl
    have h' : k ∉ omKeys ys ∧ (omKeys ys).Nodup := by simpa [omKeys] using h
    rw [heq, ih _ h'.2 x, lookup_omInsert, List.lookup_cons]
    by_cases hx : x = k
    · subst hx
      simp [lookup_none_of_not_mem_keys_F h'.1]
    · have : (x == k) = false := by simpa using hx
      simp [hx, this]

theorem plainOf_keys_sublist : ∀ m : List (Name × Val), (omKeys (plainOf m)).Sublist (omKeys m) := by
  intro m
  induction m with
  | nil => exact List.Sublist.refl _
  | cons y ys ih =>
    obtain ⟨k, val⟩ := y
    cases val with
    | plain v =>
      have : plainOf ((k, Val.plain v) :: ys) = (k, v) :: plainOf ys := by
        simp [plainOf]
      rw [this]
      exact ih.cons_cons k
    | ia f =>
      have : plainOf ((k, Val.ia f) :: ys) = plainOf ys := by
        simp [plainOf]
      rw [this]
      exact ih.cons k

/-! ### (a) the per-state environment agrees with the time-zero one on the parameter closure -/

/-- **frozen values are current values.**  For any supplied state and time, the environment
    `_get_args` builds binds every name of `all_parameter_names` (plain parameters,
    assignment-defined parameters, derived parameters) to the value it has in the environment
    `_create_cache` evaluated at time zero. -/
theorem getArgsEnv_agrees_on_apn {c : Content} (hwf : WFd c) (hpn : ParNamesDistinct c)
    {cache : Cache} (hc : createCache c = .ok cache) (vars : List (Name × Rat))
    (hv : vars.map (·.1) = omKeys c.vars) (t : Rat) {env : Env}
    (h : getArgsEnv c cache vars t = .ok env) {dependent : Env}
    (hdep : evalInOrder c.toSort cache.order
      (baseEnv (plainOf c.pars) (plainOf c.vars) c.data 0) = .ok dependent) :
    ∀ a ∈ (classify c cache.order [] [] (omKeys c.pars)).2.2,
      env.lookup a = dependent.lookup a := by
  obtain ⟨_, hframeE⟩ := getArgs_consistent hwf hc vars hv t h
  obtain ⟨dep0, _, hframe0, _, _, hev0, hperm, _⟩ := createCache_consistent hwf.toWFc hc
  rw [hdep] at hev0
  cases hev0
  obtain ⟨order, dependent', st, dst, init, extra, _, h2, _, _, h5, hcache⟩ := createCache_ok hc
  have horder : cache.order = order := by rw [hcache]
  rw [horder] at hperm hdep ⊢
  rw [h2] at hdep
  cases hdep
  obtain ⟨S, D, A, heq, hS, hD, hcov, hdyn, hstat, hnew, _, hdisj⟩ :=
    classify_spec c order [] [] (omKeys c.pars) (fun a ha => Or.inl ha)
  have hdynO : cache.dynOrder = D := by rw [hcache, heq]; simp
  have hstatO : (classify c order [] [] (omKeys c.pars)).1 = S := by rw [heq]; simp
  have hallP : cache.allPars = omUnion (plainOf c.pars) extra := by rw [hcache]
  rw [hdynO, hallP] at hframeE
  obtain ⟨hextraK, hextraV⟩ := mapM_get_spec dependent _ _ h5
  rw [hstatO] at hextraK
  have hordNd : order.Nodup := hperm.nodup_iff.mpr hwf.keysNodup
  have hprovNd : (order.flatMap (providedOf c.toSort)).Nodup :=
    (hperm.flatMap_right _).nodup_iff.mpr hwf.provNodup
  have hordKeys : ∀ k ∈ order, k ∈ omKeys c.toSort := fun k hk => hperm.mem_iff.mp hk
  have hDnotVP : ∀ k ∈ D, isVP c k = false := by
    intro k hk
    rcases hdyn k hk with h1 | ⟨h1, _⟩
    · exact hwf.rsNotVP k h1
    · exact h1
  have hSself : ∀ k ∈ S, providedOf c.toSort k = [k] := by
    intro k hk
    obtain ⟨v, hv'⟩ := lookup_isSome_of_mem_keys (hordKeys k (hS.subset hk))
    obtain ⟨hrs, hk2⟩ := hstat k hk
    rcases hk2 with hvp | ⟨d, hd, _⟩
    · simp only [providedOf, hv']
      exact hwf.vpSelf k v hvp hv'
    · by_cases hvp : isVP c k = true
      · simp only [providedOf, hv']
        exact hwf.vpSelf k v hvp hv'
      · have := hwf.derivedIn k d hd (by simpa using hvp) hrs
        simp [providedOf, this, Comp.provided]
  have hprovEq : D.flatMap (providedOf c.containers) = D.flatMap (providedOf c.toSort) :=
    flatMap_congr' _ _ D (fun k hk => by
      simp [providedOf, hwf.contOfNonVP k (hDnotVP k hk)])
  have hSprov : ∀ k ∈ S, k ∈ (omKeys c.toSort).flatMap (providedOf c.toSort) := by
    intro k hk
    exact List.mem_flatMap.mpr ⟨k, hordKeys k (hS.subset hk), by rw [hSself k hk]; simp⟩
  have hDprov : ∀ p ∈ D.flatMap (providedOf c.containers),
      p ∈ (omKeys c.toSort).flatMap (providedOf c.toSort) := by
    intro p hp
    rw [hprovEq] at hp
    obtain ⟨k, hkD, hpk⟩ := List.mem_flatMap.mp hp
    exact List.mem_flatMap.mpr ⟨k, hordKeys k (hD.subset hkD), hpk⟩
  have hplainNd : (omKeys (plainOf c.pars)).Nodup := (plainOf_keys_sublist c.pars).nodup hpn.nodup
  have hextraNd : (omKeys extra).Nodup := by
    simp only [omKeys]
    rw [hextraK]
    exact (List.filter_sublist.trans hS).nodup hordNd
  have hallNd : (omKeys (omUnion (plainOf c.pars) extra)).Nodup :=
    nodup_keys_omUnion extra _ hplainNd
  have hvarsK : omKeys vars = omKeys c.vars := by simpa [omKeys] using hv
  -- static names that are not variables: read from `extra`
  have hstatic : ∀ a ∈ S, a ∉ omKeys c.vars → env.lookup a = dependent.lookup a := by
    intro a haS hnv
    have hna : a ∉ c.available := hwf.provFresh a (hSprov a haS)
    simp only [Content.available, List.mem_append, List.mem_singleton, not_or] at hna
    have hnotD : a ∉ D.flatMap (providedOf c.containers) := by
      rw [hprovEq]
      intro hp
      obtain ⟨k, hkD, hpk⟩ := List.mem_flatMap.mp hp
      have : k = a := nodup_flatMap_inj order hprovNd k (hD.subset hkD) a (hS.subset haS) a hpk
        (by rw [hSself a haS]; simp)
      subst this
      exact hdisj hordNd k haS hkD
    have hmemE : a ∈ omKeys extra := by
      simp only [omKeys]
      rw [hextraK]
      exact List.mem_filter.mpr ⟨haS, by simpa [List.contains_iff_mem] using hnv⟩
    obtain ⟨v, hlv⟩ := lookup_isSome_of_mem_keys hmemE
    have hdv := hextraV (a, v) (mem_of_lookup hlv)
    rw [hframeE a hnotD,
      baseEnv_lookup_par _ _ _ t a hallNd hna.2 hna.1.2 (by rw [hvarsK]; exact hnv),
      lookup_omUnion extra _ hextraNd a, hlv, hdv]
    rfl
  -- plain parameters: read from the declared values in both environments
  have hplain : ∀ a ∈ omKeys (plainOf c.pars), env.lookup a = dependent.lookup a := by
    intro a ha
    have haP : a ∈ omKeys c.pars := (plainOf_keys_sublist c.pars).subset ha
    have hav : a ∈ c.available := by simp [Content.available, ha]
    have hnp : a ∉ (omKeys c.toSort).flatMap (providedOf c.toSort) :=
      fun hm => hwf.provFresh a hm hav
    have hnt : a ≠ "time" := fun heq => hpn.notTime (heq ▸ haP)
    have hnE : a ∉ omKeys extra := by
      simp only [omKeys]
      rw [hextraK]
      intro hm
      exact hnp (hSprov a (List.mem_filter.mp hm).1)
    rw [hframeE a (fun hm => hnp (hDprov a hm)), hframe0 a hnp,
      baseEnv_lookup_par _ _ _ t a hallNd hnt (hpn.notData a haP)
        (by rw [hvarsK]; exact hpn.notVar a haP),
      baseEnv_lookup_par _ _ _ 0 a hplainNd hnt (hpn.notData a haP)
        (fun hm => hpn.notVar a haP ((plainOf_keys_sublist c.vars).subset hm)),
      lookup_omUnion extra _ hextraNd a, lookup_none_of_not_mem_keys_F hnE]
    rfl
  rw [heq]
  intro a ha
  rcases List.mem_append.mp ha with hA | hP
  · obtain ⟨haS, _, hvp⟩ := hnew a hA
    apply hstatic a haS
    intro hm
    have : isVP c a = true := by
      simp only [isVP, Bool.or_eq_true, List.contains_iff_mem]; exact Or.inl hm
    rw [hvp] at this; cases this
  · by_cases hpl : a ∈ omKeys (plainOf c.pars)
    · exact hplain a hpl
    · have hvp : isVP c a = true := by
        simp only [isVP, Bool.or_eq_true, List.contains_iff_mem]; exact Or.inr hP
      have hnv := hpn.notVar a hP
      have haO : a ∈ order := by
        rcases hwf.iaSorted a hvp with h1 | h1 | h1
        · exact absurd ((plainOf_keys_sublist c.vars).subset h1) hnv
        · exact absurd h1 hpl
        · exact hperm.mem_iff.mpr h1
      have haS : a ∈ S := by
        rcases hcov a haO with h1 | h1 | ⟨_, h1, _⟩
        · exact h1
        · have := hDnotVP a h1
          rw [hvp] at this; cases this
        · rw [hvp] at h1; cases h1
      exact hstatic a haS hnv

/-! ### (b) `Model.__call__` is N·v -/

/-- **the derivative vector is stoichiometry × fluxes.**  Whenever `Model.__call__(t, xs)`
    returns `d`, there is one environment `env` — the argument table `_get_args` builds for that
    state and time, in which (by `getArgs_consistent`) every flux, derived quantity and surrogate
    output is its function of the values its arguments have in `env` — such that the entry of
    each variable `x` is Σ over all reaction and surrogate fluxes, over the entries of their
    stoichiometry naming `x`, of coefficient (numeric, or its function evaluated in `env`) × flux
    value in `env`. -/
theorem callRhs_is_Nv {c : Content} (hwf : WFd c) (hpn : ParNamesDistinct c)
    (hflux : (omKeys c.allStoich).Nodup)
    (hcpd : ∀ flux s, (flux, s) ∈ c.allStoich → (omKeys s).Nodup)
    {t : Rat} {xs d : List Rat} (h : callRhs c t xs = .ok d) :
    ∃ cache env, createCache c = .ok cache ∧
      getArgsEnv c cache (cache.varNames.zip xs) t = .ok env ∧
      d = (omKeys c.vars).map (fun x => totalOf env x c.allStoich) := by
  obtain ⟨cache, env, hc, hvn, hlen, hargs, hd⟩ := C01.C01_rhs_is_sum c t xs d h
  refine ⟨cache, env, hc, hargs, ?_⟩
  obtain ⟨dependent, hdep, htab⟩ := createCache_tables_of_agree hc hflux hcpd
  have hv : (cache.varNames.zip xs).map (·.1) = omKeys c.vars := by
    rw [zip_keys _ _ hlen, hvn]
  have hag := getArgsEnv_agrees_on_apn hwf hpn hc _ hv t hargs hdep
  rw [hd]
  apply List.map_congr_left
  intro x _
  exact htab env x hag

end Mxl
