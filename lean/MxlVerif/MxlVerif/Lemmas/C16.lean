/-
Helper lemmas for C16 (core Lean only).
-/
import MxlVerif.Model.C16
import MxlVerif.Lemmas.C05Keys
namespace Mxl.C16
open Mxl.C05

/-! ### `_map_substrates_to_labelmap` -/

/-- what the assignment loop leaves behind -/
theorem assignSlots_spec (res subs : List Slot) (lm : List Nat) (hlen : subs.length = lm.length)
    (hlt : ∀ p ∈ lm, p < res.length) :
    ∃ res', assignSlots res subs lm = .ok res' ∧ res'.length = res.length ∧
      (∀ q, q ∉ lm → res'[q]? = res[q]?) ∧
      (lm.Nodup → ∀ j, j < lm.length → res'[lm.getD j 0]? = subs[j]?) := by
  induction subs generalizing res lm with
  | nil =>
    cases lm with
    | nil => exact ⟨res, rfl, rfl, fun _ _ => rfl, fun _ j hj => by simp at hj⟩
    | cons p ps => simp at hlen
  | cons s ss ih =>
    cases lm with
    | nil => simp at hlen
    | cons p ps =>
      simp only [List.length_cons, Nat.add_right_cancel_iff] at hlen
      have hp : p < res.length := hlt p List.mem_cons_self
      obtain ⟨res', hok, hl, hun, hnd⟩ := ih (res.set p s) ps hlen (by
        intro q hq; simp only [List.length_set]; exact hlt q (List.mem_cons_of_mem _ hq))
      refine ⟨res', by simp only [assignSlots, hp, if_true]; exact hok, by simpa using hl, ?_, ?_⟩
      · intro q hq
        simp only [List.mem_cons, not_or] at hq
        rw [hun q hq.2, List.getElem?_set]
        rw [if_neg (fun e : p = q => hq.1 e.symm)]
      · intro hnod j hj
        simp only [List.nodup_cons] at hnod
        cases j with
        | zero =>
          simp only [List.getD_cons_zero, List.getElem?_cons_zero]
          rw [hun p hnod.1, List.getElem?_set]
          simp [hp]
        | succ j =>
          simp only [List.getD_cons_succ, List.getElem?_cons_succ]
          exact hnd hnod.2 j (by simpa using hj)

/-- the map is a permutation of the padded positions `0 .. n-1` -/
def PermMap (n : Nat) (lm : List Nat) : Prop := lm.Perm (List.range n)

instance (n : Nat) (lm : List Nat) : Decidable (PermMap n lm) := by unfold PermMap; infer_instance

/-- … and its own inverse (excludes exactly finding F-C16-1) -/
def InvolutiveMap (n : Nat) (lm : List Nat) : Prop :=
  PermMap n lm ∧ (List.range n).all fun q => lm.getD (lm.getD q 0) 0 == q

instance (n : Nat) (lm : List Nat) : Decidable (InvolutiveMap n lm) := by
  unfold InvolutiveMap; infer_instance

theorem PermMap.length {n : Nat} {lm : List Nat} (h : PermMap n lm) : lm.length = n := by
  have := List.Perm.length_eq h; simpa using this

theorem PermMap.lt {n : Nat} {lm : List Nat} (h : PermMap n lm) : ∀ p ∈ lm, p < n := by
  intro p hp; have := (List.Perm.mem_iff h).mp hp; simpa using this

theorem PermMap.nodup {n : Nat} {lm : List Nat} (h : PermMap n lm) : lm.Nodup :=
  (List.Perm.nodup_iff h).mpr List.nodup_range

/-- for a permutation map the loop succeeds and writes substrate `j` to position `lm[j]` -/
theorem mapSubstratesToLabelmap_perm (subs : List Slot) (lm : List Nat) (h : PermMap subs.length lm) :
    ∃ res, mapSubstratesToLabelmap subs lm = .ok res ∧ res.length = subs.length ∧
      ∀ j, j < subs.length → res[lm.getD j 0]? = subs[j]? := by
  obtain ⟨res, hok, hl, _, hnd⟩ := assignSlots_spec (List.replicate subs.length Slot.ext) subs lm
    h.length.symm (by simpa using h.lt)
  exact ⟨res, hok, by simpa using hl, fun j hj => hnd h.nodup j (by rw [h.length]; exact hj)⟩

theorem map_getD_range {α} (l : List α) (d : α) : (List.range l.length).map (fun i => l.getD i d) = l := by
  apply List.ext_getElem (by simp)
  intro i h1 h2
  simp [List.getD_eq_getElem?_getD, List.getElem?_eq_getElem h2]

/-- … so the result is a rearrangement of the (padded) substrate positions -/
theorem mapSubstratesToLabelmap_perm_count (subs : List Slot) (lm : List Nat)
    (h : PermMap subs.length lm) {res : List Slot} (hok : mapSubstratesToLabelmap subs lm = .ok res) :
    res.Perm subs := by
  obtain ⟨res', hok', hl, hj⟩ := mapSubstratesToLabelmap_perm subs lm h
  rw [hok] at hok'; cases hok'
  have e : subs = lm.map (fun i => res.getD i Slot.ext) := by
    apply List.ext_getElem (by simp [h.length])
    intro j h1 h2
    have := hj j h1
    simp only [List.getElem_map]
    have hlj : j < lm.length := by rw [h.length]; exact h1
    have hd : lm.getD j 0 = lm[j] := by simp [List.getD_eq_getElem?_getD, List.getElem?_eq_getElem hlj]
    rw [hd, List.getElem?_eq_getElem h1] at this
    simp [List.getD_eq_getElem?_getD, this]
  have p1 : (lm.map fun i => res.getD i Slot.ext).Perm ((List.range subs.length).map fun i => res.getD i Slot.ext) :=
    List.Perm.map _ h
  rw [← e, ← hl, map_getD_range] at p1
  exact p1.symm


theorem InvolutiveMap.spec {n : Nat} {lm : List Nat} (h : InvolutiveMap n lm) :
    ∀ q, q < n → lm.getD (lm.getD q 0) 0 = q := by
  intro q hq
  have := List.all_eq_true.mp h.2 q (by simpa using hq)
  simpa using this

theorem PermMap.getD_lt {n : Nat} {lm : List Nat} (h : PermMap n lm) {q : Nat} (hq : q < n) :
    lm.getD q 0 < n := by
  have hl : q < lm.length := by rw [h.length]; exact hq
  have : lm.getD q 0 = lm[q] := by simp [List.getD_eq_getElem?_getD, List.getElem?_eq_getElem hl]
  rw [this]; exact h.lt _ (List.getElem_mem hl)

/-- for an involutive map the linear mapper's sources are the documented ones -/
theorem mapSubstratesToLabelmap_involutive (subs : List Slot) (lm : List Nat)
    (h : InvolutiveMap subs.length lm) :
    mapSubstratesToLabelmap subs lm = .ok (documentedSources subs lm) := by
  obtain ⟨res, hok, hl, hj⟩ := mapSubstratesToLabelmap_perm subs lm h.1
  rw [hok]
  congr 1
  apply List.ext_getElem (by simp [documentedSources, hl, h.1.length])
  intro q h1 h2
  have hq : q < subs.length := by rw [← hl]; exact h1
  have hjl := h.1.getD_lt hq
  have := hj (lm.getD q 0) hjl
  rw [h.spec q hq, List.getElem?_eq_getElem h1, List.getElem?_eq_getElem hjl] at this
  have hql : q < lm.length := by rw [h.1.length]; exact hq
  have hd : lm.getD q 0 = lm[q] := by simp [List.getD_eq_getElem?_getD, List.getElem?_eq_getElem hql]
  simp only [documentedSources, List.getElem_map]
  simp only [Option.some.injEq] at this
  rw [this]
  have hjl' : lm[q] < subs.length := hd ▸ hjl
  simp [List.getD_eq_getElem?_getD, List.getElem?_eq_getElem hql, List.getElem?_eq_getElem hjl']

/-! ### `_map_labelmap_to_substrates` -/

theorem pickSlots_iff (subs xs : List Slot) (lm : List Nat) (res : List Slot) :
    pickSlots subs xs lm = .ok res ↔
      lm.length = xs.length ∧ (∀ p ∈ lm, p < subs.length) ∧ res = documentedSources subs lm := by
  induction xs generalizing lm res with
  | nil =>
    cases lm with
    | nil => simp [pickSlots, documentedSources, eq_comm]
    | cons p ps => simp [pickSlots]
  | cons x xs ih =>
    cases lm with
    | nil => simp [pickSlots]
    | cons p ps =>
      simp only [pickSlots]
      by_cases hp : p < subs.length
      · rw [List.getElem?_eq_getElem hp]
        simp only []
        cases hrest : pickSlots subs xs ps with
        | error e =>
          simp only [bind, Except.bind, reduceCtorEq, false_iff, not_and]
          intro hl hall _
          have := (ih ps (documentedSources subs ps)).mpr
            ⟨by simpa using hl, fun q hq => hall q (List.mem_cons_of_mem _ hq), rfl⟩
          rw [hrest] at this; cases this
        | ok rest =>
          have hr := (ih ps rest).mp hrest
          simp only [bind, Except.bind, pure, Except.pure, Except.ok.injEq, List.length_cons,
            Nat.add_right_cancel_iff, List.mem_cons, forall_eq_or_imp]
          have hd : documentedSources subs (p :: ps) = subs[p] :: documentedSources subs ps := by
            simp [documentedSources, List.getD_eq_getElem?_getD, List.getElem?_eq_getElem hp]
          rw [hd]
          constructor
          · rintro rfl
            exact ⟨hr.1, ⟨hp, hr.2.1⟩, by rw [hr.2.2]⟩
          · rintro ⟨_, _, rfl⟩
            rw [hr.2.2]
      · rw [List.getElem?_eq_none (Nat.le_of_not_lt hp)]
        simp only [reduceCtorEq, List.mem_cons, forall_eq_or_imp, false_iff, not_and]
        intro _ h; exact absurd h.1 hp

/-- the fixed mapper reads a map the documented way, and accepts exactly the maps of the padded
    length whose indices are positions -/
theorem mapLabelmapToSubstrates_iff (subs : List Slot) (lm : List Nat) (res : List Slot) :
    mapLabelmapToSubstrates subs lm = .ok res ↔
      lm.length = subs.length ∧ (∀ p ∈ lm, p < subs.length) ∧ res = documentedSources subs lm :=
  pickSlots_iff subs subs lm res

theorem mapLabelmapToSubstrates_perm (subs : List Slot) (lm : List Nat) (h : PermMap subs.length lm) :
    mapLabelmapToSubstrates subs lm = .ok (documentedSources subs lm) :=
  (mapLabelmapToSubstrates_iff subs lm _).mpr ⟨h.length, h.lt, rfl⟩

/-- for a permutation map the documented sources are a rearrangement of the padded substrate positions -/
theorem documentedSources_perm (subs : List Slot) (lm : List Nat) (h : PermMap subs.length lm) :
    (documentedSources subs lm).Perm subs := by
  have p1 : (lm.map fun i => subs.getD i Slot.ext).Perm
      ((List.range subs.length).map fun i => subs.getD i Slot.ext) := List.Perm.map _ h
  rw [map_getD_range] at p1
  exact p1

/-! ### the right-hand side as a sum over slot pairs -/

/-- contribution of the slot pair (substrate `s`, product `p`) to the derivative of `x` -/
def pairTerm (E : Slot → Rat) (f : Rat) (C : Name → Rat) (x s p : Slot) : Rat :=
  ((if s = x ∧ x ≠ Slot.ext then -1 / C x.base else 0)
    + (if p = x ∧ x ≠ Slot.ext then 1 / C x.base else 0)) * (E s * f)

theorem pairTerm_same (E : Slot → Rat) (f : Rat) (C : Name → Rat) (x s : Slot) :
    pairTerm E f C x s s = 0 := by
  unfold pairTerm
  by_cases h : s = x ∧ x ≠ Slot.ext
  · rw [if_pos h, if_pos h]
    have : -1 / C x.base + 1 / C x.base = 0 := by
      rw [Rat.div_def, Rat.div_def]; grind
    rw [this]; grind
  · rw [if_neg h, if_neg h]; grind

/-- skipping the pairs with equal substrate and product changes nothing -/
theorem linRhs_slotRxns (rxn : Name) (i : Nat) (subs prods : List Slot) (E : Slot → Rat)
    (v : Name → Rat) (C : Name → Rat) (x : Slot) :
    linRhs (slotRxns rxn i subs prods) E v C x
      = ((subs.zip prods).map fun sp => pairTerm E (v rxn) C x sp.1 sp.2).sum := by
  induction subs generalizing i prods with
  | nil => simp [slotRxns, linRhs]
  | cons s ss ih =>
    cases prods with
    | nil => simp [slotRxns, linRhs]
    | cons p ps =>
      simp only [slotRxns, List.zip_cons_cons, List.map_cons, List.sum_cons]
      by_cases h : s = p
      · subst h
        rw [if_pos rfl, ih, pairTerm_same]; grind
      · rw [if_neg h]
        have := ih (i + 1) ps
        simp only [linRhs, List.map_cons, List.sum_cons] at this ⊢
        rw [this]
        rfl

/-! ### weighted collapse -/

theorem sumBlocks_congr {ns : List Nat} {G G' : List Label → Rat} (h : ∀ b, G b = G' b) :
    sumBlocks ns G = sumBlocks ns G' := by
  have : G = G' := funext h
  rw [this]

theorem sumBlocks_mul_left (ns : List Nat) (k : Rat) (G : List Label → Rat) :
    sumBlocks ns (fun b => k * G b) = k * sumBlocks ns G := by
  induction ns generalizing G with
  | nil => rfl
  | cons n ns ih =>
    simp only [sumBlocks]
    rw [← sumMap_mul_left]
    apply sumMap_congr
    intro u _
    exact ih (fun rest => G (u :: rest))

/-- for a labelled head occurrence, the head block renames exactly the argument `s` -/
theorem argOf_cons_upd (ss : List Name) (s : Name) (hs : s ∉ ss) (u : Label) (hu : u ≠ [])
    (rest : List Label) (args : List Name) (σ : LName → Rat) :
    listProd (args.map fun a => σ (argOf (s :: ss) (u :: rest) a))
      = listProd (args.map fun a => (upd σ (plain s) (σ ⟨s, some u⟩)) (argOf ss rest a)) := by
  congr 1
  apply List.map_congr_left
  intro a _
  simp only [argOf]
  by_cases e : s = a
  · subst e
    simp [hu, argOf_not_mem hs, upd]
  · have hb : argOf ss rest a ≠ plain s := by
      intro hh
      have := argOf_base ss rest a
      rw [hh] at this
      exact e (by simpa [plain] using this)
    simp [e, upd, hb]

theorem baseVal_upd (lv : List (Name × Nat)) (σ : LName → Rat) (s : Name) (ss : List Name)
    (hs : s ∉ ss) (v : Rat) (a : Name) :
    baseVal lv (upd σ (plain s) v) ss a = if a = s then v else baseVal lv σ (s :: ss) a := by
  by_cases e : a = s
  · subst e
    simp [baseVal, hs, upd]
  · have hne : plain a ≠ plain s := by simpa [plain] using e
    rw [if_neg e]
    simp only [baseVal, List.mem_cons, e, false_or]
    by_cases hl : a ∈ ss ∧ labelsOf lv a > 0
    · rw [if_pos hl, if_pos hl, totalOf_upd_plain _ _ _ _ hl.2]
    · rw [if_neg hl, if_neg hl]; simp [upd, hne]

theorem baseVal_cons_unlabelled (lv : List (Name × Nat)) (σ : LName → Rat) (s : Name)
    (ss : List Name) (hn : labelsOf lv s = 0) (a : Name) :
    baseVal lv σ (s :: ss) a = baseVal lv σ ss a := by
  simp only [baseVal, List.mem_cons]
  by_cases e : a = s
  · subst e; simp [hn]
  · simp [e]

theorem margOf_upd_plain (σ : LName → Rat) (s x : Name) (v : Rat) (n i : Nat) :
    margOf (upd σ (plain s) v) x n i = margOf σ x n i := by
  unfold margOf
  apply sumMap_congr
  intro u _
  simp [upd, plain]

/-- scaling the single factor that belongs to `s` scales the product -/
theorem prod_scale_once (args : List Name) (s : Name) (hc : args.count s = 1) (w x : Rat)
    (K : Name → Rat) :
    w * listProd (args.map fun a => if a = s then x else K a)
      = listProd (args.map fun a => if a = s then w * x else K a) := by
  induction args with
  | nil => simp at hc
  | cons a as ih =>
    by_cases h : a = s
    · subst h
      have h0 : as.count a = 0 := by simpa using hc
      have hna : ∀ b ∈ as, b ≠ a := by
        intro b hb e; subst e
        exact absurd (List.count_pos_iff.mpr hb) (by omega)
      have e1 : ∀ v : Rat, (as.map fun b => if b = a then v else K b) = as.map K := by
        intro v; apply List.map_congr_left; intro b hb; simp [hna b hb]
      simp only [List.map_cons, listProd_cons, if_true, e1]
      grind
    · have hc' : as.count s = 1 := by
        rw [List.count_cons] at hc; simpa [h] using hc
      simp only [List.map_cons, listProd_cons, if_neg h]
      rw [← ih hc']; grind


theorem margOf_eq (σ : LName → Rat) (x : Name) (n i : Nat) :
    margOf σ x n i = sumMap (patterns n) (fun u => ind (u.getD i false) * σ ⟨x, some u⟩) := by
  unfold margOf ind
  apply sumMap_congr
  intro u _
  cases u.getD i false <;> simp <;> grind

theorem slotsFlat_cons (lv : List (Name × Nat)) (s : Name) (ss : List Name) :
    slotsFlat lv (s :: ss) = (List.range (labelsOf lv s)).map (Slot.pos s) ++ slotsFlat lv ss := by
  simp [slotsFlat]

theorem slotsFlat_mem {lv : List (Name × Nat)} {cs : List Name} {c : Name} {i : Nat}
    (h : Slot.pos c i ∈ slotsFlat lv cs) : c ∈ cs ∧ i < labelsOf lv c := by
  simp only [slotsFlat, List.mem_flatMap, List.mem_map, List.mem_range] at h
  obtain ⟨c', hc', j, hj, e⟩ := h
  cases e
  exact ⟨hc', hj⟩

/-- **weighted collapse**: summing the products over all substrate patterns whose flat position
    `g` (belonging to compound `c`, position `i`) is labelled replaces the total of `c` by its
    amount labelled at `i` -/
theorem wcollapse_blocks (lv : List (Name × Nat)) (bs args : List Name) (σ : LName → Rat)
    (hnd : ∀ a, labelsOf lv a > 0 → bs.count a ≤ 1)
    (honce : ∀ a ∈ bs, labelsOf lv a > 0 → args.count a = 1)
    (g : Nat) (c : Name) (i : Nat) (hg : (slotsFlat lv bs)[g]? = some (Slot.pos c i)) :
    sumBlocks (labelsPer lv bs) (fun blocks =>
        ind (blocks.flatten.getD g false) * listProd (args.map fun a => σ (argOf bs blocks a)))
      = listProd (args.map fun a =>
          if a = c then margOf σ c (labelsOf lv c) i else baseVal lv σ bs a) := by
  induction bs generalizing σ g with
  | nil => simp [slotsFlat] at hg
  | cons s ss ih =>
    have hnd' : ∀ a, labelsOf lv a > 0 → ss.count a ≤ 1 := by
      intro a ha; have := hnd a ha; rw [List.count_cons] at this; omega
    have honce' : ∀ a ∈ ss, labelsOf lv a > 0 → args.count a = 1 :=
      fun a ha => honce a (List.mem_cons_of_mem _ ha)
    rw [slotsFlat_cons] at hg
    simp only [labelsPer, List.map_cons, sumBlocks]
    by_cases hn : labelsOf lv s = 0
    · -- unlabelled head: empty block, no positions
      rw [hn] at hg ⊢
      simp only [List.range_zero, List.map_nil, List.nil_append] at hg
      simp only [patterns, sumMap_single, List.flatten_cons, List.nil_append, argOf, ne_eq,
        not_true_eq_false, and_false, if_false]
      have := ih σ hnd' honce' g hg
      simp only [labelsPer] at this
      rw [this]
      congr 1
      apply List.map_congr_left
      intro a _
      rw [baseVal_cons_unlabelled lv σ s ss hn]
    · have hpos : labelsOf lv s > 0 := Nat.pos_of_ne_zero hn
      have hs : s ∉ ss := by
        intro hmem
        have := hnd s hpos
        rw [List.count_cons_self] at this
        have : ss.count s > 0 := List.count_pos_iff.mpr hmem
        omega
      have hsa : args.count s = 1 := honce s List.mem_cons_self hpos
      by_cases hgn : g < labelsOf lv s
      · -- the position lies in the head block
        have hci : c = s ∧ i = g := by
          rw [List.getElem?_append_left (by simpa using hgn)] at hg
          simp [List.getElem?_map, List.getElem?_range hgn] at hg
          exact ⟨hg.1.symm, hg.2.symm⟩
        obtain ⟨rfl, rfl⟩ := hci
        have step : ∀ u ∈ patterns (labelsOf lv c),
            sumBlocks (List.map (labelsOf lv) ss) (fun rest =>
                ind ((u :: rest).flatten.getD i false)
                  * listProd (args.map fun a => σ (argOf (c :: ss) (u :: rest) a)))
              = listProd (args.map fun a =>
                  if a = c then ind (u.getD i false) * σ ⟨c, some u⟩ else baseVal lv σ (c :: ss) a) := by
          intro u hu
          have hul : u.length = labelsOf lv c := mem_patterns.mp hu
          have hune : u ≠ [] := by intro e; subst e; simp at hul; omega
          have e1 : ∀ rest : List Label,
              ind ((u :: rest).flatten.getD i false)
                  * listProd (args.map fun a => σ (argOf (c :: ss) (u :: rest) a))
                = ind (u.getD i false) * listProd (args.map fun a =>
                    (upd σ (plain c) (σ ⟨c, some u⟩)) (argOf ss rest a)) := by
            intro rest
            rw [argOf_cons_upd ss c hs u hune rest args σ]
            congr 2
            simp only [List.flatten_cons, List.getD_eq_getElem?_getD]
            rw [List.getElem?_append_left (by omega)]
          rw [sumBlocks_congr e1, sumBlocks_mul_left]
          have := collapse_blocks lv ss args (upd σ (plain c) (σ ⟨c, some u⟩)) hnd' honce'
          simp only [labelsPer] at this
          rw [this]
          have e2 : (args.map (baseVal lv (upd σ (plain c) (σ ⟨c, some u⟩)) ss))
              = args.map fun a => if a = c then σ ⟨c, some u⟩ else baseVal lv σ (c :: ss) a := by
            apply List.map_congr_left
            intro a _
            exact baseVal_upd lv σ c ss hs _ a
          rw [e2, prod_scale_once args c hsa]
        rw [sumMap_congr step, prod_linear_once args c hsa]
        congr 1
        apply List.map_congr_left
        intro a _
        by_cases e : a = c
        · subst e; simp [margOf_eq]
        · simp [e]
      · -- the position lies in a later block
        have hg' : (slotsFlat lv ss)[g - labelsOf lv s]? = some (Slot.pos c i) := by
          rw [List.getElem?_append_right (by simpa using Nat.le_of_not_lt hgn)] at hg
          simpa using hg
        have hcmem := slotsFlat_mem (List.mem_of_getElem? hg')
        have hcs : c ≠ s := fun e => hs (e ▸ hcmem.1)
        have step : ∀ u ∈ patterns (labelsOf lv s),
            sumBlocks (List.map (labelsOf lv) ss) (fun rest =>
                ind ((u :: rest).flatten.getD g false)
                  * listProd (args.map fun a => σ (argOf (s :: ss) (u :: rest) a)))
              = listProd (args.map fun a =>
                  if a = s then σ ⟨s, some u⟩ else
                    (if a = c then margOf σ c (labelsOf lv c) i else baseVal lv σ (s :: ss) a)) := by
          intro u hu
          have hul : u.length = labelsOf lv s := mem_patterns.mp hu
          have hune : u ≠ [] := by intro e; subst e; simp at hul; omega
          have e1 : ∀ rest : List Label,
              ind ((u :: rest).flatten.getD g false)
                  * listProd (args.map fun a => σ (argOf (s :: ss) (u :: rest) a))
                = ind (rest.flatten.getD (g - labelsOf lv s) false) * listProd (args.map fun a =>
                    (upd σ (plain s) (σ ⟨s, some u⟩)) (argOf ss rest a)) := by
            intro rest
            rw [argOf_cons_upd ss s hs u hune rest args σ]
            congr 2
            simp only [List.flatten_cons, List.getD_eq_getElem?_getD]
            rw [List.getElem?_append_right (by omega), hul]
          rw [sumBlocks_congr e1]
          have := ih (upd σ (plain s) (σ ⟨s, some u⟩)) hnd' honce' (g - labelsOf lv s) hg'
          simp only [labelsPer] at this
          rw [this]
          congr 1
          apply List.map_congr_left
          intro a _
          rw [margOf_upd_plain, baseVal_upd lv σ s ss hs]
          by_cases e : a = s
          · subst e
            have hne : ¬ a = c := fun h => hcs h.symm
            rw [if_neg hne]; simp
          · simp [e]
        rw [sumMap_congr step, prod_linear_once args s hsa]
        congr 1
        apply List.map_congr_left
        intro a _
        by_cases e : a = s
        · subst e
          have : ¬ a = c := fun h => hcs h.symm
          simp [this, baseVal, hpos, totalOf_pos _ _ hpos]
        · simp [e]

/-! ### position flux -/

theorem slotsFlat_length (lv : List (Name × Nat)) (cs : List Name) :
    (slotsFlat lv cs).length = (labelsPer lv cs).sum := by
  induction cs with
  | nil => simp [slotsFlat, labelsPer]
  | cons c cs ih => rw [slotsFlat_cons]; simp [labelsPer] at ih ⊢; omega

theorem paddedSubs_length (lv : List (Name × Nat)) (r : BRxn) :
    (paddedSubs lv r).length = max (nSub lv r) (nProd lv r) := by
  simp only [paddedSubs, List.length_append, List.length_replicate, slotsFlat_length, nSub, nProd]
  omega

/-- replacing the single factor of `s` -/
theorem prod_replace_once (args : List Name) (s : Name) (hc : args.count s = 1) (m : Rat)
    (K : Name → Rat) :
    listProd (args.map fun a => if a = s then m else K a) * K s = m * listProd (args.map K) := by
  have h1 := prod_scale_once args s hc (K s) m K
  have h2 := prod_scale_once args s hc m (K s) K
  have e : (args.map fun a => if a = s then K s else K a) = args.map K := by
    apply List.map_congr_left; intro a _; by_cases h : a = s <;> simp [h]
  rw [e] at h2
  have e2 : (args.map fun a => if a = s then K s * m else K a)
      = args.map fun a => if a = s then m * K s else K a := by
    apply List.map_congr_left; intro a _; by_cases h : a = s <;> simp [h]; grind
  rw [e2] at h1
  rw [h2, ← h1]; grind

/-- on the arguments of a mass-action reaction `baseVal` is the totals environment -/
theorem baseVal_args {lv : List (Name × Nat)} {r : BRxn} (hm : MassAction lv r) (σ : LName → Rat) :
    r.args.map (baseVal lv σ (subsOf r)) = r.args.map (totalsEnv lv σ) := by
  apply List.map_congr_left
  intro a ha
  simp only [baseVal, totalsEnv]
  by_cases hl : labelsOf lv a > 0
  · have h2 := hm.order a hl
    have h3 : r.args.count a > 0 := List.count_pos_iff.mpr ha
    have : a ∈ subsOf r := List.count_pos_iff.mp (by omega)
    simp [hl, this]
  · simp [hl]

theorem distinct_hyps {lv : List (Name × Nat)} {r : BRxn} (hd : DistinctOccurrences lv r)
    (hm : MassAction lv r) :
    (∀ a, labelsOf lv a > 0 → (subsOf r).count a ≤ 1) ∧
    (∀ a ∈ subsOf r, labelsOf lv a > 0 → r.args.count a = 1) := by
  constructor
  · intro a hl
    by_cases ha : a ∈ r.args
    · have h1 := distinct_spec hd ha hl
      rw [List.count_append] at h1; omega
    · have h2 := hm.order a hl
      have : r.args.count a = 0 := List.count_eq_zero.mpr ha
      omega
  · intro a ha hl
    have h2 := hm.order a hl
    have h3 : (subsOf r).count a > 0 := List.count_pos_iff.mpr ha
    have hmem : a ∈ r.args := List.count_pos_iff.mp (by omega)
    have h1 := distinct_spec hd hmem hl
    rw [List.count_append] at h1
    omega

theorem splitLabel_flatten_of_length (w : Label) (ns : List Nat) (h : w.length = ns.sum) :
    (splitLabel w ns).flatten = w := by
  have := (C05_split_join_aux w ns)
  rw [this, ← h, List.take_length]
where
  C05_split_join_aux (l : Label) (ns : List Nat) : (splitLabel l ns).flatten = l.take ns.sum := by
    induction ns generalizing l with
    | nil => simp [splitLabel]
    | cons n ns ih => simp only [splitLabel, List.flatten_cons, ih, List.sum_cons, List.take_add]

/-- **position flux**: the isotopomer rates of the reactions whose rate suffix is labelled at
    (padded) substrate position `l` add up to enrichment × base flux -/
theorem position_flux {lv : List (Name × Nat)} {r : BRxn} {lm : List Nat} {rs : List LRxn}
    (hok : isotopomerReactions lv r lm = .ok rs)
    (hm : MassAction lv r) (hd : DistinctOccurrences lv r) (σ : LName → Rat)
    (hC : ∀ c ∈ subsOf r, labelsOf lv c > 0 → totalOf σ c (labelsOf lv c) ≠ 0)
    (l : Nat) (hl : l < max (nSub lv r) (nProd lv r)) :
    (rs.map fun rx => ind ((suffixOf rx).getD l false) * rx.rate σ).sum
      = enrichOf lv σ ((paddedSubs lv r).getD l Slot.ext) * r.rate (totalsEnv lv σ) := by
  obtain ⟨_, hfa⟩ := isotopomerReactions_ok hok
  obtain ⟨hnd, honce⟩ := distinct_hyps hd hm
  rw [forall₂_map_sum (fun rx => ind ((suffixOf rx).getD l false) * rx.rate σ)
    (fun w => ind ((w ++ extOf lv r).getD l false) * listProd (r.args.map fun a =>
      σ (argOf (subsOf r) (splitLabel w (labelsPer lv (subsOf r))) a))) hfa
    (by
      rintro w rx hw ⟨ps, _, rfl⟩
      rw [rate_isoRxnOf hd hm σ w ps hw]
      rfl)]
  have hns : nSub lv r = (slotsFlat lv (subsOf r)).length := by rw [slotsFlat_length]; rfl
  by_cases hlt : l < nSub lv r
  · -- a substrate position
    have hsl : (slotsFlat lv (subsOf r))[l]? = some ((slotsFlat lv (subsOf r))[l]'(by omega)) :=
      List.getElem?_eq_getElem _
    have hpad : (paddedSubs lv r).getD l Slot.ext = (slotsFlat lv (subsOf r))[l]'(by omega) := by
      simp only [paddedSubs, List.getD_eq_getElem?_getD]
      rw [List.getElem?_append_left (by omega), hsl]; rfl
    cases hslot : (slotsFlat lv (subsOf r))[l]'(by omega) with
    | ext =>
      exfalso
      have := List.getElem_mem (l := slotsFlat lv (subsOf r)) (by omega : l < _)
      rw [hslot] at this
      simp [slotsFlat] at this
    | pos c i =>
      rw [hslot] at hsl
      have hcm := slotsFlat_mem (List.mem_of_getElem? hsl)
      have hcpos : labelsOf lv c > 0 := by omega
      have hW := wcollapse_blocks lv (subsOf r) r.args σ hnd honce l c i hsl
      have hsplit := sum_split (labelsPer lv (subsOf r)) (fun blocks =>
        ind (blocks.flatten.getD l false) * listProd (r.args.map fun a => σ (argOf (subsOf r) blocks a)))
      have hcongr : sumMap (patterns (nSub lv r)) (fun w =>
            ind ((w ++ extOf lv r).getD l false) * listProd (r.args.map fun a =>
              σ (argOf (subsOf r) (splitLabel w (labelsPer lv (subsOf r))) a)))
          = sumMap (patterns (labelsPer lv (subsOf r)).sum) (fun w =>
              ind ((splitLabel w (labelsPer lv (subsOf r))).flatten.getD l false)
                * listProd (r.args.map fun a =>
                    σ (argOf (subsOf r) (splitLabel w (labelsPer lv (subsOf r))) a))) := by
        apply sumMap_congr
        intro w hw
        have hwl : w.length = nSub lv r := mem_patterns.mp hw
        rw [splitLabel_flatten_of_length w _ hwl]
        congr 2
        simp only [List.getD_eq_getElem?_getD]
        rw [List.getElem?_append_left (by omega)]
      simp only [sumMap] at hcongr hsplit
      rw [hcongr, hsplit, hW, hpad, hslot]
      simp only [enrichOf]
      have hcount := honce c hcm.1 hcpos
      have hrep := prod_replace_once r.args c hcount (margOf σ c (labelsOf lv c) i)
        (baseVal lv σ (subsOf r))
      have hbc : baseVal lv σ (subsOf r) c = totalOf σ c (labelsOf lv c) := by
        simp [baseVal, hcm.1, hcpos]
      have hne := hC c hcm.1 hcpos
      rw [hbc, baseVal_args hm σ] at hrep
      have hrate : r.rate (totalsEnv lv σ) = listProd (r.args.map (totalsEnv lv σ)) := by
        simp [BRxn.rate, hm.fn_prod]
      rw [hrate, Rat.div_def]
      generalize listProd (r.args.map fun a =>
        if a = c then margOf σ c (labelsOf lv c) i else baseVal lv σ (subsOf r) a) = P at hrep ⊢
      generalize listProd (r.args.map (totalsEnv lv σ)) = Q at hrep ⊢
      generalize totalOf σ c (labelsOf lv c) = T at hrep hne ⊢
      generalize margOf σ c (labelsOf lv c) i = Mg at hrep ⊢
      have : P = P * T * T⁻¹ := by
        rw [Rat.mul_assoc, Rat.mul_inv_cancel _ hne, Rat.mul_one]
      rw [this, hrep]; grind
  · -- an external position: always labelled
    have hpad : (paddedSubs lv r).getD l Slot.ext = Slot.ext := by
      simp only [paddedSubs, List.getD_eq_getElem?_getD]
      rw [List.getElem?_append_right (by omega)]
      cases h : (List.replicate ((slotsFlat lv (prodsOf r)).length - (slotsFlat lv (subsOf r)).length)
        Slot.ext)[l - (slotsFlat lv (subsOf r)).length]? with
      | none => rfl
      | some s =>
        have := List.mem_of_getElem? h
        simp at this; simp [this.2]
    rw [hpad]
    simp only [enrichOf]
    have hone : ∀ w ∈ patterns (nSub lv r), ind ((w ++ extOf lv r).getD l false) = 1 := by
      intro w hw
      have hwl : w.length = nSub lv r := mem_patterns.mp hw
      simp only [List.getD_eq_getElem?_getD]
      rw [List.getElem?_append_right (by omega)]
      simp only [extOf, externalLabels, List.getElem?_replicate]
      have : l - w.length < nProd lv r - nSub lv r := by omega
      simp [this, ind]
    have := collapse_core hok hd hm σ
    rw [forall₂_map_sum (fun rx => rx.rate σ)
      (fun w => listProd (r.args.map fun a =>
        σ (argOf (subsOf r) (splitLabel w (labelsPer lv (subsOf r))) a))) hfa
      (by rintro w rx hw ⟨ps, _, rfl⟩; exact rate_isoRxnOf hd hm σ w ps hw)] at this
    rw [← this, Rat.one_mul]
    congr 1
    apply List.map_congr_left
    intro w hw
    rw [hone w hw, Rat.one_mul]


/-! ### position flux without any restriction on repeated compounds -/

theorem prod_scale_once_key {κ} [DecidableEq κ] (args : List κ) (s : κ) (hc : args.count s = 1)
    (w x : Rat) (K : κ → Rat) :
    w * listProd (args.map fun a => if a = s then x else K a)
      = listProd (args.map fun a => if a = s then w * x else K a) := by
  induction args with
  | nil => simp at hc
  | cons a as ih =>
    by_cases h : a = s
    · subst h
      have h0 : as.count a = 0 := by simpa using hc
      have hna : ∀ b ∈ as, b ≠ a := by
        intro b hb e; subst e
        exact absurd (List.count_pos_iff.mpr hb) (by omega)
      have e1 : ∀ v : Rat, (as.map fun b => if b = a then v else K b) = as.map K := by
        intro v; apply List.map_congr_left; intro b hb; simp [hna b hb]
      simp only [List.map_cons, listProd_cons, if_true, e1]
      grind
    · have hc' : as.count s = 1 := by
        rw [List.count_cons] at hc; simpa [h] using hc
      simp only [List.map_cons, listProd_cons, if_neg h]
      rw [← ih hc']; grind

theorem prod_replace_once_key {κ} [DecidableEq κ] (args : List κ) (s : κ) (hc : args.count s = 1)
    (m : Rat) (K : κ → Rat) :
    listProd (args.map fun a => if a = s then m else K a) * K s = m * listProd (args.map K) := by
  have h1 := prod_scale_once_key args s hc (K s) m K
  have h2 := prod_scale_once_key args s hc m (K s) K
  have e : (args.map fun a => if a = s then K s else K a) = args.map K := by
    apply List.map_congr_left; intro a _; by_cases h : a = s <;> simp [h]
  rw [e] at h2
  have e2 : (args.map fun a => if a = s then K s * m else K a)
      = args.map fun a => if a = s then m * K s else K a := by
    apply List.map_congr_left; intro a _; by_cases h : a = s <;> simp [h]; grind
  rw [e2] at h1
  rw [h2, ← h1]; grind

/-- the numbered substrate occurrence a flat substrate position belongs to, and its bit -/
theorem slot_key (lv : List (Name × Nat)) (bs seen : List Name) (l : Nat) (c : Name) (i : Nat)
    (hg : (slotsFlat lv bs)[l]? = some (Slot.pos c i)) :
    ∃ m, (c, m) ∈ idxAux seen bs ∧
      ∀ w : Label, w.length = (labelsPer lv bs).sum →
        ∃ u, lookupBlock (idxAux seen bs) (splitLabel w (labelsPer lv bs)) (c, m) = some u ∧
          u.getD i false = w.getD l false := by
  induction bs generalizing seen l with
  | nil => simp [slotsFlat] at hg
  | cons s ss ih =>
    rw [slotsFlat_cons] at hg
    by_cases hgn : l < labelsOf lv s
    · have hci : c = s ∧ i = l := by
        rw [List.getElem?_append_left (by simpa using hgn)] at hg
        simp [List.getElem?_map, List.getElem?_range hgn] at hg
        exact ⟨hg.1.symm, hg.2.symm⟩
      obtain ⟨rfl, rfl⟩ := hci
      refine ⟨seen.count c, by simp [idxAux], ?_⟩
      intro w hw
      refine ⟨w.take (labelsOf lv c), by simp [idxAux, lookupBlock, labelsPer, splitLabel], ?_⟩
      simp [List.getD_eq_getElem?_getD, List.getElem?_take, hgn]
    · have hg' : (slotsFlat lv ss)[l - labelsOf lv s]? = some (Slot.pos c i) := by
        rw [List.getElem?_append_right (by simpa using Nat.le_of_not_lt hgn)] at hg
        simpa using hg
      obtain ⟨m, hmem, hW⟩ := ih (s :: seen) (l - labelsOf lv s) hg'
      refine ⟨m, by simp only [idxAux]; exact List.mem_cons_of_mem _ hmem, ?_⟩
      intro w hw
      simp only [labelsPer, List.map_cons, List.sum_cons] at hw
      obtain ⟨u, hu, hbit⟩ := hW (w.drop (labelsOf lv s)) (by simp [labelsPer]; omega)
      refine ⟨u, ?_, ?_⟩
      · simp only [idxAux, labelsPer, List.map_cons, splitLabel, lookupBlock]
        have hne : ¬ ((s, seen.count s) = (c, m)) := by
          intro e
          simp only [Prod.mk.injEq] at e
          have := (mem_idxAux.mp hmem).1
          rw [← e.1] at this
          simp at this; omega
        rw [if_neg hne]
        exact hu
      · rw [hbit]
        simp only [List.getD_eq_getElem?_getD, List.getElem?_drop]
        congr 2; omega

/-- what a numbered mention of a mass-action rate law reads after the collapse: the total of a
    labelled compound, the plain name otherwise -/
theorem key_total {lv : List (Name × Nat)} {r : BRxn} (hm : MassAction lv r) (σ : LName → Rat)
    {a : Name} {c : Nat} (hmem : (a, c) ∈ idxAux [] r.args) :
    (if (a, c) ∈ idxAux [] (subsOf r)
        then sumMap (patterns (labelsOf lv a)) (fun u => σ (assignLabel a u)) else σ (plain a))
      = totalsEnv lv σ a := by
  have hc := mem_idxAux.mp hmem
  simp only [totalsEnv]
  by_cases hl : labelsOf lv a > 0
  · have hcnt := hm.order a hl
    have hin : (a, c) ∈ idxAux [] (subsOf r) := mem_idxAux.mpr (by simp at hc ⊢; omega)
    rw [if_pos hin, if_pos hl, totalOf_pos _ _ hl]
    apply sumMap_congr
    intro u hu
    have : u ≠ [] := by
      have := mem_patterns.mp hu
      intro e; subst e; simp at this; omega
    simp [assignLabel, this]
  · have h0 : labelsOf lv a = 0 := by omega
    rw [if_neg hl]
    split
    · simp [h0, patterns, sumMap_single, assignLabel, plain]
    · rfl

theorem position_flux_full {lv : List (Name × Nat)} {r : BRxn} {lm : List Nat} {rs : List LRxn}
    (hok : isotopomerReactions lv r lm = .ok rs)
    (hm : MassAction lv r) (σ : LName → Rat)
    (hC : ∀ c ∈ subsOf r, labelsOf lv c > 0 → totalOf σ c (labelsOf lv c) ≠ 0)
    (l : Nat) (hl : l < max (nSub lv r) (nProd lv r)) :
    (rs.map fun rx => ind ((suffixOf rx).getD l false) * rx.rate σ).sum
      = enrichOf lv σ ((paddedSubs lv r).getD l Slot.ext) * r.rate (totalsEnv lv σ) := by
  obtain ⟨_, hfa⟩ := isotopomerReactions_ok hok
  rw [forall₂_map_sum (fun rx => ind ((suffixOf rx).getD l false) * rx.rate σ)
    (fun w => ind ((w ++ extOf lv r).getD l false) * listProd ((idxAux [] r.args).map
      (keyVal σ (idxAux [] (subsOf r)) (splitLabel w (labelsPer lv (subsOf r)))))) hfa
    (by
      rintro w rx hw ⟨ps, _, rfl⟩
      rw [rate_isoRxnOf_keys hm σ w ps hw]
      rfl)]
  have hns : nSub lv r = (slotsFlat lv (subsOf r)).length := by rw [slotsFlat_length]; rfl
  have hrate : r.rate (totalsEnv lv σ) = listProd (r.args.map (totalsEnv lv σ)) := by
    simp [BRxn.rate, hm.fn_prod]
  have hargs : r.args.map (totalsEnv lv σ)
      = (idxAux [] r.args).map (fun key => totalsEnv lv σ key.1) := by
    have := congrArg (List.map (totalsEnv lv σ)) (idxAux_map_fst [] r.args)
    simpa [List.map_map, Function.comp_def] using this.symm
  by_cases hlt : l < nSub lv r
  · have hsl : (slotsFlat lv (subsOf r))[l]? = some ((slotsFlat lv (subsOf r))[l]'(by omega)) :=
      List.getElem?_eq_getElem _
    have hpad : (paddedSubs lv r).getD l Slot.ext = (slotsFlat lv (subsOf r))[l]'(by omega) := by
      simp only [paddedSubs, List.getD_eq_getElem?_getD]
      rw [List.getElem?_append_left (by omega), hsl]; rfl
    cases hslot : (slotsFlat lv (subsOf r))[l]'(by omega) with
    | ext =>
      exfalso
      have := List.getElem_mem (l := slotsFlat lv (subsOf r)) (by omega : l < _)
      rw [hslot] at this
      simp [slotsFlat] at this
    | pos c i =>
      rw [hslot] at hsl
      have hcm := slotsFlat_mem (List.mem_of_getElem? hsl)
      have hcpos : labelsOf lv c > 0 := by omega
      obtain ⟨m, hkmem, hW⟩ := slot_key lv (subsOf r) [] l c i hsl
      have hkarg : (c, m) ∈ idxAux [] r.args := by
        have h1 := mem_idxAux.mp hkmem
        have h2 := hm.order c hcpos
        exact mem_idxAux.mpr (by simp at h1 ⊢; omega)
      have hcount : @List.count (Name × Nat) instBEqOfDecidableEq (c, m) (idxAux [] r.args) = 1 :=
        count_one_of_nodup_mem (idxAux_nodup [] _) hkarg
      -- the weight is a function of the block of occurrence (c, m)
      let val' : Name × Nat → Label → Rat := fun key u =>
        if key = (c, m) then ind (u.getD i false) * σ (assignLabel key.1 u) else σ (assignLabel key.1 u)
      let G : List Label → Rat := fun blocks =>
        listProd ((idxAux [] r.args).map fun a =>
          match lookupBlock (idxAux [] (subsOf r)) blocks a with
          | some u => val' a u
          | none => σ (plain a.1))
      have hterm : ∀ w ∈ patterns (nSub lv r),
          ind ((w ++ extOf lv r).getD l false) * listProd ((idxAux [] r.args).map
            (keyVal σ (idxAux [] (subsOf r)) (splitLabel w (labelsPer lv (subsOf r)))))
          = G (splitLabel w (labelsPer lv (subsOf r))) := by
        intro w hw
        have hwl : w.length = nSub lv r := mem_patterns.mp hw
        obtain ⟨u0, hu0, hbit⟩ := hW w hwl
        have hw1 : (w ++ extOf lv r).getD l false = u0.getD i false := by
          rw [hbit]
          simp only [List.getD_eq_getElem?_getD]
          rw [List.getElem?_append_left (by omega)]
        rw [hw1]
        have e1 : (idxAux [] r.args).map
              (keyVal σ (idxAux [] (subsOf r)) (splitLabel w (labelsPer lv (subsOf r))))
            = (idxAux [] r.args).map (fun a => if a = (c, m) then σ (assignLabel c u0) else
                keyVal σ (idxAux [] (subsOf r)) (splitLabel w (labelsPer lv (subsOf r))) a) := by
          apply List.map_congr_left
          intro a _
          by_cases e : a = (c, m)
          · subst e; simp [keyVal, hu0]
          · simp [e]
        have e2 : G (splitLabel w (labelsPer lv (subsOf r)))
            = listProd ((idxAux [] r.args).map (fun a => if a = (c, m)
                then ind (u0.getD i false) * σ (assignLabel c u0) else
                keyVal σ (idxAux [] (subsOf r)) (splitLabel w (labelsPer lv (subsOf r))) a)) := by
          show listProd _ = listProd _
          congr 1
          apply List.map_congr_left
          intro a _
          by_cases e : a = (c, m)
          · subst e; simp [hu0, val']
          · simp only [if_neg e, keyVal, val']
            cases lookupBlock (idxAux [] (subsOf r)) (splitLabel w (labelsPer lv (subsOf r))) a <;>
              simp
        rw [e1, e2, prod_scale_once_key _ _ hcount]
      have hsum : ((patterns (nSub lv r)).map fun w =>
            ind ((w ++ extOf lv r).getD l false) * listProd ((idxAux [] r.args).map
              (keyVal σ (idxAux [] (subsOf r)) (splitLabel w (labelsPer lv (subsOf r)))))).sum
          = ((patterns (nSub lv r)).map fun w => G (splitLabel w (labelsPer lv (subsOf r)))).sum := by
        congr 1
        exact List.map_congr_left hterm
      rw [hsum]
      have hs := sum_split (labelsPer lv (subsOf r)) G
      simp only [sumMap, nSub] at hs ⊢
      rw [hs]
      have hck := collapse_keys (idxAux [] (subsOf r)) (idxAux_nodup [] _)
        (fun key => labelsOf lv key.1) (idxAux [] r.args) val' (fun key => σ (plain key.1)) (by
          rintro ⟨a, c'⟩ hmem hpos
          have hc := mem_idxAux.mp hmem
          have := hm.order a hpos
          exact count_one_of_nodup_mem (idxAux_nodup [] _) (mem_idxAux.mpr (by simp at hc ⊢; omega)))
      rw [idxAux_sz] at hck
      show sumBlocks (labelsPer lv (subsOf r)) (fun blocks =>
        listProd ((idxAux [] r.args).map fun a =>
          match lookupBlock (idxAux [] (subsOf r)) blocks a with
          | some u => val' a u
          | none => σ (plain a.1))) = _
      refine hck.trans ?_
      rw [hpad, hslot]
      simp only [enrichOf]
      -- evaluate the factors
      rw [List.map_congr_left (g := fun a => if a = (c, m) then margOf σ c (labelsOf lv c) i
              else totalsEnv lv σ a.1) (by
        rintro ⟨a, c'⟩ hmem
        by_cases e : (a, c') = (c, m)
        · rw [if_pos e]
          cases e
          rw [if_pos hkmem, margOf_eq]
          apply sumMap_congr
          intro u hu
          have : u ≠ [] := by
            have := mem_patterns.mp hu
            intro e; subst e; simp at this; omega
          simp [val', assignLabel, this]
        · rw [if_neg e]
          have hv : val' (a, c') = fun u => σ (assignLabel a u) := by
            funext u; simp only [val', if_neg e]
          have hk := key_total hm σ hmem
          by_cases hin : (a, c') ∈ idxAux [] (subsOf r)
          · rw [if_pos hin] at hk ⊢
            rw [hv, hk]
          · rw [if_neg hin] at hk ⊢
            exact hk)]
      have hrep := prod_replace_once_key (idxAux [] r.args) (c, m) hcount
        (margOf σ c (labelsOf lv c) i) (fun key => totalsEnv lv σ key.1)
      have hbc : totalsEnv lv σ c = totalOf σ c (labelsOf lv c) := by simp [totalsEnv, hcpos]
      have hne := hC c hcm.1 hcpos
      simp only [hbc] at hrep
      rw [hrate, hargs, Rat.div_def]
      generalize listProd ((idxAux [] r.args).map fun a =>
        if a = (c, m) then margOf σ c (labelsOf lv c) i else totalsEnv lv σ a.1) = P at hrep ⊢
      generalize listProd ((idxAux [] r.args).map fun key => totalsEnv lv σ key.1) = Q at hrep ⊢
      generalize totalOf σ c (labelsOf lv c) = T at hrep hne ⊢
      generalize margOf σ c (labelsOf lv c) i = Mg at hrep ⊢
      have : P = P * T * T⁻¹ := by
        rw [Rat.mul_assoc, Rat.mul_inv_cancel _ hne, Rat.mul_one]
      rw [this, hrep]; grind
  · -- an external position: always labelled
    have hpad : (paddedSubs lv r).getD l Slot.ext = Slot.ext := by
      simp only [paddedSubs, List.getD_eq_getElem?_getD]
      rw [List.getElem?_append_right (by omega)]
      cases h : (List.replicate ((slotsFlat lv (prodsOf r)).length - (slotsFlat lv (subsOf r)).length)
        Slot.ext)[l - (slotsFlat lv (subsOf r)).length]? with
      | none => rfl
      | some s =>
        have := List.mem_of_getElem? h
        simp at this; simp [this.2]
    rw [hpad]
    simp only [enrichOf]
    have hone : ∀ w ∈ patterns (nSub lv r), ind ((w ++ extOf lv r).getD l false) = 1 := by
      intro w hw
      have hwl : w.length = nSub lv r := mem_patterns.mp hw
      simp only [List.getD_eq_getElem?_getD]
      rw [List.getElem?_append_right (by omega)]
      simp only [extOf, externalLabels, List.getElem?_replicate]
      have : l - w.length < nProd lv r - nSub lv r := by omega
      simp [this, ind]
    have := collapse_full hok hm σ
    rw [forall₂_map_sum (fun rx => rx.rate σ)
      (fun w => listProd ((idxAux [] r.args).map
        (keyVal σ (idxAux [] (subsOf r)) (splitLabel w (labelsPer lv (subsOf r)))))) hfa
      (by rintro w rx hw ⟨ps, _, rfl⟩; exact rate_isoRxnOf_keys hm σ w ps hw)] at this
    rw [← this, Rat.one_mul]
    congr 1
    apply List.map_congr_left
    intro w hw
    rw [hone w hw, Rat.one_mul]

/-! ### the linear mapper's reaction list, unfolded -/

theorem dupList_subs (st : List (Name × Int)) :
    dupList (unpackLin st).1 = (unpackStoich st).1 ∧ dupList (unpackLin st).2 = (unpackStoich st).2 := by
  induction st with
  | nil => simp [unpackLin, unpackStoich, dupList]
  | cons kv rest ih =>
    obtain ⟨k, v⟩ := kv
    simp only [unpackLin, unpackStoich]
    by_cases hv : v < 0
    · simp only [hv, if_true]
      simp only [dupList, List.flatMap_cons] at ih ⊢
      exact ⟨by rw [ih.1], ih.2⟩
    · simp only [hv, if_false]
      simp only [dupList, List.flatMap_cons] at ih ⊢
      exact ⟨ih.1, by rw [ih.2]⟩


theorem isos_mapM (lv : List (Name × Nat)) (h : ∀ kn ∈ lv, kn.2 > 0) :
    (lv.mapM fun kn => do pure (kn.1, ← isotopeLabels kn.1 kn.2)) = .ok (isosOf lv) := by
  apply mapM_ok_of_forall
  intro kn hk
  simp [isotopeLabels, h kn hk, bind, Except.bind, pure, Except.pure]

theorem lookup_isosOf (lv : List (Name × Nat)) (c : Name) :
    (isosOf lv).lookup c = (lv.lookup c).map fun n => (List.range n).map (Slot.pos c) := by
  induction lv with
  | nil => rfl
  | cons kn lv ih =>
    obtain ⟨k, n⟩ := kn
    simp only [isosOf, List.map_cons, List.lookup] at ih ⊢
    by_cases e : c = k
    · subst e; simp
    · have : (c == k) = false := by simpa using e
      simp only [this]; exact ih

theorem slotsOf_isosOf (lv : List (Name × Nat)) (cs : List Name)
    (h : ∀ c ∈ cs, (lv.lookup c).isSome) : slotsOf (isosOf lv) cs = .ok (slotsFlat lv cs) := by
  induction cs with
  | nil => rfl
  | cons c cs ih =>
    have hc := h c List.mem_cons_self
    obtain ⟨n, hn⟩ := Option.isSome_iff_exists.mp hc
    simp only [slotsOf, lookup_isosOf, hn, Option.map_some]
    rw [ih (fun c' hc' => h c' (List.mem_cons_of_mem _ hc'))]
    simp [bind, Except.bind, pure, Except.pure, slotsFlat_cons, labelsOf, hn]


theorem paddedProds_length (lv : List (Name × Nat)) (r : BRxn) :
    (paddedProds lv r).length = max (nSub lv r) (nProd lv r) := by
  simp only [paddedProds, List.length_append, List.length_replicate, slotsFlat_length, nSub, nProd]
  omega

/-- `linRxnsOf` for one base reaction all of whose compounds carry labels -/
theorem linRxnsOf_eq (lv : List (Name × Nat)) (r : BRxn) (lm : List Nat)
    (baseRxns : List (Name × List (Name × Int))) (hlk : baseRxns.lookup r.name = some r.stoich)
    (hlab : ∀ c ∈ subsOf r ++ prodsOf r, (lv.lookup c).isSome) :
    linRxnsOf (isosOf lv) baseRxns r.name lm =
      if lm.length < max (nSub lv r) (nProd lv r) then .error .valueError
      else (mapLabelmapToSubstrates (paddedSubs lv r) lm).map
        (fun res => slotRxns r.name 0 res (paddedProds lv r)) := by
  have hs := slotsOf_isosOf lv (subsOf r) (fun c hc => hlab c (List.mem_append_left _ hc))
  have hp := slotsOf_isosOf lv (prodsOf r) (fun c hc => hlab c (List.mem_append_right _ hc))
  have hd := dupList_subs r.stoich
  simp only [subsOf, prodsOf] at hs hp
  simp only [linRxnsOf, hlk]
  rw [hd.1, hd.2, hs, hp]
  simp only [bind, Except.bind, addInfluxEfflux]
  have hlen : (slotsFlat lv (unpackStoich r.stoich).1 ++ List.replicate
      ((slotsFlat lv (unpackStoich r.stoich).2 ++ List.replicate
        ((slotsFlat lv (unpackStoich r.stoich).1).length - (slotsFlat lv (unpackStoich r.stoich).2).length)
          Slot.ext).length - (slotsFlat lv (unpackStoich r.stoich).1).length) Slot.ext).length
      = max (nSub lv r) (nProd lv r) := by
    simp only [List.length_append, List.length_replicate, slotsFlat_length, nSub, nProd, subsOf, prodsOf]
    omega
  rw [hlen]
  have e1 : (slotsFlat lv (unpackStoich r.stoich).1 ++ List.replicate
      ((slotsFlat lv (unpackStoich r.stoich).2 ++ List.replicate
        ((slotsFlat lv (unpackStoich r.stoich).1).length - (slotsFlat lv (unpackStoich r.stoich).2).length)
          Slot.ext).length - (slotsFlat lv (unpackStoich r.stoich).1).length) Slot.ext)
      = paddedSubs lv r := by
    simp only [paddedSubs, subsOf, prodsOf, List.length_append, List.length_replicate]
    congr 2
    omega
  rw [e1]
  by_cases hlt : lm.length < max (nSub lv r) (nProd lv r)
  · rw [if_pos hlt, if_pos hlt]
  · rw [if_neg hlt, if_neg hlt]
    simp only []
    cases mapLabelmapToSubstrates (paddedSubs lv r) lm with
    | error e => rfl
    | ok res => rfl


theorem count_of_nodup {α} [DecidableEq α] {l : List α} (h : l.Nodup) (a : α) :
    l.count a = if a ∈ l then 1 else 0 := by
  induction l with
  | nil => simp
  | cons b l ih =>
    simp only [List.nodup_cons] at h
    rw [List.count_cons, ih h.2]
    by_cases e : b = a
    · subst e; simp [h.1]
    · have : (b == a) = false := by simpa using e
      have e' : ¬ a = b := fun h => e h.symm
      simp [this, e']

theorem count_slotsFlat (lv : List (Name × Nat)) (cs : List Name) (x : Name) (i : Nat) :
    (slotsFlat lv cs).count (Slot.pos x i) = if i < labelsOf lv x then cs.count x else 0 := by
  induction cs with
  | nil => simp [slotsFlat]
  | cons c cs ih =>
    rw [slotsFlat_cons, List.count_append, ih, List.count_cons]
    have hnd : ((List.range (labelsOf lv c)).map (Slot.pos c)).Nodup :=
      nodup_map_inj (by intro a b h; simpa using h) List.nodup_range
    rw [count_of_nodup hnd]
    by_cases e : c = x
    · subst e
      by_cases hi : i < labelsOf lv c
      · simp [hi]; omega
      · simp [hi]
    · have hb : (c == x) = false := by simpa using e
      have : Slot.pos x i ∉ (List.range (labelsOf lv c)).map (Slot.pos c) := by
        simp only [List.mem_map, List.mem_range, not_exists, not_and]
        intro j _ h
        injection h with h1 _
        exact e h1
      simp [this, hb]

theorem count_append_ext (A : List Slot) (k : Nat) (x : Name) (i : Nat) :
    (A ++ List.replicate k Slot.ext).count (Slot.pos x i) = A.count (Slot.pos x i) := by
  rw [List.count_append, List.count_replicate]; simp

/-- with the same enrichment `e` everywhere (external pool included) the slot pairs add up to
    (occurrences as product − occurrences as substrate) · e · flux / pool -/
theorem sum_pairTerm_const (e f : Rat) (C : Name → Rat) (x : Slot) (hx : x ≠ Slot.ext)
    (A B : List Slot) (hlen : A.length = B.length) :
    ((A.zip B).map fun sp => pairTerm (fun _ => e) f C x sp.1 sp.2).sum
      = ((B.count x : Int) - (A.count x : Int) : Int) * (1 / C x.base) * (e * f) := by
  induction A generalizing B with
  | nil =>
    cases B with
    | nil => simp
    | cons b B => simp at hlen
  | cons a A ih =>
    cases B with
    | nil => simp at hlen
    | cons b B =>
      simp only [List.length_cons, Nat.add_right_cancel_iff] at hlen
      simp only [List.zip_cons_cons, List.map_cons, List.sum_cons]
      rw [ih B hlen]
      have hdiv : (-1 : Rat) / C x.base = -(1 / C x.base) := by
        rw [Rat.div_def, Rat.div_def]; grind
      simp only [pairTerm, hx, ne_eq, not_false_eq_true, and_true, hdiv, List.count_cons]
      generalize (1 : Rat) / C x.base = K
      generalize List.count x A = nA
      generalize List.count x B = nB
      by_cases ha : a = x <;> by_cases hb : b = x
      all_goals
        simp only [ha, hb, if_true, if_false, beq_self_eq_true, beq_iff_eq]
        push_cast
        grind

/-! ### marginal of a repacked stoichiometry -/

theorem labelledAt_nodup (x : Name) (n i : Nat) : (labelledAt x n i).Nodup :=
  nodup_map_inj (by intro a b h; simpa using h) ((patterns_nodup n).filter _)

theorem assignLabel_mem_labelledAt (c x : Name) (b : Label) (n i : Nat) (hb : c = x → b.length = n) :
    assignLabel c b ∈ labelledAt x n i ↔ c = x ∧ b.getD i false = true := by
  unfold assignLabel labelledAt
  constructor
  · intro h
    obtain ⟨u, hu, e⟩ := List.mem_map.mp h
    simp only [List.mem_filter] at hu
    by_cases hne : b = []
    · subst hne; simp at e
    · simp only [ne_eq, hne, not_false_eq_true, if_true, LName.mk.injEq, Option.some.injEq] at e
      obtain ⟨rfl, rfl⟩ := e
      exact ⟨rfl, hu.2⟩
  · rintro ⟨rfl, hbit⟩
    have hne : b ≠ [] := by intro e; subst e; simp at hbit
    simp only [ne_eq, hne, not_false_eq_true, if_true]
    exact List.mem_map.mpr ⟨b, List.mem_filter.mpr ⟨mem_patterns.mpr (hb rfl), hbit⟩, rfl⟩

/-- bits of one block against its positions -/
theorem count_zip_block (c x : Name) (i k : Nat) (b : Label) :
    ((((List.range' k b.length).map (Slot.pos c)).zip b).count (Slot.pos x i, true))
      = if c = x ∧ k ≤ i ∧ b.getD (i - k) false = true then 1 else 0 := by
  induction b generalizing k with
  | nil => simp
  | cons a b ih =>
    simp only [List.length_cons, List.range'_succ, List.map_cons, List.zip_cons_cons, List.count_cons,
      ih (k + 1)]
    by_cases hc : c = x
    · subst hc
      by_cases hk : k = i
      · subst hk
        have : ¬ (k + 1 ≤ k) := by omega
        cases a <;> simp [this]
      · by_cases hle : k + 1 ≤ i
        · have e1 : i - k = (i - (k + 1)) + 1 := by omega
          have hne : ¬ (Slot.pos c k = Slot.pos c i) := by intro h; injection h with _ h2; exact hk h2
          have hle' : k ≤ i := by omega
          rw [e1]
          simp [hle, hle', hne]
        · have hle' : ¬ k ≤ i := by omega
          have hne : ¬ (Slot.pos c k = Slot.pos c i) := by intro h; injection h with _ h2; exact hk h2
          simp [hle, hle', hne, hk]
    · have hne : ¬ (Slot.pos c k = Slot.pos x i) := by intro h; injection h with h1 _; exact hc h1
      simp [hc, hne]

/-- among names built from full blocks, the isotopomers of `x` labelled at `i` are counted by the
    flat positions `(x, i)` whose bit is set -/
theorem filter_labelledAt (lv : List (Name × Nat)) (cs : List Name) (bl : List Label)
    (hlen : bl.length = cs.length)
    (hfull : ∀ p ∈ cs.zip bl, p.2.length = labelsOf lv p.1) (x : Name) (i : Nat) :
    ((assignLabels cs bl).filter fun y => decide (y ∈ labelledAt x (labelsOf lv x) i)).length
      = ((slotsFlat lv cs).zip bl.flatten).count (Slot.pos x i, true) := by
  induction cs generalizing bl with
  | nil => simp [assignLabels, slotsFlat]
  | cons c cs ih =>
    cases bl with
    | nil => simp at hlen
    | cons b bl =>
      simp only [List.length_cons, Nat.add_right_cancel_iff] at hlen
      have hb : b.length = labelsOf lv c := hfull (c, b) (by simp)
      have ih' := ih bl hlen (fun p hp => hfull p (by simp [hp]))
      simp only [assignLabels, List.zipWith_cons_cons] at ih' ⊢
      rw [slotsFlat_cons, List.flatten_cons,
        List.zip_append (by simp [hb]), List.count_append, ← ih', List.filter_cons]
      have hblock := count_zip_block c x i 0 b
      rw [hb, ← List.range_eq_range'] at hblock
      rw [hblock]
      have hmem := assignLabel_mem_labelledAt c x b (labelsOf lv x) i (by intro e; rw [hb, e])
      have hcond : (c = x ∧ 0 ≤ i ∧ b.getD (i - 0) false = true) ↔ (c = x ∧ b.getD i false = true) := by
        simp
      by_cases h : c = x ∧ b.getD i false = true
      · have hin : assignLabel c b ∈ labelledAt x (labelsOf lv x) i := hmem.mpr h
        rw [if_pos (hcond.mpr h)]
        simp only [hin, decide_true, if_true, List.length_cons]
        omega
      · have hnin : assignLabel c b ∉ labelledAt x (labelsOf lv x) i := fun hm => h (hmem.mp hm)
        rw [if_neg (fun hh => h (hcond.mp hh))]
        simp only [hnin, decide_false, Bool.false_eq_true, if_false]
        omega



theorem sum_zip_eq_range {α β} (A : List α) (B : List β) (da : α) (db : β) (F : α → β → Rat)
    (h : A.length = B.length) :
    ((A.zip B).map fun sp => F sp.1 sp.2).sum
      = ((List.range A.length).map fun q => F (A.getD q da) (B.getD q db)).sum := by
  induction A generalizing B with
  | nil => simp
  | cons a A ih =>
    cases B with
    | nil => simp at h
    | cons b B =>
      simp only [List.length_cons, Nat.add_right_cancel_iff] at h
      simp only [List.zip_cons_cons, List.map_cons, List.sum_cons, List.length_cons,
        List.range_succ_eq_map, List.map_map, ih B h]
      rfl

theorem sum_range_extend (n k : Nat) (G : Nat → Rat) (h : ∀ q, n ≤ q → G q = 0) :
    ((List.range (n + k)).map G).sum = ((List.range n).map G).sum := by
  rw [List.range_add, List.map_append, List.sum_append]
  have : ((List.range k).map (fun x => n + x)).map G = (List.range k).map fun _ => (0 : Rat) := by
    rw [List.map_map]
    apply List.map_congr_left
    intro a _
    exact h _ (Nat.le_add_right n a)
  rw [this, sum_map_zero]; grind

theorem count_zip_eq_sum (A : List Slot) (B : Label) (x : Slot) :
    (((A.zip B).count (x, true) : Nat) : Rat)
      = ((List.range A.length).map fun j =>
          if A.getD j Slot.ext = x then ind (B.getD j false) else 0).sum := by
  induction A generalizing B with
  | nil => simp
  | cons a A ih =>
    cases B with
    | nil =>
      have : ((List.range (a :: A).length).map fun j =>
          if (a :: A).getD j Slot.ext = x then ind (([] : Label).getD j false) else 0)
          = (List.range (a :: A).length).map fun _ => (0 : Rat) := by
        apply List.map_congr_left; intro j _; simp [ind]
      rw [this, sum_map_zero]; simp
    | cons b B =>
      simp only [List.zip_cons_cons, List.count_cons, List.length_cons, List.range_succ_eq_map,
        List.map_cons, List.sum_cons, List.map_map]
      push_cast
      rw [ih B]
      have e : ((fun j => if (a :: A).getD j Slot.ext = x then ind ((b :: B).getD j false) else 0) ∘ Nat.succ)
          = fun j => if A.getD j Slot.ext = x then ind (B.getD j false) else 0 := by
        funext j; simp
      rw [e]
      simp only [List.getD_cons_zero]
      by_cases ha : a = x
      · subst ha
        cases b <;> simp [ind] <;> grind
      · have : ((a, b) == (x, true)) = false := by
          simp only [beq_eq_false_iff_ne, ne_eq, Prod.mk.injEq, not_and]
          intro h; exact absurd h ha
        simp [this, ha]; grind


theorem zip_take_right {α β} (A : List α) (B : List β) : A.zip (B.take A.length) = A.zip B := by
  induction A generalizing B with
  | nil => simp
  | cons a A ih =>
    cases B with
    | nil => simp
    | cons b B => simp [ih]

theorem splitLabel_flatten_take (l : Label) (ns : List Nat) :
    (splitLabel l ns).flatten = l.take ns.sum := by
  induction ns generalizing l with
  | nil => simp [splitLabel]
  | cons n ns ih => simp only [splitLabel, List.flatten_cons, ih, List.sum_cons, List.take_add]

/-- marginal of the stoichiometry of the reaction generated for pattern `w`: positions `(x,i)`
    among the products whose mapped bit is set, minus those among the substrates -/
theorem marginal_stoich_isoRxnOf (lv : List (Name × Nat)) (r : BRxn) (lm : List Nat) (w ps : Label)
    (hw : w ∈ patterns (nSub lv r))
    (hps : mapSubstratesToProducts (w ++ extOf lv r) lm = .ok ps)
    (hwf : nProd lv r ≤ lm.length) (x : Name) (i : Nat) :
    ((labelledAt x (labelsOf lv x) i).map
        (coefOf (isoRxnOf r (subsOf r) (prodsOf r) (labelsPer lv (subsOf r))
          (labelsPer lv (prodsOf r)) (extOf lv r) w ps).stoich)).sum
      = (((slotsFlat lv (prodsOf r)).zip ps).count (Slot.pos x i, true) : Int)
        - (((slotsFlat lv (subsOf r)).zip w).count (Slot.pos x i, true) : Int) := by
  have hlen : w.length = nSub lv r := mem_patterns.mp hw
  have hpslen : ps.length = lm.length := by
    rw [((msp_ok_iff _ _ _).mp hps).2]; simp
  simp only [isoRxnOf]
  have e : coefOf (repack
      (assignLabels (subsOf r) (splitLabel (w ++ extOf lv r) (labelsPer lv (subsOf r))))
      (assignLabels (prodsOf r) (splitLabel ps (labelsPer lv (prodsOf r)))))
      = fun n => ((assignLabels (prodsOf r) (splitLabel ps (labelsPer lv (prodsOf r)))).count n : Int)
          - ((assignLabels (subsOf r) (splitLabel w (labelsPer lv (subsOf r)))).count n : Int) := by
    funext n
    rw [repack_coef, splitLabel_append w _ _ (by rw [hlen]; exact Nat.le_refl _)]
  rw [e, sum_map_sub_int, sum_count_nodup _ (labelledAt_nodup _ _ _),
    sum_count_nodup _ (labelledAt_nodup _ _ _)]
  have h1 := filter_labelledAt lv (prodsOf r)
    (splitLabel ps (labelsPer lv (prodsOf r))) (by simp [splitLabel_length, labelsPer])
    (splitLabel_zip_eq (labelsOf lv) (prodsOf r) ps (by
      show (labelsPer lv (prodsOf r)).sum ≤ _; rw [hpslen]; exact hwf)) x i
  have h2 := filter_labelledAt lv (subsOf r)
    (splitLabel w (labelsPer lv (subsOf r))) (by simp [splitLabel_length, labelsPer])
    (splitLabel_zip_eq (labelsOf lv) (subsOf r) w (by
      show (labelsPer lv (subsOf r)).sum ≤ _; rw [hlen]; exact Nat.le_refl _)) x i
  rw [h1, h2, splitLabel_flatten_of_length w _ hlen, splitLabel_flatten_take]
  have : (labelsPer lv (prodsOf r)).sum = (slotsFlat lv (prodsOf r)).length := (slotsFlat_length _ _).symm
  rw [this, zip_take_right]


/-- the slot pairs in general: (1/pool) · flux · (label arriving at `x` − label leaving `x`) -/
theorem sum_pairTerm_general (E : Slot → Rat) (f : Rat) (C : Name → Rat) (x : Slot)
    (hx : x ≠ Slot.ext) (A B : List Slot) (hlen : A.length = B.length) :
    ((A.zip B).map fun sp => pairTerm E f C x sp.1 sp.2).sum
      = (1 / C x.base) * f *
          (((A.zip B).map fun sp => if sp.2 = x then E sp.1 else 0).sum - (A.count x : Nat) * E x) := by
  induction A generalizing B with
  | nil =>
    cases B with
    | nil => simp; grind
    | cons b B => simp at hlen
  | cons a A ih =>
    cases B with
    | nil => simp at hlen
    | cons b B =>
      simp only [List.length_cons, Nat.add_right_cancel_iff] at hlen
      simp only [List.zip_cons_cons, List.map_cons, List.sum_cons]
      rw [ih B hlen]
      have hdiv : (-1 : Rat) / C x.base = -(1 / C x.base) := by
        rw [Rat.div_def, Rat.div_def]; grind
      simp only [pairTerm, hx, ne_eq, not_false_eq_true, and_true, hdiv, List.count_cons]
      generalize (1 : Rat) / C x.base = K
      generalize ((A.zip B).map fun sp => if sp.2 = x then E sp.1 else 0).sum = T
      generalize List.count x A = nA
      by_cases ha : a = x <;> by_cases hb : b = x
      all_goals
        simp only [ha, hb, if_true, if_false, beq_self_eq_true, beq_iff_eq]
        push_cast
        grind

theorem count_eq_range_sum (A : List Slot) (x : Slot) (hx : x ≠ Slot.ext) :
    ((A.count x : Nat) : Rat)
      = ((List.range A.length).map fun j => if A.getD j Slot.ext = x then (1 : Rat) else 0).sum := by
  induction A with
  | nil => simp
  | cons a A ih =>
    simp only [List.count_cons, List.length_cons, List.range_succ_eq_map, List.map_cons,
      List.sum_cons, List.map_map]
    push_cast
    rw [ih]
    have e : ((fun j => if (a :: A).getD j Slot.ext = x then (1 : Rat) else 0) ∘ Nat.succ)
        = fun j => if A.getD j Slot.ext = x then (1 : Rat) else 0 := by
      funext j; simp
    rw [e]
    simp only [List.getD_cons_zero]
    by_cases ha : a = x
    · subst ha; simp; grind
    · have : (a == x) = false := by simpa using ha
      simp [this, ha]; grind

theorem sum_ite_mul {α} (l : List α) (c : Prop) [Decidable c] (F : α → Rat) :
    (l.map fun a => if c then F a else 0).sum = if c then (l.map F).sum else 0 := by
  by_cases h : c
  · simp [h]
  · simp [h, sum_map_zero]

/-! ### assembling the marginal -/

theorem sum_map_sub_rat {α} (l : List α) (F G : α → Rat) :
    (l.map fun a => F a - G a).sum = (l.map F).sum - (l.map G).sum := by
  induction l with
  | nil => simp; grind
  | cons a l ih => simp only [List.map_cons, List.sum_cons, ih]; grind

theorem rat_sub_mul (a b c : Rat) : (a - b) * c = a * c - b * c := by grind

/-- label flux through padded substrate position `l`, read off the rate suffixes -/
def fluxAt (rs : List LRxn) (σ : LName → Rat) (l : Nat) : Rat :=
  (rs.map fun rx => ind ((suffixOf rx).getD l false) * rx.rate σ).sum

/-- the isotopomer side: d/dt of the amount of `x` labelled at `i`, as position fluxes -/
theorem iso_marginal_as_flux {lv : List (Name × Nat)} {r : BRxn} {lm : List Nat} {rs : List LRxn}
    (hok : isotopomerReactions lv r lm = .ok rs) (hwf : nProd lv r ≤ lm.length)
    (σ : LName → Rat) (x : Name) (i : Nat) :
    ((labelledAt x (labelsOf lv x) i).map (rhsOf rs σ)).sum
      = ((List.range (slotsFlat lv (prodsOf r)).length).map fun h =>
            if (slotsFlat lv (prodsOf r)).getD h Slot.ext = Slot.pos x i
              then fluxAt rs σ (lm.getD h 0) else 0).sum
        - ((List.range (slotsFlat lv (subsOf r)).length).map fun g =>
            if (slotsFlat lv (subsOf r)).getD g Slot.ext = Slot.pos x i
              then fluxAt rs σ g else 0).sum := by
  have hr : rhsOf rs σ = fun n => (rs.map fun rx => (coefOf rx.stoich n : Rat) * rx.rate σ).sum := by
    funext n; rfl
  rw [hr, sum_swap]
  -- per reaction
  have hper : ∀ rx ∈ rs,
      ((labelledAt x (labelsOf lv x) i).map fun n => ((coefOf rx.stoich n : Int) : Rat) * rx.rate σ).sum
        = ((List.range (slotsFlat lv (prodsOf r)).length).map fun h =>
              if (slotsFlat lv (prodsOf r)).getD h Slot.ext = Slot.pos x i
                then ind ((suffixOf rx).getD (lm.getD h 0) false) * rx.rate σ else 0).sum
          - ((List.range (slotsFlat lv (subsOf r)).length).map fun g =>
              if (slotsFlat lv (subsOf r)).getD g Slot.ext = Slot.pos x i
                then ind ((suffixOf rx).getD g false) * rx.rate σ else 0).sum := by
    intro rx hrx
    obtain ⟨w, hw, ps, hps, rfl⟩ := gen_of_mem hok rx hrx
    have hwl : w.length = nSub lv r := mem_patterns.mp hw
    have hpseq := ((msp_ok_iff _ _ _).mp hps).2
    rw [sum_map_mul_right]
    have hI := marginal_stoich_isoRxnOf lv r lm w ps hw hps hwf x i
    have hcast : ((labelledAt x (labelsOf lv x) i).map fun n =>
        ((coefOf (isoRxnOf r (subsOf r) (prodsOf r) (labelsPer lv (subsOf r))
          (labelsPer lv (prodsOf r)) (extOf lv r) w ps).stoich n : Int) : Rat)).sum
        = (((slotsFlat lv (prodsOf r)).zip ps).count (Slot.pos x i, true) : Nat)
          - (((slotsFlat lv (subsOf r)).zip w).count (Slot.pos x i, true) : Nat) := by
      have := congrArg (fun z : Int => (z : Rat)) hI
      simp only [intCast_sum, List.map_map] at this
      rw [show ((fun (i : Int) => (i : Rat)) ∘ coefOf (isoRxnOf r (subsOf r) (prodsOf r)
          (labelsPer lv (subsOf r)) (labelsPer lv (prodsOf r)) (extOf lv r) w ps).stoich)
          = fun n => ((coefOf (isoRxnOf r (subsOf r) (prodsOf r) (labelsPer lv (subsOf r))
          (labelsPer lv (prodsOf r)) (extOf lv r) w ps).stoich n : Int) : Rat) from rfl] at this
      rw [this]; push_cast; rfl
    rw [hcast, count_zip_eq_sum, count_zip_eq_sum, rat_sub_mul, ← sum_map_mul_right, ← sum_map_mul_right]
    have hsuf : suffixOf (isoRxnOf r (subsOf r) (prodsOf r) (labelsPer lv (subsOf r))
        (labelsPer lv (prodsOf r)) (extOf lv r) w ps) = w ++ extOf lv r := rfl
    rw [hsuf]
    congr 1
    · congr 1
      apply List.map_congr_left
      intro h hh
      have hh' : h < lm.length := by
        have := List.mem_range.mp hh
        rw [slotsFlat_length] at this
        exact Nat.lt_of_lt_of_le this hwf
      have : ps.getD h false = (w ++ extOf lv r).getD (lm.getD h 0) false := by
        rw [hpseq]
        simp [List.getD_eq_getElem?_getD, List.getElem?_map, List.getElem?_eq_getElem hh']
      rw [this]
      split <;> simp
    · congr 1
      apply List.map_congr_left
      intro g hg
      have hg' : g < w.length := by
        have := List.mem_range.mp hg
        rw [slotsFlat_length] at this
        rw [hwl]; exact this
      have : w.getD g false = (w ++ extOf lv r).getD g false := by
        simp [List.getD_eq_getElem?_getD, List.getElem?_append_left hg']
      rw [this]
      split <;> simp
  rw [List.map_congr_left hper]
  -- distribute over reactions and swap the sums
  rw [sum_map_sub_rat]
  have hswap : ∀ (n : Nat) (c : Nat → Prop) [DecidablePred c] (pos : Nat → Nat),
      (rs.map fun rx => ((List.range n).map fun h =>
          if c h then ind ((suffixOf rx).getD (pos h) false) * rx.rate σ else 0).sum).sum
        = ((List.range n).map fun h => if c h then fluxAt rs σ (pos h) else 0).sum := by
    intro n c _ pos
    rw [← sum_swap]
    apply congrArg
    apply List.map_congr_left
    intro h _
    rw [sum_ite_mul]
    rfl
  rw [hswap _ (fun h => (slotsFlat lv (prodsOf r)).getD h Slot.ext = Slot.pos x i) (fun h => lm.getD h 0),
    hswap _ (fun g => (slotsFlat lv (subsOf r)).getD g Slot.ext = Slot.pos x i) (fun g => g)]


theorem getD_paddedSubs_lt (lv : List (Name × Nat)) (r : BRxn) {g : Nat}
    (hg : g < (slotsFlat lv (subsOf r)).length) :
    (paddedSubs lv r).getD g Slot.ext = (slotsFlat lv (subsOf r)).getD g Slot.ext := by
  simp [paddedSubs, List.getD_eq_getElem?_getD, List.getElem?_append_left hg]

theorem getD_paddedProds (lv : List (Name × Nat)) (r : BRxn) (q : Nat) :
    (paddedProds lv r).getD q Slot.ext = (slotsFlat lv (prodsOf r)).getD q Slot.ext := by
  simp only [paddedProds, List.getD_eq_getElem?_getD]
  by_cases hq : q < (slotsFlat lv (prodsOf r)).length
  · rw [List.getElem?_append_left hq]
  · rw [List.getElem?_append_right (Nat.le_of_not_lt hq), List.getElem?_eq_none (Nat.le_of_not_lt hq)]
    cases h : (List.replicate ((slotsFlat lv (subsOf r)).length - (slotsFlat lv (prodsOf r)).length)
        Slot.ext)[q - (slotsFlat lv (prodsOf r)).length]? with
    | none => rfl
    | some s =>
      have := List.mem_of_getElem? h
      simp at this; simp [this.2]

/-- the linear side (permutation map): the derivative of position `(x,i)`, as enrichments of the
    documented sources -/
theorem lin_marginal_as_enrich (lv : List (Name × Nat)) (r : BRxn) (lm : List Nat)
    (hpm : PermMap (max (nSub lv r) (nProd lv r)) lm)
    (E : Slot → Rat) (v C : Name → Rat) (x : Name) (i : Nat) :
    linRhs (slotRxns r.name 0 (documentedSources (paddedSubs lv r) lm) (paddedProds lv r)) E v C
        (Slot.pos x i)
      = (1 / C x) * v r.name *
          (((List.range (slotsFlat lv (prodsOf r)).length).map fun h =>
              if (slotsFlat lv (prodsOf r)).getD h Slot.ext = Slot.pos x i
                then E ((paddedSubs lv r).getD (lm.getD h 0) Slot.ext) else 0).sum
            - ((slotsFlat lv (subsOf r)).count (Slot.pos x i) : Nat) * E (Slot.pos x i)) := by
  have hN := hpm.length
  have hpm' : PermMap (paddedSubs lv r).length lm := by rw [paddedSubs_length]; exact hpm
  have hperm := documentedSources_perm _ lm hpm'
  have hlenres : (documentedSources (paddedSubs lv r) lm).length = (paddedProds lv r).length := by
    simp [documentedSources, hN, paddedProds_length]
  rw [linRhs_slotRxns, sum_pairTerm_general E (v r.name) C (Slot.pos x i) (by simp) _ _ hlenres]
  simp only [Slot.base]
  congr 1
  have hcnt : (paddedSubs lv r).count (Slot.pos x i) = (slotsFlat lv (subsOf r)).count (Slot.pos x i) := by
    simp only [paddedSubs]; exact count_append_ext _ _ _ _
  rw [hperm.count_eq, hcnt]
  congr 1
  rw [sum_zip_eq_range _ _ Slot.ext Slot.ext (fun s p => if p = Slot.pos x i then E s else 0) hlenres]
  have hlen2 : (documentedSources (paddedSubs lv r) lm).length
      = (slotsFlat lv (prodsOf r)).length
        + ((slotsFlat lv (subsOf r)).length - (slotsFlat lv (prodsOf r)).length) := by
    rw [hlenres]; simp [paddedProds]
  rw [hlen2, sum_range_extend]
  · apply congrArg
    apply List.map_congr_left
    intro h hh
    have hh' : h < lm.length := by
      have := List.mem_range.mp hh
      rw [slotsFlat_length] at this
      rw [hN]
      exact Nat.lt_of_lt_of_le this (Nat.le_max_right _ _)
    rw [getD_paddedProds]
    have : (documentedSources (paddedSubs lv r) lm).getD h Slot.ext
        = (paddedSubs lv r).getD (lm.getD h 0) Slot.ext := by
      simp [documentedSources, List.getD_eq_getElem?_getD, List.getElem?_map,
        List.getElem?_eq_getElem hh']
    rw [this]
  · intro q hq
    rw [getD_paddedProds, List.getD_eq_getElem?_getD, List.getElem?_eq_none hq]
    simp


theorem marginal_full {lv : List (Name × Nat)} {r : BRxn} {lm : List Nat} {rs : List LRxn}
    (hok : isotopomerReactions lv r lm = .ok rs)
    (hm : MassAction lv r)
    (hpm : PermMap (max (nSub lv r) (nProd lv r)) lm) (σ : LName → Rat)
    (hC : ∀ c ∈ subsOf r, labelsOf lv c > 0 → totalOf σ c (labelsOf lv c) ≠ 0)
    (C : Name → Rat) (x : Name) (i : Nat) :
    linRhs (slotRxns r.name 0 (documentedSources (paddedSubs lv r) lm) (paddedProds lv r))
        (enrichOf lv σ) (fun _ => r.rate (totalsEnv lv σ)) C (Slot.pos x i)
      = (1 / C x) * ((labelledAt x (labelsOf lv x) i).map (rhsOf rs σ)).sum := by
  have hN := hpm.length
  have hwf : nProd lv r ≤ lm.length := by rw [hN]; exact Nat.le_max_right _ _
  rw [lin_marginal_as_enrich lv r lm hpm, iso_marginal_as_flux hok hwf]
  have hflux : ∀ l, l < max (nSub lv r) (nProd lv r) →
      fluxAt rs σ l = enrichOf lv σ ((paddedSubs lv r).getD l Slot.ext) * r.rate (totalsEnv lv σ) :=
    fun l hl => position_flux_full hok hm σ hC l hl
  -- production
  have hprod : ((List.range (slotsFlat lv (prodsOf r)).length).map fun h =>
        if (slotsFlat lv (prodsOf r)).getD h Slot.ext = Slot.pos x i
          then fluxAt rs σ (lm.getD h 0) else 0).sum
      = ((List.range (slotsFlat lv (prodsOf r)).length).map fun h =>
          if (slotsFlat lv (prodsOf r)).getD h Slot.ext = Slot.pos x i
            then enrichOf lv σ ((paddedSubs lv r).getD (lm.getD h 0) Slot.ext) else 0).sum
        * r.rate (totalsEnv lv σ) := by
    rw [← sum_map_mul_right]
    apply congrArg
    apply List.map_congr_left
    intro h hh
    have hh' : h < max (nSub lv r) (nProd lv r) := by
      have := List.mem_range.mp hh
      rw [slotsFlat_length] at this
      exact Nat.lt_of_lt_of_le this (Nat.le_max_right _ _)
    rw [hflux _ (hpm.getD_lt hh')]
    split <;> simp
  -- consumption
  have hcons : ((List.range (slotsFlat lv (subsOf r)).length).map fun g =>
        if (slotsFlat lv (subsOf r)).getD g Slot.ext = Slot.pos x i then fluxAt rs σ g else 0).sum
      = ((slotsFlat lv (subsOf r)).count (Slot.pos x i) : Nat)
          * (enrichOf lv σ (Slot.pos x i) * r.rate (totalsEnv lv σ)) := by
    rw [count_eq_range_sum _ _ (by simp), ← sum_map_mul_right]
    apply congrArg
    apply List.map_congr_left
    intro g hg
    have hg0 := List.mem_range.mp hg
    have hg' : g < max (nSub lv r) (nProd lv r) := by
      have := hg0
      rw [slotsFlat_length] at this
      exact Nat.lt_of_lt_of_le this (Nat.le_max_left _ _)
    rw [hflux g hg', getD_paddedSubs_lt lv r hg0]
    by_cases e : (slotsFlat lv (subsOf r)).getD g Slot.ext = Slot.pos x i
    · rw [if_pos e, if_pos e, e]; grind
    · rw [if_neg e, if_neg e]; grind
  rw [hprod, hcons]
  grind

end Mxl.C16
