/-
The per-state argument table does not depend on declaration order either.
-/
import MxlVerif.Lemmas.PermInvariant
namespace Mxl

/-- the dynamic list is a schedule of `containers` once parameters, state, data and time are bound
    (the construction inside `getArgs_core`, exported) -/
theorem dyn_sched {c : Content} (hwf : WFd c) {cache : Cache}
    (hc : createCache c = .ok cache) (vars : List (Name × Rat))
    (hv : vars.map (·.1) = omKeys c.vars) :
    SchedT c.containers (omKeys cache.allPars ++ omKeys vars ++ omKeys c.data ++ ["time"])
      cache.dynOrder := by
  obtain ⟨dep, _, _, _, _, _, hperm, hschedT⟩ := createCache_consistent hwf.toWFc hc
  obtain ⟨order, dependent, st, dst, init, extra, _, _, _, _, h5, hcache⟩ := createCache_ok hc
  obtain ⟨S, D, A, heq, hS, hD, hcov, hdyn, hstat, _, _, hdisj⟩ :=
    classify_spec c order [] [] (omKeys c.pars) (fun a ha => Or.inl ha)
  have horder : cache.order = order := by rw [hcache]
  rw [horder] at hperm hschedT
  have hdynO : cache.dynOrder = D := by rw [hcache, heq]; simp
  have hstatO : (classify c order [] [] (omKeys c.pars)).1 = S := by rw [heq]; simp
  have hallP : cache.allPars = omUnion (plainOf c.pars) extra := by rw [hcache]
  obtain ⟨hextraK, _⟩ := mapM_get_spec dependent _ _ h5
  rw [hstatO] at hextraK
  have hordNd : order.Nodup := hperm.nodup_iff.mpr hwf.keysNodup
  have hprovNd : (order.flatMap (providedOf c.toSort)).Nodup :=
    (hperm.flatMap_right _).nodup_iff.mpr hwf.provNodup
  have hordKeys : ∀ k ∈ order, k ∈ omKeys c.toSort := fun k hk => hperm.mem_iff.mp hk
  have hDnotVP : ∀ k ∈ D, isVP c k = false := by
    intro k hk
    rcases hdyn k hk with h1 | ⟨h1, _⟩
    · exact hwf.rsNotVP k h1
    · exact h1
  have hDlookup : ∀ k ∈ D, c.containers.lookup k = c.toSort.lookup k :=
    fun k hk => hwf.contOfNonVP k (hDnotVP k hk)
  have hSself : ∀ k ∈ S, providedOf c.toSort k = [k] := by
    intro k hk
    obtain ⟨v, hv'⟩ := lookup_isSome_of_mem_keys (hordKeys k (hS.subset hk))
    obtain ⟨hrs, hk2⟩ := hstat k hk
    rcases hk2 with hvp | ⟨d, hd, _⟩
    · simp only [providedOf, hv']
      exact hwf.vpSelf k v hvp hv'
    · by_cases hvp : isVP c k = true
      · simp only [providedOf, hv']
        exact hwf.vpSelf k v hvp hv'
      · have := hwf.derivedIn k d hd (by simpa using hvp) hrs
        simp [providedOf, this, Comp.provided]
  let av2 := omKeys cache.allPars ++ omKeys vars ++ omKeys c.data ++ ["time"]
  have hSbound : ∀ k ∈ S, k ∈ av2 := by
    intro k hk
    by_cases hkv : k ∈ omKeys c.vars
    · have : k ∈ omKeys vars := by simpa [omKeys, hv] using hkv
      simp [av2, this]
    · have : k ∈ omKeys extra := by
        simp only [omKeys]
        rw [hextraK]
        exact List.mem_filter.mpr ⟨hk, by simpa using hkv⟩
      have : k ∈ omKeys cache.allPars := by
        rw [hallP, mem_keys_omUnion]; exact Or.inr this
      simp [av2, this]
  have havail : ∀ r ∈ c.available, r ∈ av2 := by
    intro r hr
    simp only [Content.available, List.mem_append, List.mem_singleton] at hr
    rcases hr with ((h1 | h1) | h1) | h1
    · have : r ∈ omKeys cache.allPars := by rw [hallP, mem_keys_omUnion]; exact Or.inl h1
      simp [av2, this]
    · have : r ∈ omKeys vars := by
        have hsub : r ∈ omKeys c.vars := by
          simp only [omKeys, plainOf, List.mem_map, List.mem_filterMap] at h1 ⊢
          obtain ⟨kv, ⟨kv0, hkv0, hsome⟩, rfl⟩ := h1
          refine ⟨kv0, hkv0, ?_⟩
          cases hval : kv0.2 <;> simp [hval] at hsome
          rw [← hsome]
        simpa [omKeys, hv] using hsub
      simp [av2, this]
    · simp [av2, h1]
    · simp [av2, h1]
  have hfilter : order.filter (fun k => D.contains k) = D := filter_contains_of_sublist hD hordNd
  have hschedD : SchedT c.containers av2 D := by
    rw [← hfilter]
    apply schedT_filter c.toSort c.containers (fun k => D.contains k) _ _ hschedT av2
    · intro k _ hP
      exact hDlookup k (by simpa using hP)
    · intro k hk hP p hp
      have hkD : k ∉ D := by simpa using hP
      have hkS : k ∈ S := by
        rcases hcov k hk with h1 | h1 | ⟨h1, h2, h3⟩
        · exact h1
        · exact absurd h1 hkD
        · exfalso
          rcases hwf.keysKinds k (hordKeys k hk) with h4 | h4 | ⟨d, h4⟩
          · rw [h1] at h4; cases h4
          · rw [h2] at h4; cases h4
          · rw [h3] at h4; cases h4
      rw [hSself k hkS] at hp
      simp at hp; subst hp
      exact hSbound p hkS
    · exact havail
  rw [hdynO]
  exact hschedD

theorem reverse_lookup {l : List (Name × Rat)} (hnd : (omKeys l).Nodup) (k : Name) :
    l.reverse.lookup k = l.lookup k :=
  lookup_perm (List.reverse_perm l) hnd k

theorem baseEnv_lookup_congr {P P' V V' D D' : List (Name × Rat)} (t : Rat)
    (hP : (omKeys P).Nodup) (hP' : (omKeys P').Nodup) (hV : (omKeys V).Nodup)
    (hV' : (omKeys V').Nodup) (hD : (omKeys D).Nodup) (hD' : (omKeys D').Nodup)
    (ePP : ∀ k, P'.lookup k = P.lookup k) (eVV : ∀ k, V'.lookup k = V.lookup k)
    (eDD : ∀ k, D'.lookup k = D.lookup k) (n : Name) :
    (baseEnv P' V' D' t).lookup n = (baseEnv P V D t).lookup n := by
  unfold baseEnv
  rw [List.lookup_cons, List.lookup_cons]
  simp only [List.lookup_append, reverse_lookup hP, reverse_lookup hP', reverse_lookup hV,
    reverse_lookup hV', reverse_lookup hD, reverse_lookup hD', ePP, eVV, eDD]

theorem containers_keys_nodup {c : Content} (hn : WFnames c) : (omKeys c.containers).Nodup := by
  rw [hn.keys_containers]
  apply nodup_of_count
  intro k
  have := hn.count_le k
  simp only [List.count_append]
  omega

theorem SameContent.containers_lookup {c c' : Content} (h : SameContent c' c) (hn : WFnames c)
    (k : Name) : c'.containers.lookup k = c.containers.lookup k := by
  apply lookup_perm _ (containers_keys_nodup hn)
  rw [(h.wf hn).containers_eq, hn.containers_eq]
  exact ((h.derived.map _).append (h.rxns.map _)).append (h.surs.map _)

/-- **the argument table does not depend on declaration order.**  For a well-named content and any
    re-declaration of it in another order, the same state (as a map) and time give argument tables
    that agree on every name. -/
theorem getArgsEnv_perm_invariant {c c' : Content} (hn : WFnames c) (hsame : SameContent c' c)
    {cache cache' : Cache} (hc : createCache c = .ok cache) (hc' : createCache c' = .ok cache')
    (hpars : ∀ k, cache'.allPars.lookup k = cache.allPars.lookup k)
    (hdyn : ∀ k, k ∈ cache'.dynOrder ↔ k ∈ cache.dynOrder)
    (vars vars' : List (Name × Rat)) (hv : vars.map (·.1) = omKeys c.vars)
    (hv' : vars'.map (·.1) = omKeys c'.vars) (hvv : ∀ k, vars'.lookup k = vars.lookup k) (t : Rat)
    {env env' : Env} (he : getArgsEnv c cache vars t = .ok env)
    (he' : getArgsEnv c' cache' vars' t = .ok env') : ∀ n, env'.lookup n = env.lookup n := by
  have hn' := hsame.wf hn
  have hwf := WFd_of_names c hn
  have hwf' := WFd_of_names c' hn'
  obtain ⟨e0, he0, hholds, hframe, hfresh, _⟩ := getArgs_core hwf hc vars hv t
  rw [he] at he0; cases he0
  obtain ⟨e0', he0', hholds', hframe', hfresh', _⟩ := getArgs_core hwf' hc' vars' hv' t
  rw [he'] at he0'; cases he0'
  have hsched := dyn_sched hwf hc vars hv
  have hcont := hsame.containers_lookup hn
  -- key sets
  have hndP : (omKeys cache.allPars).Nodup := (allPars_frozen hn hc vars hv t he).choose_spec.2.2.1
  have hndP' : (omKeys cache'.allPars).Nodup :=
    (allPars_frozen hn' hc' vars' hv' t he').choose_spec.2.2.1
  have hndVc : (omKeys c.vars).Nodup := by
    apply nodup_of_count; intro k
    have := hn.count_le k; have := WFnames.count_vars (c := c) k; omega
  have hndVc' : (omKeys c'.vars).Nodup := (omKeys_perm hsame.vars).nodup_iff.mpr hndVc
  have hndV : (omKeys vars).Nodup := by rw [show omKeys vars = omKeys c.vars from hv]; exact hndVc
  have hndV' : (omKeys vars').Nodup := by
    rw [show omKeys vars' = omKeys c'.vars from hv']; exact hndVc'
  have hndD : (omKeys c.data).Nodup := by
    apply nodup_of_count; intro k
    have := hn.count_le k; omega
  have hndD' : (omKeys c'.data).Nodup := (omKeys_perm hsame.data).nodup_iff.mpr hndD
  have hbase : ∀ n, (baseEnv cache'.allPars vars' c'.data t).lookup n =
      (baseEnv cache.allPars vars c.data t).lookup n :=
    baseEnv_lookup_congr t hndP hndP' hndV hndV' hndD hndD' hpars hvv
      (fun k => lookup_perm hsame.data hndD k)
  -- what the dynamic components provide is the same set of names
  have hprov : ∀ n, n ∈ cache'.dynOrder.flatMap (providedOf c'.containers) ↔
      n ∈ cache.dynOrder.flatMap (providedOf c.containers) := by
    intro n
    simp only [List.mem_flatMap]
    constructor
    · rintro ⟨k, hk, hp⟩
      exact ⟨k, (hdyn k).mp hk, by rw [← providedOf_congr hcont k]; exact hp⟩
    · rintro ⟨k, hk, hp⟩
      exact ⟨k, (hdyn k).mpr hk, by rw [providedOf_congr hcont k]; exact hp⟩
  intro n
  by_cases hp : n ∈ cache.dynOrder.flatMap (providedOf c.containers)
  · refine (holds_unique c.containers _ _ hsched env env' hholds ?_ ?_ n (Or.inl hp)).symm
    · intro k hk comp hcomp
      exact hholds' k ((hdyn k).mpr hk) comp (by rw [hcont k]; exact hcomp)
    · intro r hr
      have hsome := baseEnv_lookup_some cache.allPars vars c.data t r hr
      have hnp : r ∉ cache.dynOrder.flatMap (providedOf c.containers) := by
        intro hm; rw [hfresh r hm] at hsome; cases hsome
      have hnp' : r ∉ cache'.dynOrder.flatMap (providedOf c'.containers) :=
        fun hm => hnp ((hprov r).mp hm)
      rw [hframe r hnp, hframe' r hnp', hbase r]
  · have hp' : n ∉ cache'.dynOrder.flatMap (providedOf c'.containers) :=
      fun hm => hp ((hprov n).mp hm)
    rw [hframe n hp, hframe' n hp', hbase n]

end Mxl
