/- C12 — reaction loop and stoichiometry pass under numeric coefficients (core Lean only). -/
import MxlVerif.Lemmas.C12Succ
namespace Mxl.C12
open Mxl

theorem rxnLoop_succeeds (S : Symbols) :
    ∀ (l : List (Name × SRxn)) (rx : Symbols),
      (∀ kr ∈ l, ∀ a ∈ kr.2.rate.args, a ∈ omKeys S) →
      ∃ rx', rxnLoop S l rx = .ok rx' ∧ (∀ a ∈ omKeys rx, a ∈ omKeys rx') ∧
        (∀ kr ∈ l, kr.1 ∈ omKeys rx') := by
  intro l
  induction l with
  | nil => intro rx _; exact ⟨rx, rfl, fun _ h => h, by simp⟩
  | cons kr rest ih =>
    obtain ⟨k, r⟩ := kr
    intro rx h
    obtain ⟨e, he⟩ := substFn_succeeds S r.rate (h (k, r) List.mem_cons_self)
    obtain ⟨rx', hrx', hmono, hcov⟩ := ih (omInsert rx k e) (fun kr hkr => h kr (List.mem_cons_of_mem _ hkr))
    refine ⟨rx', by simp [rxnLoop, he, bind, Except.bind, hrx'], ?_, ?_⟩
    · intro a ha; exact hmono a ((mem_keys_omInsert _ _ _ _).mpr (Or.inr ha))
    · intro kr hkr
      rcases List.mem_cons.mp hkr with h1 | h1
      · subst h1; exact hmono _ ((mem_keys_omInsert _ _ _ _).mpr (Or.inl rfl))
      · exact hcov kr h1

/-- a compound has a non-empty static row -/
def NE (st : List (Name × List (Name × Rat))) (cpd : Name) : Prop :=
  ∃ m, st.lookup cpd = some m ∧ m ≠ []

def StInv (names : List Name) (st : List (Name × List (Name × Rat))) : Prop :=
  ∀ cpd m rxn n, (cpd, m) ∈ st → (rxn, n) ∈ m → rxn ∈ names

theorem lookup_touchNested {β} (m : List (Name × List (Name × β))) (cpd k : Name) :
    (touchNested m cpd).lookup k = match m.lookup k with
      | some v => some v
      | none => if k = cpd then some [] else none := by
  unfold touchNested
  cases hc : m.lookup cpd with
  | some v =>
    simp only
    cases hk : m.lookup k with
    | some v' => rfl
    | none =>
      have : k ≠ cpd := by rintro rfl; rw [hc] at hk; cases hk
      simp [this]
  | none =>
    simp only [List.lookup_append]
    cases hk : m.lookup k with
    | some v' => simp
    | none => simp [lookup_cons_eq]

theorem mem_touchNested {β} (m : List (Name × List (Name × β))) (cpd k : Name) (v : List (Name × β))
    (h : (k, v) ∈ touchNested m cpd) : (k, v) ∈ m ∨ v = [] := by
  unfold touchNested at h
  cases hc : m.lookup cpd with
  | some v' => simp [hc] at h; exact Or.inl h
  | none =>
    simp [hc] at h
    rcases h with h | h
    · exact Or.inl h
    · exact Or.inr h.2

theorem num_step (names : List Name) (st : List (Name × List (Name × Rat))) (cpd rxn : Name) (c : Rat)
    (hrxn : rxn ∈ names) (hinv : StInv names st) :
    StInv names (setNested (touchNested st cpd) cpd rxn c) ∧
    NE (setNested (touchNested st cpd) cpd rxn c) cpd ∧
    (∀ k, NE st k → NE (setNested (touchNested st cpd) cpd rxn c) k) := by
  refine ⟨?_, ?_, ?_⟩
  · intro cpd' m' rxn' n' hm hr
    unfold setNested at hm
    rcases mem_omInsert _ _ _ _ _ hm with ⟨hc, hmm⟩ | hm'
    · subst hc hmm
      rcases mem_omInsert _ _ _ _ _ hr with ⟨h1, _⟩ | hr'
      · subst h1; exact hrxn
      · cases hl : (touchNested st cpd').lookup cpd' with
        | none => simp [hl] at hr'
        | some old =>
          simp [hl] at hr'
          rcases mem_touchNested _ _ _ _ (lookup_some_mem _ _ _ hl) with h2 | h2
          · exact hinv cpd' old rxn' n' h2 hr'
          · subst h2; simp at hr'
    · rcases mem_touchNested _ _ _ _ hm' with h2 | h2
      · exact hinv cpd' m' rxn' n' h2 hr
      · subst h2; simp at hr
  · unfold NE setNested
    refine ⟨omInsert (((touchNested st cpd).lookup cpd).getD []) rxn c, by rw [lookup_omInsert]; simp, ?_⟩
    intro hnil
    have : rxn ∈ omKeys (omInsert (((touchNested st cpd).lookup cpd).getD []) rxn c) :=
      (mem_keys_omInsert _ _ _ _).mpr (Or.inl rfl)
    rw [hnil] at this; simp [omKeys] at this
  · intro k ⟨m, hm, hne⟩
    unfold NE setNested
    rw [lookup_omInsert]
    by_cases hk : k = cpd
    · subst hk
      refine ⟨omInsert (((touchNested st k).lookup k).getD []) rxn c, by simp, ?_⟩
      intro hnil
      have : rxn ∈ omKeys (omInsert (((touchNested st k).lookup k).getD []) rxn c) :=
        (mem_keys_omInsert _ _ _ _).mpr (Or.inl rfl)
      rw [hnil] at this; simp [omKeys] at this
    · simp only [hk, if_false]
      rw [lookup_touchNested, hm]
      exact ⟨m, rfl, hne⟩

/-- with numeric coefficients only, the stoichiometry pass of `_create_cache` stores nothing
    state-dependent, only reaction names, and a non-empty row for every compound it meets -/
theorem addCoefs_num (names : List Name) (apn : List Name) (dep : Env) (rxn : Name) (hrxn : rxn ∈ names) :
    ∀ (rest : List (Name × Coef)) (acc acc' : StoichAcc),
      (∀ x ∈ rest, ∃ c, x.2 = Coef.num c) →
      addCoefs apn dep rxn rest acc = .ok acc' → StInv names acc.1 →
      acc'.2 = acc.2 ∧ StInv names acc'.1 ∧ (∀ x ∈ rest, NE acc'.1 x.1) ∧ (∀ k, NE acc.1 k → NE acc'.1 k) := by
  intro rest
  induction rest with
  | nil =>
    intro acc acc' _ h hinv
    simp [addCoefs, pure, Except.pure] at h; subst h
    exact ⟨rfl, hinv, by simp, fun _ h => h⟩
  | cons cf rest ih =>
    obtain ⟨cpd, co⟩ := cf
    intro acc acc' hnum h hinv
    obtain ⟨c, hc⟩ := hnum (cpd, co) List.mem_cons_self
    simp at hc; subst hc
    simp only [addCoefs, addCoef, bind, Except.bind, pure, Except.pure] at h
    obtain ⟨s1, s2, s3⟩ := num_step names acc.1 cpd rxn c hrxn hinv
    obtain ⟨h2, hinv', hne, hpres⟩ := ih _ acc' (fun x hx => hnum x (List.mem_cons_of_mem _ hx)) h s1
    refine ⟨h2, hinv', ?_, fun k hk => hpres k (s3 k hk)⟩
    intro x hx
    rcases List.mem_cons.mp hx with h1 | h1
    · subst h1; exact hpres _ s2
    · exact hne x h1

theorem addRxns_num (names : List Name) (apn : List Name) (dep : Env) :
    ∀ (rest : List (Name × List (Name × Coef))) (acc acc' : StoichAcc),
      (∀ rs ∈ rest, rs.1 ∈ names ∧ ∀ x ∈ rs.2, ∃ c, x.2 = Coef.num c) →
      addRxns apn dep rest acc = .ok acc' → StInv names acc.1 →
      acc'.2 = acc.2 ∧ StInv names acc'.1 ∧ (∀ rs ∈ rest, ∀ x ∈ rs.2, NE acc'.1 x.1) ∧
        (∀ k, NE acc.1 k → NE acc'.1 k) := by
  intro rest
  induction rest with
  | nil =>
    intro acc acc' _ h hinv
    simp [addRxns, pure, Except.pure] at h; subst h
    exact ⟨rfl, hinv, by simp, fun _ h => h⟩
  | cons rs rest ih =>
    obtain ⟨rxn, stl⟩ := rs
    intro acc acc' hall h hinv
    simp only [addRxns, bind, Except.bind] at h
    cases ha : addCoefs apn dep rxn stl acc with
    | error err => simp [ha] at h
    | ok acc1 =>
      simp only [ha] at h
      obtain ⟨hr, hn⟩ := hall (rxn, stl) List.mem_cons_self
      obtain ⟨a2, ainv, ane, apres⟩ := addCoefs_num names apn dep rxn hr stl acc acc1 hn ha hinv
      obtain ⟨b2, binv, bne, bpres⟩ :=
        ih acc1 acc' (fun rs hrs => hall rs (List.mem_cons_of_mem _ hrs)) h ainv
      refine ⟨b2.trans a2, binv, ?_, fun k hk => bpres k (apres k hk)⟩
      intro rs hrs x hx
      rcases List.mem_cons.mp hrs with h1 | h1
      · subst h1; exact bpres _ (ane x hx)
      · exact bne rs h1 x hx

end Mxl.C12
