/- concrete models used as witnesses / non-vacuity examples in Props/C11.lean -/
import MxlVerif.Lemmas.C11
import MxlVerif.Model.C07
namespace Mxl.C11

def pMul (name : String) : PyFn := { name, fn := fun vs => vs.getD 0 0 * vs.getD 1 0 }
def pAdd (name : String) : PyFn := { name, fn := fun vs => vs.getD 0 0 + vs.getD 1 0 }
def pSub (name : String) : PyFn := { name, fn := fun vs => vs.getD 0 0 - vs.getD 1 0 }
def pMul3 (name : String) : PyFn := { name, fn := fun vs => vs.getD 0 0 * vs.getD 1 0 * vs.getD 2 0 }

theorem fit2 (f : List Rat → Rat) (h : ∀ vs, f vs = f [vs.getD 0 0, vs.getD 1 0]) :
    ∀ vs, f vs = f (fit 2 vs) := by
  intro vs
  rw [h vs, h (fit 2 vs)]
  match vs with
  | [] => simp [fit]
  | [a] => simp [fit]
  | a :: b :: rest => simp [fit]

theorem fit3 (f : List Rat → Rat) (h : ∀ vs, f vs = f [vs.getD 0 0, vs.getD 1 0, vs.getD 2 0]) :
    ∀ vs, f vs = f (fit 3 vs) := by
  intro vs
  rw [h vs, h (fit 3 vs)]
  match vs with
  | [] => simp [fit]
  | [a] => simp [fit]
  | [a, b] => simp [fit]
  | a :: b :: d :: rest => simp [fit]

/-- F-C11-1: two different functions called `f` (d1 = x*k, d2 = x+k) -/
def wCollide : NContent :=
  { fns := [pMul "f", pAdd "f", pMul "g"]
    vars := [("x", .plain 1)], pars := [("k", .plain 2)]
    derived := [("d1", ⟨0, ["x", "k"]⟩), ("d2", ⟨1, ["x", "k"]⟩)]
    rxns := [("r", { rate := ⟨2, ["d1", "d2"]⟩, stoich := [("x", .num (-1))] })] }

/-- F-C11-2: a homodimer rate called with the same model name twice -/
def wDimer : NContent :=
  { fns := [pMul3 "mass_action_2s"]
    vars := [("A", .plain 1), ("B", .plain 0)], pars := [("k", .plain 2)]
    rxns := [("dimer", { rate := ⟨0, ["A", "A", "k"]⟩, stoich := [("A", .num (-2)), ("B", .num 1)] })] }

/-- one function object used by three components with different (swapped) argument lists, an initial
    assignment and a computed coefficient with their derived keys -/
def wShared : NContent :=
  { fns := [pSub "sub", pAdd "add"]
    vars := [("x", .plain 1)], pars := [("k", .plain 3), ("q", .ia ⟨1, ["k", "x"]⟩)]
    derived := [("d1", ⟨0, ["x", "k"]⟩), ("d2", ⟨0, ["k", "x"]⟩)]
    rxns := [("r", { rate := ⟨0, ["d1", "d2"]⟩, stoich := [("x", .dyn ⟨1, ["q", "k"]⟩)] })] }

/-- the class repaired by `fix: keep the names generated for initial-assignment and stoichiometry functions
    apart from the component functions`: the initial assignment of `q` uses `f` (key `init_f`), and a derived
    quantity's function is itself called `init_f` -/
def wCross : NContent :=
  { fns := [pAdd "f", pMul "init_f", pSub "g"]
    vars := [("x", .plain 1)], pars := [("k", .plain 3), ("q", .ia ⟨0, ["k", "x"]⟩)]
    derived := [("d1", ⟨1, ["x", "q"]⟩)]
    rxns := [("r", { rate := ⟨2, ["d1", "k"]⟩, stoich := [("x", .num (-1))] })] }

/-- the class repaired by `fix: a function name generated for an initial assignment or a computed stoichiometry is
    taken from then on`: initial assignments with functions called `a` and `a_` next to a derived function called
    `init_a` (keys `init_a_`, `init_a__`; both were `init_a_` before), and a reaction whose two computed
    coefficients use different functions that are both called `f2` (keys `r_stoich_f2`, `r_stoich_f2_`; one
    definition replaced the other before) -/
def wFresh : NContent :=
  { fns := [pAdd "a", pMul "a_", pSub "init_a", pAdd "f2", pMul "f2", pSub "g"]
    vars := [("x", .plain 1)], pars := [("k", .plain 3), ("q1", .ia ⟨0, ["k", "x"]⟩), ("q2", .ia ⟨1, ["k", "x"]⟩)]
    derived := [("d1", ⟨2, ["q1", "q2"]⟩)]
    rxns := [("r", { rate := ⟨5, ["d1", "k"]⟩, stoich := [("x", .dyn ⟨3, ["k", "q1"]⟩), ("y", .dyn ⟨4, ["k", "q2"]⟩)] })] }

theorem canonical_of_all2 (c : NContent)
    (h2 : ∀ u ∈ Use.all c, u.args.length = 2)
    (hf : ∀ u ∈ Use.all c, ∀ vs, (c.pyfn u.fid).fn vs = (c.pyfn u.fid).fn [vs.getD 0 0, vs.getD 1 0]) :
    Canonical c := by
  intro u hu vs
  rw [h2 u hu]
  exact fit2 _ (hf u hu) vs

theorem wCollide_canonical : Canonical wCollide := by
  apply canonical_of_all2
  · intro u hu; simp [Use.all, wCollide] at hu; rcases hu with rfl | rfl | rfl <;> rfl
  · intro u hu vs; simp [Use.all, wCollide] at hu
    rcases hu with rfl | rfl | rfl <;> simp [NContent.pyfn, wCollide, pMul, pAdd]

theorem wShared_canonical : Canonical wShared := by
  apply canonical_of_all2
  · intro u hu; simp [Use.all, wShared] at hu; rcases hu with rfl | rfl | rfl | rfl | rfl <;> rfl
  · intro u hu vs; simp [Use.all, wShared] at hu
    rcases hu with rfl | rfl | rfl | rfl | rfl <;> simp [NContent.pyfn, wShared, pSub, pAdd]

theorem wCross_canonical : Canonical wCross := by
  apply canonical_of_all2
  · intro u hu; simp [Use.all, wCross] at hu; rcases hu with rfl | rfl | rfl <;> rfl
  · intro u hu vs; simp [Use.all, wCross] at hu
    rcases hu with rfl | rfl | rfl <;> simp [NContent.pyfn, wCross, pSub, pAdd, pMul]

theorem wFresh_canonical : Canonical wFresh := by
  apply canonical_of_all2
  · intro u hu; simp [Use.all, wFresh] at hu; rcases hu with rfl | rfl | rfl | rfl | rfl | rfl <;> rfl
  · intro u hu vs; simp [Use.all, wFresh] at hu
    rcases hu with rfl | rfl | rfl | rfl | rfl | rfl <;> simp [NContent.pyfn, wFresh, pSub, pAdd, pMul]

theorem wDimer_canonical : Canonical wDimer := by
  intro u hu vs
  simp [Use.all, wDimer] at hu
  subst hu
  exact fit3 _ (by intro vs; simp [NContent.pyfn, wDimer, pMul3]) vs

/-- result of a round trip followed by `model(t, xs)` -/
def rtCall (bad : List String) (c : NContent) (t : Rat) (xs : List Rat) : Except Err (List Rat) :=
  (roundTrip bad c).bind fun c' => callRhs c' t xs

/-- keys of the emitted definitions, in emission order -/
def defKeys (c : NContent) : List String :=
  match (toSymbolicRepr [] c).bind genMxlpy with
  | .ok p => p.defs.map (·.1)
  | .error _ => []

def isSyntaxError {α} : Except Err α → Bool
  | .error (.other "SyntaxError") => true
  | _ => false

def isValueError {α} : Except Err α → Bool
  | .error (.valueError _) => true
  | _ => false

end Mxl.C11
