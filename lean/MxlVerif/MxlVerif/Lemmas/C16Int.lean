/-
Refinement of the linear mapper's integer-map entry points (`linRxnsOfI`, `linearBuildI`: what the
driver runs) to the natural-number ones the theorems are stated for (core Lean only).
-/
import MxlVerif.Lemmas.C16Model
import MxlVerif.Lemmas.C05Int
namespace Mxl.C16
open Mxl.C05

/-- an integer map whose indices all lie in `-len ≤ i < len` is read like its front-counted form;
    `xs` is the zip partner (only its length matters) -/
theorem pickSlotsI_eq (subs xs : List Slot) (lm : List Int) (lm' : List Nat)
    (h : normMap subs.length lm = .ok lm') : pickSlotsI subs xs lm = pickSlots subs xs lm' := by
  unfold normMap at h
  induction lm generalizing xs lm' with
  | nil =>
    simp only [List.mapM_nil, pure, Except.pure, Except.ok.injEq] at h
    subst h
    cases xs <;> rfl
  | cons p ps ih =>
    rw [List.mapM_cons] at h
    cases hp : pyIndex subs.length p with
    | error e => rw [hp] at h; simp [bind, Except.bind] at h
    | ok j =>
      rw [hp] at h
      cases hps : List.mapM (pyIndex subs.length) ps with
      | error e => rw [hps] at h; simp [bind, Except.bind] at h
      | ok js =>
        rw [hps] at h
        simp only [bind, Except.bind, pure, Except.pure, Except.ok.injEq] at h
        subst h
        cases xs with
        | nil => rfl
        | cons x xs =>
          simp only [pickSlotsI, pickSlots, hp]
          rw [ih xs js hps]

/-- the first index outside `-len ≤ i < len` that the zip reaches raises `IndexError`; reaching the
    end of exactly one operand first raises `ValueError` -/
theorem pickSlotsI_index_error (subs xs : List Slot) (lm : List Int)
    (hlen : xs.length = lm.length) (h : ∃ e, normMap subs.length lm = .error e) :
    pickSlotsI subs xs lm = .error .indexError := by
  unfold normMap at h
  induction lm generalizing xs with
  | nil => obtain ⟨e, h⟩ := h; simp [pure, Except.pure] at h
  | cons p ps ih =>
    cases xs with
    | nil => simp at hlen
    | cons x xs =>
      simp only [List.length_cons, Nat.add_right_cancel_iff] at hlen
      obtain ⟨e, h⟩ := h
      rw [List.mapM_cons] at h
      simp only [pickSlotsI]
      cases hp : pyIndex subs.length p with
      | error e' => rw [pyIndex_error hp]
      | ok j =>
        rw [hp] at h
        have hj := pyIndex_lt hp
        simp only [List.getElem?_eq_getElem hj]
        cases hps : List.mapM (pyIndex subs.length) ps with
        | ok js => rw [hps] at h; simp [bind, Except.bind, pure, Except.pure] at h
        | error e' =>
          rw [ih xs hlen ⟨e', hps⟩]
          rfl

theorem linRxnsOfI_eq (isos : List (Name × List Slot)) (baseRxns : List (Name × List (Name × Int)))
    (rxn : Name) (lm : List Int) (lm' : List Nat)
    (h : normMap (padLen isos baseRxns rxn) lm = .ok lm') :
    linRxnsOfI isos baseRxns rxn lm = linRxnsOf isos baseRxns rxn lm' := by
  have hlen := normMap_length h
  unfold linRxnsOfI linRxnsOf
  unfold padLen at h
  cases hl : baseRxns.lookup rxn with
  | none => rfl
  | some st =>
    rw [hl] at h
    simp only [bind, Except.bind]
    cases hs : slotsOf isos (dupList (unpackLin st).1) with
    | error e => rfl
    | ok s =>
      cases hp : slotsOf isos (dupList (unpackLin st).2) with
      | error e => rfl
      | ok p =>
        simp only [hs, hp] at h
        simp only [addInfluxEffluxI, addInfluxEfflux, hlen]
        split
        · rfl
        · unfold mapLabelmapToSubstratesI mapLabelmapToSubstrates
          rename_i v heq
          split at heq
          · cases heq
          · simp only [Except.ok.injEq] at heq
            subst heq
            rw [pickSlotsI_eq _ _ lm lm' (by
              simp only [List.length_append, List.length_replicate]
              have : s.length + (p.length + (s.length - p.length) - s.length) = max s.length p.length := by omega
              rw [this]; exact h)]

/-- without negative indices nothing changes -/
theorem pickSlotsI_nat (subs xs : List Slot) (lm : List Nat) :
    pickSlotsI subs xs (lm.map Int.ofNat) = pickSlots subs xs lm := by
  induction lm generalizing xs with
  | nil => cases xs <;> rfl
  | cons p ps ih =>
    cases xs with
    | nil => rfl
    | cons x xs =>
      simp only [List.map_cons, pickSlotsI, pickSlots, Int.ofNat_eq_natCast, pyIndex_nonneg]
      by_cases hp : p < subs.length
      · rw [if_pos hp]
        simp only [List.getElem?_eq_getElem hp]
        rw [ih xs]
      · rw [if_neg hp]
        simp only [List.getElem?_eq_none (Nat.le_of_not_lt hp)]

theorem linRxnsOfI_nat (isos : List (Name × List Slot)) (baseRxns : List (Name × List (Name × Int)))
    (rxn : Name) (lm : List Nat) :
    linRxnsOfI isos baseRxns rxn (lm.map Int.ofNat) = linRxnsOf isos baseRxns rxn lm := by
  unfold linRxnsOfI linRxnsOf
  cases hl : baseRxns.lookup rxn with
  | none => rfl
  | some st =>
    simp only [bind, Except.bind]
    cases hs : slotsOf isos (dupList (unpackLin st).1) with
    | error e => rfl
    | ok s =>
      cases hp : slotsOf isos (dupList (unpackLin st).2) with
      | error e => rfl
      | ok p =>
        simp only [addInfluxEffluxI, addInfluxEfflux, List.length_map]
        split
        · rfl
        · simp only [mapLabelmapToSubstratesI, mapLabelmapToSubstrates, pickSlotsI_nat]

theorem linearBuildI_nat (baseRxns : List (Name × List (Name × Int))) (lv : List (Name × Nat))
    (maps : List (Name × List Nat)) (il : List (Name × List Nat)) :
    linearBuildI baseRxns lv (maps.map fun km => (km.1, km.2.map Int.ofNat)) il
      = linearBuild baseRxns lv maps il := by
  unfold linearBuildI linearBuild
  simp only [List.mapM_map, Function.comp_def, linRxnsOfI_nat]

/-- for a reaction all of whose compounds carry labels the padded length is the length of the
    isotopomer mapper's rate suffix: both mappers count a negative index from the same end -/
theorem padLen_eq (lv : List (Name × Nat)) (r : BRxn) (baseRxns : List (Name × List (Name × Int)))
    (hlk : baseRxns.lookup r.name = some r.stoich)
    (hlab : ∀ c ∈ subsOf r ++ prodsOf r, (lv.lookup c).isSome) :
    padLen (isosOf lv) baseRxns r.name = max (nSub lv r) (nProd lv r) := by
  have hs := slotsOf_isosOf lv (subsOf r) (fun c hc => hlab c (List.mem_append_left _ hc))
  have hp := slotsOf_isosOf lv (prodsOf r) (fun c hc => hlab c (List.mem_append_right _ hc))
  have hd := dupList_subs r.stoich
  simp only [subsOf, prodsOf] at hs hp
  simp only [padLen, hlk, hd.1, hd.2, hs, hp, slotsFlat_length, nSub, nProd, subsOf, prodsOf]

end Mxl.C16
