/- C06 — renaming onto distinct model names: the argument list `names.map Symbol` evaluates, at the valuation
   `names[i] ↦ vs[i]`, to `vs` (core Lean only). -/
import MxlVerif.Lemmas.C06Tables
namespace Mxl.C06

theorem mem_of_lookup_zip : ∀ (names : List String) (vs : List Val) (m : String) (y : Val),
    (names.zip vs).lookup m = some y → m ∈ names := by
  intro names
  induction names with
  | nil => intro vs m y h; simp [List.lookup] at h
  | cons n names ih =>
    intro vs m y h
    cases vs with
    | nil => simp [List.lookup] at h
    | cons x vs =>
      simp only [List.zip_cons_cons, List.lookup] at h
      by_cases hm : (m == n) = true
      · have : m = n := by simpa using hm
        simp [this]
      · have hm' : (m == n) = false := by simpa using hm
        simp only [hm'] at h
        exact List.mem_cons_of_mem _ (ih vs m y h)

/-- distinct names bound positionally are looked up at their own position -/
theorem all2_syms_of_nodup : ∀ (names : List String) (vs : List Val) (ρ : SEnv), names.Nodup → names.length = vs.length →
    (∀ n x, (names.zip vs).lookup n = some x → ρ n = some x) →
    All2 (fun m x => evalS ρ m = some x) (names.map SExpr.sym) vs := by
  intro names
  induction names with
  | nil => intro vs ρ _ hl _; cases vs with
    | nil => exact .nil
    | cons _ _ => simp at hl
  | cons n names ih =>
    intro vs ρ hnd hl hρ
    cases vs with
    | nil => simp at hl
    | cons x vs =>
      have hnd' : n ∉ names ∧ names.Nodup := by simpa [List.nodup_cons] using hnd
      refine .cons ?_ (ih vs ρ hnd'.2 (by simpa using hl) ?_)
      · show ρ n = some x
        exact hρ n x (by simp [List.lookup])
      · intro m y hm
        apply hρ m y
        have hne : m ≠ n := by
          intro h; subst h
          exact hnd'.1 (mem_of_lookup_zip names vs m y hm)
        have : (m == n) = false := by simpa using hne
        simp only [List.zip_cons_cons, List.lookup, this]
        exact hm

end Mxl.C06
