/-
`_get_args`: restricting the full schedule to the dynamic components is again a schedule
once the static values are available as parameters, so the argument table returned for any
state and time is consistent with every derived quantity, rate and surrogate.
-/
import MxlVerif.Lemmas.Classify
namespace Mxl

/-- dropping the components outside `P` from a schedule leaves a schedule, provided what they
    provide is available from the start -/
theorem schedT_filter (ts ts' : List (Name × Comp)) (P : Name → Bool) :
    ∀ (av o : List Name), SchedT ts av o → ∀ (av' : List Name),
      (∀ k ∈ o, P k = true → ts'.lookup k = ts.lookup k) →
      (∀ k ∈ o, P k = false → ∀ p ∈ providedOf ts k, p ∈ av') →
      (∀ r ∈ av, r ∈ av') →
      SchedT ts' av' (o.filter P) := by
  intro av o h
  induction h with
  | nil av => intro av' _ _ _; exact SchedT.nil av'
  | cons av k c rest hk hargs _ ih =>
    intro av' h1 h2 h3
    have hprov : providedOf ts k = c.provided k := by simp [providedOf, hk]
    by_cases hP : P k = true
    · rw [List.filter_cons_of_pos hP]
      refine SchedT.cons av' k c _ ?_ (fun r hr => h3 r (hargs r hr)) ?_
      · rw [h1 k (by simp) hP]; exact hk
      · apply ih
        · intro x hx; exact h1 x (List.mem_cons_of_mem _ hx)
        · intro x hx hPx p hp
          exact List.mem_append_right _ (h2 x (List.mem_cons_of_mem _ hx) hPx p hp)
        · intro r hr
          rcases List.mem_append.mp hr with h | h
          · exact List.mem_append_left _ h
          · exact List.mem_append_right _ (h3 r h)
    · have hP' : P k = false := by simpa using hP
      rw [List.filter_cons_of_neg (by simp [hP'])]
      apply ih
      · intro x hx; exact h1 x (List.mem_cons_of_mem _ hx)
      · intro x hx; exact h2 x (List.mem_cons_of_mem _ hx)
      · intro r hr
        rcases List.mem_append.mp hr with h | h
        · exact h2 k (by simp) hP' r (by rw [hprov]; exact h)
        · exact h3 r h

theorem filter_contains_of_sublist {D o : List Name} (hs : D.Sublist o) (hnd : o.Nodup) :
    o.filter (fun k => D.contains k) = D := by
  induction hs with
  | slnil => rfl
  | cons a hs ih =>
    rename_i l1 l2
    simp only [List.nodup_cons] at hnd
    have : a ∉ l1 := fun h => hnd.1 (hs.subset h)
    rw [List.filter_cons_of_neg (by simpa using this)]
    exact ih hnd.2
  | cons_cons a hs ih =>
    rename_i l1 l2
    simp only [List.nodup_cons] at hnd
    rw [List.filter_cons_of_pos (by simp)]
    congr 1
    rw [← ih hnd.2]
    apply List.filter_congr
    intro x hx
    have : x ≠ a := fun h => hnd.1 (h ▸ hx)
    simp [this]
    exact fun _ => hx

end Mxl

namespace Mxl

theorem sublist_flatMap {α β} (f : α → List β) {l1 l2 : List α} (h : l1.Sublist l2) :
    (l1.flatMap f).Sublist (l2.flatMap f) := by
  induction h with
  | slnil => exact List.Sublist.refl _
  | cons a _ ih =>
    simp only [List.flatMap_cons]
    exact List.Sublist.trans ih (List.sublist_append_right _ _)
  | cons_cons a _ ih =>
    simp only [List.flatMap_cons]
    exact List.Sublist.append (List.Sublist.refl _) ih

theorem flatMap_congr' {α β} (f g : α → List β) (l : List α) (h : ∀ x ∈ l, f x = g x) :
    l.flatMap f = l.flatMap g := by
  induction l with
  | nil => rfl
  | cons x xs ih =>
    simp only [List.flatMap_cons]
    rw [h x (by simp), ih (fun y hy => h y (List.mem_cons_of_mem _ hy))]

/-- in a duplicate-free concatenation of provided-name lists, a name determines its provider -/
theorem nodup_flatMap_inj {f : Name → List Name} :
    ∀ (ks : List Name), (ks.flatMap f).Nodup → ∀ k ∈ ks, ∀ k' ∈ ks, ∀ p, p ∈ f k → p ∈ f k' → k = k' := by
  intro ks
  induction ks with
  | nil => intro _ k hk; cases hk
  | cons x xs ih =>
    intro hnd k hk k' hk' p hp hp'
    simp only [List.flatMap_cons] at hnd
    obtain ⟨_, h2, h3⟩ := List.nodup_append.mp hnd
    rcases List.mem_cons.mp hk with rfl | hkx
    · rcases List.mem_cons.mp hk' with rfl | hkx'
      · rfl
      · exact absurd rfl (h3 p hp p (List.mem_flatMap.mpr ⟨k', hkx', hp'⟩))
    · rcases List.mem_cons.mp hk' with rfl | hkx'
      · exact absurd rfl (h3 p hp' p (List.mem_flatMap.mpr ⟨k, hkx, hp⟩))
      · exact ih h2 k hkx k' hkx' p hp hp'

theorem mem_keys_omInsert {β} (m : List (Name × β)) (k x : Name) (v : β) :
    x ∈ omKeys (omInsert m k v) ↔ x = k ∨ x ∈ omKeys m := by
  induction m with
  | nil => simp [omInsert, omKeys]
  | cons y ys ih =>
    obtain ⟨k', v'⟩ := y
    unfold omInsert
    by_cases hk : k' = k
    · subst hk; simp [omKeys]
    · have : (k' == k) = false := by simpa using hk
      simp only [this, Bool.false_eq_true, if_false]
      simp only [omKeys, List.map_cons, List.mem_cons] at ih ⊢
      rw [ih]
      constructor
      · rintro (h | h | h)
        · exact Or.inr (Or.inl h)
        · exact Or.inl h
        · exact Or.inr (Or.inr h)
      · rintro (h | h | h)
        · exact Or.inr (Or.inl h)
        · exact Or.inl h
        · exact Or.inr (Or.inr h)

theorem mem_keys_omUnion {β} (a b : List (Name × β)) (x : Name) :
    x ∈ omKeys (omUnion a b) ↔ x ∈ omKeys a ∨ x ∈ omKeys b := by
  unfold omUnion
  induction b generalizing a with
  | nil => simp [omKeys]
  | cons y ys ih =>
    simp only [List.foldl_cons]
    rw [ih, mem_keys_omInsert]
    simp only [omKeys, List.map_cons, List.mem_cons]
    constructor
    · rintro ((h | h) | h)
      · exact Or.inr (Or.inl h)
      · exact Or.inl h
      · exact Or.inr (Or.inr h)
    · rintro (h | h | h)
      · exact Or.inl (Or.inr h)
      · exact Or.inl (Or.inl h)
      · exact Or.inr h

/-- Further well-formedness facts the shared name space guarantees (kinds of names are
    disjoint; `to_sort` and `containers` agree outside variables/parameters). -/
structure WFd (c : Content) : Prop extends WFc c where
  contOfNonVP : ∀ k, isVP c k = false → c.containers.lookup k = c.toSort.lookup k
  rsNotVP : ∀ k, isRS c k = true → isVP c k = false
  vpSelf : ∀ k comp, isVP c k = true → c.toSort.lookup k = some comp → comp.provided k = [k]
  derivedIn : ∀ k d, c.derived.lookup k = some d → isVP c k = false → isRS c k = false →
    c.toSort.lookup k = some (.fn d)
  keysKinds : ∀ k ∈ omKeys c.toSort,
    isRS c k = true ∨ isVP c k = true ∨ ∃ d, c.derived.lookup k = some d
  surOkC : SurOk c.containers
  iaSorted : ∀ k, isVP c k = true →
    k ∈ omKeys (plainOf c.vars) ∨ k ∈ omKeys (plainOf c.pars) ∨ k ∈ omKeys c.toSort

theorem lookup_isSome_of_mem_keys {β} {l : List (Name × β)} {k : Name} (h : k ∈ omKeys l) :
    ∃ v, l.lookup k = some v := by
  induction l with
  | nil => simp [omKeys] at h
  | cons y ys ih =>
    obtain ⟨k', v'⟩ := y
    rw [List.lookup_cons]
    by_cases hk : k = k'
    · subst hk; exact ⟨v', by simp⟩
    · have : (k == k') = false := by simpa using hk
      simp only [this]
      apply ih
      simp only [omKeys, List.map_cons, List.mem_cons] at h
      rcases h with h | h
      · exact absurd h hk
      · exact h

/-- **per-state resolution.**  For any supplied state (one value per variable) and time, the
    environment `_get_args` builds makes every dynamic component (reaction, surrogate, derived
    quantity not classified as a parameter) equal to its function applied to the values its
    arguments have in that same environment, and leaves every other binding — `time`, the
    supplied state, plain parameters, assignment-defined parameters and derived parameters as
    frozen in the cache — exactly as supplied. -/
theorem getArgs_consistent {c : Content} (hwf : WFd c) {cache : Cache}
    (hc : createCache c = .ok cache) (vars : List (Name × Rat))
    (hv : vars.map (·.1) = omKeys c.vars) (t : Rat) {env : Env}
    (h : getArgsEnv c cache vars t = .ok env) :
    (∀ k ∈ cache.dynOrder, ∀ comp, c.containers.lookup k = some comp → comp.Holds k env) ∧
    (∀ n, n ∉ cache.dynOrder.flatMap (providedOf c.containers) →
      env.lookup n = (baseEnv cache.allPars vars c.data t).lookup n) := by
  obtain ⟨dep, _, _, _, _, _, hperm, hschedT⟩ := createCache_consistent hwf.toWFc hc
  obtain ⟨order, dependent, st, dst, init, extra, _, _, _, _, h5, hcache⟩ := createCache_ok hc
  obtain ⟨S, D, A, heq, hS, hD, hcov, hdyn, hstat, _, _, hdisj⟩ :=
    classify_spec c order [] [] (omKeys c.pars) (fun a ha => Or.inl ha)
  have horder : cache.order = order := by rw [hcache]
  rw [horder] at hperm hschedT
  have hdynO : cache.dynOrder = D := by rw [hcache, heq]; simp
  have hstatO : (classify c order [] [] (omKeys c.pars)).1 = S := by rw [heq]; simp
  have hallP : cache.allPars = omUnion (plainOf c.pars) extra := by rw [hcache]
  obtain ⟨hextraK, _⟩ := mapM_get_spec dependent _ _ h5
  rw [hstatO] at hextraK
  have hordNd : order.Nodup := hperm.nodup_iff.mpr hwf.keysNodup
  have hprovNd : (order.flatMap (providedOf c.toSort)).Nodup :=
    (hperm.flatMap_right _).nodup_iff.mpr hwf.provNodup
  have hordKeys : ∀ k ∈ order, k ∈ omKeys c.toSort := fun k hk => hperm.mem_iff.mp hk
  -- facts about dynamic names
  have hDnotVP : ∀ k ∈ D, isVP c k = false := by
    intro k hk
    rcases hdyn k hk with h1 | ⟨h1, _⟩
    · exact hwf.rsNotVP k h1
    · exact h1
  have hDlookup : ∀ k ∈ D, c.containers.lookup k = c.toSort.lookup k :=
    fun k hk => hwf.contOfNonVP k (hDnotVP k hk)
  -- static names provide themselves and are bound as variable or parameter
  have hSself : ∀ k ∈ S, providedOf c.toSort k = [k] := by
    intro k hk
    obtain ⟨v, hv'⟩ := lookup_isSome_of_mem_keys (hordKeys k (hS.subset hk))
    obtain ⟨hrs, hk2⟩ := hstat k hk
    rcases hk2 with hvp | ⟨d, hd, _⟩
    · simp only [providedOf, hv']
      exact hwf.vpSelf k v hvp hv'
    · by_cases hvp : isVP c k = true
      · simp only [providedOf, hv']
        exact hwf.vpSelf k v hvp hv'
      · have := hwf.derivedIn k d hd (by simpa using hvp) hrs
        simp [providedOf, this, Comp.provided]
  let av2 := omKeys cache.allPars ++ omKeys vars ++ omKeys c.data ++ ["time"]
  have hSbound : ∀ k ∈ S, k ∈ av2 := by
    intro k hk
    by_cases hkv : k ∈ omKeys c.vars
    · have : k ∈ omKeys vars := by simpa [omKeys, hv] using hkv
      simp [av2, this]
    · have : k ∈ omKeys extra := by
        simp only [omKeys]
        rw [hextraK]
        exact List.mem_filter.mpr ⟨hk, by simpa [List.contains_iff_mem] using hkv⟩
      have : k ∈ omKeys cache.allPars := by
        rw [hallP, mem_keys_omUnion]; exact Or.inr this
      simp [av2, this]
  have havail : ∀ r ∈ c.available, r ∈ av2 := by
    intro r hr
    simp only [Content.available, List.mem_append, List.mem_singleton] at hr
    rcases hr with ((h1 | h1) | h1) | h1
    · have : r ∈ omKeys cache.allPars := by rw [hallP, mem_keys_omUnion]; exact Or.inl h1
      simp [av2, this]
    · have : r ∈ omKeys vars := by
        have hsub : r ∈ omKeys c.vars := by
          simp only [omKeys, plainOf, List.mem_map, List.mem_filterMap] at h1 ⊢
          obtain ⟨kv, ⟨kv0, hkv0, hsome⟩, rfl⟩ := h1
          refine ⟨kv0, hkv0, ?_⟩
          cases hval : kv0.2 <;> simp [hval] at hsome
          rw [← hsome]
        simpa [omKeys, hv] using hsub
      simp [av2, this]
    · simp [av2, h1]
    · simp [av2, h1]
  have hfilter : order.filter (fun k => D.contains k) = D := filter_contains_of_sublist hD hordNd
  have hschedD : SchedT c.containers av2 D := by
    rw [← hfilter]
    apply schedT_filter c.toSort c.containers (fun k => D.contains k) _ _ hschedT av2
    · intro k _ hP
      exact hDlookup k (by simpa using hP)
    · intro k hk hP p hp
      have hkD : k ∉ D := by simpa using hP
      have hkS : k ∈ S := by
        rcases hcov k hk with h1 | h1 | ⟨h1, h2, h3⟩
        · exact h1
        · exact absurd h1 hkD
        · exfalso
          rcases hwf.keysKinds k (hordKeys k hk) with h4 | h4 | ⟨d, h4⟩
          · rw [h1] at h4; cases h4
          · rw [h2] at h4; cases h4
          · rw [h3] at h4; cases h4
      rw [hSself k hkS] at hp
      simp at hp; subst hp
      exact hSbound p hkS
    · exact havail
  have hprovEq : D.flatMap (providedOf c.containers) = D.flatMap (providedOf c.toSort) :=
    flatMap_congr' _ _ D (fun k hk => by simp [providedOf, hDlookup k hk])
  have hDnd : (D.flatMap (providedOf c.containers)).Nodup := by
    rw [hprovEq]
    exact (sublist_flatMap _ hD).nodup hprovNd
  have hDfresh : ∀ p ∈ D.flatMap (providedOf c.containers),
      (baseEnv cache.allPars vars c.data t).lookup p = none := by
    intro p hp
    apply baseEnv_lookup_none
    rw [hprovEq] at hp
    obtain ⟨k, hkD, hpk⟩ := List.mem_flatMap.mp hp
    have hkO : k ∈ order := hD.subset hkD
    have hpAll : p ∈ (omKeys c.toSort).flatMap (providedOf c.toSort) :=
      List.mem_flatMap.mpr ⟨k, hordKeys k hkO, hpk⟩
    have hnotAvail := hwf.provFresh p hpAll
    -- a static name that is also provided by the dynamic `k` would have two providers
    have hnotS : p ∉ S := by
      intro hpS
      have hpO : p ∈ order := hS.subset hpS
      have : k = p := nodup_flatMap_inj order hprovNd k hkO p hpO p hpk
        (by rw [hSself p hpS]; simp)
      subst this
      exact hdisj hordNd k hpS hkD
    have hnotVP : isVP c p = false := by
      cases hvp : isVP c p with
      | false => rfl
      | true =>
        exfalso
        rcases hwf.iaSorted p hvp with h1 | h1 | h1
        · exact hnotAvail (by simp [Content.available, h1])
        · exact hnotAvail (by simp [Content.available, h1])
        · -- p is itself a sorted component and a variable/parameter: it is static
          have hpO : p ∈ order := hperm.mem_iff.mpr h1
          rcases hcov p hpO with h2 | h2 | ⟨_, h2, _⟩
          · exact hnotS h2
          · have := hDnotVP p h2
            rw [hvp] at this; cases this
          · rw [hvp] at h2; cases h2
    simp only [Content.available, List.mem_append, List.mem_singleton, not_or] at hnotAvail
    simp only [List.mem_append, List.mem_singleton, not_or]
    refine ⟨⟨⟨?_, ?_⟩, hnotAvail.1.2⟩, hnotAvail.2⟩
    · rw [hallP, mem_keys_omUnion]
      intro hmem
      rcases hmem with h1 | h1
      · exact hnotAvail.1.1.1 h1
      · simp only [omKeys] at h1
        rw [hextraK] at h1
        exact hnotS (List.mem_filter.mp h1).1
    · intro hmem
      have : p ∈ omKeys c.vars := by simpa [omKeys, hv] using hmem
      have : isVP c p = true := by
        simp [isVP, List.contains_iff_mem, this]
      rw [hnotVP] at this; cases this
  obtain ⟨env', he, hframe, hholds, _⟩ := evalInOrder_consistent c.containers hwf.surOkC D av2
    (baseEnv cache.allPars vars c.data t) hschedD
    (fun r hr => baseEnv_lookup_some _ _ _ t r hr) hDnd hDfresh
  have henv : env = env' := by
    unfold getArgsEnv at h
    rw [hdynO] at h
    have : evalInOrder c.containers D (baseEnv cache.allPars vars c.data t) = .ok env := h
    rw [he] at this
    cases this; rfl
  subst henv
  rw [hdynO]
  exact ⟨hholds, hframe⟩

end Mxl
