/-
`_get_args`: restricting the full schedule to the dynamic components is again a schedule
once the static values are available as parameters, so the argument table returned for any
state and time is consistent with every derived quantity, rate and surrogate.
-/
import MxlVerif.Lemmas.Classify
namespace Mxl

/-- dropping the components outside `P` from a schedule leaves a schedule, provided what they
    provide is available from the start -/
theorem schedT_filter (ts ts' : List (Name × Comp)) (P : Name → Bool) :
    ∀ (av o : List Name), SchedT ts av o → ∀ (av' : List Name),
      (∀ k ∈ o, P k = true → ts'.lookup k = ts.lookup k) →
      (∀ k ∈ o, P k = false → ∀ p ∈ providedOf ts k, p ∈ av') →
      (∀ r ∈ av, r ∈ av') →
      SchedT ts' av' (o.filter P) := by
  intro av o h
  induction h with
  | nil av => intro av' _ _ _; exact SchedT.nil av'
  | cons av k c rest hk hargs _ ih =>
    intro av' h1 h2 h3
    have hprov : providedOf ts k = c.provided k := by simp [providedOf, hk]
    by_cases hP : P k = true
    · rw [List.filter_cons_of_pos hP]
      refine SchedT.cons av' k c _ ?_ (fun r hr => h3 r (hargs r hr)) ?_
      · rw [h1 k (by simp) hP]; exact hk
      · apply ih
        · intro x hx; exact h1 x (List.mem_cons_of_mem _ hx)
        · intro x hx hPx p hp
          exact List.mem_append_right _ (h2 x (List.mem_cons_of_mem _ hx) hPx p hp)
        · intro r hr
          rcases List.mem_append.mp hr with h | h
          · exact List.mem_append_left _ h
          · exact List.mem_append_right _ (h3 r h)
    · have hP' : P k = false := by simpa using hP
      rw [List.filter_cons_of_neg (by simp [hP'])]
      apply ih
      · intro x hx; exact h1 x (List.mem_cons_of_mem _ hx)
      · intro x hx; exact h2 x (List.mem_cons_of_mem _ hx)
      · intro r hr
        rcases List.mem_append.mp hr with h | h
        · exact h2 k (by simp) hP' r (by rw [hprov]; exact h)
        · exact h3 r h

theorem filter_contains_of_sublist {D o : List Name} (hs : D.Sublist o) (hnd : o.Nodup) :
    o.filter (fun k => D.contains k) = D := by
  induction hs with
  | slnil => rfl
  | cons a hs ih =>
    rename_i l1 l2
    simp only [List.nodup_cons] at hnd
    have : a ∉ l1 := fun h => hnd.1 (hs.subset h)
    rw [List.filter_cons_of_neg (by simpa using this)]
    exact ih hnd.2
  | cons_cons a hs ih =>
    rename_i l1 l2
    simp only [List.nodup_cons] at hnd
    rw [List.filter_cons_of_pos (by simp)]
    congr 1
    rw [← ih hnd.2]
    apply List.filter_congr
    intro x hx
    have : x ≠ a := fun h => hnd.1 (h ▸ hx)
    simp [this]
    exact fun _ => hx

end Mxl
