/-
Refinement of the integer-map entry points (`isotopomerReactionsI`, `buildModelI`: what the driver
runs, Python's negative indices included) to the natural-number ones the structural and dynamics
theorems are stated for (core Lean only).
-/
import MxlVerif.Lemmas.C05Keys
namespace Mxl.C05

theorem pyIndex_lt {len : Nat} {i : Int} {j : Nat} (h : pyIndex len i = .ok j) : j < len := by
  unfold pyIndex at h
  split at h
  · split at h
    · cases h; assumption
    · cases h
  · split at h
    · cases h; omega
    · cases h

theorem pyIndex_error {len : Nat} {i : Int} {e : LErr} (h : pyIndex len i = .error e) :
    e = .indexError := by
  unfold pyIndex at h
  split at h
  · split at h
    · cases h
    · cases h; rfl
  · split at h
    · cases h
    · cases h; rfl

/-- `seq[i]` succeeds exactly for `-len ≤ i < len`, reading position `i` resp. `len + i` -/
theorem pyIndex_iff (len : Nat) (i : Int) (j : Nat) :
    pyIndex len i = .ok j ↔
      (0 ≤ i ∧ i < len ∧ (j : Int) = i) ∨ (i < 0 ∧ -(len : Int) ≤ i ∧ (j : Int) = len + i) := by
  unfold pyIndex
  split
  · split
    · simp only [Except.ok.injEq]; omega
    · simp; omega
  · split
    · simp only [Except.ok.injEq]; omega
    · simp; omega

theorem pyIndex_nonneg (len i : Nat) : pyIndex len (i : Int) = if i < len then .ok i else .error .indexError := by
  simp [pyIndex]

theorem charAtI_eq (suffix : Label) (i : Int) :
    charAtI suffix i = (pyIndex suffix.length i).bind (charAt suffix) := rfl

/-- an integer map reads the rate suffix like its front-counted form -/
theorem mspI_eq (suffix : Label) (lm : List Int) :
    mapSubstratesToProductsI suffix lm
      = (normMap suffix.length lm).bind (mapSubstratesToProducts suffix) := by
  unfold mapSubstratesToProductsI normMap mapSubstratesToProducts
  induction lm with
  | nil => rfl
  | cons i lm ih =>
    rw [List.mapM_cons, List.mapM_cons, ih]
    simp only [charAtI, bind, Except.bind]
    cases hi : pyIndex suffix.length i with
    | error e => rfl
    | ok j =>
      simp only []
      cases hn : List.mapM (pyIndex suffix.length) lm with
      | error e =>
        have hj := pyIndex_lt hi
        simp only [charAt, List.getElem?_eq_getElem hj]
      | ok js =>
        simp only [pure, Except.pure, List.mapM_cons, bind, Except.bind]

theorem isoReactionI_eq (r : BRxn) (lm : List Int) (bs bp : List Name) (ls lp : List Nat)
    (ext w : Label) :
    isoReactionI r lm bs bp ls lp ext w
      = (normMap (w ++ ext).length lm).bind (fun lm' => isoReaction r lm' bs bp ls lp ext w) := by
  unfold isoReactionI isoReaction
  simp only [mspI_eq, bind, Except.bind]
  cases normMap (w ++ ext).length lm with
  | error e => rfl
  | ok lm' => rfl

theorem normMap_length {len : Nat} {lm : List Int} {lm' : List Nat} (h : normMap len lm = .ok lm') :
    lm'.length = lm.length := forall₂_length (mapM_ok_forall₂ _ _ _ h)

theorem patterns_ne_nil (n : Nat) : patterns n ≠ [] := by
  intro e
  have := patterns_length n
  rw [e] at this
  have : 0 < 2 ^ n := Nat.two_pow_pos _
  simp_all

theorem mapM_congr_mem {α β ε} (f g : α → Except ε β) (l : List α) (h : ∀ x ∈ l, f x = g x) :
    l.mapM f = l.mapM g := by
  induction l with
  | nil => rfl
  | cons x xs ih =>
    rw [List.mapM_cons, List.mapM_cons, h x List.mem_cons_self,
      ih (fun z hz => h z (List.mem_cons_of_mem _ hz))]

theorem mapM_all_error {α β ε} (f : α → Except ε β) (l : List α) (e : ε) (hne : l ≠ [])
    (h : ∀ x ∈ l, f x = .error e) : l.mapM f = .error e := by
  cases l with
  | nil => exact absurd rfl hne
  | cons x xs => rw [List.mapM_cons, h x List.mem_cons_self]; rfl

/-- **refinement**: `_create_isotopomer_reactions` with an integer map is: `ValueError` when the map
    is shorter than the substrates' label positions; else `IndexError` when some index is outside
    `-N ≤ i < N` (`N` = length of the rate suffix = max of substrate and product positions); else what
    it does with the map counted from the front -/
theorem isotopomerReactionsI_eq (lv : List (Name × Nat)) (r : BRxn) (lm : List Int) :
    isotopomerReactionsI lv r lm =
      if lm.length < nSub lv r then .error .valueError
      else (normMap (max (nSub lv r) (nProd lv r)) lm).bind (isotopomerReactions lv r) := by
  have hsl : ∀ w ∈ patterns (nSub lv r), (w ++ extOf lv r).length = max (nSub lv r) (nProd lv r) := by
    intro w hw
    simp only [extOf, externalLabels, List.length_append, List.length_replicate,
      mem_patterns.mp hw]; omega
  have hI : isotopomerReactionsI lv r lm =
      if lm.length < nSub lv r then .error .valueError
      else (patterns (nSub lv r)).mapM (isoReactionI r lm (subsOf r) (prodsOf r)
        (labelsPer lv (subsOf r)) (labelsPer lv (prodsOf r)) (extOf lv r)) := by
    simp only [isotopomerReactionsI, subsOf, prodsOf, nSub, nProd, extOf]
    rfl
  rw [hI]
  by_cases hlt : lm.length < nSub lv r
  · rw [if_pos hlt, if_pos hlt]
  · rw [if_neg hlt, if_neg hlt]
    cases hn : normMap (max (nSub lv r) (nProd lv r)) lm with
    | error e =>
      have he : e = .indexError := by
        obtain ⟨i, _, hi⟩ := mapM_error_exists _ _ _ hn
        exact pyIndex_error hi
      subst he
      apply mapM_all_error _ _ _ (patterns_ne_nil _)
      intro w hw
      rw [isoReactionI_eq, hsl w hw, hn]; rfl
    | ok lm' =>
      simp only [Except.bind]
      rw [isotopomerReactions_eq, if_neg (by rw [normMap_length hn]; exact hlt)]
      apply mapM_congr_mem
      intro w hw
      rw [isoReactionI_eq, hsl w hw, hn]; rfl

theorem charAtI_nat (s : Label) (i : Nat) : charAtI s (Int.ofNat i) = charAt s i := by
  simp only [charAtI, Int.ofNat_eq_natCast, pyIndex_nonneg, bind, Except.bind]
  by_cases h : i < s.length
  · rw [if_pos h]
  · rw [if_neg h]
    simp only [charAt, List.getElem?_eq_none (Nat.le_of_not_lt h)]

theorem mspI_nat (s : Label) (lm : List Nat) :
    mapSubstratesToProductsI s (lm.map Int.ofNat) = mapSubstratesToProducts s lm := by
  unfold mapSubstratesToProductsI mapSubstratesToProducts
  induction lm with
  | nil => rfl
  | cons i lm ih => rw [List.map_cons, List.mapM_cons, List.mapM_cons, ih, charAtI_nat]

/-- a map without negative indices is read as before -/
theorem isotopomerReactionsI_nat (lv : List (Name × Nat)) (r : BRxn) (lm : List Nat) :
    isotopomerReactionsI lv r (lm.map Int.ofNat) = isotopomerReactions lv r lm := by
  have hsl : ∀ w ∈ patterns (nSub lv r), (w ++ extOf lv r).length = max (nSub lv r) (nProd lv r) := by
    intro w hw
    simp only [extOf, externalLabels, List.length_append, List.length_replicate,
      mem_patterns.mp hw]; omega
  have hI : isotopomerReactionsI lv r (lm.map Int.ofNat) =
      if (lm.map Int.ofNat).length < nSub lv r then .error .valueError
      else (patterns (nSub lv r)).mapM (isoReactionI r (lm.map Int.ofNat) (subsOf r) (prodsOf r)
        (labelsPer lv (subsOf r)) (labelsPer lv (prodsOf r)) (extOf lv r)) := by
    simp only [isotopomerReactionsI, subsOf, prodsOf, nSub, nProd, extOf]
    rfl
  rw [hI, isotopomerReactions_eq, List.length_map]
  split
  · rfl
  · apply mapM_congr_mem
    intro w _
    unfold isoReactionI isoReaction
    dsimp only
    rw [mspI_nat]

/-! ### whole model -/

theorem buildModelI_rxns {b : Base} {lv : List (Name × Nat)} {maps : List (Name × List Int)}
    {il : List (Name × List Nat)} {m : LModel} (hb : buildModelI b lv maps il = .ok m) :
    ∃ groups, b.rxns.mapM (buildRxnI lv maps) = .ok groups ∧ m.rxns = groups.flatten ∧
      m.vars = buildVars lv il b.vars ∧ m.pars = b.pars ∧
      m.totals = lv.map (fun kn => (plain (kn.1 ++ "__total"), binaryLabels kn.1 kn.2)) := by
  unfold buildModelI at hb
  cases hg : b.rxns.mapM (buildRxnI lv maps) with
  | error e => rw [hg] at hb; simp [bind, Except.bind] at hb
  | ok groups =>
    rw [hg] at hb
    simp only [bind, Except.bind, pure, Except.pure, Except.ok.injEq] at hb
    subst hb
    exact ⟨groups, rfl, rfl, rfl, rfl, rfl⟩

/-- a group of the integer-map model is a group of the natural-number model for the front-counted
    map of that reaction -/
theorem buildRxnI_as_nat {lv : List (Name × Nat)} {maps : List (Name × List Int)} {r : BRxn}
    {grp : List LRxn} (h : buildRxnI lv maps r = .ok grp) :
    (maps.lookup r.name = none ∧ buildRxn lv [] r = .ok grp) ∨
    (∃ lm lm', maps.lookup r.name = some lm ∧ normMap (max (nSub lv r) (nProd lv r)) lm = .ok lm' ∧
      lm'.length = lm.length ∧ buildRxn lv [(r.name, lm')] r = .ok grp) := by
  unfold buildRxnI at h
  cases hl : maps.lookup r.name with
  | none =>
    rw [hl] at h
    exact Or.inl ⟨rfl, by simpa [buildRxn, List.lookup] using h⟩
  | some lm =>
    rw [hl] at h
    simp only at h
    rw [isotopomerReactionsI_eq] at h
    split at h
    · cases h
    · cases hn : normMap (max (nSub lv r) (nProd lv r)) lm with
      | error e => rw [hn] at h; cases h
      | ok lm' =>
        rw [hn] at h
        simp only [Except.bind] at h
        exact Or.inr ⟨lm, lm', rfl, hn, normMap_length hn, by simpa [buildRxn, List.lookup] using h⟩

/-- `RxnOk` for integer maps -/
def RxnOkI (lv : List (Name × Nat)) (maps : List (Name × List Int)) (r : BRxn) : Prop :=
  match maps.lookup r.name with
  | some lm => nProd lv r ≤ lm.length ∧ MassAction lv r
  | none => (∀ kv ∈ r.stoich, lv.lookup kv.1 = none) ∧ (r.stoich.map (·.1)).Nodup

theorem group_dynamicsI {lv : List (Name × Nat)} {maps : List (Name × List Int)} {r : BRxn}
    {grp : List LRxn} (hg : buildRxnI lv maps r = .ok grp) (hr : RxnOkI lv maps r)
    (σ : LName → Rat)
    (hσ : ∀ k n, lv.lookup k = some n → σ (plain (k ++ "__total")) = totalOf σ k n) (x : Name) :
    ((binaryLabels x (labelsOf lv x)).map (rhsOf grp σ)).sum
      = (netStoich r.stoich x : Rat) * r.rate (fun a => σ (totalName lv a)) := by
  unfold RxnOkI at hr
  rcases buildRxnI_as_nat hg with ⟨hl, hb⟩ | ⟨lm, lm', hl, _, hlen, hb⟩
  · rw [hl] at hr
    exact group_dynamics hb (by simpa [RxnOk, List.lookup] using hr) σ hσ x
  · rw [hl] at hr
    exact group_dynamics hb (by simpa [RxnOk, List.lookup, hlen] using hr) σ hσ x

end Mxl.C05
