/-
Lemmas about `_check_if_is_sortable`'s payload and the error kinds of `sortDeps`.
-/
import MxlVerif.Lemmas.Sort
namespace Mxl

theorem mem_insertSorted (m x : Name) (l : List Name) :
    m ∈ insertSorted x l ↔ m = x ∨ m ∈ l := by
  induction l with
  | nil => simp [insertSorted]
  | cons y ys ih =>
    unfold insertSorted
    split
    · simp
    · split
      · rename_i h; have : x = y := by simpa using h
        subst this; simp
      · simp [ih]; constructor
        · rintro (h | h | h) <;> simp [h]
        · rintro (h | h | h) <;> simp [h]

theorem mem_sortDedup (m : Name) (l : List Name) : m ∈ sortDedup l ↔ m ∈ l := by
  unfold sortDedup
  induction l with
  | nil => simp
  | cons x xs ih => simp [List.foldr, mem_insertSorted, ih]

theorem mem_missingOf (av : List Name) (d : Dep) (m : Name) :
    m ∈ missingOf av d ↔ m ∈ d.required ∧ m ∉ av := by
  simp [missingOf, mem_sortDedup, List.mem_filter]

theorem mem_allAvailable (av : List Name) (els : List Dep) (r : Name) :
    r ∈ allAvailable av els ↔ r ∈ av ∨ ∃ p ∈ els, r ∈ p.provided := by
  simp [allAvailable, List.mem_flatMap]

theorem sortable_complete {av : List Name} {els : List Dep} (hs : Sortable av els) :
    ∀ d ∈ els, ∀ r ∈ d.required, r ∈ allAvailable av els := by
  obtain ⟨rank, h⟩ := hs
  intro d hd r hr
  rw [mem_allAvailable]
  rcases h d hd r hr with h1 | ⟨p, hp, hrp, _⟩
  · exact Or.inl h1
  · exact Or.inr ⟨p, hp, hrp⟩

theorem omInsert_fresh {β} (m : List (Name × β)) (k : Name) (v : β)
    (h : ∀ kv ∈ m, kv.1 ≠ k) : omInsert m k v = m ++ [(k, v)] := by
  induction m with
  | nil => simp [omInsert]
  | cons x xs ih =>
    obtain ⟨k', v'⟩ := x
    have hne : k' ≠ k := h (k', v') (by simp)
    have : (k' == k) = false := by simpa using hne
    simp [omInsert, this, ih (fun kv hkv => h kv (List.mem_cons_of_mem _ hkv))]

theorem notSolvable_fold (all : List Name) :
    ∀ (els : List Dep) (acc : List (Name × List Name)),
      (els.map (·.name)).Nodup → (∀ kv ∈ acc, ∀ d ∈ els, kv.1 ≠ d.name) →
      els.foldl (fun acc d => if ready all d then acc else omInsert acc d.name (missingOf all d)) acc
        = acc ++ els.filterMap (fun d => if ready all d then none else some (d.name, missingOf all d)) := by
  intro els
  induction els with
  | nil => intro acc _ _; simp
  | cons d ds ih =>
    intro acc hnd hfresh
    simp only [List.map_cons, List.nodup_cons, List.mem_map, not_exists, not_and] at hnd
    simp only [List.foldl_cons]
    by_cases hr : ready all d = true
    · simp only [hr, if_true]
      rw [ih acc hnd.2 (fun kv hkv e he => hfresh kv hkv e (List.mem_cons_of_mem _ he))]
      simp [hr]
    · have hr' : ready all d = false := by simpa using hr
      simp only [hr', Bool.false_eq_true, if_false]
      rw [omInsert_fresh acc d.name _ (fun kv hkv => hfresh kv hkv d (by simp))]
      rw [ih _ hnd.2 (by
        intro kv hkv e he
        rcases List.mem_append.mp hkv with h | h
        · exact hfresh kv h e (List.mem_cons_of_mem _ he)
        · simp at h; subst h; exact fun heq => hnd.1 e he heq.symm)]
      simp [hr']

theorem notSolvable_eq_filterMap (av : List Name) (els : List Dep)
    (hnd : (els.map (·.name)).Nodup) :
    notSolvable av els = els.filterMap (fun d =>
      if ready (allAvailable av els) d then none
      else some (d.name, missingOf (allAvailable av els) d)) := by
  unfold notSolvable
  simpa using notSolvable_fold (allAvailable av els) els [] hnd (by simp)

/-- the fold only grows, and grows on every non-ready element -/
theorem notSolvable_fold_nil_iff (all : List Name) :
    ∀ (els : List Dep) (acc : List (Name × List Name)),
      (els.foldl (fun acc d => if ready all d then acc else omInsert acc d.name (missingOf all d)) acc = []
        ↔ acc = [] ∧ ∀ d ∈ els, ready all d = true) := by
  intro els
  induction els with
  | nil => intro acc; simp
  | cons d ds ih =>
    intro acc
    simp only [List.foldl_cons]
    by_cases hr : ready all d = true
    · simp [hr, ih]
    · have hr' : ready all d = false := by simpa using hr
      simp only [hr', Bool.false_eq_true, if_false, ih]
      constructor
      · rintro ⟨h, _⟩
        cases acc with
        | nil => simp [omInsert] at h
        | cons x xs =>
          obtain ⟨k', v'⟩ := x
          simp only [omInsert] at h
          split at h <;> cases h
      · rintro ⟨_, h⟩
        have := h d (by simp)
        rw [hr'] at this; cases this

theorem checkSortable_ok_iff (av : List Name) (els : List Dep) :
    checkSortable av els = .ok () ↔ ∀ d ∈ els, ∀ r ∈ d.required, r ∈ allAvailable av els := by
  unfold checkSortable
  have hnil := notSolvable_fold_nil_iff (allAvailable av els) els []
  have hdef : notSolvable av els = els.foldl (fun acc d =>
      if ready (allAvailable av els) d then acc
      else omInsert acc d.name (missingOf (allAvailable av els) d)) [] := rfl
  cases hns : notSolvable av els with
  | nil =>
    simp only [List.isEmpty_nil, if_true, true_iff]
    rw [hdef] at hns
    have := (hnil.mp hns).2
    intro d hd r hr
    exact (ready_iff _ d).mp (this d hd) r hr
  | cons x xs =>
    simp only [List.isEmpty_cons, Bool.false_eq_true, if_false]
    constructor
    · intro h; cases h
    · intro h
      exfalso
      rw [hdef] at hns
      have : els.foldl (fun acc d => if ready (allAvailable av els) d then acc
          else omInsert acc d.name (missingOf (allAvailable av els) d)) [] = [] :=
        hnil.mpr ⟨rfl, fun d hd => (ready_iff _ d).mpr (h d hd)⟩
      rw [this] at hns; cases hns

theorem sortLoop_error_circular (els : List Dep) :
    ∀ (b : Nat) (av : List Name) (q : List Dep) (last : Option Name) (order : List Name) (e : Err),
      sortLoop els b av q last order = .error e → ∃ u, e = .circular u := by
  intro b
  induction b with
  | zero =>
    intro av q last order e h
    cases q with
    | nil => simp [sortLoop] at h
    | cons d rest =>
      unfold sortLoop at h
      split at h
      · simp at h; exact ⟨_, h.symm⟩
      · split at h
        · simp at h; exact ⟨_, h.symm⟩
        · simp at h; exact ⟨_, h.symm⟩
  | succ b ih =>
    intro av q last order e h
    cases q with
    | nil => simp [sortLoop] at h
    | cons d rest =>
      unfold sortLoop at h
      split at h
      · exact ih _ _ _ _ _ h
      · split at h
        · simp at h; exact ⟨_, h.symm⟩
        · exact ih _ _ _ _ _ h

theorem sortDeps_error_kinds (av : List Name) (els : List Dep) (e : Err)
    (h : sortDeps av els = .error e) :
    (∃ m, e = .missing m ∧ m ≠ []) ∨ ∃ u, e = .circular u := by
  unfold sortDeps at h
  cases hc : checkSortable av els with
  | error e' =>
    simp [hc, bind, Except.bind] at h
    subst h
    unfold checkSortable at hc
    simp only at hc
    split at hc
    · cases hc
    · rename_i hne
      simp at hc
      refine Or.inl ⟨_, hc.symm, ?_⟩
      intro hnil; rw [hnil] at hne; simp at hne
  | ok u =>
    simp [hc, bind, Except.bind] at h
    exact Or.inr (sortLoop_error_circular els _ av els none [] e h)

/-- whatever `sortDeps` returns normally is a valid schedule of all components -/
theorem sortDeps_ok_sched (av : List Name) (els : List Dep)
    (hnd : (els.map (·.name)).Nodup) (o : List Name) (h : sortDeps av els = .ok o) :
    o.Perm (els.map (·.name)) ∧ Sched els av o ∧ Sortable av els := by
  unfold sortDeps at h
  cases hc : checkSortable av els with
  | error e => simp [hc, bind, Except.bind] at h
  | ok u =>
    simp [hc, bind, Except.bind] at h
    obtain ⟨tail, hot, hsched, hperm⟩ := sortLoop_sound els _ av els none [] o (fun d hd => hd) h
    have hperm' : o.Perm (els.map (·.name)) := by simpa [hot] using hperm
    have hsched' : Sched els av o := by simpa [hot] using hsched
    refine ⟨hperm', hsched', ⟨fun n => o.idxOf n, ?_⟩⟩
    intro d hd r hr
    have hmem : d.name ∈ o := hperm'.mem_iff.mpr (List.mem_map.mpr ⟨d, hd, rfl⟩)
    exact sched_rank hnd av o hsched' d hd hmem r hr

end Mxl
