/- C12 — the recompiling Jacobian closure follows the model's parameter values (core Lean only). -/
import MxlVerif.Lemmas.C12JacFn
namespace Mxl.C12
open Mxl

/-- compiling and evaluating at the model's own values is what `callJac` does -/
theorem callJac_of_compile (now : SContent) (t : Rat) (xs : List Rat) (f : JacFn)
    (vn pn : List Name) (values : List Rat) (J : List (List Rat))
    (hja : jacArgs now = .ok (vn, pn, values)) (hf : compileJac now = .ok f)
    (hJ : evalJacFn f t xs values = .ok J) : callJac now t xs = .ok (some J) := by
  unfold compileJac at hf
  cases hs : toSymbolic now with
  | error err => simp [hs, bind, Except.bind] at hf
  | ok es =>
    simp only [hs, hja, bind, Except.bind, pure, Except.pure, Except.ok.injEq] at hf
    subst hf
    unfold callJac simJacobian
    simp only [hs, hja, bind, Except.bind]
    unfold evalJacFn at hJ
    split at hJ
    · simp at hJ
    · rename_i hlen
      simp only [hlen]
      split at hJ
      · simp at hJ
      · rename_i hunb
        simp only [pure, Except.pure, Except.ok.injEq] at hJ
        simp [hunb, hJ, pure, Except.pure]

/-- **the installed closure follows the model**: called while the model's content is `now`, it
    returns what a closure installed on `now` returns — provided `now` is the content it was
    installed on, or the tuple of parameter values differs from the one it was compiled for -/
theorem closure_follows (c now : SContent) (cl cl' : JacClosure) (t : Rat) (xs : List Rat)
    (J : List (List Rat)) (hi : installJac c = some cl)
    (hcase : now = c ∨ ∀ vn pn values, jacArgs now = .ok (vn, pn, values) → values ≠ cl.vals)
    (hcall : cl.call now t xs = .ok (cl', J)) : callJac now t xs = .ok (some J) := by
  unfold JacClosure.call at hcall
  cases hja : jacArgs now with
  | error err => simp [hja, bind, Except.bind] at hcall
  | ok args =>
    obtain ⟨vn, pn, values⟩ := args
    simp only [hja, bind, Except.bind] at hcall
    by_cases hv : values = cl.vals
    · -- not recompiled: only sound when `now = c`
      rcases hcase with hnc | hne
      · subst hnc
        have hb : (values != cl.vals) = false := by simp [hv]
        simp only [hb, Bool.false_eq_true, if_false, pure, Except.pure] at hcall
        cases hJ : evalJacFn cl.fn t xs values with
        | error err => simp [hJ] at hcall
        | ok J' =>
          simp only [hJ, Except.ok.injEq, Prod.mk.injEq] at hcall
          obtain ⟨_, hJJ⟩ := hcall
          subst hJJ
          -- the installed function is the one `compileJac` builds
          unfold installJac at hi
          cases hsj : simJacobian now with
          | none => simp [hsj] at hi
          | some f =>
            simp only [hsj, hja, Option.some.injEq] at hi
            subst hi
            apply callJac_of_compile now t xs f vn pn values J' hja _ hJ
            unfold simJacobian at hsj
            unfold compileJac
            cases hs : toSymbolic now with
            | error err => simp [hs] at hsj
            | ok es =>
              simp only [hs, hja, Option.some.injEq] at hsj
              simp [hja, bind, Except.bind, pure, Except.pure, hsj]
      · exact absurd hv (hne vn pn values hja)
    · have hb : (values != cl.vals) = true := by simp [hv]
      simp only [hb, if_true] at hcall
      cases hf : compileJac now with
      | error err => simp [hf] at hcall
      | ok f =>
        simp only [hf, pure, Except.pure] at hcall
        cases hJ : evalJacFn f t xs values with
        | error err => simp [hJ] at hcall
        | ok J' =>
          simp only [hJ, Except.ok.injEq, Prod.mk.injEq] at hcall
          obtain ⟨_, hJJ⟩ := hcall
          subst hJJ
          exact callJac_of_compile now t xs f vn pn values J' hja hf hJ

end Mxl.C12
