/-
Lemmas about `Model/Sort.lean`: the queue loop terminates within the code's own
iteration cap on every sortable graph, and whatever it returns is a valid schedule.
-/
import MxlVerif.Model.Sort
namespace Mxl

/-! ### specification vocabulary -/

/-- A dependency graph can be resolved: every requirement is available from the start
    or provided by a component of strictly smaller rank (complete AND acyclic). -/
def Sortable (av : List Name) (els : List Dep) : Prop :=
  ∃ rank : Name → Nat, ∀ d ∈ els, ∀ r ∈ d.required,
    r ∈ av ∨ ∃ p ∈ els, r ∈ p.provided ∧ rank p.name < rank d.name

/-- `o` is a valid evaluation order: each named element is ready when it is placed. -/
inductive Sched (els : List Dep) : List Name → List Name → Prop
  | nil (av : List Name) : Sched els av []
  | cons (av : List Name) (d : Dep) (rest : List Name) :
      d ∈ els → ready av d = true → Sched els (d.provided ++ av) rest →
      Sched els av (d.name :: rest)

theorem ready_iff (av : List Name) (d : Dep) :
    ready av d = true ↔ ∀ r ∈ d.required, r ∈ av := by
  simp [ready, List.all_eq_true]

theorem ready_false_iff (av : List Name) (d : Dep) :
    ready av d = false ↔ ∃ r ∈ d.required, r ∉ av := by
  rw [← Bool.not_eq_true, ready_iff]; simp

/-! ### the triangular bound -/

def tri : Nat → Nat
  | 0 => 0
  | n + 1 => tri n + (n + 1)

theorem tri_le_sq (n : Nat) : tri n ≤ n * n := by
  induction n with
  | zero => simp [tri]
  | succ n ih => simp [tri]; rw [Nat.add_mul, Nat.mul_add]; omega

/-- the iteration cap read from the current source covers the triangular potential.
    (Re-checked on every run against `Generated/C02.lean`.) -/
theorem tri_le_cap (n : Nat) : tri n ≤ Generated.C02.maxIterations n := by
  unfold Generated.C02.maxIterations
  rw [Nat.pow_two]
  exact tri_le_sq n

theorem le_tri (n : Nat) : n ≤ tri n := by
  induction n with
  | zero => simp [tri]
  | succ n ih => simp [tri]

/-! ### abstract loop invariant -/

structure SortInv (I : List Name → List Dep → Prop) : Prop where
  succ : ∀ av d rest, I av (d :: rest) → ready av d = true → I (d.provided ++ av) rest
  rot  : ∀ av d rest, I av (d :: rest) → I av (rest ++ [d])
  prog : ∀ av q, I av q → q ≠ [] → ∃ d ∈ q, ready av d = true
  nodup : ∀ av q, I av q → (q.map (·.name)).Nodup

/-- `last_name`, when set, names the last element of the queue. -/
def LastOk (last : Option Name) (q : List Dep) : Prop :=
  ∀ x, last = some x → ∀ d, q.getLast? = some d → d.name = x

theorem lastOk_succ {last d rest} (h : LastOk last (d :: rest)) : LastOk last rest := by
  intro x hx e he
  cases rest with
  | nil => simp at he
  | cons r rs =>
    apply h x hx e
    simpa [List.getLast?_cons_cons] using he

theorem lastOk_rot (d : Dep) (rest : List Dep) : LastOk (some d.name) (rest ++ [d]) := by
  intro x hx e he
  simp at hx he
  subst hx; subst he; rfl

/-- On every graph that satisfies an invariant with progress, the loop returns normally
    whenever the remaining budget covers the triangular potential. -/
theorem sortLoop_ok {I} (hI : SortInv I) (els : List Dep) :
    ∀ (b : Nat) (av : List Name) (q : List Dep) (last : Option Name) (order : List Name)
      (pre suf : List Dep),
      I av q → q = pre ++ suf → (∀ d ∈ suf, ready av d = false) → LastOk last q →
      tri q.length ≤ b + suf.length → ∃ o, sortLoop els b av q last order = .ok o := by
  intro b
  induction b with
  | zero =>
    intro av q last order pre suf hq hsplit hsuf hlast hfuel
    cases q with
    | nil => exact ⟨order.reverse, by simp [sortLoop]⟩
    | cons d rest =>
      exfalso
      have hlen : (d :: rest).length = pre.length + suf.length := by rw [hsplit]; simp
      have htri := le_tri (d :: rest).length
      have hpre : pre = [] := by
        have : pre.length = 0 := by omega
        exact List.eq_nil_of_length_eq_zero this
      subst hpre
      obtain ⟨x, hx, hr⟩ := hI.prog _ _ hq (by simp)
      have : x ∈ suf := by simpa [hsplit] using hx
      rw [hsuf x this] at hr; cases hr
  | succ b ih =>
    intro av q last order pre suf hq hsplit hsuf hlast hfuel
    cases q with
    | nil => exact ⟨order.reverse, by simp [sortLoop]⟩
    | cons d rest =>
      have hlen : (d :: rest).length = pre.length + suf.length := by rw [hsplit]; simp
      obtain ⟨x, hx, hr⟩ := hI.prog _ _ hq (by simp)
      have hpre : pre ≠ [] := by
        intro h; subst h
        have : x ∈ suf := by simpa [hsplit] using hx
        rw [hsuf x this] at hr; cases hr
      obtain ⟨p, pre', rfl⟩ := List.exists_cons_of_ne_nil hpre
      simp at hsplit
      obtain ⟨rfl, hrest⟩ := hsplit
      unfold sortLoop
      by_cases hd : ready av d = true
      · simp only [hd, if_true]
        apply ih (d.provided ++ av) rest _ _ rest [] (hI.succ _ _ _ hq hd) (by simp) (by simp)
          (lastOk_succ hlast)
        simp [tri] at hfuel ⊢
        have : suf.length ≤ rest.length := by rw [hrest]; simp
        omega
      · simp only [hd, Bool.false_eq_true, if_false]
        -- the `last_name` shortcut cannot fire
        have hshort : ¬ (last == some d.name) = true := by
          intro hl
          have hl' : last = some d.name := by simpa using hl
          cases rest with
          | nil =>
            -- queue = [d], d not ready, but some element of the queue is ready
            have : x = d := by simpa using hx
            subst this; exact hd hr
          | cons r rs =>
            have hnd := hI.nodup _ _ hq
            have hl2 := hlast d.name hl' ((r :: rs).getLast (by simp))
              (by simp [List.getLast?_eq_some_getLast])
            have hmem : ((r :: rs).getLast (by simp)) ∈ (r :: rs) := List.getLast_mem _
            simp only [List.map_cons, List.nodup_cons] at hnd
            exact hnd.1 (List.mem_map.mpr ⟨_, hmem, hl2⟩)
        simp only [hshort]
        apply ih av (rest ++ [d]) _ _ pre' (suf ++ [d]) (hI.rot _ _ _ hq) (by simp [hrest])
        · intro y hy
          rcases List.mem_append.mp hy with h | h
          · exact hsuf y h
          · simp at h; subst h; simpa using hd
        · exact lastOk_rot d rest
        · simp [tri] at hfuel ⊢; omega

/-! ### soundness: a normal return is a valid schedule of the queue -/

theorem sortLoop_sound (els : List Dep) :
    ∀ (b : Nat) (av : List Name) (q : List Dep) (last : Option Name) (order o : List Name),
      (∀ d ∈ q, d ∈ els) → sortLoop els b av q last order = .ok o →
      ∃ tail, o = order.reverse ++ tail ∧ Sched els av tail ∧ tail.Perm (q.map (·.name)) := by
  intro b
  induction b with
  | zero =>
    intro av q last order o hq h
    cases q with
    | nil =>
      simp [sortLoop] at h
      exact ⟨[], by simp [h], Sched.nil _, by simp⟩
    | cons d rest =>
      unfold sortLoop at h
      split at h
      · simp at h
      · split at h <;> simp at h
  | succ b ih =>
    intro av q last order o hq h
    cases q with
    | nil =>
      simp [sortLoop] at h
      exact ⟨[], by simp [h], Sched.nil _, by simp⟩
    | cons d rest =>
      unfold sortLoop at h
      split at h
      · rename_i hd
        obtain ⟨tail, ho, hs, hp⟩ := ih _ rest last (d.name :: order) o
          (fun e he => hq e (List.mem_cons_of_mem _ he)) h
        refine ⟨d.name :: tail, by simp [ho], ?_, ?_⟩
        · exact Sched.cons av d tail (hq d (by simp)) hd hs
        · simpa using hp
      · split at h
        · simp at h
        · obtain ⟨tail, ho, hs, hp⟩ := ih _ (rest ++ [d]) (some d.name) order o
            (by intro e he
                rcases List.mem_append.mp he with h1 | h1
                · exact hq e (List.mem_cons_of_mem _ h1)
                · simp at h1; subst h1; exact hq e (by simp)) h
          refine ⟨tail, ho, hs, ?_⟩
          refine hp.trans ?_
          simp only [List.map_append, List.map_cons, List.map_nil]
          exact List.perm_append_singleton _ _

/-! ### a valid schedule covering every element witnesses sortability -/

theorem eq_of_name_eq {els : List Dep} (hnd : (els.map (·.name)).Nodup) {d e : Dep}
    (hd : d ∈ els) (he : e ∈ els) (h : d.name = e.name) : d = e := by
  induction els with
  | nil => cases hd
  | cons x xs ih =>
    simp only [List.map_cons, List.nodup_cons, List.mem_map, not_exists, not_and] at hnd
    rcases List.mem_cons.mp hd with rfl | hd'
    · rcases List.mem_cons.mp he with rfl | he'
      · rfl
      · exact absurd h.symm (hnd.1 e he')
    · rcases List.mem_cons.mp he with rfl | he'
      · exact absurd h (hnd.1 d hd')
      · exact ih hnd.2 hd' he'

theorem idxOf_cons_ne' (a b : Name) (l : List Name) (h : a ≠ b) :
    (a :: l).idxOf b = l.idxOf b + 1 := by
  rw [List.idxOf_cons]
  have : (a == b) = false := by simpa using h
  simp [this]

theorem sched_rank {els : List Dep} (hnd : (els.map (·.name)).Nodup) :
    ∀ (av : List Name) (o : List Name), Sched els av o →
      ∀ d ∈ els, d.name ∈ o → ∀ r ∈ d.required,
        r ∈ av ∨ ∃ p ∈ els, r ∈ p.provided ∧ o.idxOf p.name < o.idxOf d.name := by
  intro av o hs
  induction hs with
  | nil av => intro d _ hm; cases hm
  | cons av d0 rest hd0 hready hs ih =>
    intro d hd hm r hr
    by_cases hname : d.name = d0.name
    · have : d = d0 := eq_of_name_eq hnd hd hd0 hname
      subst this
      exact Or.inl ((ready_iff av d).mp hready r hr)
    · have hm' : d.name ∈ rest := by
        rcases List.mem_cons.mp hm with h | h
        · exact absurd h hname
        · exact h
      have hidx : (d0.name :: rest).idxOf d.name = rest.idxOf d.name + 1 := by
        exact idxOf_cons_ne' _ _ _ (fun h => hname h.symm)
      rcases ih d hd hm' r hr with h | ⟨p, hp, hrp, hlt⟩
      · rcases List.mem_append.mp h with h1 | h1
        · refine Or.inr ⟨d0, hd0, h1, ?_⟩
          rw [hidx]; simp
        · exact Or.inl h1
      · refine Or.inr ⟨p, hp, hrp, ?_⟩
        rw [hidx]
        by_cases hpn : p.name = d0.name
        · rw [hpn]; simp
        · rw [idxOf_cons_ne' _ _ _ (fun h => hpn h.symm)]; omega

/-! ### the concrete invariant for a sortable graph -/

def QInv (av0 : List Name) (els : List Dep) (av : List Name) (q : List Dep) : Prop :=
  (∀ d ∈ q, d ∈ els) ∧ (q.map (·.name)).Nodup ∧ (∀ a ∈ av0, a ∈ av) ∧
    (∀ d ∈ els, d ∉ q → ∀ p ∈ d.provided, p ∈ av)

theorem exists_min_rank (rank : Name → Nat) :
    ∀ (q : List Dep), q ≠ [] → ∃ d ∈ q, ∀ e ∈ q, rank d.name ≤ rank e.name := by
  intro q
  induction q with
  | nil => intro h; exact absurd rfl h
  | cons x xs ih =>
    intro _
    cases xs with
    | nil => exact ⟨x, by simp, by simp⟩
    | cons y ys =>
      obtain ⟨m, hm, hmin⟩ := ih (by simp)
      by_cases hle : rank x.name ≤ rank m.name
      · refine ⟨x, by simp, ?_⟩
        intro e he
        rcases List.mem_cons.mp he with rfl | he'
        · exact Nat.le_refl _
        · exact Nat.le_trans hle (hmin e he')
      · refine ⟨m, List.mem_cons_of_mem _ hm, ?_⟩
        intro e he
        rcases List.mem_cons.mp he with rfl | he'
        · omega
        · exact hmin e he'

theorem qinv_sortInv {av0 : List Name} {els : List Dep}
    (hs : Sortable av0 els) : SortInv (QInv av0 els) := by
  obtain ⟨rank, hrank⟩ := hs
  refine ⟨?_, ?_, ?_, ?_⟩
  · -- succ
    intro av d rest ⟨h1, h2, h3, h4⟩ _
    refine ⟨fun e he => h1 e (List.mem_cons_of_mem _ he), ?_, ?_, ?_⟩
    · simp only [List.map_cons, List.nodup_cons] at h2; exact h2.2
    · intro a ha; exact List.mem_append_right _ (h3 a ha)
    · intro e he hne p hp
      by_cases hed : e = d
      · subst hed; exact List.mem_append_left _ hp
      · exact List.mem_append_right _ (h4 e he (by simp [hed, hne]) p hp)
  · -- rot
    intro av d rest ⟨h1, h2, h3, h4⟩
    refine ⟨?_, ?_, h3, ?_⟩
    · intro e he
      rcases List.mem_append.mp he with h | h
      · exact h1 e (List.mem_cons_of_mem _ h)
      · simp at h; subst h; exact h1 e (by simp)
    · have : ((rest ++ [d]).map (·.name)).Perm ((d :: rest).map (·.name)) := by
        simp only [List.map_append, List.map_cons, List.map_nil]
        exact List.perm_append_singleton _ _
      exact this.nodup_iff.mpr h2
    · intro e he hne p hp
      exact h4 e he (by
        intro hmem
        apply hne
        rcases List.mem_cons.mp hmem with rfl | h
        · simp
        · exact List.mem_append_left _ h) p hp
  · -- prog
    intro av q ⟨h1, _, h3, h4⟩ hne
    obtain ⟨d, hd, hmin⟩ := exists_min_rank rank q hne
    refine ⟨d, hd, (ready_iff av d).mpr ?_⟩
    intro r hr
    rcases hrank d (h1 d hd) r hr with h | ⟨p, hp, hrp, hlt⟩
    · exact h3 r h
    · have hpq : p ∉ q := by
        intro hpq
        have := hmin p hpq
        omega
      exact h4 p hp hpq r hrp
  · intro av q h; exact h.2.1

end Mxl
