/-
C04: properties of the absolute-time specification machine, for every history:
strictly increasing axis, every requested point once, refusal iff not later, piecewise flow.
-/
import MxlVerif.Lemmas.C04Refine
namespace Mxl.C04

/-! ### `times` bookkeeping -/

theorem times_none {σ} : times (none : Option (List (Seg σ))) = [] := rfl

theorem times_appendSeg {σ} (segs : Option (List (Seg σ))) (rows : List (Rat × σ)) (p : Pars) (skip : Bool) :
    times (some (appendSeg segs rows p skip)) =
      match segs with
      | none => rows.map (·.1)
      | some _ => times segs ++ (if skip then rows.tail else rows).map (·.1) := by
  cases segs with
  | none => simp [times, appendSeg]
  | some l => simp [times, appendSeg, List.flatMap_append]

theorem allRows_appendSeg {σ} (segs : Option (List (Seg σ))) (rows : List (Rat × σ)) (p : Pars) (skip : Bool) :
    allRows (some (appendSeg segs rows p skip)) =
      match segs with
      | none => rows
      | some _ => allRows segs ++ (if skip then rows.tail else rows) := by
  cases segs with
  | none => simp [allRows, appendSeg]
  | some l => simp [allRows, appendSeg, List.flatMap_append]

theorem sample_times {σ} (S : Sys σ) (a : Spec σ) (grid : List Rat) :
    (Spec.sample S a grid).map (·.1) = grid := by
  simp [Spec.sample, Function.comp_def]

/-- the new points a `record` adds to the axis -/
theorem times_record {σ} (S : Sys σ) (a : Spec σ) (g' : List Rat) (tEnd : Rat) :
    times (Spec.record S a (a.now :: g') tEnd).segs =
      match a.segs with
      | none => a.now :: g'
      | some _ => times a.segs ++ g' := by
  simp only [Spec.record, times_appendSeg]
  cases a.segs with
  | none => simp [sample_times]
  | some l =>
    simp only [if_true]
    congr 1
    have : (Spec.sample S a (a.now :: g')).tail = Spec.sample S a g' := by simp [Spec.sample]
    rw [this, sample_times]

/-! ### what the simulating ops do, as a case split -/

/-- `a'` continues `a` along the strictly increasing grid `now :: g'` ending in `tEnd` -/
structure Continues {σ} (S : Sys σ) (a : Spec σ) (g' : List Rat) (tEnd : Rat) (a' : Spec σ) : Prop where
  live : a.failed = false
  pw : (a.now :: g').Pairwise (· < ·)
  last : g'.getLast? = some tEnd
  eq : a' = Spec.record S a (a.now :: g') tEnd

theorem Continues.lt {σ} {S : Sys σ} {a a' : Spec σ} {g' : List Rat} {tEnd : Rat}
    (c : Continues S a g' tEnd a') : a.now < tEnd :=
  (List.pairwise_cons.mp c.pw).1 tEnd (List.mem_of_getLast? c.last)

theorem Spec.simulate_cases {σ} (S : Sys σ) (a : Spec σ) (t : Rat) (n : Option Nat) :
    ((Spec.simulate S a t n).1 = a ∧ ((Spec.simulate S a t n).2 ≠ none ∨ a.failed = true)) ∨
    (∃ g', (Spec.simulate S a t n).2 = none ∧ a.now :: g' = linspace a.now t (nPoints n) ∧
      Continues S a g' t (Spec.simulate S a t n).1) := by
  unfold Spec.simulate
  by_cases hf : a.failed = true
  · simp [hf]
  · by_cases hle : t ≤ a.now
    · simp [hf, hle]
    · by_cases hN : nPoints n < 2
      · simp [hf, hle, hN]
      · right
        obtain ⟨m, hm⟩ : ∃ m, nPoints n = m + 2 := ⟨nPoints n - 2, by omega⟩
        obtain ⟨g', hg, hlen⟩ := linspace_cons a.now t (m + 1)
        have hp := linspace_pairwise a.now t (m + 2) (by grind)
        have hlast := linspace_getLast a.now t (m + 2) (by omega)
        rw [hg] at hp hlast
        have hne : g' ≠ [] := by intro e; subst e; simp at hlen
        have hlast' : g'.getLast? = some t := by
          rw [List.getLast?_cons] at hlast
          cases hgl : g'.getLast? with
          | none => exact absurd (List.getLast?_eq_none_iff.mp hgl) hne
          | some v => rw [hgl] at hlast; simpa using hlast
        refine ⟨g', by simp [hf, hle, hN], by rw [hm, hg], ?_⟩
        simp only [hf, hle, hN, if_false, Bool.false_eq_true, hm, hg]
        exact ⟨by simpa using hf, hp, hlast', rfl⟩

theorem Spec.timeCourse_cases {σ} (S : Sys σ) (a : Spec σ) (pts : List Rat) :
    ((Spec.timeCourse S a pts).1 = a ∧ ((Spec.timeCourse S a pts).2 ≠ none ∨ a.failed = true)) ∨
    (∃ g' last, (Spec.timeCourse S a pts).2 = none ∧ pts.getLast? = some last ∧
      (∀ t, t ∈ g' ↔ (t ∈ pts ∧ a.now < t)) ∧
      Continues S a g' last (Spec.timeCourse S a pts).1) := by
  unfold Spec.timeCourse
  by_cases hf : a.failed = true
  · simp [hf]
  · cases hl : pts.getLast? with
    | none => simp [hf]
    | some last =>
      by_cases hle : last ≤ a.now
      · simp [hf, hle]
      · have hlt : a.now < last := by grind
        have hkl : (pts.filter (a.now ≤ ·)).getLast? = some last :=
          filter_getLast? pts _ last hl (by simp; grind)
        have hmem : ∀ t, t ∈ pts.filter (a.now ≤ ·) ↔ (t ∈ pts ∧ a.now ≤ t) := by
          intro t; simp [List.mem_filter]
        simp only [hf, hle, if_false, Bool.false_eq_true]
        generalize pts.filter (a.now ≤ ·) = kept at hkl hmem
        cases kept with
        | nil => simp at hkl
        | cons k0 krest =>
          by_cases hk0 : k0 = a.now
          · subst hk0
            simp only [List.head?_cons, beq_self_eq_true, if_true]
            by_cases hp : (a.now :: krest).Pairwise (· < ·)
            · right
              have hne : krest ≠ [] := by
                intro e; subst e; simp at hkl; grind
              have hlast' : krest.getLast? = some last := by
                rw [List.getLast?_cons] at hkl
                cases hgl : krest.getLast? with
                | none => exact absurd (List.getLast?_eq_none_iff.mp hgl) hne
                | some v => rw [hgl] at hkl; simpa using hkl
              simp only [(strictInc_iff _).mpr hp, Bool.not_true, Bool.false_eq_true, if_false]
              refine ⟨krest, last, trivial, rfl, ?_, by simpa using hf, hp, hlast', rfl⟩
              intro t
              have hgt := (List.pairwise_cons.mp hp).1
              constructor
              · intro ht
                exact ⟨((hmem t).mp (List.mem_cons_of_mem _ ht)).1, hgt t ht⟩
              · rintro ⟨h1, h2⟩
                have := (hmem t).mpr ⟨h1, by grind⟩
                rcases List.mem_cons.mp this with e | e
                · grind
                · exact e
            · simp [(strictInc_false_iff _).mpr hp]
          · have hhead : ((k0 :: krest).head? == some a.now) = false := by simp [hk0]
            simp only [hhead, Bool.false_eq_true, if_false]
            by_cases hp : (a.now :: k0 :: krest).Pairwise (· < ·)
            · right
              simp only [(strictInc_iff _).mpr hp, Bool.not_true, Bool.false_eq_true, if_false]
              refine ⟨k0 :: krest, last, trivial, rfl, ?_, by simpa using hf, hp, hkl, rfl⟩
              intro t
              have hgt := (List.pairwise_cons.mp hp).1
              constructor
              · intro ht
                exact ⟨((hmem t).mp ht).1, hgt t ht⟩
              · rintro ⟨h1, h2⟩
                exact (hmem t).mpr ⟨h1, by grind⟩
            · simp [(strictInc_false_iff _).mpr hp]

/-! ### the axis invariant -/

structure Spec.Axis {σ} (a : Spec σ) : Prop where
  inv : Spec.Inv a
  sorted : (times a.segs).Pairwise (· < ·)
  bound : ∀ t ∈ times a.segs, t ≤ a.now

theorem Spec.Axis.init {σ} (p : Pars) (y0 : σ) : Spec.Axis (Spec.init p y0) :=
  ⟨⟨fun _ => ⟨rfl, rfl⟩, fun l hl => by simp [Spec.init] at hl⟩, by simp [Spec.init, times],
    by simp [Spec.init, times]⟩

theorem Continues.inv {σ} {S : Sys σ} {a a' : Spec σ} {g' : List Rat} {tEnd : Rat}
    (c : Continues S a g' tEnd a') : Spec.Inv a' := by
  rw [c.eq]
  refine ⟨fun hn => by simp [Spec.record] at hn, fun l hl => ?_⟩
  simp only [Spec.record, Option.some.injEq] at hl
  subst hl
  refine ⟨(tEnd, S.flow a.pars (tEnd - a.now) a.cur), ?_, rfl⟩
  simp only [Spec.sample, List.map_cons]
  apply lastRow?_appendSeg_skip
  rw [List.getLast?_map, c.last]; rfl

theorem Continues.axis {σ} {S : Sys σ} {a a' : Spec σ} {g' : List Rat} {tEnd : Rat}
    (c : Continues S a g' tEnd a') (ax : Spec.Axis a) : Spec.Axis a' := by
  refine ⟨c.inv, ?_, ?_⟩
  all_goals rw [c.eq, times_record]
  · cases hs : a.segs with
    | none => exact c.pw
    | some l =>
      simp only
      rw [← hs, List.pairwise_append]
      refine ⟨ax.sorted, (List.pairwise_cons.mp c.pw).2, ?_⟩
      intro x hx y hy
      have h1 := ax.bound x hx
      have h2 := (List.pairwise_cons.mp c.pw).1 y hy
      grind
  · have hb := pairwise_bounds a.now g' c.pw
    have hl : lastD (a.now :: g') a.now = tEnd := by
      unfold lastD
      rw [List.getLast?_cons, c.last]; rfl
    rw [hl] at hb
    have hlt := c.lt
    cases hs : a.segs with
    | none => intro t ht; exact (hb t ht).2
    | some l =>
      simp only
      rw [← hs]
      intro t ht
      rcases List.mem_append.mp ht with h | h
      · have := ax.bound t h
        show t ≤ tEnd
        grind
      · exact (hb t (List.mem_cons_of_mem _ h)).2

theorem Spec.step_axis {σ} (S : Sys σ) (a : Spec σ) (op : Op) (ax : Spec.Axis a) :
    Spec.Axis (Spec.step S a op).1 := by
  cases op with
  | simulate t n =>
    rcases Spec.simulate_cases S a t n with ⟨h, _⟩ | ⟨g', _, _, c⟩
    · simp only [Spec.step]; rw [h]; exact ax
    · exact c.axis ax
  | timeCourse pts =>
    rcases Spec.timeCourse_cases S a pts with ⟨h, _⟩ | ⟨g', last, _, _, _, c⟩
    · simp only [Spec.step]; rw [h]; exact ax
    · exact c.axis ax
  | steady res =>
    simp only [Spec.step, Spec.steady]
    by_cases hf : a.failed = true
    · simp only [hf, if_true]; exact ax
    · simp only [hf, if_false, Bool.false_eq_true]
      cases steadyIter res with
      | none => exact ⟨⟨ax.inv.none_now, ax.inv.some_last⟩, ax.sorted, ax.bound⟩
      | some k =>
        simp only
        have hd : 0 < steadyDur k := steadyDur_pos k
        generalize steadyDur k = d at hd
        refine ⟨⟨fun hn => by simp at hn, fun l hl => ?_⟩, ?_, ?_⟩
        · simp only [Option.some.injEq] at hl
          subst hl
          exact ⟨_, lastRow?_appendSeg_one _ _ _, rfl⟩
        · simp only [times_appendSeg]
          cases hs : a.segs with
          | none => simp
          | some l =>
            simp only [Bool.false_eq_true, if_false, List.map_cons, List.map_nil]
            rw [← hs, List.pairwise_append]
            refine ⟨ax.sorted, by simp, ?_⟩
            intro x hx y hy
            have := ax.bound x hx
            simp at hy; subst hy
            grind
        · simp only [times_appendSeg]
          cases hs : a.segs with
          | none => intro t ht; simp at ht; subst ht; exact Rat.le_refl
          | some l =>
            simp only [Bool.false_eq_true, if_false, List.map_cons, List.map_nil]
            rw [← hs]
            intro t ht
            rcases List.mem_append.mp ht with h | h
            · have := ax.bound t h
              show t ≤ a.now + d
              grind
            · simp at h; subst h; exact Rat.le_refl
  | updPars kvs =>
    exact ⟨⟨ax.inv.none_now, ax.inv.some_last⟩, ax.sorted, ax.bound⟩
  | updVars ov =>
    refine ⟨⟨fun hn => ⟨(ax.inv.none_now hn).1, rfl⟩, ax.inv.some_last⟩, ax.sorted, ax.bound⟩
  | clear =>
    exact ⟨⟨fun _ => ⟨rfl, rfl⟩, fun l hl => by simp [Spec.step, Spec.clear] at hl⟩,
      by simp [Spec.step, Spec.clear, times], by simp [Spec.step, Spec.clear, times]⟩
  | simulateF t n =>
    simp only [Spec.step, Spec.simulateF]
    repeat' split
    all_goals first | exact ax | exact ⟨⟨ax.inv.none_now, ax.inv.some_last⟩, ax.sorted, ax.bound⟩
  | timeCourseF pts =>
    simp only [Spec.step, Spec.timeCourseF]
    repeat' split
    all_goals first | exact ax | exact ⟨⟨ax.inv.none_now, ax.inv.some_last⟩, ax.sorted, ax.bound⟩
  | scalePars kvs =>
    exact ⟨⟨ax.inv.none_now, ax.inv.some_last⟩, ax.sorted, ax.bound⟩

theorem Spec.run_axis {σ} (S : Sys σ) : ∀ (ops : List Op) (a : Spec σ), Spec.Axis a →
    Spec.Axis (Spec.run S a ops).1
  | [], _, ax => ax
  | op :: rest, a, ax => Spec.run_axis S rest _ (Spec.step_axis S a op ax)

/-! ### refusal, requested points, flow -/

theorem Spec.simulate_refusal {σ} (S : Sys σ) (a : Spec σ) (t : Rat) (n : Option Nat)
    (hf : a.failed = false) : (Spec.simulate S a t n).2 = some .valueError ↔ t ≤ a.now := by
  unfold Spec.simulate
  by_cases hle : t ≤ a.now
  · simp [hf, hle]
  · by_cases hN : nPoints n < 2 <;> simp [hf, hle, hN]

theorem Spec.simulate_unchanged {σ} (S : Sys σ) (a : Spec σ) (t : Rat) (n : Option Nat)
    (h : (Spec.simulate S a t n).2 ≠ none) : (Spec.simulate S a t n).1 = a := by
  rcases Spec.simulate_cases S a t n with ⟨h', _⟩ | ⟨_, h', _⟩
  · exact h'
  · exact absurd h' h

theorem Spec.timeCourse_unchanged {σ} (S : Sys σ) (a : Spec σ) (pts : List Rat)
    (h : (Spec.timeCourse S a pts).2 ≠ none) : (Spec.timeCourse S a pts).1 = a := by
  rcases Spec.timeCourse_cases S a pts with ⟨h', _⟩ | ⟨_, _, h', _⟩
  · exact h'
  · exact absurd h' h

/-- for a strictly increasing array of time points a time course is refused (ValueError) exactly
    when its last point is not later than the time reached -/
theorem Spec.timeCourse_refusal {σ} (S : Sys σ) (a : Spec σ) (pts : List Rat) (last : Rat)
    (hf : a.failed = false) (hl : pts.getLast? = some last) (hp : pts.Pairwise (· < ·)) :
    (Spec.timeCourse S a pts).2 = some .valueError ↔ last ≤ a.now := by
  unfold Spec.timeCourse
  simp only [hf, Bool.false_eq_true, if_false, hl]
  by_cases hle : last ≤ a.now
  · simp [hle]
  · simp only [hle, if_false]
    have hk : (pts.filter (a.now ≤ ·)).Pairwise (· < ·) := hp.sublist List.filter_sublist
    have hmem : ∀ t ∈ pts.filter (a.now ≤ ·), a.now ≤ t := by
      intro t ht; simpa using (List.mem_filter.mp ht).2
    generalize pts.filter (a.now ≤ ·) = kept at hk hmem
    have hgrid : strictInc (if kept.head? == some a.now then kept else a.now :: kept) = true := by
      rw [strictInc_iff]
      split
      · exact hk
      · rename_i hh
        refine List.pairwise_cons.mpr ⟨?_, hk⟩
        cases kept with
        | nil => simp
        | cons k0 kr =>
          have hk0 : k0 ≠ a.now := by simpa using hh
          have h0 := hmem k0 (by simp)
          intro x hx
          rcases List.mem_cons.mp hx with rfl | hx
          · grind
          · have := (List.pairwise_cons.mp hk).1 x hx
            grind
    simp only [hgrid, Bool.not_true, Bool.false_eq_true, if_false]
    simp [hle]

theorem count_eq_one_of_pairwise (l : List Rat) (h : l.Pairwise (· < ·)) (t : Rat) (ht : t ∈ l) :
    l.count t = 1 := by
  have hnd : l.Nodup := h.imp (by intro a b hab; grind)
  have h1 := List.nodup_iff_count.mp hnd t
  have h2 := List.count_pos_iff.mpr ht
  omega

/-- every point of the grid later than `now` is on the axis afterwards, exactly once -/
theorem Continues.once {σ} {S : Sys σ} {a a' : Spec σ} {g' : List Rat} {tEnd : Rat}
    (c : Continues S a g' tEnd a') (ax : Spec.Axis a) (t : Rat) (ht : t ∈ g') :
    (times a'.segs).count t = 1 := by
  apply count_eq_one_of_pairwise _ (c.axis ax).sorted
  rw [c.eq, times_record]
  cases a.segs with
  | none => exact List.mem_cons_of_mem _ ht
  | some l => exact List.mem_append_right _ ht

/-- the rows a continuation adds: the flow from (`now`, `cur`) under the parameters in force,
    sampled on the grid; the first (duplicated) row is kept only when there was no result yet -/
theorem Continues.rows {σ} {S : Sys σ} {a a' : Spec σ} {g' : List Rat} {tEnd : Rat}
    (c : Continues S a g' tEnd a') :
    a'.segs = some (appendSeg a.segs
      ((a.now :: g').map fun t => (t, S.flow a.pars (t - a.now) a.cur)) a.pars true) ∧
    a'.now = tEnd ∧ a'.cur = S.flow a.pars (tEnd - a.now) a.cur ∧ a'.pars = a.pars := by
  rw [c.eq]; exact ⟨rfl, rfl, rfl, rfl⟩

theorem allRows_record {σ} (S : Sys σ) (a : Spec σ) (g' : List Rat) (tEnd : Rat) :
    allRows (Spec.record S a (a.now :: g') tEnd).segs =
      match a.segs with
      | none => Spec.sample S a (a.now :: g')
      | some _ => allRows a.segs ++ Spec.sample S a g' := by
  simp only [Spec.record, allRows_appendSeg]
  cases a.segs with
  | none => rfl
  | some l => simp [Spec.sample]

end Mxl.C04
