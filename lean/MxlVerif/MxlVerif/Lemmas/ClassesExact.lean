/-
`get_derived_parameters` / `get_derived_variables` (model: `getClasses`) classify exactly:
a derived quantity is reported as a derived parameter iff it depends, through any chain, only on
parameters (`OnlyParams`).  Bridges the cache's parameter table (`allPars_frozen`) and the
one-pass classification (`classify_spec`, `classify_complete`).
-/
import MxlVerif.Lemmas.NamesFinal
import MxlVerif.Lemmas.Total
import MxlVerif.Lemmas.ClassifyComplete
import MxlVerif.Model.Queries
namespace Mxl

/-- a predicate splits a list: counts add up -/
theorem count_filter_add (p : Name → Bool) (l : List Name) (k : Name) :
    (l.filter p).count k + (l.filter fun x => !p x).count k = l.count k := by
  induction l with
  | nil => simp
  | cons x xs ih =>
    cases hp : p x <;> simp [hp, List.count_cons] <;> omega

/-- which names the cache's parameter table holds — without reference to any state -/
theorem allPars_keys {c : Content} (hn : WFnames c) {cache : Cache}
    (hc : createCache c = .ok cache) (n : Name) :
    n ∈ omKeys cache.allPars ↔ n ∈ omKeys (plainOf c.pars) ∨
      (n ∈ cache.order ∧ n ∉ cache.dynOrder ∧ n ∉ omKeys c.vars) := by
  obtain ⟨_, _, _, hik, _, _, _, _⟩ := createCache_consistent (WFc_of_names c hn) hc
  obtain ⟨env, he⟩ := getArgsEnv_total hn hc cache.init hik 0
  obtain ⟨_, _, _, _, hkeys, _⟩ := allPars_frozen hn hc cache.init hik 0 he
  exact hkeys n

/-- a derived quantity is on the dynamic list iff it does not depend only on parameters -/
theorem derived_static_iff {c : Content} (hn : WFnames c) {cache : Cache}
    (hc : createCache c = .ok cache) {k : Name} (hk : k ∈ omKeys c.derived) :
    k ∉ cache.dynOrder ↔ OnlyParams c k := by
  have hwf := WFd_of_names c hn
  have hdist := DerivedDistinct_of_names hn
  obtain ⟨_, _, _, _, _, _, hperm, hsched⟩ := createCache_consistent hwf.toWFc hc
  obtain ⟨order, dependent, st, dst, init, extra, _, _, _, _, _, hcache⟩ := createCache_ok hc
  have horder : cache.order = order := by rw [hcache]
  rw [horder] at hperm hsched
  obtain ⟨S, D, A, heq, hS, hD, hcov, hdyn, hstat, hnew, hg, hdisj⟩ :=
    classify_spec c order [] [] (omKeys c.pars) (fun a ha => Or.inl ha)
  have hdynO : cache.dynOrder = D := by rw [hcache, heq]; simp
  have hordNd : order.Nodup := hperm.nodup_iff.mpr hwf.keysNodup
  have hkO : k ∈ order := by
    apply hperm.mem_iff.mpr
    rw [hn.keys_toSort]
    simp [hk]
  obtain ⟨d, hd⟩ := lookup_isSome_of_mem_keys hk
  obtain ⟨hrs, hvp⟩ := hdist k d hd
  rw [hdynO]
  constructor
  · intro hnD
    rcases hcov k hkO with h | h | ⟨_, _, h⟩
    · rcases (hstat k h).2 with h' | ⟨d', hd', hall⟩
      · rw [hvp] at h'; cases h'
      · exact OnlyParams.intro' k d' hd' (fun a ha => hg a (hall a ha))
    · exact absurd h hnD
    · rw [hd] at h; cases h
  · intro hop hD
    have hSk := (classify_complete hwf hdist hsched hkO hop).2
    rw [heq] at hSk
    simp only [List.reverse_nil, List.nil_append] at hSk
    exact hdisj hordNd k hSk hD

/-- which scheduled names `_create_cache` puts on the dynamic list: reactions, surrogates and the
    derived quantities that do not depend on parameters only -/
theorem dynOrder_spec {c : Content} (hn : WFnames c) {cache : Cache}
    (hc : createCache c = .ok cache) {k : Name} (hkO : k ∈ cache.order) :
    k ∈ cache.dynOrder ↔ (isRS c k = true ∨ (k ∈ omKeys c.derived ∧ ¬ OnlyParams c k)) := by
  have hwf := WFd_of_names c hn
  obtain ⟨order, dependent, st, dst, init, extra, _, _, _, _, _, hcache⟩ := createCache_ok hc
  have horder : cache.order = order := by rw [hcache]
  obtain ⟨S, D, A, heq, hS, hD, hcov, hdyn, hstat, hnew, hg, hdisj⟩ :=
    classify_spec c order [] [] (omKeys c.pars) (fun a ha => Or.inl ha)
  have hdynO : cache.dynOrder = D := by rw [hcache, heq]; simp
  constructor
  · intro hD'
    have hkD : k ∈ D := by rw [← hdynO]; exact hD'
    rcases hdyn k hkD with h | ⟨_, d, hd, _⟩
    · exact Or.inl h
    · have hkd : k ∈ omKeys c.derived := mem_keys_of_mem (mem_of_lookup hd)
      exact Or.inr ⟨hkd, fun hop => (derived_static_iff hn hc hkd).mpr hop hD'⟩
  · rintro (h | ⟨hkd, hno⟩)
    · rw [hdynO]
      rcases hcov k (by rw [← horder]; exact hkO) with h1 | h1 | ⟨h1, _, _⟩
      · rw [(hstat k h1).1] at h; cases h
      · exact h1
      · rw [h1] at h; cases h
    · apply Classical.byContradiction
      intro hnd
      exact hno ((derived_static_iff hn hc hkd).mp hnd)

/-- **the cache's parameter table holds exactly the parameters and the derived parameters**:
    plain parameters, parameters defined by an initial assignment, and the derived quantities that
    depend, through any chain, only on parameters -/
theorem allPars_keys_exact {c : Content} (hn : WFnames c) {cache : Cache}
    (hc : createCache c = .ok cache) (n : Name) :
    n ∈ omKeys cache.allPars ↔ n ∈ omKeys c.pars ∨ (n ∈ omKeys c.derived ∧ OnlyParams c n) := by
  have hwf := WFd_of_names c hn
  obtain ⟨_, _, _, _, _, _, hperm, _⟩ := createCache_consistent hwf.toWFc hc
  have hcnt := hn.count_le n
  have hv := WFnames.count_vars (c := c) n
  have hp := WFnames.count_pars (c := c) n
  have hordK : n ∈ cache.order ↔ n ∈ omKeys (iaOf c.vars) ∨ n ∈ omKeys (iaOf c.pars) ∨
      n ∈ omKeys c.derived ∨ n ∈ omKeys c.rxns ∨ n ∈ omKeys c.surs := by
    rw [hperm.mem_iff, hn.keys_toSort]
    simp only [List.mem_append, or_assoc]
  rw [allPars_keys hn hc n]
  constructor
  · rintro (h | ⟨hO, hnD, hnV⟩)
    · left
      have := cpos h
      exact List.count_pos_iff.mp (by omega)
    · have hspec := dynOrder_spec hn hc hO
      rcases hordK.mp hO with h | h | h | h | h
      · exfalso; apply hnV
        have := cpos h
        exact List.count_pos_iff.mp (by omega)
      · left
        have := cpos h
        exact List.count_pos_iff.mp (by omega)
      · right
        exact ⟨h, (derived_static_iff hn hc h).mp hnD⟩
      · exact absurd (hspec.mpr (Or.inl ((isRS_iff c n).mpr (Or.inl h)))) hnD
      · exact absurd (hspec.mpr (Or.inl ((isRS_iff c n).mpr (Or.inr h)))) hnD
  · rintro (h | ⟨hd, hop⟩)
    · have hpos := cpos h
      by_cases hpl : n ∈ omKeys (plainOf c.pars)
      · exact Or.inl hpl
      · right
        have hz := count_zero hpl
        have hia : n ∈ omKeys (iaOf c.pars) := List.count_pos_iff.mp (by omega)
        have hO : n ∈ cache.order := hordK.mpr (Or.inr (Or.inl hia))
        refine ⟨hO, ?_, ?_⟩
        · intro hD
          rcases (dynOrder_spec hn hc hO).mp hD with h1 | ⟨h1, _⟩
          · rcases (isRS_iff c n).mp h1 with h2 | h2 <;> have := cpos h2 <;> omega
          · have := cpos h1; omega
        · intro hm; have := cpos hm; omega
    · right
      have hpos := cpos hd
      refine ⟨hordK.mpr (Or.inr (Or.inr (Or.inl hd))), (derived_static_iff hn hc hd).mpr hop, ?_⟩
      intro hm; have := cpos hm; omega

/-- **exact classification of `get_derived_parameters` / `get_derived_variables`.**  Whenever the
    model answers, the first list holds — in declaration order — exactly the derived quantities
    that depend, through any chain, only on parameters, the second list exactly the others; together
    they are all derived quantities, each once. -/
theorem getClasses_exact {c : Content} (hn : WFnames c) {dp dv : List Name}
    (h : getClasses c = .ok (dp, dv)) :
    (∀ k, k ∈ dp ↔ k ∈ omKeys c.derived ∧ OnlyParams c k) ∧
    (∀ k, k ∈ dv ↔ k ∈ omKeys c.derived ∧ ¬ OnlyParams c k) ∧
    dp.Sublist (omKeys c.derived) ∧ dv.Sublist (omKeys c.derived) ∧
    (∀ k, dp.count k + dv.count k = (omKeys c.derived).count k) := by
  unfold getClasses at h
  obtain ⟨cache, hc, h⟩ := bind_ok h
  simp only [pure, Except.pure, Except.ok.injEq, Prod.mk.injEq] at h
  obtain ⟨hdp, hdv⟩ := h
  have hkey : ∀ k, k ∈ omKeys c.derived → (k ∈ omKeys cache.allPars ↔ OnlyParams c k) := by
    intro k hk
    rw [allPars_keys hn hc k, ← derived_static_iff hn hc hk]
    have hcnt := hn.count_le k
    have hpos := cpos hk
    have hv := WFnames.count_vars (c := c) k
    have hnotP : k ∉ omKeys (plainOf c.pars) := by
      intro hm; have := cpos hm; omega
    have hnotV : k ∉ omKeys c.vars := by
      intro hm; have := cpos hm; omega
    have hkO : k ∈ cache.order := by
      obtain ⟨_, _, _, _, _, _, hperm, _⟩ := createCache_consistent (WFc_of_names c hn) hc
      apply hperm.mem_iff.mpr
      rw [hn.keys_toSort]
      simp [hk]
    constructor
    · rintro (h1 | ⟨_, h2, _⟩)
      · exact absurd h1 hnotP
      · exact h2
    · intro h2
      exact Or.inr ⟨hkO, h2, hnotV⟩
  subst hdp hdv
  refine ⟨?_, ?_, List.filter_sublist, List.filter_sublist, ?_⟩
  · intro k
    simp only [List.mem_filter, List.contains_iff_mem]
    constructor
    · rintro ⟨h1, h2⟩; exact ⟨h1, (hkey k h1).mp h2⟩
    · rintro ⟨h1, h2⟩; exact ⟨h1, (hkey k h1).mpr h2⟩
  · intro k
    have hb : (!(omKeys cache.allPars).contains k) = true ↔ k ∉ omKeys cache.allPars := by simp
    rw [List.mem_filter, hb]
    constructor
    · rintro ⟨h1, h2⟩; exact ⟨h1, fun ho => h2 ((hkey k h1).mpr ho)⟩
    · rintro ⟨h1, h2⟩; exact ⟨h1, fun hm => h2 ((hkey k h1).mp hm)⟩
  · intro k
    exact count_filter_add _ _ k

end Mxl
