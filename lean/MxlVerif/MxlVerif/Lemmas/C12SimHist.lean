/- C12 — the `use_jacobian` state machine: for every history of parameter updates, re-initialisations and
   Jacobian calls, every call returns what a closure freshly installed on the model's current content returns
   (core Lean only). -/
import MxlVerif.Model.C12Sim
import MxlVerif.Lemmas.C12Closure2
namespace Mxl.C12
open Mxl

/-! ### with the facts of the repaired source the parameterised machine is the hand-written closure -/

theorem glueOk_facts (g : Glue) (hg : GlueOk g = true) :
    g.lambdifyArgs = expectedGlue.lambdifyArgs ∧ g.callArgs = expectedGlue.callArgs ∧
    g.valuesFrom = expectedGlue.valuesFrom ∧ g.compiledFrom = expectedGlue.compiledFrom ∧
    g.matrix = expectedGlue.matrix ∧ g.watchesModel = true ∧ g.storesCache = true ∧
    g.compileBeforeStore = true ∧
    g.recompileOnChange = true ∧ g.storesValues = true ∧ g.compileInsideTry = true ∧ g.catchesAll = true ∧
    g.fallbackNone = true ∧ g.integratorGetsJac = true ∧ g.onlyWhenRequested = true := by
  unfold GlueOk at hg
  simp only [Bool.and_eq_true, beq_iff_eq, and_assoc] at hg
  obtain ⟨h1, h2, h3, h4, h5, _, hw, hsc, hcb, h6, h7, h8, h9, h10, _, h12, h13, _⟩ := hg
  exact ⟨h1, h2, h3, h4, h5, hw, hsc, hcb, h6, h7, h8, h9, h10, h12, h13⟩

theorem passesCurrent_of_ok (g : Glue) (hg : GlueOk g = true) : g.passesCurrent = true := by
  unfold Glue.passesCurrent
  rw [(glueOk_facts g hg).2.1]
  rfl

theorem cacheReadAfter_of_ok (g : Glue) (hg : GlueOk g = true) : g.cacheReadAfter = true := by
  unfold GlueOk at hg
  simp only [Bool.and_eq_true, beq_iff_eq, and_assoc] at hg
  unfold Glue.cacheReadAfter
  rw [hg.2.2.2.2.2.1]
  rfl

theorem aligned_of_ok (g : Glue) (hg : GlueOk g = true) : g.aligned = true := by
  obtain ⟨h1, h2, h3, h4, h5, _⟩ := glueOk_facts g hg
  unfold Glue.aligned
  simp only [Bool.and_eq_true, beq_iff_eq]
  refine ⟨⟨⟨⟨h1, ?_⟩, h3⟩, h4⟩, h5⟩
  rw [h2]; rfl

theorem installG_eq (g : Glue) (hg : GlueOk g = true) (c : SContent) :
    installG g true c = .ok (installJac c) := by
  obtain ⟨_, _, _, _, _, _, _, _, _, _, h3, h4, h5, h6, _⟩ := glueOk_facts g hg
  have h8 := aligned_of_ok g hg
  unfold installG
  simp only [h3, h4, h5, h6, h8, Bool.not_true, Bool.false_and, Bool.false_eq_true, if_false, Bool.or_self,
    Bool.and_self, if_true]
  cases installJac c <;> rfl

/-- with the facts of the repaired source: when the remembered cache object is the current one and the values are the
    remembered ones the closure is used as it is; otherwise it is compiled again for the current content, and what the
    closure remembers changes only if that succeeds — then it is the cache object the compilation left in place -/
theorem callG_unfold (g : Glue) (hg : GlueOk g = true) (cl : JacClosure) (clVer : Nat) (now : SContent) (nowVer : Nat)
    (t : Rat) (xs : List Rat) :
    cl.callG g clVer now nowVer t xs =
      (match jacArgs now with
       | .error e => ((cl, clVer), .error e)
       | .ok (_, _, values) =>
         if (values != cl.vals || nowVer != clVer) then
           match compileJac now with
           | .error e => ((cl, clVer), .error e)
           | .ok f => ((({ fn := f, vals := values } : JacClosure), nowVer + 1), evalJacFn f t xs values)
         else ((cl, clVer), evalJacFn cl.fn t xs values)) := by
  obtain ⟨_, _, _, _, _, hw, hsc, hcb, h1, h2, _⟩ := glueOk_facts g hg
  have h3 := passesCurrent_of_ok g hg
  have h4 := cacheReadAfter_of_ok g hg
  unfold JacClosure.callG
  simp only [h1, h2, h3, h4, hw, hsc, hcb, Bool.true_and, if_true, Bool.and_self]
  rfl

theorem recompilesG_unfold (g : Glue) (hg : GlueOk g = true) (cl : JacClosure) (clVer : Nat) (now : SContent)
    (nowVer : Nat) :
    cl.recompilesG g clVer now nowVer =
      (match jacArgs now with
       | .error _ => false
       | .ok (_, _, values) => (values != cl.vals || nowVer != clVer)) := by
  obtain ⟨_, _, _, _, _, hw, _, _, h1, _⟩ := glueOk_facts g hg
  unfold JacClosure.recompilesG
  simp only [h1, hw, Bool.true_and]
  rfl

/-! ### parameter updates leave everything but the parameter values alone, and never turn a plain
    parameter back into a computed one -/

/-- the values of the plain parameters, in declaration order -/
def pvals (l : List (Name × SVal)) : List Rat :=
  (plainOf (l.map fun kv => (kv.1, kv.2.toVal))).map (·.2)

/-- entry `b` is entry `a` or `a` with a plain value -/
def EntryUpd (a b : Name × SVal) : Prop := a.1 = b.1 ∧ (a.2 = b.2 ∨ ∃ q, b.2 = SVal.plain q)

inductive ParsUpd : List (Name × SVal) → List (Name × SVal) → Prop
  | nil : ParsUpd [] []
  | cons {a b ps qs} : EntryUpd a b → ParsUpd ps qs → ParsUpd (a :: ps) (b :: qs)

theorem pvals_cons_plain (k : Name) (q : Rat) (l : List (Name × SVal)) :
    pvals ((k, SVal.plain q) :: l) = q :: pvals l := by
  simp [pvals, plainOf, SVal.toVal]

theorem pvals_cons_ia (k : Name) (f : SFn) (l : List (Name × SVal)) :
    pvals ((k, SVal.ia f) :: l) = pvals l := by
  simp [pvals, plainOf, SVal.toVal]

theorem pvals_len_le : ∀ (ps qs : List (Name × SVal)), ParsUpd ps qs →
    (pvals ps).length ≤ (pvals qs).length := by
  intro ps qs h
  induction h with
  | nil => simp [pvals, plainOf]
  | @cons a b ps qs hab _ ih =>
    obtain ⟨ka, va⟩ := a
    obtain ⟨kb, vb⟩ := b
    obtain ⟨hk, hv⟩ := hab
    simp only at hk hv
    rcases hv with hv | ⟨q, hq⟩
    · subst hv
      cases va with
      | plain q => rw [pvals_cons_plain, pvals_cons_plain]; simp; exact ih
      | ia f => rw [pvals_cons_ia, pvals_cons_ia]; exact ih
    · subst hq
      cases va with
      | plain q' => rw [pvals_cons_plain, pvals_cons_plain]; simp; exact ih
      | ia f => rw [pvals_cons_ia, pvals_cons_plain]; simp; omega

/-- same plain values after updates ⇒ nothing changed -/
theorem pvals_eq_imp : ∀ (ps qs : List (Name × SVal)), ParsUpd ps qs →
    pvals qs = pvals ps → qs = ps := by
  intro ps qs h
  induction h with
  | nil => intro _; rfl
  | @cons a b ps qs hab hrest ih =>
    obtain ⟨ka, va⟩ := a
    obtain ⟨kb, vb⟩ := b
    obtain ⟨hk, hv⟩ := hab
    simp only at hk hv
    subst hk
    intro he
    rcases hv with hv | ⟨q, hq⟩
    · subst hv
      cases va with
      | plain q =>
        rw [pvals_cons_plain, pvals_cons_plain] at he
        rw [ih (by simpa using he)]
      | ia f =>
        rw [pvals_cons_ia, pvals_cons_ia] at he
        rw [ih he]
    · subst hq
      cases va with
      | plain q' =>
        rw [pvals_cons_plain, pvals_cons_plain] at he
        simp only [List.cons.injEq] at he
        rw [ih he.2, he.1]
      | ia f =>
        rw [pvals_cons_ia, pvals_cons_plain] at he
        have h1 := pvals_len_le _ _ hrest
        have h2 : (q :: pvals qs).length = (pvals ps).length := by rw [he]
        simp at h2
        omega

/-- `now` is `c` after parameter updates only -/
def ParUpd (c now : SContent) : Prop :=
  now = { c with pars := now.pars } ∧ ParsUpd c.pars now.pars

theorem forall2_refl : ∀ (l : List (Name × SVal)), ParsUpd l l
  | [] => .nil
  | a :: l => .cons ⟨rfl, Or.inl rfl⟩ (forall2_refl l)

theorem ParUpd.refl (c : SContent) : ParUpd c c := ⟨rfl, forall2_refl _⟩

theorem forall2_setPar (k : Name) (v : Rat) : ∀ (ps qs : List (Name × SVal)), ParsUpd ps qs →
    ParsUpd ps (qs.map fun kv => if kv.1 == k then (kv.1, SVal.plain v) else kv) := by
  intro ps qs h
  induction h with
  | nil => exact .nil
  | @cons a b ps qs hab _ ih =>
    refine .cons ?_ ih
    by_cases hb : (b.1 == k) = true
    · simp only [hb, if_true]; exact ⟨hab.1, Or.inr ⟨v, rfl⟩⟩
    · simp only [hb]; exact hab

theorem ParUpd.step (c now : SContent) (k : Name) (v : Rat) (h : ParUpd c now) :
    ParUpd c (now.setPar k v) := by
  obtain ⟨h1, h2⟩ := h
  refine ⟨?_, forall2_setPar k v _ _ h2⟩
  unfold SContent.setPar
  rw [h1]

theorem jacArgs_vals (c : SContent) (vn pn : List Name) (vals : List Rat)
    (h : jacArgs c = .ok (vn, pn, vals)) : vals = pvals c.pars := by
  obtain ⟨cache, hc, _, _, hpv⟩ := jacArgs_inv c vn pn vals h
  rw [hpv, (cache_facts c cache hc).2]
  rfl

/-- after parameter updates only, equal value tuples mean the very same content -/
theorem ParUpd.same (c now : SContent) (h : ParUpd c now) (vn pn vn' pn' : List Name) (vals : List Rat)
    (hc : jacArgs c = .ok (vn, pn, vals)) (hn : jacArgs now = .ok (vn', pn', vals)) : now = c := by
  obtain ⟨h1, h2⟩ := h
  have e := pvals_eq_imp _ _ h2 (by rw [← jacArgs_vals now _ _ _ hn, ← jacArgs_vals c _ _ _ hc])
  rw [h1, e]

/-! ### one call of the closure -/

theorem installJac_vals (c : SContent) (cl : JacClosure) (h : installJac c = some cl) :
    ∃ vn pn, jacArgs c = .ok (vn, pn, cl.vals) := by
  unfold installJac at h
  cases hs : simJacobian c with
  | none => simp [hs] at h
  | some f =>
    cases hj : jacArgs c with
    | error e => simp [hs, hj] at h
    | ok a =>
      obtain ⟨vn, pn, pv⟩ := a
      simp only [hs, hj, Option.some.injEq] at h
      subst h
      exact ⟨vn, pn, rfl⟩

theorem installJac_of_compile (now : SContent) (f : JacFn) (vn pn : List Name) (values : List Rat)
    (hf : compileJac now = .ok f) (hja : jacArgs now = .ok (vn, pn, values)) :
    installJac now = some ⟨f, values⟩ := by
  unfold compileJac at hf
  cases hs : toSymbolic now with
  | error err => simp [hs, bind, Except.bind] at hf
  | ok es =>
    simp only [hs, hja, bind, Except.bind, pure, Except.pure, Except.ok.injEq] at hf
    unfold installJac simJacobian
    simp only [hs, hja, hf]

/-- what a call does to the closure's state: kept (values unchanged) or replaced by a closure installed on `now` -/
theorem call_state (cl cl' : JacClosure) (now : SContent) (t : Rat) (xs : List Rat) (J : List (List Rat))
    (h : cl.call now t xs = .ok (cl', J)) :
    (cl' = cl ∧ ∃ vn pn, jacArgs now = .ok (vn, pn, cl.vals)) ∨
    (installJac now = some cl' ∧ ∀ vn pn values, jacArgs now = .ok (vn, pn, values) → values ≠ cl.vals) := by
  unfold JacClosure.call at h
  cases hja : jacArgs now with
  | error err => simp [hja, bind, Except.bind] at h
  | ok args =>
    obtain ⟨vn, pn, values⟩ := args
    simp only [hja, bind, Except.bind] at h
    by_cases hv : values = cl.vals
    · have hb : (values != cl.vals) = false := by simp [hv]
      simp only [hb, Bool.false_eq_true, if_false, pure, Except.pure] at h
      cases hJ : evalJacFn cl.fn t xs values with
      | error err => simp [hJ] at h
      | ok J' =>
        simp only [hJ, Except.ok.injEq, Prod.mk.injEq] at h
        exact Or.inl ⟨h.1.symm, vn, pn, by rw [← hv]⟩
    · have hb : (values != cl.vals) = true := by simp [hv]
      simp only [hb, if_true] at h
      cases hf : compileJac now with
      | error err => simp [hf] at h
      | ok f =>
        simp only [hf, pure, Except.pure] at h
        cases hJ : evalJacFn f t xs values with
        | error err => simp [hJ] at h
        | ok J' =>
          simp only [hJ, Except.ok.injEq, Prod.mk.injEq] at h
          refine Or.inr ⟨?_, ?_⟩
          · rw [← h.1]; exact installJac_of_compile now f vn pn values hf hja
          · intro vn' pn' values' h'
            cases h'
            exact hv

/-- a fresh Simulator's `jac_fn` is: compile, then evaluate at the model's own values -/
theorem callJac_eq_of_compile (now : SContent) (t : Rat) (xs : List Rat) (f : JacFn)
    (vn pn : List Name) (values : List Rat)
    (hja : jacArgs now = .ok (vn, pn, values)) (hf : compileJac now = .ok f) :
    callJac now t xs = (match evalJacFn f t xs values with | .ok J => .ok (some J) | .error e => .error e) := by
  unfold compileJac at hf
  cases hs : toSymbolic now with
  | error err => simp [hs, bind, Except.bind] at hf
  | ok es =>
    simp only [hs, hja, bind, Except.bind, pure, Except.pure, Except.ok.injEq] at hf
    subst hf
    unfold callJac simJacobian evalJacFn
    simp only [hs, hja, bind, Except.bind]
    split
    · rfl
    · split <;> simp [pure, Except.pure]

theorem compile_of_install (c : SContent) (cl : JacClosure) (h : installJac c = some cl) :
    compileJac c = .ok cl.fn := by
  unfold installJac at h
  cases hs : simJacobian c with
  | none => simp [hs] at h
  | some f =>
    cases hj : jacArgs c with
    | error e => simp [hs, hj] at h
    | ok a =>
      obtain ⟨vn, pn, pv⟩ := a
      simp only [hs, hj, Option.some.injEq] at h
      subst h
      unfold simJacobian at hs
      unfold compileJac
      cases ht : toSymbolic c with
      | error err => simp [ht] at hs
      | ok es =>
        simp only [ht, hj, Option.some.injEq] at hs
        simp [hj, bind, Except.bind, pure, Except.pure, hs]

/-- no conversion, no matrix: when the parameter values cannot be read or the conversion raises, a fresh Simulator has
    no Jacobian -/
theorem callJac_none_of_jacArgs_error (now : SContent) (t : Rat) (xs : List Rat) (e : Err)
    (h : jacArgs now = .error e) : callJac now t xs = .ok none := by
  unfold callJac simJacobian
  cases toSymbolic now <;> simp [h]

theorem callJac_none_of_compile_error (now : SContent) (t : Rat) (xs : List Rat) (e : Err) (vn pn : List Name)
    (values : List Rat) (hja : jacArgs now = .ok (vn, pn, values)) (h : compileJac now = .error e) :
    callJac now t xs = .ok none := by
  unfold compileJac at h
  unfold callJac simJacobian
  cases hs : toSymbolic now with
  | error err => simp
  | ok es => simp [hs, hja, bind, Except.bind, pure, Except.pure] at h

/-! ### histories -/

/-- what the integrator holds (a closure, or nothing) is what `_initialise_integrator` gives on some content `c0`; and
    as long as the model has not been edited since (same cache object), its content still is `c0` -/
def SimInv (s : SimState) : Prop :=
  ∃ c0, installJac c0 = s.jac.map (·.1) ∧
    ∀ cl ver, s.jac = some (cl, ver) → ver ≤ s.version ∧ (ver = s.version → s.content = c0)

/-- what the outputs of a history must be: every matrix handed to the integrator is what `jac_fn` of a
    Simulator built on the model's content at that moment returns (hence, for a well-formed model, `D` of its
    equations at the state passed and the model's current parameter values); the integrator runs without a
    Jacobian only if a conversion failed when the integrator was built -/
def GoodOuts : SContent → List SimOp → List SimOut → Prop
  | _, [], [] => True
  | c, .setPar k v :: ops, .upd :: outs => GoodOuts (c.setPar k v) ops outs
  | _, .edit c' :: ops, .upd :: outs => GoodOuts c' ops outs
  | c, .reinit :: ops, .upd :: outs => GoodOuts c ops outs
  | c, .call _ _ :: ops, .noJac :: outs =>
      (∃ c0, installJac c0 = none) ∧ GoodOuts c ops outs
  | c, .call t xs :: ops, .mat J :: outs =>
      (callJac c t xs = .ok (some J) ∧
       (c.wf = true → ∃ cache es, createCache c.toContent = .ok cache ∧ toSymbolic c = .ok es ∧
          J = (jacobianOf es cache.varNames).map fun row => row.map (evalS (symEnv c cache xs)))) ∧
      GoodOuts c ops outs
  -- a call raises only where a Simulator freshly built on the current content hands no matrix over either (it has no
  -- Jacobian because the conversion fails, or its own `jac_fn` raises); the history goes on, and by the clauses above
  -- no later call is answered with a matrix of another content
  | c, .call t xs :: ops, .raised :: outs => (∀ J, callJac c t xs ≠ .ok (some J)) ∧ GoodOuts c ops outs
  | _, _, _ => False

/-- one call with the facts of the repaired source: a returned matrix is the fresh one; a call raises only where a fresh
    Simulator hands no matrix over; whatever happens, the closure afterwards is the old one or one installed on the
    current content that remembers the cache object the compilation left in place -/
theorem callG_sound (g : Glue) (hg : GlueOk g = true) (c0 now : SContent) (cl : JacClosure) (clVer nowVer : Nat)
    (t : Rat) (xs : List Rat) (hi : installJac c0 = some cl) (hsame : clVer = nowVer → now = c0) :
    (∀ J, (cl.callG g clVer now nowVer t xs).2 = .ok J → callJac now t xs = .ok (some J)) ∧
    (∀ e, (cl.callG g clVer now nowVer t xs).2 = .error e → ∀ J, callJac now t xs ≠ .ok (some J)) ∧
    ((cl.callG g clVer now nowVer t xs).1 = (cl, clVer) ∨
     (installJac now = some (cl.callG g clVer now nowVer t xs).1.1 ∧
        (cl.callG g clVer now nowVer t xs).1.2 = nowVer + 1 ∧ cl.recompilesG g clVer now nowVer = true)) := by
  rw [callG_unfold g hg, recompilesG_unfold g hg]
  cases hja : jacArgs now with
  | error err =>
    refine ⟨fun J h => by simp at h, fun e _ J => ?_, Or.inl rfl⟩
    rw [callJac_none_of_jacArgs_error now t xs err hja]; simp
  | ok args =>
    obtain ⟨vn, pn, values⟩ := args
    simp only []
    by_cases hver : clVer = nowVer
    · -- the model has not been edited: its content is the one compiled for, and so are the values
      have hnow := hsame hver
      obtain ⟨vn0, pn0, hv0⟩ := installJac_vals c0 cl hi
      have hvals : values = cl.vals := by
        rw [hnow] at hja
        rw [hja] at hv0
        simp only [Except.ok.injEq, Prod.mk.injEq] at hv0
        exact hv0.2.2
      have hb : (values != cl.vals || nowVer != clVer) = false := by simp [hvals, hver]
      simp only [hb, Bool.false_eq_true, if_false]
      have hcomp : compileJac now = .ok cl.fn := by rw [hnow]; exact compile_of_install c0 cl hi
      have heq := callJac_eq_of_compile now t xs cl.fn vn pn values hja hcomp
      refine ⟨?_, ?_, Or.inl (by simp)⟩
      · intro J hJ
        rw [heq, hJ]
      · intro e he J
        rw [heq, he]; simp
    · have hb : (values != cl.vals || nowVer != clVer) = true := by
        have : (nowVer != clVer) = true := by simpa using fun h' => hver h'.symm
        simp [this]
      simp only [hb, if_true]
      cases hf : compileJac now with
      | error err =>
        refine ⟨fun J h => by simp at h, fun e _ J => ?_, Or.inl (by simp)⟩
        rw [callJac_none_of_compile_error now t xs err vn pn values hja hf]; simp
      | ok f =>
        simp only []
        have heq := callJac_eq_of_compile now t xs f vn pn values hja hf
        refine ⟨?_, ?_, Or.inr ⟨installJac_of_compile now f vn pn values hf hja, by simp, by simp⟩⟩
        · intro J hJ
          rw [heq, hJ]
        · intro e he J
          rw [heq, he]; simp

/-- no needless compilation: while the model has not been edited since the closure was compiled, a call uses the
    compiled function as it is -/
theorem no_needless_recompile (g : Glue) (s : SimState) (hinv : SimInv s) (cl : JacClosure) (ver : Nat)
    (hj : s.jac = some (cl, ver)) (hver : ver = s.version) : s.recompilesG g = false := by
  obtain ⟨c0, hi, hc⟩ := hinv
  rw [hj] at hi
  simp only [Option.map_some] at hi
  have hnow := (hc cl ver hj).2 hver
  obtain ⟨vn0, pn0, hv0⟩ := installJac_vals c0 cl hi
  unfold SimState.recompilesG JacClosure.recompilesG
  simp only [hj, hnow, hv0, hver]
  simp

theorem step_inv (g : Glue) (hg : GlueOk g = true) (s s' : SimState) (op : SimOp) (o : SimOut)
    (hinv : SimInv s) (h : s.stepG g op = .ok (s', o)) :
    SimInv s' ∧ GoodOuts s.content [op] [o] ∧ s'.content = op.after s.content := by
  obtain ⟨c0, hi, hc⟩ := hinv
  cases op with
  | setPar k v =>
    simp only [SimState.stepG, Except.ok.injEq, Prod.mk.injEq] at h
    obtain ⟨h1, h2⟩ := h
    subst h1 h2
    refine ⟨⟨c0, hi, ?_⟩, by simp [GoodOuts], rfl⟩
    intro cl ver hj
    have := (hc cl ver hj).1
    exact ⟨by simp only; omega, fun hv => by simp only at hv; omega⟩
  | edit c' =>
    simp only [SimState.stepG, Except.ok.injEq, Prod.mk.injEq] at h
    obtain ⟨h1, h2⟩ := h
    subst h1 h2
    refine ⟨⟨c0, hi, ?_⟩, by simp [GoodOuts], rfl⟩
    intro cl ver hj
    have := (hc cl ver hj).1
    exact ⟨by simp only; omega, fun hv => by simp only at hv; omega⟩
  | reinit =>
    simp only [SimState.stepG, installG_eq g hg, cacheReadAfter_of_ok g hg, bind, Except.bind, pure, Except.pure,
      Except.ok.injEq, Prod.mk.injEq, if_true] at h
    obtain ⟨h1, h2⟩ := h
    subst h1 h2
    refine ⟨⟨s.content, ?_, ?_⟩, by simp [GoodOuts], rfl⟩
    · cases installJac s.content <;> simp
    · intro cl ver hj
      cases hij : installJac s.content with
      | none => simp [hij] at hj
      | some cl0 =>
        simp only [hij, Option.map_some, Option.some.injEq, Prod.mk.injEq] at hj
        exact ⟨by rw [← hj.2]; exact Nat.le_refl _, fun _ => rfl⟩
  | call t xs =>
    simp only [SimState.stepG] at h
    cases hj : s.jac with
    | none =>
      simp only [hj, Except.ok.injEq, Prod.mk.injEq] at h
      obtain ⟨h1, h2⟩ := h
      subst h1 h2
      refine ⟨⟨c0, hi, hc⟩, ?_, rfl⟩
      simp only [GoodOuts, and_true]
      exact ⟨c0, by rw [hi, hj]; rfl⟩
    | some clv =>
      obtain ⟨cl, ver⟩ := clv
      rw [hj] at hi
      simp only [Option.map_some] at hi
      simp only [hj, Except.ok.injEq, Prod.mk.injEq] at h
      obtain ⟨h1, h2⟩ := h
      subst h1 h2
      obtain ⟨hle, hsame⟩ := hc cl ver hj
      obtain ⟨hJ, hE, hst⟩ := callG_sound g hg c0 s.content cl ver s.version t xs hi hsame
      refine ⟨?_, ?_, rfl⟩
      · rcases hst with hkeep | ⟨hinst, hver, hrec⟩
        · refine ⟨c0, by simp only [hkeep, Option.map_some]; exact hi, ?_⟩
          intro cl' ver' hj'
          simp only [hkeep, Option.some.injEq, Prod.mk.injEq] at hj'
          rw [← hj'.2]
          by_cases hrec : cl.recompilesG g ver s.content s.version = true
          · simp only [hrec, if_true]
            exact ⟨by omega, fun hv => by omega⟩
          · simp only [hrec]
            exact ⟨hle, hsame⟩
        · refine ⟨s.content, by simp [hinst], ?_⟩
          intro cl' ver' hj'
          simp only [Option.some.injEq] at hj'
          have hv2 : ver' = s.version + 1 := by rw [← hver, hj']
          simp only [hrec, if_true]
          exact ⟨by rw [hv2]; exact Nat.le_refl _, fun _ => trivial⟩
      · cases hr : (cl.callG g ver s.content s.version t xs).2 with
        | error e =>
          simp only [GoodOuts, and_true]
          exact hE e hr
        | ok J =>
          simp only [GoodOuts, and_true]
          exact ⟨hJ J hr, fun hwf => jacfn_sound s.content hwf t xs J (hJ J hr)⟩

/-- a call that returned a matrix leaves the closure in step with the model: it remembers the cache object that is in
    place now (the one the compilation left there, if it compiled), so the next call does not compile again -/
theorem mat_in_step (g : Glue) (hg : GlueOk g = true) (s s' : SimState) (t : Rat) (xs : List Rat) (J : List (List Rat))
    (h : s.stepG g (.call t xs) = .ok (s', .mat J)) : ∃ cl, s'.jac = some (cl, s'.version) := by
  simp only [SimState.stepG] at h
  cases hj : s.jac with
  | none => simp [hj] at h
  | some clv =>
    obtain ⟨cl, ver⟩ := clv
    simp only [hj, Except.ok.injEq, Prod.mk.injEq] at h
    obtain ⟨h1, h2⟩ := h
    subst h1
    rw [callG_unfold g hg, recompilesG_unfold g hg] at *
    cases hja : jacArgs s.content with
    | error err => simp [hja] at h2
    | ok args =>
      obtain ⟨vn, pn, values⟩ := args
      simp only [hja] at h2 ⊢
      by_cases hb : (values != cl.vals || s.version != ver) = true
      · simp only [hb, if_true] at h2 ⊢
        cases hf : compileJac s.content with
        | error err => simp [hf] at h2
        | ok f => exact ⟨_, rfl⟩
      · have hb' : (values != cl.vals || s.version != ver) = false := by simpa using hb
        simp only [hb', Bool.false_eq_true, if_false] at h2 ⊢
        have hv : s.version = ver := by
          simp only [Bool.or_eq_false_iff, bne_eq_false_iff_eq] at hb'
          exact hb'.2
        exact ⟨cl, by rw [hv]⟩

theorem goodOuts_cons (c : SContent) (op : SimOp) (o : SimOut) (ops : List SimOp) (outs : List SimOut)
    (h1 : GoodOuts c [op] [o]) (h2 : GoodOuts (op.after c) ops outs) :
    GoodOuts c (op :: ops) (o :: outs) := by
  cases op with
  | setPar k v => cases o <;> first | (simpa [GoodOuts, SimOp.after] using h2) | (simp [GoodOuts] at h1)
  | edit c' => cases o <;> first | (simpa [GoodOuts, SimOp.after] using h2) | (simp [GoodOuts] at h1)
  | reinit => cases o <;> first | (simpa [GoodOuts, SimOp.after] using h2) | (simp [GoodOuts] at h1)
  | call t xs => cases o with
    | upd => simp [GoodOuts] at h1
    | noJac =>
      simp only [GoodOuts, and_true] at h1
      exact ⟨h1, h2⟩
    | mat J =>
      simp only [GoodOuts, and_true] at h1
      exact ⟨h1, h2⟩
    | raised =>
      simp only [GoodOuts, and_true] at h1
      exact ⟨h1, h2⟩

theorem run_good (g : Glue) (hg : GlueOk g = true) : ∀ (ops : List SimOp) (s s' : SimState) (outs : List SimOut),
    SimInv s → runG g s ops = .ok (s', outs) → GoodOuts s.content ops outs ∧ SimInv s' := by
  intro ops
  induction ops with
  | nil =>
    intro s s' outs hinv h
    simp only [runG, Except.ok.injEq, Prod.mk.injEq] at h
    obtain ⟨h1, h2⟩ := h
    subst h1 h2
    exact ⟨by simp [GoodOuts], hinv⟩
  | cons op ops ih =>
    intro s s' outs hinv h
    simp only [runG, bind, Except.bind] at h
    cases hs : s.stepG g op with
    | error e => simp [hs] at h
    | ok r =>
      obtain ⟨s1, o⟩ := r
      simp only [hs] at h
      cases hr : runG g s1 ops with
      | error e => simp [hr] at h
      | ok r2 =>
        obtain ⟨s2, os⟩ := r2
        simp only [hr, pure, Except.pure, Except.ok.injEq, Prod.mk.injEq] at h
        obtain ⟨h1, h2⟩ := h
        subst h1 h2
        obtain ⟨hinv1, hgood1, hcont⟩ := step_inv g hg s s1 op o hinv hs
        obtain ⟨hgood, hinv2⟩ := ih s1 s2 os hinv1 hr
        rw [hcont] at hgood
        exact ⟨goodOuts_cons s.content op o ops os hgood1 hgood, hinv2⟩

/-- after any history the invariant holds (so `no_needless_recompile` applies to the state reached) -/
theorem sim_history_inv (g : Glue) (hg : GlueOk g = true) (c : SContent) (ops : List SimOp) (s0 s : SimState)
    (outs : List SimOut) (h0 : simInitG g c = .ok s0) (hr : runG g s0 ops = .ok (s, outs)) : SimInv s := by
  unfold simInitG at h0
  simp only [installG_eq g hg, cacheReadAfter_of_ok g hg, bind, Except.bind, pure, Except.pure, Except.ok.injEq,
    if_true] at h0
  subst h0
  have hinv : SimInv { content := c, version := verAfterCompile c 0,
                       jac := (installJac c).map fun cl => (cl, verAfterCompile c 0) } := by
    refine ⟨c, ?_, ?_⟩
    · cases installJac c <;> simp
    · intro cl ver hj
      cases hij : installJac c with
      | none => simp [hij] at hj
      | some cl0 =>
        simp only [hij, Option.map_some, Option.some.injEq, Prod.mk.injEq] at hj
        exact ⟨by rw [← hj.2]; exact Nat.le_refl _, fun _ => rfl⟩
  exact (run_good g hg ops _ s outs hinv hr).2

/-- the integrator is without a Jacobian exactly because the model did not convert WHEN THE INTEGRATOR WAS LAST BUILT:
    `b` = the content at construction / the last re-initialisation, `c` = the current content -/
def NoJacJustified : SContent → SContent → List SimOp → List SimOut → Prop
  | _, _, [], _ => True
  | b, c, .setPar k v :: ops, _ :: outs => NoJacJustified b (c.setPar k v) ops outs
  | b, _, .edit c' :: ops, _ :: outs => NoJacJustified b c' ops outs
  | _, c, .reinit :: ops, _ :: outs => NoJacJustified c c ops outs
  | b, c, .call _ _ :: ops, .noJac :: outs => installJac b = none ∧ NoJacJustified b c ops outs
  | b, c, .call _ _ :: ops, _ :: outs => NoJacJustified b c ops outs
  | _, _, _ :: _, [] => True

theorem run_noJac (g : Glue) (hg : GlueOk g = true) : ∀ (ops : List SimOp) (s s' : SimState) (outs : List SimOut)
    (b : SContent), (s.jac = none → installJac b = none) → runG g s ops = .ok (s', outs) →
    NoJacJustified b s.content ops outs := by
  intro ops
  induction ops with
  | nil => intro s s' outs b _ _; simp [NoJacJustified]
  | cons op ops ih =>
    intro s s' outs b hb h
    simp only [runG, bind, Except.bind] at h
    cases hs : s.stepG g op with
    | error e => simp [hs] at h
    | ok r =>
      obtain ⟨s1, o⟩ := r
      simp only [hs] at h
      cases hr : runG g s1 ops with
      | error e => simp [hr] at h
      | ok r2 =>
        obtain ⟨s2, os⟩ := r2
        simp only [hr, pure, Except.pure, Except.ok.injEq, Prod.mk.injEq] at h
        obtain ⟨_, h2⟩ := h
        subst h2
        cases op with
        | setPar k v =>
          simp only [SimState.stepG, Except.ok.injEq, Prod.mk.injEq] at hs
          obtain ⟨h1, _⟩ := hs
          subst h1
          simp only [NoJacJustified]
          refine ih _ s2 os b ?_ hr
          exact hb
        | edit c' =>
          simp only [SimState.stepG, Except.ok.injEq, Prod.mk.injEq] at hs
          obtain ⟨h1, _⟩ := hs
          subst h1
          simp only [NoJacJustified]
          refine ih _ s2 os b ?_ hr
          exact hb
        | reinit =>
          simp only [SimState.stepG, installG_eq g hg, bind, Except.bind, pure, Except.pure, Except.ok.injEq,
            Prod.mk.injEq] at hs
          obtain ⟨h1, _⟩ := hs
          subst h1
          simp only [NoJacJustified]
          refine ih { s with version := verAfterCompile s.content s.version,
                             jac := (installJac s.content).map fun cl =>
                               (cl, if g.cacheReadAfter then verAfterCompile s.content s.version else s.version) }
            s2 os s.content ?_ hr
          intro hnone
          cases hij : installJac s.content with
          | none => rfl
          | some cl => simp only [hij, Option.map_some] at hnone; cases hnone
        | call t xs =>
          simp only [SimState.stepG] at hs
          cases hj : s.jac with
          | none =>
            simp only [hj, Except.ok.injEq, Prod.mk.injEq] at hs
            obtain ⟨h1, h3⟩ := hs
            subst h1 h3
            simp only [NoJacJustified]
            refine ⟨hb hj, ih _ s2 os b ?_ hr⟩
            exact hb
          | some clv =>
            obtain ⟨cl, ver⟩ := clv
            simp only [hj, Except.ok.injEq, Prod.mk.injEq] at hs
            obtain ⟨h1, h3⟩ := hs
            subst h1
            have hnext : NoJacJustified b s.content ops os := by
              refine ih { s with version := (if cl.recompilesG g ver s.content s.version then s.version + 1 else s.version),
                                 jac := some (cl.callG g ver s.content s.version t xs).1 } s2 os b ?_ hr
              intro hn; cases hn
            cases o with
            | upd => simp only [NoJacJustified]; exact hnext
            | noJac =>
              -- impossible: the closure exists, the output is a matrix or `raised`
              cases hres : (cl.callG g ver s.content s.version t xs).2 <;> simp [hres] at h3
            | mat J => simp only [NoJacJustified]; exact hnext
            | raised => simp only [NoJacJustified]; exact hnext

theorem sim_history_noJac (g : Glue) (hg : GlueOk g = true) (c : SContent) (ops : List SimOp) (s0 s : SimState)
    (outs : List SimOut) (h0 : simInitG g c = .ok s0) (hr : runG g s0 ops = .ok (s, outs)) :
    NoJacJustified c c ops outs := by
  unfold simInitG at h0
  simp only [installG_eq g hg, bind, Except.bind, pure, Except.pure, Except.ok.injEq] at h0
  subst h0
  refine run_noJac g hg ops _ s outs c ?_ hr
  intro hnone
  cases hij : installJac c with
  | none => rfl
  | some cl => simp [hij] at hnone

/-- **every history**: build the Simulator on `c`, apply any sequence of parameter updates, other edits of the model,
    re-initialisations and Jacobian calls; every matrix the integrator receives is `jac_fn` of a fresh Simulator on the
    content the model has at that moment -/
theorem sim_history (g : Glue) (hg : GlueOk g = true) (c : SContent) (ops : List SimOp) (s0 s : SimState)
    (outs : List SimOut) (h0 : simInitG g c = .ok s0) (hr : runG g s0 ops = .ok (s, outs)) :
    GoodOuts c ops outs := by
  unfold simInitG at h0
  simp only [installG_eq g hg, cacheReadAfter_of_ok g hg, bind, Except.bind, pure, Except.pure, Except.ok.injEq,
    if_true] at h0
  subst h0
  have hinv : SimInv { content := c, version := verAfterCompile c 0,
                       jac := (installJac c).map fun cl => (cl, verAfterCompile c 0) } := by
    refine ⟨c, ?_, ?_⟩
    · cases installJac c <;> simp
    · intro cl ver hj
      cases hij : installJac c with
      | none => simp [hij] at hj
      | some cl0 =>
        simp only [hij, Option.map_some, Option.some.injEq, Prod.mk.injEq] at hj
        exact ⟨by rw [← hj.2]; exact Nat.le_refl _, fun _ => rfl⟩
  exact (run_good g hg ops _ s outs hinv hr).1

end Mxl.C12
