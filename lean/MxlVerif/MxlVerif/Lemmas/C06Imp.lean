/- C06 helper lemmas, part 3b: function-local imports.  An imported object is never the value of an expression
   (`noObj`); `ImpOk` = the translator's import tables (`ctx.fns` / `ctx.modules`) describe the objects Python has
   bound; the import step keeps all invariants. -/
import MxlVerif.Lemmas.C06Sound
namespace Mxl.C06

def NotObj (v : Val) : Prop := ∀ g, v ≠ .obj g

theorem notObj_num (q : Rat) : NotObj (.num q) := by intro g h; cases h
theorem notObj_bool (b : Bool) : NotObj (.bool b) := by intro g h; cases h

theorem mathEval_notObj {m : String} {vs : List Val} {v : Val} (h : mathEval m vs = some v) : NotObj v := by
  intro g hg
  subst hg
  unfold mathEval at h
  split at h <;> simp at h

structure NoObj (P : Prog) (f : Nat) : Prop where
  expr : ∀ G L env e v, evalExpr P f G L env e = some v → NotObj v
  args : ∀ G L env es vs, evalArgs P f G L env es = some vs → ∀ v ∈ vs, NotObj v
  stmt : ∀ G L env s v, execStmt P f G L env s = some (.ret v) → NotObj v
  body : ∀ G L env b v, execBody P f G L env b = some (.ret v) → NotObj v
  call : ∀ d vs v, callFn P f d vs = some v → NotObj v

theorem noObj (P : Prog) : ∀ f, NoObj P f := by
  intro f
  induction f with
  | zero => constructor <;> intros <;> simp_all [evalExpr, evalArgs, execStmt, execBody, callFn]
  | succ f ih =>
    constructor
    · intro G L env e v h
      cases e with
      | num q => simp [evalExpr] at h; subst h; exact notObj_num q
      | name n =>
        rw [evalExpr] at h
        split at h
        · split at h
          · cases h
          · rename_i hno
            intro g hg
            subst hg
            exact hno g h
        · split at h <;> simp at h <;> subst h <;> exact notObj_num _
      | attr p =>
        rw [evalExpr] at h
        split at h <;> simp at h <;> subst h <;> exact notObj_num _
      | un op a =>
        rw [evalExpr] at h
        intro g hg; subst hg
        split at h <;> simp at h
      | bin op a b =>
        rw [evalExpr] at h
        intro g hg; subst hg
        split at h <;> simp at h
      | cmp l ops rs =>
        rw [evalExpr] at h
        split at h
        · split at h
          · cases h
          · obtain ⟨b, hb⟩ := cmpFold_bool _ _ _ _ _ h
            subst hb; exact notObj_bool b
        · cases h
      | ife c t e =>
        rw [evalExpr] at h
        split at h
        · split at h
          · exact ih.expr _ _ _ _ _ h
          · exact ih.expr _ _ _ _ _ h
        · cases h
      | call tgt args =>
        rw [evalExpr] at h
        split at h
        · cases h
        · generalize pyResolve G L env tgt = tgt' at h
          cases tgt' with
          | unresolved => simp at h
          | known key =>
            simp only at h
            split at h
            · exact mathEval_notObj h
            · cases h
          | user g =>
            simp only at h
            split at h
            · cases h
            · exact ih.call _ _ _ h
      | callKw tgt args => simp [evalExpr] at h
      | unsupported => simp [evalExpr] at h
    · intro G L env es vs h
      cases es with
      | nil => simp [evalArgs] at h; subst h; intro v hv; cases hv
      | cons a as =>
        rw [evalArgs] at h
        cases ha : evalExpr P f G L env a with
        | none => simp [ha] at h
        | some x =>
          cases hb : evalArgs P f G L env as with
          | none => simp [ha, hb] at h
          | some y =>
            simp [ha, hb] at h
            subst h
            intro v hv
            rcases List.mem_cons.mp hv with hv | hv
            · subst hv; exact ih.expr _ _ _ _ _ ha
            · exact ih.args _ _ _ _ _ hb v hv
    · intro G L env s v h
      cases s with
      | assign x e => rw [execStmt] at h; split at h <;> simp at h
      | tupleAssign xs es =>
        rw [execStmt] at h
        split at h
        · cases h
        · split at h <;> simp at h
      | augAssign x op e =>
        rw [execStmt] at h
        split at h
        · split at h <;> simp at h
        · cases h
      | multiAssign xs e => rw [execStmt] at h; split at h <;> simp at h
      | unpackAssign xs e => simp [execStmt] at h
      | importS items => simp [execStmt] at h
      | ifs c t e =>
        rw [execStmt] at h
        split at h
        · exact ih.body _ _ _ _ _ h
        · cases h
      | ret e =>
        rw [execStmt] at h
        split at h
        · simp at h; subst h; rename_i hv; exact ih.expr _ _ _ _ _ hv
        · cases h
      | retNone => simp [execStmt] at h
      | skip => simp [execStmt] at h
      | unhandled => simp [execStmt] at h
    · intro G L env b v h
      cases b with
      | nil => simp [execBody] at h
      | cons s rest =>
        rw [execBody] at h
        cases hs : execStmt P f G L env s with
        | none => simp [hs] at h
        | some o =>
          rw [hs] at h
          cases o with
          | ret v' =>
            simp at h; subst h
            exact ih.stmt _ _ _ _ _ hs
          | fall env' => exact ih.body _ _ _ _ _ h
    · intro d vs v h
      rw [callFn] at h
      split at h
      · cases h
      · split at h
        · rename_i v' hv
          simp at h; subst h
          exact ih.body _ _ _ _ _ hv
        · cases h

theorem evalExpr_notObj {P : Prog} {f G L env e v} (h : evalExpr P f G L env e = some v) : NotObj v :=
  (noObj P f).expr _ _ _ _ _ h

theorem evalArgs_notObj {P : Prog} {f G L env es vs} (h : evalArgs P f G L env es = some vs) : ∀ v ∈ vs, NotObj v :=
  (noObj P f).args _ _ _ _ _ h

/-! ### the import tables describe the imported objects Python has bound -/

def ImpOk (I : Imps) (env : PyEnv) (L : List String) : Prop :=
  (∀ p g, List.lookup p env = some (.obj g) → List.lookup p I = some g) ∧
  (∀ p g, List.lookup p I = some g → L.contains p = true)

theorem ImpOk.cons {I : Imps} {env : PyEnv} {L : List String} (h : ImpOk I env L) (x : String) (v : Val)
    (hv : NotObj v) : ImpOk I ((x, v) :: env) L := by
  refine ⟨?_, h.2⟩
  intro p g hp
  rw [lookup_cons] at hp
  by_cases hpx : p = x
  · simp only [hpx, ↓reduceIte, Option.some.injEq] at hp
    exact absurd hp (hv g)
  · simp only [hpx, ↓reduceIte] at hp
    exact h.1 p g hp

theorem impOk_setAll {I : Imps} {L : List String} : ∀ (xs : List String) (vs : List Val) (env : PyEnv),
    ImpOk I env L → (∀ v ∈ vs, NotObj v) → ImpOk I (setAll env xs vs) L
  | [], _, _, h, _ => by simpa [setAll] using h
  | _ :: _, [], _, h, _ => by simpa [setAll] using h
  | x :: xs, v :: vs, env, h, hv => by
    simp only [setAll]
    exact impOk_setAll xs vs _ (h.cons x v (hv v (by simp))) (fun w hw => hv w (List.mem_cons_of_mem _ hw))

theorem pyResolve_tr {I : Imps} {env : PyEnv} {L : List String} {G : List (String × GVal)} {func : String}
    (h : ImpOk I env L) (hne : pyResolve G L env func ≠ .unresolved) :
    resolveCall (I ++ G) func = pyResolve G L env func := by
  unfold pyResolve at hne ⊢
  unfold resolveCall
  rw [List.lookup_append]
  by_cases hL : L.contains func = true
  · rw [if_pos hL] at hne ⊢
    split at hne
    · rename_i t ht
      rw [h.1 func _ ht]
      simp
    · exact absurd rfl hne
  · rw [if_neg hL]
    cases hI : List.lookup func I with
    | none => simp
    | some g => exact absurd (h.2 func g hI) hL

theorem pyAttr_tr {I : Imps} {env : PyEnv} {L : List String} {G : List (String × GVal)} {p : String} {g : GVal}
    (h : ImpOk I env L) (hg : pyAttr G L env p = some g) : List.lookup p (I ++ G) = some g := by
  unfold pyAttr at hg
  rw [List.lookup_append]
  by_cases hL : L.contains p = true
  · rw [if_pos hL] at hg
    split at hg
    · rename_i g' hg'
      cases hg
      rw [h.1 p _ hg']
      simp
    · cases hg
  · rw [if_neg hL] at hg
    cases hI : List.lookup p I with
    | none => simpa using hg
    | some g' => exact absurd (h.2 p g' hI) hL

/-! ### the import step -/

theorem lookup_map_obj (p : String) : ∀ (ps : List (String × GVal)),
    List.lookup p (ps.map (fun kv => (kv.1, Val.obj kv.2))) = (List.lookup p ps).map Val.obj
  | [] => by simp
  | (k, g) :: ps => by
    simp only [List.map_cons, lookup_cons]
    by_cases hk : p = k
    · simp [hk]
    · simp only [hk, ↓reduceIte]
      exact lookup_map_obj p ps

theorem impStep_inv {T : Tables} (hT : T.importsStrict = true) {ρ : SEnv} {L : List String}
    {ctx ctx' : Syms} {I I' : Imps} {env : PyEnv} {it : String × ImpItem}
    (h : impStep T (ctx, I) it = .ok (ctx', I')) (hag : Agree ctx env ρ) (hdl : DomL ctx L) (hi : ImpOk I env L)
    (hL : ∀ x ∈ impNames [it], L.contains x = true) :
    Agree ctx' (impEnvItem env it) ρ ∧ DomL ctx' L ∧ ImpOk I' (impEnvItem env it) L := by
  obtain ⟨n, item⟩ := it
  have hn : L.contains n = true := hL n (by cases item <;> simp [impNames])
  cases item with
  | flt q =>
    simp only [impStep, Except.ok.injEq, Prod.mk.injEq] at h
    obtain ⟨h1, h2⟩ := h
    subst h1 h2
    exact ⟨hag.cons n _ _ (by simp [evalS]), hdl.cons n _ hn, hi.cons n _ (notObj_num q)⟩
  | int q =>
    simp only [impStep, hT, ↓reduceIte, Except.ok.injEq, Prod.mk.injEq] at h
    obtain ⟨h1, h2⟩ := h
    subst h1 h2
    exact ⟨hag.cons n _ _ (by simp [evalS]), hdl.cons n _ hn, hi.cons n _ (notObj_num q)⟩
  | other =>
    simp [impStep, hT] at h
  | objs ps =>
    simp only [impStep, Except.ok.injEq, Prod.mk.injEq] at h
    obtain ⟨h1, h2⟩ := h
    subst h1 h2
    simp only [impEnvItem]
    refine ⟨?_, hdl, ?_, ?_⟩
    · intro p v hp
      rw [List.lookup_append, lookup_map_obj] at hp
      cases hps : List.lookup p ps with
      | none => rw [hps] at hp; simp at hp; exact hag p v hp
      | some g => rw [hps] at hp; simp at hp; exact Or.inl ⟨g, hp.symm⟩
    · intro p g hp
      rw [List.lookup_append, lookup_map_obj] at hp
      rw [List.lookup_append]
      cases hps : List.lookup p ps with
      | none => rw [hps] at hp; simp at hp ⊢; exact hi.1 p g hp
      | some g' => rw [hps] at hp; simp at hp ⊢; exact hp
    · intro p g hp
      rw [List.lookup_append] at hp
      cases hps : List.lookup p ps with
      | none => rw [hps] at hp; simp at hp; exact hi.2 p g hp
      | some g' =>
        have hmem : p ∈ ps.map (·.1) := by
          have := lookup_mem p g' ps hps
          exact List.mem_map.mpr ⟨(p, g'), this, rfl⟩
        exact hL p (by simp [impNames, hmem])

theorem impNames_cons (it : String × ImpItem) (its : List (String × ImpItem)) :
    ∀ x, x ∈ impNames (it :: its) ↔ x ∈ impNames [it] ∨ x ∈ impNames its := by
  intro x
  obtain ⟨n, item⟩ := it
  cases item <;> simp [impNames, or_assoc]

theorem impAll_inv {T : Tables} (hT : T.importsStrict = true) {ρ : SEnv} {L : List String} :
    ∀ (items : List (String × ImpItem)) (ctx ctx' : Syms) (I I' : Imps) (env : PyEnv),
    impAll T (ctx, I) items = .ok (ctx', I') → Agree ctx env ρ → DomL ctx L → ImpOk I env L →
    (∀ x ∈ impNames items, L.contains x = true) →
    Agree ctx' (impEnv env items) ρ ∧ DomL ctx' L ∧ ImpOk I' (impEnv env items) L
  | [], ctx, ctx', I, I', env, h, hag, hdl, hi, _ => by
    simp only [impAll, Except.ok.injEq, Prod.mk.injEq] at h
    obtain ⟨h1, h2⟩ := h
    subst h1 h2
    exact ⟨hag, hdl, hi⟩
  | it :: its, ctx, ctx', I, I', env, h, hag, hdl, hi, hL => by
    simp only [impAll] at h
    rw [bind_ok] at h
    obtain ⟨⟨c1, I1⟩, h1, h⟩ := h
    obtain ⟨a1, d1, i1⟩ := impStep_inv hT h1 hag hdl hi (fun x hx => hL x ((impNames_cons it its x).mpr (Or.inl hx)))
    simp only [impEnv, List.foldl_cons]
    exact impAll_inv hT its c1 ctx' I1 I' _ h a1 d1 i1 (fun x hx => hL x ((impNames_cons it its x).mpr (Or.inr hx)))

/-! ### chained assignment: every target gets the one value -/

theorem all2_replicate {ρ : SEnv} {s : SExpr} {v : Val} (h : evalS ρ s = some v) : ∀ (xs : List String),
    All2 (fun s v => evalS ρ s = some v) (xs.map (fun _ => s)) (xs.map (fun _ => v))
  | [] => .nil
  | _ :: xs => .cons h (all2_replicate h xs)

end Mxl.C06
