import MxlVerif.Lemmas.C15RelNorm
import MxlVerif.Lemmas.C15Rel
/-! several accumulating variables under the relative criterion: the relative step only shrinks -/
namespace Mxl.C15

/-- Σ_i (d_i / (y_i + m·d_i))²: the squared relative step of constant accumulation at comparison `m` -/
def relSq : List Rat → List Rat → Nat → Rat
  | a :: y, b :: d, m => (b / (a + (m : Rat) * b)) * (b / (a + (m : Rat) * b)) + relSq y d m
  | _, _, _ => 0

/-- all components positive, same length -/
def posPair : List Rat → List Rat → Prop
  | a :: y, b :: d => 0 < a ∧ 0 < b ∧ posPair y d
  | [], [] => True
  | _, _ => False

theorem iter_acc_cons (b : Rat) (d : List Rat) : ∀ (m : Nat) (a : Rat) (y : List Rat),
    iter (accStep (b :: d)) m (a :: y) = (a + (m : Rat) * b) :: iter (accStep d) m y := by
  intro m
  induction m with
  | zero => intro a y; simp [iter]
  | succ m ih =>
    intro a y
    simp only [iter, accStep, List.zipWith_cons_cons]
    have := ih (a + b) (List.zipWith (· + ·) y d)
    rw [this]
    congr 1
    push_cast
    ring

theorem iter_acc_nil (d : List Rat) : ∀ (m : Nat), iter (accStep d) m [] = [] := by
  intro m
  induction m with
  | zero => rfl
  | succ m ih => simp only [iter, accStep, List.zipWith_nil_left]; simpa [accStep] using ih

theorem relSq_mono : ∀ (y d : List Rat), posPair y d → ∀ m : Nat, relSq y d (m + 1) ≤ relSq y d m
  | [], [], _, _ => by simp [relSq]
  | [], _ :: _, h, _ => by simp [posPair] at h
  | _ :: _, [], h, _ => by simp [posPair] at h
  | a :: y, b :: d, h, m => by
    obtain ⟨ha, hb, hrest⟩ := h
    have ih := relSq_mono y d hrest m
    simp only [relSq]
    have hm : (0 : Rat) ≤ (m : Rat) := Nat.cast_nonneg m
    have hA : 0 < a + (m : Rat) * b := by nlinarith
    have hA' : a + (m : Rat) * b ≤ a + ((m + 1 : Nat) : Rat) * b := by push_cast; nlinarith
    have hq : b / (a + ((m + 1 : Nat) : Rat) * b) ≤ b / (a + (m : Rat) * b) :=
      div_le_div_of_nonneg_left (le_of_lt hb) hA hA'
    have hq0 : 0 ≤ b / (a + ((m + 1 : Nat) : Rat) * b) := div_nonneg (le_of_lt hb) (by nlinarith)
    have := mul_le_mul hq hq hq0 (le_trans hq0 hq)
    linarith

theorem smallRel_acc : ∀ (y d : List Rat), posPair y d → ∀ (tol : Rat), 0 < tol → ∀ m : Nat,
    smallRel tol (iter (accStep d) (m + 1) y) (iter (accStep d) m y) = decide (relSq y d m < tol * tol) := by
  intro y d h tol ht m
  have key : ∀ (y d : List Rat), posPair y d →
      ((iter (accStep d) m y).any (· == 0)) = false ∧
      normSq (vdiv (vsub (iter (accStep d) (m + 1) y) (iter (accStep d) m y)) (iter (accStep d) m y)) = relSq y d m := by
    intro y
    induction y with
    | nil =>
      intro d h
      cases d with
      | nil => simp [iter_acc_nil, vdiv, vsub, normSq, relSq]
      | cons b d => simp [posPair] at h
    | cons a y ih =>
      intro d h
      cases d with
      | nil => simp [posPair] at h
      | cons b d =>
        obtain ⟨ha, hb, hrest⟩ := h
        obtain ⟨h1, h2⟩ := ih d hrest
        have hm : (0 : Rat) ≤ (m : Rat) := Nat.cast_nonneg m
        have hA : 0 < a + (m : Rat) * b := by nlinarith
        rw [iter_acc_cons, iter_acc_cons]
        constructor
        · simp only [List.any_cons, h1, Bool.or_false]
          simp [ne_of_gt hA]
        · simp only [vsub, vdiv, List.zipWith_cons_cons] at h2 ⊢
          rw [normSq_cons, h2]
          simp only [relSq]
          have : a + ((m + 1 : Nat) : Rat) * b - (a + (m : Rat) * b) = b := by push_cast; ring
          rw [this]
  obtain ⟨h1, h2⟩ := key y d h
  simp only [smallRel, h1, Bool.false_eq_true, if_false, h2, ht, decide_true, Bool.true_and]

/-- SEVERAL accumulating variables, all positive, relative criterion: the relative step only shrinks, so the search fails
    exactly when the LAST comparison of the budget is not small -/
theorem rel_accumulation_vec_none_iff (y d : List Rat) (h : posPair y d) (tol : Rat) (ht : 0 < tol) (K : Nat) :
    ssRun true true (accStep d) (fun _ => true) (smallRel tol) (K + 1) y = .noSteadyState ↔
      smallRel tol (iter (accStep d) (K + 1) y) (iter (accStep d) K y) = false := by
  unfold ssRun
  rw [ssLoop_copy_none]
  constructor
  · intro hall; exact (hall K (Nat.lt_succ_self K)).2
  · intro hK m hm
    refine ⟨rfl, ?_⟩
    rw [smallRel_acc y d h tol ht] at hK ⊢
    simp only [decide_eq_false_iff_not, not_lt] at hK ⊢
    have hmono : ∀ j : Nat, relSq y d (m + j) ≤ relSq y d m := by
      intro j
      induction j with
      | zero => exact le_refl _
      | succ j ih => exact le_trans (relSq_mono y d h (m + j)) ih
    have : K = m + (K - m) := by omega
    rw [this] at hK
    exact le_trans hK (hmono (K - m))

end Mxl.C15
