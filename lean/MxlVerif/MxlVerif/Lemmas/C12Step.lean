/- C12 — one numeric step = one symbolic step (core Lean only). -/
import MxlVerif.Lemmas.C12Maps
import MxlVerif.Lemmas.C12Sym
namespace Mxl.C12
open Mxl

/-- the symbol table `T` and the numeric environment `E` give every name in `A` that both
    know the same value -/
def AgreeOn (A : Name → Prop) (T : Symbols) (ρ : Name → Rat) (E : Env) : Prop :=
  ∀ k, A k → ∀ e v, T.lookup k = some e → E.lookup k = some v → evalS ρ e = v

inductive All2 {α β} (R : α → β → Prop) : List α → List β → Prop
  | nil : All2 R [] []
  | cons {a b as bs} : R a b → All2 R as bs → All2 R (a :: as) (b :: bs)

theorem All2.imp {α β} {R S : α → β → Prop} (h : ∀ a b, R a b → S a b) :
    ∀ {l r}, All2 R l r → All2 S l r := by
  intro l r hl
  induction hl with
  | nil => exact .nil
  | cons hab _ ih => exact .cons (h _ _ hab) ih

theorem mapM_except_ok {α β ε} (f : α → Except ε β) :
    ∀ (l : List α) (r : List β), l.mapM f = .ok r → All2 (fun a b => f a = .ok b) l r := by
  intro l
  induction l with
  | nil => intro r h; simp [pure, Except.pure] at h; subst h; exact .nil
  | cons a l ih =>
    intro r h
    rw [List.mapM_cons] at h
    cases ha : f a with
    | error e => simp [ha, bind, Except.bind] at h
    | ok b =>
      cases hl : l.mapM f with
      | error e => simp [ha, hl, bind, Except.bind] at h
      | ok bs =>
        simp [ha, hl, bind, Except.bind, pure, Except.pure] at h
        subst h
        exact .cons ha (ih bs hl)

theorem mapM_except_of_forall₂ {α β ε} (f : α → Except ε β) :
    ∀ (l : List α) (r : List β), All2 (fun a b => f a = .ok b) l r → l.mapM f = .ok r := by
  intro l r h
  induction h with
  | nil => rfl
  | cons ha _ ih => rw [List.mapM_cons]; simp [ha, ih, bind, Except.bind, pure, Except.pure]

theorem lookupSyms_ok (s : Symbols) (args : List Name) (es : List SExpr)
    (h : lookupSyms s args = .ok es) : All2 (fun a e => s.lookup a = some e) args es := by
  have := mapM_except_ok _ _ _ h
  refine this.imp ?_
  intro a e hae
  cases hl : s.lookup a with
  | none => simp [hl] at hae
  | some e' => simp [hl] at hae; simp [hae]

theorem lookupArgs_ok (E : Env) (args : List Name) (vs : List Rat)
    (h : lookupArgs E args = .ok vs) : All2 (fun a v => E.lookup a = some v) args vs := by
  have := mapM_except_ok _ _ _ h
  refine this.imp ?_
  intro a v hav
  unfold Env.get at hav
  cases hl : E.lookup a with
  | none => simp [hl] at hav
  | some v' => simp [hl] at hav; simp [hav]

theorem agree_args (A : Name → Prop) (s : Symbols) (ρ : Name → Rat) (E : Env)
    (hA : AgreeOn A s ρ E) :
    ∀ (args : List Name) (es : List SExpr) (vs : List Rat),
      All2 (fun a e => s.lookup a = some e) args es →
      All2 (fun a v => E.lookup a = some v) args vs →
      (∀ a ∈ args, A a) → es.map (evalS ρ) = vs := by
  intro args es vs h1
  induction h1 generalizing vs with
  | nil => intro h2 _; cases h2; rfl
  | cons hae _ ih =>
    intro h2 hmem
    cases h2 with
    | cons hav h2' =>
      simp only [List.map_cons]
      rw [ih _ h2' (fun a ha => hmem a (List.mem_cons_of_mem _ ha))]
      rw [hA _ (hmem _ (List.mem_cons_self)) _ _ hae hav]

/-- one numeric step and one symbolic step give the same value -/
theorem step_value (A : Name → Prop) (s : Symbols) (ρ : Name → Rat) (E : Env) (f : SFn)
    (e : SExpr) (v : Rat) (hA : AgreeOn A s ρ E) (hargs : ∀ a ∈ f.args, A a)
    (hs : substFn s f = .ok e) (hn : f.toFn.calc E = .ok v) : evalS ρ e = v := by
  unfold substFn at hs
  cases hl : lookupSyms s f.args with
  | error err => simp [hl, bind, Except.bind] at hs
  | ok es =>
    simp [hl, bind, Except.bind, pure, Except.pure] at hs
    unfold Fn.calc at hn
    cases hv : lookupArgs E f.toFn.args with
    | error err => simp [hv, bind, Except.bind] at hn
    | ok vs =>
      simp [hv, bind, Except.bind, pure, Except.pure] at hn
      subst hs hn
      rw [evalS_substArgs]
      have := agree_args A s ρ E hA f.args es vs (lookupSyms_ok _ _ _ hl) (lookupArgs_ok _ _ _ hv) hargs
      simp [SFn.toFn, this]


theorem createCache_inv (c : Content) (cache : Cache) (h : createCache c = .ok cache) :
    ∃ order dependent so dyo apn st dst init extra,
      sortDeps c.available c.deps = .ok order ∧
      evalInOrder c.toSort order (baseEnv (plainOf c.pars) (plainOf c.vars) c.data 0) = .ok dependent ∧
      classify c order [] [] (omKeys c.pars) = (so, dyo, apn) ∧
      addRxns apn dependent c.allStoich ([], []) = .ok (st, dst) ∧
      (omKeys c.vars).mapM (fun k => do pure (k, ← dependent.get k)) = .ok init ∧
      (so.filter fun k => !(omKeys c.vars).contains k).mapM (fun k => do pure (k, ← dependent.get k)) = .ok extra ∧
      cache = { order, varNames := omKeys c.vars, dynOrder := dyo, basePars := plainOf c.pars,
                allPars := omUnion (plainOf c.pars) extra, stoich := st, dynStoich := dst, init } := by
  unfold createCache at h
  simp only [bind, Except.bind] at h
  split at h
  · simp at h
  · rename_i order horder
    split at h
    · simp at h
    · rename_i dependent hdep
      generalize hcl : classify c order [] [] (omKeys c.pars) = cl at h
      obtain ⟨so, dyo, apn⟩ := cl
      simp only at h
      split at h
      · simp at h
      · rename_i stp hst
        obtain ⟨st, dst⟩ := stp
        simp only at h
        split at h
        · simp at h
        · rename_i init hinit
          split at h
          · simp at h
          · rename_i extra hextra
            simp only [pure, Except.pure, Except.ok.injEq] at h
            exact ⟨order, dependent, so, dyo, apn, st, dst, init, extra, horder, hdep, hcl, hst, hinit, hextra, h.symm⟩

end Mxl.C12
