/-
Core data types shared by every model. Import-free (core Lean only) so that the
driver executable can link.

Python `dict` is modelled as an association list.  Lookups take the FIRST
binding; `Env.set` pushes a new binding in front (shadowing), which has the
lookup semantics of `d[k] = v`.  Where insertion order is observable (container
key order, `a | b`) the `OrdMap` functions below keep Python's order.
-/
namespace Mxl

abbrev Name := String
abbrev Env := List (Name × Rat)

inductive Err where
  | keyError (k : Name)
  | missing (m : List (Name × List Name))
  | circular (unsorted : List (Name × List Name))
  | nameError (k : Name)
  | valueError (s : String)
  | other (s : String)
deriving Repr, DecidableEq, Inhabited

def Env.get (e : Env) (k : Name) : Except Err Rat :=
  match e.lookup k with
  | some v => .ok v
  | none => .error (.keyError k)

def Env.set (e : Env) (k : Name) (v : Rat) : Env := (k, v) :: e

/-- `dict(zip(ks, vs)) | e`-style bulk update: later pairs shadow earlier ones. -/
def Env.setMany (e : Env) : List (Name × Rat) → Env
  | [] => e
  | (k, v) :: kvs => Env.setMany (e.set k v) kvs

/-! ### Ordered maps (Python dict order) -/

/-- `d[k] = v`: update in place if present, else append. -/
def omInsert {β} (m : List (Name × β)) (k : Name) (v : β) : List (Name × β) :=
  match m with
  | [] => [(k, v)]
  | (k', v') :: rest => if k' == k then (k, v) :: rest else (k', v') :: omInsert rest k v

/-- `a | b`. -/
def omUnion {β} (a b : List (Name × β)) : List (Name × β) :=
  b.foldl (fun acc kv => omInsert acc kv.1 kv.2) a

def omErase {β} (m : List (Name × β)) (k : Name) : List (Name × β) :=
  m.filter (fun kv => kv.1 != k)

def omKeys {β} (m : List (Name × β)) : List Name := m.map (·.1)

/-! ### small helpers -/

def insertSorted (x : Name) : List Name → List Name
  | [] => [x]
  | y :: ys => if x < y then x :: y :: ys else if x == y then y :: ys else y :: insertSorted x ys

/-- `sorted(set(l))`. -/
def sortDedup (l : List Name) : List Name := l.foldr insertSorted []

def sumRat (l : List Rat) : Rat := l.foldl (· + ·) 0

end Mxl
