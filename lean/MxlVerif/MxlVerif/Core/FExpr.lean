/-
A tiny expression language used by the driver to denote the Python functions the
harness generates (positional arguments, + - * and constants: the fragment in
which IEEE double arithmetic on small integers / dyadics is exact).
Theorems never mention it: they quantify over opaque `List Rat → Rat`.
-/
import MxlVerif.Core.Basic
namespace Mxl

inductive FExpr where
  | arg (i : Nat)
  | const (q : Rat)
  | add (a b : FExpr)
  | sub (a b : FExpr)
  | mul (a b : FExpr)
  | neg (a : FExpr)
deriving Repr, Inhabited

def FExpr.eval (xs : List Rat) : FExpr → Rat
  | .arg i => xs.getD i 0
  | .const q => q
  | .add a b => a.eval xs + b.eval xs
  | .sub a b => a.eval xs - b.eval xs
  | .mul a b => a.eval xs * b.eval xs
  | .neg a => - a.eval xs

end Mxl
