/-
C08 — the exporter's domain, stated declaratively (mentions no exporter table).

`hasUnsupported` (Model/C08Sem.lean) lists what MathML cannot say: the exporter must refuse it.  `usesRefused` lists
the few constructs MathML could say but this exporter refuses (the property allows a refusal): unary plus, `%`,
`floor` / `exp` / `log2`, and `math.remainder` (IEEE remainder, no MathML counterpart with that meaning) /
`math.power` (no such function).  Everything else is the exporter's language: `C08_export_total` (Props/C08.lean)
proves that every expression of it IS exported — the round-trip theorems are not vacuous on any of them.
-/
import MxlVerif.Model.C08Sem
namespace Mxl.C08

def refusedFns : List String := ["floor", "exp", "log2"]

/-- the root node is representable in MathML but refused by this exporter -/
def refusedNode : PyExpr → Bool
  | .unary .uadd _ => true
  | .binop .mod _ _ => true
  | .call (.direct f) _ => refusedFns.contains f
  | .call (.lib p a) _ => refusedFns.contains a || (p == "math" && ["remainder", "power"].contains a)
  | _ => false

mutual
def usesRefused : PyExpr → Bool
  | .unary op e => refusedNode (.unary op e) || usesRefused e
  | .binop op l r => refusedNode (.binop op l r) || usesRefused l || usesRefused r
  | .compare l _ r rest => usesRefused l || usesRefused r || usesRefusedLinks rest
  | .ifexp t b o => usesRefused t || usesRefused b || usesRefused o
  | .call f args => refusedNode (.call f args) || usesRefusedList args
  | _ => false
def usesRefusedList : List PyExpr → Bool
  | [] => false
  | e :: es => usesRefused e || usesRefusedList es
def usesRefusedLinks : List (COp × PyExpr) → Bool
  | [] => false
  | (_, e) :: rest => usesRefused e || usesRefusedLinks rest
end

/-- a function body in the exporter's language: it begins with `return <expression of the language>` -/
def bodyInLanguage : List PyStmt → Bool
  | .ret (some e) :: _ => !hasUnsupported e && !usesRefused e
  | _ => false

end Mxl.C08
