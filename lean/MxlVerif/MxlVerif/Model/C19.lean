/-
C19 — result cache of `mxlpy.parallel` (parallel.py: `_pickle_save`, `_pickle_load`, `_load_or_run`,
`parallelise`).  Import-free executable model.

File system: a function from paths to files.  A file is either absent or holds the first `p` bytes of the
pickle of a payload `w` (`size w` = length of that pickle).  `load` succeeds iff all bytes are there
(`pickle.load` of a proper prefix raises `EOFError` / `UnpicklingError`).

`save` is a list of atomic file operations in the order the code performs them:
  * `direct` (the pinned tree): `file.open("wb")` truncates/creates THE FINAL PATH, then the bytes arrive
    one by one (every byte boundary is a possible crash point; the OS may batch them, which only removes
    crash points);
  * `atomic` (after the repair): the same into a temporary sibling, then `os.replace(tmp, final)`.
A run may be cut after any number of those operations (`cut = some c`).
-/
namespace Mxl.C19

inductive SaveMode where
  | direct
  | atomic
deriving DecidableEq, Repr, Inhabited

inductive File (β : Type) where
  | absent
  | data (w : β) (p : Nat)
deriving DecidableEq, Repr, Inhabited

inductive Path (κ : Type) where
  | final (k : κ)
  | tmp (k : κ)
deriving DecidableEq, Repr

/-- the file system: what is at each path (a structure, so that functions returning an `FS` are evaluated
when they are called and not re-run at every later lookup) -/
structure FS (κ β : Type) where
  get : Path κ → File β

instance {κ β : Type} : CoeFun (FS κ β) (fun _ => Path κ → File β) := ⟨FS.get⟩

theorem FS.ext {κ β : Type} {a b : FS κ β} (h : ∀ q, a q = b q) : a = b := by
  cases a; cases b; congr; funext q; exact h q

def FS.empty {κ β : Type} : FS κ β := ⟨fun _ => .absent⟩

def FS.set {κ β : Type} [DecidableEq κ] (fs : FS κ β) (p : Path κ) (f : File β) : FS κ β :=
  ⟨fun q => if q = p then f else fs q⟩

inductive Op (κ β : Type) where
  | openW (p : Path κ) (w : β)
  | write1 (p : Path κ)
  | rename (src dst : Path κ)
deriving Repr

/-- one more byte of the payload reaches the file -/
def File.bump {β : Type} : File β → File β
  | .data w n => .data w (n + 1)
  | .absent => .absent

def applyOp {κ β : Type} [DecidableEq κ] (fs : FS κ β) : Op κ β → FS κ β
  | .openW p w => fs.set p (.data w 0)
  | .write1 p => fs.set p (fs p).bump
  | .rename s d => (fs.set d (fs s)).set s .absent

def applyOps {κ β : Type} [DecidableEq κ] (fs : FS κ β) (ops : List (Op κ β)) : FS κ β :=
  ops.foldl applyOp fs

/-- the file operations of `cache.save_fn(file, res)`, in program order -/
def saveOps {κ β : Type} (mode : SaveMode) (size : β → Nat) (k : κ) (res : β) : List (Op κ β) :=
  match mode with
  | .direct => .openW (.final k) res :: List.replicate (size res) (.write1 (.final k))
  | .atomic =>
    .openW (.tmp k) res :: (List.replicate (size res) (.write1 (.tmp k)) ++ [.rename (.tmp k) (.final k)])

/-- the file operations of one save with explicit paths: the temporary this writer uses and the result file -/
def saveOpsAt {κ β : Type} (size : β → Nat) (tmpP fin : Path κ) (res : β) : List (Op κ β) :=
  .openW tmpP res :: (List.replicate (size res) (.write1 tmpP) ++ [.rename tmpP fin])

inductive Outcome (β : Type) where
  | ret (v : β) (computed : Bool)   -- `computed` = `fn` was called
  | loadError                        -- `cache.load_fn` raised (EOFError / UnpicklingError)
  | killed                           -- the process died inside `save`
deriving DecidableEq, Repr

/-- `_load_or_run((k, v), fn, cache)`; with `cut = some c` the process is killed after `c` file
operations of `save` (if it gets there). -/
def loadOrRun {κ α β : Type} [DecidableEq κ] (mode : SaveMode) (size : β → Nat) (fn : α → β)
    (fs : FS κ β) (k : κ) (v : α) (cut : Option Nat) : FS κ β × Outcome β :=
  match fs (.final k) with
  | .data w p => if size w ≤ p then (fs, .ret w false) else (fs, .loadError)   -- file.exists(): load
  | .absent =>
    let res := fn v
    let ops := saveOps mode size k res
    match cut with
    | none => (applyOps fs ops, .ret res true)
    | some c => (applyOps fs (ops.take c), .killed)

/-- `parallelise(fn, inputs, cache=None)` -/
def uncached {κ α β : Type} (fn : α → β) (inputs : List (κ × α)) : List (κ × β) :=
  inputs.map fun kv => (kv.1, fn kv.2)

structure RunResult (κ β : Type) where
  fs : FS κ β
  out : Except Unit (List (κ × β))   -- `.error ()` = the exception of `load_fn` left `parallelise`
  calls : List κ                      -- keys for which `fn` was called, in order

/-- a complete `parallelise(fn, inputs, cache=cache, parallel=False)`: `map(worker, inputs)`; the first
exception ends the run. -/
def run {κ α β : Type} [DecidableEq κ] (mode : SaveMode) (size : β → Nat) (fn : α → β) :
    FS κ β → List (κ × α) → RunResult κ β
  | fs, [] => ⟨fs, .ok [], []⟩
  | fs, (k, v) :: rest =>
    match loadOrRun mode size fn fs k v none with
    | (fs', .ret w computed) =>
      let r := run mode size fn fs' rest
      ⟨r.fs, r.out.map ((k, w) :: ·), if computed then k :: r.calls else r.calls⟩
    | (fs', _) => ⟨fs', .error (), []⟩

/-- how far the worker of one key got when the run died -/
inductive Progress where
  | notStarted
  | cut (c : Nat)
  | done
deriving DecidableEq, Repr

/-- an interrupted `parallelise`: every key has its own progress (sequential kill = a prefix `done`, one
`cut`, the rest `notStarted`; a killed pool = any combination). -/
def crashedRun {κ α β : Type} [DecidableEq κ] (mode : SaveMode) (size : β → Nat) (fn : α → β)
    (prog : κ → Progress) (fs : FS κ β) (inputs : List (κ × α)) : FS κ β :=
  inputs.foldl (fun fs kv =>
    match prog kv.1 with
    | .notStarted => fs
    | .cut c => (loadOrRun mode size fn fs kv.1 kv.2 (some c)).1
    | .done => (loadOrRun mode size fn fs kv.1 kv.2 none).1) fs

/-- an interrupted SEQUENTIAL `parallelise(..., parallel=False)`: keys are processed in order; the process is
killed `c` file operations into the save of `victim` (if it gets there); a load error ends the run. -/
def runKilled {κ α β : Type} [DecidableEq κ] (mode : SaveMode) (size : β → Nat) (fn : α → β)
    (victim : κ) (c : Nat) : FS κ β → List (κ × α) → FS κ β
  | fs, [] => fs
  | fs, (k, v) :: rest =>
    match loadOrRun mode size fn fs k v (if k = victim then some c else none) with
    | (fs', .ret _ _) => runKilled mode size fn victim c fs' rest
    | (fs', _) => fs'

/-- a pool processes the inputs in some order `sched` and reports in input order (`pool.map`) -/
def runSched {κ α β : Type} [DecidableEq κ] (mode : SaveMode) (size : β → Nat) (fn : α → β)
    (fs : FS κ β) (sched inputs : List (κ × α)) : Except Unit (List (κ × β)) :=
  match (run mode size fn fs sched).out with
  | .error e => .error e
  | .ok res => .ok (inputs.filterMap fun kv => (res.lookup kv.1).map fun w => (kv.1, w))

end Mxl.C19

/-! ### vocabulary of the theorems -/
namespace Mxl.C19

/-- every final file is absent or holds the complete pickle of the right value -/
def File.Good {β : Type} (size : β → Nat) (x : β) : File β → Prop
  | .absent => True
  | .data w p => w = x ∧ size w ≤ p

def Consistent {κ α β : Type} (size : β → Nat) (fn : α → β) (val : κ → α) (fs : FS κ β) : Prop :=
  ∀ k, (fs (.final k)).Good size (fn (val k))

/-- the inputs of a run name each key's own input (`val k`): one key never stands for two inputs -/
def Respects {κ α : Type} (val : κ → α) (inputs : List (κ × α)) : Prop :=
  ∀ kv ∈ inputs, kv.2 = val kv.1

def Op.paths {κ β : Type} : Op κ β → List (Path κ)
  | .openW p _ => [p]
  | .write1 p => [p]
  | .rename s d => [s, d]

/-- `l` is an interleaving of `a` and `b` (each keeps its own order) -/
inductive Interleave {γ : Type} : List γ → List γ → List γ → Prop where
  | nil : Interleave [] [] []
  | left {a b l : List γ} (x : γ) : Interleave a b l → Interleave (x :: a) b (x :: l)
  | right {a b l : List γ} (x : γ) : Interleave a b l → Interleave a (x :: b) (x :: l)

/-- keys reach the disk through `cache.name_fn`: the runs above are over FILE NAMES; this is the input list
after naming -/
def named {κ ν α : Type} (name : κ → ν) (inputs : List (κ × α)) : List (ν × α) :=
  inputs.map fun kv => (name kv.1, kv.2)

/-- `name_fn` keeps apart every two keys of the run that stand for different inputs -/
def NamesSeparate {κ ν α : Type} (name : κ → ν) (inputs : List (κ × α)) : Prop :=
  ∀ a ∈ inputs, ∀ b ∈ inputs, name a.1 = name b.1 → a.2 = b.2

/-- one interrupted run: a killed pool (per-key progress) or a killed sequential map -/
inductive Interrupted (κ α : Type) where
  | pool (prog : κ → Progress) (inputs : List (κ × α))
  | seq (victim : κ) (c : Nat) (inputs : List (κ × α))

def Interrupted.inputs {κ α : Type} : Interrupted κ α → List (κ × α)
  | .pool _ i => i
  | .seq _ _ i => i

def Interrupted.apply {κ α β : Type} [DecidableEq κ] (mode : SaveMode) (size : β → Nat) (fn : α → β)
    (fs : FS κ β) : Interrupted κ α → FS κ β
  | .pool prog inputs => crashedRun mode size fn prog fs inputs
  | .seq victim c inputs => runKilled mode size fn victim c fs inputs

/-- a sequence of interrupted runs, each with its own inputs and kill points -/
def crashHistory {κ α β : Type} [DecidableEq κ] (mode : SaveMode) (size : β → Nat) (fn : α → β)
    (fs : FS κ β) (hist : List (Interrupted κ α)) : FS κ β :=
  hist.foldl (fun fs h => h.apply mode size fn fs) fs

/-! ### the default file name of a key, and the key check of `parallelise` -/

/-- shape of `_pickle_name` -/
inductive NameScheme where
  | plainStr      -- f"{k}.p"                                  (pinned tree)
  | quotedRepr    -- f"{quote(repr(k), safe='')}.p"           (after the repair)
deriving DecidableEq, Repr

/-- bytes `urllib.parse.quote(s, safe='')` copies: ASCII letters, digits and `_ . - ~` -/
def safeByte (b : Nat) : Bool :=
  (65 ≤ b && b ≤ 90) || (97 ≤ b && b ≤ 122) || (48 ≤ b && b ≤ 57) || b == 95 || b == 46 || b == 45 || b == 126

/-- upper-case hexadecimal digit of `n < 16`, as a byte -/
def hexDigit (n : Nat) : Nat := if n < 10 then 48 + n else 55 + n
def unhex (c : Nat) : Nat := if c < 58 then c - 48 else c - 55

/-- percent-encoding of a byte string: safe bytes are copied, every other byte becomes `%XX` -/
def pctEncode : List Nat → List Nat
  | [] => []
  | b :: rest => if safeByte b then b :: pctEncode rest else 37 :: hexDigit (b / 16) :: hexDigit (b % 16) :: pctEncode rest

def pctDecode : List Nat → List Nat
  | 37 :: h :: l :: rest => (unhex h * 16 + unhex l) :: pctDecode rest
  | b :: rest => b :: pctDecode rest
  | [] => []

/-- the file name of key `k` under a scheme; `str` / `repr` are Python's `str(k)` / `repr(k)` as byte strings -/
def defaultName {κ : Type} (scheme : NameScheme) (str repr : κ → List Nat) (k : κ) : List Nat :=
  match scheme with
  | .plainStr => str k ++ [46, 112]
  | .quotedRepr => pctEncode (repr k) ++ [46, 112]

/-- ASCII decimal digits of a number (`str(os.getpid())` inside the f-string) -/
def decDigits (n : Nat) : List Nat := (Nat.toDigits 10 n).map Char.toNat

/-- the temporary sibling `_pickle_save` writes to: `file.with_name(f"{file.name}<sep>{os.getpid()}<suffix>")`;
`sep` and `suffix` are read from the source by the translator -/
def tmpName (sep suffix final : List Nat) (pid : Nat) : List Nat := final ++ sep ++ decDigits pid ++ suffix

/-- a file name that cannot leave the cache directory or be cut short: no `/`, `\`, NUL -/
def pathSafe (name : List Nat) : Bool := name.all fun b => b != 47 && b != 92 && b != 0

/-- what the translator checks about the temporary name's constant parts: the suffix does not end in `.p` (so no
temporary name is some key's result file) and neither part holds a path separator -/
def tmpPartsOk (sep suffix : List Nat) : Bool :=
  decide (2 ≤ suffix.length) && (suffix.reverse.take 2 != [112, 46]) && pathSafe sep && pathSafe suffix

/-- `parallelise(fn, inputs, cache=cache)` as shipped: with `checks = true` a cache is refused (`none`, the
`ValueError`) when two inputs share a key -/
def parallelise {κ α β : Type} [DecidableEq κ] (checks : Bool) (mode : SaveMode) (size : β → Nat) (fn : α → β)
    (fs : FS κ β) (inputs : List (κ × α)) : Option (RunResult κ β) :=
  if checks && !decide (inputs.map (·.1)).Nodup then none else some (run mode size fn fs inputs)

end Mxl.C19
