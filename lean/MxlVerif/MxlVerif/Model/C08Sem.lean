/-
C08 — meaning of the two expression languages (spec side; nothing here is read from the exporter).

* `evalPy`   : what the Python function returns (numbers as exact rationals; `bool` is a number
               in arithmetic, a number is truthy iff non-zero; `and`/`or`/`if` are lazy).
* `evalMath` : the SBML L3v2 reading of a MathML tree, as the import pipeline realises it
               (pysbml `mathml2sympy` + sympy's Python printer): piecewise = (value, condition)*
               otherwise, evaluated lazily; minus unary/binary; relational operators n-ary
               (all adjacent pairs); `xor` n-ary = parity; `quotient` = floor division; `rem` = sign-of-divisor
               remainder; `root`/`log` with a single child = sqrt / log10.
* Functions without an exact rational value (sqrt, ln, sin, ...) are an uninterpreted
  parameter `I : name → args → Option Rat` shared by both sides; what is proved about them
  is that the exporter pairs each Python name with the MathML node of the same meaning and
  passes the same arguments in the same order.
`none` = no value (exception, division by zero, wrong arity, inf/nan, unknown name).
-/
import MxlVerif.Model.C08Syntax
namespace Mxl.C08

inductive Val where
  | num (q : Rat)
  | bool (b : Bool)
deriving Repr, DecidableEq, Inhabited

def Val.toNum : Val → Rat
  | .num q => q
  | .bool b => if b then 1 else 0

def Val.truthy : Val → Bool
  | .num q => q != 0
  | .bool b => b

abbrev VEnv := String → Option Val
abbrev Interp := String → List Rat → Option Rat

/-- mathematical functions both languages can name -/
inductive Sem where
  | abs | ceil | floor | max | min | rem | pow
  | ieeeRem                         -- `math.remainder`: x − n·y with n the integer nearest to x/y, ties to even
  | opaque (name : String)
deriving Repr, DecidableEq, Inhabited

def floorDiv (a b : Rat) : Rat := ((a / b).floor : Int)

/-- round half to even -/
def roundHalfEven (q : Rat) : Int :=
  let f := q.floor
  let diff := q - (f : Rat)
  if diff < 1 / 2 then f else if 1 / 2 < diff then f + 1 else (if f % 2 = 0 then f else f + 1)

def powRat (I : Interp) (a b : Rat) : Option Rat :=
  if b.den = 1 then
    if 0 ≤ b.num then some (a ^ b.num.toNat)
    else if a = 0 then none else some ((a ^ b.num.natAbs)⁻¹)
  else I "pow" [a, b]

def Sem.eval (I : Interp) : Sem → List Rat → Option Rat
  | .abs, [a] => some (if a < 0 then -a else a)
  | .ceil, [a] => some ((a.ceil : Int) : Rat)
  | .floor, [a] => some ((a.floor : Int) : Rat)
  | .max, a :: as => some (as.foldl (fun x y => if x < y then y else x) a)
  | .min, a :: as => some (as.foldl (fun x y => if y < x then y else x) a)
  | .rem, [a, b] => if b = 0 then none else some (a - b * floorDiv a b)
  | .ieeeRem, [a, b] => if b = 0 then none else some (a - b * (roundHalfEven (a / b) : Int))
  | .pow, [a, b] => powRat I a b
  | .opaque n, xs => I n xs
  | _, _ => none

/-! ### Python side -/

def pyLibs : List String := ["math", "np", "numpy"]

/-- meaning of the function names of `math` / `numpy` (and of the same names imported directly,
    and the builtins `abs`, `max`, `min`) -/
def pySem (f : String) : Option Sem :=
  if f = "abs" then some .abs
  else if f = "ceil" then some .ceil
  else if f = "floor" then some .floor
  else if f = "max" then some .max
  else if f = "min" then some .min
  else if f = "remainder" then some .rem
  else if f = "power" then some .pow
  else if f = "log" then some (.opaque "ln")
  else if f = "log10" then some (.opaque "log10")
  else if f = "log2" then some (.opaque "log2")
  else if f ∈ ["sqrt", "exp", "sin", "cos", "tan", "arcsin", "arccos", "arctan", "sinh", "cosh", "tanh",
               "arcsinh", "arccosh", "arctanh"] then some (.opaque f)
  else none

/-- `module.name`: numpy's names; `math` shares them except `remainder`, which is the IEEE remainder there -/
def pySemLib (p a : String) : Option Sem :=
  if p = "math" ∧ a = "remainder" then some .ieeeRem else pySem a

def pyUnary : UOp → Val → Option Val
  | .usub, v => some (.num (- v.toNum))
  | .uadd, v => some (.num v.toNum)
  | .not, v => some (.bool (!v.truthy))
  | .invert, _ => none

def pyBin (I : Interp) : BOp → Rat → Rat → Option Rat
  | .add, a, b => some (a + b)
  | .sub, a, b => some (a - b)
  | .mult, a, b => some (a * b)
  | .div, a, b => if b = 0 then none else some (a / b)
  | .floordiv, a, b => if b = 0 then none else some (floorDiv a b)
  | .mod, a, b => if b = 0 then none else some (a - b * floorDiv a b)
  | .pow, a, b => powRat I a b
  | _, _, _ => none

def pyCmp : COp → Rat → Rat → Option Bool
  | .eq, a, b => some (a == b)
  | .ne, a, b => some (a != b)
  | .lt, a, b => some (decide (a < b))
  | .le, a, b => some (decide (a ≤ b))
  | .gt, a, b => some (decide (b < a))
  | .ge, a, b => some (decide (b ≤ a))
  | _, _, _ => none

def pyCall (I : Interp) : Callee → List Rat → Option Rat
  | .direct f, xs => (pySem f).bind (·.eval I xs)
  | .lib p a, xs => if p ∈ pyLibs then (pySemLib p a).bind (·.eval I xs) else none
  | _, _ => none

def pyAttr (I : Interp) (p a : String) : Option Val :=
  if p ∈ pyLibs then
    if a = "e" then (I "e" []).map .num
    else if a = "pi" then (I "pi" []).map .num
    else none          -- inf, nan: no rational value
  else none

mutual
def evalPy (I : Interp) (env : VEnv) : PyExpr → Option Val
  | .name n => env n
  | .const (.num q) => some (.num q)
  | .const (.bool b) => some (.bool b)
  | .const .other => none
  | .unary op e => do
      let v ← evalPy I env e
      pyUnary op v
  | .binop op l r => do
      let a ← evalPy I env l
      let b ← evalPy I env r
      (pyBin I op a.toNum b.toNum).map .num
  | .compare l op r rest => do
      let a ← evalPy I env l
      let b ← evalPy I env r
      let ok ← pyCmp op a.toNum b.toNum
      if ok then evalPyLinks I env b rest else some (.bool false)
  | .ifexp t b o => do
      let c ← evalPy I env t
      if c.truthy then evalPy I env b else evalPy I env o
  | .call f args => do
      let vs ← evalPyList I env args
      (pyCall I f (vs.map Val.toNum)).map .num
  | .attr p a => pyAttr I p a
  | .attrDeep => none
  | .boolop isAnd vals => evalPyBool I env isAnd vals
  | .callKw => none                      -- keyword arguments: meaning not modelled
  | .other => none
def evalPyList (I : Interp) (env : VEnv) : List PyExpr → Option (List Val)
  | [] => some []
  | e :: es => do
      let v ← evalPy I env e
      let vs ← evalPyList I env es
      some (v :: vs)
/-- remaining links of a chained comparison; `prev` is the value of the operand to the left -/
def evalPyLinks (I : Interp) (env : VEnv) (prev : Val) : List (COp × PyExpr) → Option Val
  | [] => some (.bool true)
  | (op, e) :: rest => do
      let b ← evalPy I env e
      let ok ← pyCmp op prev.toNum b.toNum
      if ok then evalPyLinks I env b rest else some (.bool false)
/-- `a and b and c` / `a or b or c`: the value of the deciding operand -/
def evalPyBool (I : Interp) (env : VEnv) (isAnd : Bool) : List PyExpr → Option Val
  | [] => none
  | [e] => evalPy I env e
  | e :: e' :: es => do
      let v ← evalPy I env e
      if v.truthy == isAnd then evalPyBool I env isAnd (e' :: es) else some v
end

/-- a function body: Python returns the value of the first `return` it reaches -/
def evalPyBody (I : Interp) (env : VEnv) : List PyStmt → Option Val
  | [] => none                       -- falls off the end: returns None
  | .ret (some e) :: _ => evalPy I env e
  | .ret none :: _ => none
  | .other :: _ => none              -- assignments, if-statements, loops: not modelled

/-! ### MathML side -/

/-- function-like nodes: meaning by node type and number of children -/
def mathSem : MType → Nat → Option Sem
  | .fnAbs, 1 => some .abs
  | .fnCeiling, 1 => some .ceil
  | .fnFloor, 1 => some .floor
  | .fnMax, _ => some .max
  | .fnMin, _ => some .min
  | .fnRem, 2 => some .rem
  | .power, 2 => some .pow
  | .fnPower, 2 => some .pow
  | .fnLn, 1 => some (.opaque "ln")
  | .fnExp, 1 => some (.opaque "exp")
  | .fnSin, 1 => some (.opaque "sin")
  | .fnCos, 1 => some (.opaque "cos")
  | .fnTan, 1 => some (.opaque "tan")
  | .fnArcsin, 1 => some (.opaque "arcsin")
  | .fnArccos, 1 => some (.opaque "arccos")
  | .fnArctan, 1 => some (.opaque "arctan")
  | .fnSinh, 1 => some (.opaque "sinh")
  | .fnCosh, 1 => some (.opaque "cosh")
  | .fnTanh, 1 => some (.opaque "tanh")
  | .fnArcsinh, 1 => some (.opaque "arcsinh")
  | .fnArccosh, 1 => some (.opaque "arccosh")
  | .fnArctanh, 1 => some (.opaque "arctanh")
  | _, _ => none

/-- function-like nodes applied to the values of their children; `log` and `root` carry an optional
    qualifier (base / degree) as first child, default 10 / 2 -/
def mathFn (I : Interp) (t : MType) (xs : List Rat) : Option Rat :=
  match t, xs with
  | .fnLog, [a] => I "log10" [a]
  | .fnLog, [b, a] => if b = 10 then I "log10" [a] else if b = 2 then I "log2" [a] else I "log" [b, a]
  | .fnRoot, [a] => I "sqrt" [a]
  | .fnRoot, [d, a] => if d = 2 then I "sqrt" [a] else I "root" [d, a]
  | t, xs =>
    match mathSem t xs.length with
    | some s => s.eval I xs
    | none => none

def relOp : MType → Option (Rat → Rat → Bool)
  | .relEq => some (fun a b => a == b)
  | .relNeq => some (fun a b => a != b)
  | .relLt => some (fun a b => decide (a < b))
  | .relLeq => some (fun a b => decide (a ≤ b))
  | .relGt => some (fun a b => decide (b < a))
  | .relGeq => some (fun a b => decide (b ≤ a))
  | _ => none

/-- n-ary relational: every adjacent pair -/
def relChain (f : Rat → Rat → Bool) : List Rat → Bool
  | a :: b :: rest => f a b && relChain f (b :: rest)
  | _ => true

/-- nodes whose children are all evaluated first -/
def applyStrict (I : Interp) (t : MType) (vs : List Val) : Option Val :=
  let xs := vs.map Val.toNum
  match t, xs with
  | .plus, xs => some (.num (xs.foldl (· + ·) 0))
  | .times, xs => some (.num (xs.foldl (· * ·) 1))
  | .minus, [a] => some (.num (-a))
  | .minus, [a, b] => some (.num (a - b))
  | .divide, [a, b] => if b = 0 then none else some (.num (a / b))
  | .fnQuotient, [a, b] => if b = 0 then none else some (.num (floorDiv a b))
  | .logicalNot, [_] => match vs with
      | [v] => some (.bool (!v.truthy))
      | _ => none
  | .logicalXor, _ => some (.bool (vs.foldl (fun acc v => acc != v.truthy) false))   -- n-ary: parity
  | t, xs =>
    match relOp t with
    | some f => if xs.length < 2 then none else some (.bool (relChain f xs))
    | none => (mathFn I t xs).map .num

mutual
def evalMath (I : Interp) (env : VEnv) : MathML → Option Val
  | .ci n => env n
  | .cn q => some (.num q)
  | .cnInf => none
  | .cnNan => none
  | .csym .true => some (.bool true)
  | .csym .false => some (.bool false)
  | .csym .e => (I "e" []).map .num
  | .csym .pi => (I "pi" []).map .num
  | .apply t cs =>
    match t with
    | .fnPiecewise => evalPieces I env cs
    | .logicalAnd => evalAnd I env cs
    | .logicalOr => evalOr I env cs
    | t => do
        let vs ← evalMathList I env cs
        applyStrict I t vs
def evalMathList (I : Interp) (env : VEnv) : List MathML → Option (List Val)
  | [] => some []
  | m :: ms => do
      let v ← evalMath I env m
      let vs ← evalMathList I env ms
      some (v :: vs)
/-- piecewise children: value₁ condition₁ value₂ condition₂ … [otherwise] -/
def evalPieces (I : Interp) (env : VEnv) : List MathML → Option Val
  | [] => none
  | [o] => evalMath I env o
  | v :: c :: rest => do
      let b ← evalMath I env c
      if b.truthy then evalMath I env v else evalPieces I env rest
def evalAnd (I : Interp) (env : VEnv) : List MathML → Option Val
  | [] => some (.bool true)
  | c :: rest => do
      let b ← evalMath I env c
      if b.truthy then evalAnd I env rest else some (.bool false)
def evalOr (I : Interp) (env : VEnv) : List MathML → Option Val
  | [] => some (.bool false)
  | c :: rest => do
      let b ← evalMath I env c
      if b.truthy then some (.bool true) else evalOr I env rest
end


/-! ### constructs without a MathML counterpart (declarative; mentions no exporter table) -/

/-- number of arguments a function takes (`none` = any number) -/
def Sem.arity : Sem → Option Nat
  | .abs | .ceil | .floor => some 1
  | .rem | .pow | .ieeeRem => some 2
  | .max | .min => none
  | .opaque _ => some 1

def knownCall (f : String) (n : Nat) : Bool :=
  match pySem f with
  | some s => (match s.arity with
               | some k => n == k
               | none => true)
  | none => false

/-- the root node is something MathML cannot say (or says differently): the exporter has to refuse it -/
def unsupportedNode : PyExpr → Bool
  | .other => true
  | .callKw => true                               -- MathML has no keyword arguments
  | .attrDeep => true
  | .boolop _ _ => true                           -- `a and b` is an operand of the expression, not a truth value
  | .const .other => true
  | .unary .invert _ => true
  | .binop op _ _ => [BOp.matmult, .lshift, .rshift, .bitor, .bitxor, .bitand].contains op
  | .compare _ op _ _ => [COp.is, .isNot, .in_, .notIn].contains op
  | .call (.direct f) args => !knownCall f args.length
  | .call (.lib p a) args => !(pyLibs.contains p && knownCall a args.length)
  | .call _ _ => true
  | .attr p a => !(pyLibs.contains p && ["e", "pi", "inf", "nan"].contains a)
  | _ => false

mutual
def hasUnsupported : PyExpr → Bool
  | .unary op e => unsupportedNode (.unary op e) || hasUnsupported e
  | .binop op l r => unsupportedNode (.binop op l r) || hasUnsupported l || hasUnsupported r
  | .compare l op r rest =>
      unsupportedNode (.compare l op r rest) || hasUnsupported l || hasUnsupported r || hasUnsupportedLinks rest
  | .ifexp t b o => hasUnsupported t || hasUnsupported b || hasUnsupported o
  | .call f args => unsupportedNode (.call f args) || hasUnsupportedList args
  | e => unsupportedNode e
def hasUnsupportedList : List PyExpr → Bool
  | [] => false
  | e :: es => hasUnsupported e || hasUnsupportedList es
def hasUnsupportedLinks : List (COp × PyExpr) → Bool
  | [] => false
  | (op, e) :: rest => [COp.is, .isNot, .in_, .notIn].contains op || hasUnsupported e || hasUnsupportedLinks rest
end

def stmtUnsupported : PyStmt → Bool
  | .ret (some e) => hasUnsupported e
  | .ret none => true
  | .other => true

/-- a function body the exporter has to refuse: it does not begin with `return <expression>` (no other
    statement has a MathML counterpart; what follows the first `return` is never reached), or the returned
    expression contains an unsupported construct -/
def bodyUnsupported : List PyStmt → Bool
  | [] => true
  | s :: _ => stmtUnsupported s

end Mxl.C08
