/-
Further entry points of `mxlpy.label_map` as Python reads their arguments (round 4b): the public
position queries with integer (negative) positions / counts, `initial_labels` with arbitrary integer
positions and unknown compounds, and what `build_model` does with a reaction that has no label map
(stoichiometry passed through untouched: fractional and float coefficients included, names not
renamed).  Import-free apart from `Model/C05`.
-/
import MxlVerif.Model.C05
namespace Mxl.C05

/-! ### position queries -/

/-- `LabelMapper.get_isotopomers_of_at_position` with integer positions: `label_positions[position] =
    "1"` is a list assignment, so `-n ≤ position < n` (a negative one counts from the end), anything
    else `IndexError`; an unknown compound is a `KeyError` before that -/
def isotopomersAtPositionI (lv : List (Name × Nat)) (x : Name) (positions : List Int) :
    Except LErr (List LName) := do
  let n ← labelCount lv x
  let ps ← positions.mapM (pyIndex n)
  isotopomersAtPosition lv x ps

/-- `LabelMapper.get_isotopomers_of_with_n_labels` with an integer count: `it.combinations(range(n),
    k)` raises `ValueError` for a negative `k` (after the `KeyError` of an unknown compound) and is
    empty for `k > n` -/
def isotopomersWithNLabelsI (lv : List (Name × Nat)) (x : Name) (k : Int) :
    Except LErr (List LName) := do
  let _ ← labelCount lv x
  if k < 0 then .error .valueError else isotopomersWithNLabels lv x k.toNat

/-! ### `initial_labels` as the caller may write it -/

/-- `"".join("1" if idx in label_pos else "0" for idx in range(n))` for integer positions: `idx`
    ranges over `0..n-1`, so a negative position or one `≥ n` matches nothing -/
def initSuffixI (n : Nat) (labelPos : List Int) : Label :=
  (List.range n).map fun (idx : Nat) => labelPos.contains (Int.ofNat idx)

/-- the positions that can match -/
def natPositions (pos : List Int) : List Nat :=
  pos.filterMap fun i => if 0 ≤ i then some i.toNat else none

/-- `LabelMapper.build_model(initial_labels)` with raw coefficients and integer label positions
    (this is what the driver runs) -/
def buildModelPy (b : Base) (lv : List (Name × Nat)) (maps : List (Name × List Int))
    (raw : List (Name × List (Name × Coef))) (initLabels : List (Name × List Int)) :
    Except LErr LModel :=
  buildModelP b lv maps raw (initLabels.map fun kp => (kp.1, natPositions kp.2))

/-! ### reactions without a label map -/

/-- what `build_model` hands to `add_reaction` for a reaction without a label map, with the
    coefficients as the base model stores them: the name and the function are kept, labelled
    arguments read the totals, and `stoichiometry=rxn.stoichiometry` is passed through untouched —
    no coefficient is looked at and no compound is renamed -/
structure URxn where
  name : Name
  args : List LName
  stoich : List (Name × Coef)
deriving Inhabited

def unmappedRaw (lv : List (Name × Nat)) (name : Name) (args : List Name)
    (st : List (Name × Coef)) : URxn :=
  { name, args := args.map (totalName lv), stoich := st }

/-- the compounds an unmapped reaction changes that are no variables of the labelled model (they
    have label positions, so only their isotopomers `X__01..` exist): evaluating the labelled model
    raises `KeyError` when this list is not empty -/
def danglingOf (lv : List (Name × Nat)) (st : List (Name × Coef)) : List Name :=
  (st.map (·.1)).filter fun c => decide (labelsOf lv c > 0)

end Mxl.C05
