/-
C07 — language templates of `mxlpy/meta/codegen_model.py`, as `str.format` reads them
(`string.Formatter().parse`): literal pieces and named holes.  The instances are written by
`translate/c07.py` into `Generated/C07Templates.lean` from the repository's current source.

What an instantiated line *means* depends on the target language; the few grammar facts the
model needs are computed here from the tokens (so a changed template changes the model, and the
`decide` facts in `Props/C07.lean` are re-checked against it).
-/
import MxlVerif.Core.Basic
namespace Mxl.C07

inductive Lang where
  | py | ts | rs | jl
deriving DecidableEq, Repr, Inhabited

inductive Tok where
  | lit (s : String)
  | hole (n : String)
deriving DecidableEq, Repr, Inhabited

structure Template where
  sized : Bool
  modelFn : List Tok
  variables : List Tok
  assignment : List Tok
  ret : List Tok
  endLine : Option String
deriving Repr, Inhabited

def Tok.isHole (n : String) : Tok → Bool
  | .hole m => m == n
  | .lit _ => false

/-- literal characters before / after the first hole named `n` -/
def charsBefore (n : String) : List Tok → List Char
  | [] => []
  | .lit s :: rest => s.toList ++ charsBefore n rest
  | .hole m :: rest => if m == n then [] else charsBefore n rest

def charsAfter (n : String) : List Tok → List Char
  | [] => []
  | .lit _ :: rest => charsAfter n rest
  | .hole m :: rest =>
    if m == n then rest.flatMap (fun t => match t with | .lit s => s.toList | .hole _ => [])
    else charsAfter n rest

def hasHole (n : String) (ts : List Tok) : Bool := ts.any (Tok.isHole n)

/-- how the line produced by `variables_template` binds the state vector -/
inductive Unpack where
  | bracket   -- `[a, b] = xs` / `let [a, b] = xs;` : destructures for every length
  | bare      -- `a, b = xs` : destructures only for two or more names; one name binds the whole sequence
  | invalid   -- not a statement of the language (prefix `*` outside Rust)
deriving DecidableEq, Repr, Inhabited

def Template.unpack (T : Template) (L : Lang) : Unpack :=
  let pre := charsBefore "" T.variables
  let post := charsAfter "" T.variables
  if !hasHole "" T.variables then .invalid
  else if post.contains '*' && L != .rs then .invalid
  else if pre.getLast? == some '[' && post.head? == some ']' then .bracket
  else .bare

/-- `assignment_template.format(k=k, v=v)` binds the name `k` iff the template has the hole `{k}` -/
def Template.assignsKey (T : Template) : Bool := hasHole "k" T.assignment
def Template.assignsVal (T : Template) : Bool := hasHole "v" T.assignment

def splitWords : List Char → List (List Char) → List Char → List (List Char)
  | [], acc, cur => if cur.isEmpty then acc.reverse else (cur.reverse :: acc).reverse
  | c :: cs, acc, cur =>
    if c == ' ' then (if cur.isEmpty then splitWords cs acc [] else splitWords cs (cur.reverse :: acc) [])
    else splitWords cs acc (c :: cur)

/-- the identifier a template without `{k}` assigns to: last word before the type annotation / `=` -/
def Template.literalTarget (T : Template) : Name :=
  let pre := (charsBefore "v" T.assignment).takeWhile (fun c => c != '=' && c != ':')
  match (splitWords pre [] []).getLast? with
  | some w => String.ofList w
  | none => ""

/-- name bound by the assignment line for key `k` -/
def Template.target (T : Template) (k : Name) : Name :=
  if T.assignsKey then k else T.literalTarget

/-- the return line wraps the values in `[...]` (array literal) rather than a bare tuple -/
def Template.retBracket (T : Template) : Bool :=
  (charsBefore "" T.ret).getLast? == some '[' && (charsAfter "" T.ret).head? == some ']'

/-- the function header fixes the length of the returned array (`-> [f64; {n}]`) -/
def Template.sizedRet (T : Template) : Bool :=
  T.sized && (match T.modelFn.reverse with
    | _ :: .hole "n" :: _ => true
    | _ => false)

end Mxl.C07
