/-
C07 — the expression layer of the generated code: how an arithmetic expression is written as text by a printer that
parenthesises by operator precedence (the policy of sympy's code printers, which do the printing for
`sympy_to_inline_{py,js,rust,julia}`; the repository's own overrides are `_mod_operands` / `_print_Mod`, `_print_Float`
and the Rust literal rewrites in `mxlpy/meta/sympy_tools.py`), and how the target languages read such text back
(recursive descent: sums of products of signed atoms, left associative, unary minus binds tighter than `*` `/`).

Fragment: numbers, names, unary minus, `+ - * /`, parentheses — the part of the expression grammar that Python,
TypeScript, Rust and Julia (`.*` `./` spelled element-wise) share.  Powers and remainders have a different surface form in
every language (`**`, `Math.pow`, `.powi/.powf`, `.^`; `%`, `fmod`, `rem`): they are read by the Python-side reader of
the harness only and are not in this model.  Import-free.
-/
namespace Mxl.C07Expr

inductive Tok where
  | num (q : Rat) (src : String)      -- value and spelling of a literal
  | id (x : String)
  | plus | minus | star | slash | pct | lp | rp
deriving Repr, DecidableEq, Inhabited

inductive E where
  | num (q : Rat) (src : String)
  | var (x : String)
  | neg (a : E)
  | add (a b : E)
  | sub (a b : E)
  | mul (a b : E)
  | div (a b : E)
  | mod (a b : E)       -- Python's `%` (sign of the divisor); only the Python texts have it
deriving Repr, DecidableEq, Inhabited

abbrev Env := String → Option Rat

/-- Python's `x % y` on rationals: `x - y * floor(x / y)` -/
def pyMod (x y : Rat) : Rat := x - y * ((x / y).floor : Int)

/-- value of an expression; an unknown name or a division by zero has none -/
def E.eval (env : Env) : E → Option Rat
  | .num q _ => some q
  | .var x => env x
  | .neg a => (a.eval env).map fun v => -v
  | .add a b => do let x ← a.eval env; let y ← b.eval env; pure (x + y)
  | .sub a b => do let x ← a.eval env; let y ← b.eval env; pure (x - y)
  | .mul a b => do let x ← a.eval env; let y ← b.eval env; pure (x * y)
  | .div a b => do let x ← a.eval env; let y ← b.eval env; if y = 0 then none else pure (x / y)
  | .mod a b => do let x ← a.eval env; let y ← b.eval env; if y = 0 then none else pure (pyMod x y)

/-! ### printing by precedence -/

def E.prec : E → Nat
  | .add _ _ | .sub _ _ => 1
  | .mod _ _ => 2          -- sympy ranks a remainder with the sums; `_print_Mod` writes its own parentheses
  | .mul _ _ | .div _ _ => 3
  | .neg _ => 4
  | .num _ _ | .var _ => 5

mutual
/-- the tokens of an expression -/
def E.print : E → List Tok
  | .num q s => [.num q s]
  | .var x => [.id x]
  | .neg a => .minus :: a.pp 4
  | .add a b => a.pp 1 ++ .plus :: b.pp 2      -- a further sum on the right keeps its parentheses, a remainder has its own
  | .sub a b => a.pp 1 ++ .minus :: b.pp 3     -- `a - b` is `a + (-1)*b`: the right operand is printed as a factor
  | .mul a b => a.pp 3 ++ .star :: b.pp 4
  | .div a b => a.pp 3 ++ .slash :: b.pp 4
  -- the repository's `_PythonPrinter._print_Mod` with `_mod_operands`: `(<a> % <b>)`, an operand in parentheses unless
  -- it is a single name or number (level 5)
  | .mod a b => .lp :: (a.pp 5 ++ .pct :: (b.pp 5 ++ [.rp]))
/-- `parenthesize(item, level)`: in parentheses iff the operand binds less tightly than its position requires -/
def E.pp (lvl : Nat) : E → List Tok
  | e => if e.prec < lvl then .lp :: e.print ++ [.rp] else e.print
end

/-! ### reading: recursive descent with an explicit budget -/

inductive Mode where
  | expr | term | unary
  | loop1 (acc : Rat)     -- after a term: `+ term` / `- term` …
  | loop2 (acc : Rat)     -- after a signed atom: `* atom` / `/ atom` …

/-- one parser for the five non-terminals; `n` bounds the depth of the calls (never exhausted when
    `n ≥ 3 * tokens + 4`, see `Lemmas/C07Expr.lean`) -/
def rd (env : Env) : Nat → Mode → List Tok → Option (Rat × List Tok)
  | 0, _, _ => none
  | n + 1, .unary, ts =>
    match ts with
    | .minus :: r => (rd env n .unary r).map fun vr => (-vr.1, vr.2)
    | .num q _ :: r => some (q, r)
    | .id x :: r => (env x).map fun v => (v, r)
    | .lp :: r =>
      match rd env n .expr r with
      | some (v, .rp :: r') => some (v, r')
      | _ => none
    | _ => none
  | n + 1, .term, ts => (rd env n .unary ts).bind fun vr => rd env n (.loop2 vr.1) vr.2
  | n + 1, .expr, ts => (rd env n .term ts).bind fun vr => rd env n (.loop1 vr.1) vr.2
  | n + 1, .loop2 acc, ts =>
    match ts with
    | .star :: r => (rd env n .unary r).bind fun wr => rd env n (.loop2 (acc * wr.1)) wr.2
    | .slash :: r => (rd env n .unary r).bind fun wr =>
        if wr.1 = 0 then none else rd env n (.loop2 (acc / wr.1)) wr.2
    | .pct :: r => (rd env n .unary r).bind fun wr =>
        if wr.1 = 0 then none else rd env n (.loop2 (pyMod acc wr.1)) wr.2
    | _ => some (acc, ts)
  | n + 1, .loop1 acc, ts =>
    match ts with
    | .plus :: r => (rd env n .term r).bind fun wr => rd env n (.loop1 (acc + wr.1)) wr.2
    | .minus :: r => (rd env n .term r).bind fun wr => rd env n (.loop1 (acc - wr.1)) wr.2
    | _ => some (acc, ts)

/-- value of a token stream read as one expression (all tokens must be used) -/
def evalToks (env : Env) (ts : List Tok) : Option Rat :=
  match rd env (3 * ts.length + 4) .expr ts with
  | some (v, []) => some v
  | _ => none

/-- the expression a token stream denotes (same grammar, building the tree instead of the value) -/
inductive PMode where
  | expr | term | unary
  | loop1 (acc : E)
  | loop2 (acc : E)

def parse : Nat → PMode → List Tok → Option (E × List Tok)
  | 0, _, _ => none
  | n + 1, .unary, ts =>
    match ts with
    | .minus :: r => (parse n .unary r).map fun vr => (.neg vr.1, vr.2)
    | .num q s :: r => some (.num q s, r)
    | .id x :: r => some (.var x, r)
    | .lp :: r =>
      match parse n .expr r with
      | some (v, .rp :: r') => some (v, r')
      | _ => none
    | _ => none
  | n + 1, .term, ts => (parse n .unary ts).bind fun vr => parse n (.loop2 vr.1) vr.2
  | n + 1, .expr, ts => (parse n .term ts).bind fun vr => parse n (.loop1 vr.1) vr.2
  | n + 1, .loop2 acc, ts =>
    match ts with
    | .star :: r => (parse n .unary r).bind fun wr => parse n (.loop2 (.mul acc wr.1)) wr.2
    | .slash :: r => (parse n .unary r).bind fun wr => parse n (.loop2 (.div acc wr.1)) wr.2
    | .pct :: r => (parse n .unary r).bind fun wr => parse n (.loop2 (.mod acc wr.1)) wr.2
    | _ => some (acc, ts)
  | n + 1, .loop1 acc, ts =>
    match ts with
    | .plus :: r => (parse n .term r).bind fun wr => parse n (.loop1 (.add acc wr.1)) wr.2
    | .minus :: r => (parse n .term r).bind fun wr => parse n (.loop1 (.sub acc wr.1)) wr.2
    | _ => some (acc, ts)

def parseToks (ts : List Tok) : Option E :=
  match parse (3 * ts.length + 4) .expr ts with
  | some (e, []) => some e
  | _ => none

/-! ### from text to tokens (the lexical layer is not part of the theorems: it is tied by the correspondence only) -/

def isIdStart (c : Char) : Bool := c.isAlpha || c == '_'
def isIdChar (c : Char) : Bool := c.isAlphanum || c == '_'

def digitsVal (ds : List Char) : Nat := ds.foldl (fun a c => 10 * a + (c.toNat - '0'.toNat)) 0

def dropPrefix (p : List Char) (cs : List Char) : List Char :=
  if p.isPrefixOf cs then cs.drop p.length else cs

/-- a decimal literal `12`, `2.0`, `0.25`, `1.0e-5`, with Rust's `_f64` suffix: value, spelling, rest.  A `.` is a
    decimal point only when a digit follows or when what follows cannot continue an operator / method name -/
def lexNum (cs : List Char) : Option (Rat × String × List Char) :=
  let (ip, r1) := cs.span Char.isDigit
  let (fp, r2) : List Char × List Char :=
    match r1 with
    | '.' :: r =>
      match r with
      | c :: _ => if c.isDigit then r.span Char.isDigit
                  else if c == '*' || c == '/' || c == '^' || c == '+' || c == '-' || isIdStart c then ([], r1)
                  else ([], r)
      | [] => ([], r)
    | _ => ([], r1)
  let (ex, r3) : Option Int × List Char :=
    match r2 with
    | 'e' :: r =>
      let (sgn, r') : Int × List Char := match r with | '-' :: t => (-1, t) | '+' :: t => (1, t) | _ => (1, r)
      let (ed, r'') := r'.span Char.isDigit
      if ed.isEmpty then (none, r2) else (some (sgn * (digitsVal ed : Nat)), r'')
    | _ => (none, r2)
  if ip.isEmpty then none
  else
    let mant : Rat := (digitsVal (ip ++ fp) : Nat) / ((10 ^ fp.length : Nat) : Rat)
    let val : Rat := match ex with
      | none => mant
      | some k => if k ≥ 0 then mant * ((10 ^ k.toNat : Nat) : Rat) else mant / ((10 ^ (-k).toNat : Nat) : Rat)
    let r4 := dropPrefix "_f64".toList r3
    some (val, String.mk (cs.take (cs.length - r4.length)), r4)

/-- tokens of an expression text; `none` = outside the fragment (`**`, calls, methods, …).  `jl`: Julia's
    element-wise spellings `.*` `./` `.+` `.-`; `py`: `%` is Python's remainder (the other languages' texts write a remainder
    differently: `((a % b) + b) % b` with the sign of the dividend in JavaScript, `floor` in Rust / Julia) -/
def lex (jl py : Bool) : Nat → List Char → Option (List Tok)
  | 0, _ => none
  | _ + 1, [] => some []
  | n + 1, c :: cs =>
    if c == ' ' then lex jl py n cs
    else if c.isDigit then
      match lexNum (c :: cs) with
      | some (q, s, r) => (lex jl py n r).map (Tok.num q s :: ·)
      | none => none
    else if isIdStart c then
      let (w, r) := (c :: cs).span isIdChar
      match r with
      | '(' :: _ => none
      | '.' :: _ => none
      | _ => (lex jl py n r).map (Tok.id (String.mk w) :: ·)
    else
      match c, cs with
      | '+', _ => (lex jl py n cs).map (Tok.plus :: ·)
      | '-', _ => (lex jl py n cs).map (Tok.minus :: ·)
      | '*', '*' :: _ => none
      | '*', _ => (lex jl py n cs).map (Tok.star :: ·)
      | '/', _ => (lex jl py n cs).map (Tok.slash :: ·)
      | '%', _ => if py then (lex jl py n cs).map (Tok.pct :: ·) else none
      | '(', _ => (lex jl py n cs).map (Tok.lp :: ·)
      | ')', _ => (lex jl py n cs).map (Tok.rp :: ·)
      | '.', '*' :: r => if jl then (lex jl py n r).map (Tok.star :: ·) else none
      | '.', '/' :: r => if jl then (lex jl py n r).map (Tok.slash :: ·) else none
      | '.', '+' :: r => if jl then (lex jl py n r).map (Tok.plus :: ·) else none
      | '.', '-' :: r => if jl then (lex jl py n r).map (Tok.minus :: ·) else none
      | _, _ => none

def lexText (jl py : Bool) (s : String) : Option (List Tok) := lex jl py (s.length + 1) s.toList

def Tok.text : Tok → String
  | .num _ s => s | .id x => x | .plus => " + " | .minus => "-" | .star => "*" | .slash => "/" | .pct => " % "
  | .lp => "(" | .rp => ")"

/-- the assignment lines of a generated function, read and evaluated one after the other: every right-hand side is
    lexed, read with `evalToks` in the environment of the inputs and the earlier targets, and its target bound.
    Per line also: does printing the parsed tree give back exactly the tokens of the text (same parentheses)?  And:
    does evaluating the parsed tree (`E.eval`) give the value that was read (flag, must always hold:
    `C07_expr_reader_is_parser`)? -/
inductive LineErr where
  | unsupported (target : String)
  | noValue (target : String)
deriving Repr

def runLines (jl py : Bool) : List (String × String) → List (String × Rat) → List (Bool × Bool) →
    Except LineErr (List (String × Rat) × List (Bool × Bool))
  | [], env, flags => .ok (env, flags.reverse)
  | (k, text) :: rest, env, flags =>
    match lexText jl py text with
    | none => .error (.unsupported k)
    | some ts =>
      match evalToks (fun x => env.lookup x) ts with
      | none => .error (.noValue k)
      | some v =>
        let same := match parseToks ts with | some e => e.print == ts | none => false
        let tree := match parseToks ts with | some e => e.eval (fun x => env.lookup x) == some v | none => false
        runLines jl py rest ((k, v) :: env) ((same, tree) :: flags)

end Mxl.C07Expr
