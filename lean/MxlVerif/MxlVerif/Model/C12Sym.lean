/-
C12 — symbolic expressions over `Rat`.

`SExpr` is the fragment of sympy expressions that the shipped rate-law library
(`mxlpy/fns.py`: mass action, Michaelis–Menten, moieties, diffusion, + − × ÷) produces:
model symbols, rational constants, `+ − × ÷`, unary minus and powers with natural
exponents.  `BExpr` is the same fragment over the positional arguments of a library
function (a function *body*).

* `evalS ρ e`     — value of `e` when symbol `n` has value `ρ n`.
* `evalB xs b`    — value of the body `b` at the positional arguments `xs` (the Python call).
* `substArgs es b` — `sympy_expr.subs(dict(zip(fn_args, model_args)))` in `fn_to_sympy`
  (`meta/source_tools.py:319-320`): positional argument `i` of a function body is replaced
  by the model expression `es[i]`.
* `substSym σ e`  — substitution of symbols.
* `D x e`         — our own formal derivative with respect to the symbol `x`; it is the
  oracle against which sympy's `Matrix.jacobian` is compared.

Division is `Rat`'s total division (`a / 0 = 0`).  Python raises `ZeroDivisionError`
there; the numeric core (`Model/Core.lean`) treats rate functions as total functions too, so
every statement that compares the two sides is about points at which no denominator
vanishes.  The derivative theorems state that hypothesis explicitly (`DenOK`).

Import-free apart from the shared core (so that the driver can link).
-/
import MxlVerif.Core.Basic
namespace Mxl.C12

inductive BExpr where
  | arg (i : Nat)
  | const (q : Rat)
  | add (a b : BExpr)
  | sub (a b : BExpr)
  | mul (a b : BExpr)
  | div (a b : BExpr)
  | neg (a : BExpr)
  | pow (a : BExpr) (n : Nat)
deriving Repr, Inhabited

inductive SExpr where
  | sym (n : Name)
  | const (q : Rat)
  | add (a b : SExpr)
  | sub (a b : SExpr)
  | mul (a b : SExpr)
  | div (a b : SExpr)
  | neg (a : SExpr)
  | pow (a : SExpr) (n : Nat)
deriving Repr, Inhabited

def evalB (xs : List Rat) : BExpr → Rat
  | .arg i => xs.getD i 0
  | .const q => q
  | .add a b => evalB xs a + evalB xs b
  | .sub a b => evalB xs a - evalB xs b
  | .mul a b => evalB xs a * evalB xs b
  | .div a b => evalB xs a / evalB xs b
  | .neg a => - evalB xs a
  | .pow a n => evalB xs a ^ n

def evalS (ρ : Name → Rat) : SExpr → Rat
  | .sym n => ρ n
  | .const q => q
  | .add a b => evalS ρ a + evalS ρ b
  | .sub a b => evalS ρ a - evalS ρ b
  | .mul a b => evalS ρ a * evalS ρ b
  | .div a b => evalS ρ a / evalS ρ b
  | .neg a => - evalS ρ a
  | .pow a n => evalS ρ a ^ n

/-- positional substitution (`fn_to_sympy(..., model_args=es)`) -/
def substArgs (es : List SExpr) : BExpr → SExpr
  | .arg i => es.getD i (.const 0)
  | .const q => .const q
  | .add a b => .add (substArgs es a) (substArgs es b)
  | .sub a b => .sub (substArgs es a) (substArgs es b)
  | .mul a b => .mul (substArgs es a) (substArgs es b)
  | .div a b => .div (substArgs es a) (substArgs es b)
  | .neg a => .neg (substArgs es a)
  | .pow a n => .pow (substArgs es a) n

/-- substitution of symbols -/
def substSym (σ : Name → SExpr) : SExpr → SExpr
  | .sym n => σ n
  | .const q => .const q
  | .add a b => .add (substSym σ a) (substSym σ b)
  | .sub a b => .sub (substSym σ a) (substSym σ b)
  | .mul a b => .mul (substSym σ a) (substSym σ b)
  | .div a b => .div (substSym σ a) (substSym σ b)
  | .neg a => .neg (substSym σ a)
  | .pow a n => .pow (substSym σ a) n

/-- formal derivative with respect to the symbol `x` -/
def D (x : Name) : SExpr → SExpr
  | .sym n => if n == x then .const 1 else .const 0
  | .const _ => .const 0
  | .add a b => .add (D x a) (D x b)
  | .sub a b => .sub (D x a) (D x b)
  | .mul a b => .add (.mul (D x a) b) (.mul a (D x b))
  | .div a b => .div (.sub (.mul (D x a) b) (.mul a (D x b))) (.mul b b)
  | .neg a => .neg (D x a)
  | .pow _ 0 => .const 0
  | .pow a (n + 1) => .mul (.mul (.const ((n + 1 : Nat) : Rat)) (.pow a n)) (D x a)

/-- the symbols an expression mentions -/
def freeSyms : SExpr → List Name
  | .sym n => [n]
  | .const _ => []
  | .add a b | .sub a b | .mul a b | .div a b => freeSyms a ++ freeSyms b
  | .neg a => freeSyms a
  | .pow a _ => freeSyms a

/-- the polynomial fragment: no division -/
def SExpr.poly : SExpr → Bool
  | .sym _ | .const _ => true
  | .add a b | .sub a b | .mul a b => a.poly && b.poly
  | .div _ _ => false
  | .neg a => a.poly
  | .pow a _ => a.poly

/-- every denominator is non-zero at `ρ` -/
def DenOK (ρ : Name → Rat) : SExpr → Prop
  | .sym _ | .const _ => True
  | .add a b | .sub a b | .mul a b => DenOK ρ a ∧ DenOK ρ b
  | .div a b => DenOK ρ a ∧ DenOK ρ b ∧ evalS ρ b ≠ 0
  | .neg a => DenOK ρ a
  | .pow a _ => DenOK ρ a

/-- executable form of `DenOK` for the driver -/
def denOKb (ρ : Name → Rat) : SExpr → Bool
  | .sym _ | .const _ => true
  | .add a b | .sub a b | .mul a b => denOKb ρ a && denOKb ρ b
  | .div a b => denOKb ρ a && denOKb ρ b && (evalS ρ b != 0)
  | .neg a => denOKb ρ a
  | .pow a _ => denOKb ρ a

/-- `ρ[x ↦ v]` -/
def upd (ρ : Name → Rat) (x : Name) (v : Rat) : Name → Rat :=
  fun n => if n == x then v else ρ n

/-- value of `D x (a^n)` from the value `a0` of `a` and the value `a1` of `D x a` -/
def dPowV (a0 a1 : Rat) : Nat → Rat
  | 0 => 0
  | n + 1 => ((n + 1 : Nat) : Rat) * a0 ^ n * a1

/-- remainder of `a^n` from value, derivative and remainder of `a`
    (`a^(n+1) = a^n · a`, product rule with `p = a^n`) -/
def remPow (a0 a1 ra h : Rat) : Nat → Rat
  | 0 => 0
  | n + 1 =>
      let p0 := a0 ^ n; let p1 := dPowV a0 a1 n; let rp := remPow a0 a1 ra h n
      p0 * ra + rp * a0 + p1 * a1 + h * (p1 * ra + rp * a1) + h * h * (rp * ra)

/-- second-order remainder of `e` along the symbol `x`: the function of the step `h`
    for which  `e(x+h) = e(x) + h·(D x e)(x) + h²·rem(h)`.  It is built from `+ − × ÷` of
    `h`, of values at the base point and of values at the displaced point, so it is a
    rational function of `h` whose denominators are denominators of `e` at the two points. -/
def remV (ρ : Name → Rat) (x : Name) (h : Rat) : SExpr → Rat
  | .sym _ => 0
  | .const _ => 0
  | .add a b => remV ρ x h a + remV ρ x h b
  | .sub a b => remV ρ x h a - remV ρ x h b
  | .mul a b =>
      let a0 := evalS ρ a; let b0 := evalS ρ b
      let a1 := evalS ρ (D x a); let b1 := evalS ρ (D x b)
      let ra := remV ρ x h a; let rb := remV ρ x h b
      a0 * rb + ra * b0 + a1 * b1 + h * (a1 * rb + ra * b1) + h * h * (ra * rb)
  | .div a b =>
      let a0 := evalS ρ a; let b0 := evalS ρ b
      let a1 := evalS ρ (D x a); let b1 := evalS ρ (D x b)
      let ra := remV ρ x h a; let rb := remV ρ x h b
      let bh := evalS (upd ρ x (ρ x + h)) b
      (ra * b0 * b0 - a0 * b0 * rb - (a1 * b0 - a0 * b1) * (b1 + h * rb)) / (b0 * b0 * bh)
  | .neg a => - remV ρ x h a
  | .pow a n => remPow (evalS ρ a) (evalS ρ (D x a)) (remV ρ x h a) h n

end Mxl.C12
