/-
C09 — executable model of the scan machinery, after

  scan.py   `_update_parameters_and_initial_conditions` (per-row copy, update by column
            membership, call the worker), the result containers (`raw_results` list /
            `dict(res)`), `Simulation.default` placeholders
  parallel.py `parallelise` (sequential `map` vs pebble `ProcessPool.map`)
  simulation.py `Simulation._compute_args` (the LAZY view: a reference to a model object +
            raw variables + parameter snapshots, re-applied at read time, memoised)

Python object identity is modelled by a heap of `Content` cells: a `Simulation` holds the
INDEX of its model, `copy.deepcopy` / pickling allocate a fresh cell.  The worker
(Simulator + integrator) is a parameter: any function of the model's content that
returns the content it leaves behind and either raw segments or a failure.

`rowTask true` is the code after
  "fix: scan rows work on a copy of the model so lazily computed results keep their own row's values";
`rowTask false` is the code before it (one model object shared by every row), kept so that
the driver can tell the two apart and `Props/C09` can state why the copy is needed.
-/
import MxlVerif.Model.Queries
import MxlVerif.Generated.C09Facts
namespace Mxl.C09

abbrev Row := List (Name × Rat)
abbrev Label := Nat

/-! ### `Model.update_variable(s)` / `update_parameter(s)` -/

/-- `update_variable(name, value)` / `update_parameter(name, value)`: `KeyError` when the
    name is absent, else the entry's value is overwritten in place (an initial assignment
    is replaced by the number). -/
def setVal (m : List (Name × Val)) (k : Name) (v : Rat) : Except Err (List (Name × Val)) :=
  if (omKeys m).contains k then .ok (omInsert m k (.plain v)) else .error (.keyError k)

def setVals (m : List (Name × Val)) : Row → Except Err (List (Name × Val))
  | [] => .ok m
  | kv :: rest =>
    match setVal m kv.1 kv.2 with
    | .ok m' => setVals m' rest
    | .error e => .error e

def updateVars (c : Content) (kvs : Row) : Except Err Content :=
  match setVals c.vars kvs with
  | .ok vs => .ok { c with vars := vs }
  | .error e => .error e

def updatePars (c : Content) (kvs : Row) : Except Err Content :=
  match setVals c.pars kvs with
  | .ok ps => .ok { c with pars := ps }
  | .error e => .error e

/-- the two dict comprehensions + updates of `_update_parameters_and_initial_conditions`:
    a column goes to the variables if it names one, to the parameters if it names one,
    and is silently ignored otherwise. -/
def applyRow (c : Content) (row : Row) : Except Err Content :=
  match updateVars c (row.filter fun kv => (omKeys c.vars).contains kv.1) with
  | .ok c1 => updatePars c1 (row.filter fun kv => (omKeys c1.pars).contains kv.1)
  | .error e => .error e

/-! ### results -/

/-- one entry of `raw_variables` zipped with its entry of `raw_parameters` -/
structure Seg where
  rows : List (Rat × List Rat)      -- (time, state in `get_variable_names()` order)
  pars : List (Name × Rat)          -- `model.get_parameter_values()` when the segment ended
deriving Inhabited

/-- what a worker does to the model it is given: the content it leaves behind and either the
    raw segments or a failure (`Result(Exception)`); `.error` = an exception that escapes. -/
structure Worker where
  run : Content → Except Err (Content × Option (List Seg))
  /-- the `time_points` the worker hands to `Simulation.default` on failure -/
  dfltIndex : List Rat

/-- a `Simulation` with its model travelling BY VALUE (what a pickle of it contains, and
    what an independent run on a fresh copy yields) -/
structure Pickled where
  content : Content
  segs : List Seg
  nan : Bool                        -- `Simulation.default`: values are NaN, only the index counts
deriving Inhabited

/-- a `Simulation` object on the heap: `model` is a REFERENCE -/
structure Sim where
  cell : Nat
  segs : List Seg
  nan : Bool
deriving Inhabited

/-- `Simulation.default(model, time_points)` -/
def mkDefault (c : Content) (idx : List Rat) : Except Err Pickled :=
  match createCache c with
  | .ok cache => .ok { content := c, segs := [{ rows := idx.map fun t => (t, []), pars := cache.basePars }], nan := true }
  | .error e => .error e

/-- THE SPECIFICATION SIDE: a separate run on a fresh copy `c` of the model with exactly this
    row's values.  No heap, no sharing, no schedule. -/
def rowPure (w : Worker) (c : Content) (row : Row) : Except Err Pickled :=
  match applyRow c row with
  | .error e => .error e
  | .ok c1 =>
    match w.run c1 with
    | .error e => .error e
    | .ok (c2, some segs) => .ok { content := c2, segs, nan := false }
    | .ok (c2, none) => mkDefault c2 w.dfltIndex

/-! ### heap -/

abbrev Heap := List Content

def Heap.read (h : Heap) (i : Nat) : Except Err Content :=
  match h[i]? with
  | some c => .ok c
  | none => .error (.other "dangling model reference")

/-- `_update_parameters_and_initial_conditions(row, fn=worker, model=<cell>)` as executed in
    one process whose objects live in `h`.  `copyFirst` = `model = copy.deepcopy(model)`. -/
def rowTask (copyFirst : Bool) (w : Worker) (h : Heap) (cell : Nat) (row : Row) :
    Except Err (Heap × Sim) :=
  match h.read cell with
  | .error e => .error e
  | .ok c =>
    let h1 : Heap := if copyFirst then h ++ [c] else h
    let tgt : Nat := if copyFirst then h.length else cell
    match applyRow c row with
    | .error e => .error e
    | .ok c1 =>
      match w.run c1 with
      | .error e => .error e
      | .ok (c2, some segs) => .ok (h1.set tgt c2, { cell := tgt, segs, nan := false })
      | .ok (c2, none) =>
        match mkDefault c2 w.dfltIndex with
        | .error e => .error e
        | .ok p => .ok (h1.set tgt c2, { cell := tgt, segs := p.segs, nan := true })

/-- `list(map(worker, inputs))`: the rows one after the other in ONE process, all handed the
    same model object `cell`. -/
def seqScanWith (copyFirst : Bool) (w : Worker) :
    Heap → Nat → List (Label × Row) → Except Err (Heap × List (Label × Sim))
  | h, _, [] => .ok (h, [])
  | h, cell, lr :: rest =>
    match rowTask copyFirst w h cell lr.2 with
    | .error e => .error e
    | .ok (h1, s) =>
      match seqScanWith copyFirst w h1 cell rest with
      | .error e => .error e
      | .ok (h2, ss) => .ok (h2, (lr.1, s) :: ss)

/-- does the row task of the CURRENT source (`Generated/C09Facts.lean`, regenerated from scan.py on every run) start
    by copying the model it was handed?  The model follows the source; `Props/C09` needs `true`. -/
def shippedCopyFirst : Bool := Generated.C09.rowSteps.head? == some Generated.C09.RowStep.copy

/-- the shipped code -/
def seqScan := seqScanWith shippedCopyFirst

/-! ### process pool -/

/-- One task in a pool process: the pickled `partial(..., model=model)` is unpickled into a
    private heap (`[c]`, cell 0), the task runs there, the resulting `Simulation` is pickled
    (its model by value). -/
def childTask (copyFirst : Bool) (w : Worker) (c : Content) (row : Row) : Except Err Pickled :=
  match rowTask copyFirst w [c] 0 row with
  | .error e => .error e
  | .ok (h, s) =>
    match h.read s.cell with
    | .error e => .error e
    | .ok c' => .ok { content := c', segs := s.segs, nan := s.nan }

/-- A schedule for `pool.map f xs`: task `i` is executed by process `assign[i] % n`
    (`n = max_workers ≥ 1`); every process works through its own queue in order and reports
    `(i, f xᵢ)`; the parent hands the results out by task index. -/
def schedMap {α β : Type} (assign : List Nat) (n : Nat) (f : α → β) (xs : List α) : List β :=
  let tagged : List (Nat × α) := (List.range xs.length).zip xs
  let outOf (k : Nat) : List (Nat × β) :=
    (tagged.filter fun ix => (assign.getD ix.1 0) % n == k).map fun ix => (ix.1, f ix.2)
  let all : List (Nat × β) := (List.range n).flatMap outOf
  (List.range xs.length).filterMap fun i => all.lookup i

/-- unpickling results in the parent: each `Simulation` arrives with its own model copy -/
def collect : Heap → List (Label × Except Err Pickled) → Except Err (Heap × List (Label × Sim))
  | h, [] => .ok (h, [])
  | h, (l, r) :: rest =>
    match r with
    | .error e => .error e
    | .ok p =>
      match collect (h ++ [p.content]) rest with
      | .error e => .error e
      | .ok (h2, ss) => .ok (h2, (l, { cell := h.length, segs := p.segs, nan := p.nan }) :: ss)

/-- `parallelise(..., parallel=True, max_workers=n)` under the schedule `assign` -/
def parScanWith (copyFirst : Bool) (assign : List Nat) (n : Nat) (w : Worker)
    (h : Heap) (cell : Nat) (rows : List (Label × Row)) : Except Err (Heap × List (Label × Sim)) :=
  match h.read cell with
  | .error e => .error e
  | .ok c => collect h (schedMap assign n (fun lr => (lr.1, childTask copyFirst w c lr.2)) rows)

def parScan := parScanWith shippedCopyFirst

/-- unpickling a list of results one after the other: the i-th gets the i-th fresh cell -/
def placeFrom (n : Nat) : List (Label × Pickled) → List (Label × Sim)
  | [] => []
  | lp :: rest => (lp.1, { cell := n, segs := lp.2.segs, nan := lp.2.nan }) :: placeFrom (n + 1) rest

def placeAll (h : Heap) (ps : List (Label × Pickled)) : Heap × List (Label × Sim) :=
  (h ++ ps.map (·.2.content), placeFrom h.length ps)

/-! ### lazy views -/

abbrev ArgRows := List (Rat × List (Name × Rat))

structure View where
  nan : Bool
  segs : List ArgRows
deriving Inhabited

/-- `include_readouts=True`: `for name, ro in self._readouts.items(): ro.calculate_inpl(name, args)` on the
    argument dict of one time point, in declaration order (a readout may use an earlier readout or a data set) -/
def withReadouts (c : Content) (a : List (Name × Rat)) : Except Err (List (Name × Rat)) :=
  -- the shared core's readout pass: readouts are evaluated over `self._data | args` (after "fix: readouts can name data
  -- sets"), the data sets themselves are not part of the returned table
  evalReadouts c.readouts (a ++ c.data) a

/-- one iteration of `_compute_args`: `model.update_parameters(p)` then
    `get_args_time_course(variables=res, ..., include_readouts=True)` -/
def viewSeg (nan : Bool) (c : Content) (seg : Seg) : Except Err (Content × ArgRows) :=
  match updatePars c seg.pars with
  | .error e => .error e
  | .ok c' =>
    if nan then .ok (c', seg.rows.map fun ty => (ty.1, []))
    else
      match seg.rows.mapM (fun ty => do
          let a ← getArgs c' (some ((omKeys c'.vars).zip ty.2)) ty.1
          let a' ← withReadouts c' a
          pure (ty.1, a')) with
      | .error e => .error e
      | .ok rows => .ok (c', rows)

def viewSegs (nan : Bool) : Content → List Seg → Except Err (Content × List ArgRows)
  | c, [] => .ok (c, [])
  | c, s :: rest =>
    match viewSeg nan c s with
    | .error e => .error e
    | .ok (c1, r) =>
      match viewSegs nan c1 rest with
      | .error e => .error e
      | .ok (c2, rs) => .ok (c2, r :: rs)

/-- the view of an independent result (spec side) -/
def viewPure (p : Pickled) : Except Err View :=
  match viewSegs p.nan p.content p.segs with
  | .error e => .error e
  | .ok (_, rs) => .ok { nan := p.nan, segs := rs }

/-- `_compute_args` with `_keep_model_parameters()` (after "fix: ... restore the parameters of the shared
    model"): the segment snapshots are applied one after the other and, when done, the model gets back the
    raw parameters it had before -/
def viewKeep (nan : Bool) (c : Content) (segs : List Seg) : Except Err (Content × List ArgRows) :=
  match viewSegs nan c segs with
  | .error e => .error e
  | .ok (c', rs) => .ok ({ c' with pars := c.pars }, rs)

/-- `_compute_args` on a heap object: reads AND WRITES the referenced model -/
def viewSim (h : Heap) (s : Sim) : Except Err (Heap × View) :=
  match h.read s.cell with
  | .error e => .error e
  | .ok c =>
    match viewKeep s.nan c s.segs with
    | .error e => .error e
    | .ok (c', rs) => .ok (h.set s.cell c', { nan := s.nan, segs := rs })

/-- the caller reads `.variables` / `.fluxes` of the results in some order, possibly several
    times; `raw_args` is memoised per `Simulation`, so the first read of each counts. -/
def readViews (sims : List Sim) :
    Heap → List (Nat × View) → List Nat → Except Err (Heap × List (Nat × View))
  | h, memo, [] => .ok (h, memo)
  | h, memo, i :: rest =>
    match memo.lookup i with
    | some _ => readViews sims h memo rest
    | none =>
      match sims[i]? with
      | none => .error (.other "no such result")
      | some s =>
        match viewSim h s with
        | .error e => .error e
        | .ok (h', v) => readViews sims h' (memo ++ [(i, v)]) rest

/-! ### result containers -/

/-- `dict(res)` -/
def dictOf {β : Type} (res : List (Label × β)) : List (Label × β) :=
  res.foldl (fun acc kv =>
    if (acc.map (·.1)).contains kv.1 then acc.map (fun e => if e.1 == kv.1 then (e.1, kv.2) else e)
    else acc ++ [kv]) []

/-- `SteadyStateScan`: `raw_index` built from the rows of `to_scan`, `raw_results = [i[1] for i in res]`,
    joined positionally by `pd.DataFrame(rows, index=raw_index)`; pandas raises on a length mismatch. -/
def ssContainer {β : Type} (rows : List (Label × Row)) (res : List (Label × β)) :
    Except Err (List (List Rat × β)) :=
  if rows.length == res.length then .ok ((rows.map fun lr => lr.2.map (·.2)).zip (res.map (·.2)))
  else .error (.valueError "Length mismatch")

end Mxl.C09
