/-
C09 — the four scan workers (`scan.py:144-281`) over `Simulator` (`simulator.py`) with a
deterministic toy integrator, so that the whole pipeline

  row update → initial conditions (incl. initial assignments) → integrator calls → raw segments
  and parameter snapshots → lazy view

can be executed on both sides of the tie and compared number by number.

The integrator is `harness/c09lib.py::Euler` (one explicit Euler step per requested interval;
"steady state" = `nss` steps of size `h`, reported as `NoSteadyState` when a tolerance is configured and
the last step still moved a variable by `tol` or more; it fails — returns `Result(IntegrationFailure())` —
iff `sum(y0) + 3*sum(rhs(0, y0))` is one of `failKeys`, decided at construction).  Its row
layout is the layout of the shipped `Scipy` integrator: `integrate(t_end, steps)` returns
`steps + 1` points `linspace(t0, t_end, steps + 1)`, `integrate_time_course` prepends `t0`
when the grid does not start there.  The `*Index` functions below are exactly the time grids
the runs use; `Props/C09` compares them with the grids of the `Simulation.default` placeholders.
-/
import MxlVerif.Model.C09
namespace Mxl.C09

structure EulerCfg where
  nss : Nat
  h : Rat
  failKeys : List Rat
  /-- `integrate_to_steady_state`: when given, the run reports `NoSteadyState` unless the last of the
      `nss` steps moved every variable by less than `tol` -/
  tol : Option Rat := none
  /-- `integrate_to_steady_state` RAISES (an exception of the right-hand side escaping the integrator) iff
      `sum(y0) + 3*sum(rhs(0, y0))` is one of these keys -/
  raiseKeys : List Rat := []
  /-- the integrator's CONSTRUCTOR raises `ZeroDivisionError` (stands for a rate law dividing by a parameter that is 0:
      `Simulator(model, …)` raises inside the scan worker's `try`) iff the key is one of these -/
  zeroDivKeys : List Rat := []
deriving Inhabited

structure Integ where
  t0 : Rat
  y0 : List Rat
  y0orig : List Rat
  fail : Bool
deriving Inhabited

def axpy (y d : List Rat) (dt : Rat) : List Rat := List.zipWith (fun a b => a + dt * b) y d

/-- `Simulator.__init__`: `y0 = model.get_initial_conditions()`, the test run
    `get_right_hand_side(y0, 0)`, then the integrator's constructor (which evaluates
    `rhs(0, y0)` for the failure key). -/
def simInit (cfg : EulerCfg) (c : Content) : Except Err Integ := do
  let cache ← createCache c
  let y0 := cache.init.map (·.2)
  let _ ← getRhsQ c (some cache.init) 0
  let d0 ← callRhs c 0 y0
  pure { t0 := 0, y0, y0orig := y0, fail := cfg.failKeys.contains (sumRat y0 + 3 * sumRat d0) }

/-- `np.linspace(a, b, n)` -/
def linspace (a b : Rat) (n : Nat) : List Rat :=
  if n ≤ 1 then (if n = 0 then [] else [a])
  else (List.range n).map fun (i : Nat) => a + (b - a) * ((i : Nat) : Rat) / ((n - 1 : Nat) : Rat)

/-- the grid `Euler.integrate_time_course` really uses: `t0` is prepended when missing -/
def tcGrid (t0 : Rat) (tps : List Rat) : List Rat :=
  if tps.head? == some t0 then tps else t0 :: tps

def eulerCourse (c : Content) : Rat → List Rat → List Rat → Except Err (List (Rat × List Rat))
  | _, _, [] => pure []
  | t0, y0, t :: ts => do
    let d ← callRhs c t0 y0
    let y := axpy y0 d (t - t0)
    let rest ← eulerCourse c t y ts
    pure ((t, y) :: rest)

/-- `Euler.integrate_time_course(time_points)` against the CURRENT content of the model -/
def integrateTC (c : Content) (ig : Integ) (tps : List Rat) :
    Except Err (Integ × Option (List (Rat × List Rat))) :=
  if ig.fail then pure (ig, none)
  else
    match tcGrid ig.t0 tps with
    | [] => .error (.other "IndexError")
    | t0 :: rest => do
      let rows ← eulerCourse c t0 ig.y0 rest
      let all := (t0, ig.y0) :: rows
      let last := all.getLastD (t0, ig.y0)
      pure ({ ig with t0 := last.1, y0 := last.2 }, some all)

def eulerSteps (c : Content) (h : Rat) : Nat → Rat → List Rat → Except Err (Rat × List Rat)
  | 0, t, y => pure (t, y)
  | n + 1, t, y => do
    let d ← callRhs c t y
    eulerSteps c h n (t + h) (axpy y d h)

def snapshot (c : Content) : Except Err (List (Name × Rat)) := do
  pure (← createCache c).basePars

/-! ### steady state -/

/-- `max(abs(y - yprev)) < tol` (no steps, or no tolerance: converged) -/
def converged (tol : Option Rat) (yprev y : List Rat) : Bool :=
  match tol with
  | none => true
  | some e => (List.zipWith (fun a b => if a ≤ b then b - a else a - b) yprev y).all fun dlt => decide (dlt < e)

def lastStep (c : Content) (h : Rat) (nss : Nat) (prev : Rat × List Rat) : Except Err (Rat × List Rat) :=
  if nss = 0 then .ok prev else eulerSteps c h 1 prev.1 prev.2

def ssFinish (cfg : EulerCfg) (c : Content) (prev last : Rat × List Rat) :
    Except Err (Content × Option (List Seg)) :=
  if cfg.nss = 0 || converged cfg.tol prev.2 last.2 then
    match snapshot c with
    | .error e => .error e
    | .ok p => .ok (c, some [{ rows := [last], pars := p }])
  else .ok (c, none)

def ssRunCore (cfg : EulerCfg) (c : Content) : Except Err (Content × Option (List Seg)) := do
  let ig ← simInit cfg c
  if ig.fail then pure (c, none)
  else
    let prev ← eulerSteps c cfg.h (cfg.nss - 1) 0 ig.y0orig
    let last ← lastStep c cfg.h cfg.nss prev
    ssFinish cfg c prev last

/-- the toy integrator's injected exception: decided from the same key as the injected failure -/
def raisesAt (cfg : EulerCfg) (c : Content) : Except Err Bool := do
  let cache ← createCache c
  let y0 := cache.init.map (·.2)
  let d0 ← callRhs c 0 y0
  pure (cfg.raiseKeys.contains (sumRat y0 + 3 * sumRat d0))

/-- does the integrator's constructor raise `ZeroDivisionError` for this model? -/
def zeroDivAt (cfg : EulerCfg) (c : Content) : Except Err Bool := do
  let cache ← createCache c
  let y0 := cache.init.map (·.2)
  let d0 ← callRhs c 0 y0
  pure (cfg.zeroDivKeys.contains (sumRat y0 + 3 * sumRat d0))

/-- every scan worker: `try: res = Simulator(model, …).simulate_…().get_result()  except ZeroDivisionError: res =
    Result(Exception())` — a `ZeroDivisionError` raised while the simulator is built is a FAILED run (the placeholder
    follows), the model is untouched; any other exception escapes -/
def guardZeroDiv (cfg : EulerCfg) (run : Content → Except Err (Content × Option (List Seg))) (c : Content) :
    Except Err (Content × Option (List Seg)) :=
  match simInit cfg c with
  | .error e => .error e
  | .ok _ =>
    match zeroDivAt cfg c with
    | .error e => .error e
    | .ok true =>
      -- regenerated from scan.py: do the four workers still catch `ZeroDivisionError`?
      if Generated.C09.workersCatchZeroDivision then .ok (c, none) else .error (.other "ZeroDivisionError")
    | .ok false => run c

/-- `Simulator(model).simulate_to_steady_state()`: the constructor first, then the integrator, which may raise -/
def ssRun (cfg : EulerCfg) (c : Content) : Except Err (Content × Option (List Seg)) :=
  match simInit cfg c with
  | .error e => .error e
  | .ok _ =>
    match raisesAt cfg c with
    | .error e => .error e
    | .ok true => .error (.valueError "integrator raised")
    | .ok false => ssRunCore cfg c

def ssWorker (cfg : EulerCfg) : Worker := { run := guardZeroDiv cfg (ssRun cfg), dfltIndex := [0] }

/-! ### time course -/

/-- the time index of a successful `_time_course_worker` result -/
def tcIndex (tps : List Rat) : List Rat := tcGrid 0 (tps.filter fun t => decide (0 ≤ t))

def tcRun (cfg : EulerCfg) (tps : List Rat) (c : Content) : Except Err (Content × Option (List Seg)) := do
  let ig ← simInit cfg c
  match tps.getLast? with
  | none => .error (.other "IndexError")
  | some last =>
    if last ≤ 0 then .error (.valueError "End time point has to be larger than previous end time point")
    else
      let (_, res) ← integrateTC c ig (tps.filter fun t => decide (0 ≤ t))
      match res with
      | none => pure (c, none)
      | some rows => do
        let p ← snapshot c
        pure (c, some [{ rows, pars := p }])

def tcWorker (cfg : EulerCfg) (tps : List Rat) : Worker :=
  { run := guardZeroDiv cfg (tcRun cfg tps), dfltIndex := tcIndex tps }

/-! ### protocol -/

abbrev Protocol := List (Rat × Row)      -- (absolute end time in seconds, parameter values)

def lastTime (segs : List Seg) : Rat :=
  match segs.getLast? with
  | none => 0
  | some s => match s.rows.getLast? with | none => 0 | some r => r.1

/-- after a failed step: `simulate` returns at once, the loop still applies the remaining
    steps' parameters unless nothing had been simulated yet (`break`) -/
def applyRemaining (c : Content) : Protocol → Except Err Content
  | [] => pure c
  | (_, pars) :: rest => do
    let c' ← updatePars c pars
    applyRemaining c' rest

/-- `Simulator.simulate_protocol` (grid per step = `linspace(t0, t_end, steps + 1)`) and
    `simulate_protocol_time_course` (grid per step = the joined points in `(t_start, t_end]`),
    `gridOf ig tStart tEnd` choosing between them. -/
def protoLoop (gridOf : Integ → Rat → Rat → List Rat) :
    Content → Integ → List Seg → Rat → Protocol → Except Err (Content × Option (List Seg))
  | c, _, segs, _, [] => pure (c, if segs.isEmpty then none else some segs)
  | c, ig, segs, tStart, (tEnd, pars) :: rest => do
    let c1 ← updatePars c pars
    let prior := lastTime segs
    let grid := (gridOf ig tStart tEnd).filter fun t => decide (prior ≤ t)
    match grid.getLast? with
    | none => .error (.other "IndexError")
    | some gl =>
      if gl ≤ prior then .error (.valueError "End time point has to be larger than previous end time point")
      else
        let (ig', res) ← integrateTC c1 ig grid
        match res with
        | none =>
          if segs.isEmpty then pure (c1, none)
          else do
            let c2 ← applyRemaining c1 rest
            pure (c2, none)
        | some rows => do
          let p ← snapshot c1
          let rows' := if segs.isEmpty then rows else rows.drop 1
          protoLoop gridOf c1 ig' (segs ++ [{ rows := rows', pars := p }]) tEnd rest

/-- `Simulator.simulate_protocol`: per step `update_parameters`, then `simulate(t_end, steps)` — the end must
    lie after everything simulated so far, the integrator returns `linspace(t0, t_end, steps + 1)` —, first
    row of every later step dropped, parameter snapshot per step, `break` after a failed first step -/
def simLoop (steps : Nat) :
    Content → Integ → List Seg → Protocol → Except Err (Content × Option (List Seg))
  | c, _, segs, [] => .ok (c, if segs.isEmpty then none else some segs)
  | c, ig, segs, step :: rest =>
    match updatePars c step.2 with
    | .error e => .error e
    | .ok c1 =>
      if step.1 ≤ lastTime segs then
        .error (.valueError "End time point has to be larger than previous end time point")
      else
        match integrateTC c1 ig (linspace ig.t0 step.1 (steps + 1)) with
        | .error e => .error e
        | .ok (_, none) =>
          if segs.isEmpty then .ok (c1, none)
          else
            match applyRemaining c1 rest with
            | .error e => .error e
            | .ok c2 => .ok (c2, none)
        | .ok (ig', some rows) =>
          match snapshot c1 with
          | .error e => .error e
          | .ok p =>
            simLoop steps c1 ig' (segs ++ [{ rows := if segs.isEmpty then rows else rows.drop 1, pars := p }]) rest

def protoRun (cfg : EulerCfg) (proto : Protocol) (steps : Nat) (c : Content) :
    Except Err (Content × Option (List Seg)) :=
  match simInit cfg c with
  | .error e => .error e
  | .ok ig => simLoop steps c ig [] proto

/-- time index of a successful protocol run that starts at 0: the first step contributes
    `steps + 1` points, every later step `steps` (its first point is dropped) -/
def protoIndex (steps : Nat) : Rat → Bool → Protocol → List Rat
  | _, _, [] => []
  | t0, first, step :: rest =>
    let g := linspace t0 step.1 (steps + 1)
    (if first then g else g.drop 1) ++ protoIndex steps step.1 false rest

/-- the placeholder of a failed row carries the time points of a successful run (after
    "fix: NaN placeholders of failed scan rows have the time points of a successful run") -/
def protoWorker (cfg : EulerCfg) (proto : Protocol) (steps : Nat) : Worker :=
  { run := guardZeroDiv cfg (protoRun cfg proto steps), dfltIndex := protoIndex steps 0 true proto }

/-! ### protocol + explicit time points -/

def insertRat (x : Rat) : List Rat → List Rat
  | [] => [x]
  | y :: ys => if x < y then x :: y :: ys else if x == y then y :: ys else y :: insertRat x ys

/-- `protocol.index.join(pd.Index(time_points), how="outer")`: sorted union -/
def joinOuter (a b : List Rat) : List Rat := (a ++ b).foldr insertRat []

def ptcRun (cfg : EulerCfg) (proto : Protocol) (tps : List Rat) (c : Content) :
    Except Err (Content × Option (List Seg)) := do
  let ig ← simInit cfg c
  match tps.getLast? with
  | none => .error (.other "IndexError")
  | some last =>
    if last ≤ 0 then .error (.valueError "End time point has to be larger than previous end time point")
    else
      let full := joinOuter (proto.map (·.1)) tps
      protoLoop (fun _ tStart tEnd => full.filter fun t => decide (tStart < t) && decide (t ≤ tEnd)) c ig [] 0 proto

/-- time index of a successful protocol-time-course run: 0, then every protocol end and every
    requested point inside `(0, T_end]` -/
def ptcIndex (proto : Protocol) (tps : List Rat) : List Rat :=
  let tEnd := (proto.getLast?.map (·.1)).getD 0
  0 :: (joinOuter (proto.map (·.1)) tps).filter fun t => decide (0 < t) && decide (t ≤ tEnd)

def ptcWorker (cfg : EulerCfg) (proto : Protocol) (tps : List Rat) : Worker :=
  { run := guardZeroDiv cfg (ptcRun cfg proto tps), dfltIndex := ptcIndex proto tps }

end Mxl.C09
