/-
C06 — the decidable side conditions of `C06_sound_partial`, as executable Boolean checkers
(the driver reports them per generated program, so the harness knows whether an input lies inside
the theorem's domain, and which excluded class it is in otherwise).

The three classes that the unchanged `_handle_fn_body` gets wrong:
  * `ret`    — a branch of an `if` that can fall through (F-C06-2: the branch's value becomes "the last
               name it assigned", statements after an if/else are dropped);
  * `rebind` — a branch assigns a name that is already bound where the `if` starts (F-C06-1: `ctx.symbols`
               is shared, the binding leaks into the other paths);
  * `cmp`    — an `if` / conditional-expression test that is not a comparison (F-C06-7: truthiness of a number
               is not translated), and `math.pi`-like attribute constants (no exact rational value).
-/
import MxlVerif.Model.C06
namespace Mxl.C06

structure Checks where
  ret : Bool
  rebind : Bool
  cmp : Bool
deriving Repr, DecidableEq

def Checks.all : Checks := ⟨true, true, true⟩

def isCmp : PyExpr → Bool
  | .cmp _ _ _ => true
  | _ => false

mutual
def exprOk (G : List (String × GVal)) : PyExpr → Bool
  | .num _ => true
  | .name _ => true
  | .attr p => match G.lookup p with
    | some (.special _ _) => false
    | _ => true
  | .un _ e => exprOk G e
  | .bin _ l r => exprOk G l && exprOk G r
  | .cmp l _ rs => exprOk G l && exprsOk G rs
  | .ife c t e => isCmp c && exprOk G c && exprOk G t && exprOk G e
  | .call _ args => exprsOk G args
  | .callKw _ args => exprsOk G args
  | .unsupported => true
def exprsOk (G : List (String × GVal)) : List PyExpr → Bool
  | [] => true
  | e :: es => exprOk G e && exprsOk G es
end

def disjoint (a b : List String) : Bool := a.all (fun x => !b.contains x)

/-- the checker walks a statement list exactly like `trLoop` does (an `elif` is continued at the same
level); `bound` = the names certainly bound at this point (parameters and earlier assignments) -/
def okLoop (ch : Checks) : Nat → List (String × GVal) → List String → List PyStmt → Bool
  | 0, _, _, _ => false
  | k+1, G, bound, rem =>
    match rem with
    | [] => true
    | .ifs c t e :: rest =>
      (!ch.cmp || (isCmp c && exprOk G c))
      && (!ch.ret || bodyReturns t)
      && (!ch.rebind || disjoint (bodyAssigned t) bound)
      && okLoop ch k G bound t
      && (match e with
          | [] => okLoop ch k G bound rest
          | [.ifs c2 t2 e2] => okLoop ch k G bound (.ifs c2 t2 e2 :: rest)
          | _ => (!ch.ret || bodyReturns e)
                 && (!ch.rebind || disjoint (bodyAssigned e) bound)
                 && okLoop ch k G bound e)
    | .ret v :: _ => !ch.cmp || exprOk G v
    | .assign x v :: rest => (!ch.cmp || exprOk G v) && okLoop ch k G (x :: bound) rest
    | .tupleAssign xs es :: rest => (!ch.cmp || exprsOk G es) && okLoop ch k G (xs ++ bound) rest
    | .augAssign _ _ _ :: _ => true      -- refused by the (repaired) translator
    | .unhandled :: _ => true             -- no Python semantics in the model
    | .retNone :: _ => true              -- refused
    | .skip :: rest => okLoop ch k G bound rest

def fnOkWith (ch : Checks) (k : Nat) (d : FnDef) : Bool := okLoop ch k d.globals d.params d.body

/-- the hypothesis of `C06_sound_partial` for one function -/
def fnOk (k : Nat) (d : FnDef) : Bool := fnOkWith Checks.all k d

/-- … and for a program: every function a call can reach -/
def progOk (k : Nat) (P : Prog) : Bool := P.all (fnOk k)

def branchesReturnB (k : Nat) (P : Prog) : Bool := P.all (fnOkWith ⟨true, false, false⟩ k)
def noRebindB (k : Nat) (P : Prog) : Bool := P.all (fnOkWith ⟨false, true, false⟩ k)
def condsCmpB (k : Nat) (P : Prog) : Bool := P.all (fnOkWith ⟨false, false, true⟩ k)

end Mxl.C06
