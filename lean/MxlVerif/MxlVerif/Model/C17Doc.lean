/-
C17 — SBML import builds the model the document describes.

* `Doc` : the generated subset of SBML L3 (constant compartments, species given as amount or concentration
  with/without hasOnlySubstanceUnits, parameters, function definitions, assignment rules, initial assignments,
  reactions with constant / fractional / rule-defined stoichiometry, kinetic laws in MathML).
* `docInit17 / docVal17 / docRhs17` : its declarative meaning (spec), in *amounts*: a species symbol in math is the
  amount if hasOnlySubstanceUnits, else amount / compartment size; function definitions are macros; an initial
  assignment overrides the attribute; d amount / dt = Σ (products − reactants) · kinetic law.  Built on the MathML
  semantics and the flat document semantics of C08 (`evalMath`, `docValue`, `docRhs`).
* mxlpy's own stage of the import (`sbml/_import.py`, `meta/codegen_mxlpy.py`), modelled: `normStem`/`moduleName`
  (`valid_filename` + content digest), `freeName` (`_free_name`: names of the functions generated for initial assignments / stoichiometries),
  argument lists (any order of the free symbols, same list at definition and call).
A call of a function definition `f(a, b)` is the node `.apply .function (.ci "f" :: [a, b])`.
-/
import MxlVerif.Model.C08Doc
namespace Mxl.C17
open Mxl.C08

structure Species where
  id : String
  comp : String
  init : Option Rat
  isAmount : Bool        -- initialAmount (true) / initialConcentration (false)
  hosu : Bool            -- hasOnlySubstanceUnits
  fixed : Bool := false  -- boundaryCondition or constant: no reaction changes the amount (there are no rate rules)
deriving Repr, Inhabited

structure FunDef where
  id : String
  params : List String
  body : MathML
deriving Repr, Inhabited

structure Doc where
  comps : List (String × Rat)
  species : List Species
  params : List (String × Option Rat)
  fundefs : List FunDef
  inits : List (String × MathML)
  rules : List (String × MathML)
  rxns : List SRxn
deriving Repr, Inhabited

/-! ### function definitions are macros -/

mutual
def substMath (σ : List (String × MathML)) : MathML → MathML
  | .ci n => (σ.lookup n).getD (.ci n)
  | .apply t cs => .apply t (substMathList σ cs)
  | m => m
def substMathList (σ : List (String × MathML)) : List MathML → List MathML
  | [] => []
  | m :: ms => substMath σ m :: substMathList σ ms
end

def findFun (fds : List FunDef) (f : String) : Option FunDef := fds.find? (·.id == f)

mutual
/-- replace every call of a function definition by its body with the (already expanded) arguments put in;
    calls inside the body are left for the next round -/
def expandOnce (fds : List FunDef) : MathML → MathML
  | .apply .function cs =>
    match expandOnceList fds cs with
    | .ci f :: args =>
      (match findFun fds f with
       | some fd => substMath (fd.params.zip args) fd.body
       | none => .apply .function (.ci f :: args))
    | cs' => .apply .function cs'
  | .apply t cs => .apply t (expandOnceList fds cs)
  | m => m
def expandOnceList (fds : List FunDef) : List MathML → List MathML
  | [] => []
  | m :: ms => expandOnce fds m :: expandOnceList fds ms
end

def iter {α : Type} (f : α → α) : Nat → α → α
  | 0, a => a
  | n + 1, a => iter f n (f a)

/-- definitions may use earlier definitions only: `length + 1` rounds remove every call -/
def expandFns (fds : List FunDef) (m : MathML) : MathML := iter (expandOnce fds) (fds.length + 1) m

/-! ### declarative meaning, in amounts -/

def compSize (d : Doc) (c : String) : Rat := (d.comps.lookup c).getD 1

/-- value of the species' symbol in math, from its amount -/
def symOfAmount (d : Doc) (s : Species) (a : Rat) : Rat := if s.hosu then a else a / compSize d s.comp

def amountOfSym (d : Doc) (s : Species) (x : Rat) : Rat := if s.hosu then x else x * compSize d s.comp

/-- the attribute value as value of the symbol -/
def symInit (d : Doc) (s : Species) : Option Rat :=
  s.init.map fun a =>
    if s.isAmount then symOfAmount d s a
    else (if s.hosu then a * compSize d s.comp else a)

/-- the flat document C08's semantics reads: compartments are constant parameters, species carry the
    initial value of their symbol, function definitions are expanded -/
def toSDoc (d : Doc) : SDoc :=
  { params := d.params ++ d.comps.map (fun kv => (kv.1, some kv.2))
    species := d.species.map (fun s => (s.id, symInit d s))
    inits := d.inits.map (fun kv => (kv.1, expandFns d.fundefs kv.2))
    rules := d.rules.map (fun kv => (kv.1, expandFns d.fundefs kv.2))
    rxns := d.rxns.map (fun r => { r with law := expandFns d.fundefs r.law }) }

def findSpecies (d : Doc) (n : String) : Option Species := d.species.find? (·.id == n)

/-- initial amount of a species / initial value of a parameter -/
def docInit17 (I : Interp) (d : Doc) (n : String) : Option Rat :=
  let sd := toSDoc d
  match docInit I sd sd.fuel n with
  | none => none
  | some v =>
    match findSpecies d n with
    | some s => some (amountOfSym d s v.toNum)
    | none => some v.toNum

def symState (d : Doc) (amounts : List (String × Rat)) : List (String × Rat) :=
  amounts.map fun kv =>
    match findSpecies d kv.1 with
    | some s => (kv.1, symOfAmount d s kv.2)
    | none => kv

/-- value of a rule-defined quantity / kinetic law at the given amounts -/
def docVal17 (I : Interp) (d : Doc) (amounts : List (String × Rat)) (n : String) : Option Rat :=
  let sd := toSDoc d
  (docValue I sd (symState d amounts) sd.fuel n).map Val.toNum

/-- d amount / dt (a boundary / constant species appears in reactions without being changed by them) -/
def docRhs17 (I : Interp) (d : Doc) (amounts : List (String × Rat)) (x : String) : Option Rat :=
  match findSpecies d x with
  | some s => if s.fixed then some 0 else docRhs I (toSDoc d) (symState d amounts) x
  | none => docRhs I (toSDoc d) (symState d amounts) x

/-! ### mxlpy's stage: module name -/

def lowerAscii (c : Char) : Char := if 'A' ≤ c && c ≤ 'Z' then Char.ofNat (c.toNat + 32) else c

def isSpaceChar (c : Char) : Bool := c == ' ' || c == '\t' || c == '\n' || c == '\r' || c.toNat == 11 || c.toNat == 12

/-- `re.sub(r"[-\s]+", "_", …)`: every maximal run of dashes / whitespace becomes one underscore
    (`inRun`: the previous character belonged to such a run) -/
def collapseFrom (inRun : Bool) : List Char → List Char
  | [] => []
  | c :: cs =>
    if c == '-' || isSpaceChar c then
      (if inRun then collapseFrom true cs else '_' :: collapseFrom true cs)
    else c :: collapseFrom false cs

def collapseRuns (l : List Char) : List Char := collapseFrom false l

def stripChars (l : List Char) : List Char :=
  let p := fun c : Char => c == '-' || c == '_'
  ((l.dropWhile p).reverse.dropWhile p).reverse

/-- `valid_filename` on an ASCII stem (NFKD / ascii-ignore are the identity there), without the `mb_` prefix -/
def normStem (stem : String) : String :=
  let cs := stem.toList.map lowerAscii
  let cs := cs.filter fun c => isWordChar c || isSpaceChar c || c == '-'
  String.ofList (stripChars (collapseRuns cs))

/-- name of the generated module: `valid_filename(stem)` + `_` + first 12 hex digits of the content hash -/
def moduleName (stem digest : String) : String := "mb_" ++ normStem stem ++ "_" ++ digest

/-! ### mxlpy's stage: names of the generated functions (`_free_name`) -/

/-- `while name in taken: name += "_"`; `fuel` bounds the loop (`none` = bound hit).  `taken` are the
    function names of derived quantities and reactions; the result names the function generated for an
    initial assignment (`init_<x>`) or a computed stoichiometry (`<rxn>_stoich_<x>`). -/
def freeName (taken : List String) (name : String) : Nat → Option String
  | 0 => none
  | fuel + 1 => if taken.contains name then freeName taken (name ++ "_") fuel else some name

end Mxl.C17
