/-
C11 — executable model of `mxlpy/meta/codegen_mxlpy.py`: `_to_symbolic_repr` (102-147) and
`generate_mxlpy_code_from_symbolic_repr` (after `fix: keep the names generated for initial-assignment and
stoichiometry functions apart from the component functions` and `fix: a function name generated for an initial
assignment or a computed stoichiometry is taken from then on`), and of what executing the generated source does
(`exec(src); create_model()`).

Python functions are entries of a function table (`fid` = the function up to its translation: the generator
never looks at object identity, only at `__name__` and the translated expression; an out-of-range `fid` denotes the
default entry `{name := "", fn := default}` — contents are meant with `fid < fns.length`, the wire format guarantees it): an entry has a
`__name__` and a behaviour `List Rat → Rat`.  ASSUMPTION (C06's subject): for a translatable function,
`fn_to_sympy(fn, model_args = symbols(args))` denotes "fn applied to the values of args"; the sympy
expression is therefore represented by the pair (fn, args) = a core `Fn`, and
`sympy_to_python_fn(fn_name, args, expr)` by a definition with parameter list `args` and that body.
-/
import MxlVerif.Model.Core
namespace Mxl.C11

structure PyFn where
  name : String
  fn : List Rat → Rat
deriving Inhabited

/-- a function attached to a component: which function object, with which model arguments -/
structure Use where
  fid : Nat
  args : List Name
deriving Repr, DecidableEq, Inhabited

inductive NVal where
  | plain (v : Rat)
  | ia (u : Use)
deriving Inhabited

inductive NCoef where
  | num (c : Rat)
  | dyn (u : Use)
deriving Inhabited

structure NRxn where
  rate : Use
  stoich : List (Name × NCoef)
deriving Inhabited

/-- a model of variables, parameters, derived quantities and reactions whose functions are
    entries of `fns` -/
structure NContent where
  fns : List PyFn
  vars : List (Name × NVal) := []
  pars : List (Name × NVal) := []
  derived : List (Name × Use) := []
  rxns : List (Name × NRxn) := []
deriving Inhabited

def NContent.pyfn (c : NContent) (fid : Nat) : PyFn := c.fns.getD fid default

def NContent.fnOf (c : NContent) (u : Use) : Fn := { args := u.args, fn := (c.pyfn u.fid).fn }

def NContent.valOf (c : NContent) : NVal → Val
  | .plain v => .plain v
  | .ia u => .ia (c.fnOf u)

def NContent.coefOf (c : NContent) : NCoef → Coef
  | .num q => .num q
  | .dyn u => .dyn (c.fnOf u)

/-- the model itself (function names forgotten) -/
def NContent.toContent (c : NContent) : Content :=
  { vars := c.vars.map fun kv => (kv.1, c.valOf kv.2)
    pars := c.pars.map fun kv => (kv.1, c.valOf kv.2)
    derived := c.derived.map fun kv => (kv.1, c.fnOf kv.2)
    rxns := c.rxns.map fun kv =>
      (kv.1, { rate := c.fnOf kv.2.rate, stoich := kv.2.stoich.map fun vc => (vc.1, c.coefOf vc.2) }) }

/-! ### `_to_symbolic_repr` -/

/-- `SymbolicFn` -/
structure SymFn where
  fnName : String
  expr : Fn           -- the sympy expression over the model's names
  args : List Name
  src : Nat           -- ghost: identity of the function object the expression was translated from
deriving Inhabited

inductive SymVal where
  | num (v : Rat)
  | fn (f : SymFn)
deriving Inhabited

structure SymRxn where
  fn : SymFn
  stoich : List (Name × SymVal)
deriving Inhabited

structure SymRepr where
  variables : List (Name × SymVal) := []
  parameters : List (Name × SymVal) := []
  derived : List (Name × SymFn) := []
  reactions : List (Name × SymRxn) := []
deriving Inhabited

/-- `_fn_to_symbolic_repr(k, fn, model_args)`; `bad` = names of functions `fn_to_sympy` cannot translate -/
def symFn (bad : List String) (c : NContent) (k : Name) (u : Use) : Except Err SymFn :=
  let f := c.pyfn u.fid
  if bad.contains f.name then .error (.valueError s!"Unable to parse fn for '{k}'")
  else pure { fnName := f.name, expr := { args := u.args, fn := f.fn }, args := u.args, src := u.fid }

def symVal (bad : List String) (c : NContent) (k : Name) : NVal → Except Err SymVal
  | .plain v => pure (.num v)
  | .ia u => do pure (.fn (← symFn bad c k u))

def symCoef (bad : List String) (c : NContent) (k : Name) : NCoef → Except Err SymVal
  | .num v => pure (.num v)
  | .dyn u => do pure (.fn (← symFn bad c k u))

def toSymbolicRepr (bad : List String) (c : NContent) : Except Err SymRepr := do
  let variables ← c.vars.mapM fun kv => do pure (kv.1, ← symVal bad c kv.1 kv.2)
  let parameters ← c.pars.mapM fun kv => do pure (kv.1, ← symVal bad c kv.1 kv.2)
  let derived ← c.derived.mapM fun kv => do pure (kv.1, ← symFn bad c kv.1 kv.2)
  let reactions ← c.rxns.mapM fun kv => do
    let fn ← symFn bad c kv.1 kv.2.rate
    let st ← kv.2.stoich.mapM fun vc => do pure (vc.1, ← symCoef bad c vc.1 vc.2)
    pure (kv.1, ({ fn, stoich := st } : SymRxn))
  pure { variables, parameters, derived, reactions }

/-! ### `generate_mxlpy_code_from_symbolic_repr` -/

/-- `def <key>(<params>: float, …) -> float: return <body>` -/
structure Def where
  params : List Name
  body : Fn
  src : Nat           -- ghost, see `SymFn.src`
deriving Inhabited

/-- a function reference in a builder call: `fn=<key>, args=[…]` -/
structure Ref where
  key : String
  args : List Name
  src : Nat           -- ghost: the function object the component was built with
deriving Repr, DecidableEq, Inhabited

inductive BVal where
  | num (v : Rat)
  | ref (r : Ref)
deriving Inhabited

inductive Call where
  | addVariable (k : Name) (v : BVal)
  | addParameter (k : Name) (v : BVal)
  | addDerived (k : Name) (r : Ref)
  | addReaction (k : Name) (r : Ref) (stoich : List (Name × BVal))
deriving Inhabited

structure Program where
  defs : List (String × Def)      -- the `functions` dict: one `def` per key, later entries overwrite
  build : List Call
deriving Inhabited

abbrev Fns := List (String × Def)

def Fns.put (fs : Fns) (key : String) (f : SymFn) : Fns :=
  omInsert fs key { params := f.args, body := f.expr, src := f.src }

/-- the loop of `_free_name(name, taken)`: `while name in taken: name = name + "_"`.  Every iteration meets a
    longer name, hence a different element of `taken`, so `taken.length + 1` iterations always suffice
    (`freeName_not_mem`, Lemmas/C11Keys.lean: the fuel is never used up). -/
def freeNameLoop (taken : List String) : Nat → String → String
  | 0, name => name
  | fuel + 1, name => if taken.contains name then freeNameLoop taken fuel (name ++ "_") else name

/-- the name `_free_name(name, taken)` returns; the caller's set becomes `freeName taken name :: taken`
    (`taken.add(name)`, after `fix: a function name generated for an initial assignment or a computed
    stoichiometry is taken from then on`) -/
def freeName (taken : List String) (name : String) : String :=
  freeNameLoop taken (taken.length + 1) name

/-- the generator's mutable state: the set `taken` and the `functions` dict -/
abbrev GenSt := List String × Fns

/-- `_codegen_variable` / `_codegen_parameter` -/
def genInit (st : GenSt) : SymVal → GenSt × BVal
  | .num v => (st, .num v)
  | .fn f =>
    let key := freeName st.1 ("init_" ++ f.fnName)
    ((key :: st.1, st.2.put key f), .ref { key, args := f.args, src := f.src })

def genInits (mk : Name → BVal → Call) : List (Name × SymVal) → GenSt → GenSt × List Call
  | [], st => (st, [])
  | (k, v) :: rest, st =>
    let (st1, b) := genInit st v
    let (st2, cs) := genInits mk rest st1
    (st2, mk k b :: cs)

def genDerived : List (Name × SymFn) → GenSt → GenSt × List Call
  | [], st => (st, [])
  | (k, f) :: rest, st =>
    let (st2, cs) := genDerived rest (st.1, st.2.put f.fnName f)
    (st2, Call.addDerived k { key := f.fnName, args := f.args, src := f.src } :: cs)

def genStoich (rxn : Name) : List (Name × SymVal) → GenSt → GenSt × List (Name × BVal)
  | [], st => (st, [])
  | (v, .num q) :: rest, st =>
    let (st2, l) := genStoich rxn rest st
    (st2, (v, BVal.num q) :: l)
  | (v, .fn f) :: rest, st =>
    let key := freeName st.1 (rxn ++ "_stoich_" ++ f.fnName)
    let (st2, l) := genStoich rxn rest (key :: st.1, st.2.put key f)
    (st2, (v, BVal.ref { key, args := f.args, src := f.src }) :: l)

def genReactions : List (Name × SymRxn) → GenSt → GenSt × List Call
  | [], st => (st, [])
  | (k, r) :: rest, st =>
    let st1 : GenSt := (st.1, st.2.put r.fn.fnName r.fn)
    let (st2, l) := genStoich k r.stoich st1
    let (st3, cs) := genReactions rest st2
    (st3, Call.addReaction k { key := r.fn.fnName, args := r.fn.args, src := r.fn.src } l :: cs)

/-- names of the functions of derived quantities and reactions: the initial value of `taken` -/
def takenOf (s : SymRepr) : List String :=
  s.derived.map (·.2.fnName) ++ s.reactions.map (·.2.fn.fnName)

def genProgram (s : SymRepr) : Program :=
  let (s1, vs) := genInits Call.addVariable s.variables (takenOf s, [])
  let (s2, ps) := genInits Call.addParameter s.parameters s1
  let (s3, ds) := genDerived s.derived s2
  let (s4, rs) := genReactions s.reactions s3
  { defs := s4.2, build := vs ++ ps ++ ds ++ rs }

/-! ### executing the generated source -/

/-- value of parameter `a` when the definition is called positionally with `vs` -/
def bindArg (params : List Name) (vs : List Rat) (a : Name) : Rat :=
  ((params.zip vs).lookup a).getD 0

/-- calling `def key(params): return body` with positional arguments -/
def Def.call (d : Def) (vs : List Rat) : Rat :=
  d.body.fn (d.body.args.map (bindArg d.params vs))

def hasDup : List Name → Bool
  | [] => false
  | a :: as => as.contains a || hasDup as

/-- the module body: every `def` must be accepted by the Python parser (cannot fail for a program that
    `genMxlpy` returns, which refuses repeated parameters itself) -/
def checkDefs : Fns → Except Err Unit
  | [] => pure ()
  | (_, d) :: rest =>
    if hasDup d.params then .error (.other "SyntaxError") else checkDefs rest

def resolve (defs : Fns) (r : Ref) : Except Err Fn :=
  match defs.lookup r.key with
  | some d => pure { args := r.args, fn := d.call }
  | none => .error (.nameError r.key)

def resolveVal (defs : Fns) : BVal → Except Err Val
  | .num v => pure (.plain v)
  | .ref r => do pure (.ia (← resolve defs r))

def resolveCoef (defs : Fns) : BVal → Except Err Coef
  | .num v => pure (.num v)
  | .ref r => do pure (.dyn (← resolve defs r))

/-- the builder chain of `create_model()` -/
def runCalls (defs : Fns) : List Call → Content → Except Err Content
  | [], c => pure c
  | .addVariable k v :: rest, c => do
    let v' ← resolveVal defs v
    runCalls defs rest { c with vars := c.vars ++ [(k, v')] }
  | .addParameter k v :: rest, c => do
    let v' ← resolveVal defs v
    runCalls defs rest { c with pars := c.pars ++ [(k, v')] }
  | .addDerived k r :: rest, c => do
    let f ← resolve defs r
    runCalls defs rest { c with derived := c.derived ++ [(k, f)] }
  | .addReaction k r st :: rest, c => do
    let f ← resolve defs r
    let st' ← st.mapM fun vc => do pure (vc.1, ← resolveCoef defs vc.2)
    runCalls defs rest { c with rxns := c.rxns ++ [(k, { rate := f, stoich := st' })] }

def runProgram (p : Program) : Except Err Content := do
  checkDefs p.defs
  runCalls p.defs p.build {}

/-! ### the hypothesis of the partial theorem (decidable, a function of the input model) -/

def BVal.refs : BVal → List Ref
  | .num _ => []
  | .ref r => [r]

def Call.refs : Call → List Ref
  | .addVariable _ v => v.refs
  | .addParameter _ v => v.refs
  | .addDerived _ r => [r]
  | .addReaction _ r st => r :: st.flatMap fun vc => vc.2.refs

/-- a builder reference finds the definition that was generated from the same function object -/
def refOk (defs : Fns) (r : Ref) : Bool :=
  match defs.lookup r.key with
  | some d => d.src == r.src
  | none => false

/-- every emitted definition has distinct parameter names, and every reference resolves to its own function -/
def Program.refsOk (p : Program) : Bool :=
  (p.defs.all fun kd => !hasDup kd.2.params) && p.build.all fun call => call.refs.all (refOk p.defs)

/-- every reference resolves to the definition of its own function object (excludes exactly F-C11-1) -/
def Program.srcOk (p : Program) : Bool := p.build.all fun call => call.refs.all (refOk p.defs)

/-! ### the same hypothesis on the input alone -/

/-- the functions of derived quantities and reactions with the key their definition is filed under
    (`__name__`); the keys generated for initial assignments and computed coefficients never meet another
    key (`_free_name`), so these are the only keys two uses can share -/
def compEntries (c : NContent) : List (String × Use) :=
  c.derived.map (fun kv => ((c.pyfn kv.2.fid).name, kv.2))
  ++ c.rxns.map (fun kv => ((c.pyfn kv.2.rate.fid).name, kv.2.rate))

/-- no two different function objects of derived quantities / reactions share a `__name__` (excludes F-C11-1) -/
def keysInjective (c : NContent) : Bool :=
  (compEntries c).all fun e1 => (compEntries c).all fun e2 => e1.1 != e2.1 || e1.2.fid == e2.2.fid

/-- pad / truncate an argument list to the function's arity -/
def fit : Nat → List Rat → List Rat
  | 0, _ => []
  | n + 1, [] => 0 :: fit n []
  | n + 1, v :: vs => v :: fit n vs

def Use.all (c : NContent) : List Use :=
  (c.vars.filterMap fun kv => match kv.2 with | .ia u => some u | .plain _ => none)
  ++ (c.pars.filterMap fun kv => match kv.2 with | .ia u => some u | .plain _ => none)
  ++ c.derived.map (·.2)
  ++ c.rxns.flatMap fun kv => kv.2.rate :: kv.2.stoich.filterMap fun vc =>
       match vc.2 with | .dyn u => some u | .num _ => none

/-- no component passes the same model name twice to its function (slightly stronger than needed for derived /
    reaction functions, where only the last use under a name is emitted) -/
def argsNoDup (c : NContent) : Bool := (Use.all c).all fun u => !hasDup u.args

/-- representation invariant: the Lean function standing for a Python function of arity n looks at its
    first n arguments only and reads a missing one as 0 (the core model applies a function to exactly
    `args.length` values, so every Python function has such a representative; `FExpr.eval` is one) -/
def Canonical (c : NContent) : Prop :=
  ∀ u ∈ Use.all c, ∀ vs, (c.pyfn u.fid).fn vs = (c.pyfn u.fid).fn (fit u.args.length vs)

/-- the functions of derived quantities and reactions, in the order the generator visits them -/
def compFns (s : SymRepr) : List SymFn := s.derived.map (·.2) ++ s.reactions.map (·.2.fn)

/-- the function of a name: its first use with distinct arguments (`_check_function_names`, first loop) -/
def refFn (fns : List SymFn) (name : String) : Option SymFn :=
  fns.find? fun g => g.fnName == name && !hasDup g.args

/-- `_check_function_names`, second loop: every use of a name is that name's function applied to the use's arguments.
    The code compares TRANSLATED EXPRESSIONS, not function objects: `src` / `fid` stand for the translation class of a
    function (two function objects with the same translation - a helper copied into two modules - are one `fid`; the
    harness assigns fids that way).  ASSUMPTION C06: functions with different behaviour have different translations. -/
def namesConsistent (s : SymRepr) : Bool :=
  (compFns s).all fun f => match refFn (compFns s) f.fnName with
    | some g => g.src == f.src
    | none => true

/-- `generate_mxlpy_code_from_symbolic_repr`: ValueError when two different functions of derived quantities /
    reactions have the same name (after `fix: refuse to generate MxlPy source for two different functions with the
    same name`); else the program, unless a definition would repeat a parameter name — `sympy_to_python_fn` raises
    ValueError for that (after `fix: refuse to generate a Python function whose parameter list repeats a name`) -/
def genMxlpy (s : SymRepr) : Except Err Program :=
  if !namesConsistent s then .error (.valueError "two different functions have the same name")
  else
    let p := genProgram s
    if p.defs.all fun kd => !hasDup kd.2.params then pure p
    else .error (.valueError "an argument is repeated")

/-- the names check passes and every reference resolves to the definition of its own function object -/
def refsSrcOk (c : NContent) : Bool :=
  match toSymbolicRepr [] c with
  | .ok s => namesConsistent s && (genProgram s).srcOk
  | .error _ => false

/-- … and every emitted definition has distinct parameters: generation succeeds and the program rebuilds the model -/
def refsResolve (c : NContent) : Bool :=
  match toSymbolicRepr [] c with
  | .ok s => namesConsistent s && (genProgram s).refsOk
  | .error _ => false

/-- model → generated source → model -/
def roundTrip (bad : List String) (c : NContent) : Except Err Content := do
  let s ← toSymbolicRepr bad c
  let p ← genMxlpy s
  runProgram p

/-! ### what is declared: by the builder calls of a program, by the components of a model -/

/-- what a builder call declares: kind, name, the model arguments of its function (none for a plain value), and for a
    reaction the compounds of its stoichiometry with the arguments of computed coefficients -/
def BVal.argsOf : BVal → Option (List Name)
  | .num _ => none
  | .ref r => some r.args

def Call.head : Call → String × Name × Option (List Name) × List (Name × Option (List Name))
  | .addVariable k v => ("variable", k, v.argsOf, [])
  | .addParameter k v => ("parameter", k, v.argsOf, [])
  | .addDerived k r => ("derived", k, some r.args, [])
  | .addReaction k r st => ("reaction", k, some r.args, st.map fun vc => (vc.1, vc.2.argsOf))

def NVal.argsOf : NVal → Option (List Name)
  | .plain _ => none
  | .ia u => some u.args

def NCoef.argsOf : NCoef → Option (List Name)
  | .num _ => none
  | .dyn u => some u.args

/-- the same for the components of the model -/
def heads (c : NContent) : List (String × Name × Option (List Name) × List (Name × Option (List Name))) :=
  (c.vars.map fun kv => ("variable", kv.1, kv.2.argsOf, []))
  ++ (c.pars.map fun kv => ("parameter", kv.1, kv.2.argsOf, []))
  ++ (c.derived.map fun kv => ("derived", kv.1, some kv.2.args, []))
  ++ (c.rxns.map fun kv => ("reaction", kv.1, some kv.2.rate.args, kv.2.stoich.map fun vc => (vc.1, vc.2.argsOf)))

end Mxl.C11
