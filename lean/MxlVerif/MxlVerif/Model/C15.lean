/-
C15 — steady-state search of `Scipy.integrate_to_steady_state` (integrators/int_scipy.py) and the error
plumbing of `Simulator.simulate_to_steady_state` / `get_result` (simulator.py) and the scan worker's NaN
default (scan.py).  Import-free executable model.

The integrator (`scipy.integrate.ode`) is a parameter: `step : σ → σ` advances the state by `step_size`
time units.  `ode.integrate` returns ITS OWN BUFFER, which the next call overwrites in place; the model makes
that explicit: `y1` is either a value of its own or a reference to the integrator's buffer.
-/
namespace Mxl.C15

/-- what the Python name `y1` is bound to -/
inductive Prev (σ : Type) where
  | val (v : σ)     -- an array of its own (`copy.deepcopy(self.y0)`, or a copy of `y2`)
  | buffer          -- the integrator's result buffer (after `y1 = y2`)
deriving Repr

inductive Outcome (σ : Type) where
  | steady (n : Nat) (y : σ)     -- `Result(TimeCourse(time=[t0 + n*step_size], values=[y]))`
  | noSteadyState                 -- `Result(NoSteadyState())`
deriving Repr, DecidableEq

/-- the `for _ in range(max_steps)` loop.  `i` iterations are done, `buf` is the integrator's buffer.
`copies = true`: the code rebinds `y1` to a copy of `y2`; `false`: `y1 = y2` (alias of the buffer). -/
def ssLoop {σ : Type} (copies : Bool) (step : σ → σ) (small : σ → σ → Bool) :
    Nat → Nat → Prev σ → σ → Outcome σ
  | 0, _, _, _ => .noSteadyState
  | fuel + 1, i, y1, buf =>
    let buf' := step buf                                  -- y2 = integ.integrate(t): buffer overwritten
    let y1v := match y1 with | .val v => v | .buffer => buf'   -- what `y1` reads as NOW
    if small buf' y1v then .steady (i + 1) buf'          -- norm(diff) < tolerance
    else ssLoop copies step small fuel (i + 1) (if copies then .val buf' else .buffer) buf'

/-- `integrate_to_steady_state`: `reset()`, `y1 = deepcopy(y0)`, loop -/
def ssRun {σ : Type} (copies : Bool) (step : σ → σ) (small : σ → σ → Bool) (maxSteps : Nat) (y0 : σ) :
    Outcome σ :=
  ssLoop copies step small maxSteps 0 (.val y0) y0

/-- `n` integrator steps from `x` (the exact flow sampled every `step_size`) -/
def iter {σ : Type} (f : σ → σ) : Nat → σ → σ
  | 0, x => x
  | n + 1, x => iter f n (f x)

/-! ### error plumbing -/

inductive SimErr where
  | noSteadyState
  | integrationFailure
  | other
deriving Repr, DecidableEq

/-- the part of `Simulator` that the steady-state path touches -/
structure Sim (σ : Type) where
  errors : List SimErr
  variables : Option (List (Nat × σ))     -- (time / 1, state) rows; time = n * step_size
deriving Repr

def Sim.fresh {σ : Type} : Sim σ := ⟨[], none⟩

/-- `_handle_simulation_results(result, skipfirst=False)` -/
def handleResult {σ : Type} (stepSize : Nat) (s : Sim σ) : Outcome σ → Sim σ
  | .steady n y =>
    match s.variables with
    | none => { s with variables := some [(n * stepSize, y)] }
    | some rows => { s with variables := some (rows ++ [(n * stepSize, y)]) }
  | .noSteadyState => { s with errors := s.errors ++ [.noSteadyState] }

/-- `simulate_to_steady_state` -/
def simulateToSteadyState {σ : Type} (stepSize : Nat) (s : Sim σ) (integ : Unit → Outcome σ) : Sim σ :=
  if s.errors.length > 0 then s else handleResult stepSize s (integ ())

/-- `get_result`: the first error, else the collected rows -/
def getResult {σ : Type} (s : Sim σ) : Except SimErr (List (Nat × σ)) :=
  match s.errors with
  | e :: _ => .error e
  | [] =>
    match s.variables with
    | none => .error .integrationFailure
    | some rows => .ok rows

/-- a row of `scan.steady_state(...).variables`: `none` = the NaN row of `Simulation.default` -/
def workerRow {σ : Type} (r : Except SimErr (List (Nat × σ))) : Option σ :=
  match r with
  | .ok rows => rows.getLast?.map (·.2)
  | .error _ => none

/-! ### the instance the driver runs: states are rational vectors -/

def vsub (a b : List Rat) : List Rat := List.zipWith (· - ·) a b
def vdiv (a b : List Rat) : List Rat := List.zipWith (· / ·) a b
def normSq (d : List Rat) : Rat := (d.map fun x => x * x).foldl (· + ·) 0

/-- `np.linalg.norm(y2 - y1, ord=2) < tol` (both sides squared; a non-positive tolerance is never met) -/
def smallAbs (tol : Rat) (y2 y1 : List Rat) : Bool :=
  decide (0 < tol) && decide (normSq (vsub y2 y1) < tol * tol)

/-- `np.linalg.norm((y2 - y1) / y1, ord=2) < tol`; a zero in `y1` makes numpy produce inf/nan, whose norm is
not `< tol` -/
def smallRel (tol : Rat) (y2 y1 : List Rat) : Bool :=
  if y1.any (· == 0) then false
  else decide (0 < tol) && decide (normSq (vdiv (vsub y2 y1) y1) < tol * tol)

def dot (a b : List Rat) : Rat := (List.zipWith (· * ·) a b).foldl (· + ·) 0
/-- exact flow over one step of a linear network: `y ↦ C y + d` -/
def affine (C : List (List Rat)) (d : List Rat) (y : List Rat) : List Rat :=
  List.zipWith (· + ·) (C.map fun row => dot row y) d

end Mxl.C15
