/-
C15 — steady-state search of `Scipy.integrate_to_steady_state` (integrators/int_scipy.py) and the error
plumbing of `Simulator.simulate_to_steady_state` / `get_result` (simulator.py) and the scan worker's NaN
default (scan.py).  Import-free executable model.

The integrator (`scipy.integrate.ode`) is a parameter: `step : σ → σ` advances the state by `step_size`
time units.  The `Scipy` object around it (`t0`, `y0`, `_y0_orig`) is `Integ`: the search starts at the state the
integrator CURRENTLY holds and, on success, moves it to the reported time and state (`continues`, read from the source).  `ode.integrate` returns ITS OWN BUFFER, which the next call overwrites in place; the model makes
that explicit: `y1` is either a value of its own or a reference to the integrator's buffer.
-/
namespace Mxl.C15

/-- what the Python name `y1` is bound to -/
inductive Prev (σ : Type) where
  | val (v : σ)     -- an array of its own (`copy.deepcopy(self.y0)`, or a copy of `y2`)
  | buffer          -- the integrator's result buffer (after `y1 = y2`)
deriving Repr

inductive Outcome (σ : Type) where
  | steady (n : Nat) (y : σ)     -- `Result(TimeCourse(time=[t0 + n*step_size], values=[y]))`
  | noSteadyState                 -- `Result(NoSteadyState())`
  | integrationFailure            -- `Result(IntegrationFailure())`: the solver gave up (`not integ.successful()`)
deriving Repr, DecidableEq

/-- the `for _ in range(max_steps)` loop.  `i` iterations are done, `buf` is the integrator's buffer.
`copies = true`: the code rebinds `y1` to a copy of `y2`; `false`: `y1 = y2` (alias of the buffer).
`ok buf'` is `integ.successful()` after the step; `checks` = the loop asks it (since the repair of F-C15-3) and stops
with `IntegrationFailure` instead of comparing the state of a solver that has given up. -/
def ssLoop {σ : Type} (copies checks : Bool) (step : σ → σ) (ok : σ → Bool) (small : σ → σ → Bool) :
    Nat → Nat → Prev σ → σ → Outcome σ
  | 0, _, _, _ => .noSteadyState
  | fuel + 1, i, y1, buf =>
    let buf' := step buf                                  -- y2 = integ.integrate(t): buffer overwritten
    if checks && !ok buf' then .integrationFailure        -- if not integ.successful(): return Result(IntegrationFailure())
    else
    let y1v := match y1 with | .val v => v | .buffer => buf'   -- what `y1` reads as NOW
    if small buf' y1v then .steady (i + 1) buf'          -- norm(diff) < tolerance
    else ssLoop copies checks step ok small fuel (i + 1) (if copies then .val buf' else .buffer) buf'

/-- the search itself: `y1 = deepcopy(self.y0)` + loop, from the state `y0` the integrator currently holds
(since the repair of F-C04-2 that is the CURRENT state, not the initial conditions) -/
def ssRun {σ : Type} (copies checks : Bool) (step : σ → σ) (ok : σ → Bool) (small : σ → σ → Bool)
    (maxSteps : Nat) (y0 : σ) : Outcome σ :=
  ssLoop copies checks step ok small maxSteps 0 (.val y0) y0

/-- `n` integrator steps from `x` (the exact flow sampled every `step_size`) -/
def iter {σ : Type} (f : σ → σ) : Nat → σ → σ
  | 0, x => x
  | n + 1, x => iter f n (f x)

/-! ### the integrator object around the loop (`Scipy.t0`, `Scipy.y0`, `Scipy._y0_orig`) -/

structure Integ (σ : Type) where
  t0 : Rat
  y0 : σ
  y0orig : σ
deriving Repr

/-- `Scipy.reset` -/
def Integ.reset {σ : Type} (g : Integ σ) : Integ σ := { g with t0 := 0, y0 := g.y0orig }

/-- what `integrate_to_steady_state` returns: `Result(TimeCourse(time=[t], values=[y2]))` or `Result(NoSteadyState())` -/
inductive SSResult (σ : Type) where
  | timeCourse (t : Rat) (y : σ)
  | noSteadyState
  | integrationFailure
deriving Repr

/-- `Scipy.integrate_to_steady_state` as a method: the result and the integrator afterwards.
`continues = true` (current tree): the `ode` object starts at (`self.t0`, `self.y0`), `t = self.t0 + step_size`, and the
success branch advances `self.t0 = t; self.y0 = y2.copy()`.  `continues = false` (before the repair of F-C04-2):
`self.reset()` first and no advance.  A failed search leaves the integrator where it was. -/
def integrateToSteadyState {σ : Type} (continues copies checks : Bool) (step : σ → σ) (ok : σ → Bool)
    (small : σ → σ → Bool) (maxSteps stepSize : Nat) (g : Integ σ) : SSResult σ × Integ σ :=
  let g0 := if continues then g else g.reset
  match ssRun copies checks step ok small maxSteps g0.y0 with
  | .steady n y =>
    let t := g0.t0 + (n : Rat) * (stepSize : Rat)          -- `t = self.t0 + step_size`, then `t += step_size` per round
    (.timeCourse t y, if continues then { g0 with t0 := t, y0 := y } else g0)
  | .noSteadyState => (.noSteadyState, g0)
  | .integrationFailure => (.integrationFailure, g0)

/-! ### error plumbing -/

inductive SimErr where
  | noSteadyState
  | integrationFailure
  | other
deriving Repr, DecidableEq

/-- a failure outcome of the loop and the error `get_result()` then holds -/
def errOf {σ : Type} : Outcome σ → Option SimErr
  | .noSteadyState => some .noSteadyState
  | .integrationFailure => some .integrationFailure
  | .steady _ _ => none

/-- the part of `Simulator` that the steady-state path touches -/
structure Sim (σ : Type) where
  errors : List SimErr
  variables : Option (List (Rat × σ))     -- (absolute time, state) rows
  timeShift : Option Rat                  -- `_time_shift` (set by `update_variables` after a simulation)
  integ : Integ σ
deriving Repr

/-- `Simulator(model, y0)` -/
def Sim.fresh {σ : Type} (y0 : σ) : Sim σ := ⟨[], none, none, ⟨0, y0, y0⟩⟩

/-- `_handle_simulation_results(result, skipfirst=False)` -/
def handleResult {σ : Type} (s : Sim σ) : SSResult σ → Sim σ
  | .timeCourse t y =>
    let t := match s.timeShift with | some sh => t + sh | none => t      -- `time += self._time_shift`
    match s.variables with
    | none => { s with variables := some [(t, y)] }
    | some rows => { s with variables := some (rows ++ [(t, y)]) }
  | .noSteadyState => { s with errors := s.errors ++ [.noSteadyState] }
  | .integrationFailure => { s with errors := s.errors ++ [.integrationFailure] }

/-- `simulate_to_steady_state` -/
def simulateToSteadyState {σ : Type} (continues copies checks : Bool) (step : σ → σ) (ok : σ → Bool)
    (small : σ → σ → Bool) (maxSteps stepSize : Nat) (s : Sim σ) : Sim σ :=
  if s.errors.length > 0 then s
  else
    let (r, g) := integrateToSteadyState continues copies checks step ok small maxSteps stepSize s.integ
    handleResult { s with integ := g } r

/-- `get_result`: the first error, else the collected rows -/
def getResult {σ : Type} (s : Sim σ) : Except SimErr (List (Rat × σ)) :=
  match s.errors with
  | e :: _ => .error e
  | [] =>
    match s.variables with
    | none => .error .integrationFailure
    | some rows => .ok rows

/-- a row of `scan.steady_state(...).variables`: `none` = the NaN row of `Simulation.default` -/
def workerRow {σ : Type} (r : Except SimErr (List (Rat × σ))) : Option σ :=
  match r with
  | .ok rows => rows.getLast?.map (·.2)
  | .error _ => none

/-! ### the instance the driver runs: states are rational vectors -/

def vsub (a b : List Rat) : List Rat := List.zipWith (· - ·) a b
def vdiv (a b : List Rat) : List Rat := List.zipWith (· / ·) a b
def normSq (d : List Rat) : Rat := (d.map fun x => x * x).foldl (· + ·) 0

/-- `np.linalg.norm(y2 - y1, ord=2) < tol` (both sides squared; a non-positive tolerance is never met) -/
def smallAbs (tol : Rat) (y2 y1 : List Rat) : Bool :=
  decide (0 < tol) && decide (normSq (vsub y2 y1) < tol * tol)

/-- `np.linalg.norm((y2 - y1) / y1, ord=2) < tol`; a zero in `y1` makes numpy produce inf/nan, whose norm is
not `< tol` -/
def smallRel (tol : Rat) (y2 y1 : List Rat) : Bool :=
  if y1.any (· == 0) then false
  else decide (0 < tol) && decide (normSq (vdiv (vsub y2 y1) y1) < tol * tol)

def dot (a b : List Rat) : Rat := (List.zipWith (· * ·) a b).foldl (· + ·) 0
/-- exact flow over one step of a linear network: `y ↦ C y + d` -/
def affine (C : List (List Rat)) (d : List Rat) (y : List Rat) : List Rat :=
  List.zipWith (· + ·) (C.map fun row => dot row y) d

/-- the exact boundary of the absolute criterion on constant accumulation `y ↦ y + d` (`C15_accumulation_fails_iff`): the search
fails iff the drift per step is at least the tolerance.  Evaluated by the driver: it is the class predicate of F-C15-4. -/
def accAbsFails (tol : Rat) (d : List Rat) : Bool := decide (tol * tol ≤ normSq d)

/-- the exact boundary of the relative criterion on ONE accumulating variable (`d > 0`, `y0 > 0`, budget `maxSteps`;
`C15_rel_accumulation_fails_iff`): the search fails iff the relative step is still ≥ tol at the last comparison.  Evaluated by
the driver: the class predicate of F-C15-2. -/
def accRelFails (tol d y0 : Rat) (maxSteps : Nat) : Bool :=
  decide (tol * (y0 + ((maxSteps - 1 : Nat) : Rat) * d) ≤ d)

/-- constant accumulation: one search step adds `d` -/
def accStep (d : List Rat) : List Rat → List Rat := fun y => List.zipWith (· + ·) y d

/-- the exact boundary of the relative criterion on SEVERAL accumulating variables (all `d_i > 0`, `y_i > 0`;
`C15_rel_accumulation_vec_fails_iff`): the relative step only shrinks, so the search fails iff the LAST comparison of the budget is
not small.  Evaluated by the driver. -/
def accRelVecFails (tol : Rat) (d y0 : List Rat) (maxSteps : Nat) : Bool :=
  !smallRel tol (iter (accStep d) maxSteps y0) (iter (accStep d) (maxSteps - 1) y0)

/-- exact flow over one step (100 time units) of dx/dt = x² (first component; finite-time blow-up at t = 1/x) next to
relaxing components `z ↦ zs + (z − zs)·c`: x(t+100) = x / (1 − 100·x) while the singularity is not reached.  `[]`
stands for a solver that has given up (no state to hand back). -/
def blowStep (c zs : List Rat) : List Rat → List Rat
  | [] => []
  | x :: zs' =>
    if 100 * x < 1 then
      (x / (1 - 100 * x)) :: List.zipWith (· + ·) zs (List.zipWith (· * ·) c (List.zipWith (· - ·) zs' zs))
    else []

/-- `integ.successful()` for the driver's state type -/
def okState (y : List Rat) : Bool := !y.isEmpty

end Mxl.C15
