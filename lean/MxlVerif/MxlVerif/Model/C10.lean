/-
C10 — executable model of `mxlpy.simulation.Simulation` (result views), line for
line after `simulation.py` (as repaired by the three `fix:` commits recorded in
known_findings.d/C10.json), built on the shared numeric core (`createCache`,
`getArgsEnv`, `rhsFromArgs`) without modifying it.

A `pd.DataFrame` is modelled row-wise: `Table = List (time × Row)`, a `Row` is the
association list column ↦ value.  The `Simulation` object is split into its
immutable part `Res` (`raw_variables`, `raw_parameters`) and its mutable part `St`
(the *shared* `Model`, whose parameters every read re-writes, and the lazily filled
`raw_args` memo cell; `[]` = not filled, exactly Python's `len(self.raw_args) > 0`).

Every reader is `St → Except Err (View × St)`.  What is not modelled: pandas
alignment / dtype machinery (the tie covers it), per-segment normalisation entries
that are themselves arrays, non-finite results (a zero normaliser is an explicit
error here, Python yields inf/nan).
-/
import MxlVerif.Model.Queries
namespace Mxl.C10

abbrev Row := List (Name × Rat)
abbrev Table := List (Rat × Row)
abbrev Pars := List (Name × Rat)

/-! ### small structural helpers (own copies: plain recursion, easy to reason about) -/

/-- `List.mapM` in `Except Err`, by structural recursion -/
def mapE {α β} (f : α → Except Err β) : List α → Except Err (List β)
  | [] => .ok []
  | a :: as =>
    match f a with
    | .error e => .error e
    | .ok b =>
      match mapE f as with
      | .error e => .error e
      | .ok bs => .ok (b :: bs)

/-- `d[t] = v` for a dict keyed by the (float) time -/
def tInsert {β} (m : List (Rat × β)) (t : Rat) (v : β) : List (Rat × β) :=
  match m with
  | [] => [(t, v)]
  | (t', v') :: rest => if t' = t then (t, v) :: rest else (t', v') :: tInsert rest t v

/-- `{time: value for time, … in ….iterrows()}`: rows with an equal time collapse
    (the later one wins, at the earlier one's position) -/
def byTime {β} (l : List (Rat × β)) : List (Rat × β) :=
  l.foldl (fun acc r => tInsert acc r.1 r.2) []

/-! ### `Model.update_parameters` -/

def setPar (ps : List (Name × Val)) (k : Name) (v : Rat) : List (Name × Val) :=
  ps.map fun kv => if kv.1 = k then (kv.1, Val.plain v) else kv

/-- `update_parameter(name, value)`: `KeyError` for an unknown name -/
def updatePar (c : Content) (k : Name) (v : Rat) : Except Err Content :=
  if k ∈ omKeys c.pars then .ok { c with pars := setPar c.pars k v }
  else .error (.keyError k)

/-- `update_parameters(p)` -/
def withPars (c : Content) : Pars → Except Err Content
  | [] => .ok c
  | (k, v) :: rest =>
    match updatePar c k v with
    | .error e => .error e
    | .ok c' => withPars c' rest

/-! ### `get_arg_names` -/

structure Flags where
  vars : Bool := false
  pars : Bool := false
  dpars : Bool := false
  dvars : Bool := false
  rxns : Bool := false
  svars : Bool := false
  sflux : Bool := false
  readouts : Bool := false
deriving Repr, DecidableEq, Inhabited

def Flags.all : Flags :=
  { vars := true, pars := true, dpars := true, dvars := true, rxns := true,
    svars := true, sflux := true, readouts := true }

def surVarNames (c : Content) : List Name :=
  c.surs.flatMap fun kv => kv.2.outs.filter fun o => !(omKeys kv.2.stoich).contains o

def surFluxNames (c : Content) : List Name :=
  c.surs.flatMap fun kv => omKeys kv.2.stoich

def derivedVarNames (c : Content) (cache : Cache) : List Name :=
  (omKeys c.derived).filter fun k => !(omKeys cache.allPars).contains k

def derivedParNames (c : Content) (cache : Cache) : List Name :=
  (omKeys c.derived).filter fun k => (omKeys cache.allPars).contains k

/-- `get_arg_names(include_time=False, …)`, in the code's order -/
def argNames (c : Content) (cache : Cache) (f : Flags) : List Name :=
  (if f.vars then omKeys c.vars else []) ++
  (if f.pars then omKeys c.pars else []) ++
  (if f.dvars then derivedVarNames c cache else []) ++
  (if f.dpars then derivedParNames c cache else []) ++
  (if f.rxns then omKeys c.rxns else []) ++
  (if f.svars then surVarNames c else []) ++
  (if f.sflux then surFluxNames c else []) ++
  (if f.readouts then omKeys c.readouts else [])

/-! ### one point: `_get_args` + readouts -/

/-- `for name, ro in self._readouts.items(): ro.calculate_inpl(name, args)` -/
def readoutsInpl : List (Name × Fn) → Env → Except Err Env
  | [], env => .ok env
  | (k, f) :: rest, env =>
    match f.calc env with
    | .error e => .error e
    | .ok v => readoutsInpl rest (env.set k v)

/-- the `args` dict of one row inside `_get_args_time_course(include_readouts=True)`: `_get_args` with the data sets
    popped, then the readouts in DEPENDENCY order on `self._data | args` (shared with the core model:
    `Mxl.sortedReadouts` / `Mxl.evalReadouts`, after the repairs "readouts can name data sets" and "readouts are
    evaluated in dependency order") -/
def pointEnv (c : Content) (cache : Cache) (t : Rat) (vals : Row) : Except Err Env :=
  match getArgsEnv c cache vals t with
  | .error e => .error e
  | .ok env =>
    let raw := env.filter fun kv => !(omKeys c.data).contains kv.1
    match sortedReadouts c (raw ++ c.data) with
    | .error e => .error e
    | .ok ros => evalReadouts ros (raw ++ c.data) raw

/-- `.loc[names]` on one row: `KeyError` for an absent column -/
def selectRow (names : List Name) (env : Env) : Except Err Row :=
  mapE (fun k => match env.get k with | .error e => .error e | .ok v => .ok (k, v)) names

/-- `.loc[:, names]` -/
def selectTable (names : List Name) (t : Table) : Except Err Table :=
  mapE (fun r => match selectRow names r.2 with
    | .error e => .error e
    | .ok row => .ok (r.1, row)) t

/-- the full row of one point: every name of `get_arg_names` (all flags, no time) at
    state `vals`, time `t`, under content `c`.  Mentions no segment, memo or order: this
    is what a view row is compared with. -/
def pointRow (c : Content) (t : Rat) (vals : Row) : Except Err Row :=
  match createCache c with
  | .error e => .error e
  | .ok cache =>
    match pointEnv c cache t vals with
    | .error e => .error e
    | .ok env => selectRow (argNames c cache Flags.all) env

/-- `Model.get_args_time_course(variables=tbl, include_* = True)` -/
def argsTimeCourse (c : Content) (tbl : Table) : Except Err Table :=
  match createCache c with
  | .error e => .error e
  | .ok cache =>
    match mapE (fun r => match pointEnv c cache r.1 r.2 with
        | .error e => .error e
        | .ok env => .ok (r.1, env)) tbl with
    | .error e => .error e
    | .ok rows =>
      let names := argNames c cache Flags.all
      -- an empty frame has no columns: `.loc[:, names]` raises
      if (byTime rows).isEmpty && !names.isEmpty then .error (.keyError "columns")
      else selectTable names (byTime rows)

/-! ### the `Simulation` object -/

structure Res where
  rawVars : List Table
  rawPars : List Pars
deriving Inhabited

structure St where
  model : Content
  memo : List Table := []
deriving Inhabited

inductive View where
  | frames (l : List Table)
  | frame (t : Table)
  | dict (d : Row)
deriving Inhabited

/-- the loop of `_compute_args`: `zip(raw_variables, raw_parameters, strict=True)` -/
def computeLoop : Content → List Table → List Pars → Except Err (List Table × Content)
  | c, [], [] => .ok ([], c)
  | c, tbl :: ts, p :: ps =>
    match withPars c p with
    | .error e => .error e
    | .ok c1 =>
      match argsTimeCourse c1 tbl with
      | .error e => .error e
      | .ok a =>
        match computeLoop c1 ts ps with
        | .error e => .error e
        | .ok (rest, c2) => .ok (a :: rest, c2)
  | _, [], _ :: _ => .error (.valueError "zip() argument 2 is longer than argument 1")
  | _, _ :: _, [] => .error (.valueError "zip() argument 2 is shorter than argument 1")

/-- `_compute_args`.  After `fix: keep raw_args empty when computing them fails` the memo
    cell is assigned only when every segment succeeded; after `fix: restore the model's
    parameters …` the loop runs inside `_keep_model_parameters()`, so the shared model is
    handed back exactly as it was found (also when the loop raises) -/
def computeArgs (res : Res) (st : St) : Except Err (List Table × St) :=
  if !st.memo.isEmpty then .ok (st.memo, st)
  else
    match computeLoop st.model res.rawVars res.rawPars with
    | .error e => .error e
    | .ok (tabs, _) => .ok (tabs, { model := st.model, memo := tabs })

/-- `_select_data`: names come from the *current* model; the cache is only needed for
    the derived-parameter / derived-variable split -/
def selectNames (c : Content) (f : Flags) : Except Err (List Name) :=
  if f.dvars || f.dpars then
    match createCache c with
    | .error e => .error e
    | .ok cache => .ok (argNames c cache f)
  else .ok (argNames c default f)

def selectData (c : Content) (f : Flags) (tabs : List Table) : Except Err (List Table) :=
  match selectNames c f with
  | .error e => .error e
  | .ok names => mapE (selectTable names) tabs

/-! ### `_normalise_split_results` (after `fix: normalise split results row-wise`) -/

inductive Norm where
  | none
  | scalar (f : Rat)
  | list (fs : List Rat)
deriving Repr, Inhabited

def scaleRow (f : Rat) (r : Rat × Row) : Rat × Row :=
  (r.1, r.2.map fun kv => (kv.1, kv.2 / f))

/-- Python gives ±inf / nan for a zero factor; those are outside `Rat`: explicit error -/
def divRow (f : Rat) (r : Rat × Row) : Except Err (Rat × Row) :=
  if f = 0 then .error (.other "non-finite") else .ok (scaleRow f r)

def divTable (f : Rat) (t : Table) : Except Err Table := mapE (divRow f) t

/-- rows of `t` divided by the entries of `fs` position by position (`fs` as long as `t`) -/
def divRows : Table → List Rat → Except Err Table
  | [], _ => .ok []
  | _ :: _, [] => .error (.valueError "cannot reshape")
  | r :: rs, f :: fs =>
    match divRow f r with
    | .error e => .error e
    | .ok r' =>
      match divRows rs fs with
      | .error e => .error e
      | .ok rs' => .ok (r' :: rs')

/-- `[(i.T / j).T for i, j in zip(results, normalise, strict=True)]` -/
def perSegment : List Table → List Rat → Except Err (List Table)
  | [], [] => .ok []
  | t :: ts, f :: fs =>
    match divTable f t with
    | .error e => .error e
    | .ok t' =>
      match perSegment ts fs with
      | .error e => .error e
      | .ok ts' => .ok (t' :: ts')
  | _, _ => .error (.valueError "zip")

/-- the per-row loop: `end = start + len(i)`, `i / reshape(normalise[start:end], (len(i), 1))`,
    `start = end` -/
def perRow : List Table → List Rat → Nat → Except Err (List Table)
  | [], _, _ => .ok []
  | t :: ts, fs, start =>
    let sl := (fs.drop start).take t.length
    if sl.length ≠ t.length then .error (.valueError "cannot reshape")
    else
      match divRows t sl with
      | .error e => .error e
      | .ok t' =>
        match perRow ts fs (start + t.length) with
        | .error e => .error e
        | .ok ts' => .ok (t' :: ts')

def normSplit (tabs : List Table) : Norm → Except Err (List Table)
  | .none => .ok tabs
  | .scalar f => mapE (divTable f) tabs
  | .list fs => if fs.length = tabs.length then perSegment tabs fs else perRow tabs fs 0

/-- `_adjust_data` -/
def adjust (tabs : List Table) (n : Norm) (concat : Bool) : Except Err View :=
  match normSplit tabs n with
  | .error e => .error e
  | .ok tabs' =>
    if concat then
      if tabs'.isEmpty then .error (.valueError "No objects to concatenate")
      else .ok (.frame tabs'.flatten)
    else .ok (.frames tabs')

/-! ### the views -/

/-- `get_args(...)` -/
def getArgsV (res : Res) (f : Flags) (n : Norm) (concat : Bool) (st : St) :
    Except Err (View × St) :=
  match computeArgs res st with
  | .error e => .error e
  | .ok (tabs, st1) =>
    match selectData st1.model f tabs with
    | .error e => .error e
    | .ok sel =>
      match adjust sel n concat with
      | .error e => .error e
      | .ok v => .ok (v, st1)

/-- `get_variables(include_derived_variables, include_readouts, include_surrogate_variables, …)` -/
def getVariablesV (res : Res) (dv ro sv : Bool) (n : Norm) (concat : Bool) (st : St) :
    Except Err (View × St) :=
  if !(dv || ro || sv) then
    match adjust res.rawVars n concat with
    | .error e => .error e
    | .ok v => .ok (v, st)
  else
    getArgsV res { vars := true, dvars := dv, svars := sv, readouts := ro } n concat st

/-- `get_fluxes(include_surrogates, …)` -/
def getFluxesV (res : Res) (sur : Bool) (n : Norm) (concat : Bool) (st : St) :
    Except Err (View × St) :=
  getArgsV res { rxns := true, sflux := sur } n concat st

/-- `pd.concat((a, b), axis=1)` of two frames with the same index -/
def hcat (a b : Table) : Table := List.zipWith (fun x y => (x.1, x.2 ++ y.2)) a b

/-- `get_combined` = `pd.concat((self.variables, self.fluxes), axis=1)` -/
def getCombinedV (res : Res) (st : St) : Except Err (View × St) :=
  match getVariablesV res true true true .none true st with
  | .error e => .error e
  | .ok (.frame a, st1) =>
    match getFluxesV res true .none true st1 with
    | .error e => .error e
    | .ok (.frame b, st2) => .ok (.frame (hcat a b), st2)
    | .ok _ => .error (.other "unreachable")
  | .ok _ => .error (.other "unreachable")

/-- `Model.get_right_hand_side_time_course(args)` (after `fix: pass time to computed
    stoichiometries in get_right_hand_side_time_course`) -/
def rhsTimeCourse (c : Content) (args : Table) : Except Err Table :=
  match createCache c with
  | .error e => .error e
  | .ok cache =>
    -- computed coefficients are evaluated on `self._data | args`
    match mapE (fun r => match rhsFromArgs cache (omKeys c.vars) ((("time", r.1) :: r.2) ++ c.data) with
        | .error e => .error e
        | .ok d => .ok (r.1, d)) args with
    | .error e => .error e
    | .ok rows => .ok (byTime rows)

def rhsLoop : Content → List Table → List Pars → Except Err (List Table × Content)
  | c, [], [] => .ok ([], c)
  | c, a :: as, p :: ps =>
    match withPars c p with
    | .error e => .error e
    | .ok c1 =>
      match rhsTimeCourse c1 a with
      | .error e => .error e
      | .ok d =>
        match rhsLoop c1 as ps with
        | .error e => .error e
        | .ok (rest, c2) => .ok (d :: rest, c2)
  | _, _, _ => .error (.valueError "zip")

/-- `get_right_hand_side(normalise, concatenated)`; the per-segment loop runs inside
    `_keep_model_parameters()` -/
def getRhsV (res : Res) (n : Norm) (concat : Bool) (st : St) : Except Err (View × St) :=
  match computeArgs res st with
  | .error e => .error e
  | .ok (tabs, st1) =>
    match rhsLoop st1.model tabs res.rawPars with
    | .error e => .error e
    | .ok (ds, _) =>
      match adjust ds n concat with
      | .error e => .error e
      | .ok v => .ok (v, st1)

/-- `for rxn, derived in dyn.items(): stoich[rxn] = derived.fn(*args)` -/
def overlayVar (dep : Env) : List (Name × Fn) → List (Name × Rat) → Except Err (List (Name × Rat))
  | [], st => .ok st
  | (rxn, f) :: rest, st =>
    match f.calc dep with
    | .error e => .error e
    | .ok x => overlayVar dep rest (omInsert st rxn x)

/-- `Model.get_stoichiometries_of_variable(variable, variables, time)` -/
def stoichOfVarAt (c : Content) (v : Name) (vars : Option Row) (t : Rat) :
    Except Err (List (Name × Rat)) :=
  match createCache c with
  | .error e => .error e
  | .ok cache =>
    match getArgsEnv c cache (resolveVars cache vars) t with
    | .error e => .error e
    | .ok dep =>
      match cache.stoich.lookup v with
      | none => .error (.keyError v)
      | some st => overlayVar dep ((cache.dynStoich.lookup v).getD []) st

/-- … with the defaults `variables=None, time=0.0` (the model's initial conditions), as
    `get_producers` / `get_consumers` call it -/
def stoichOfVar (c : Content) (v : Name) : Except Err (List (Name × Rat)) :=
  stoichOfVarAt c v none 0

/-- `for k in names: v.loc[:, k] *= sgn * stoichs[k]` -/
def scaleTable (stoichs : List (Name × Rat)) (names : List Name) (sgn : Rat) (t : Table) :
    Except Err Table :=
  match mapE (fun k => match stoichs.lookup k with
      | none => .error (.keyError k)
      | some x => .ok (k, sgn * x)) names with
  | .error e => .error e
  | .ok coefs =>
    .ok (t.map fun r => (r.1, r.2.map fun kv =>
      match coefs.lookup kv.1 with
      | some x => (kv.1, kv.2 * x)
      | none => kv))

/-- `zip(strict=True)` + map over two lists -/
def zipE {α β γ} (f : α → β → Except Err γ) : List α → List β → Except Err (List γ)
  | [], [] => .ok []
  | a :: as, b :: bs =>
    match f a b with
    | .error e => .error e
    | .ok c =>
      match zipE f as bs with
      | .error e => .error e
      | .ok cs => .ok (c :: cs)
  | _, _ => .error (.valueError "zip")

/-- compute something from the second entry, then combine it with the first -/
def bindRow {α β γ δ} (g : β → Except Err γ) (h : α → γ → Except Err δ) (r : α) (s : β) : Except Err δ :=
  match g s with
  | .error e => .error e
  | .ok st => h r st

/-- one row of `v.loc[:, k] *= [sgn * c[k] for c in coefs]` over the selected names: the flux row times that row's
    own coefficients -/
def scaleRowWith (names : List Name) (sgn : Rat) (r : Rat × Row) (st : List (Name × Rat)) :
    Except Err (Rat × Row) :=
  match scaleTable st names sgn [r] with
  | .error e => .error e
  | .ok [r'] => .ok r'
  | .ok _ => .error (.other "unreachable")

/-- one segment of the scaled branch, after `update_parameters(p)`: FIRST the coefficients at every RAW row's own state
    and time (`[get_stoichiometries_of_variable(variable, variables=row, time=t) for t, row in res.iterrows()]`),
    THEN `for k in names: v.loc[:, k] *= [...]` — with no name selected nothing is assigned (and no length is
    compared), otherwise a column of another length than the frame is pandas' ValueError -/
def scaleSegRows (c1 : Content) (v : Name) (names : List Name) (sgn : Rat) (fl raw : Table) :
    Except Err Table :=
  match mapE (fun (s : Rat × Row) => stoichOfVarAt c1 v (some s.2) s.1) raw with
  | .error e => .error e
  | .ok sts => if names.isEmpty then .ok fl else zipE (scaleRowWith names sgn) fl sts

/-- the scaled branch: `for v, res, p in zip(fluxes, self.raw_variables, self.raw_parameters, strict=True)`:
    `update_parameters(p)` on the shared model (threaded from segment to segment), then `scaleSegRows` -/
def scaleLoop (v : Name) (names : List Name) (sgn : Rat) :
    Content → List Table → List Table → List Pars → Except Err (List Table × Content)
  | c, [], [], [] => .ok ([], c)
  | c, t :: ts, raw :: raws, p :: ps =>
    match withPars c p with
    | .error e => .error e
    | .ok c1 =>
      match scaleSegRows c1 v names sgn t raw with
      | .error e => .error e
      | .ok t' =>
        match scaleLoop v names sgn c1 ts raws ps with
        | .error e => .error e
        | .ok (rest, c2) => .ok (t' :: rest, c2)
  | _, _, _, _ => .error (.valueError "zip")

/-- names picked by `get_producers` (`prod = true`: `v > 0`) / `get_consumers` (`v < 0`) -/
def pickNames (prod : Bool) (st : List (Name × Rat)) : List Name :=
  (st.filter fun kv => if prod then kv.2 > 0 else kv.2 < 0).map (·.1)

/-- `get_producers` / `get_consumers`; everything that touches the model runs inside
    `_keep_model_parameters()`, so the state handed back holds the model as it was found -/
def getProdConsV (res : Res) (prod : Bool) (v : Name) (scaled : Bool) (n : Norm)
    (concat : Bool) (st : St) : Except Err (View × St) :=
  match res.rawPars with
  | [] => .error (.other "IndexError")
  | p0 :: _ =>
    match withPars st.model p0 with
    | .error e => .error e
    | .ok c0 =>
      match stoichOfVar c0 v with
      | .error e => .error e
      | .ok s0 =>
        let names := pickNames prod s0
        match getFluxesV res true n false { st with model := c0 } with
        | .error e => .error e
        | .ok (.frames tabs, st1) =>
          match mapE (selectTable names) tabs with
          | .error e => .error e
          | .ok sel =>
            match (if scaled then scaleLoop v names (if prod then 1 else -1) st1.model sel res.rawVars res.rawPars
                   else .ok (sel, st1.model)) with
            | .error e => .error e
            | .ok (out, _) =>
              if concat then
                if out.isEmpty then .error (.valueError "No objects to concatenate")
                else .ok (.frame out.flatten, { st1 with model := st.model })
              else .ok (.frames out, { st1 with model := st.model })
        | .ok _ => .error (.other "unreachable")

/-- `get_new_y0` = `dict(get_variables(False, False, False).iloc[-1])` -/
def getNewY0V (res : Res) (st : St) : Except Err (View × St) :=
  match getVariablesV res false false false .none true st with
  | .error e => .error e
  | .ok (.frame t, st1) =>
    match t.getLast? with
    | none => .error (.other "IndexError")
    | some r => .ok (.dict r.2, st1)
  | .ok _ => .error (.other "unreachable")

/-! ### read histories -/

inductive Query where
  | args (f : Flags) (n : Norm) (concat : Bool)
  | vars (dv ro sv : Bool) (n : Norm) (concat : Bool)
  | fluxes (sur : Bool) (n : Norm) (concat : Bool)
  | variablesProp
  | fluxesProp
  | combined
  | rhs (n : Norm) (concat : Bool)
  | prodCons (prod : Bool) (v : Name) (scaled : Bool) (n : Norm) (concat : Bool)
  | newY0
deriving Inhabited

def read (res : Res) : Query → St → Except Err (View × St)
  | .args f n cc => getArgsV res f n cc
  | .vars dv ro sv n cc => getVariablesV res dv ro sv n cc
  | .fluxes sur n cc => getFluxesV res sur n cc
  | .variablesProp => getVariablesV res true true true .none true
  | .fluxesProp => getFluxesV res true .none true
  | .combined => getCombinedV res
  | .rhs n cc => getRhsV res n cc
  | .prodCons prod v sc n cc => getProdConsV res prod v sc n cc
  | .newY0 => getNewY0V res

/-- an event in the life of a result object: a read, or somebody changing parameter
    values on the shared model (`model.update_parameters(p)`) -/
inductive Event where
  | read (q : Query)
  | setPars (p : Pars)
  | modelPars   -- the owner of the model looks at it: `model.get_parameter_values()`
deriving Inhabited

/-- runs a history; a failing event leaves the state as it was before it (the memo cell is
    only assigned on success, and `_keep_model_parameters()` restores the model in its
    `finally`) and the history goes on -/
def runHistory (res : Res) : List Event → St → List (Except Err View)
  | [], _ => []
  | .read q :: rest, st =>
    match read res q st with
    | .error e => .error e :: runHistory res rest st
    | .ok (v, st') => .ok v :: runHistory res rest st'
  | .setPars p :: rest, st =>
    match withPars st.model p with
    | .error e => .error e :: runHistory res rest st
    | .ok c => .ok (.dict []) :: runHistory res rest { st with model := c }
  | .modelPars :: rest, st =>
    (match getParameterValues st.model with
     | .error e => .error e
     | .ok ps => .ok (.dict ps)) :: runHistory res rest st

end Mxl.C10
