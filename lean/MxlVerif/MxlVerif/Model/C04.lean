/-
C04 — continued simulation.  Impl-faithful executable model of the bookkeeping in
`Simulator` (simulator.py) and `Scipy` (integrators/int_scipy.py), plus an
absolute-time specification machine `Spec` that knows nothing about the integrator's
restart point, the time shift, "prepend t0" or `skipfirst`.

The ODE solver is a parameter: `Sys.flow p dt y` is "the state reached from `y` after `dt`
under parameters `p`".  Nothing is assumed about it here; theorems that need it take an
explicit `IsFlow` hypothesis.  The driver instantiates the state type with symbolic
terms (`STerm`), the harness evaluates them with the closed form.

Line references are to src/mxlpy/simulator.py (S:) and src/mxlpy/integrators/int_scipy.py (I:)
of the checkout the check runs against (after the `fix:` commits of F-C04-1 / F-C04-3 / F-C04-2).

The comparison operators, `skipfirst` flags, statement orders and defaults that the Python text fixes are not
written here: they are read from the current source by translate/c04.py (`Gen.*`, Generated/C04Facts.lean),
so this model follows the code when one of them is edited; Lemmas/C04.lean states the values the proofs need.
-/
import MxlVerif.Core.Basic
import MxlVerif.Generated.C04Facts
namespace Mxl.C04

/-- exception classes observable at the API -/
inductive Exc where
  | valueError | indexError | keyError | typeError
deriving DecidableEq, Repr, Inhabited

abbrev Pars := List (Name × Rat)
abbrev Upd := List (Name × Rat)

/-- the external world: the exact flow of the model's ODE and the dict override `row | variables` -/
structure Sys (σ : Type) where
  flow : Pars → Rat → σ → σ
  ov : Upd → σ → σ

structure IsFlow {σ : Type} (S : Sys σ) : Prop where
  zero : ∀ p y, S.flow p 0 y = y
  add : ∀ p a b y, 0 ≤ a → 0 ≤ b → S.flow p (a + b) y = S.flow p b (S.flow p a y)

/-- one entry of `Simulator.variables` / `simulation_parameters` -/
structure Seg (σ : Type) where
  rows : List (Rat × σ)
  pars : Pars

/-- `Scipy.t0`, `Scipy.y0`, `Scipy._y0_orig` -/
structure Integ (σ : Type) where
  t0 : Rat
  y0 : σ
  y0orig : σ

structure Sim (σ : Type) where
  pars : Pars                      -- model.get_parameter_values()
  y0 : σ                           -- Simulator.y0
  shift : Option Rat               -- Simulator._time_shift
  segs : Option (List (Seg σ))     -- Simulator.variables zipped with simulation_parameters
  integ : Integ σ
  errors : Nat                     -- len(Simulator._errors)

abbrev Out (α : Type) := α × Option Exc

/-! ### numpy / scipy pieces -/

/-- `np.linspace(a, b, n)`: `arange(n) * ((b - a) / (n - 1)) + a` (for `n = 1` numpy yields `[a]`;
    in `Rat`, `x / 0 = 0` gives the same list) -/
def linspace (a b : Rat) (n : Nat) : List Rat :=
  (List.range n).map fun (i : Nat) => a + (i : Rat) * ((b - a) / ((n : Rat) - 1))

/-- all adjacent differences `> 0` -/
def strictInc : List Rat → Bool
  | [] => true
  | [_] => true
  | a :: b :: rest => a < b && strictInc (b :: rest)

def strictDec : List Rat → Bool
  | [] => true
  | [_] => true
  | a :: b :: rest => b < a && strictDec (b :: rest)

def lastD (l : List Rat) (d : Rat) : Rat := l.getLast?.getD d

/-- `scipy.integrate.solve_ivp(fun, (pts[0], pts[-1]), y0, t_eval=pts)`: the validation of
    `t_eval` (within span, sorted in the direction of integration), then the exact flow at
    every point.  With `pts[-1] == pts[0]` the solver finishes before emitting a point
    and `t[-1]` (I:125) raises IndexError. -/
def solveIvp {σ} (S : Sys σ) (p : Pars) (y0 : σ) (pts : List Rat) : Except Exc (List (Rat × σ)) :=
  match pts with
  | [] => .error .indexError
  | t0 :: _ =>
    let tf := lastD pts t0
    let lo := if t0 ≤ tf then t0 else tf
    let hi := if t0 ≤ tf then tf else t0
    if pts.any (· < lo) || pts.any (hi < ·) then .error .valueError
    else if (t0 < tf && !strictInc pts) || (tf < t0 && !strictDec pts) then .error .valueError
    else if tf == t0 then .error .indexError
    else .ok (pts.map fun t => (t, S.flow p (t - t0) y0))

/-- `Scipy.integrate_time_course` (I:93-128): prepend `t0` if different, integrate, advance -/
def integrateTimeCourse {σ} (S : Sys σ) (p : Pars) (ig : Integ σ) (pts : List Rat) :
    Except Exc (Integ σ × List (Rat × σ)) :=
  match pts with
  | [] => .error .indexError                                  -- time_points[0]
  | h :: _ =>
    let pts' := if Gen.prependCmp.eval h ig.t0 then ig.t0 :: pts else pts
    match solveIvp S p ig.y0 pts' with
    | .error e => .error e
    | .ok rows =>
      match rows.getLast? with
      | none => .error .indexError
      | some r => .ok ({ ig with t0 := r.1, y0 := r.2 }, rows)

/-- number of returned points of `Scipy.integrate` (I:87): `steps = 100 if steps is None else steps + 1` -/
def nPoints : Option Nat → Nat
  | none => Gen.defaultPoints
  | some k => k + Gen.stepsPlus

/-- `Scipy.integrate` (I:69-91): `integrate_time_course(np.linspace(self.t0, t_end, steps))` -/
def integrate {σ} (S : Sys σ) (p : Pars) (ig : Integ σ) (tEnd : Rat) (steps : Option Nat) :
    Except Exc (Integ σ × List (Rat × σ)) :=
  integrateTimeCourse S p ig (linspace ig.t0 tEnd (nPoints steps))

/-- `Scipy.reset` (I:64-67) -/
def Integ.reset {σ} (ig : Integ σ) : Integ σ := { ig with t0 := 0, y0 := ig.y0orig }

/-- the loop `for _ in range(max_steps)` (I:161): convergence at iteration `k` (0-based) is seen only when
    `k < max_steps`; otherwise the loop runs out and `NoSteadyState` is returned -/
def steadyIter : Option Nat → Option Nat
  | some k => if k < Gen.maxSteps then some k else none
  | none => none

/-- the time the loop has advanced by when it stops in iteration `k`: `step_size * (k + 1)` -/
def steadyDur (k : Nat) : Rat := (Gen.stepSize : Rat) * ((k : Rat) + 1)

/-- `Scipy.integrate_to_steady_state` (I:130-…): a separate `ode` object started from `y0` (at `t0`), stepped in
    units of `step_size` until two consecutive states are close (`res` = the iteration at which that happened, an
    input of the model); on success the integrator is advanced to the reported time and state.  Returns the
    integrator afterwards and the reported row (`none` = `NoSteadyState`). -/
def integrateToSteadyState {σ} (S : Sys σ) (p : Pars) (ig : Integ σ) (res : Option Nat) :
    Integ σ × Option (Rat × σ) :=
  let ig0 := if Gen.steadyResets then ig.reset else ig
  match steadyIter res with
  | none => (ig0, none)
  | some k =>
    let t := ig0.t0 + steadyDur k
    -- `set_initial_value(y0)` without a time starts the ode object's clock at 0
    let dur := if Gen.steadyStartsAtT0 then t - ig0.t0 else t
    let y := S.flow p dur ig0.y0
    (if Gen.steadyAdvances then { ig0 with t0 := t, y0 := y } else ig0, some (t, y))

/-! ### Simulator -/

def Sim.init {σ} (p : Pars) (y0 : σ) : Sim σ :=
  { pars := p, y0 := y0, shift := none, segs := none, integ := ⟨0, y0, y0⟩, errors := 0 }

/-- `variables[-1].iloc[-1]` with its index; IndexError on an empty frame -/
def lastRow? {σ} (l : List (Seg σ)) : Except Exc (Rat × σ) :=
  match l.getLast? with
  | none => .error .indexError
  | some seg =>
    match seg.rows.getLast? with
    | none => .error .indexError
    | some r => .ok r

/-- `0.0 if variables is None else variables[-1].index[-1]` -/
def reached? {σ} (segs : Option (List (Seg σ))) : Except Exc Rat :=
  match segs with
  | none => .ok 0
  | some l => match lastRow? l with
    | .error e => .error e
    | .ok r => .ok r.1

def shiftRows {σ} (sh : Option Rat) (rows : List (Rat × σ)) : List (Rat × σ) :=
  match sh with
  | none => rows
  | some d => rows.map fun r => (r.1 + d, r.2)

/-- `variables` / `simulation_parameters` bookkeeping of `_handle_simulation_results` -/
def appendSeg {σ} (segs : Option (List (Seg σ))) (rows : List (Rat × σ)) (p : Pars)
    (skipfirst : Bool) : List (Seg σ) :=
  match segs with
  | none => [⟨rows, p⟩]
  | some l => l ++ [⟨if skipfirst then rows.tail else rows, p⟩]

/-- `_handle_simulation_results` (S:245-283), success branch -/
def handle {σ} (s : Sim σ) (rows : List (Rat × σ)) (skipfirst : Bool) : Sim σ :=
  { s with segs := some (appendSeg s.segs (shiftRows s.shift rows) s.pars skipfirst) }

def unshift (sh : Option Rat) (t : Rat) : Rat :=
  match sh with
  | none => t
  | some d => t - d

/-- `Simulator.simulate` (S:304-343) -/
def simulate {σ} (S : Sys σ) (s : Sim σ) (tEnd : Rat) (steps : Option Nat) : Out (Sim σ) :=
  if s.errors > 0 then (s, none) else
  match reached? s.segs with
  | .error e => (s, some e)
  | .ok prior =>
    let tRel := unshift s.shift tEnd
    -- the refusal test sees the absolute end iff it stands before `t_end -= self._time_shift`
    let tCmp := if Gen.simulateChecksBeforeShift then tEnd else tRel
    if Gen.simulateRefusal.eval tCmp prior then (s, some .valueError) else
    match integrate S s.pars s.integ tRel steps with
    | .error e => (s, some e)
    | .ok (ig, rows) => (handle { s with integ := ig } rows Gen.simulateSkipfirst, none)

/-- `Simulator.simulate_time_course` (S:345-390) -/
def timeCourse {σ} (S : Sys σ) (s : Sim σ) (pts : List Rat) : Out (Sim σ) :=
  if s.errors > 0 then (s, none) else
  match reached? s.segs with
  | .error e => (s, some e)
  | .ok prior =>
    match pts.getLast? with
    | none => (s, some .indexError)
    | some last =>
      -- what the two tests compare with `prior_t_end`: the points as given iff the tests stand before
      -- `time_points -= self._time_shift`
      let seen := fun t => if Gen.timeCourseChecksBeforeShift then t else unshift s.shift t
      if Gen.timeCourseRefusal.eval (seen last) prior then (s, some .valueError) else
      let kept := pts.filter (fun t => Gen.timeCourseKeep.eval (seen t) prior)
      match integrateTimeCourse S s.pars s.integ (kept.map (unshift s.shift)) with
      | .error e => (s, some e)
      | .ok (ig, rows) => (handle { s with integ := ig } rows Gen.timeCourseSkipfirst, none)

/-- `Simulator.simulate_to_steady_state` (S:499-533) over `Scipy.integrate_to_steady_state`.  `res` is the
    solver's answer: the loop iteration at which it declared a steady state, or `none` for `NoSteadyState`. -/
def steady {σ} (S : Sys σ) (s : Sim σ) (res : Option Nat) : Out (Sim σ) :=
  if s.errors > 0 then (s, none) else
  match integrateToSteadyState S s.pars s.integ res with
  | (ig, none) => ({ s with integ := ig, errors := s.errors + 1 }, none)
  | (ig, some row) => (handle { s with integ := ig } [row] Gen.steadySkipfirst, none)

/-! #### the same two calls when the solver FAILS: `solve_ivp` returns `res.success == False`, so
`Scipy.integrate_time_course` returns `Result(IntegrationFailure())` WITHOUT advancing `t0` / `y0`, and
`_handle_simulation_results` (`case _ as e`) appends it to `_errors`.  Everything that raises before the integration
(the refusal test, `solve_ivp`'s own validation of `t_eval`, empty arrays) raises all the same; a zero-length span cannot
fail (nothing is integrated), it still ends in the IndexError of `t[-1]`. -/

/-- `Simulator.simulate` with a failing solver -/
def simulateF {σ} (S : Sys σ) (s : Sim σ) (tEnd : Rat) (steps : Option Nat) : Out (Sim σ) :=
  if s.errors > 0 then (s, none) else
  match reached? s.segs with
  | .error e => (s, some e)
  | .ok prior =>
    let tRel := unshift s.shift tEnd
    let tCmp := if Gen.simulateChecksBeforeShift then tEnd else tRel
    if Gen.simulateRefusal.eval tCmp prior then (s, some .valueError) else
    match integrate S s.pars s.integ tRel steps with
    | .error e => (s, some e)
    | .ok _ => ({ s with errors := s.errors + 1 }, none)

/-- `Simulator.simulate_time_course` with a failing solver -/
def timeCourseF {σ} (S : Sys σ) (s : Sim σ) (pts : List Rat) : Out (Sim σ) :=
  if s.errors > 0 then (s, none) else
  match reached? s.segs with
  | .error e => (s, some e)
  | .ok prior =>
    match pts.getLast? with
    | none => (s, some .indexError)
    | some last =>
      let seen := fun t => if Gen.timeCourseChecksBeforeShift then t else unshift s.shift t
      if Gen.timeCourseRefusal.eval (seen last) prior then (s, some .valueError) else
      let kept := pts.filter (fun t => Gen.timeCourseKeep.eval (seen t) prior)
      match integrateTimeCourse S s.pars s.integ (kept.map (unshift s.shift)) with
      | .error e => (s, some e)
      | .ok _ => ({ s with errors := s.errors + 1 }, none)

/-- `d[k] = v` for an existing key; `none` when `k` is not a parameter -/
def parsSet : Pars → Name → Rat → Option Pars
  | [], _, _ => none
  | (k', v') :: rest, k, v =>
    if k' == k then some ((k', v) :: rest)
    else match parsSet rest k v with
      | none => none
      | some r => some ((k', v') :: r)

/-- applying the updates in order; `none` at the first unknown name -/
def parsUpdateGo : Pars → Upd → Option Pars
  | p, [] => some p
  | p, (k, v) :: rest =>
    match parsSet p k v with
    | none => none
    | some p' => parsUpdateGo p' rest

/-- `Model.update_parameters`: every name is checked before the first value is written (since the repair of
    F-C03-10): KeyError for an unknown name leaves the parameters as they were -/
def parsUpdate (p : Pars) (kvs : Upd) : Out Pars :=
  match parsUpdateGo p kvs with
  | some p' => (p', none)
  | none => (p, some .keyError)

def updPars {σ} (s : Sim σ) (kvs : Upd) : Out (Sim σ) :=
  let r := parsUpdate s.pars kvs
  ({ s with pars := r.1 }, r.2)

/-- `{k: self._scaled_value(k, v) for k, v in parameters.items()}` (model.py): every new value `old * factor` is
    computed from the parameters as they are; `none` = `self._parameters[name]` raises KeyError for an unknown name -/
def scaledValues (p : Pars) : Upd → Option Upd
  | [] => some []
  | (k, f) :: rest =>
    match p.lookup k with
    | none => none
    | some v => match scaledValues p rest with
      | none => none
      | some r => some ((k, v * f) :: r)

/-- `Model.scale_parameters` = `update_parameters` of the scaled values; `Model.scale_parameter` is the one-pair case -/
def parsScale (p : Pars) (kvs : Upd) : Out Pars :=
  match scaledValues p kvs with
  | none => (p, some .keyError)
  | some u => parsUpdate p u

/-- `Simulator.scale_parameter(s)` -/
def scalePars {σ} (s : Sim σ) (kvs : Upd) : Out (Sim σ) :=
  let r := parsScale s.pars kvs
  ({ s with pars := r.1 }, r.2)

/-- `Simulator._initialise_integrator` -/
def reinit {σ} (y0 : σ) : Integ σ := ⟨0, y0, y0⟩

/-- `Simulator.update_variables` (S:218-…): before the first simulation override `y0`; afterwards
    restart the integrator from the last state with the overrides applied and remember the
    absolute time.  (After the fix of F-C04-3 a second override at the same time point builds
    on the first.) -/
def updVars {σ} (S : Sys σ) (s : Sim σ) (ov : Upd) : Out (Sim σ) :=
  match s.segs with
  | none =>
    let y0 := S.ov ov s.y0
    ({ s with y0 := y0, integ := reinit y0 }, none)
  | some l =>
    match lastRow? l with
    | .error e => (s, some e)
    | .ok r =>
      let base := if Gen.updVarsKeepsAtSameTime && s.shift == some r.1 then s.y0 else r.2
      let y0 := S.ov ov base
      ({ s with y0 := y0, shift := some r.1, integ := reinit y0 }, none)

/-- `Simulator.clear_results` -/
def clear {σ} (s : Sim σ) : Sim σ :=
  { s with segs := none, shift := if Gen.clearResetsShift then none else s.shift,
           errors := if Gen.clearResetsErrors then 0 else s.errors, integ := reinit s.y0 }

/-- the index of `get_result().variables` (the frames concatenated) -/
def times {σ} (segs : Option (List (Seg σ))) : List Rat :=
  (segs.getD []).flatMap fun s => s.rows.map (·.1)

/-- all recorded rows, concatenated -/
def allRows {σ} (segs : Option (List (Seg σ))) : List (Rat × σ) :=
  (segs.getD []).flatMap (·.rows)

inductive Op where
  | simulate (tEnd : Rat) (steps : Option Nat)
  | timeCourse (pts : List Rat)
  | steady (res : Option Nat)
  | updPars (kvs : Upd)
  | updVars (ov : Upd)
  | clear
  | simulateF (tEnd : Rat) (steps : Option Nat)     -- `simulate`, the solver reports failure
  | timeCourseF (pts : List Rat)                    -- `simulate_time_course`, the solver reports failure
  | scalePars (kvs : Upd)                           -- `scale_parameter(s)`
deriving Repr, DecidableEq

def step {σ} (S : Sys σ) (s : Sim σ) : Op → Out (Sim σ)
  | .simulate t n => simulate S s t n
  | .timeCourse pts => timeCourse S s pts
  | .steady r => steady S s r
  | .updPars kvs => updPars s kvs
  | .updVars ov => updVars S s ov
  | .clear => (clear s, none)
  | .simulateF t n => simulateF S s t n
  | .timeCourseF pts => timeCourseF S s pts
  | .scalePars kvs => scalePars s kvs

/-- a history: every op is attempted, exceptions are recorded and the state at the raise kept -/
def run {σ} (S : Sys σ) (s : Sim σ) : List Op → Sim σ × List (Option Exc)
  | [] => (s, [])
  | op :: rest =>
    let r := step S s op
    let rr := run S r.1 rest
    (rr.1, r.2 :: rr.2)

/-- stop at the first exception (a Python method body) -/
def runStop {σ} (S : Sys σ) (s : Sim σ) : List Op → Out (Sim σ)
  | [] => (s, none)
  | op :: rest =>
    match step S s op with
    | (s', none) => runStop S s' rest
    | (s', some e) => (s', some e)

/-! ### Specification machine: absolute time only -/

structure Spec (σ : Type) where
  pars : Pars
  y0 : σ                           -- state a cleared simulator restarts from
  now : Rat                        -- time reached
  cur : σ                          -- state at `now`, overrides applied
  segs : Option (List (Seg σ))
  failed : Bool

namespace Spec

def init {σ} (p : Pars) (y0 : σ) : Spec σ :=
  { pars := p, y0 := y0, now := 0, cur := y0, segs := none, failed := false }

/-- the trajectory from (`now`, `cur`) sampled on `grid` -/
def sample {σ} (S : Sys σ) (a : Spec σ) (grid : List Rat) : List (Rat × σ) :=
  grid.map fun t => (t, S.flow a.pars (t - a.now) a.cur)

/-- record a sampled stretch that starts with the row at `now` (kept only in the very first segment) -/
def record {σ} (S : Sys σ) (a : Spec σ) (grid : List Rat) (tEnd : Rat) : Spec σ :=
  { a with segs := some (appendSeg a.segs (sample S a grid) a.pars true),
           now := tEnd, cur := S.flow a.pars (tEnd - a.now) a.cur }

def simulate {σ} (S : Sys σ) (a : Spec σ) (tEnd : Rat) (steps : Option Nat) : Out (Spec σ) :=
  if a.failed then (a, none) else
  if tEnd ≤ a.now then (a, some .valueError) else
  if nPoints steps < 2 then (a, some .indexError) else
  (record S a (linspace a.now tEnd (nPoints steps)) tEnd, none)

def timeCourse {σ} (S : Sys σ) (a : Spec σ) (pts : List Rat) : Out (Spec σ) :=
  if a.failed then (a, none) else
  match pts.getLast? with
  | none => (a, some .indexError)
  | some last =>
    if last ≤ a.now then (a, some .valueError) else
    let kept := pts.filter (a.now ≤ ·)
    let grid := if kept.head? == some a.now then kept else a.now :: kept
    if !strictInc grid then (a, some .valueError) else
    (record S a grid last, none)

/-- a steady-state run continues from (`now`, `cur`) for as long as the solver's loop ran -/
def steady {σ} (S : Sys σ) (a : Spec σ) (res : Option Nat) : Out (Spec σ) :=
  if a.failed then (a, none) else
  match steadyIter res with
  | none => ({ a with failed := true }, none)
  | some k =>
    let d := steadyDur k
    let y := S.flow a.pars d a.cur
    ({ a with segs := some (appendSeg a.segs [(a.now + d, y)] a.pars false),
              now := a.now + d, cur := y }, none)

/-- a failing solver: the call is checked like any other, then the simulator is failed and nothing is recorded -/
def simulateF {σ} (_S : Sys σ) (a : Spec σ) (tEnd : Rat) (steps : Option Nat) : Out (Spec σ) :=
  if a.failed then (a, none) else
  if tEnd ≤ a.now then (a, some .valueError) else
  if nPoints steps < 2 then (a, some .indexError) else
  ({ a with failed := true }, none)

def timeCourseF {σ} (_S : Sys σ) (a : Spec σ) (pts : List Rat) : Out (Spec σ) :=
  if a.failed then (a, none) else
  match pts.getLast? with
  | none => (a, some .indexError)
  | some last =>
    if last ≤ a.now then (a, some .valueError) else
    let kept := pts.filter (a.now ≤ ·)
    let grid := if kept.head? == some a.now then kept else a.now :: kept
    if !strictInc grid then (a, some .valueError) else
    ({ a with failed := true }, none)

def updPars {σ} (a : Spec σ) (kvs : Upd) : Out (Spec σ) :=
  let r := parsUpdate a.pars kvs
  ({ a with pars := r.1 }, r.2)

def scalePars {σ} (a : Spec σ) (kvs : Upd) : Out (Spec σ) :=
  let r := parsScale a.pars kvs
  ({ a with pars := r.1 }, r.2)

def updVars {σ} (S : Sys σ) (a : Spec σ) (ov : Upd) : Out (Spec σ) :=
  let y := S.ov ov a.cur
  ({ a with cur := y, y0 := y }, none)

def clear {σ} (a : Spec σ) : Spec σ :=
  { a with segs := none, now := 0, cur := a.y0, failed := false }

def step {σ} (S : Sys σ) (a : Spec σ) : Op → Out (Spec σ)
  | .simulate t n => simulate S a t n
  | .timeCourse pts => timeCourse S a pts
  | .steady r => steady S a r
  | .updPars kvs => updPars a kvs
  | .updVars ov => updVars S a ov
  | .clear => (clear a, none)
  | .simulateF t n => simulateF S a t n
  | .timeCourseF pts => timeCourseF S a pts
  | .scalePars kvs => scalePars a kvs

def run {σ} (S : Sys σ) (a : Spec σ) : List Op → Spec σ × List (Option Exc)
  | [] => (a, [])
  | op :: rest =>
    let r := step S a op
    let rr := run S r.1 rest
    (rr.1, r.2 :: rr.2)

def runStop {σ} (S : Sys σ) (a : Spec σ) : List Op → Out (Spec σ)
  | [] => (a, none)
  | op :: rest =>
    match step S a op with
    | (a', none) => runStop S a' rest
    | (a', some e) => (a', some e)

end Spec

/-! ### symbolic states for the driver -/

inductive STerm where
  | init
  | flow (p : Pars) (dt : Rat) (y : STerm)
  | ov (kvs : Upd) (y : STerm)
deriving Repr, DecidableEq

def termSys : Sys STerm := { flow := STerm.flow, ov := STerm.ov }

end Mxl.C04
