/-
C04 — continued simulation.  Impl-faithful executable model of the bookkeeping in
`Simulator` (simulator.py) and `Scipy` (integrators/int_scipy.py), plus an
absolute-time specification machine `Spec` that knows nothing about the integrator's
restart point, the time shift, "prepend t0" or `skipfirst`.

The ODE solver is a parameter: `Sys.flow p dt y` is "the state reached from `y` after `dt`
under parameters `p`".  Nothing is assumed about it here; theorems that need it take an
explicit `IsFlow` hypothesis.  The driver instantiates the state type with symbolic
terms (`STerm`), the harness evaluates them with the closed form.

Line references are to src/mxlpy/simulator.py (S:) and src/mxlpy/integrators/int_scipy.py (I:)
of the checkout the check runs against (after the two `fix:` commits of F-C04-1 / F-C04-3).
-/
import MxlVerif.Core.Basic
namespace Mxl.C04

/-- exception classes observable at the API -/
inductive Exc where
  | valueError | indexError | keyError
deriving DecidableEq, Repr, Inhabited

abbrev Pars := List (Name × Rat)
abbrev Upd := List (Name × Rat)

/-- the external world: the exact flow of the model's ODE and the dict override `row | variables` -/
structure Sys (σ : Type) where
  flow : Pars → Rat → σ → σ
  ov : Upd → σ → σ

structure IsFlow {σ : Type} (S : Sys σ) : Prop where
  zero : ∀ p y, S.flow p 0 y = y
  add : ∀ p a b y, 0 ≤ a → 0 ≤ b → S.flow p (a + b) y = S.flow p b (S.flow p a y)

/-- one entry of `Simulator.variables` / `simulation_parameters` -/
structure Seg (σ : Type) where
  rows : List (Rat × σ)
  pars : Pars

/-- `Scipy.t0`, `Scipy.y0`, `Scipy._y0_orig` -/
structure Integ (σ : Type) where
  t0 : Rat
  y0 : σ
  y0orig : σ

structure Sim (σ : Type) where
  pars : Pars                      -- model.get_parameter_values()
  y0 : σ                           -- Simulator.y0
  shift : Option Rat               -- Simulator._time_shift
  segs : Option (List (Seg σ))     -- Simulator.variables zipped with simulation_parameters
  integ : Integ σ
  errors : Nat                     -- len(Simulator._errors)

abbrev Out (α : Type) := α × Option Exc

/-! ### numpy / scipy pieces -/

/-- `np.linspace(a, b, n)`: `arange(n) * ((b - a) / (n - 1)) + a` (for `n = 1` numpy yields `[a]`;
    in `Rat`, `x / 0 = 0` gives the same list) -/
def linspace (a b : Rat) (n : Nat) : List Rat :=
  (List.range n).map fun (i : Nat) => a + (i : Rat) * ((b - a) / ((n : Rat) - 1))

/-- all adjacent differences `> 0` -/
def strictInc : List Rat → Bool
  | [] => true
  | [_] => true
  | a :: b :: rest => a < b && strictInc (b :: rest)

def strictDec : List Rat → Bool
  | [] => true
  | [_] => true
  | a :: b :: rest => b < a && strictDec (b :: rest)

def lastD (l : List Rat) (d : Rat) : Rat := l.getLast?.getD d

/-- `scipy.integrate.solve_ivp(fun, (pts[0], pts[-1]), y0, t_eval=pts)`: the validation of
    `t_eval` (within span, sorted in the direction of integration), then the exact flow at
    every point.  With `pts[-1] == pts[0]` the solver finishes before emitting a point
    and `t[-1]` (I:125) raises IndexError. -/
def solveIvp {σ} (S : Sys σ) (p : Pars) (y0 : σ) (pts : List Rat) : Except Exc (List (Rat × σ)) :=
  match pts with
  | [] => .error .indexError
  | t0 :: _ =>
    let tf := lastD pts t0
    let lo := if t0 ≤ tf then t0 else tf
    let hi := if t0 ≤ tf then tf else t0
    if pts.any (· < lo) || pts.any (hi < ·) then .error .valueError
    else if (t0 < tf && !strictInc pts) || (tf < t0 && !strictDec pts) then .error .valueError
    else if tf == t0 then .error .indexError
    else .ok (pts.map fun t => (t, S.flow p (t - t0) y0))

/-- `Scipy.integrate_time_course` (I:93-128): prepend `t0` if different, integrate, advance -/
def integrateTimeCourse {σ} (S : Sys σ) (p : Pars) (ig : Integ σ) (pts : List Rat) :
    Except Exc (Integ σ × List (Rat × σ)) :=
  match pts with
  | [] => .error .indexError                                  -- time_points[0]
  | h :: _ =>
    let pts' := if h != ig.t0 then ig.t0 :: pts else pts
    match solveIvp S p ig.y0 pts' with
    | .error e => .error e
    | .ok rows =>
      match rows.getLast? with
      | none => .error .indexError
      | some r => .ok ({ ig with t0 := r.1, y0 := r.2 }, rows)

/-- number of returned points of `Scipy.integrate` (I:87) -/
def nPoints : Option Nat → Nat
  | none => 100
  | some k => k + 1

/-! ### Simulator -/

def Sim.init {σ} (p : Pars) (y0 : σ) : Sim σ :=
  { pars := p, y0 := y0, shift := none, segs := none, integ := ⟨0, y0, y0⟩, errors := 0 }

/-- `variables[-1].iloc[-1]` with its index; IndexError on an empty frame -/
def lastRow? {σ} (l : List (Seg σ)) : Except Exc (Rat × σ) :=
  match l.getLast? with
  | none => .error .indexError
  | some seg =>
    match seg.rows.getLast? with
    | none => .error .indexError
    | some r => .ok r

/-- `0.0 if variables is None else variables[-1].index[-1]` -/
def reached? {σ} (segs : Option (List (Seg σ))) : Except Exc Rat :=
  match segs with
  | none => .ok 0
  | some l => match lastRow? l with
    | .error e => .error e
    | .ok r => .ok r.1

def shiftRows {σ} (sh : Option Rat) (rows : List (Rat × σ)) : List (Rat × σ) :=
  match sh with
  | none => rows
  | some d => rows.map fun r => (r.1 + d, r.2)

/-- `variables` / `simulation_parameters` bookkeeping of `_handle_simulation_results` -/
def appendSeg {σ} (segs : Option (List (Seg σ))) (rows : List (Rat × σ)) (p : Pars)
    (skipfirst : Bool) : List (Seg σ) :=
  match segs with
  | none => [⟨rows, p⟩]
  | some l => l ++ [⟨if skipfirst then rows.tail else rows, p⟩]

/-- `_handle_simulation_results` (S:245-283), success branch -/
def handle {σ} (s : Sim σ) (rows : List (Rat × σ)) (skipfirst : Bool) : Sim σ :=
  { s with segs := some (appendSeg s.segs (shiftRows s.shift rows) s.pars skipfirst) }

def unshift (sh : Option Rat) (t : Rat) : Rat :=
  match sh with
  | none => t
  | some d => t - d

/-- `Simulator.simulate` (S:285-323) -/
def simulate {σ} (S : Sys σ) (s : Sim σ) (tEnd : Rat) (steps : Option Nat) : Out (Sim σ) :=
  if s.errors > 0 then (s, none) else
  match reached? s.segs with
  | .error e => (s, some e)
  | .ok prior =>
    if tEnd ≤ prior then (s, some .valueError) else
    let tRel := unshift s.shift tEnd
    match integrateTimeCourse S s.pars s.integ (linspace s.integ.t0 tRel (nPoints steps)) with
    | .error e => (s, some e)
    | .ok (ig, rows) => (handle { s with integ := ig } rows true, none)

/-- `Simulator.simulate_time_course` (S:325-369) -/
def timeCourse {σ} (S : Sys σ) (s : Sim σ) (pts : List Rat) : Out (Sim σ) :=
  if s.errors > 0 then (s, none) else
  match reached? s.segs with
  | .error e => (s, some e)
  | .ok prior =>
    match pts.getLast? with
    | none => (s, some .indexError)
    | some last =>
      if last ≤ prior then (s, some .valueError) else
      let kept := pts.filter (prior ≤ ·)
      match integrateTimeCourse S s.pars s.integ (kept.map (unshift s.shift)) with
      | .error e => (s, some e)
      | .ok (ig, rows) => (handle { s with integ := ig } rows true, none)

/-- `Simulator.simulate_to_steady_state` (S:478-512) over `Scipy.integrate_to_steady_state`
    (I:130-173): `reset()`, a separate `ode` object, `t0`/`y0` are not advanced.  `res` is the
    solver's answer: the time (relative to the reset point) at which it declared a steady state,
    or `none` for `NoSteadyState`. -/
def steady {σ} (S : Sys σ) (s : Sim σ) (res : Option Rat) : Out (Sim σ) :=
  if s.errors > 0 then (s, none) else
  let ig : Integ σ := { s.integ with t0 := 0, y0 := s.integ.y0orig }
  match res with
  | none => ({ s with integ := ig, errors := s.errors + 1 }, none)
  | some t => (handle { s with integ := ig } [(t, S.flow s.pars t ig.y0)] false, none)

/-- `d[k] = v` for an existing key; `none` when `k` is not a parameter -/
def parsSet : Pars → Name → Rat → Option Pars
  | [], _, _ => none
  | (k', v') :: rest, k, v =>
    if k' == k then some ((k', v) :: rest)
    else match parsSet rest k v with
      | none => none
      | some r => some ((k', v') :: r)

/-- applying the updates in order; `none` at the first unknown name -/
def parsUpdateGo : Pars → Upd → Option Pars
  | p, [] => some p
  | p, (k, v) :: rest =>
    match parsSet p k v with
    | none => none
    | some p' => parsUpdateGo p' rest

/-- `Model.update_parameters`: every name is checked before the first value is written (since the repair of
    F-C03-10): KeyError for an unknown name leaves the parameters as they were -/
def parsUpdate (p : Pars) (kvs : Upd) : Out Pars :=
  match parsUpdateGo p kvs with
  | some p' => (p', none)
  | none => (p, some .keyError)

def updPars {σ} (s : Sim σ) (kvs : Upd) : Out (Sim σ) :=
  let r := parsUpdate s.pars kvs
  ({ s with pars := r.1 }, r.2)

/-- `Simulator._initialise_integrator` -/
def reinit {σ} (y0 : σ) : Integ σ := ⟨0, y0, y0⟩

/-- `Simulator.update_variables` (S:218-…): before the first simulation override `y0`; afterwards
    restart the integrator from the last state with the overrides applied and remember the
    absolute time.  (After the fix of F-C04-3 a second override at the same time point builds
    on the first.) -/
def updVars {σ} (S : Sys σ) (s : Sim σ) (ov : Upd) : Out (Sim σ) :=
  match s.segs with
  | none =>
    let y0 := S.ov ov s.y0
    ({ s with y0 := y0, integ := reinit y0 }, none)
  | some l =>
    match lastRow? l with
    | .error e => (s, some e)
    | .ok r =>
      let base := if s.shift == some r.1 then s.y0 else r.2
      let y0 := S.ov ov base
      ({ s with y0 := y0, shift := some r.1, integ := reinit y0 }, none)

/-- `Simulator.clear_results` -/
def clear {σ} (s : Sim σ) : Sim σ :=
  { s with segs := none, shift := none, errors := 0, integ := reinit s.y0 }

/-- the index of `get_result().variables` (the frames concatenated) -/
def times {σ} (segs : Option (List (Seg σ))) : List Rat :=
  (segs.getD []).flatMap fun s => s.rows.map (·.1)

/-- all recorded rows, concatenated -/
def allRows {σ} (segs : Option (List (Seg σ))) : List (Rat × σ) :=
  (segs.getD []).flatMap (·.rows)

inductive Op where
  | simulate (tEnd : Rat) (steps : Option Nat)
  | timeCourse (pts : List Rat)
  | steady (res : Option Rat)
  | updPars (kvs : Upd)
  | updVars (ov : Upd)
  | clear
deriving Repr, DecidableEq

def step {σ} (S : Sys σ) (s : Sim σ) : Op → Out (Sim σ)
  | .simulate t n => simulate S s t n
  | .timeCourse pts => timeCourse S s pts
  | .steady r => steady S s r
  | .updPars kvs => updPars s kvs
  | .updVars ov => updVars S s ov
  | .clear => (clear s, none)

/-- a history: every op is attempted, exceptions are recorded and the state at the raise kept -/
def run {σ} (S : Sys σ) (s : Sim σ) : List Op → Sim σ × List (Option Exc)
  | [] => (s, [])
  | op :: rest =>
    let r := step S s op
    let rr := run S r.1 rest
    (rr.1, r.2 :: rr.2)

/-- stop at the first exception (a Python method body) -/
def runStop {σ} (S : Sys σ) (s : Sim σ) : List Op → Out (Sim σ)
  | [] => (s, none)
  | op :: rest =>
    match step S s op with
    | (s', none) => runStop S s' rest
    | (s', some e) => (s', some e)

/-! ### Specification machine: absolute time only -/

structure Spec (σ : Type) where
  pars : Pars
  y0 : σ                           -- state a cleared simulator restarts from
  now : Rat                        -- time reached
  cur : σ                          -- state at `now`, overrides applied
  segs : Option (List (Seg σ))
  failed : Bool

namespace Spec

def init {σ} (p : Pars) (y0 : σ) : Spec σ :=
  { pars := p, y0 := y0, now := 0, cur := y0, segs := none, failed := false }

/-- the trajectory from (`now`, `cur`) sampled on `grid` -/
def sample {σ} (S : Sys σ) (a : Spec σ) (grid : List Rat) : List (Rat × σ) :=
  grid.map fun t => (t, S.flow a.pars (t - a.now) a.cur)

/-- record a sampled stretch that starts with the row at `now` (kept only in the very first segment) -/
def record {σ} (S : Sys σ) (a : Spec σ) (grid : List Rat) (tEnd : Rat) : Spec σ :=
  { a with segs := some (appendSeg a.segs (sample S a grid) a.pars true),
           now := tEnd, cur := S.flow a.pars (tEnd - a.now) a.cur }

def simulate {σ} (S : Sys σ) (a : Spec σ) (tEnd : Rat) (steps : Option Nat) : Out (Spec σ) :=
  if a.failed then (a, none) else
  if tEnd ≤ a.now then (a, some .valueError) else
  if nPoints steps < 2 then (a, some .indexError) else
  (record S a (linspace a.now tEnd (nPoints steps)) tEnd, none)

def timeCourse {σ} (S : Sys σ) (a : Spec σ) (pts : List Rat) : Out (Spec σ) :=
  if a.failed then (a, none) else
  match pts.getLast? with
  | none => (a, some .indexError)
  | some last =>
    if last ≤ a.now then (a, some .valueError) else
    let kept := pts.filter (a.now ≤ ·)
    let grid := if kept.head? == some a.now then kept else a.now :: kept
    if !strictInc grid then (a, some .valueError) else
    (record S a grid last, none)

def steady {σ} (S : Sys σ) (a : Spec σ) (res : Option Rat) : Out (Spec σ) :=
  if a.failed then (a, none) else
  match res with
  | none => ({ a with failed := true }, none)
  | some d =>
    let y := S.flow a.pars d a.cur
    ({ a with segs := some (appendSeg a.segs [(a.now + d, y)] a.pars false),
              now := a.now + d, cur := y }, none)

def updPars {σ} (a : Spec σ) (kvs : Upd) : Out (Spec σ) :=
  let r := parsUpdate a.pars kvs
  ({ a with pars := r.1 }, r.2)

def updVars {σ} (S : Sys σ) (a : Spec σ) (ov : Upd) : Out (Spec σ) :=
  let y := S.ov ov a.cur
  ({ a with cur := y, y0 := y }, none)

def clear {σ} (a : Spec σ) : Spec σ :=
  { a with segs := none, now := 0, cur := a.y0, failed := false }

def step {σ} (S : Sys σ) (a : Spec σ) : Op → Out (Spec σ)
  | .simulate t n => simulate S a t n
  | .timeCourse pts => timeCourse S a pts
  | .steady r => steady S a r
  | .updPars kvs => updPars a kvs
  | .updVars ov => updVars S a ov
  | .clear => (clear a, none)

def run {σ} (S : Sys σ) (a : Spec σ) : List Op → Spec σ × List (Option Exc)
  | [] => (a, [])
  | op :: rest =>
    let r := step S a op
    let rr := run S r.1 rest
    (rr.1, r.2 :: rr.2)

def runStop {σ} (S : Sys σ) (a : Spec σ) : List Op → Out (Spec σ)
  | [] => (a, none)
  | op :: rest =>
    match step S a op with
    | (a', none) => runStop S a' rest
    | (a', some e) => (a', some e)

end Spec

/-! ### the finding class F-C04-2 as a decidable predicate on histories -/

/-- what a history has done to the integrator, read off the ops alone:
    `steadyOK` — the integrator has not advanced since it was (re)initialised, so `reset()` is harmless;
    `simOK` — the integrator's continuation point is the end of the results. -/
structure HSt where
  steadyOK : Bool
  simOK : Bool
deriving DecidableEq, Repr

def HSt.next (h : HSt) : Op → Option HSt
  | .simulate _ _ => if h.simOK then some ⟨false, true⟩ else none
  | .timeCourse _ => if h.simOK then some ⟨false, true⟩ else none
  | .steady r =>
    if h.steadyOK && (match r with | none => true | some d => 0 < d) then some ⟨false, false⟩ else none
  | .updPars _ => some h
  | .updVars _ => some ⟨true, true⟩
  | .clear => some ⟨true, true⟩

/-- no steady-state run on an integrator that has advanced, no simulation on an integrator a
    steady-state run has left behind; the solver's reported steady-state time is positive -/
def okHist (h : HSt) : List Op → Bool
  | [] => true
  | op :: rest => match h.next op with
    | none => false
    | some h' => okHist h' rest

def HSt.start : HSt := ⟨true, true⟩

/-! ### symbolic states for the driver -/

inductive STerm where
  | init
  | flow (p : Pars) (dt : Rat) (y : STerm)
  | ov (kvs : Upd) (y : STerm)
deriving Repr, DecidableEq

def termSys : Sys STerm := { flow := STerm.flow, ov := STerm.ov }

end Mxl.C04
