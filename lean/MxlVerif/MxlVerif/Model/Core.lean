/-
Executable model of `mxlpy.model.Model`'s numeric core, line for line after
`model.py`: `_create_cache` (439-582), `_get_args` (1983-2019), `__call__`
(2266-2308), `_get_right_hand_side` (2310-2324), `get_stoichiometries`.

Functions are opaque `List Rat → Rat`.  Arity errors are not modelled (the
generator matches arities); a name absent from the argument dict is `KeyError`.
-/
import MxlVerif.Core.Basic
import MxlVerif.Model.Sort
namespace Mxl

structure Fn where
  args : List Name
  fn : List Rat → Rat
deriving Inhabited

inductive Coef where
  | num (c : Rat)
  | dyn (f : Fn)
deriving Inhabited

inductive Val where
  | plain (v : Rat)
  | ia (f : Fn)
deriving Inhabited

structure Rxn where
  rate : Fn
  stoich : List (Name × Coef)
deriving Inhabited

structure Sur where
  args : List Name
  outs : List Name
  fn : List Rat → List Rat
  stoich : List (Name × List (Name × Coef))
deriving Inhabited

/-- exactly `Model`'s seven containers (data carry one opaque scalar each) -/
structure Content where
  vars : List (Name × Val) := []
  pars : List (Name × Val) := []
  derived : List (Name × Fn) := []
  readouts : List (Name × Fn) := []
  rxns : List (Name × Rxn) := []
  surs : List (Name × Sur) := []
  data : List (Name × Rat) := []
deriving Inhabited

/-- an entry of `to_sort` -/
inductive Comp where
  | fn (f : Fn)
  | sur (s : Sur)
deriving Inhabited

def Comp.args : Comp → List Name
  | .fn f => f.args
  | .sur s => s.args

def Comp.provided (k : Name) : Comp → List Name
  | .fn _ => [k]
  | .sur s => s.outs

def lookupArgs (env : Env) (args : List Name) : Except Err (List Rat) :=
  args.mapM env.get

/-- `Derived.calculate` -/
def Fn.calc (f : Fn) (env : Env) : Except Err Rat := do
  let vs ← lookupArgs env f.args
  pure (f.fn vs)

/-- `calculate_inpl(name, args)` for Derived / Reaction / InitialAssignment /
    surrogates (`args |= dict(zip(outputs, fn(...), strict=True))`). -/
def Comp.calcInpl (k : Name) (c : Comp) (env : Env) : Except Err Env :=
  match c with
  | .fn f => do
    let v ← f.calc env
    pure (env.set k v)
  | .sur s => do
    let vs ← lookupArgs env s.args
    let out := s.fn vs
    if out.length == s.outs.length then pure (env.setMany (s.outs.zip out))
    else .error (.valueError "zip() argument lengths differ")

structure Cache where
  order : List Name
  varNames : List Name
  dynOrder : List Name
  basePars : List (Name × Rat)
  allPars : List (Name × Rat)
  stoich : List (Name × List (Name × Rat))
  dynStoich : List (Name × List (Name × Fn))
  init : List (Name × Rat)
deriving Inhabited

def plainOf (m : List (Name × Val)) : List (Name × Rat) :=
  m.filterMap fun kv => match kv.2 with | .plain v => some (kv.1, v) | .ia _ => none

def iaOf (m : List (Name × Val)) : List (Name × Fn) :=
  m.filterMap fun kv => match kv.2 with | .plain _ => none | .ia f => some (kv.1, f)

/-- `initial_assignments | self._derived | self._reactions | self._surrogates` -/
def Content.toSort (c : Content) : List (Name × Comp) :=
  let ias := omUnion (iaOf c.vars) (iaOf c.pars)
  omUnion (omUnion (omUnion (ias.map fun kv => (kv.1, Comp.fn kv.2))
    (c.derived.map fun kv => (kv.1, Comp.fn kv.2)))
    (c.rxns.map fun kv => (kv.1, Comp.fn kv.2.rate)))
    (c.surs.map fun kv => (kv.1, Comp.sur kv.2))

def Content.available (c : Content) : List Name :=
  omKeys (plainOf c.pars) ++ omKeys (plainOf c.vars) ++ omKeys c.data ++ ["time"]

def Content.deps (c : Content) : List Dep :=
  c.toSort.map fun kv => { name := kv.1, required := kv.2.args, provided := kv.2.provided kv.1 }

/-- `base_parameter_values | base_variable_values | self._data | {"time": t}`
    as a lookup environment (later operands shadow earlier ones). -/
def baseEnv (pars vars data : List (Name × Rat)) (t : Rat) : Env :=
  ("time", t) :: (data.reverse ++ vars.reverse ++ pars.reverse)

def evalInOrder (ts : List (Name × Comp)) : List Name → Env → Except Err Env
  | [], env => .ok env
  | k :: ks, env =>
    match ts.lookup k with
    | none => .error (.keyError k)
    | some c => do
      let env' ← c.calcInpl k env
      evalInOrder ts ks env'

/-- one-pass static / dynamic classification with the growing
    `all_parameter_names` set (`model.py:512-526`).  Returns
    `(static_order, dyn_order, all_parameter_names)`. -/
def classify (c : Content) : List Name → List Name → List Name → List Name →
    (List Name × List Name × List Name)
  | [], st, dy, apn => (st.reverse, dy.reverse, apn)
  | k :: ks, st, dy, apn =>
    if (omKeys c.rxns).contains k || (omKeys c.surs).contains k then
      classify c ks st (k :: dy) apn
    else if (omKeys c.vars).contains k || (omKeys c.pars).contains k then
      classify c ks (k :: st) dy apn
    else
      match c.derived.lookup k with
      | none => classify c ks st dy apn   -- unreachable: KeyError in Python
      | some d =>
        if d.args.all (fun a => apn.contains a) then classify c ks (k :: st) dy (k :: apn)
        else classify c ks st (k :: dy) apn

/-- `d.setdefault(cpd, {})[rxn] = v` -/
def setNested {β} (m : List (Name × List (Name × β))) (cpd rxn : Name) (v : β) :
    List (Name × List (Name × β)) :=
  omInsert m cpd (omInsert ((m.lookup cpd).getD []) rxn v)

def touchNested {β} (m : List (Name × List (Name × β))) (cpd : Name) :
    List (Name × List (Name × β)) :=
  match m.lookup cpd with
  | some _ => m
  | none => m ++ [(cpd, [])]

abbrev StoichAcc := List (Name × List (Name × Rat)) × List (Name × List (Name × Fn))

def addCoef (apn : List Name) (dependent : Env) (acc : StoichAcc) (rxn cpd : Name)
    (factor : Coef) : Except Err StoichAcc :=
  let st := touchNested acc.1 cpd
  match factor with
  | .num c => pure (setNested st cpd rxn c, acc.2)
  | .dyn f =>
    if f.args.all (fun a => apn.contains a) then do
      let v ← f.calc dependent
      pure (setNested st cpd rxn v, acc.2)
    else pure (st, setNested acc.2 cpd rxn f)

def addCoefs (apn : List Name) (dependent : Env) (rxn : Name) :
    List (Name × Coef) → StoichAcc → Except Err StoichAcc
  | [], acc => pure acc
  | (cpd, f) :: rest, acc => do
    let acc' ← addCoef apn dependent acc rxn cpd f
    addCoefs apn dependent rxn rest acc'

def addRxns (apn : List Name) (dependent : Env) :
    List (Name × List (Name × Coef)) → StoichAcc → Except Err StoichAcc
  | [], acc => pure acc
  | (rxn, st) :: rest, acc => do
    let acc' ← addCoefs apn dependent rxn st acc
    addRxns apn dependent rest acc'

/-- every (reaction-or-surrogate-flux name, stoichiometry) in the order
    `_create_cache` walks them -/
def Content.allStoich (c : Content) : List (Name × List (Name × Coef)) :=
  (c.rxns.map fun kv => (kv.1, kv.2.stoich)) ++ c.surs.flatMap (fun kv => kv.2.stoich)

def createCache (c : Content) : Except Err Cache := do
  let basePars := plainOf c.pars
  let baseVars := plainOf c.vars
  let ts := c.toSort
  let order ← sortDeps c.available c.deps
  let dependent ← evalInOrder ts order (baseEnv basePars baseVars c.data 0)
  let (staticOrder, dynOrder, apn) := classify c order [] [] (omKeys c.pars)
  let (st, dst) ← addRxns apn dependent c.allStoich ([], [])
  let init ← (omKeys c.vars).mapM fun k => do pure (k, ← dependent.get k)
  let extra ← (staticOrder.filter fun k => !(omKeys c.vars).contains k).mapM
    fun k => do pure (k, ← dependent.get k)
  pure { order, varNames := omKeys c.vars, dynOrder, basePars,
         allPars := omUnion basePars extra, stoich := st, dynStoich := dst, init }

/-- `self._derived | self._reactions | self._surrogates` -/
def Content.containers (c : Content) : List (Name × Comp) :=
  omUnion (omUnion (c.derived.map fun kv => (kv.1, Comp.fn kv.2))
    (c.rxns.map fun kv => (kv.1, Comp.fn kv.2.rate)))
    (c.surs.map fun kv => (kv.1, Comp.sur kv.2))

/-- `_get_args` before the final `args.pop(data)`; the environment is a lookup list. -/
def getArgsEnv (c : Content) (cache : Cache) (vars : List (Name × Rat)) (t : Rat) :
    Except Err Env :=
  evalInOrder c.containers cache.dynOrder
    (("time", t) :: (c.data.reverse ++ vars.reverse ++ cache.allPars.reverse))

/-- the dict `_get_args` returns, as (key, value) with each key once, data removed -/
def envToDict (dataKeys : List Name) (env : Env) : List (Name × Rat) :=
  let ks := sortDedup (env.map (·.1))
  (ks.filter fun k => !dataKeys.contains k).filterMap fun k =>
    (env.lookup k).map fun v => (k, v)

def accumulate (dxdt : List (Name × Rat)) (k : Name) (v : Rat) : Except Err (List (Name × Rat)) :=
  match dxdt.lookup k with
  | none => .error (.keyError k)
  | some old => pure (omInsert dxdt k (old + v))

def accStatic (dep : Env) (k : Name) : List (Name × Rat) → List (Name × Rat) →
    Except Err (List (Name × Rat))
  | [], dxdt => pure dxdt
  | (flux, n) :: rest, dxdt => do
    let fv ← dep.get flux
    let dxdt' ← accumulate dxdt k (n * fv)
    accStatic dep k rest dxdt'

def accStaticAll (dep : Env) : List (Name × List (Name × Rat)) → List (Name × Rat) →
    Except Err (List (Name × Rat))
  | [], dxdt => pure dxdt
  | (k, st) :: rest, dxdt => do
    let dxdt' ← accStatic dep k st dxdt
    accStaticAll dep rest dxdt'

def accDyn (dep : Env) (k : Name) : List (Name × Fn) → List (Name × Rat) →
    Except Err (List (Name × Rat))
  | [], dxdt => pure dxdt
  | (flux, dv) :: rest, dxdt => do
    let n ← dv.calc dep
    let fv ← dep.get flux
    let dxdt' ← accumulate dxdt k (n * fv)
    accDyn dep k rest dxdt'

def accDynAll (dep : Env) : List (Name × List (Name × Fn)) → List (Name × Rat) →
    Except Err (List (Name × Rat))
  | [], dxdt => pure dxdt
  | (k, st) :: rest, dxdt => do
    let dxdt' ← accDyn dep k st dxdt
    accDynAll dep rest dxdt'

/-- common tail of `__call__` and `_get_right_hand_side` -/
def rhsFromArgs (cache : Cache) (varNames : List Name) (dep : Env) :
    Except Err (List (Name × Rat)) := do
  let z := varNames.map fun k => (k, (0 : Rat))
  let d1 ← accStaticAll dep cache.stoich z
  accDynAll dep cache.dynStoich d1

/-- `Model.__call__(time, variables)` -/
def callRhs (c : Content) (t : Rat) (xs : List Rat) : Except Err (List Rat) := do
  let cache ← createCache c
  if xs.length != cache.varNames.length then
    .error (.valueError "zip() argument lengths differ")
  else
    let dep ← getArgsEnv c cache (cache.varNames.zip xs) t
    let dxdt ← rhsFromArgs cache cache.varNames dep
    cache.varNames.mapM fun k => Env.get dxdt k

/-- `Model.get_right_hand_side(variables, time)` -/
def getRhs (c : Content) (vars : List (Name × Rat)) (t : Rat) :
    Except Err (List (Name × Rat)) := do
  let cache ← createCache c
  let dep ← getArgsEnv c cache vars t
  rhsFromArgs cache (omKeys c.vars) dep

end Mxl
