/-
C08 — syntax of the two languages the SBML exporter translates between.

`PyExpr` is the fragment of Python's `ast` that `mxlpy/sbml/_export.py::_convert_node` looks at
(every other node kind is `other`), `MathML` is a libsbml `ASTNode` tree (node type + children).
Import-free (core Lean only): the driver links this file.
-/
import MxlVerif.Core.Basic
namespace Mxl.C08

/-- `ast.unaryop` -/
inductive UOp where
  | usub | not | uadd | invert
deriving Repr, DecidableEq, Inhabited

/-- `ast.operator` -/
inductive BOp where
  | add | sub | mult | div | pow | floordiv | mod
  | matmult | lshift | rshift | bitor | bitxor | bitand
deriving Repr, DecidableEq, Inhabited

/-- `ast.cmpop` -/
inductive COp where
  | eq | ne | lt | le | gt | ge | is | isNot | in_ | notIn
deriving Repr, DecidableEq, Inhabited

/-- `ast.Constant.value` -/
inductive Const where
  | num (q : Rat)          -- int or float
  | bool (b : Bool)
  | other                  -- str, None, bytes, complex, Ellipsis
deriving Repr, DecidableEq, Inhabited

/-- what stands in call position -/
inductive Callee where
  | direct (f : String)                 -- `f(...)`            func = Name
  | lib (parent attr : String)          -- `np.f(...)`         func = Attribute(Name)
  | libDeep                             -- `np.linalg.f(...)`  func = Attribute(<not a Name>)
  | other                               -- `(lambda ..)(..)`, `f()(..)`, subscripts
deriving Repr, DecidableEq, Inhabited

inductive PyExpr where
  | name (id : String)
  | const (c : Const)
  | unary (op : UOp) (e : PyExpr)
  | binop (op : BOp) (l r : PyExpr)
  /-- `l op r (op' r')*` — Python's parser guarantees at least one link -/
  | compare (l : PyExpr) (op : COp) (r : PyExpr) (rest : List (COp × PyExpr))
  | ifexp (test body orelse : PyExpr)
  | call (f : Callee) (args : List PyExpr)
  | attr (parent attr : String)          -- `math.pi`
  | attrDeep                             -- `a.b.c`
  | boolop (isAnd : Bool) (vals : List PyExpr)
  | callKw                               -- a call with at least one keyword argument: `max(x, k, key=abs)`
  | other                                -- Lambda, Subscript, Tuple, ...
deriving Repr, Inhabited

/-- the statements of a function body (after `DocstringRemover`) -/
inductive PyStmt where
  | ret (e : Option PyExpr)
  | other
deriving Repr, Inhabited

/-- libsbml node types that may occur; the wire/translator name is `AST_<NAME>` -/
inductive MType where
  | plus | minus | times | divide | power
  | fnPower | fnQuotient | fnRem | fnRoot | fnAbs | fnCeiling | fnFloor | fnExp | fnLn | fnLog
  | fnSin | fnCos | fnTan | fnArcsin | fnArccos | fnArctan
  | fnSinh | fnCosh | fnTanh | fnArcsinh | fnArccosh | fnArctanh
  | fnMax | fnMin | fnPiecewise | fnFactorial
  | logicalAnd | logicalOr | logicalNot | logicalXor
  | relEq | relNeq | relLt | relLeq | relGt | relGeq
  | function                     -- AST_FUNCTION: a call of a user-defined function definition
  | unknown                      -- AST_UNKNOWN (what `libsbml.ASTNode()` gives)
deriving Repr, DecidableEq, Inhabited

inductive CSym where
  | e | pi | true | false
deriving Repr, DecidableEq, Inhabited

inductive MathML where
  | ci (name : String)
  | cn (q : Rat)
  | cnInf
  | cnNan
  | csym (s : CSym)
  | apply (t : MType) (cs : List MathML)
deriving Repr, Inhabited

/-- exception classes the exporter raises (compared as classes only) -/
inductive XErr where
  | notImplemented (what : String)
  | valueError (what : String)
  | attributeError (what : String)
  | indexError
  | typeError (what : String)
deriving Repr, DecidableEq, Inhabited

def XErr.cls : XErr → String
  | .notImplemented _ => "NotImplementedError"
  | .valueError _ => "ValueError"
  | .attributeError _ => "AttributeError"
  | .indexError => "IndexError"
  | .typeError _ => "TypeError"

end Mxl.C08
