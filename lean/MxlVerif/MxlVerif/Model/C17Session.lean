/-
C17 — what one process keeps between two calls of `sbml.read` (`_import.py`), line for line:

  read              digest = sha256(file bytes).hexdigest()[:digestLen];  out_name = f"{valid_filename(stem)}_{digest}"
                    model_fn = import_from_path(out_name, _codegen(out_name, model));  return model_fn()
  _codegen          path = <tmp dir> / f"{name}.py";  path.open("w+") … write(generated code)      (the ONLY file written)
  import_from_path  module = module_from_spec(spec_from_file_location(module_name, file_path));
                    sys.modules[module_name] = module;  exec_module(module)                       (the ONLY process state written)

`translate/c17.py` checks on every run that these are all the effects (no module-level mutable state, no `global`, no
memoising decorator, no other subscript / attribute store on a non-local object) and regenerates the constants of
`Generated/C17Session.lean` (`digestLen`, the pieces of the module name, the list of effects).
The returned model holds the function objects of the module executed at that moment; what can change under it afterwards is
the FILE its functions were defined in (`inspect.getsource`, i.e. what export and code generation read) and the entry of
`sys.modules`.  `codeOf` (document content ↦ generated text) and the digest function are parameters: sha256 and the text
generation are not modelled here.
-/
import MxlVerif.Model.C17Doc
import MxlVerif.Generated.C17Session
namespace Mxl.C17
open Mxl.C17.GenSession

/-- the process state `read` touches -/
structure Session where
  files : List (String × String)      -- generated-module directory: module name ↦ text of `<name>.py`
  modules : List (String × String)    -- `sys.modules`: module name ↦ text the module object was executed from
deriving Repr, Inhabited, DecidableEq

def Session.empty : Session := ⟨[], []⟩

/-- Python `d[k] = v` / writing a file: the entry is replaced, other entries stay -/
def setKey (l : List (String × String)) (k v : String) : List (String × String) :=
  (k, v) :: l.filter (fun kv => kv.1 != k)

/-- a document as `read` sees it: stem of the path, digest of the bytes, generated code of its content -/
structure ReadIn where
  stem : String
  digest : String
  code : String
deriving Repr, Inhabited, DecidableEq

/-- what `read` makes of a file: `dg` stands for `sha256(bytes).hexdigest()[:digestLen]`, `cg` for the text generated for the
    content (pysbml + code generation) — both functions of the bytes alone -/
def readInOf (dg cg : String → String) (stem content : String) : ReadIn := ⟨stem, dg content, cg content⟩

/-- `out_name` of `read`, assembled from the generated pieces -/
def outName (d : ReadIn) : String :=
  moduleNameParts.foldl (fun acc p => acc ++ match p with
    | .validFilename => "mb_" ++ normStem d.stem
    | .lit s => s
    | .digest => d.digest) ""

/-- one call of `read`: `_codegen` writes the file, `import_from_path` registers and executes it; the handle of the
    returned model is the module name (its functions' `__module__`, the file of their source) -/
def readDoc (s : Session) (d : ReadIn) : Session × String :=
  let name := outName d
  let files := setKey s.files name d.code
  let text := (files.lookup name).getD ""
  (⟨files, setKey s.modules name text⟩, name)

def readAll : Session → List ReadIn → Session × List String
  | s, [] => (s, [])
  | s, d :: ds =>
    let (s1, h) := readDoc s d
    let (s2, hs) := readAll s1 ds
    (s2, h :: hs)

/-- `inspect.getsource` of a function of the model with this handle -/
def sourceOf (s : Session) (h : String) : Option String := s.files.lookup h
/-- the text `sys.modules[h]` was executed from -/
def loadedOf (s : Session) (h : String) : Option String := s.modules.lookup h

end Mxl.C17
