/-
Executable model of `model.py::_check_if_is_sortable` and `_sort_dependencies`
(queue with re-enqueue, `last_name` shortcut, `len(elements)**2` iteration cap).

Python sets are modelled as lists used only through membership.
-/
import MxlVerif.Core.Basic
import MxlVerif.Generated.C02
namespace Mxl

structure Dep where
  name : Name
  required : List Name
  provided : List Name
deriving Repr, DecidableEq, Inhabited

def ready (av : List Name) (d : Dep) : Bool := d.required.all (fun r => av.contains r)

/-- `dependency.required.difference(S)` as a sorted list. -/
def missingOf (av : List Name) (d : Dep) : List Name :=
  sortDedup (d.required.filter (fun r => !av.contains r))

def allAvailable (av : List Name) (els : List Dep) : List Name :=
  av ++ els.flatMap (·.provided)

/-- `_check_if_is_sortable`: the `not_solvable` dict (insertion order, later
    entries of the same name overwrite). -/
def notSolvable (av : List Name) (els : List Dep) : List (Name × List Name) :=
  let all := allAvailable av els
  els.foldl (fun acc d =>
    if ready all d then acc else omInsert acc d.name (missingOf all d)) []

def checkSortable (av : List Name) (els : List Dep) : Except Err Unit :=
  let ns := notSolvable av els
  if ns.isEmpty then .ok () else .error (.missing ns)

/-- payload of `CircularDependencyError`: for each unsorted queue entry the
    requirements (looked up BY NAME in `mod_to_args`, last element of that name
    wins) that are still unavailable. -/
def circularPayload (els : List Dep) (av : List Name) (q : List Dep) :
    List (Name × List Name) :=
  let modToArgs : List (Name × List Name) :=
    els.foldl (fun acc d => omInsert acc d.name d.required) []
  q.foldl (fun acc d =>
    omInsert acc d.name
      (sortDedup (((modToArgs.lookup d.name).getD []).filter (fun r => !av.contains r)))) []

/-- The `while True` loop.  `b` = number of further iterations that may
    complete without tripping `i > max_iterations`; initially `max_iterations`.
    `order` is kept reversed.  `last` is `last_name`. -/
def sortLoop (els : List Dep) :
    Nat → List Name → List Dep → Option Name → List Name → Except Err (List Name)
  | _, _, [], _, order => .ok order.reverse
  | b, av, d :: rest, last, order =>
    if ready av d then
      match b with
      | 0 => .error (.circular (circularPayload els (d.provided ++ av) rest))
      | b + 1 => sortLoop els b (d.provided ++ av) rest last (d.name :: order)
    else if last == some d.name then
      -- after `fix: raise CircularDependencyError for a self-dependent component`
      .error (.circular [(d.name, missingOf av d)])
    else
      match b with
      | 0 => .error (.circular (circularPayload els av (rest ++ [d])))
      | b + 1 => sortLoop els b av (rest ++ [d]) (some d.name) order

def sortDeps (av : List Name) (els : List Dep) : Except Err (List Name) := do
  checkSortable av els
  sortLoop els (Generated.C02.maxIterations els.length) av els none []

end Mxl
